import PPLV.Widen.ImplH79
/-!
# C08 stage 2 — `Polyhedron::BHRZ03_widening_assign` as coded (executable model, no Mathlib)

Code-shaped model of `/repo/src/Polyhedron_widenings.cc` l. 413–852:

* the driver `BHRZ03_widening_assign` (l. 760): trivial returns, `y.minimize()`, `x.minimize()`,
  `y_cert`, the precheck `y_cert.is_stabilizing(x) || y.contains(x)`, the token (`--*tp; return`),
  `select_H79_constraints`, `H79`, the three techniques in order, the fallback `x.m_swap(H79)`;
* the OUTPUT CONTRACT of each technique as coded (l. 534, 605, 747): the candidate `result` replaces `x`
  only if `y_cert.is_stabilizing(result) && !result.contains(H79)`;
* the construction of the first candidate, `BHRZ03_combining_constraints` (l. 413): the guard
  `x_minus_H79_cs.num_rows() <= 1`, the loop over the points (closure points for NNC) of `y`, the test
  `lies_on_the_boundary_of_H79`, the collection `combining_cs`, the averaged constraint, the guard
  `improves_upon_H79`, `result = H79 + new_cs`.

The candidates of `BHRZ03_evolving_points` / `BHRZ03_evolving_rays` (generator-side constructions
followed by `intersection_assign(H79)` and `minimize()`) enter as oracle data together with the
certificates of all minimised objects (the certificate of a polyhedron needs its minimal generator
system, i.e. a conversion); their contract — `x ⊆ candidate ⊆ H79` — is what the code's own comments
claim and what the driver checks on the real accepted results.
-/
namespace PPLV.Widen.Impl
open PPLV.Widen

/-- `e += Linear_Expression(c.expression())`, rows of possibly different length -/
def vadd : Vec → Vec → Vec
  | a :: as, b :: bs => (a + b) :: vadd as bs
  | [], bs => bs
  | as, [] => as

/-- `Linear_Expression(c.expression())`: the epsilon column of an NNC row is hidden -/
def CRow.expression (nnc : Bool) (c : CRow) : Vec := if nnc then c.e.dropLast else c.e

/-- `e >= 0` / `e > 0` inserted into a system of topology `nnc`, dimension `n` (row length `n+1`,
    plus the epsilon column: `0` for `>=`, `-1` for `>`) -/
def mkIneq (nnc : Bool) (n : Nat) (e : Vec) (strict : Bool) : CRow :=
  let body := (e ++ List.replicate (n + 1 - e.length) 0).take (n + 1)
  { e := if nnc then body ++ [if strict then -1 else 0] else body, eq := false }

/-- the body of the loop over `y.gen_sys` (l. 453–509) for one generator `g`: the constraints it adds
    to `new_cs` -/
def combiningForPoint (nnc : Bool) (n : Nat) (h79Cs xMinusH79 : List CRow) (g : GRow) : List CRow :=
  if (g.isPoint nnc && !nnc) || (g.isClosurePoint nnc && nnc) then
    -- l. 459–470
    let liesOnBoundary := h79Cs.reverse.any fun c => !c.eq && sp c.e g.e == 0
    if liesOnBoundary then [] else
    -- l. 474–480: `for (j = num_rows; j-- > 0; )`
    let combining := xMinusH79.reverse.filter fun c => sp c.e g.e == 0
    match combining with
    | [] => []
    | [c] => [c]
    | _ =>
      -- l. 489–496: `for (h = rows; h-- > 0; )`
      let strict := combining.any (·.isStrict nnc)
      let e := combining.reverse.foldl (fun acc c => vadd acc (c.expression nnc)) [0]
      if !allHomZero e then [mkIneq nnc n e strict] else []
  else []

/-- `new_cs` of `BHRZ03_combining_constraints` (l. 446–509): `for (i = y.gen_sys.num_rows(); i-- > 0; )` -/
def combiningNewCs (nnc : Bool) (n : Nat) (yGens : List GRow) (h79Cs xMinusH79 : List CRow) : List CRow :=
  yGens.reverse.flatMap (combiningForPoint nnc n h79Cs xMinusH79)

/-- a candidate after `result.minimize()`: its constraints and the data `is_stabilizing` reads -/
structure Cand where
  cs : List CRow
  cert : BHRZ03Cert
deriving Repr, Inhabited

/-- oracle data of one call of the driver -/
structure BOracle where
  /-- `y.minimize()`: `none` = empty -/
  yMin : Option YMin
  /-- `x.con_sys` after `x.minimize()`, in the row order it has when `select_H79_constraints` runs
      (the certificate and containment tests of l. 794 may re-sort it) -/
  xCons : List CRow
  /-- `BHRZ03_Certificate y_cert(y)` -/
  yCert : BHRZ03Cert
  /-- the certificate data of the minimised `x` (what `y_cert.compare(x)` computes) -/
  xCert : BHRZ03Cert
  /-- `y.contains(x)` -/
  yContainsX : Bool
  /-- `y` after `select_H79_constraints` (NNC workaround; for C = `yMin`) -/
  ySel : YMin
  /-- `H79` after `add_recycled_constraints(H79_cs); minimize()`: constraints and certificate data -/
  h79 : Cand
  /-- `H79.relation_with(c) == strictly_intersects()` -/
  strictlyIntersects : CRow → Bool
  /-- `result.contains(H79)` for a candidate given by constraints -/
  containsH79 : List CRow → Bool
  /-- certificate data of `H79 + new_cs` after `minimize()` (first technique) -/
  cert1 : List CRow → BHRZ03Cert
  /-- `result` of `BHRZ03_evolving_points` after `minimize()` -/
  cand2 : Cand
  /-- `result` of `BHRZ03_evolving_rays`; `none`: `candidate_rays.has_no_rows()` -/
  cand3 : Option Cand

/-- the acceptance test shared by the three techniques (l. 534 / 605 / 747):
    `y_cert.is_stabilizing(result) && !result.contains(H79)` -/
def accept (o : BOracle) (c : Cand) : Bool := o.yCert.isStabilizing c.cert && !o.containsH79 c.cs

/-- `BHRZ03_combining_constraints(y, y_cert, H79, x_minus_H79_cs)` (l. 413): `some result` when it
    returns `true` -/
def bhrz03CombiningConstraints (nnc : Bool) (n : Nat) (o : BOracle) (yGens : List GRow)
    (xMinusH79 : List CRow) : Option Cand :=
  if xMinusH79.length ≤ 1 then none else            -- l. 442
  let newCs := combiningNewCs nnc n yGens o.h79.cs xMinusH79
  if !(newCs.reverse.any o.strictlyIntersects) then none else     -- l. 513–523
  let cs := o.h79.cs ++ newCs                        -- l. 527–530
  let c : Cand := { cs := cs, cert := o.cert1 cs }
  if accept o c then some c else none

/-- which branch produced the value left in `x` -/
inductive Branch where
  | trivial | yEmpty | stabilizing | token | combining | points | rays | h79
deriving DecidableEq, Repr, Inhabited

/-- what the driver leaves in `*this`: `none` = `x` (minimised) itself -/
structure BRes where
  branch : Branch
  cs : Option (List CRow)
  tp : Option Nat
deriving Repr, Inhabited

/-- `Polyhedron::BHRZ03_widening_assign(y, tp)` (l. 760) -/
def bhrz03WideningAssign (x : Poly) (yMarkedEmpty : Bool) (o : BOracle) (tp : Option Nat) : BRes :=
  if x.n == 0 || x.markedEmpty || yMarkedEmpty then ⟨.trivial, none, tp⟩ else     -- l. 776
  match o.yMin with
  | none => ⟨.yEmpty, none, tp⟩                                                   -- l. 781
  | some _ =>
    if o.yCert.isStabilizing o.xCert || o.yContainsX then ⟨.stabilizing, none, tp⟩ else   -- l. 794
    match tp with
    | some (t + 1) => ⟨.token, none, some t⟩                                      -- l. 802
    | _ =>
      let sel := selectH79Constraints x.nnc o.xCons o.ySel.conSys o.ySel.genSys o.ySel.satG  -- l. 814
      match bhrz03CombiningConstraints x.nnc x.n o o.ySel.genSys sel.2 with      -- l. 828
      | some c => ⟨.combining, some c.cs, tp⟩
      | none =>
        if accept o o.cand2 then ⟨.points, some o.cand2.cs, tp⟩ else             -- l. 834
        match o.cand3 with                                                        -- l. 840
        | some c3 => if accept o c3 then ⟨.rays, some c3.cs, tp⟩ else ⟨.h79, some o.h79.cs, tp⟩
        | none => ⟨.h79, some o.h79.cs, tp⟩                                       -- l. 847

end PPLV.Widen.Impl
