import PPLV.Widen.ImplH79ProofsEngineTaut
import PPLV.Widen.ImplH79ProofsEngineFacet
import PPLV.Widen.ImplH79ProofsEngineMin

/-!
# C08 stage 2b — the contract `MinimalDD` derived from what the conversion engine guarantees

`MinimalDD.hfacet` and `MinimalDD.hymin`, assumed by the `_partial` theorems of `Props/C08Impl.lean`, follow
from `EngineDD` (proved of the output of `PPLV.Conv.minimize`: `engineDD_of_minimize`) together with
* `GPos`: the first column of a generator is `0` for a line and `≥ 0` otherwise (holds when the positivity
  constraint is a row of the system given to `minimize`), and
* `FacetPoints`: every non-tautological inequality is saturated by a POINT of the generator system.
  `EngineDD` alone does not imply `hymin` (`hymin_fails_without_facetPoints`: `{x = 0, 1 + x ≥ 0}` — the
  positivity constraint in disguise, which the real `simplify` removes by back-substitution).
-/
namespace PPLV.Widen.Impl

theorem minimalDD_of_engine (n : Nat) (y : YMin) (hy : EngineDD n y) (hgp : GPos y) (hfp : FacetPoints y) :
    MinimalDD n y where
  wf := hy.wf
  satG_ok := hy.satG_ok
  oneTaut := oneTaut_of_engine n y hy
  gens_in := hy.gens_in
  hymin := hymin_of_engine n y hy hfp
  hfacet := hfacet_of_engine n y hy hgp

end PPLV.Widen.Impl
