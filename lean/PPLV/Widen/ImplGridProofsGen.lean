import PPLV.Widen.ImplGridProofsCg

/-!
# C08, stage 2 — `Grid::generator_widening_assign`: the object level of the generator path

* every exit of `generator_widening_assign` as an equation on the whole 4-tuple
  (`generatorWideningAssign_trivial`, `_x_empty`, `_more_rows`, `_more_lines`, `_all_selected`, `_widened`, `_tokens`);
* what a token changes (`generatorWideningAssign_token`);
* the grid assigned to `x` / to `y` with any token argument (`generatorWideningAssign_fst_cases`,
  `generatorWideningAssign_snd_cases`); the dispatch of `widening_assign` (`wideningAssign_gen`).
-/
namespace PPLV.Widen.ImplGrid
open PPLV.Lattice PPLV.Lattice.Red

/-! ### the exits as equations -/

theorem generatorWideningAssign_trivial (contains : GridM → GridM → Bool) (x y : GridM) (tp : Option Nat)
    (h : x.n = 0 ∨ x.empty = true ∨ y.empty = true) :
    generatorWideningAssign contains x y tp = (x, y, tp, "trivial") := by
  unfold generatorWideningAssign
  rw [if_pos h]

/-- `x` is found empty while its generators are brought up to date (l.312) -/
theorem generatorWideningAssign_x_empty (contains : GridM → GridM → Bool) (x y : GridM) (tp : Option Nat)
    (h0 : ¬ (x.n = 0 ∨ x.empty = true ∨ y.empty = true)) (hx : x.minimizeGenerators.empty = true) :
    generatorWideningAssign contains x y tp = (x.minimizeGenerators, y, tp, "x_empty") := by
  unfold generatorWideningAssign
  rw [if_neg h0]
  simp only [hx, if_true]

/-- the early return "`x` has more generator rows than `y`" (l.335) -/
theorem generatorWideningAssign_more_rows (contains : GridM → GridM → Bool) (x y : GridM) (tp : Option Nat)
    (h0 : ¬ (x.n = 0 ∨ x.empty = true ∨ y.empty = true)) (hx : x.minimizeGenerators.empty = false)
    (hrows : x.minimizeGenerators.gen.length > y.minimizeGenerators.gen.length) :
    generatorWideningAssign contains x y tp = (x.minimizeGenerators, y.minimizeGenerators, tp, "more_rows") := by
  unfold generatorWideningAssign
  rw [if_neg h0]
  simp only [hx, Bool.false_eq_true, if_false, hrows, if_true]

/-- the early return "`x` has more lines than `y`" (l.339) -/
theorem generatorWideningAssign_more_lines (contains : GridM → GridM → Bool) (x y : GridM) (tp : Option Nat)
    (h0 : ¬ (x.n = 0 ∨ x.empty = true ∨ y.empty = true)) (hx : x.minimizeGenerators.empty = false)
    (hrows : ¬ x.minimizeGenerators.gen.length > y.minimizeGenerators.gen.length)
    (hlines : numLines x.minimizeGenerators.gen > numLines y.minimizeGenerators.gen) :
    generatorWideningAssign contains x y tp = (x.minimizeGenerators, y.minimizeGenerators, tp, "more_lines") := by
  unfold generatorWideningAssign
  rw [if_neg h0]
  simp only [hx, Bool.false_eq_true, if_false, hrows, hlines, if_true]

/-- the generators `generator_widening_assign` selects -/
def genwSelected (x y : GridM) : List GRow :=
  selectWiderGenerators x.minimizeGenerators.n x.minimizeGenerators.gen x.minimizeGenerators.dk
    y.minimizeGenerators.gen y.minimizeGenerators.dk

/-- the grid `generator_widening_assign` builds from the selected generators -/
def genwResult (x y : GridM) : GridM :=
  addRecycledGridGeneratorsToEmpty x.minimizeGenerators.n
    (selectWiderGenerators x.minimizeGenerators.n x.minimizeGenerators.gen x.minimizeGenerators.dk
      y.minimizeGenerators.gen y.minimizeGenerators.dk)

theorem genwResult_eq (x y : GridM) :
    genwResult x y = addRecycledGridGeneratorsToEmpty x.minimizeGenerators.n (genwSelected x y) := rfl

/-- the early return "all the parameters were selected" (l.348) -/
theorem generatorWideningAssign_all_selected (contains : GridM → GridM → Bool) (x y : GridM) (tp : Option Nat)
    (h0 : ¬ (x.n = 0 ∨ x.empty = true ∨ y.empty = true)) (hx : x.minimizeGenerators.empty = false)
    (hrows : ¬ x.minimizeGenerators.gen.length > y.minimizeGenerators.gen.length)
    (hlines : ¬ numLines x.minimizeGenerators.gen > numLines y.minimizeGenerators.gen)
    (hall : numParameters (genwSelected x y) = numParameters x.minimizeGenerators.gen) :
    generatorWideningAssign contains x y tp = (x.minimizeGenerators, y.minimizeGenerators, tp, "all_selected") := by
  unfold genwSelected at hall
  unfold generatorWideningAssign
  rw [if_neg h0]
  simp only [hx, Bool.false_eq_true, if_false, hrows, hlines, hall, if_true]

/-- the exit that widens: a null token pointer, or a token count of 0 -/
theorem generatorWideningAssign_widened (contains : GridM → GridM → Bool) (x y : GridM) (tp : Option Nat)
    (htp : tp = none ∨ tp = some 0)
    (h0 : ¬ (x.n = 0 ∨ x.empty = true ∨ y.empty = true)) (hx : x.minimizeGenerators.empty = false)
    (hrows : ¬ x.minimizeGenerators.gen.length > y.minimizeGenerators.gen.length)
    (hlines : ¬ numLines x.minimizeGenerators.gen > numLines y.minimizeGenerators.gen)
    (hall : numParameters (genwSelected x y) ≠ numParameters x.minimizeGenerators.gen) :
    generatorWideningAssign contains x y tp = (genwResult x y, y.minimizeGenerators, tp, "widened") := by
  unfold genwSelected at hall
  unfold generatorWideningAssign
  rw [if_neg h0]
  simp only [hx, Bool.false_eq_true, if_false, hrows, hlines, hall]
  rcases htp with rfl | rfl <;> rfl

/-- `x` after `x.contains(result)`: the congruences of `x` (minimised generators) are brought up to date -/
def genwXTok (x : GridM) : GridM :=
  if x.minimizeGenerators.cgUp then x.minimizeGenerators else x.minimizeGenerators.updateCongruences

/-- the exit with a positive token count: `x` (minimised, congruences up to date) is kept, a token is used iff
    `result` is not contained -/
theorem generatorWideningAssign_tokens (contains : GridM → GridM → Bool) (x y : GridM) (t : Nat)
    (h0 : ¬ (x.n = 0 ∨ x.empty = true ∨ y.empty = true)) (hx : x.minimizeGenerators.empty = false)
    (hrows : ¬ x.minimizeGenerators.gen.length > y.minimizeGenerators.gen.length)
    (hlines : ¬ numLines x.minimizeGenerators.gen > numLines y.minimizeGenerators.gen)
    (hall : numParameters (genwSelected x y) ≠ numParameters x.minimizeGenerators.gen) :
    generatorWideningAssign contains x y (some (t + 1)) =
      if contains x.minimizeGenerators (genwResult x y) = true
      then (genwXTok x, y.minimizeGenerators, some (t + 1), "token_kept")
      else (genwXTok x, y.minimizeGenerators, some t, "token_used") := by
  unfold genwSelected at hall
  unfold generatorWideningAssign
  rw [if_neg h0]
  simp only [hx, Bool.false_eq_true, if_false, hrows, hlines, hall]
  unfold genwResult genwXTok
  cases contains x.minimizeGenerators (addRecycledGridGeneratorsToEmpty x.minimizeGenerators.n
    (selectWiderGenerators x.minimizeGenerators.n x.minimizeGenerators.gen x.minimizeGenerators.dk
      y.minimizeGenerators.gen y.minimizeGenerators.dk)) <;>
    cases x.minimizeGenerators.cgUp <;> simp

/-! ### tokens -/

/-- what a positive token count changes: nothing but the count on every exit that does not widen; where the plain
    call widens, `x` (minimised, with its congruences brought up to date by `x.contains(result)`) is kept and one
    token is used iff `result` is not contained in it -/
theorem generatorWideningAssign_token (contains : GridM → GridM → Bool) (x y : GridM) (t : Nat) :
    let plain := generatorWideningAssign contains x y none
    let tok := generatorWideningAssign contains x y (some (t + 1))
    (plain.2.2.2 ≠ "widened" → tok = (plain.1, plain.2.1, some (t + 1), plain.2.2.2)) ∧
    (plain.2.2.2 = "widened" →
      tok.1 = (if x.minimizeGenerators.cgUp then x.minimizeGenerators else x.minimizeGenerators.updateCongruences) ∧
      tok.2.1 = plain.2.1 ∧
      tok.2.2.1 = (if contains x.minimizeGenerators plain.1 then some (t + 1) else some t)) := by
  intro plain tok
  by_cases h0 : x.n = 0 ∨ x.empty = true ∨ y.empty = true
  · have e1 : plain = _ := generatorWideningAssign_trivial contains x y none h0
    have e2 : tok = _ := generatorWideningAssign_trivial contains x y (some (t + 1)) h0
    rw [e1, e2]
    exact ⟨fun _ => rfl, fun h => absurd h (by simp)⟩
  by_cases hx : x.minimizeGenerators.empty = true
  · have e1 : plain = _ := generatorWideningAssign_x_empty contains x y none h0 hx
    have e2 : tok = _ := generatorWideningAssign_x_empty contains x y (some (t + 1)) h0 hx
    rw [e1, e2]
    exact ⟨fun _ => rfl, fun h => absurd h (by simp)⟩
  have hx' : x.minimizeGenerators.empty = false := by simpa using hx
  by_cases hrows : x.minimizeGenerators.gen.length > y.minimizeGenerators.gen.length
  · have e1 : plain = _ := generatorWideningAssign_more_rows contains x y none h0 hx' hrows
    have e2 : tok = _ := generatorWideningAssign_more_rows contains x y (some (t + 1)) h0 hx' hrows
    rw [e1, e2]
    exact ⟨fun _ => rfl, fun h => absurd h (by simp)⟩
  by_cases hlines : numLines x.minimizeGenerators.gen > numLines y.minimizeGenerators.gen
  · have e1 : plain = _ := generatorWideningAssign_more_lines contains x y none h0 hx' hrows hlines
    have e2 : tok = _ := generatorWideningAssign_more_lines contains x y (some (t + 1)) h0 hx' hrows hlines
    rw [e1, e2]
    exact ⟨fun _ => rfl, fun h => absurd h (by simp)⟩
  by_cases hall : numParameters (genwSelected x y) = numParameters x.minimizeGenerators.gen
  · have e1 : plain = _ := generatorWideningAssign_all_selected contains x y none h0 hx' hrows hlines hall
    have e2 : tok = _ := generatorWideningAssign_all_selected contains x y (some (t + 1)) h0 hx' hrows hlines hall
    rw [e1, e2]
    exact ⟨fun _ => rfl, fun h => absurd h (by simp)⟩
  · have e1 : plain = _ := generatorWideningAssign_widened contains x y none (Or.inl rfl) h0 hx' hrows hlines hall
    have e2 : tok = _ := generatorWideningAssign_tokens contains x y t h0 hx' hrows hlines hall
    rw [e1, e2]
    refine ⟨fun h => absurd rfl h, fun _ => ?_⟩
    unfold genwXTok
    cases contains x.minimizeGenerators (genwResult x y) <;> simp

/-! ### any token count; the second argument; the dispatch of `widening_assign` -/

/-- with any token argument the grid assigned to `x` is the one of the plain call, or (only where the plain call
    widens) `x` minimised with its congruences up to date -/
theorem generatorWideningAssign_fst_cases (contains : GridM → GridM → Bool) (x y : GridM) (tp : Option Nat) :
    (generatorWideningAssign contains x y tp).1 = (generatorWideningAssign contains x y none).1 ∨
    ((generatorWideningAssign contains x y none).2.2.2 = "widened" ∧
      (generatorWideningAssign contains x y tp).1 = genwXTok x) := by
  rcases tp with _ | _ | t
  · left; rfl
  · by_cases h0 : x.n = 0 ∨ x.empty = true ∨ y.empty = true
    · rw [generatorWideningAssign_trivial _ _ _ _ h0, generatorWideningAssign_trivial _ _ _ _ h0]; left; rfl
    by_cases hx : x.minimizeGenerators.empty = true
    · rw [generatorWideningAssign_x_empty _ _ _ _ h0 hx, generatorWideningAssign_x_empty _ _ _ _ h0 hx]; left; rfl
    have hx' : x.minimizeGenerators.empty = false := by simpa using hx
    by_cases hrows : x.minimizeGenerators.gen.length > y.minimizeGenerators.gen.length
    · rw [generatorWideningAssign_more_rows _ _ _ _ h0 hx' hrows, generatorWideningAssign_more_rows _ _ _ _ h0 hx' hrows]
      left; rfl
    by_cases hlines : numLines x.minimizeGenerators.gen > numLines y.minimizeGenerators.gen
    · rw [generatorWideningAssign_more_lines _ _ _ _ h0 hx' hrows hlines,
        generatorWideningAssign_more_lines _ _ _ _ h0 hx' hrows hlines]; left; rfl
    by_cases hall : numParameters (genwSelected x y) = numParameters x.minimizeGenerators.gen
    · rw [generatorWideningAssign_all_selected _ _ _ _ h0 hx' hrows hlines hall,
        generatorWideningAssign_all_selected _ _ _ _ h0 hx' hrows hlines hall]; left; rfl
    · rw [generatorWideningAssign_widened _ _ _ _ (Or.inr rfl) h0 hx' hrows hlines hall,
        generatorWideningAssign_widened _ _ _ _ (Or.inl rfl) h0 hx' hrows hlines hall]; left; rfl
  · obtain ⟨h1, h2⟩ := generatorWideningAssign_token contains x y t
    by_cases hw : (generatorWideningAssign contains x y none).2.2.2 = "widened"
    · right; exact ⟨hw, (h2 hw).1⟩
    · left; rw [h1 hw]

/-- the grid assigned to `y` (through the `const_cast`) is `y` or `y` with its generators minimised -/
theorem generatorWideningAssign_snd_cases (contains : GridM → GridM → Bool) (x y : GridM) (tp : Option Nat) :
    (generatorWideningAssign contains x y tp).2.1 = y ∨
    (generatorWideningAssign contains x y tp).2.1 = y.minimizeGenerators := by
  by_cases h0 : x.n = 0 ∨ x.empty = true ∨ y.empty = true
  · rw [generatorWideningAssign_trivial _ _ _ _ h0]; left; rfl
  by_cases hx : x.minimizeGenerators.empty = true
  · rw [generatorWideningAssign_x_empty _ _ _ _ h0 hx]; left; rfl
  have hx' : x.minimizeGenerators.empty = false := by simpa using hx
  right
  by_cases hrows : x.minimizeGenerators.gen.length > y.minimizeGenerators.gen.length
  · rw [generatorWideningAssign_more_rows _ _ _ _ h0 hx' hrows]
  by_cases hlines : numLines x.minimizeGenerators.gen > numLines y.minimizeGenerators.gen
  · rw [generatorWideningAssign_more_lines _ _ _ _ h0 hx' hrows hlines]
  by_cases hall : numParameters (genwSelected x y) = numParameters x.minimizeGenerators.gen
  · rw [generatorWideningAssign_all_selected _ _ _ _ h0 hx' hrows hlines hall]
  · rcases tp with _ | _ | t
    · rw [generatorWideningAssign_widened _ _ _ _ (Or.inl rfl) h0 hx' hrows hlines hall]
    · rw [generatorWideningAssign_widened _ _ _ _ (Or.inr rfl) h0 hx' hrows hlines hall]
    · rw [generatorWideningAssign_tokens _ _ _ _ h0 hx' hrows hlines hall]
      split <;> rfl

/-- `widening_assign` takes the generator path when a congruence system is out of date and both generator systems
    are up to date -/
theorem wideningAssign_gen (contains : GridM → GridM → Bool) (x y : GridM) (tp : Option Nat)
    (hc : ¬ (x.cgUp = true ∧ y.cgUp = true)) (hx : x.genUp = true) (hy : y.genUp = true) :
    wideningAssign contains x y tp = generatorWideningAssign contains x y tp := by
  unfold wideningAssign
  have : (x.cgUp && y.cgUp) = false := by
    cases h1 : x.cgUp <;> cases h2 : y.cgUp <;> simp_all
  simp [this, hx, hy]

/-! ### the grid built from the selected generators -/

/-- `result.add_recycled_grid_generators(ggs)` on `Grid(n, EMPTY)` with a non-empty `ggs`: the generators are the
    selected rows with their divisors normalised; only the generators are up to date -/
theorem addRecycledGridGeneratorsToEmpty_of_ne (n : Nat) (ggs : List GRow) (h : ggs ≠ []) :
    (addRecycledGridGeneratorsToEmpty n ggs).gen = (normalizeDivisors n ggs 1).1 ∧
    (addRecycledGridGeneratorsToEmpty n ggs).n = n ∧
    (addRecycledGridGeneratorsToEmpty n ggs).empty = false ∧
    (addRecycledGridGeneratorsToEmpty n ggs).genUp = true ∧
    (addRecycledGridGeneratorsToEmpty n ggs).genMin = false ∧
    (addRecycledGridGeneratorsToEmpty n ggs).cgUp = false := by
  unfold addRecycledGridGeneratorsToEmpty
  cases ggs with
  | nil => exact absurd rfl h
  | cons a l => simp [emptyGrid]

theorem addRecycledGridGeneratorsToEmpty_nil (n : Nat) : addRecycledGridGeneratorsToEmpty n [] = emptyGrid n := rfl

/-! ### examples: `x = (0,0) + ℤ(2,1) + ℚ(0,1)`, `y = (0,0) + ℤ(4,0) + ℚ(0,1)` in dimension 2, generators minimised -/

def exGenX : GridM :=
  { n := 2, empty := false, cgUp := false, cgMin := false, genUp := true, genMin := true, con := [],
    gen := [⟨false, [1, 0, 0, 0]⟩, ⟨false, [0, 2, 1, 1]⟩, ⟨true, [0, 0, 1, 0]⟩], dk := [0, 0, 1] }
def exGenY : GridM :=
  { exGenX with gen := [⟨false, [1, 0, 0, 0]⟩, ⟨false, [0, 4, 0, 1]⟩, ⟨true, [0, 0, 1, 0]⟩] }

/-- the parameter along `A` differs and becomes a line: the result is the whole plane -/
example : (generatorWideningAssign (fun _ _ => false) exGenX exGenY none).2.2.2 = "widened" := by decide +kernel
example : (generatorWideningAssign (fun _ _ => false) exGenX exGenY none).1.gen =
    [⟨false, [1, 0, 0, 0]⟩, ⟨true, [0, 2, 1, 0]⟩, ⟨true, [0, 0, 1, 0]⟩] := by decide +kernel
/-- with a token the widening is postponed and the token is used -/
example : (generatorWideningAssign (fun _ _ => false) exGenX exGenY (some 1)).2.2.1 = some 0 ∧
    (generatorWideningAssign (fun _ _ => false) exGenX exGenY (some 1)).2.2.2 = "token_used" ∧
    (generatorWideningAssign (fun _ _ => false) exGenX exGenY (some 1)).1.gen = exGenX.gen := by decide +kernel
/-- `x` has more lines than `y`: early return -/
example : (generatorWideningAssign (fun _ _ => false) exGenX
    { exGenX with gen := [⟨false, [1, 0, 0, 0]⟩, ⟨false, [0, 4, 0, 1]⟩, ⟨false, [0, 0, 3, 1]⟩], dk := [0, 0, 0] } none).2.2.2
      = "more_lines" := by decide +kernel

end PPLV.Widen.ImplGrid
