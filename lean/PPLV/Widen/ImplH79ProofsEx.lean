import PPLV.Widen.ImplH79ProofsMain
import PPLV.Widen.ImplBHRZ03Proofs
import Mathlib.Tactic.Ring
import Mathlib.Tactic.Linarith
import Mathlib.Order.ConditionallyCompleteLattice.Basic

/-!
# C08 stage 2 — a concrete instance of the `MinimalDD` contract (non-vacuity of the H79 theorems)

`y = [0, 1] ⊆ ℚ¹` (constraints `p ≥ 0`, `1 - p ≥ 0`; generators the points `0` and `1`) and
`x = [0, 2]`.  `MinimalDD 1 yEx` is PROVED here (including `hymin` and `hfacet`), the selection keeps
`p ≥ 0` only, so the widening gives `[0, +∞)`.
-/
namespace PPLV.Widen.Impl

def yEx : YMin :=
  { conSys := [⟨[0, 1], false⟩, ⟨[1, -1], false⟩]
    genSys := [⟨[1, 0], false⟩, ⟨[1, 1], false⟩]
    satG := [[false, true], [true, false]] }

def xEx : YMin :=
  { conSys := [⟨[0, 1], false⟩, ⟨[2, -1], false⟩]
    genSys := [⟨[1, 0], false⟩, ⟨[1, 2], false⟩]
    satG := [[false, true], [true, false]] }

theorem holds2 (a b : Int) (eq : Bool) (p : Pt) :
    (⟨[a, b], eq⟩ : CRow).holds (hom 1 p 0) ↔
      if eq then (a : ℚ) + b * p 0 = 0 else 0 ≤ (a : ℚ) + b * p 0 := by
  simp [CRow.holds, evalRow, hom]

theorem mem_yEx (p : Pt) : p ∈ den false 1 yEx.conSys ↔ 0 ≤ p 0 ∧ p 0 ≤ 1 := by
  rw [mem_den_false]
  unfold SatRows yEx
  simp only [List.mem_cons, List.not_mem_nil, or_false, forall_eq_or_imp, forall_eq, holds2]
  simp only [Bool.false_eq_true, if_false]
  constructor
  · rintro ⟨h1, h2⟩; constructor <;> (push_cast at h1 h2; linarith)
  · rintro ⟨h1, h2⟩; constructor <;> (push_cast; linarith)

theorem mem_xEx (p : Pt) : p ∈ den false 1 xEx.conSys ↔ 0 ≤ p 0 ∧ p 0 ≤ 2 := by
  rw [mem_den_false]
  unfold SatRows xEx
  simp only [List.mem_cons, List.not_mem_nil, or_false, forall_eq_or_imp, forall_eq, holds2]
  simp only [Bool.false_eq_true, if_false]
  constructor
  · rintro ⟨h1, h2⟩; constructor <;> (push_cast at h1 h2; linarith)
  · rintro ⟨h1, h2⟩; constructor <;> (push_cast; linarith)

theorem yEx_sub_xEx : den false 1 yEx.conSys ⊆ den false 1 xEx.conSys := by
  intro p hp
  rw [mem_yEx] at hp
  rw [mem_xEx]
  exact ⟨hp.1, by linarith [hp.2]⟩

theorem h79Rows_ex : h79Rows xEx yEx = [⟨[0, 1], false⟩] := by decide

theorem h79Rows_ex_ne : den false 1 (h79Rows xEx yEx) ≠ den false 1 yEx.conSys := by
  intro h
  have h2 : (fun _ => (2 : ℚ)) ∈ den false 1 (h79Rows xEx yEx) := by
    rw [h79Rows_ex, mem_den_false]
    intro c hc
    rw [List.mem_singleton] at hc
    subst hc
    rw [holds2]
    norm_num
  rw [h, mem_yEx] at h2
  norm_num at h2

/-- no system of at most one row denotes `[0, 1]` -/
theorem yEx_needs_two (cs : List CRow) (hwf : WFRows 1 cs) (hden : den false 1 cs = den false 1 yEx.conSys) :
    2 ≤ cs.length := by
  have m0 : (fun _ => (0 : ℚ)) ∈ den false 1 cs := by rw [hden, mem_yEx]; norm_num
  have m1 : (fun _ => (1 : ℚ)) ∈ den false 1 cs := by rw [hden, mem_yEx]; norm_num
  have m2 : (fun _ => (2 : ℚ)) ∉ den false 1 cs := by rw [hden, mem_yEx]; norm_num
  have m3 : (fun _ => (-1 : ℚ)) ∉ den false 1 cs := by rw [hden, mem_yEx]; norm_num
  rcases cs with _ | ⟨c, _ | ⟨c', rest⟩⟩
  · exfalso; apply m2; intro c hc; cases hc
  · exfalso
    have hl := hwf c (List.mem_singleton.mpr rfl)
    obtain ⟨e, eq⟩ := c
    match e, hl with
    | [a, b], _ =>
      have k0 := m0 _ (List.mem_singleton.mpr rfl)
      have k1 := m1 _ (List.mem_singleton.mpr rfl)
      have k2 : ¬ (⟨[a, b], eq⟩ : CRow).holds (hom 1 (fun _ => (2 : ℚ)) 0) := by
        intro hh; apply m2; intro c hc; rw [List.mem_singleton] at hc; subst hc; exact hh
      have k3 : ¬ (⟨[a, b], eq⟩ : CRow).holds (hom 1 (fun _ => (-1 : ℚ)) 0) := by
        intro hh; apply m3; intro c hc; rw [List.mem_singleton] at hc; subst hc; exact hh
      rw [holds2] at k0 k1 k2 k3
      cases eq
      · simp only [Bool.false_eq_true, if_false, not_le] at k0 k1 k2 k3
        linarith
      · simp only [if_true] at k0 k1 k2 k3
        apply k2
        linarith
  · simp

theorem yEx_wf : WFRows 1 yEx.conSys := by
  intro c hc
  simp only [yEx, List.mem_cons, List.not_mem_nil, or_false] at hc
  rcases hc with rfl | rfl <;> rfl

theorem xEx_wf : WFRows 1 xEx.conSys := by
  intro c hc
  simp only [xEx, List.mem_cons, List.not_mem_nil, or_false] at hc
  rcases hc with rfl | rfl <;> rfl

theorem yEx_minimal : MinimalDD 1 yEx where
  wf := yEx_wf
  satG_ok := by decide
  oneTaut := by decide
  gens_in := by decide
  hymin := by
    have hmem : 2 ∈ {k | ∃ cs : List CRow, WFRows 1 cs ∧ cs.length = k ∧
        den false 1 cs = den false 1 yEx.conSys} := ⟨yEx.conSys, yEx_wf, rfl, rfl⟩
    have h2 : (yEx.conSys.filter (!·.isTautological false)).length = 2 := by decide
    rw [h2]
    apply le_antisymm
    · apply le_csInf ⟨2, hmem⟩
      rintro k ⟨cs, hwf, rfl, hden⟩
      exact yEx_needs_two cs hwf hden
    · exact Nat.sInf_le hmem
  hfacet := by
    intro ci hl hvalid cj hcj _ hsat p _
    obtain ⟨e, eq⟩ := ci
    match e, hl with
    | [a, b], _ =>
      have v0 := hvalid (fun _ => (0 : ℚ)) (by rw [mem_yEx]; norm_num)
      have v1 := hvalid (fun _ => (1 : ℚ)) (by rw [mem_yEx]; norm_num)
      rw [holds2] at v0 v1 ⊢
      simp only [yEx, List.mem_cons, List.not_mem_nil, or_false] at hcj
      rcases hcj with rfl | rfl
      · -- `cj` is `p ≥ 0`
        rw [holds2]
        simp only [satRow, yEx, sp, List.map_cons, List.map_nil, List.cons.injEq, and_true] at hsat
        obtain ⟨s0, s1⟩ := hsat
        have i0 : a ≤ 0 := by have := decide_eq_decide.mp s0; omega
        have i1 : 0 < a + b := by have := decide_eq_decide.mp s1; omega
        have s0' : (a : ℚ) ≤ 0 := by exact_mod_cast i0
        have s1' : (0 : ℚ) < a + b := by exact_mod_cast i1
        cases eq
        · simp only [Bool.false_eq_true, if_false] at v0 v1 ⊢
          have ha : (a : ℚ) = 0 := by linarith
          have hb : (0 : ℚ) < b := by linarith
          rw [ha]
          push_cast
          constructor
          · intro h
            have : 0 ≤ (b : ℚ) * p 0 := by linarith
            have := (mul_nonneg_iff_of_pos_left hb).mp this
            linarith
          · intro h
            have : 0 ≤ p 0 := by linarith
            have := mul_nonneg hb.le this
            linarith
        · simp only [if_true] at v0 v1
          exfalso
          linarith
      · -- `cj` is `1 - p ≥ 0`
        rw [holds2]
        simp only [satRow, yEx, sp, List.map_cons, List.map_nil, List.cons.injEq, and_true] at hsat
        obtain ⟨s0, s1⟩ := hsat
        have i0 : 0 < a := by have := decide_eq_decide.mp s0; omega
        have i1 : a + b ≤ 0 := by have := decide_eq_decide.mp s1; omega
        have s0' : (0 : ℚ) < a := by exact_mod_cast i0
        have s1' : (a : ℚ) + b ≤ 0 := by exact_mod_cast i1
        cases eq
        · simp only [Bool.false_eq_true, if_false] at v0 v1 ⊢
          have hab : (b : ℚ) = -a := by linarith
          rw [hab]
          push_cast
          constructor
          · intro h
            have : 0 ≤ (a : ℚ) * (1 - p 0) := by linarith
            have := (mul_nonneg_iff_of_pos_left s0').mp this
            linarith
          · intro h
            have : 0 ≤ 1 - p 0 := by linarith
            have := mul_nonneg s0'.le this
            linarith
        · simp only [if_true] at v0 v1
          exfalso
          linarith

/-! ### `x = [0, 2]` is the convex hull of its generators: `satisfied_by_all_generators` is sound -/

theorem sp_nil_right (a : Vec) : sp a [] = 0 := by cases a <;> rfl

theorem eval1 (e : Vec) (p : Pt) :
    evalRow e (hom 1 p 0) =
      ((sp e [1, 0] : Int) : ℚ) * (1 - p 0 / 2) + ((sp e [1, 2] : Int) : ℚ) * (p 0 / 2) := by
  rcases e with _ | ⟨a, _ | ⟨b, rest⟩⟩
  · simp [evalRow, sp]
  · simp only [evalRow, sp, hom_zero]
    push_cast
    ring
  · have hz : evalRow rest (fun i => hom 1 p 0 (i + 1 + 1)) = 0 :=
      evalRow_zero_fun _ _ fun i => hom_beyond 1 p (by omega)
    simp only [evalRow, sp, hom_zero, hz, sp_nil_right]
    have h1 : hom 1 p 0 (0 + 1) = p 0 := by simp [hom]
    rw [h1]
    push_cast
    ring

theorem xEx_hgen (c : CRow) (h : satisfiedByAllGenerators false xEx.genSys c = true) (p : Pt)
    (hp : p ∈ den false 1 xEx.conSys) : c.holds (hom 1 p 0) := by
  rw [mem_xEx] at hp
  obtain ⟨e, eq⟩ := c
  unfold CRow.holds
  rw [eval1]
  have hp1 : 0 ≤ 1 - p 0 / 2 := by linarith [hp.2]
  have hp2 : 0 ≤ p 0 / 2 := by linarith [hp.1]
  cases eq
  · simp only [satisfiedByAllGenerators, CRow.type, xEx, spsAdj, Bool.false_eq_true, if_false,
      Bool.not_false, if_true, List.all_cons, List.all_nil, Bool.and_true, Bool.and_eq_true,
      decide_eq_true_eq] at h
    have h0 : (0 : ℚ) ≤ (sp e [1, 0] : Int) := by exact_mod_cast h.1
    have h2 : (0 : ℚ) ≤ (sp e [1, 2] : Int) := by exact_mod_cast h.2
    simp only [Bool.false_eq_true, if_false]
    exact add_nonneg (mul_nonneg h0 hp1) (mul_nonneg h2 hp2)
  · simp only [satisfiedByAllGenerators, CRow.type, xEx, spsAdj, if_true, List.all_cons, List.all_nil,
      Bool.and_true, Bool.and_eq_true, beq_iff_eq, Bool.false_eq_true, if_false] at h
    simp only [if_true]
    rw [h.1, h.2]
    simp

/-- every point of `[0, 2]` is generated by the points `0` and `2` -/
theorem exPoly_gens (p : Pt) (hp : p ∈ den false 1 xEx.conSys) : GenComb 1 xEx.genSys p := by
  rw [mem_xEx] at hp
  refine ⟨fun k => if k = 0 then 1 - p 0 / 2 else p 0 / 2, ⟨fun _ => ?_, fun _ => ?_, trivial⟩, ?_⟩
  · simp only [if_true]; linarith [hp.2]
  · simp only [Nat.succ_ne_zero, if_false]; linarith [hp.1]
  · intro i hi
    have : i = 0 ∨ i = 1 := by omega
    rcases this with rfl | rfl
    · simp [hom, genComb, xEx, GRow.vec]
    · simp [hom, genComb, xEx, GRow.vec]


end PPLV.Widen.Impl
