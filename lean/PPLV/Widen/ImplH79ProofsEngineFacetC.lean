import PPLV.Widen.ImplH79ProofsEngineFacet0
import Mathlib.Tactic.Linarith

/-!
# C08 stage 2b — consequences of `EngineDD.complete` for linear forms
-/
namespace PPLV.Widen.Impl

private theorem sum_map_zero (l : List Nat) (f : Nat → Int) (h : ∀ i ∈ l, f i = 0) :
    (l.map f).sum = 0 := by
  induction l with
  | nil => simp
  | cons a t ih =>
    simp only [List.map_cons, List.sum_cons]
    have h1 := h a (by simp)
    have h2 := ih (fun i hi => h i (by simp [hi]))
    omega

private theorem sum_map_nonneg (l : List Nat) (f : Nat → Int) (h : ∀ i ∈ l, 0 ≤ f i) :
    0 ≤ (l.map f).sum := by
  induction l with
  | nil => simp
  | cons a t ih =>
    simp only [List.map_cons, List.sum_cons]
    have h1 := h a (by simp)
    have h2 := ih (fun i hi => h i (by simp [hi]))
    omega

private theorem sum_map_eq_zero (l : List Nat) (f : Nat → Int) (h : ∀ i ∈ l, 0 ≤ f i)
    (hs : (l.map f).sum = 0) : ∀ i ∈ l, f i = 0 := by
  induction l with
  | nil => simp
  | cons a t ih =>
    simp only [List.map_cons, List.sum_cons] at hs
    have h1 := h a (by simp)
    have h2 := sum_map_nonneg t f (fun i hi => h i (by simp [hi]))
    intro i hi
    rcases List.mem_cons.1 hi with rfl | hi
    · omega
    · exact ih (fun i hi => h i (by simp [hi])) (by omega) i hi

private theorem getD_gen_eq (y : YMin) (i : Nat) (hi : i < y.genSys.length) :
    y.genSys.getD i default = y.genSys[i] := by
  simp [hi]

private theorem getD_gen (y : YMin) (i : Nat) (hi : i < y.genSys.length) :
    y.genSys.getD i default ∈ y.genSys := by
  rw [getD_gen_eq y i hi]; exact List.getElem_mem _

private theorem eq_zero_of_den {den x : Int} (hden : 0 < den) (h : den * x = 0) : x = 0 := by
  rcases Int.mul_eq_zero.1 h with h1 | h1
  · omega
  · exact h1

theorem complete_zero {n : Nat} {y : YMin} (hy : EngineDD n y) (a : Vec)
    (h : ∀ g ∈ y.genSys, sp a g.e = 0) (v : Vec) (hv : InK n y v) : sp a v = 0 := by
  obtain ⟨den, coef, hden, _, _, hsum⟩ := hy.complete v hv.1 hv.2
  have h0 := hsum a
  rw [sum_map_zero] at h0
  · exact eq_zero_of_den hden h0
  · intro i hi
    have hi' := List.mem_range.1 hi
    have : sp a (y.genSys.getD i default).e = 0 := h _ (getD_gen y i hi')
    show coef.getD i 0 * sp a (y.genSys.getD i default).e = 0
    rw [this, mul_zero]

theorem complete_nonneg {n : Nat} {y : YMin} (hy : EngineDD n y) (a : Vec) (h : ValidG y a)
    (v : Vec) (hv : InK n y v) : 0 ≤ sp a v := by
  obtain ⟨den, coef, hden, _, hcoef, hsum⟩ := hy.complete v hv.1 hv.2
  have h0 := hsum a
  have hnn : 0 ≤ den * sp a v := by
    rw [h0]
    apply sum_map_nonneg
    intro i hi
    have hi' := List.mem_range.1 hi
    have hg := h _ (getD_gen y i hi')
    have hc := hcoef i hi'
    rw [getD_gen_eq y i hi'] at hg
    show 0 ≤ coef.getD i 0 * sp a (y.genSys.getD i default).e
    rw [getD_gen_eq y i hi']
    cases hl : y.genSys[i].line
    · simp [hl] at hg
      exact mul_nonneg (hc hl) hg
    · simp [hl] at hg
      rw [hg, mul_zero]
  by_contra hneg
  have hneg' : sp a v < 0 := by omega
  nlinarith [mul_pos hden (neg_pos.2 hneg')]

theorem complete_sat {n : Nat} {y : YMin} (hy : EngineDD n y) (a b : Vec) (ha : ValidG y a)
    (hb : ValidG y b) (hsat : ∀ g ∈ y.genSys, 0 < sp a g.e → 0 < sp b g.e)
    (v : Vec) (hv : InK n y v) (hbv : sp b v = 0) : sp a v = 0 := by
  obtain ⟨den, coef, hden, _, hcoef, hsum⟩ := hy.complete v hv.1 hv.2
  have hB := hsum b
  rw [hbv, mul_zero] at hB
  have hBt : ∀ i ∈ List.range y.genSys.length,
      (fun i => coef.getD i 0 * sp b (y.genSys.getD i default).e) i = 0 := by
    apply sum_map_eq_zero _ _ _ hB.symm
    intro i hi
    have hi' := List.mem_range.1 hi
    have hg := hb _ (getD_gen y i hi')
    have hc := hcoef i hi'
    rw [getD_gen_eq y i hi'] at hg
    show 0 ≤ coef.getD i 0 * sp b (y.genSys.getD i default).e
    rw [getD_gen_eq y i hi']
    cases hl : y.genSys[i].line
    · simp [hl] at hg
      exact mul_nonneg (hc hl) hg
    · simp [hl] at hg
      rw [hg, mul_zero]
  have h0 := hsum a
  rw [sum_map_zero] at h0
  · exact eq_zero_of_den hden h0
  · intro i hi
    have hi' := List.mem_range.1 hi
    have hmem := getD_gen y i hi'
    have hg := ha _ hmem
    have hc := hcoef i hi'
    have hbt : coef.getD i 0 * sp b (y.genSys.getD i default).e = 0 := hBt i hi
    have hs := hsat _ hmem
    show coef.getD i 0 * sp a (y.genSys.getD i default).e = 0
    rw [getD_gen_eq y i hi'] at hg hbt hs ⊢
    cases hl : y.genSys[i].line
    · simp [hl] at hg
      rcases Int.mul_eq_zero.1 hbt with h1 | h1
      · rw [h1, zero_mul]
      · have : ¬ 0 < sp a y.genSys[i].e := fun hp => by
          have := hs hp
          omega
        have : sp a y.genSys[i].e = 0 := by omega
        rw [this, mul_zero]
    · simp [hl] at hg
      rw [hg, mul_zero]

end PPLV.Widen.Impl
