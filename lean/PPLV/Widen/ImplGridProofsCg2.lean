import PPLV.Widen.ImplGridProofsCg
import PPLV.Lattice.ProofsRedCgLoop
import PPLV.Lattice.ProofsRedCgConv

/-!
# C08, stage 2 — `Grid::congruence_widening_assign`: the object level of the congruence path

* the minimisation preamble keeps the meaning (`minimizeCongruences_spec`);
* every exit of `congruence_widening_assign` with a null token pointer returns a grid that contains `x`
  (`congruenceWideningAssign_contains_x`);
* the early returns (`congruenceWideningAssign_fewer_equalities`, `congruenceWideningAssign_all_selected`) and the
  widening exit (`congruenceWideningAssign_widened`) as equations;
* what a token changes (`congruenceWideningAssign_token`).
-/
namespace PPLV.Widen.ImplGrid
open PPLV.Lattice PPLV.Lattice.Red

/-! ### the minimisation preamble -/

/-- "Ensure that the congruences are in minimal form" on a grid whose congruences are up to date: when the grid is
    not found empty only `con_sys`, `dim_kinds` and the minimised flag change, the rows keep their shape and the
    system keeps its meaning; when it is found empty the system has no solution -/
theorem minimizeCongruences_spec (g : GridM) (hup : g.cgUp = true) (hwf : CWf g.n g.con) :
    ((g.minimizeCongruences).2 = false →
      (g.minimizeCongruences).1.n = g.n ∧ (g.minimizeCongruences).1.empty = g.empty ∧
      (g.minimizeCongruences).1.cgUp = true ∧ CWf g.n (g.minimizeCongruences).1.con ∧
      ∀ p, cgsSem g.n (g.minimizeCongruences).1.con p ↔ cgsSem g.n g.con p) ∧
    ((g.minimizeCongruences).2 = true → ∀ p, ¬ cgsSem g.n g.con p) := by
  obtain ⟨hp1, hp2⟩ := simplifyCgs_preserves g.n g.con g.dk hwf
  have htri := simplifyCgs_triangular g.n g.con g.dk hwf
  by_cases hmin : g.cgMin = true
  · have e : g.minimizeCongruences = (g, false) := by
      unfold GridM.minimizeCongruences; simp [hup, hmin]
    rw [e]
    exact ⟨fun _ => ⟨rfl, rfl, hup, hwf, fun p => Iff.rfl⟩, fun h => by simp at h⟩
  · have hmin' : g.cgMin = false := by simpa using hmin
    by_cases hf : (simplifyCgs g.n g.con g.dk).2.2 = true
    · have e : g.minimizeCongruences = (g.setEmpty, true) := by
        unfold GridM.minimizeCongruences; simp [hup, hmin', hf]
      rw [e]
      exact ⟨fun h => by simp at h, fun _ => hp2 hf⟩
    · have hf' : (simplifyCgs g.n g.con g.dk).2.2 = false := by simpa using hf
      have e : g.minimizeCongruences =
          (({ g with con := (simplifyCgs g.n g.con g.dk).1, dk := (simplifyCgs g.n g.con g.dk).2.1, cgMin := true } : GridM),
            false) := by
        unfold GridM.minimizeCongruences; simp [hup, hmin', hf']
      rw [e]
      exact ⟨fun _ => ⟨rfl, rfl, hup, cgc_final_cwf (htri hf'), hp1 hf'⟩, fun h => by simp at h⟩

/-- the meaning of `x` after the preamble -/
theorem minimizeCongruences_sem (n : Nat) (g : GridM) (hup : g.cgUp = true) (hn : g.n = n) (hwf : CWf n g.con)
    (hne : (g.minimizeCongruences).2 = false) :
    ∀ p, cgsSem n (g.minimizeCongruences).1.con p ↔ cgsSem n g.con p := by
  subst hn
  exact ((minimizeCongruences_spec g hup hwf).1 hne).2.2.2.2

/-! ### the exits as equations -/

theorem congruenceWideningAssign_trivial (contains : GridM → GridM → Bool) (x y : GridM) (tp : Option Nat)
    (h : x.n = 0 ∨ x.empty = true ∨ y.empty = true) :
    congruenceWideningAssign contains x y tp = (x, y, tp, "trivial") := by
  unfold congruenceWideningAssign
  rw [if_pos h]

theorem congruenceWideningAssign_x_empty (contains : GridM → GridM → Bool) (x y : GridM) (tp : Option Nat)
    (h0 : ¬ (x.n = 0 ∨ x.empty = true ∨ y.empty = true)) (hx : (x.minimizeCongruences).2 = true) :
    congruenceWideningAssign contains x y tp = ((x.minimizeCongruences).1, y, tp, "x_empty") := by
  unfold congruenceWideningAssign
  rw [if_neg h0]
  simp only [hx, if_true]

theorem congruenceWideningAssign_y_empty (contains : GridM → GridM → Bool) (x y : GridM) (tp : Option Nat)
    (h0 : ¬ (x.n = 0 ∨ x.empty = true ∨ y.empty = true)) (hx : (x.minimizeCongruences).2 = false)
    (hy : (y.minimizeCongruences).2 = true) :
    congruenceWideningAssign contains x y tp =
      ((x.minimizeCongruences).1, (y.minimizeCongruences).1, tp, "y_empty") := by
  unfold congruenceWideningAssign
  rw [if_neg h0]
  simp only [hx, hy, Bool.false_eq_true, if_false, if_true]

/-- the early return "the number of equalities in `x` is smaller" (l.123) -/
theorem congruenceWideningAssign_fewer_equalities (contains : GridM → GridM → Bool) (x y : GridM) (tp : Option Nat)
    (h0 : ¬ (x.n = 0 ∨ x.empty = true ∨ y.empty = true)) (hx : (x.minimizeCongruences).2 = false)
    (hy : (y.minimizeCongruences).2 = false)
    (hlt : numEqualities (x.minimizeCongruences).1.con < numEqualities (y.minimizeCongruences).1.con) :
    congruenceWideningAssign contains x y tp =
      ((x.minimizeCongruences).1, (y.minimizeCongruences).1, tp, "fewer_equalities") := by
  unfold congruenceWideningAssign
  rw [if_neg h0]
  simp only [hx, hy, Bool.false_eq_true, if_false, hlt, if_true]

/-- the early return "all the congruences were selected" (l.133) -/
theorem congruenceWideningAssign_all_selected (contains : GridM → GridM → Bool) (x y : GridM) (tp : Option Nat)
    (h0 : ¬ (x.n = 0 ∨ x.empty = true ∨ y.empty = true)) (hx : (x.minimizeCongruences).2 = false)
    (hy : (y.minimizeCongruences).2 = false)
    (hlt : ¬ numEqualities (x.minimizeCongruences).1.con < numEqualities (y.minimizeCongruences).1.con)
    (hall : (selectWiderCongruences (x.minimizeCongruences).1.n (x.minimizeCongruences).1.con
        (x.minimizeCongruences).1.dk (y.minimizeCongruences).1.con (y.minimizeCongruences).1.dk).length
          = (x.minimizeCongruences).1.con.length) :
    congruenceWideningAssign contains x y tp =
      ((x.minimizeCongruences).1, (y.minimizeCongruences).1, tp, "all_selected") := by
  unfold congruenceWideningAssign
  rw [if_neg h0]
  simp only [hx, hy, Bool.false_eq_true, if_false, hlt, hall, if_true]

/-- the grid `congruence_widening_assign` builds from the selected congruences -/
def cgwResult (x y : GridM) : GridM :=
  (universeGrid (x.minimizeCongruences).1.n).addRecycledCongruences
    (selectWiderCongruences (x.minimizeCongruences).1.n (x.minimizeCongruences).1.con
      (x.minimizeCongruences).1.dk (y.minimizeCongruences).1.con (y.minimizeCongruences).1.dk)

/-- the exit that widens: no token, or a null token pointer, or a token count of 0 -/
theorem congruenceWideningAssign_widened (contains : GridM → GridM → Bool) (x y : GridM) (tp : Option Nat)
    (htp : tp = none ∨ tp = some 0)
    (h0 : ¬ (x.n = 0 ∨ x.empty = true ∨ y.empty = true)) (hx : (x.minimizeCongruences).2 = false)
    (hy : (y.minimizeCongruences).2 = false)
    (hlt : ¬ numEqualities (x.minimizeCongruences).1.con < numEqualities (y.minimizeCongruences).1.con)
    (hall : (selectWiderCongruences (x.minimizeCongruences).1.n (x.minimizeCongruences).1.con
        (x.minimizeCongruences).1.dk (y.minimizeCongruences).1.con (y.minimizeCongruences).1.dk).length
          ≠ (x.minimizeCongruences).1.con.length) :
    congruenceWideningAssign contains x y tp = (cgwResult x y, (y.minimizeCongruences).1, tp, "widened") := by
  unfold congruenceWideningAssign
  rw [if_neg h0]
  simp only [hx, hy, Bool.false_eq_true, if_false, hlt, hall]
  rcases htp with rfl | rfl <;> rfl

/-- the exit with a positive token count: `x` (minimised) is kept, a token is used iff `result` is not contained -/
theorem congruenceWideningAssign_tokens (contains : GridM → GridM → Bool) (x y : GridM) (t : Nat)
    (h0 : ¬ (x.n = 0 ∨ x.empty = true ∨ y.empty = true)) (hx : (x.minimizeCongruences).2 = false)
    (hy : (y.minimizeCongruences).2 = false)
    (hlt : ¬ numEqualities (x.minimizeCongruences).1.con < numEqualities (y.minimizeCongruences).1.con)
    (hall : (selectWiderCongruences (x.minimizeCongruences).1.n (x.minimizeCongruences).1.con
        (x.minimizeCongruences).1.dk (y.minimizeCongruences).1.con (y.minimizeCongruences).1.dk).length
          ≠ (x.minimizeCongruences).1.con.length) :
    congruenceWideningAssign contains x y (some (t + 1)) =
      if contains (x.minimizeCongruences).1 (cgwResult x y) = true
      then ((x.minimizeCongruences).1, (y.minimizeCongruences).1, some (t + 1), "token_kept")
      else ((x.minimizeCongruences).1, (y.minimizeCongruences).1, some t, "token_used") := by
  unfold congruenceWideningAssign
  rw [if_neg h0]
  simp only [hx, hy, Bool.false_eq_true, if_false, hlt, hall]
  unfold cgwResult
  cases contains (x.minimizeCongruences).1 ((universeGrid (x.minimizeCongruences).1.n).addRecycledCongruences
    (selectWiderCongruences (x.minimizeCongruences).1.n (x.minimizeCongruences).1.con
      (x.minimizeCongruences).1.dk (y.minimizeCongruences).1.con (y.minimizeCongruences).1.dk)) <;> simp

/-! ### the result contains `x` -/

theorem addRecycledCongruences_universe_flags (n : Nat) (cgs : List CRow) :
    ((universeGrid n).addRecycledCongruences cgs).empty = false ∧
    ((universeGrid n).addRecycledCongruences cgs).cgUp = true ∧
    ((universeGrid n).addRecycledCongruences cgs).n = n := by
  unfold GridM.addRecycledCongruences
  cases cgs with
  | nil => simp [universeGrid]
  | cons a l => simp [universeGrid]

/-- `x.congruence_widening_assign(y)` (null token pointer): whatever exit is taken, the grid assigned to `x` is
    non-empty, has its congruences up to date and contains every point of `x` -/
theorem congruenceWideningAssign_contains_x (contains : GridM → GridM → Bool) (n : Nat) (x y : GridM)
    (hxup : x.cgUp = true) (_hyup : y.cgUp = true) (hxn : x.n = n) (hyn : y.n = n)
    (hxwf : CWf n x.con) (hywf : CWf n y.con) (hxe : x.empty = false) (hye : y.empty = false) (hn : 0 < n) :
    let r := congruenceWideningAssign contains x y none
    ∀ p, cgsSem n x.con p → (r.1.empty = false ∧ r.1.cgUp = true ∧ cgsSem n r.1.con p) := by
  intro r p hp
  subst hxn
  have h0 : ¬ (x.n = 0 ∨ x.empty = true ∨ y.empty = true) := by
    rw [hxe, hye]; simp; omega
  obtain ⟨hs1, hs2⟩ := minimizeCongruences_spec x hxup hxwf
  by_cases hx : (x.minimizeCongruences).2 = true
  · exact absurd hp (hs2 hx p)
  · have hx' : (x.minimizeCongruences).2 = false := by simpa using hx
    obtain ⟨hmn, hme, hmup, hmwf, hmsem⟩ := hs1 hx'
    have keep : (x.minimizeCongruences).1.empty = false ∧ (x.minimizeCongruences).1.cgUp = true ∧
        cgsSem x.n (x.minimizeCongruences).1.con p := ⟨by rw [hme, hxe], hmup, (hmsem p).mpr hp⟩
    by_cases hy : (y.minimizeCongruences).2 = true
    · have : r = _ := congruenceWideningAssign_y_empty contains x y none h0 hx' hy
      rw [this]; exact keep
    · have hy' : (y.minimizeCongruences).2 = false := by simpa using hy
      by_cases hlt : numEqualities (x.minimizeCongruences).1.con < numEqualities (y.minimizeCongruences).1.con
      · have : r = _ := congruenceWideningAssign_fewer_equalities contains x y none h0 hx' hy' hlt
        rw [this]; exact keep
      · by_cases hall : (selectWiderCongruences (x.minimizeCongruences).1.n (x.minimizeCongruences).1.con
            (x.minimizeCongruences).1.dk (y.minimizeCongruences).1.con (y.minimizeCongruences).1.dk).length
              = (x.minimizeCongruences).1.con.length
        · have : r = _ := congruenceWideningAssign_all_selected contains x y none h0 hx' hy' hlt hall
          rw [this]; exact keep
        · have : r = _ := congruenceWideningAssign_widened contains x y none (Or.inl rfl) h0 hx' hy' hlt hall
          rw [this]
          obtain ⟨f1, f2, _⟩ := addRecycledCongruences_universe_flags (x.minimizeCongruences).1.n
            (selectWiderCongruences (x.minimizeCongruences).1.n (x.minimizeCongruences).1.con
              (x.minimizeCongruences).1.dk (y.minimizeCongruences).1.con (y.minimizeCongruences).1.dk)
          refine ⟨f1, f2, ?_⟩
          have := cgw_result_contains (x.minimizeCongruences).1.n (x.minimizeCongruences).1.con
            (x.minimizeCongruences).1.dk (y.minimizeCongruences).1.con (y.minimizeCongruences).1.dk
            (by rw [hmn]; exact hmwf) p (by rw [hmn]; exact keep.2.2)
          rw [hmn] at this
          show cgsSem x.n (cgwResult x y).con p
          unfold cgwResult
          rw [hmn]; exact this

/-! ### tokens -/

/-- what a positive token count changes: nothing but the count on every exit that does not widen; where the plain
    call widens, `x` (minimised) is kept and one token is used iff `result` is not contained in it -/
theorem congruenceWideningAssign_token (contains : GridM → GridM → Bool) (x y : GridM) (t : Nat) :
    let plain := congruenceWideningAssign contains x y none
    let tok := congruenceWideningAssign contains x y (some (t + 1))
    (plain.2.2.2 ≠ "widened" → tok = (plain.1, plain.2.1, some (t + 1), plain.2.2.2)) ∧
    (plain.2.2.2 = "widened" → tok.1 = (x.minimizeCongruences).1 ∧ tok.2.1 = plain.2.1 ∧
      tok.2.2.1 = (if contains (x.minimizeCongruences).1 plain.1 then some (t + 1) else some t)) := by
  intro plain tok
  by_cases h0 : x.n = 0 ∨ x.empty = true ∨ y.empty = true
  · have e1 : plain = _ := congruenceWideningAssign_trivial contains x y none h0
    have e2 : tok = _ := congruenceWideningAssign_trivial contains x y (some (t + 1)) h0
    rw [e1, e2]
    exact ⟨fun _ => rfl, fun h => absurd h (by simp)⟩
  by_cases hx : (x.minimizeCongruences).2 = true
  · have e1 : plain = _ := congruenceWideningAssign_x_empty contains x y none h0 hx
    have e2 : tok = _ := congruenceWideningAssign_x_empty contains x y (some (t + 1)) h0 hx
    rw [e1, e2]
    exact ⟨fun _ => rfl, fun h => absurd h (by simp)⟩
  have hx' : (x.minimizeCongruences).2 = false := by simpa using hx
  by_cases hy : (y.minimizeCongruences).2 = true
  · have e1 : plain = _ := congruenceWideningAssign_y_empty contains x y none h0 hx' hy
    have e2 : tok = _ := congruenceWideningAssign_y_empty contains x y (some (t + 1)) h0 hx' hy
    rw [e1, e2]
    exact ⟨fun _ => rfl, fun h => absurd h (by simp)⟩
  have hy' : (y.minimizeCongruences).2 = false := by simpa using hy
  by_cases hlt : numEqualities (x.minimizeCongruences).1.con < numEqualities (y.minimizeCongruences).1.con
  · have e1 : plain = _ := congruenceWideningAssign_fewer_equalities contains x y none h0 hx' hy' hlt
    have e2 : tok = _ := congruenceWideningAssign_fewer_equalities contains x y (some (t + 1)) h0 hx' hy' hlt
    rw [e1, e2]
    exact ⟨fun _ => rfl, fun h => absurd h (by simp)⟩
  by_cases hall : (selectWiderCongruences (x.minimizeCongruences).1.n (x.minimizeCongruences).1.con
      (x.minimizeCongruences).1.dk (y.minimizeCongruences).1.con (y.minimizeCongruences).1.dk).length
        = (x.minimizeCongruences).1.con.length
  · have e1 : plain = _ := congruenceWideningAssign_all_selected contains x y none h0 hx' hy' hlt hall
    have e2 : tok = _ := congruenceWideningAssign_all_selected contains x y (some (t + 1)) h0 hx' hy' hlt hall
    rw [e1, e2]
    exact ⟨fun _ => rfl, fun h => absurd h (by simp)⟩
  · have e1 : plain = _ := congruenceWideningAssign_widened contains x y none (Or.inl rfl) h0 hx' hy' hlt hall
    have e2 : tok = _ := congruenceWideningAssign_tokens contains x y t h0 hx' hy' hlt hall
    rw [e1, e2]
    refine ⟨fun h => absurd rfl h, fun _ => ?_⟩
    cases contains (x.minimizeCongruences).1 (cgwResult x y) <;> simp

/-! ### any token count; the second argument; the dispatch of `widening_assign` -/

/-- with any token argument the grid assigned to `x` is the one of the plain call or `x` minimised -/
theorem congruenceWideningAssign_fst_cases (contains : GridM → GridM → Bool) (x y : GridM) (tp : Option Nat) :
    (congruenceWideningAssign contains x y tp).1 = (congruenceWideningAssign contains x y none).1 ∨
    ((congruenceWideningAssign contains x y none).2.2.2 = "widened" ∧
      (congruenceWideningAssign contains x y tp).1 = (x.minimizeCongruences).1) := by
  rcases tp with _ | _ | t
  · left; rfl
  · by_cases h0 : x.n = 0 ∨ x.empty = true ∨ y.empty = true
    · rw [congruenceWideningAssign_trivial _ _ _ _ h0, congruenceWideningAssign_trivial _ _ _ _ h0]; left; rfl
    by_cases hx : (x.minimizeCongruences).2 = true
    · rw [congruenceWideningAssign_x_empty _ _ _ _ h0 hx, congruenceWideningAssign_x_empty _ _ _ _ h0 hx]; left; rfl
    have hx' : (x.minimizeCongruences).2 = false := by simpa using hx
    by_cases hy : (y.minimizeCongruences).2 = true
    · rw [congruenceWideningAssign_y_empty _ _ _ _ h0 hx' hy, congruenceWideningAssign_y_empty _ _ _ _ h0 hx' hy]
      left; rfl
    have hy' : (y.minimizeCongruences).2 = false := by simpa using hy
    by_cases hlt : numEqualities (x.minimizeCongruences).1.con < numEqualities (y.minimizeCongruences).1.con
    · rw [congruenceWideningAssign_fewer_equalities _ _ _ _ h0 hx' hy' hlt,
        congruenceWideningAssign_fewer_equalities _ _ _ _ h0 hx' hy' hlt]; left; rfl
    by_cases hall : (selectWiderCongruences (x.minimizeCongruences).1.n (x.minimizeCongruences).1.con
        (x.minimizeCongruences).1.dk (y.minimizeCongruences).1.con (y.minimizeCongruences).1.dk).length
          = (x.minimizeCongruences).1.con.length
    · rw [congruenceWideningAssign_all_selected _ _ _ _ h0 hx' hy' hlt hall,
        congruenceWideningAssign_all_selected _ _ _ _ h0 hx' hy' hlt hall]; left; rfl
    · rw [congruenceWideningAssign_widened _ _ _ _ (Or.inr rfl) h0 hx' hy' hlt hall,
        congruenceWideningAssign_widened _ _ _ _ (Or.inl rfl) h0 hx' hy' hlt hall]; left; rfl
  · obtain ⟨h1, h2⟩ := congruenceWideningAssign_token contains x y t
    by_cases hw : (congruenceWideningAssign contains x y none).2.2.2 = "widened"
    · right; exact ⟨hw, (h2 hw).1⟩
    · left; rw [h1 hw]

/-- `x.congruence_widening_assign(y, tp)` with any token argument: the grid assigned to `x` is non-empty, has its
    congruences up to date and contains every point of `x` -/
theorem congruenceWideningAssign_contains_x_tp (contains : GridM → GridM → Bool) (n : Nat) (x y : GridM)
    (tp : Option Nat)
    (hxup : x.cgUp = true) (hyup : y.cgUp = true) (hxn : x.n = n) (hyn : y.n = n)
    (hxwf : CWf n x.con) (hywf : CWf n y.con) (hxe : x.empty = false) (hye : y.empty = false) (hn : 0 < n) :
    let r := congruenceWideningAssign contains x y tp
    ∀ p, cgsSem n x.con p → (r.1.empty = false ∧ r.1.cgUp = true ∧ cgsSem n r.1.con p) := by
  intro r p hp
  have hplain := congruenceWideningAssign_contains_x contains n x y hxup hyup hxn hyn hxwf hywf hxe hye hn p hp
  rcases congruenceWideningAssign_fst_cases contains x y tp with h | ⟨_, h⟩
  · show (congruenceWideningAssign contains x y tp).1.empty = false ∧ _
    rw [h]; exact hplain
  · show (congruenceWideningAssign contains x y tp).1.empty = false ∧ _
    rw [h]
    subst hxn
    obtain ⟨hs1, hs2⟩ := minimizeCongruences_spec x hxup hxwf
    by_cases hx : (x.minimizeCongruences).2 = true
    · exact absurd hp (hs2 hx p)
    · obtain ⟨_, hme, hmup, _, hmsem⟩ := hs1 (by simpa using hx)
      exact ⟨by rw [hme, hxe], hmup, (hmsem p).mpr hp⟩

/-- the grid assigned to `y` (through the `const_cast`) is `y` or `y` minimised -/
theorem congruenceWideningAssign_snd_cases (contains : GridM → GridM → Bool) (x y : GridM) (tp : Option Nat) :
    (congruenceWideningAssign contains x y tp).2.1 = y ∨
    ((y.minimizeCongruences).2 = false ∧
      (congruenceWideningAssign contains x y tp).2.1 = (y.minimizeCongruences).1) ∨
    ((y.minimizeCongruences).2 = true ∧ (congruenceWideningAssign contains x y tp).2.2.2 = "y_empty" ∧
      (congruenceWideningAssign contains x y tp).2.1 = (y.minimizeCongruences).1) := by
  by_cases h0 : x.n = 0 ∨ x.empty = true ∨ y.empty = true
  · rw [congruenceWideningAssign_trivial _ _ _ _ h0]; left; rfl
  by_cases hx : (x.minimizeCongruences).2 = true
  · rw [congruenceWideningAssign_x_empty _ _ _ _ h0 hx]; left; rfl
  have hx' : (x.minimizeCongruences).2 = false := by simpa using hx
  by_cases hy : (y.minimizeCongruences).2 = true
  · rw [congruenceWideningAssign_y_empty _ _ _ _ h0 hx' hy]; right; right; exact ⟨hy, rfl, rfl⟩
  have hy' : (y.minimizeCongruences).2 = false := by simpa using hy
  right; left
  refine ⟨hy', ?_⟩
  by_cases hlt : numEqualities (x.minimizeCongruences).1.con < numEqualities (y.minimizeCongruences).1.con
  · rw [congruenceWideningAssign_fewer_equalities _ _ _ _ h0 hx' hy' hlt]
  by_cases hall : (selectWiderCongruences (x.minimizeCongruences).1.n (x.minimizeCongruences).1.con
      (x.minimizeCongruences).1.dk (y.minimizeCongruences).1.con (y.minimizeCongruences).1.dk).length
        = (x.minimizeCongruences).1.con.length
  · rw [congruenceWideningAssign_all_selected _ _ _ _ h0 hx' hy' hlt hall]
  · rcases tp with _ | _ | t
    · rw [congruenceWideningAssign_widened _ _ _ _ (Or.inl rfl) h0 hx' hy' hlt hall]
    · rw [congruenceWideningAssign_widened _ _ _ _ (Or.inr rfl) h0 hx' hy' hlt hall]
    · rw [congruenceWideningAssign_tokens _ _ _ _ h0 hx' hy' hlt hall]
      split <;> rfl

/-- the minimisation of `y` in place keeps the meaning of `y` (when `y` is not found empty) -/
theorem congruenceWideningAssign_keeps_y (contains : GridM → GridM → Bool) (n : Nat) (x y : GridM) (tp : Option Nat)
    (hyup : y.cgUp = true) (hyn : y.n = n) (hywf : CWf n y.con) (hne : (y.minimizeCongruences).2 = false) :
    ∀ p, cgsSem n (congruenceWideningAssign contains x y tp).2.1.con p ↔ cgsSem n y.con p := by
  intro p
  rcases congruenceWideningAssign_snd_cases contains x y tp with h | ⟨_, h⟩ | ⟨h, _⟩
  · rw [h]
  · rw [h]; exact minimizeCongruences_sem n y hyup hyn hywf hne p
  · rw [hne] at h; cases h

/-- `widening_assign` takes the congruence path when both congruence systems are up to date -/
theorem wideningAssign_cg (contains : GridM → GridM → Bool) (x y : GridM) (tp : Option Nat)
    (hx : x.cgUp = true) (hy : y.cgUp = true) :
    wideningAssign contains x y tp = congruenceWideningAssign contains x y tp := by
  unfold wideningAssign
  simp [hx, hy]

/-! ### examples: `x = {A ≡ 0 (mod 2)}`, `y = {A ≡ 0 (mod 4)}` in dimension 2, both minimised -/

def exX : GridM :=
  { n := 2, empty := false, cgUp := true, cgMin := true, genUp := false, genMin := false,
    con := [⟨[0, 0, 4], 4⟩, ⟨[0, 2, 0], 4⟩, ⟨[4, 0, 0], 4⟩], gen := [], dk := [0, 0, 0] }
def exY : GridM := { exX with con := [⟨[0, 0, 4], 4⟩, ⟨[0, 1, 0], 4⟩, ⟨[4, 0, 0], 4⟩] }

example : CWf 2 exX.con ∧ CWf 2 exY.con := by
  constructor <;> intro r hr <;> simp [exX, exY] at hr <;> rcases hr with rfl | rfl | rfl <;> decide

/-- the congruence on `A` differs and is dropped: the result is `{B ≡ 0 (mod 1)}` -/
example : (congruenceWideningAssign (fun _ _ => false) exX exY none).1.con = [⟨[1, 0, 0], 1⟩, ⟨[0, 0, 1], 1⟩] := by
  decide +kernel
example : (congruenceWideningAssign (fun _ _ => false) exX exY none).2.2.2 = "widened" := by decide +kernel
/-- with a token the widening is postponed -/
example : (congruenceWideningAssign (fun _ _ => false) exX exY (some 1)).1 = exX ∧
    (congruenceWideningAssign (fun _ _ => false) exX exY (some 1)).2.2.1 = some 0 := by decide +kernel
/-- `y` has more equalities than `x`: early return -/
example : (congruenceWideningAssign (fun _ _ => false) exX
    { exX with con := [⟨[0, 0, 4], 0⟩, ⟨[0, 1, 0], 4⟩, ⟨[4, 0, 0], 4⟩], dk := [0, 0, 2] } none).1 = exX := by decide +kernel

end PPLV.Widen.ImplGrid
