import PPLV.Widen.ImplGridProofsGen2
import PPLV.Lattice.ProofsRedGenBase
import Mathlib.Tactic.Ring
import Mathlib.Tactic.FieldSimp

/-!
# C08, stage 2 — `Grid::select_wider_generators`: turning a parameter into a line only enlarges the grid

* `gridLine_get`, `hv_gridLine`, `hv_gridLine_inv`: on the columns `0..n` a row with a zero inhomogeneous term is a
  non-zero integer multiple of its `grid_line` (the gcd the normalisation divides by, up to the sign);
* `hom_mono_to_line` / `hom_mono_param_to_line`: replacing such rows by their `grid_line` only enlarges `Hom`;
* `selectWiderGenerators_hom_mono`, `selectWiderGenerators_gensSem_mono`: the corollary for the selection.
-/
namespace PPLV.Widen.ImplGrid
open PPLV.Lattice PPLV.Lattice.Red

/-! ### `grid_line` rescales -/

/-- on the columns `0..n` (the inhomogeneous term is zero, the zeroed last column lies beyond `n`) a row is a non-zero
    integer multiple of its `grid_line`: `s = ± gcd` -/
theorem gridLine_get (n : Nat) (r : GRow) (h0 : get r.e 0 = 0) (hlen : n + 2 ≤ r.e.length) :
    ∃ s : Int, s ≠ 0 ∧ ∀ i, i ≤ n → get r.e i = s * get (gridLine r).e i := by
  obtain ⟨e0, he0def⟩ : ∃ e0 : Row, e0 = tab r.e (fun i => if i = 0 ∨ i + 1 = r.e.length then 0 else get r.e i) :=
    ⟨_, rfl⟩
  obtain ⟨e1, he1def⟩ : ∃ e1 : Row,
      e1 = if rowGcd e0 ≠ 0 ∧ rowGcd e0 ≠ 1 then e0.map (fun z => z / rowGcd e0) else e0 := ⟨_, rfl⟩
  have he0 : ∀ i, i ≤ n → get e0 i = get r.e i := by
    intro i hi
    rw [he0def, get_tab, if_pos (by omega)]
    by_cases hi0 : i = 0
    · subst hi0; simp [h0]
    · rw [if_neg (by omega)]
  have he1 : ∃ s1 : Int, s1 ≠ 0 ∧ ∀ i, get e0 i = s1 * get e1 i := by
    by_cases hg : rowGcd e0 ≠ 0 ∧ rowGcd e0 ≠ 1
    · rw [he1def, if_pos hg]
      refine ⟨rowGcd e0, hg.1, fun i => ?_⟩
      rw [get_map0 _ _ (by simp)]
      exact (Int.mul_ediv_cancel' (rowGcd_dvd_get e0 i)).symm
    · rw [he1def, if_neg hg]; exact ⟨1, by decide, fun i => by simp⟩
  obtain ⟨s1, hs1, h1⟩ := he1
  have hgl : (gridLine r).e = signNormalize e1 := by rw [he1def, he0def]; rfl
  rcases signNormalize_cases e1 with hs | hs
  · refine ⟨s1, hs1, fun i hi => ?_⟩
    rw [hgl, hs, ← h1, he0 i hi]
  · refine ⟨-s1, by simpa using hs1, fun i hi => ?_⟩
    rw [hgl, hs, get_map0 _ _ (by simp), ← he0 i hi, h1 i]; ring

/-- the homogeneous vector of the row is a non-zero integer multiple of the one of its `grid_line` -/
theorem hv_gridLine (n : Nat) (r : GRow) (h0 : get r.e 0 = 0) (hlen : n + 2 ≤ r.e.length) :
    ∃ s : Int, s ≠ 0 ∧ hv n r = (s : Rat) • hv n (gridLine r) := by
  obtain ⟨s, hs, h⟩ := gridLine_get n r h0 hlen
  exact ⟨s, hs, hv_smul s h⟩

/-- … equivalently `hvec (grid_line r) = c • hvec r` for a non-zero rational `c` (`= ± 1 / gcd`) -/
theorem hv_gridLine_inv (n : Nat) (r : GRow) (h0 : get r.e 0 = 0) (hlen : n + 2 ≤ r.e.length) :
    ∃ c : Rat, c ≠ 0 ∧ hv n (gridLine r) = c • hv n r := by
  obtain ⟨s, hs, h⟩ := hv_gridLine n r h0 hlen
  have hs' : (s : Rat) ≠ 0 := by exact_mod_cast hs
  refine ⟨1 / (s : Rat), one_div_ne_zero hs', ?_⟩
  rw [h, smul_smul]
  have : 1 / (s : Rat) * s = 1 := by field_simp
  rw [this, one_smul]

/-! ### turning rows into lines only enlarges -/

/-- rows replaced by their `grid_line` (zero inhomogeneous term, at least `n + 2` columns; whether the replaced row
    was a parameter or already a line does not matter): the lattice only grows -/
theorem hom_mono_to_line {n : Nat} {xs out : List GRow} (hlen : out.length = xs.length)
    (h : ∀ i, i < xs.length → rowAt out i = rowAt xs i ∨
      (rowAt out i = gridLine (rowAt xs i) ∧ get (rowAt xs i).e 0 = 0 ∧ n + 2 ≤ (rowAt xs i).e.length)) :
    ∀ v, Hom n xs v → Hom n out v := by
  intro v
  refine hom_le_idx1 fun i hi => ?_
  rcases h i hi with e | ⟨e, h0, hl⟩
  · rw [← e]
    exact ⟨fun hl => hom_pc (by omega) hl, fun hl c => hom_line (by omega) hl c⟩
  · obtain ⟨s, _, hs⟩ := hv_gridLine n (rowAt xs i) h0 hl
    have hL : (rowAt out i).line = true := by rw [e]; rfl
    rw [hs, ← e]
    refine ⟨fun _ => hom_line (by omega) hL _, fun _ c => ?_⟩
    rw [smul_smul]
    exact hom_line (by omega) hL _

/-- (3) "turning a parameter into a line only enlarges", in the form asked for: every replaced row is a parameter
    with a zero inhomogeneous term and `n + 2` columns -/
theorem hom_mono_param_to_line {n : Nat} {xs out : List GRow} (hlen : out.length = xs.length)
    (h : ∀ i, i < xs.length → rowAt out i = rowAt xs i ∨
      (rowAt out i = gridLine (rowAt xs i) ∧
        (rowAt xs i).line = false ∧ get (rowAt xs i).e 0 = 0 ∧ (rowAt xs i).e.length = n + 2)) :
    ∀ v, Hom n xs v → Hom n out v := by
  refine hom_mono_to_line hlen fun i hi => ?_
  rcases h i hi with e | ⟨e, _, h0, hl⟩
  · exact Or.inl e
  · exact Or.inr ⟨e, h0, by omega⟩

theorem rowAt_of_forall₂ {R : GRow → GRow → Prop} {xs out : List GRow} (h : List.Forall₂ R xs out) :
    ∀ i, i < xs.length → R (rowAt xs i) (rowAt out i) := by
  induction h with
  | nil => intro i hi; simp at hi
  | @cons a b l m hab _ ih =>
    intro i hi
    cases i with
    | zero => rw [rowAt_cons_zero, rowAt_cons_zero]; exact hab
    | succ i => rw [rowAt_cons_succ, rowAt_cons_succ]; exact ih i (by simpa using hi)

/-- the `Forall₂` carrier -/
theorem hom_mono_of_forall₂ {n : Nat} {xs out : List GRow}
    (h : List.Forall₂ (fun a b => b = a ∨ (b = gridLine a ∧ get a.e 0 = 0 ∧ n + 2 ≤ a.e.length)) xs out) :
    ∀ v, Hom n xs v → Hom n out v :=
  hom_mono_to_line h.length_eq.symm (rowAt_of_forall₂ h)

/-! ### the corollary for `select_wider_generators` -/

/-- the selected generators span at least the homogeneous lattice of `x`, when: `dim_kinds` of `x` names as many
    non-virtual dimensions as `x` has rows; the rows have (at least) `n + 2` columns; only row 0 (the point, at the
    parameter dimension 0) has a non-zero inhomogeneous term, and it agrees with row 0 of `y` at dimension 0 (always
    the case when that is a point too, `genIsEqualAtDimension_points`) -/
theorem selectWiderGenerators_hom_mono (n : Nat) (xs : List GRow) (xdk : List Nat) (ys : List GRow) (ydk : List Nat)
    (hk : numNonVirtual n xdk = xs.length)
    (hlen : ∀ i, i < xs.length → n + 2 ≤ (rowAt xs i).e.length)
    (h0 : ∀ i, 0 < i → i < xs.length → get (rowAt xs i).e 0 = 0)
    (hd0 : kind xdk 0 = PARAMETER)
    (he0 : genIsEqualAtDimension (rowAt xs 0) 0 (rowAt ys 0) = true) :
    ∀ v, Hom n xs v → Hom n (selectWiderGenerators n xs xdk ys ydk) v := by
  obtain ⟨hl, hrows⟩ := selectWiderGenerators_spec n xs xdk ys ydk
  rw [hk] at hl hrows
  refine hom_mono_to_line hl fun i hi => ?_
  by_cases hi0 : i = 0
  · subst hi0
    exact Or.inl (selectWiderGenerators_row0 n xs xdk ys ydk hd0 he0)
  · rcases hrows i hi with e | e
    · exact Or.inl e
    · exact Or.inr ⟨e, h0 i (by omega) hi, hlen i hi⟩

/-- the same on the grids: every point of `x` is a point of the grid the selected generators describe -/
theorem selectWiderGenerators_gensSem_mono (n : Nat) (D : Rat) (xs : List GRow) (xdk : List Nat) (ys : List GRow)
    (ydk : List Nat)
    (hk : numNonVirtual n xdk = xs.length)
    (hlen : ∀ i, i < xs.length → n + 2 ≤ (rowAt xs i).e.length)
    (h0 : ∀ i, 0 < i → i < xs.length → get (rowAt xs i).e 0 = 0)
    (hd0 : kind xdk 0 = PARAMETER)
    (he0 : genIsEqualAtDimension (rowAt xs 0) 0 (rowAt ys 0) = true) :
    ∀ x, gensSem n D xs x → gensSem n D (selectWiderGenerators n xs xdk ys ydk) x :=
  fun _ hx => selectWiderGenerators_hom_mono n xs xdk ys ydk hk hlen h0 hd0 he0 _ hx

def exGx : List GRow := [⟨false, [1, 0, 0, 0]⟩, ⟨false, [0, 2, 1, 1]⟩, ⟨true, [0, 0, 1, 0]⟩]
def exGy : List GRow := [⟨false, [1, 0, 0, 0]⟩, ⟨false, [0, 4, 0, 1]⟩, ⟨false, [0, 0, 3, 1]⟩]

/-- the hypotheses are satisfiable: `x = {(0,0) + ℤ(2,1) + ℚ(0,1)}`, `y` with the parameter `(4,0)` -/
example :
    numNonVirtual 2 [0, 0, 1] = exGx.length ∧
    (∀ i, i < exGx.length → 2 + 2 ≤ (rowAt exGx i).e.length) ∧
    (∀ i, i < exGx.length → 0 < i → get (rowAt exGx i).e 0 = 0) ∧
    kind [0, 0, 1] 0 = PARAMETER ∧ genIsEqualAtDimension (rowAt exGx 0) 0 (rowAt exGy 0) = true := by
  decide

example : selectWiderGenerators 2 exGx [0, 0, 1] exGy [0, 0, 0] =
    [⟨false, [1, 0, 0, 0]⟩, ⟨true, [0, 2, 1, 0]⟩, ⟨true, [0, 0, 1, 0]⟩] := by decide

example : gridLine ⟨false, [0, 4, -6, 3]⟩ = ⟨true, [0, 2, -3, 0]⟩ ∧
    gridLine ⟨false, [0, -4, 6, 3]⟩ = ⟨true, [0, 2, -3, 0]⟩ ∧
    gridLine ⟨false, [0, 0, 0, 3]⟩ = ⟨true, [0, 0, 0, 0]⟩ := by decide

end PPLV.Widen.ImplGrid
