import PPLV.Widen.ImplShapeProofsLimFails
import PPLV.Widen.ImplShapeProofsLimBox4
import PPLV.Widen.ImplShapeProofsLimBDEq
import PPLV.Widen.ImplShapeProofsLimOctEx
/-!
# C08 stage 2 — concrete instances for the non-vacuity examples of the limited extrapolations
-/
namespace PPLV.Widen
open PPLV.WR
open PPLV.WR.ExtRat (fin pinf le_rfl' le_trans' le_total' le_pinf fin_le_fin)

/-! ## `BD_Shape`: `limExX` (`A ≤ 2`), `limExY` (`A ≤ 1`), `limExC` (`2A ≤ 5`), integer coefficients -/

theorem limExX_WF : BDS.WF 1 limExX := by
  intro i hi
  have : i = 0 ∨ i = 1 := by omega
  rcases this with rfl | rfl <;> rfl

theorem limExX_γ0 : BDS.γ 1 limExX (fun _ => 0) := by
  refine ⟨rfl, fun i j hi hj => ?_⟩
  have hi' : i = 0 ∨ i = 1 := by omega
  have hj' : j = 0 ∨ j = 1 := by omega
  rcases hi' with rfl | rfl <;> rcases hj' with rfl | rfl <;> decide +kernel

theorem limExC_sel : bdLimSel 1 limExC = true ∧ limExC.isEq = false ∧ (bdLimCell 1 limExC).1 ≤ 1 ∧
    (bdLimCell 1 limExC).2 ≤ 1 ∧
    (bdClosureAssign upCeil 1 limExX).dbm (bdLimCell 1 limExC).1 (bdLimCell 1 limExC).2 ≤ bdLimBound upCeil 1 limExC := by
  decide +kernel

theorem limEx_bhmz05_some : (bdLimitedBHMZ05 upCeil 1 1 [limExC] limExX limExY none).isSome = true := by
  decide +kernel

/-! ## `BD_Shape`, exact coefficients: the receiver `A = 1` and the supplied equality `A = 1` -/

def limExEqX : BDS := { dbm := Mat.ofLists [[pinf, fin 1], [fin (-1), pinf]], closed := true }
def limExEqC : LimCon := ⟨true, [1], -1, false⟩

theorem limExEqX_WF : BDS.WF 1 limExEqX := by
  intro i hi
  have : i = 0 ∨ i = 1 := by omega
  rcases this with rfl | rfl <;> rfl

theorem limExEqX_γ1 : BDS.γ 1 limExEqX (fun _ => 1) := by
  refine ⟨rfl, fun i j hi hj => ?_⟩
  have hi' : i = 0 ∨ i = 1 := by omega
  have hj' : j = 0 ∨ j = 1 := by omega
  rcases hi' with rfl | rfl <;> rcases hj' with rfl | rfl <;> decide +kernel

theorem limExEqC_sel : bdLimSel 1 limExEqC = true ∧ limExEqC.isEq = true ∧
    (bdClosureAssign upId 1 limExEqX).dbm (bdLimCell 1 limExEqC).1 (bdLimCell 1 limExEqC).2
      ≤ bdLimBound upId 1 limExEqC ∧
    (bdClosureAssign upId 1 limExEqX).dbm (bdLimCell 1 limExEqC).2 (bdLimCell 1 limExEqC).1
      ≤ bdLimBound1 upId 1 limExEqC := by
  decide +kernel

theorem limExC_sat_upId :
    (bdClosureAssign upId 1 limExX).dbm (bdLimCell 1 limExC).1 (bdLimCell 1 limExC).2 ≤ bdLimBound upId 1 limExC := by
  decide +kernel

theorem limExEq_bhmz05_some : (bdLimitedBHMZ05 upId 1 1 [limExEqC] limExEqX limExEqX none).isSome = true := by
  decide +kernel

/-! ## `Octagonal_Shape`: `A ≤ 2` (`2A ≤ 4`), `A ≤ 1`, the supplied `A ≤ 3`, exact coefficients -/

def limExOX : OCS := { mat := Mat.ofLists [[pinf, pinf], [fin 4, pinf]], closed := true }
def limExOY : OCS := { mat := Mat.ofLists [[pinf, pinf], [fin 2, pinf]], closed := true }
def limExOC : LimCon := ⟨false, [-1], 3, false⟩

theorem limExOX_WF : OCS.WF 1 limExOX := by
  intro i hi
  have : i = 0 ∨ i = 1 := by omega
  rcases this with rfl | rfl <;> rfl

theorem limExOX_γ0 : OCS.γ 1 limExOX (fun _ => 0) := by
  refine ⟨rfl, fun i j hi hj => ?_⟩
  have hi' : i = 0 ∨ i = 1 := by omega
  rcases hi' with rfl | rfl
  · have hj' : j = 0 ∨ j = 1 := by simp [rowSize] at hj; omega
    rcases hj' with rfl | rfl <;> decide +kernel
  · have hj' : j = 0 ∨ j = 1 := by simp [rowSize] at hj; omega
    rcases hj' with rfl | rfl <;> decide +kernel

theorem limExOC_sel : octLimSel 1 limExOC = true ∧ limExOC.isEq = false ∧ (octLimCell 1 limExOC).1 < 2 * 1 ∧
    (octLimCell 1 limExOC).2 < rowSize (octLimCell 1 limExOC).1 ∧
    (octClosureAssign upId 1 limExOX).mat (octLimCell 1 limExOC).1 (octLimCell 1 limExOC).2
      ≤ octLimBound upId 1 limExOC := by
  decide +kernel

theorem limExO_bhmz05_some : (octLimitedBHMZ05 upId 1 1 [limExOC] limExOX limExOY none).isSome = true := by
  decide +kernel

theorem limExO_cc76_cell : (octLimitedCC76 upId 1 1 [limExOC] limExOX limExOY none).1.mat 1 0 = fin 6 := by
  decide +kernel

/-! ## `Box`: `A ≤ 3`, `A ≤ 2`, the supplied `2A ≤ 7` -/

def limExBX : BoxS := { seq := [⟨none, false, some 3, false⟩] }
def limExBY : BoxS := { seq := [⟨none, false, some 2, false⟩] }
def limExBC : LimCon := ⟨false, [-2], 7, false⟩

theorem limExBX_γ0 : BoxS.γ limExBX (fun _ => 0) := by
  refine ⟨rfl, fun k hk => ?_⟩
  have : k = 0 := by simp [limExBX] at hk; omega
  subst this
  exact ⟨trivial, by show (0 : Rat) ≤ 3; norm_num⟩

theorem limExBC_sel : boxLimSel 1 limExBX.seq limExBC 0 :=
  ⟨1, by decide +kernel, by decide, by decide +kernel⟩

theorem limExB_result : (boxLimitedCC76 1 [limExBC] limExBX limExBY none).1
    = { seq := [⟨none, false, some (7 / 2), false⟩] } := by decide +kernel

/-- the singleton box `A = 3` -/
def limExBS : BoxS := { seq := [⟨some 3, false, some 3, false⟩] }

theorem limExBS_mem3 : (limExBS.seq[0]'(by decide)).mem 3 := ⟨le_refl (3 : Rat), le_refl (3 : Rat)⟩

theorem limExBS_γ3 : BoxS.γ limExBS (fun _ => 3) := by
  refine ⟨rfl, fun k hk => ?_⟩
  have : k = 0 := by simp [limExBS] at hk; omega
  subst this
  exact limExBS_mem3

end PPLV.Widen
