import PPLV.Widen.ImplH79ProofsEngine
import PPLV.Widen.ImplH79ProofsEngineBridge3
import PPLV.Widen.ImplH79ProofsEngineBridge4
import PPLV.Conv.ProofsCompleteFacetPoints2

/-!
# C08 stage 2b — `FacetPoints` is a THEOREM about the conversion engine model

`PPLV.Conv.minimize_facet_points` (C01 stage 4c: reduced form left by `back_substitute`, irredundancy,
completeness) read through `ofEngine`: every non-tautological inequality of the minimised system is
saturated by a point of the generator system.  With `engineDD_of_minimize` and `gpos_of_minimize` the whole
contract `MinimalDD` holds of what the engine's `minimize` returns: no hypothesis is left about the engine.
-/
namespace PPLV.Widen.Impl
open PPLV.Conv

theorem headD_eq_getD (v : List Int) : v.headD 0 = v.getD 0 0 := by cases v <;> rfl

theorem allHomZero_of_getD (v : List Int) (h : ∀ j, 1 ≤ j → v.getD j 0 = 0) : allHomZero v = true := by
  unfold allHomZero
  rw [List.all_eq_true]
  intro x hx
  cases v with
  | nil => simp at hx
  | cons a t =>
    obtain ⟨k, hk, rfl⟩ := List.getElem_of_mem hx
    have := h (k + 1) (by omega)
    simp only [List.tail_cons] at hk ⊢
    rw [List.getD_cons_succ, List.getD_eq_getElem?_getD, List.getElem?_eq_getElem hk] at this
    simpa using this

/-- **`facetPoints_of_minimize`** — every non-tautological inequality row returned by the engine's `minimize`
is saturated by a point it returns, when the positivity constraint is a row of the source. -/
theorem facetPoints_of_minimize (n : Nat) (source : List PPLV.Conv.LRow) (sat0 : List PPLV.Conv.BRow)
    (hsz : n + 1 < 2 ^ 64) (hsrc : source.length < 2 ^ 64)
    (hlen : ∀ s ∈ source, s.v.length = n + 1)
    (hne : (PPLV.Conv.minimize true false (n + 1) source sat0).empty = false)
    (hpos : (⟨false, 1 :: List.replicate n 0⟩ : PPLV.Conv.LRow) ∈ source) :
    FacetPoints (ofEngine (PPLV.Conv.minimize true false (n + 1) source sat0)) := by
  intro c hc hceq hnt
  rw [ofEngine_conSys] at hc
  obtain ⟨r, hr, rfl⟩ := List.mem_map.mp hc
  have hposx : ∀ x : Vec, x.length ≤ n + 1 → holdsAll source x → 0 ≤ x.getD 0 0 := by
    intro x _ hx
    have := hx _ hpos
    unfold holds at this
    simp only [Bool.false_eq_true, if_false] at this
    rw [scalarProduct_unit0, headD_eq_getD] at this
    exact this
  have hlenF : ∀ s ∈ (PPLV.Conv.minimize true false (n + 1) source sat0).source, s.v.length ≤ n + 1 :=
    fun s hs => le_of_eq (minimize_source_length n source sat0 hlen hne s hs)
  obtain ⟨g, hg, hgle, hg0, hsp⟩ := minimize_facet_points (n + 1) source sat0 hsz hsrc hne hposx hlenF r hr hceq
    (by
      rintro ⟨h1, h2⟩
      have ht : (toC r).isTautological false = true := by
        unfold CRow.isTautological
        have e1 : (toC r).e = r.v := rfl
        have e2 : (toC r).eq = r.le := rfl
        have hr' : r.le = false := hceq
        rw [e1, e2, allHomZero_of_getD r.v h1, hr']
        simp only [if_true, Bool.false_eq_true, if_false]
        rw [headD_eq_getD]
        simpa using h2
      rw [ht] at hnt
      cases hnt)
  refine ⟨toG g, ?_, hgle, ?_, ?_⟩
  · rw [ofEngine_genSys]; exact List.mem_map_of_mem hg
  · show 0 < g.v.headD 0
    rw [headD_eq_getD]; exact hg0
  · show sp r.v g.v = 0
    rw [sp_eq_scalarProduct]; exact hsp

/-- **`minimalDD_of_minimize`** — the contract `MinimalDD` of the H79 convergence theorems holds of what the
engine's `minimize` returns for a closed constraint system with its positivity row that is not reported empty. -/
theorem minimalDD_of_minimize (n : Nat) (source : List PPLV.Conv.LRow) (sat0 : List PPLV.Conv.BRow)
    (hsz : n + 1 < 2 ^ 64) (hsrc : source.length < 2 ^ 64)
    (hlen : ∀ s ∈ source, s.v.length = n + 1)
    (hne : (PPLV.Conv.minimize true false (n + 1) source sat0).empty = false)
    (hpos : (⟨false, 1 :: List.replicate n 0⟩ : PPLV.Conv.LRow) ∈ source) :
    MinimalDD n (ofEngine (PPLV.Conv.minimize true false (n + 1) source sat0)) :=
  minimalDD_of_engine n _ (engineDD_of_minimize n source sat0 hsz hsrc hlen hne)
    (gpos_of_minimize n source sat0 hsz hsrc hlen hne hpos)
    (facetPoints_of_minimize n source sat0 hsz hsrc hlen hne hpos)

/-- non-vacuity: the segment `0 ≤ x ≤ 3` with its positivity constraint. -/
example : MinimalDD 1 (ofEngine (minimize true false 2 [⟨false, [0, 1]⟩, ⟨false, [3, -1]⟩, ⟨false, [1, 0]⟩] [])) :=
  minimalDD_of_minimize 1 _ [] (by norm_num) (by simp) (by decide) (by decide) (by simp)

end PPLV.Widen.Impl
