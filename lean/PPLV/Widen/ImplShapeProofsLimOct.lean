import PPLV.Widen.ImplShapeProofsLimBD
/-!
# C08 stage 2 — `Octagonal_Shape::get_limiting_octagon` and the limited extrapolations, relative to the closed
receiver `Xc := octClosureAssign up n X` (`Octagonal_Shape_templates.hh:3926`: `strong_closure_assign()`)
-/
namespace PPLV.Widen
open PPLV.WR
open PPLV.WR.ExtRat (fin pinf le_rfl' le_trans' le_total' le_pinf)

theorem octClosureAssign_fix (up : Rat → ExtRat) (n : Nat) (s : OCS) :
    octClosureAssign up n (octClosureAssign up n s) = octClosureAssign up n s := by
  unfold octClosureAssign
  by_cases h1 : (s.empty || s.closed || decide (n = 0)) = true
  · simp [h1]
  · simp only [h1, if_false, Bool.false_eq_true]
    split <;> simp [OCS.setEmpty]

/-! ## the cell and the bound of a supplied constraint -/

/-- the constraint is one that `get_limiting_octagon` looks at: an octagonal difference with a variable -/
def octLimSel (csd : Nat) (c : LimCon) : Bool :=
  let X := extractOctagonalDifference csd c.coeff c.inhomo
  X.ok && X.numVars != 0

/-- the cell `m_i[j]` (`:3949-3950`) -/
def octLimCell (csd : Nat) (c : LimCon) : Nat × Nat :=
  let X := extractOctagonalDifference csd c.coeff c.inhomo
  (X.i, X.j)

/-- `|coeff|` (`:3953-3954`) -/
def octLimCoeff (csd : Nat) (c : LimCon) : Int :=
  let X := extractOctagonalDifference csd c.coeff c.inhomo
  if X.coeff < 0 then - X.coeff else X.coeff

/-- `d = div_round_up(term, coeff)` (`:3956`) -/
def octLimBound (up : Rat → ExtRat) (csd : Nat) (c : LimCon) : ExtRat :=
  divUp up (extractOctagonalDifference csd c.coeff c.inhomo).term (octLimCoeff csd c)

/-- the coherent cell `m_ci[cj]` of the "other half" (`:3969-3977`) -/
def octLimCell2 (csd : Nat) (c : LimCon) : Nat × Nat :=
  let X := extractOctagonalDifference csd c.coeff c.inhomo
  (if X.i % 2 = 0 then X.i + 1 else X.i - 1, cidx X.j)

/-- `d = div_round_up(-term, coeff)` (`:3979-3980`) -/
def octLimBound2 (up : Rat → ExtRat) (csd : Nat) (c : LimCon) : ExtRat :=
  divUp up (- (extractOctagonalDifference csd c.coeff c.inhomo).term) (octLimCoeff csd c)

theorem octLimitStep_eq (up : Rat → ExtRat) (csd : Nat) (m : Mat) (st : Mat × Bool) (c : LimCon) :
    octLimitStep up csd m st c =
      if octLimSel csd c then
        let ij := octLimCell csd c
        let d := octLimBound up csd c
        if m ij.1 ij.2 ≤ d then
          if !c.isEq then
            if ExtRat.ltB d (st.1 ij.1 ij.2) then (st.1.set ij.1 ij.2 d, true)
            else
              let cij := octLimCell2 csd c
              let d2 := octLimBound2 up csd c
              if decide (m cij.1 cij.2 ≤ d2) && ExtRat.ltB d2 (st.1 cij.1 cij.2) then
                (st.1.set cij.1 cij.2 d2, true)
              else st
          else st
        else st
      else st := by
  unfold octLimitStep octLimSel octLimCell octLimBound octLimCell2 octLimBound2 octLimCoeff
  by_cases hok : (extractOctagonalDifference csd c.coeff c.inhomo).ok = true
  · by_cases hnv : (extractOctagonalDifference csd c.coeff c.inhomo).numVars = 0
    · simp [hok, hnv]
    · simp [hok, hnv]
  · simp [hok]

/-! ## (L1) domination, monotonicity, kept inequalities -/

theorem octLimitStep_dom (up : Rat → ExtRat) (csd : Nat) (m : Mat) (st : Mat × Bool) (c : LimCon)
    (h : ∀ a b, m a b ≤ st.1 a b) : ∀ a b, m a b ≤ (octLimitStep up csd m st c).1 a b := by
  rw [octLimitStep_eq]
  split
  · simp only
    split
    · rename_i hx
      split
      · split
        · exact lim_dom_set h hx
        · split
          · rename_i hc
            simp only [Bool.and_eq_true, decide_eq_true_eq] at hc
            exact lim_dom_set h hc.1
          · exact h
      · exact h
    · exact h
  · exact h

theorem octLimitStep_le (up : Rat → ExtRat) (csd : Nat) (m : Mat) (st : Mat × Bool) (c : LimCon) :
    ∀ a b, (octLimitStep up csd m st c).1 a b ≤ st.1 a b := by
  rw [octLimitStep_eq]
  split
  · simp only
    split
    · split
      · split
        · rename_i hlt; exact lim_set_le (lim_le_of_ltB hlt)
        · split
          · rename_i hc
            simp only [Bool.and_eq_true, decide_eq_true_eq] at hc
            exact lim_set_le (lim_le_of_ltB hc.2)
          · intro a b; exact le_rfl' _
      · intro a b; exact le_rfl' _
    · intro a b; exact le_rfl' _
  · intro a b; exact le_rfl' _

/-- after an inequality that the closed receiver satisfies has been processed its cell is at most `d`: either it
was written, or the `else` branch ran, which means that the limiting cell was at most `d` already (the cell the
misplaced "other half" may write there is only ever lowered) -/
theorem octLimitStep_keeps_ineq (up : Rat → ExtRat) (csd : Nat) (m : Mat) (st : Mat × Bool) (c : LimCon)
    (hsel : octLimSel csd c = true) (hineq : c.isEq = false)
    (hx : m (octLimCell csd c).1 (octLimCell csd c).2 ≤ octLimBound up csd c) :
    (octLimitStep up csd m st c).1 (octLimCell csd c).1 (octLimCell csd c).2 ≤ octLimBound up csd c := by
  by_cases hlt : ExtRat.ltB (octLimBound up csd c) (st.1 (octLimCell csd c).1 (octLimCell csd c).2) = true
  · rw [octLimitStep_eq]
    simp only [hsel, hx, hineq, hlt, if_true, Bool.not_false]
    simp [Mat.set_apply]; exact le_rfl' _
  · exact le_trans' (octLimitStep_le up csd m st c _ _) (lim_le_of_not_ltB hlt)

/-- an equality contributes nothing (`:3958`: the whole body is inside `if (c.is_inequality())`) -/
theorem octLimitStep_eq_noop (up : Rat → ExtRat) (csd : Nat) (m : Mat) (st : Mat × Bool) (c : LimCon)
    (heq : c.isEq = true) : octLimitStep up csd m st c = st := by
  rw [octLimitStep_eq]
  simp [heq]

theorem octLimitFold_dom (up : Rat → ExtRat) (csd : Nat) (m : Mat) (cs : List LimCon) (st : Mat × Bool)
    (h : ∀ a b, m a b ≤ st.1 a b) : ∀ a b, m a b ≤ (cs.foldl (octLimitStep up csd m) st).1 a b := by
  induction cs generalizing st with
  | nil => exact h
  | cons c cs ih => exact ih _ (octLimitStep_dom up csd m st c h)

theorem octLimitFold_le (up : Rat → ExtRat) (csd : Nat) (m : Mat) (cs : List LimCon) (st : Mat × Bool) :
    ∀ a b, (cs.foldl (octLimitStep up csd m) st).1 a b ≤ st.1 a b := by
  induction cs generalizing st with
  | nil => intro a b; exact le_rfl' _
  | cons c cs ih => intro a b; exact le_trans' (ih _ a b) (octLimitStep_le up csd m st c a b)

theorem octLimitFold_keeps_ineq (up : Rat → ExtRat) (csd : Nat) (m : Mat) (cs : List LimCon) (st : Mat × Bool)
    (c : LimCon) (hc : c ∈ cs) (hsel : octLimSel csd c = true) (hineq : c.isEq = false)
    (hx : m (octLimCell csd c).1 (octLimCell csd c).2 ≤ octLimBound up csd c) :
    (cs.foldl (octLimitStep up csd m) st).1 (octLimCell csd c).1 (octLimCell csd c).2 ≤ octLimBound up csd c := by
  induction cs generalizing st with
  | nil => cases hc
  | cons c' cs ih =>
    rcases List.mem_cons.mp hc with h | h
    · subst h
      exact le_trans' (octLimitFold_le up csd m cs _ _ _) (octLimitStep_keeps_ineq up csd m st c hsel hineq hx)
    · exact ih _ h

/-- a system of equalities leaves the limiting octagon untouched -/
theorem octLimitFold_equalities (up : Rat → ExtRat) (csd : Nat) (m : Mat) (cs : List LimCon) (st : Mat × Bool)
    (h : ∀ c ∈ cs, c.isEq = true) : cs.foldl (octLimitStep up csd m) st = st := by
  induction cs generalizing st with
  | nil => rfl
  | cons c cs ih =>
    simp only [List.foldl_cons]
    rw [octLimitStep_eq_noop up csd m st c (h c List.mem_cons_self)]
    exact ih st (fun c' hc' => h c' (List.mem_cons_of_mem _ hc'))

/-! ## object level -/

def OCS.Dom (Xc P : OCS) : Prop := P.empty = Xc.empty ∧ ∀ a b, Xc.mat a b ≤ P.mat a b

theorem OCS.Dom.refl (s : OCS) : OCS.Dom s s := ⟨rfl, fun _ _ => le_rfl' _⟩

theorem octCC76_dom {up : Rat → ExtRat} (hup : ∀ q, fin q ≤ up q) (n : Nat) (stops : List Rat) (Xc Y : OCS)
    (tp : Option Nat) (hfix : octClosureAssign up n Xc = Xc) : OCS.Dom Xc (octCC76 up n stops Xc Y tp).1 := by
  have hw : ∀ ym : Mat, OCS.Dom Xc ({ Xc with mat := octCC76Loops up stops n Xc.mat ym }.resetClosed) := by
    intro ym
    refine ⟨rfl, fun a b => ?_⟩
    show Xc.mat a b ≤ octCC76Loops up stops n Xc.mat ym a b
    rw [octCC76Loops_apply]
    split
    · exact le_cc76Cell hup _ _ _
    · exact le_rfl' _
  unfold octCC76
  by_cases h0 : n = 0
  · simp only [h0, if_true]; exact OCS.Dom.refl _
  · simp only [h0, if_false, hfix]
    split
    · exact OCS.Dom.refl _
    · split
      · exact OCS.Dom.refl _
      · cases tp with
        | none => exact hw _
        | some t =>
          simp only
          split
          · exact OCS.Dom.refl _
          · exact hw _

theorem lim_octAffineDim_snd (up : Rat → ExtRat) (n : Nat) (s : OCS) (hfix : octClosureAssign up n s = s) :
    (octAffineDim up n s).2 = s := by
  unfold octAffineDim
  by_cases h0 : n = 0
  · simp [h0]
  · simp only [h0, if_false, hfix]
    split <;> rfl

theorem octBHMZ05_dom (up : Rat → ExtRat) (n : Nat) (Xc Y : OCS) (tp : Option Nat)
    (hfix : octClosureAssign up n Xc = Xc) (P : OCS × OCS × Option Nat) (hP : octBHMZ05 up n Xc Y tp = some P) :
    OCS.Dom Xc P.1 := by
  have hw : ∀ (ym : Mat), OCS.Dom Xc ({ Xc with mat := octBHMZ05Loops n Xc.mat ym }.resetClosed) := by
    intro ym
    refine ⟨rfl, fun a b => ?_⟩
    show Xc.mat a b ≤ octBHMZ05Loops n Xc.mat ym a b
    rw [octBHMZ05Loops_apply]
    split
    · exact le_bhmz05Cell _ _ _
    · exact le_rfl' _
  have hx2 := lim_octAffineDim_snd up n Xc hfix
  unfold octBHMZ05 at hP
  generalize octAffineDim up n Y = ay at hP
  obtain ⟨yd, y⟩ := ay
  generalize octAffineDim up n Xc = ax at hP hx2
  obtain ⟨xd, x⟩ := ax
  simp only at hx2
  subst hx2
  simp only at hP
  split at hP
  · injection hP with hP; subst hP; exact OCS.Dom.refl _
  · split at hP
    · injection hP with hP; subst hP; exact OCS.Dom.refl _
    · cases hr : octReductionAssign up n y with
      | none => rw [hr] at hP; simp at hP
      | some y' =>
        rw [hr] at hP
        simp only [Option.map_some] at hP
        injection hP with hP
        subst hP
        cases tp with
        | none => exact hw _
        | some t =>
          simp only
          split
          · exact OCS.Dom.refl _
          · exact hw _

theorem octIntersectionAssign_spec (n : Nat) (P ls : OCS) (hls : ls.empty = false) :
    (octIntersectionAssign n P ls).empty = P.empty ∧
    ∀ a b, (octIntersectionAssign n P ls).mat a b
      = if P.empty = false ∧ n ≠ 0 ∧ a < 2 * n ∧ b < rowSize a then minCell (P.mat a b) (ls.mat a b)
        else P.mat a b := by
  unfold octIntersectionAssign
  by_cases h1 : P.empty = true
  · simp [h1]
  · have h1' : P.empty = false := by cases h : P.empty <;> simp_all
    by_cases h0 : n = 0
    · simp [h1', hls, h0]
    · simp only [h1', hls, h0, if_false, Bool.false_eq_true]
      constructor
      · split <;> simp [OCS.resetClosed]
      · intro a b
        have := octIntersection_loops_apply n P.mat ls.mat a b
        split
        · simp only [OCS.resetClosed]
          rw [this]; simp [h0]
        · simp only
          rw [this]; simp [h0]

theorem octLimited_core (n : Nat) (Xc P ls : OCS) (hP : OCS.Dom Xc P) (hls : ls.empty = false)
    (hdom : ∀ a b, Xc.mat a b ≤ ls.mat a b) :
    (octIntersectionAssign n P ls).empty = Xc.empty ∧
    (∀ a b, Xc.mat a b ≤ (octIntersectionAssign n P ls).mat a b) ∧
    (∀ a b, (octIntersectionAssign n P ls).mat a b ≤ P.mat a b) ∧
    (Xc.empty = false → n ≠ 0 → ∀ a b, a < 2 * n → b < rowSize a →
      (octIntersectionAssign n P ls).mat a b ≤ ls.mat a b) := by
  obtain ⟨he, hc⟩ := octIntersectionAssign_spec n P ls hls
  refine ⟨he.trans hP.1, fun a b => ?_, fun a b => ?_, fun hne h0 a b ha hb => ?_⟩
  · rw [hc]; split
    · exact le_minCell (hP.2 a b) (hdom a b)
    · exact hP.2 a b
  · rw [hc]; split
    · exact minCell_le_left _ _
    · exact le_rfl' _
  · rw [hc, if_pos ⟨hP.1.trans hne, h0, ha, hb⟩]
    exact minCell_le_right _ _

theorem octGetLimitingOctagon_empty (up : Rat → ExtRat) (n csd : Nat) (cs : List LimCon) (x lo : OCS) :
    (octGetLimitingOctagon up n csd cs x lo).2.empty = lo.empty := by
  unfold octGetLimitingOctagon; simp only; split <;> rfl

theorem octGetLimitingOctagon_mat (up : Rat → ExtRat) (n csd : Nat) (cs : List LimCon) (x lo : OCS) :
    (octGetLimitingOctagon up n csd cs x lo).2.mat
      = (cs.foldl (octLimitStep up csd (octClosureAssign up n x).mat) (lo.mat, false)).1 := by
  unfold octGetLimitingOctagon; simp only; split <;> rfl

/-- (L1) the limiting octagon built from the universe dominates the closed receiver; this holds whatever the
misplaced `else` writes, because that write too is guarded by `m_ci_cj <= d` -/
theorem octGetLimitingOctagon_dom (up : Rat → ExtRat) (n csd : Nat) (cs : List LimCon) (x : OCS) :
    ∀ a b, (octClosureAssign up n x).mat a b ≤ (octGetLimitingOctagon up n csd cs x OCS.univ).2.mat a b := by
  rw [octGetLimitingOctagon_mat]
  exact octLimitFold_dom up csd _ cs _ (fun a b => le_pinf _)

theorem octGetLimitingOctagon_keeps (up : Rat → ExtRat) (n csd : Nat) (cs : List LimCon) (x lo : OCS)
    (c : LimCon) (hc : c ∈ cs) (hsel : octLimSel csd c = true) (hineq : c.isEq = false)
    (hx : (octClosureAssign up n x).mat (octLimCell csd c).1 (octLimCell csd c).2 ≤ octLimBound up csd c) :
    (octGetLimitingOctagon up n csd cs x lo).2.mat (octLimCell csd c).1 (octLimCell csd c).2
      ≤ octLimBound up csd c := by
  rw [octGetLimitingOctagon_mat]
  exact octLimitFold_keeps_ineq up csd _ cs _ c hc hsel hineq hx

theorem octLimitedCC76_early (up : Rat → ExtRat) (n csd : Nat) (cs : List LimCon) (X Y : OCS) (tp : Option Nat)
    (h : n = 0 ∨ X.empty = true ∨ Y.empty = true) :
    (octLimitedCC76 up n csd cs X Y tp).1 = X := by
  unfold octLimitedCC76
  rcases h with h | h | h
  · simp [h]
  · split; rfl; simp
  · split; rfl; split; rfl; simp

theorem octLimitedCC76_eq (up : Rat → ExtRat) (n csd : Nat) (cs : List LimCon) (X Y : OCS) (tp : Option Nat)
    (hn : n ≠ 0) (hx : X.empty = false) (hy : Y.empty = false) :
    (octLimitedCC76 up n csd cs X Y tp).1 =
      octIntersectionAssign n (octCC76 up n defaultStops (octClosureAssign up n X) Y tp).1
        (octGetLimitingOctagon up n csd cs X OCS.univ).2 := by
  unfold octLimitedCC76
  simp only [hn, hx, hy, if_false, Bool.false_eq_true]
  rfl

theorem octLimitedBHMZ05_early (up : Rat → ExtRat) (n csd : Nat) (cs : List LimCon) (X Y : OCS) (tp : Option Nat)
    (h : n = 0 ∨ X.empty = true ∨ Y.empty = true) :
    ∃ r, octLimitedBHMZ05 up n csd cs X Y tp = some r ∧ r.1 = X := by
  unfold octLimitedBHMZ05
  rcases h with h | h | h
  · simp [h]
  · split; exact ⟨_, rfl, rfl⟩; simp
  · split; exact ⟨_, rfl, rfl⟩; split; exact ⟨_, rfl, rfl⟩; simp

theorem octLimitedBHMZ05_eq (up : Rat → ExtRat) (n csd : Nat) (cs : List LimCon) (X Y : OCS) (tp : Option Nat)
    (hn : n ≠ 0) (hx : X.empty = false) (hy : Y.empty = false) (r : OCS × OCS × Option Nat × Mat)
    (hr : octLimitedBHMZ05 up n csd cs X Y tp = some r) :
    ∃ P, octBHMZ05 up n (octClosureAssign up n X) Y tp = some P ∧
      r.1 = octIntersectionAssign n P.1 (octGetLimitingOctagon up n csd cs X OCS.univ).2 := by
  unfold octLimitedBHMZ05 at hr
  simp only [hn, hx, hy, if_false, Bool.false_eq_true] at hr
  change Option.map _ (octBHMZ05 up n (octClosureAssign up n X) Y tp) = some r at hr
  cases hP : octBHMZ05 up n (octClosureAssign up n X) Y tp with
  | none => rw [hP] at hr; simp at hr
  | some P =>
    rw [hP] at hr
    simp only [Option.map_some] at hr
    injection hr with hr
    subst hr
    exact ⟨P, rfl, rfl⟩

end PPLV.Widen
