import PPLV.Widen.ProofsCert
import Mathlib.Data.Multiset.DershowitzManna

/-!
# C08 — `is_cert_multiset_stabilizing` decides (a sub-relation of) the Dershowitz–Manna order

For a comparison function with the laws of the three `compare(cert)` methods, the Boolean computed by
`is_cert_multiset_stabilizing` on the two `std::map`s implies that the multiset of certificates of
`*this` is below that of `y` in the multiset extension of `compare = -1`; hence the relation is
well-founded (`Multiset.wellFounded_isDershowitzMannaLT`).
-/
namespace PPLV.Widen

/-- the laws of a three-way comparison that the map and the multiset test rely on -/
structure LawfulCmp {α : Type} (cmp : α → α → Ordering) : Prop where
  eq_iff : ∀ a b, cmp a b = .eq ↔ a = b
  swap : ∀ a b, cmp a b = .gt ↔ cmp b a = .lt
  trans : ∀ a b c, cmp a b = .lt → cmp b c = .lt → cmp a c = .lt

section
variable {α : Type} {cmp : α → α → Ordering}

theorem LawfulCmp.irrefl (h : LawfulCmp cmp) (a : α) : cmp a a ≠ .lt := by
  have := (h.eq_iff a a).mpr rfl
  simp [this]

theorem LawfulCmp.asymm (h : LawfulCmp cmp) (a b : α) : cmp a b = .lt → cmp b a ≠ .lt := by
  intro h1 h2
  have := (h.swap a b).mpr h2
  simp [h1] at this

/-- the preorder whose strict part is `cmp · · = lt` -/
def LawfulCmp.preorder (h : LawfulCmp cmp) : Preorder α where
  le a b := a = b ∨ cmp a b = .lt
  lt a b := cmp a b = .lt
  le_refl a := Or.inl rfl
  le_trans a b c := by
    rintro (rfl | h1) (rfl | h2)
    · exact Or.inl rfl
    · exact Or.inr h2
    · exact Or.inr h1
    · exact Or.inr (h.trans _ _ _ h1 h2)
  lt_iff_le_not_ge a b := by
    constructor
    · intro h1
      refine ⟨Or.inr h1, ?_⟩
      rintro (rfl | h2)
      · exact h.irrefl _ h1
      · exact h.asymm _ _ h1 h2
    · rintro ⟨rfl | h1, h2⟩
      · exact absurd (Or.inl rfl) h2
      · exact h1

/-- the multiset a `std::map<Cert, size_type>` denotes -/
def toMS : List (α × Nat) → Multiset α
  | [] => 0
  | (c, k) :: rest => Multiset.replicate k c + toMS rest

/-- invariant of the map: positive counts, keys strictly descending -/
def Desc (cmp : α → α → Ordering) : List (α × Nat) → Prop
  | [] => True
  | (c, k) :: rest => 0 < k ∧ (∀ p ∈ rest, cmp p.1 c = .lt) ∧ Desc cmp rest

theorem mem_toMS {l : List (α × Nat)} {a : α} (h : a ∈ toMS l) : ∃ p ∈ l, p.1 = a := by
  induction l with
  | nil => simp [toMS] at h
  | cons p rest ih =>
    obtain ⟨c, k⟩ := p
    simp only [toMS, Multiset.mem_add] at h
    rcases h with h | h
    · exact ⟨(c, k), by simp, (Multiset.eq_of_mem_replicate h).symm⟩
    · obtain ⟨q, hq, e⟩ := ih h
      exact ⟨q, by simp [hq], e⟩

theorem insertCert_keys (c : α) (l : List (α × Nat)) :
    ∀ p ∈ insertCert cmp c l, p.1 = c ∨ ∃ q ∈ l, q.1 = p.1 := by
  induction l with
  | nil => intro p hp; simp [insertCert] at hp; exact Or.inl (by simp [hp])
  | cons d rest ih =>
    obtain ⟨d, k⟩ := d
    intro p hp
    simp only [insertCert] at hp
    split_ifs at hp with h1 h2
    · simp only [List.mem_cons] at hp
      rcases hp with rfl | rfl | hp
      · exact Or.inl rfl
      · exact Or.inr ⟨(d, k), by simp, rfl⟩
      · exact Or.inr ⟨p, by simp [hp], rfl⟩
    · simp only [List.mem_cons] at hp
      rcases hp with rfl | hp
      · exact Or.inr ⟨(d, k), by simp, rfl⟩
      · rcases ih p hp with h | ⟨q, hq, e⟩
        · exact Or.inl h
        · exact Or.inr ⟨q, by simp [hq], e⟩
    · simp only [List.mem_cons] at hp
      rcases hp with rfl | hp
      · exact Or.inr ⟨(d, k), by simp, rfl⟩
      · exact Or.inr ⟨p, by simp [hp], rfl⟩

theorem insertCert_spec (h : LawfulCmp cmp) (c : α) (l : List (α × Nat)) (hd : Desc cmp l) :
    Desc cmp (insertCert cmp c l) ∧ toMS (insertCert cmp c l) = c ::ₘ toMS l := by
  induction l with
  | nil => simp [insertCert, Desc, toMS]
  | cons d rest ih =>
    obtain ⟨d, k⟩ := d
    obtain ⟨hk, hlt, hrest⟩ := hd
    simp only [insertCert]
    split_ifs with h1 h2
    · refine ⟨⟨Nat.one_pos, ?_, hk, hlt, hrest⟩, ?_⟩
      · intro p hp
        have hdc : cmp d c = .lt := (h.swap c d).mp h1
        simp only [List.mem_cons] at hp
        rcases hp with rfl | hp
        · exact hdc
        · exact h.trans _ _ _ (hlt p hp) hdc
      · simp [toMS]
    · obtain ⟨ih1, ih2⟩ := ih hrest
      refine ⟨⟨hk, ?_, ih1⟩, ?_⟩
      · intro p hp
        rcases insertCert_keys c rest p hp with e | ⟨q, hq, e⟩
        · rw [e]; exact (h.swap d c).mp h2
        · rw [← e]; exact hlt q hq
      · simp only [toMS, ih2]
        rw [Multiset.add_cons]
    · have hcd : c = d := by
        have h3 : cmp c d ≠ .lt := fun hh => h2 ((h.swap d c).mpr hh)
        have : cmp c d = .eq := by
          cases hc : cmp c d <;> simp_all
        exact (h.eq_iff c d).mp this
      subst hcd
      refine ⟨⟨Nat.succ_pos _, hlt, hrest⟩, ?_⟩
      simp [toMS, Multiset.replicate_succ]

theorem collect_spec (h : LawfulCmp cmp) (cs : List α) :
    Desc cmp (collectCertificates cmp cs) ∧ toMS (collectCertificates cmp cs) = (cs : Multiset α) := by
  have gen : ∀ (cs : List α) (m : List (α × Nat)), Desc cmp m →
      Desc cmp (cs.foldl (fun m c => insertCert cmp c m) m) ∧
      toMS (cs.foldl (fun m c => insertCert cmp c m) m) = toMS m + (cs : Multiset α) := by
    intro cs
    induction cs with
    | nil => intro m hm; simpa using hm
    | cons c cs ih =>
      intro m hm
      obtain ⟨h1, h2⟩ := insertCert_spec h c m hm
      obtain ⟨h3, h4⟩ := ih _ h1
      refine ⟨h3, ?_⟩
      simp only [List.foldl_cons]
      rw [h4, h2, ← Multiset.cons_coe, Multiset.cons_add, Multiset.add_cons]
  have := gen cs [] trivial
  simpa [collectCertificates, toMS] using this

/-- the core: on well-formed maps the loop of `is_cert_multiset_stabilizing` returns `true` only if the
    first multiset is Dershowitz–Manna-below the second -/
theorem msStabilizing_dm (h : LawfulCmp cmp) :
    ∀ (xs ys : List (α × Nat)), Desc cmp xs → Desc cmp ys → msStabilizing cmp xs ys = true →
      @Multiset.IsDershowitzMannaLT α h.preorder (toMS xs) (toMS ys)
  | [], [], _, _, hs => by simp [msStabilizing] at hs
  | _ :: _, [], _, _, hs => by simp [msStabilizing] at hs
  | [], (yc, yk) :: ys, _, hy, _ => by
    refine ⟨0, 0, toMS ((yc, yk) :: ys), ?_, by simp [toMS], by simp, by simp⟩
    intro he
    have : yc ∈ toMS ((yc, yk) :: ys) := by
      simp only [toMS, Multiset.mem_add]
      exact Or.inl (Multiset.mem_replicate.mpr ⟨Nat.pos_iff_ne_zero.mp hy.1, rfl⟩)
    rw [he] at this
    simp at this
  | (xc, xk) :: xs, (yc, yk) :: ys, hx, hy, hs => by
    letI := h.preorder
    obtain ⟨hxk, hxlt, hxs⟩ := hx
    obtain ⟨hyk, hylt, hys⟩ := hy
    simp only [msStabilizing] at hs
    cases hc : cmp xc yc with
    | gt => simp [hc] at hs
    | lt =>
      -- every element of the `x` multiset is below `yc`
      refine ⟨0, toMS ((xc, xk) :: xs), toMS ((yc, yk) :: ys), ?_, by simp, by simp, ?_⟩
      · intro he
        have : yc ∈ toMS ((yc, yk) :: ys) := by
          simp only [toMS, Multiset.mem_add]
          exact Or.inl (Multiset.mem_replicate.mpr ⟨Nat.pos_iff_ne_zero.mp hyk, rfl⟩)
        rw [he] at this
        simp at this
      · intro a ha
        refine ⟨yc, ?_, ?_⟩
        · simp only [toMS, Multiset.mem_add]
          exact Or.inl (Multiset.mem_replicate.mpr ⟨Nat.pos_iff_ne_zero.mp hyk, rfl⟩)
        · obtain ⟨p, hp, e⟩ := mem_toMS ha
          simp only [List.mem_cons] at hp
          rcases hp with rfl | hp
          · rw [← e]; exact hc
          · rw [← e]; exact h.trans _ _ _ (hxlt p hp) hc
    | eq =>
      have e : xc = yc := (h.eq_iff _ _).mp hc
      subst e
      simp only [hc] at hs
      split_ifs at hs with hk
      · -- same count: recurse, then add the common prefix
        subst hk
        obtain ⟨X, Y, Z, hZ, hM, hN, hlt⟩ := msStabilizing_dm h xs ys hxs hys hs
        refine ⟨Multiset.replicate xk xc + X, Y, Z, hZ, ?_, ?_, hlt⟩
        · simp only [toMS, hM, add_assoc]
        · simp only [toMS, hN, add_assoc]
      · -- fewer occurrences in `x`
        have hlt : xk < yk := by simpa using hs
        refine ⟨Multiset.replicate xk xc, toMS xs, Multiset.replicate (yk - xk) xc + toMS ys, ?_, ?_, ?_, ?_⟩
        · intro he
          have : xc ∈ Multiset.replicate (yk - xk) xc + toMS ys := by
            simp only [Multiset.mem_add]
            exact Or.inl (Multiset.mem_replicate.mpr ⟨by omega, rfl⟩)
          rw [he] at this
          simp at this
        · simp [toMS]
        · simp only [toMS, ← add_assoc, ← Multiset.replicate_add]
          congr 2
          omega
        · intro a ha
          refine ⟨xc, ?_, ?_⟩
          · simp only [Multiset.mem_add]
            exact Or.inl (Multiset.mem_replicate.mpr ⟨by omega, rfl⟩)
          · obtain ⟨p, hp, e⟩ := mem_toMS ha
            rw [← e]; exact hxlt p hp

/-- `is_cert_multiset_stabilizing`, as a relation on the lists of the disjuncts' certificates, is
    well-founded whenever `compare = -1` is. -/
theorem isCertMultisetStabilizing_wf (h : LawfulCmp cmp)
    (wf : WellFounded (fun a b : α => cmp a b = .lt)) :
    WellFounded (fun X Y : List α => isCertMultisetStabilizing cmp X Y = true) := by
  letI := h.preorder
  haveI : WellFoundedLT α := ⟨wf⟩
  refine Subrelation.wf (r := InvImage (Multiset.IsDershowitzMannaLT) (fun l : List α => (l : Multiset α)))
    ?_ (InvImage.wf _ Multiset.wellFounded_isDershowitzMannaLT)
  intro X Y hXY
  obtain ⟨dX, mX⟩ := collect_spec h X
  obtain ⟨dY, mY⟩ := collect_spec h Y
  have := msStabilizing_dm h _ _ dX dY hXY
  rw [mX, mY] at this
  exact this

end

/-! ### instances -/

theorem h79_lawful : LawfulCmp H79Cert.compare :=
  ⟨H79Cert.compare_eq, H79Cert.compare_swap, H79Cert.compare_trans⟩

theorem grid_lawful : LawfulCmp GridCert.compare :=
  ⟨GridCert.compare_eq, GridCert.compare_swap, GridCert.compare_trans⟩

/-- BHRZ03 certificates of space dimension `n` -/
abbrev BHRZ03CertN (n : Nat) := { c : BHRZ03Cert // c.numRaysNullCoord.length = n }

def BHRZ03CertN.compare {n : Nat} (a b : BHRZ03CertN n) : Ordering := a.1.compare b.1

theorem bhrz03_lawful (n : Nat) : LawfulCmp (BHRZ03CertN.compare (n := n)) where
  eq_iff a b := by
    unfold BHRZ03CertN.compare
    rw [BHRZ03Cert.compare_eq _ _ (by rw [a.2, b.2])]
    exact Subtype.ext_iff.symm
  swap a b := BHRZ03Cert.compare_swap _ _
  trans a b c := BHRZ03Cert.compare_trans _ _ _ (by rw [a.2, b.2]) (by rw [b.2, c.2])

theorem bhrz03N_compare_wf (n : Nat) :
    WellFounded (fun a b : BHRZ03CertN n => BHRZ03CertN.compare a b = .lt) := by
  refine Subrelation.wf (r := InvImage (BHRZ03Cert.LessCert n) Subtype.val) ?_
    (InvImage.wf _ (bhrz03_compare_wf n))
  intro a b h
  exact ⟨a.2, b.2, h⟩

end PPLV.Widen

/-! ### the order of `BHZ03_widening_assign` on powersets -/
namespace PPLV.Widen

/-- certificate of a powerset element: certificate of the hull of its disjuncts, certificates of the disjuncts -/
structure PSCert (α : Type) where
  hull : α
  certs : List α

/-- "`x` is below `y`" as `BHZ03_widening_assign` guarantees it of its result `x` against the previous
    iterate `y`: the hull certificate decreased (first / second / fourth technique), or the hulls have the
    same certificate and either `x` is a singleton while `y` is not (the fall-back to the hull), or `y`
    is not a singleton and the multiset test passed. -/
def Bhz03Less {α : Type} (lessPh : α → α → Prop) (cmp : α → α → Ordering) (x y : PSCert α) : Prop :=
  lessPh x.hull y.hull ∨
  (x.hull = y.hull ∧
    ((x.certs.length = 1 ∧ 1 < y.certs.length) ∨
     (1 < y.certs.length ∧ isCertMultisetStabilizing cmp x.certs y.certs = true)))

theorem bhz03Less_wf {α : Type} {lessPh : α → α → Prop} {cmp : α → α → Ordering}
    (wfPh : WellFounded lessPh) (h : LawfulCmp cmp) (wf : WellFounded (fun a b : α => cmp a b = .lt)) :
    WellFounded (Bhz03Less lessPh cmp) := by
  have wfMS := isCertMultisetStabilizing_wf h wf
  have wfL : WellFounded (Prod.Lex lessPh (Prod.Lex (· < · : Nat → Nat → Prop)
      (fun X Y : List α => isCertMultisetStabilizing cmp X Y = true))) :=
    WellFounded.prod_lex wfPh (WellFounded.prod_lex Nat.lt_wfRel.wf wfMS)
  refine Subrelation.wf (r := InvImage _ (fun p : PSCert α =>
    (p.hull, (if p.certs.length = 1 then 0 else 1), p.certs))) ?_ (InvImage.wf _ wfL)
  intro x y hxy
  rcases hxy with h1 | ⟨e, h2⟩
  · exact Prod.Lex.left _ _ h1
  · simp only [InvImage]
    rw [e]
    apply Prod.Lex.right
    rcases h2 with ⟨hx, hy⟩ | ⟨hy, hs⟩
    · have : ¬ y.certs.length = 1 := by omega
      simp only [hx, this, ↓reduceIte]
      exact Prod.Lex.left _ _ Nat.zero_lt_one
    · have hy' : ¬ y.certs.length = 1 := by omega
      by_cases hx : x.certs.length = 1
      · simp only [hx, hy', ↓reduceIte]
        exact Prod.Lex.left _ _ Nat.zero_lt_one
      · simp only [hx, hy', ↓reduceIte]
        exact Prod.Lex.right _ hs

end PPLV.Widen
