import PPLV.Widen.ImplShapeProofsLimBD
import PPLV.Widen.ImplShapeProofsLimOct
import PPLV.WR.TransProofsRefine
/-!
# C08 stage 2 — the cells that `get_limiting_shape` / `get_limiting_octagon` address are stored cells
(when the constraint system has at most the space dimension of the receiver, which both callers check:
`BD_Shape_templates.hh:3237`, `Octagonal_Shape_templates.hh:4019`)
-/
namespace PPLV.Widen
open PPLV.WR

theorem extractBoundedDifference_range (csd : Nat) (cf : Nat → Int)
    (hok : (extractBoundedDifference csd cf).ok = true) (hnv : (extractBoundedDifference csd cf).numVars ≠ 0) :
    (extractBoundedDifference csd cf).i ≤ csd ∧ (extractBoundedDifference csd cf).j ≤ csd ∧
    (extractBoundedDifference csd cf).i ≠ (extractBoundedDifference csd cf).j := by
  have h1 := firstNonzero_spec cf (lo := 1) (hi := csd + 1) (by omega)
  unfold extractBoundedDifference at hok hnv ⊢
  simp only at hok hnv ⊢
  by_cases hf : firstNonzero cf 1 (csd + 1) = csd + 1
  · simp [hf] at hnv
  · have h2 := firstNonzero_spec cf (lo := firstNonzero cf 1 (csd + 1) + 1) (hi := csd + 1) (by omega)
    simp only [hf, if_false] at hok hnv ⊢
    by_cases hs : firstNonzero cf (firstNonzero cf 1 (csd + 1) + 1) (csd + 1) = csd + 1
    · simp only [hs, if_true]; omega
    · simp only [hs, if_false] at hok hnv ⊢
      split_ifs at hok ⊢
      simp_all
      omega

/-- the cell of a selected constraint is a stored cell off the diagonal -/
theorem bdLimCell_range (csd : Nat) (c : LimCon) (h : bdLimSel csd c = true) :
    (bdLimCell csd c).1 ≤ csd ∧ (bdLimCell csd c).2 ≤ csd ∧ (bdLimCell csd c).1 ≠ (bdLimCell csd c).2 := by
  unfold bdLimSel at h
  simp only [Bool.and_eq_true, bne_iff_ne, ne_eq] at h
  obtain ⟨h1, h2, h3⟩ := extractBoundedDifference_range csd c.coeff h.1 h.2
  unfold bdLimCell
  simp only
  split
  · exact ⟨h1, h2, h3⟩
  · exact ⟨h2, h1, fun e => h3 e.symm⟩

theorem extractOctagonalDifference_range (csd : Nat) (cf : Nat → Int) (inhomo : Int)
    (hok : (extractOctagonalDifference csd cf inhomo).ok = true)
    (hnv : (extractOctagonalDifference csd cf inhomo).numVars ≠ 0) :
    (extractOctagonalDifference csd cf inhomo).i < 2 * csd ∧
    (extractOctagonalDifference csd cf inhomo).j < rowSize (extractOctagonalDifference csd cf inhomo).i := by
  have h1 := firstNonzero_spec cf (lo := 1) (hi := csd + 1) (by omega)
  unfold extractOctagonalDifference at hok hnv ⊢
  simp only at hok hnv ⊢
  by_cases hf : firstNonzero cf 1 (csd + 1) = csd + 1
  · simp [hf] at hnv
  · have h2 := firstNonzero_spec cf (lo := firstNonzero cf 1 (csd + 1) - 1 + 2) (hi := csd + 1) (by omega)
    simp only [hf, if_false] at hok hnv ⊢
    by_cases hs : firstNonzero cf (firstNonzero cf 1 (csd + 1) - 1 + 2) (csd + 1) = csd + 1
    · simp only [hs, if_true]
      split <;> simp only [rowSize] <;> omega
    · simp only [hs, if_false] at hok hnv ⊢
      split_ifs at hok ⊢ <;> simp_all [rowSize] <;> omega

theorem octLimCell_range (csd : Nat) (c : LimCon) (h : octLimSel csd c = true) :
    (octLimCell csd c).1 < 2 * csd ∧ (octLimCell csd c).2 < rowSize (octLimCell csd c).1 := by
  unfold octLimSel at h
  simp only [Bool.and_eq_true, bne_iff_ne, ne_eq] at h
  exact extractOctagonalDifference_range csd c.coeff c.inhomo h.1 h.2

end PPLV.Widen
