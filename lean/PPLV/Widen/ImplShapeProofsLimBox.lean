import PPLV.Widen.ImplShapeProofsBase
import PPLV.Widen.ProofsItv
import PPLV.WR.TransProofsRefine
import Mathlib.Tactic.Linarith
import Mathlib.Tactic.FieldSimp
import Mathlib.Tactic.Ring
/-!
# C08 stage 2 — `Box::get_limiting_box`, `Box::limited_CC76_extrapolation_assign` (rational boundaries)
-/
namespace PPLV.Widen
open PPLV.WR

/-! ## boundaries -/

theorem loLE_imp {xl : Option Rat} {xo : Bool} {yl : Option Rat} {yo : Bool} (h : loLE xl xo yl yo = true)
    {q : Rat} (hq : loOK yl yo q) : loOK xl xo q := by
  cases xl with
  | none => trivial
  | some a =>
    cases yl with
    | none => simp [loLE] at h
    | some b =>
      simp only [loLE, Bool.or_eq_true, decide_eq_true_eq, Bool.and_eq_true, Bool.not_eq_true'] at h
      simp only [loOK] at hq ⊢
      rcases h with h | ⟨h1, h2⟩
      · cases xo <;> cases yo <;> simp_all <;> linarith
      · subst h1
        cases xo <;> cases yo <;> simp_all
        exact le_of_lt hq

theorem not_loLE_imp {xl : Option Rat} {xo : Bool} {yl : Option Rat} {yo : Bool} (h : loLE xl xo yl yo = false)
    {q : Rat} (hq : loOK xl xo q) : loOK yl yo q := by
  cases xl with
  | none => simp [loLE] at h
  | some a =>
    cases yl with
    | none => trivial
    | some b =>
      simp only [loLE, Bool.or_eq_false_iff, decide_eq_false_iff_not, Bool.and_eq_false_iff, not_lt] at h
      simp only [loOK] at hq ⊢
      obtain ⟨h1, h2⟩ := h
      rcases lt_or_eq_of_le h1 with h3 | h3
      · cases xo <;> cases yo <;> simp_all <;> linarith
      · subst h3
        cases xo <;> cases yo <;> simp_all
        exact le_of_lt hq

theorem hiGE_imp {xu : Option Rat} {xo : Bool} {yu : Option Rat} {yo : Bool} (h : hiGE xu xo yu yo = true)
    {q : Rat} (hq : hiOK yu yo q) : hiOK xu xo q := by
  cases xu with
  | none => trivial
  | some a =>
    cases yu with
    | none => simp [hiGE] at h
    | some b =>
      simp only [hiGE, Bool.or_eq_true, decide_eq_true_eq, Bool.and_eq_true, Bool.not_eq_true'] at h
      simp only [hiOK] at hq ⊢
      rcases h with h | ⟨h1, h2⟩
      · cases xo <;> cases yo <;> simp_all <;> linarith
      · subst h1
        cases xo <;> cases yo <;> simp_all
        exact le_of_lt hq

theorem not_hiGE_imp {xu : Option Rat} {xo : Bool} {yu : Option Rat} {yo : Bool} (h : hiGE xu xo yu yo = false)
    {q : Rat} (hq : hiOK xu xo q) : hiOK yu yo q := by
  cases xu with
  | none => simp [hiGE] at h
  | some a =>
    cases yu with
    | none => trivial
    | some b =>
      simp only [hiGE, Bool.or_eq_false_iff, decide_eq_false_iff_not, Bool.and_eq_false_iff, not_lt] at h
      simp only [hiOK] at hq ⊢
      obtain ⟨h1, h2⟩ := h
      rcases lt_or_eq_of_le h1 with h3 | h3
      · cases xo <;> cases yo <;> simp_all <;> linarith
      · subst h3
        cases xo <;> cases yo <;> simp_all
        exact le_of_lt hq

/-- `Interval::intersect_assign` is the intersection of the point sets -/
theorem Itv.intersect_mem (a b : Itv) (q : Rat) : (Itv.intersect a b).mem q ↔ a.mem q ∧ b.mem q := by
  unfold Itv.intersect Itv.mem
  by_cases h1 : loLE a.lo a.loOpen b.lo b.loOpen = true
  · by_cases h2 : hiGE a.hi a.hiOpen b.hi b.hiOpen = true
    · simp only [h1, h2, if_true]
      exact ⟨fun h => ⟨⟨loLE_imp h1 h.1, hiGE_imp h2 h.2⟩, h⟩, fun h => h.2⟩
    · simp only [h1, h2, if_true, if_false, Bool.false_eq_true]
      have h2' : hiGE a.hi a.hiOpen b.hi b.hiOpen = false := by simpa using h2
      exact ⟨fun h => ⟨⟨loLE_imp h1 h.1, h.2⟩, h.1, not_hiGE_imp h2' h.2⟩, fun h => ⟨h.2.1, h.1.2⟩⟩
  · have h1' : loLE a.lo a.loOpen b.lo b.loOpen = false := by simpa using h1
    by_cases h2 : hiGE a.hi a.hiOpen b.hi b.hiOpen = true
    · simp only [h1, h2, if_true, if_false, Bool.false_eq_true]
      exact ⟨fun h => ⟨⟨h.1, hiGE_imp h2 h.2⟩, not_loLE_imp h1' h.1, h.2⟩, fun h => ⟨h.1.1, h.2.2⟩⟩
    · simp only [h1, h2, if_false, Bool.false_eq_true]
      have h2' : hiGE a.hi a.hiOpen b.hi b.hiOpen = false := by simpa using h2
      exact ⟨fun h => ⟨h, not_loLE_imp h1' h.1, not_hiGE_imp h2' h.2⟩, fun h => h.1⟩

/-! ## a constraint on one variable -/

/-- `denom * q + numer (= | ≥ | >) 0`: the constraint `c` read on its only variable -/
def conHolds1 (c : LimCon) (numer denom : Int) (q : Rat) : Prop :=
  if c.isEq then (denom : Rat) * q + numer = 0
  else if c.strict then 0 < (denom : Rat) * q + numer else 0 ≤ (denom : Rat) * q + numer

theorem lim_expr_eq (n d q : Rat) (hd : d ≠ 0) : d * q + n = d * (q - (-(n / d))) := by
  field_simp; ring

/-- (B1) `interval_relation(…) == is_included()` is sound: the interval lies inside the half-line -/
theorem intervalRelationIsIncluded_sound (I : Itv) (c : LimCon) (numer denom : Int) (hd : denom ≠ 0)
    (h : intervalRelationIsIncluded I c numer denom = true) (q : Rat) (hq : I.mem q) :
    conHolds1 c numer denom q := by
  have hdq : (denom : Rat) ≠ 0 := by exact_mod_cast hd
  have hexp := lim_expr_eq (numer : Rat) (denom : Rat) q hdq
  unfold intervalRelationIsIncluded at h
  split at h
  · cases h
  · simp only at h
    split at h
    · cases h
    · rename_i hne
      have hne' : c.isEq = false := by simpa using hne
      unfold conHolds1
      simp only [hne', Bool.false_eq_true, if_false]
      rw [hexp]
      split at h
      · rename_i hpos
        have hpos' : (0 : Rat) < denom := by exact_mod_cast hpos
        cases hlo : I.lo with
        | none => rw [hlo] at h; cases h
        | some l =>
          rw [hlo] at h
          have hql := hq.1
          rw [hlo] at hql
          simp only [loOK] at hql
          simp only at h
          split at h
          · rename_i hl
            have : -( (numer : Rat) / denom) < q := by
              split at hql <;> linarith
            have hp : 0 < (denom : Rat) * (q - -((numer : Rat) / denom)) := mul_pos hpos' (by linarith)
            split
            · exact hp
            · exact le_of_lt hp
          · split at h
            · rename_i hl
              split at h
              · rename_i hs
                simp only [Bool.or_eq_true, Bool.not_eq_true'] at hs
                split
                · rename_i hstrict
                  rcases hs with hs | hs
                  · rw [hs] at hstrict; cases hstrict
                  · rw [hs] at hql
                    simp only [if_true] at hql
                    exact mul_pos hpos' (by linarith)
                · have : -((numer : Rat) / denom) ≤ q := by
                    split at hql <;> linarith
                  exact mul_nonneg (le_of_lt hpos') (by linarith)
              · cases h
            · cases h
      · rename_i hnpos
        have hneg' : (denom : Rat) < 0 := by
          have : denom < 0 := by omega
          exact_mod_cast this
        cases hhi : I.hi with
        | none => rw [hhi] at h; cases h
        | some u =>
          rw [hhi] at h
          have hqu := hq.2
          rw [hhi] at hqu
          simp only [hiOK] at hqu
          simp only at h
          split at h
          · rename_i hu
            have : q < -((numer : Rat) / denom) := by
              split at hqu <;> linarith
            have hp : 0 < (denom : Rat) * (q - -((numer : Rat) / denom)) :=
              mul_pos_of_neg_of_neg hneg' (by linarith)
            split
            · exact hp
            · exact le_of_lt hp
          · split at h
            · rename_i hu
              split at h
              · rename_i hs
                simp only [Bool.or_eq_true, Bool.not_eq_true'] at hs
                split
                · rename_i hstrict
                  rcases hs with hs | hs
                  · rw [hs] at hstrict; cases hstrict
                  · rw [hs] at hqu
                    simp only [if_true] at hqu
                    exact mul_pos_of_neg_of_neg hneg' (by linarith)
                · have : q ≤ -((numer : Rat) / denom) := by
                    split at hqu <;> linarith
                  exact mul_nonneg_of_nonpos_of_nonpos (le_of_lt hneg') (by linarith)
              · cases h
            · cases h

end PPLV.Widen
