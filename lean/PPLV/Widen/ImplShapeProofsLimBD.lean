import PPLV.Widen.ImplShapeProofsBase
/-!
# C08 stage 2 — `BD_Shape::get_limiting_shape` and the limited extrapolations, matrix level

Everything here is about the state in which the loops of `get_limiting_shape` run: the receiver after the
`shortest_path_closure_assign()` at the head of `get_limiting_shape` (`BD_Shape_templates.hh:3164`), written
`Xc := bdClosureAssign up n X`.  The lift to the points of the unclosed receiver is in `ImplShapeProofsLimLift`.
-/
namespace PPLV.Widen
open PPLV.WR
open PPLV.WR.ExtRat (fin pinf le_rfl' le_trans' le_total' le_pinf)

/-! ## generic facts -/

theorem lim_le_of_ltB {a b : ExtRat} (h : ExtRat.ltB a b = true) : a ≤ b := by
  rw [ltB_iff] at h
  rcases le_total' a b with h1 | h1
  · exact h1
  · exact absurd h1 h

theorem lim_le_of_not_ltB {a b : ExtRat} (h : ¬ ExtRat.ltB a b = true) : b ≤ a := by
  rw [ltB_iff] at h; exact not_not.mp h

theorem lim_dom_set {dbm ls : Mat} (h : ∀ a b, dbm a b ≤ ls a b) {i j : Nat} {d : ExtRat} (hd : dbm i j ≤ d) :
    ∀ a b, dbm a b ≤ (ls.set i j d) a b := by
  intro a b
  rw [Mat.set_apply]
  split
  · rename_i hab; obtain ⟨h1, h2⟩ := hab; subst h1; subst h2; exact hd
  · exact h a b

theorem lim_set_le {ls : Mat} {i j : Nat} {d : ExtRat} (hd : d ≤ ls i j) : ∀ a b, (ls.set i j d) a b ≤ ls a b := by
  intro a b
  rw [Mat.set_apply]
  split
  · rename_i hab; obtain ⟨h1, h2⟩ := hab; subst h1; subst h2; exact hd
  · exact le_rfl' _

/-- the closure is a fixed point of itself (flags: the result is marked empty, or marked closed, or `n = 0`) -/
theorem bdClosureAssign_fix (up : Rat → ExtRat) (n : Nat) (s : BDS) :
    bdClosureAssign up n (bdClosureAssign up n s) = bdClosureAssign up n s := by
  unfold bdClosureAssign
  by_cases h1 : (s.empty || s.closed) = true
  · simp [h1]
  · by_cases h2 : n = 0
    · simp [h1, h2]
    · simp only [h1, h2, if_false, Bool.false_eq_true]
      split <;> simp [BDS.setEmpty]

/-! ## the cell and the bound of a supplied constraint -/

/-- the cell `x` of `get_limiting_shape` (`:3188`): `negative ? dbm[i][j] : dbm[j][i]` -/
def bdLimCell (csd : Nat) (c : LimCon) : Nat × Nat :=
  let X := extractBoundedDifference csd c.coeff
  if X.coeff < 0 then (X.i, X.j) else (X.j, X.i)

/-- `|coeff|` (`:3192-3193`) -/
def bdLimCoeff (csd : Nat) (c : LimCon) : Int :=
  let X := extractBoundedDifference csd c.coeff
  if X.coeff < 0 then - X.coeff else X.coeff

/-- `d = div_round_up(c.inhomogeneous_term(), coeff)` (`:3195`) -/
def bdLimBound (up : Rat → ExtRat) (csd : Nat) (c : LimCon) : ExtRat := divUp up c.inhomo (bdLimCoeff csd c)

/-- `d1 = div_round_up(-c.inhomogeneous_term(), coeff)` (`:3207-3208`) -/
def bdLimBound1 (up : Rat → ExtRat) (csd : Nat) (c : LimCon) : ExtRat := divUp up (- c.inhomo) (bdLimCoeff csd c)

/-- the constraint is one that `get_limiting_shape` looks at: a bounded difference with at least one variable -/
def bdLimSel (csd : Nat) (c : LimCon) : Bool :=
  let X := extractBoundedDifference csd c.coeff
  X.ok && X.numVars != 0

/-- `bdLimitStep` in terms of the cell and the bounds -/
theorem bdLimitStep_eq (up : Rat → ExtRat) (csd : Nat) (dbm : Mat) (st : Mat × Bool) (c : LimCon) :
    bdLimitStep up csd dbm st c =
      if bdLimSel csd c then
        let ij := bdLimCell csd c
        let d := bdLimBound up csd c
        if dbm ij.1 ij.2 ≤ d then
          if !c.isEq then
            if ExtRat.ltB d (st.1 ij.1 ij.2) then (st.1.set ij.1 ij.2 d, true) else st
          else
            let d1 := bdLimBound1 up csd c
            if dbm ij.2 ij.1 ≤ d1 then
              if (decide (d ≤ st.1 ij.1 ij.2) && ExtRat.ltB d1 (st.1 ij.2 ij.1))
                  || (ExtRat.ltB d (st.1 ij.1 ij.2) && decide (d1 ≤ st.1 ij.2 ij.1)) then
                ((st.1.set ij.1 ij.2 d).set ij.2 ij.1 d1, true)
              else st
            else st
        else st
      else st := by
  unfold bdLimitStep bdLimSel bdLimCell bdLimBound bdLimBound1 bdLimCoeff
  by_cases hneg : (extractBoundedDifference csd c.coeff).coeff < 0 <;> simp [hneg]

/-! ## (L1) the limiting matrix dominates the closed receiver, and only decreases along the fold -/

theorem bdLimitStep_dom (up : Rat → ExtRat) (csd : Nat) (dbm : Mat) (st : Mat × Bool) (c : LimCon)
    (h : ∀ a b, dbm a b ≤ st.1 a b) : ∀ a b, dbm a b ≤ (bdLimitStep up csd dbm st c).1 a b := by
  rw [bdLimitStep_eq]
  split
  · simp only
    split
    · rename_i hx
      split
      · split
        · exact lim_dom_set h hx
        · exact h
      · split
        · rename_i hy
          split
          · exact lim_dom_set (lim_dom_set h hx) hy
          · exact h
        · exact h
    · exact h
  · exact h

theorem bdLimitStep_le (up : Rat → ExtRat) (csd : Nat) (dbm : Mat) (st : Mat × Bool) (c : LimCon) :
    ∀ a b, (bdLimitStep up csd dbm st c).1 a b ≤ st.1 a b := by
  rw [bdLimitStep_eq]
  split
  · simp only
    split
    · split
      · split
        · rename_i hlt; exact lim_set_le (lim_le_of_ltB hlt)
        · intro a b; exact le_rfl' _
      · split
        · split
          · rename_i hc
            have hd : bdLimBound up csd c ≤ st.1 (bdLimCell csd c).1 (bdLimCell csd c).2 := by
              simp only [Bool.or_eq_true, Bool.and_eq_true, decide_eq_true_eq] at hc
              rcases hc with hc | hc
              · exact hc.1
              · exact lim_le_of_ltB hc.1
            have hd1 : bdLimBound1 up csd c ≤ st.1 (bdLimCell csd c).2 (bdLimCell csd c).1 := by
              simp only [Bool.or_eq_true, Bool.and_eq_true, decide_eq_true_eq] at hc
              rcases hc with hc | hc
              · exact lim_le_of_ltB hc.2
              · exact hc.2
            intro a b
            simp only [Mat.set_apply]
            split
            · rename_i hab; obtain ⟨h1, h2⟩ := hab; subst h1; subst h2; exact hd1
            · split
              · rename_i hab; obtain ⟨h1, h2⟩ := hab; subst h1; subst h2; exact hd
              · exact le_rfl' _
          · intro a b; exact le_rfl' _
        · intro a b; exact le_rfl' _
    · intro a b; exact le_rfl' _
  · intro a b; exact le_rfl' _

/-- after an inequality that the closed receiver satisfies has been processed its cell is at most `d` -/
theorem bdLimitStep_keeps_ineq (up : Rat → ExtRat) (csd : Nat) (dbm : Mat) (st : Mat × Bool) (c : LimCon)
    (hsel : bdLimSel csd c = true) (hineq : c.isEq = false)
    (hx : dbm (bdLimCell csd c).1 (bdLimCell csd c).2 ≤ bdLimBound up csd c) :
    (bdLimitStep up csd dbm st c).1 (bdLimCell csd c).1 (bdLimCell csd c).2 ≤ bdLimBound up csd c := by
  rw [bdLimitStep_eq]
  simp only [hsel, hx, hineq, if_true, Bool.not_false]
  split
  · simp [Mat.set_apply]; exact le_rfl' _
  · rename_i hlt; exact lim_le_of_not_ltB hlt

/-- after an equality that the closed receiver satisfies (both halves) has been processed, both cells are at most
their bounds PROVIDED the limiting cells were not yet strictly below the bounds (`d ≤ ls_x`, `d1 ≤ ls_y`) -/
theorem bdLimitStep_keeps_eq (up : Rat → ExtRat) (csd : Nat) (dbm : Mat) (st : Mat × Bool) (c : LimCon)
    (hsel : bdLimSel csd c = true) (hij : (bdLimCell csd c).1 ≠ (bdLimCell csd c).2)
    (hx : dbm (bdLimCell csd c).1 (bdLimCell csd c).2 ≤ bdLimBound up csd c)
    (hy : dbm (bdLimCell csd c).2 (bdLimCell csd c).1 ≤ bdLimBound1 up csd c)
    (hlx : bdLimBound up csd c ≤ st.1 (bdLimCell csd c).1 (bdLimCell csd c).2)
    (hly : bdLimBound1 up csd c ≤ st.1 (bdLimCell csd c).2 (bdLimCell csd c).1)
    (heq : c.isEq = true) :
    (bdLimitStep up csd dbm st c).1 (bdLimCell csd c).1 (bdLimCell csd c).2 ≤ bdLimBound up csd c ∧
    (bdLimitStep up csd dbm st c).1 (bdLimCell csd c).2 (bdLimCell csd c).1 ≤ bdLimBound1 up csd c := by
  rw [bdLimitStep_eq]
  simp only [hsel, hx, hy, heq, if_true, Bool.not_true, Bool.false_eq_true, if_false]
  split
  · simp only [Mat.set_apply]
    have : ¬ ((bdLimCell csd c).1 = (bdLimCell csd c).2 ∧ (bdLimCell csd c).2 = (bdLimCell csd c).1) :=
      fun h => hij h.1
    simp [this]
    exact ⟨le_rfl' _, le_rfl' _⟩
  · rename_i hc
    simp only [Bool.or_eq_true, Bool.and_eq_true, decide_eq_true_eq, not_or, not_and] at hc
    have h1 := hc.1 hlx
    have h2 : ¬ ExtRat.ltB (bdLimBound up csd c) (st.1 (bdLimCell csd c).1 (bdLimCell csd c).2) = true :=
      fun h => hc.2 h hly
    exact ⟨lim_le_of_not_ltB h2, lim_le_of_not_ltB h1⟩

/-! ### the fold -/

theorem bdLimitFold_dom (up : Rat → ExtRat) (csd : Nat) (dbm : Mat) (cs : List LimCon) (st : Mat × Bool)
    (h : ∀ a b, dbm a b ≤ st.1 a b) : ∀ a b, dbm a b ≤ (cs.foldl (bdLimitStep up csd dbm) st).1 a b := by
  induction cs generalizing st with
  | nil => exact h
  | cons c cs ih => exact ih _ (bdLimitStep_dom up csd dbm st c h)

theorem bdLimitFold_le (up : Rat → ExtRat) (csd : Nat) (dbm : Mat) (cs : List LimCon) (st : Mat × Bool) :
    ∀ a b, (cs.foldl (bdLimitStep up csd dbm) st).1 a b ≤ st.1 a b := by
  induction cs generalizing st with
  | nil => intro a b; exact le_rfl' _
  | cons c cs ih => intro a b; exact le_trans' (ih _ a b) (bdLimitStep_le up csd dbm st c a b)

/-- (L4, matrix level) every supplied inequality that `get_limiting_shape` looks at and that the closed receiver
satisfies ends up in the limiting matrix: its cell is at most `d` -/
theorem bdLimitFold_keeps_ineq (up : Rat → ExtRat) (csd : Nat) (dbm : Mat) (cs : List LimCon) (st : Mat × Bool)
    (c : LimCon) (hc : c ∈ cs) (hsel : bdLimSel csd c = true) (hineq : c.isEq = false)
    (hx : dbm (bdLimCell csd c).1 (bdLimCell csd c).2 ≤ bdLimBound up csd c) :
    (cs.foldl (bdLimitStep up csd dbm) st).1 (bdLimCell csd c).1 (bdLimCell csd c).2 ≤ bdLimBound up csd c := by
  induction cs generalizing st with
  | nil => cases hc
  | cons c' cs ih =>
    rcases List.mem_cons.mp hc with h | h
    · subst h
      exact le_trans' (bdLimitFold_le up csd dbm cs _ _ _) (bdLimitStep_keeps_ineq up csd dbm st c hsel hineq hx)
    · exact ih _ h

end PPLV.Widen
