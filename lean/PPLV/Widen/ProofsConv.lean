import PPLV.Widen.Model
import Mathlib.Data.Set.Basic
import Mathlib.Order.WellFounded
import Mathlib.Data.Nat.Find

/-!
# C08 — the abstract convergence theorem, the token protocol, limited / bounded extrapolation
-/
namespace PPLV.Widen

/-- A sequence that, at every step, either keeps its value or moves strictly down in a
    well-founded relation is eventually constant. -/
theorem eventually_const_of_wf {C : Type} (r : C → C → Prop) (wf : WellFounded r)
    (c : Nat → C) (step : ∀ i, c (i + 1) = c i ∨ r (c (i + 1)) (c i)) :
    ∃ N, ∀ i ≥ N, c (i + 1) = c i := by
  -- induction on the starting value, generalising the sequence
  suffices H : ∀ a : C, ∀ c : Nat → C, c 0 = a → (∀ i, c (i + 1) = c i ∨ r (c (i + 1)) (c i)) →
      ∃ N, ∀ i ≥ N, c (i + 1) = c i from H (c 0) c rfl step
  intro a
  induction a using wf.induction with
  | _ a ih =>
    intro c h0 step
    by_cases hall : ∀ i, c (i + 1) = c i
    · exact ⟨0, fun i _ => hall i⟩
    · -- the first index at which the value changes
      have hex : ∃ i, c (i + 1) ≠ c i := by
        by_contra hne
        exact hall fun i => by_contra fun h => hne ⟨i, h⟩
      classical
      let i0 := Nat.find hex
      have hi0 : c (i0 + 1) ≠ c i0 := Nat.find_spec hex
      have hbefore : ∀ j ≤ i0, c j = a := by
        intro j hj
        induction j with
        | zero => exact h0
        | succ j ihj =>
          have hlt : j < i0 := hj
          have : ¬ c (j + 1) ≠ c j := Nat.find_min hex hlt
          rw [not_not.mp this]
          exact ihj (Nat.le_of_lt hlt)
      have hdown : r (c (i0 + 1)) a := by
        rcases step i0 with h | h
        · exact absurd h hi0
        · rw [hbefore i0 (le_refl _)] at h; exact h
      obtain ⟨N, hN⟩ := ih (c (i0 + 1)) hdown (fun i => c (i0 + 1 + i)) rfl
        (fun i => by
          have := step (i0 + 1 + i)
          simpa [Nat.add_assoc] using this)
      refine ⟨i0 + 1 + N, fun i hi => ?_⟩
      have := hN (i - (i0 + 1)) (by omega)
      have e1 : i0 + 1 + (i - (i0 + 1) + 1) = i + 1 := by omega
      have e2 : i0 + 1 + (i - (i0 + 1)) = i := by omega
      rw [e1, e2] at this
      exact this

section
variable {D Pt C : Type}

/-- **Convergence against any adversary.**  `w x y` is PPL's `x.widening_assign(y)` (`x` the larger
    argument).  Whatever larger argument `z i xᵢ ⊇ xᵢ` the environment supplies at step `i`, the
    sequence `xᵢ₊₁ = w (z i xᵢ) xᵢ` becomes stationary, provided every non-stationary application
    strictly decreases a certificate that is well defined on values. -/
theorem converges_adversary (γ : D → Set Pt) (w : D → D → D) (cert : D → C)
    (r : C → C → Prop) (wf : WellFounded r)
    (hval : ∀ a b, γ a = γ b → cert a = cert b)
    (dec : ∀ x y, γ y ⊆ γ x → γ (w x y) ≠ γ y → r (cert (w x y)) (cert y))
    (x0 : D) (z : Nat → D → D) (hz : ∀ i x, γ x ⊆ γ (z i x)) :
    ∃ N, ∀ i ≥ N, γ (advSeq w x0 z (i + 1)) = γ (advSeq w x0 z i) := by
  have step : ∀ i, cert (advSeq w x0 z (i + 1)) = cert (advSeq w x0 z i) ∨
      r (cert (advSeq w x0 z (i + 1))) (cert (advSeq w x0 z i)) := by
    intro i
    by_cases h : γ (advSeq w x0 z (i + 1)) = γ (advSeq w x0 z i)
    · exact Or.inl (hval _ _ h)
    · exact Or.inr (dec _ _ (hz i _) h)
  obtain ⟨N, hN⟩ := eventually_const_of_wf r wf (fun i => cert (advSeq w x0 z i)) step
  refine ⟨N, fun i hi => ?_⟩
  by_contra h
  have hr := dec _ _ (hz i (advSeq w x0 z i)) h
  have he : cert (advSeq w x0 z (i + 1)) = cert (advSeq w x0 z i) := hN i hi
  simp only [advSeq] at he
  rw [he] at hr
  exact (wf.irrefl.irrefl _) hr

theorem iterW_eq_advSeq (join w : D → D → D) (chain : Nat → D) (i : Nat) :
    iterW join w chain i = advSeq w (chain 0) (fun i x => join x (chain (i + 1))) i := by
  induction i with
  | zero => rfl
  | succ i ih => simp only [iterW, advSeq, ih]

/-- the widened sequence covers the chain (so its limit is a post-fixpoint above every element) -/
theorem iterW_covers (γ : D → Set Pt) (join w : D → D → D)
    (hjoin : ∀ a b, γ a ⊆ γ (join a b) ∧ γ b ⊆ γ (join a b))
    (sup : ∀ x y, γ y ⊆ γ x → γ x ⊆ γ (w x y))
    (chain : Nat → D) (i : Nat) : γ (chain i) ⊆ γ (iterW join w chain i) := by
  cases i with
  | zero => exact subset_rfl
  | succ i => exact (hjoin _ _).2.trans (sup _ _ (hjoin _ _).1)

theorem iterW_mono (γ : D → Set Pt) (join w : D → D → D)
    (hjoin : ∀ a b, γ a ⊆ γ (join a b) ∧ γ b ⊆ γ (join a b))
    (sup : ∀ x y, γ y ⊆ γ x → γ x ⊆ γ (w x y))
    (chain : Nat → D) (i : Nat) : γ (iterW join w chain i) ⊆ γ (iterW join w chain (i + 1)) :=
  (hjoin _ _).1.trans (sup _ _ (hjoin _ _).1)

/-! ### tokens -/

open Classical in
/-- **Token protocol** (up to `γ`): with a token available the object is left unchanged; the token is
    consumed exactly when the plain widening would lose precision (`w x y ⊄ x`); without tokens the
    result is the plain widening. -/
theorem widenTok_spec (γ : D → Set Pt) (contains : D → D → Bool) (w : D → D → D)
    (hc : ∀ a b, contains a b = true ↔ γ b ⊆ γ a)
    (x y : D) (tp : Nat) :
    widenTok contains w x y tp =
      (if 0 < tp then (x, if γ (w x y) ⊆ γ x then tp else tp - 1) else (w x y, tp)) := by
  unfold widenTok
  by_cases ht : 0 < tp
  · by_cases hs : γ (w x y) ⊆ γ x
    · have : contains x (w x y) = true := (hc _ _).mpr hs
      simp [ht, hs, this]
    · have : contains x (w x y) = false := by
        cases hcx : contains x (w x y)
        · rfl
        · exact absurd ((hc _ _).mp hcx) hs
      simp [ht, hs, this]
  · simp [ht]

open Classical in
/-- the same, in the form of Appendix B: the *set* of the result and the token count -/
theorem widenTok_sets (γ : D → Set Pt) (contains : D → D → Bool) (w : D → D → D)
    (hc : ∀ a b, contains a b = true ↔ γ b ⊆ γ a)
    (sup : ∀ x y, γ y ⊆ γ x → γ x ⊆ γ (w x y))
    (x y : D) (hyx : γ y ⊆ γ x) (tp : Nat) :
    let r := widenTok contains w x y tp
    (0 < tp ∧ γ (w x y) ≠ γ x → r = (x, tp - 1)) ∧
    (¬ (0 < tp ∧ γ (w x y) ≠ γ x) → γ r.1 = γ (w x y) ∧ r.2 = tp) := by
  intro r
  have hr : r = _ := widenTok_spec γ contains w hc x y tp
  constructor
  · rintro ⟨ht, hne⟩
    have : ¬ γ (w x y) ⊆ γ x := fun hs => hne (Set.Subset.antisymm hs (sup x y hyx))
    rw [hr]; simp [ht, this]
  · intro hn
    by_cases ht : 0 < tp
    · have heq : γ (w x y) = γ x := by
        by_contra hne; exact hn ⟨ht, hne⟩
      have : γ (w x y) ⊆ γ x := heq.subset
      rw [hr]; simp [ht, this, heq]
    · rw [hr]; simp [ht]

/-! ### limited and bounded extrapolation -/

/-- **Limited extrapolation lies between the larger argument and the plain widening, and keeps every
    supplied constraint that the larger argument satisfies** — for every `refine` that only removes
    points violating one of the constraints it is given (and enforces the constraints listed in
    `enforced`, e.g. those the domain can express). -/
theorem limited_spec (γ : D → Set Pt) {K : Type} (csat : K → Pt → Prop)
    (sat : D → K → Bool) (refine : D → List K → D) (w : D → D → D)
    (sat_iff : ∀ a c, sat a c = true ↔ ∀ p ∈ γ a, csat c p)
    (refine_sub : ∀ a l, γ (refine a l) ⊆ γ a)
    (refine_keeps : ∀ a l p, p ∈ γ a → (∀ c ∈ l, csat c p) → p ∈ γ (refine a l))
    (sup : ∀ x y, γ y ⊆ γ x → γ x ⊆ γ (w x y))
    (x y : D) (hyx : γ y ⊆ γ x) (cs : List K) :
    γ x ⊆ γ (limited sat refine w x y cs) ∧
    γ (limited sat refine w x y cs) ⊆ γ (w x y) ∧
    (∀ c ∈ cs, (∀ p ∈ γ x, csat c p) →
      (∀ a l, c ∈ l → ∀ p ∈ γ (refine a l), csat c p) →
      ∀ p ∈ γ (limited sat refine w x y cs), csat c p) := by
  refine ⟨?_, refine_sub _ _, ?_⟩
  · intro p hp
    refine refine_keeps _ _ p (sup x y hyx hp) ?_
    intro c hc
    have := (List.mem_filter.mp hc).2
    exact (sat_iff x c).mp this p hp
  · intro c hc hsat henf p hp
    exact henf _ _ (List.mem_filter.mpr ⟨hc, (sat_iff x c).mpr hsat⟩) p hp

/-- the same for bounded extrapolation: the box constraints are satisfied by `x`, so refining with them
    keeps the result between `x` and the plain widening -/
theorem bounded_spec (γ : D → Set Pt) {K : Type} (csat : K → Pt → Prop)
    (sat : D → K → Bool) (refine : D → List K → D) (w : D → D → D) (boxCons : D → D → List K)
    (sat_iff : ∀ a c, sat a c = true ↔ ∀ p ∈ γ a, csat c p)
    (refine_sub : ∀ a l, γ (refine a l) ⊆ γ a)
    (refine_keeps : ∀ a l p, p ∈ γ a → (∀ c ∈ l, csat c p) → p ∈ γ (refine a l))
    (sup : ∀ x y, γ y ⊆ γ x → γ x ⊆ γ (w x y))
    (box_sound : ∀ x y, γ y ⊆ γ x → ∀ c ∈ boxCons x y, ∀ p ∈ γ x, csat c p)
    (x y : D) (hyx : γ y ⊆ γ x) (cs : List K) :
    γ x ⊆ γ (bounded sat refine w boxCons x y cs) ∧
    γ (bounded sat refine w boxCons x y cs) ⊆ γ (w x y) ∧
    (∀ c ∈ cs, (∀ p ∈ γ x, csat c p) →
      (∀ a l, c ∈ l → ∀ p ∈ γ (refine a l), csat c p) →
      ∀ p ∈ γ (bounded sat refine w boxCons x y cs), csat c p) := by
  obtain ⟨h1, h2, h3⟩ := limited_spec γ csat sat refine w sat_iff refine_sub refine_keeps sup x y hyx cs
  refine ⟨?_, (refine_sub _ _).trans h2, ?_⟩
  · intro p hp
    exact refine_keeps _ _ p (h1 hp) (fun c hc => box_sound x y hyx c hc p hp)
  · intro c hc hsat henf p hp
    exact h3 c hc hsat henf p (refine_sub _ _ hp)

end

end PPLV.Widen

/-! ### the hypothesis "the certificate is a function of the value" cannot be dropped -/
namespace PPLV.Widen

/-- elements `(value, padding)`; padding `0` is "top" -/
def cexγ (a : Nat × Nat) : Set Nat := {k | a.2 = 0 ∨ k < a.1}
def cexCert (a : Nat × Nat) : Nat := a.2
/-- a sound "widening" whose every non-stationary application decreases the padding, but which
    re-represents a stationary value with a *larger* padding -/
def cexW (x y : Nat × Nat) : Nat × Nat :=
  if y.2 = 0 then y else if x.2 = 0 then (0, 0) else if x.1 ≤ y.1 then (y.1, y.2 + 5) else (x.1, y.2 - 1)
/-- the adversary alternates: repeat the current value, then enlarge it by one -/
def cexZ (i : Nat) (x : Nat × Nat) : Nat × Nat :=
  if x.2 = 0 then x else if i % 2 = 0 then x else (x.1 + 1, 1)

theorem cex_mem (a : Nat × Nat) (k : Nat) : k ∈ cexγ a ↔ (a.2 = 0 ∨ k < a.1) := Iff.rfl

theorem cex_le_of_subset {x y : Nat × Nat} (h : cexγ y ⊆ cexγ x) (hx : x.2 ≠ 0) (hy : y.2 ≠ 0) : y.1 ≤ x.1 := by
  by_contra hlt
  have : x.1 ∈ cexγ y := (cex_mem y x.1).mpr (Or.inr (by omega))
  have := (cex_mem x x.1).mp (h this)
  omega

theorem cex_sup (x y : Nat × Nat) (h : cexγ y ⊆ cexγ x) : cexγ x ⊆ cexγ (cexW x y) := by
  intro k hk
  rw [cex_mem] at hk ⊢
  unfold cexW
  split_ifs with h1 h2 h3
  · exact Or.inl h1
  · exact Or.inl rfl
  · have := cex_le_of_subset h h2 h1
    rcases hk with hk | hk
    · exact absurd hk h2
    · exact Or.inr (by simp only; omega)
  · rcases hk with hk | hk
    · exact absurd hk h2
    · exact Or.inr hk

theorem cex_dec (x y : Nat × Nat) (_h : cexγ y ⊆ cexγ x) (hne : cexγ (cexW x y) ≠ cexγ y) :
    cexCert (cexW x y) < cexCert y := by
  unfold cexW at hne ⊢
  split_ifs at hne ⊢ with h1 h2 h3
  · exact absurd rfl hne
  · simp only [cexCert]; omega
  · exfalso; apply hne
    ext k
    simp only [cex_mem]
    constructor
    · rintro (h | h)
      · omega
      · exact Or.inr h
    · rintro (h | h)
      · exact absurd h h1
      · exact Or.inr h
  · simp only [cexCert]; omega

theorem cex_hz (i : Nat) (x : Nat × Nat) : cexγ x ⊆ cexγ (cexZ i x) := by
  intro k hk
  rw [cex_mem] at hk ⊢
  unfold cexZ
  split_ifs with h1 h2
  · exact Or.inl h1
  · exact hk
  · rcases hk with hk | hk
    · exact absurd hk h1
    · exact Or.inr (by simp only; omega)

theorem cex_step_even (i k p : Nat) (hp : p ≠ 0) (hi : i % 2 = 0) :
    cexW (cexZ i (k, p)) (k, p) = (k, p + 5) := by
  have hz : cexZ i (k, p) = (k, p) := by simp [cexZ, hp, hi]
  rw [hz]
  simp [cexW, hp]

theorem cex_step_odd (i k p : Nat) (hp : p ≠ 0) (hi : i % 2 = 1) :
    cexW (cexZ i (k, p)) (k, p) = (k + 1, p - 1) := by
  have hz : cexZ i (k, p) = (k + 1, 1) := by simp [cexZ, hp, hi]
  rw [hz]
  simp [cexW, hp]

theorem cex_seq (k : Nat) :
    advSeq cexW (0, 1) cexZ (2 * k) = (k, 1 + 4 * k) ∧
    advSeq cexW (0, 1) cexZ (2 * k + 1) = (k, 6 + 4 * k) := by
  induction k with
  | zero =>
    refine ⟨rfl, ?_⟩
    show cexW (cexZ 0 (0, 1)) (0, 1) = _
    rw [cex_step_even 0 0 1 (by omega) (by omega)]
  | succ k ih =>
    obtain ⟨_, ih2⟩ := ih
    have e1 : advSeq cexW (0, 1) cexZ (2 * (k + 1)) = (k + 1, 1 + 4 * (k + 1)) := by
      have : 2 * (k + 1) = (2 * k + 1) + 1 := by omega
      rw [this, advSeq, ih2, cex_step_odd _ _ _ (by omega) (by omega)]
      congr 1
      omega
    refine ⟨e1, ?_⟩
    rw [advSeq, e1, cex_step_even _ _ _ (by omega) (by omega)]
    congr 1
    omega

/-- **Without `hval` the convergence statement is false**: all other hypotheses hold for `cexW`, yet the
    widened sequence changes its value at every other step for ever. -/
theorem converges_needs_hval :
    (∀ x y, cexγ y ⊆ cexγ x → cexγ x ⊆ cexγ (cexW x y)) ∧
    (∀ x y, cexγ y ⊆ cexγ x → cexγ (cexW x y) ≠ cexγ y → cexCert (cexW x y) < cexCert y) ∧
    (∀ i x, cexγ x ⊆ cexγ (cexZ i x)) ∧
    ¬ ∃ N, ∀ i ≥ N, cexγ (advSeq cexW (0, 1) cexZ (i + 1)) = cexγ (advSeq cexW (0, 1) cexZ i) := by
  refine ⟨cex_sup, cex_dec, cex_hz, ?_⟩
  rintro ⟨N, hN⟩
  have h := hN (2 * N + 1) (by omega)
  have e1 : 2 * N + 1 + 1 = 2 * (N + 1) := by omega
  rw [e1, (cex_seq (N + 1)).1, (cex_seq N).2] at h
  have : N ∈ cexγ (N + 1, 1 + 4 * (N + 1)) := (cex_mem _ _).mpr (Or.inr (by simp))
  rw [h] at this
  have := (cex_mem _ _).mp this
  simp at this

end PPLV.Widen
