import Mathlib.LinearAlgebra.Dual.Lemmas
import Mathlib.Tactic.Linarith

/-!
# C08 stage 2b — `hymin` from the engine guarantees: the abstract counting argument (definitions)

Pure linear algebra over `ℚ`: a cone `K = {A i = 0, 0 ≤ C j}` given by `e` independent equalities and `f`
irredundant inequalities, seen through the open half space `0 < x0`; a second description `D` (rows with an
equality flag) of the same set inside the half space.  Then `e + f ≤ m`.
-/
namespace PPLV.Widen.Impl.Abs

variable {V : Type*} [AddCommGroup V] [Module ℚ V]

/-- a flagged row holds at `v` -/
def Holds (d : Bool × (V →ₗ[ℚ] ℚ)) (v : V) : Prop := if d.1 then d.2 v = 0 else 0 ≤ d.2 v

/-- membership in the cone of the equalities `A` and the inequalities `C` -/
def InK {e f : ℕ} (A : Fin e → V →ₗ[ℚ] ℚ) (C : Fin f → V →ₗ[ℚ] ℚ) (v : V) : Prop :=
  (∀ i, A i v = 0) ∧ ∀ j, 0 ≤ C j v

/-- the functional vanishes on the part of the cone inside the open half space -/
def Vanish (x0 : V →ₗ[ℚ] ℚ) {e f : ℕ} (A : Fin e → V →ₗ[ℚ] ℚ) (C : Fin f → V →ₗ[ℚ] ℚ)
    (d : V →ₗ[ℚ] ℚ) : Prop :=
  ∀ v, 0 < x0 v → InK A C v → d v = 0

/-- the hypotheses of the counting argument -/
structure Setup (x0 : V →ₗ[ℚ] ℚ) {e f m : ℕ} (A : Fin e → V →ₗ[ℚ] ℚ) (C : Fin f → V →ₗ[ℚ] ℚ)
    (D : Fin m → Bool × (V →ₗ[ℚ] ℚ)) : Prop where
  /-- a vector of the half space at which every inequality is strict -/
  pstar : ∃ p, 0 < x0 p ∧ (∀ i, A i p = 0) ∧ ∀ j, 0 < C j p
  /-- every inequality has a vector violating only it -/
  irred : ∀ j, ∃ x, (∀ i, A i x = 0) ∧ (∀ k, k ≠ j → 0 ≤ C k x) ∧ C j x < 0
  /-- every facet meets the open half space -/
  facetPt : ∀ j, ∃ g, 0 < x0 g ∧ InK A C g ∧ C j g = 0
  /-- `D` describes the same set inside the half space -/
  same : ∀ v, 0 < x0 v → (InK A C v ↔ ∀ i, Holds (D i) v)

end PPLV.Widen.Impl.Abs
