import PPLV.Widen.ImplShapeProofsLimBox2
/-!
# C08 stage 2 — `Box::limited_CC76_extrapolation_assign` (`Box_templates.hh:4270`): between the receiver and the
plain widening; the selected constraints are kept; what is not selected
-/
namespace PPLV.Widen
open PPLV.WR

theorem Itv.univ_mem (q : Rat) : Itv.univ.mem q := ⟨trivial, trivial⟩

/-! ## the plain widening, as far as needed here -/

theorem lim_boxCC76Stops_props (stops : List Rat) (x y : BoxS) :
    (boxCC76Stops stops x y).markedEmpty = x.markedEmpty ∧
    (boxCC76Stops stops x y).seq.length ≤ x.seq.length ∧
    ∀ p, BoxS.γ x p → BoxS.γ (boxCC76Stops stops x y) p := by
  unfold boxCC76Stops
  split
  · exact ⟨rfl, le_refl _, fun _ h => h⟩
  · refine ⟨rfl, ?_, fun p hp => ⟨hp.1, fun k hk => ?_⟩⟩
    · show (List.zipWith (Itv.cc76 stops) x.seq y.seq).length ≤ _
      rw [List.length_zipWith]; omega
    · have hk' : k < (List.zipWith (Itv.cc76 stops) x.seq y.seq).length := hk
      rw [List.length_zipWith] at hk'
      have hkx : k < x.seq.length := by omega
      show ((List.zipWith (Itv.cc76 stops) x.seq y.seq)[k]).mem (p k)
      rw [List.getElem_zipWith]
      exact cc76_sup stops _ _ _ (hp.2 k hkx)

theorem lim_boxCC76_props (x y : BoxS) (tp : Option Nat) :
    (boxCC76 x y tp).1.markedEmpty = x.markedEmpty ∧
    (boxCC76 x y tp).1.seq.length ≤ x.seq.length ∧
    ∀ p, BoxS.γ x p → BoxS.γ (boxCC76 x y tp).1 p := by
  have hw := lim_boxCC76Stops_props defaultStops x y
  unfold boxCC76
  cases tp with
  | none => exact hw
  | some t =>
    simp only
    split
    · exact ⟨rfl, le_refl _, fun _ h => h⟩
    · exact hw

/-! ## `intersection_assign` -/

theorem boxIntersectionAssign_γ (P L : BoxS) (hP : P.markedEmpty = false) (hL : L.markedEmpty = false)
    (hlen : P.seq.length ≤ L.seq.length) (p : Nat → Rat) :
    BoxS.γ (boxIntersectionAssign P L) p ↔
      BoxS.γ P p ∧ ∀ k (_ : k < P.seq.length) (h2 : k < L.seq.length), (L.seq[k]).mem (p k) := by
  unfold boxIntersectionAssign
  simp only [hP, hL, Bool.false_eq_true, if_false]
  by_cases h0 : P.seq.length = 0
  · simp only [h0, if_true]
    exact ⟨fun h => ⟨h, fun k hk _ => by omega⟩, fun h => h.1⟩
  · simp only [h0, if_false]
    unfold BoxS.γ
    simp only [hP, true_and]
    constructor
    · intro h
      refine ⟨fun k hk => ?_, fun k hk h2 => ?_⟩
      · have hk' : k < (List.zipWith Itv.intersect P.seq L.seq).length := by
          rw [List.length_zipWith]; omega
        have := h k hk'
        rw [List.getElem_zipWith, Itv.intersect_mem] at this
        exact this.1
      · have hk' : k < (List.zipWith Itv.intersect P.seq L.seq).length := by
          rw [List.length_zipWith]; omega
        have := h k hk'
        rw [List.getElem_zipWith, Itv.intersect_mem] at this
        exact this.2
    · intro h k hk
      have hk' : k < (List.zipWith Itv.intersect P.seq L.seq).length := hk
      rw [List.length_zipWith] at hk'
      have hk1 : k < P.seq.length := by omega
      have hk2 : k < L.seq.length := by omega
      show ((List.zipWith Itv.intersect P.seq L.seq)[k]).mem (p k)
      rw [List.getElem_zipWith, Itv.intersect_mem]
      exact ⟨h.1 k hk1, h.2 k hk1 hk2⟩

/-! ## the limiting box from the universe -/

theorem boxLimitingBox_univ_length (sd : Nat) (cs : List LimCon) (x : BoxM) :
    (boxGetLimitingBox sd cs x (List.replicate x.length Itv.univ)).length = x.length := by
  rw [boxGetLimitingBox_length, List.length_replicate]

/-- the limiting box contains the receiver, component by component -/
theorem boxLimitingBox_univ_dom (sd : Nat) (cs : List LimCon) (x : BoxM) (k : Nat) (h1 : k < x.length)
    (h2 : k < (boxGetLimitingBox sd cs x (List.replicate x.length Itv.univ)).length) (q : Rat)
    (hq : (x[k]).mem q) : ((boxGetLimitingBox sd cs x (List.replicate x.length Itv.univ))[k]).mem q := by
  refine boxGetLimitingBox_dom sd cs x _ (List.length_replicate) (fun k' _ h2' q' _ => ?_) k h1 h2 q hq
  rw [List.getElem_replicate]; exact Itv.univ_mem _

/-! ## `limited_CC76_extrapolation_assign` -/

theorem boxLimitedCC76_early (sd : Nat) (cs : List LimCon) (x y : BoxS) (tp : Option Nat)
    (h : x.seq.length = 0 ∨ x.markedEmpty = true ∨ y.markedEmpty = true) :
    (boxLimitedCC76 sd cs x y tp).1 = x := by
  unfold boxLimitedCC76
  simp only
  rcases h with h | h | h
  · rw [if_pos h]
  · split; rfl; rfl
  · split; rfl; split; rfl; rfl

theorem boxLimitedCC76_eq (sd : Nat) (cs : List LimCon) (x y : BoxS) (tp : Option Nat)
    (hl : x.seq.length ≠ 0) (hx : x.markedEmpty = false) (hy : y.markedEmpty = false) :
    (boxLimitedCC76 sd cs x y tp).1 =
      boxIntersectionAssign (boxCC76 x y tp).1
        { seq := boxGetLimitingBox sd cs x.seq (List.replicate x.seq.length Itv.univ) } := by
  unfold boxLimitedCC76
  simp only [hl, hx, hy, if_false, Bool.false_eq_true]

/-- the points of the result: those of the plain widening that lie in the limiting box (on the components that
the plain widening has) -/
theorem boxLimitedCC76_γ (sd : Nat) (cs : List LimCon) (x y : BoxS) (tp : Option Nat)
    (hl : x.seq.length ≠ 0) (hx : x.markedEmpty = false) (hy : y.markedEmpty = false) (p : Nat → Rat) :
    BoxS.γ (boxLimitedCC76 sd cs x y tp).1 p ↔
      BoxS.γ (boxCC76 x y tp).1 p ∧
      ∀ k (_ : k < (boxCC76 x y tp).1.seq.length)
        (h2 : k < (boxGetLimitingBox sd cs x.seq (List.replicate x.seq.length Itv.univ)).length),
        ((boxGetLimitingBox sd cs x.seq (List.replicate x.seq.length Itv.univ))[k]).mem (p k) := by
  obtain ⟨h1, h2, _⟩ := lim_boxCC76_props x y tp
  rw [boxLimitedCC76_eq sd cs x y tp hl hx hy]
  exact boxIntersectionAssign_γ _ _ (h1.trans hx) rfl
    (by show _ ≤ (boxGetLimitingBox sd cs x.seq _).length; rw [boxLimitingBox_univ_length]; exact h2) p

/-- **`limited_CC76_extrapolation_assign`** (`Box_templates.hh:4270`): the result contains the receiver and is
contained in the plain `CC76_widening_assign(y, tp)` -/
theorem box_limited_cc76_between (sd : Nat) (cs : List LimCon) (x y : BoxS) (tp : Option Nat)
    (hl : x.seq.length ≠ 0) (hx : x.markedEmpty = false) (hy : y.markedEmpty = false) (p : Nat → Rat) :
    (BoxS.γ x p → BoxS.γ (boxLimitedCC76 sd cs x y tp).1 p) ∧
    (BoxS.γ (boxLimitedCC76 sd cs x y tp).1 p → BoxS.γ (boxCC76 x y tp).1 p) := by
  obtain ⟨_, h2, h3⟩ := lim_boxCC76_props x y tp
  rw [boxLimitedCC76_γ sd cs x y tp hl hx hy p]
  refine ⟨fun hp => ⟨h3 p hp, fun k hk hk2 => ?_⟩, fun h => h.1⟩
  have hkx : k < x.seq.length := by omega
  exact boxLimitingBox_univ_dom sd cs x.seq k hkx hk2 (p k) (hp.2 k hkx)

/-- every supplied constraint that `get_limiting_box` SELECTS (an interval constraint on a variable `ov` of the
result whose `interval_relation` with the receiver's component is exactly `is_included()`) holds on the result -/
theorem box_limited_cc76_keeps (sd : Nat) (cs : List LimCon) (x y : BoxS) (tp : Option Nat)
    (hl : x.seq.length ≠ 0) (hx : x.markedEmpty = false) (hy : y.markedEmpty = false)
    (c : LimCon) (hc : c ∈ cs) (ov : Nat) (hsel : boxLimSel sd x.seq c ov)
    (hov : ov < (boxCC76 x y tp).1.seq.length) (p : Nat → Rat)
    (hp : BoxS.γ (boxLimitedCC76 sd cs x y tp).1 p) : conHolds1 c c.inhomo (c.coeff ov) (p ov) := by
  obtain ⟨_, h2, _⟩ := lim_boxCC76_props x y tp
  rw [boxLimitedCC76_γ sd cs x y tp hl hx hy p] at hp
  have hlen := boxLimitingBox_univ_length sd cs x.seq
  have hov2 : ov < (boxGetLimitingBox sd cs x.seq (List.replicate x.seq.length Itv.univ)).length := by omega
  exact boxGetLimitingBox_keeps sd cs x.seq _ c hc ov hsel hov2 (p ov) (hp.2 ov hov hov2)

/-! ## what is not selected -/

/-- an equality never answers exactly `is_included()` (`Box_templates.hh:4258`: the comparison is `==`, and a
singleton answers `is_included() && saturates()`) -/
theorem intervalRelationIsIncluded_eq_false (I : Itv) (c : LimCon) (numer denom : Int) (h : c.isEq = true) :
    intervalRelationIsIncluded I c numer denom = false := by
  unfold intervalRelationIsIncluded
  split
  · rfl
  · simp

/-- **a saturated singleton is not selected**: `I = [3, 3]` and `A ≥ 3`: every point of `I` satisfies the
constraint, `interval_relation` answers `is_included() && saturates()`, which is not `== is_included()`. -/
theorem box_limiting_drops_saturated_singleton_fails :
    ¬ ∀ (I : Itv) (c : LimCon) (numer denom : Int), denom ≠ 0 → c.isEq = false →
        ¬ (I.lo.isNone = true ∧ I.hi.isNone = true) → (∀ q, I.mem q → conHolds1 c numer denom q) →
        intervalRelationIsIncluded I c numer denom = true := by
  intro h
  have := h ⟨some 3, false, some 3, false⟩ ⟨false, [1], -3, false⟩ (-3) 1 (by decide) rfl (by decide)
    (fun q hq => by
      have h1 : (3 : Rat) ≤ q := hq.1
      simp only [conHolds1, Bool.false_eq_true, if_false]
      push_cast
      linarith)
  revert this
  decide +kernel

end PPLV.Widen
