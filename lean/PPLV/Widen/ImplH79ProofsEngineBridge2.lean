import PPLV.Widen.ImplH79ProofsEngineBridge
import PPLV.Widen.ImplH79ProofsEngineBridgeIndep

/-!
# C08 stage 2b — bridge, part 2: `irred`, `proper`, `eqIndep`, and the assembly of `EngineDD` from the facts
about `PPLV.Conv.minimize` (`engineDD_of_minimize_core`: the facts about the shape of the minimised system
— row lengths, equalities first, equality detection — enter as hypotheses that
`ImplH79ProofsEngineBridge3.lean` discharges).
-/
namespace PPLV.Widen.Impl
open PPLV.Conv

/-- "equalities first": a list whose rows satisfy `p` exactly at the indices `< k` -/
theorem filter_eq_take_of_iff {α : Type} [Inhabited α] (p : α → Bool) :
    ∀ (l : List α) (k : Nat), (∀ i, i < l.length → (p (l.getD i default) = true ↔ i < k)) →
      l.filter p = l.take k
  | [], k, _ => by simp
  | a :: l, 0, h => by
    have h0 : p a = false := by
      have := h 0 (by simp)
      simpa using this
    have ih := filter_eq_take_of_iff p l 0 (fun i hi => by
      have := h (i + 1) (by simpa using hi)
      simpa using this)
    simp [List.filter_cons, h0, ih]
  | a :: l, k + 1, h => by
    have h0 : p a = true := by
      have := h 0 (by simp)
      simpa using this
    have ih := filter_eq_take_of_iff p l k (fun i hi => by
      have := h (i + 1) (by simpa using hi)
      simpa using this)
    simp [List.filter_cons, h0, ih]

section core
variable (n : Nat) (source : List LRow) (sat0 : List BRow)

theorem engine_irred
    (hsz : n + 1 < 2 ^ 64) (hsrc : source.length < 2 ^ 64)
    (hne : (minimize true false (n + 1) source sat0).empty = false)
    (hle : ∀ i, i < (minimize true false (n + 1) source sat0).source.length →
      (((minimize true false (n + 1) source sat0).source.getD i default).le = true ↔
        i < (minimize true false (n + 1) source sat0).rank)) :
    let y := ofEngine (minimize true false (n + 1) source sat0)
    ∀ i, i < y.conSys.length → (y.conSys.getD i default).eq = false →
      ∃ v : Vec, v.length = n + 1 ∧
        (∀ k, k < y.conSys.length → k ≠ i → (y.conSys.getD k default).holdsZ v) ∧
        ¬ (y.conSys.getD i default).holdsZ v := by
  intro y i hi heq
  have hcl : y.conSys.length = (minimize true false (n + 1) source sat0).source.length := by
    show ((minimize true false (n + 1) source sat0).source.map toC).length = _
    rw [List.length_map]
  have hget : ∀ k, y.conSys.getD k default = toC ((minimize true false (n + 1) source sat0).source.getD k default) :=
    fun k => getD_map_toC _ k
  rw [hcl] at hi
  rw [hget i] at heq
  have hrk : (minimize true false (n + 1) source sat0).rank ≤ i := by
    by_contra hc
    have := (hle i hi).mpr (by omega)
    have heq' : ((minimize true false (n + 1) source sat0).source.getD i default).le = false := heq
    rw [this] at heq'
    exact Bool.noConfusion heq'
  obtain ⟨_, hirr, _⟩ := C01.minimize_minimal_form false (n + 1) source sat0 hsz hsrc hne
  obtain ⟨x, hx, h1, h2⟩ := hirr i hrk hi
  refine ⟨x ++ List.replicate (n + 1 - x.length) 0, by simp; omega, ?_, ?_⟩
  · intro k hk hki
    rw [hcl] at hk
    rw [hget k, holdsZ_toC, holds_pad]
    exact h1 k hk hki
  · rw [hget i, holdsZ_toC, holds_pad]
    exact h2

theorem engine_proper
    (hsz : n + 1 < 2 ^ 64) (hsrc : source.length < 2 ^ 64)
    (hne : (minimize true false (n + 1) source sat0).empty = false)
    (hprop : ∀ c ∈ (minimize true false (n + 1) source sat0).source, c.le = false →
      ∃ g ∈ (minimize true false (n + 1) source sat0).dest, scalarProduct c.v g.v ≠ 0) :
    let y := ofEngine (minimize true false (n + 1) source sat0)
    ∀ c ∈ y.conSys, c.eq = false → ∃ g ∈ y.genSys, 0 < sp c.e g.e := by
  intro y c hc heq
  rw [ofEngine_conSys] at hc
  obtain ⟨s, hs, rfl⟩ := List.mem_map.mp hc
  obtain ⟨d, hd, hne0⟩ := hprop s hs heq
  refine ⟨toG d, by rw [ofEngine_genSys]; exact List.mem_map_of_mem hd, ?_⟩
  have := minimize_sound_min (n + 1) source sat0 hsz hsrc hne d hd s hs
  unfold satisfies at this
  have hsl : s.le = false := heq
  show 0 < sp s.v d.v
  rw [sp_eq_scalarProduct]
  cases hdl : d.le <;> simp [hsl, hdl] at this <;> omega

theorem engine_eqIndep
    (hsz : n + 1 < 2 ^ 64) (hsrc : source.length < 2 ^ 64)
    (hne : (minimize true false (n + 1) source sat0).empty = false)
    (hle : ∀ i, i < (minimize true false (n + 1) source sat0).source.length →
      (((minimize true false (n + 1) source sat0).source.getD i default).le = true ↔
        i < (minimize true false (n + 1) source sat0).rank)) :
    let y := ofEngine (minimize true false (n + 1) source sat0)
    ∀ f : Nat → Rat,
      (∀ k, k < n + 1 → ∑ i ∈ Finset.range (y.conSys.filter (·.eq)).length,
          f i * (((y.conSys.filter (·.eq)).getD i default).e.getD k 0 : Rat) = 0) →
      ∀ i, i < (y.conSys.filter (·.eq)).length → f i = 0 := by
  dsimp only
  have hind := minimize_eq_indep (n + 1) source sat0 hsz hsrc hne
  simp only at hind
  generalize hm : minimize true false (n + 1) source sat0 = m at *
  -- the rank does not exceed the number of rows
  have hrl : m.rank ≤ m.source.length := by
    by_contra hc
    have h1 := hind (fun i => if i = m.source.length then 1 else 0) (by
      intro k _
      apply Finset.sum_eq_zero
      intro i _
      by_cases hi : i = m.source.length
      · subst hi
        have : m.source.getD m.source.length default = default := by
          rw [List.getD_eq_getElem?_getD, List.getElem?_eq_none (Nat.le_refl _)]; rfl
        rw [this]
        show _ * (((([] : List Int).getD k 0 : Int)) : Rat) = 0
        simp
      · simp [hi]) m.source.length (by omega)
    simp at h1
  have hfil : (ofEngine m).conSys.filter (·.eq) = (m.source.take m.rank).map toC := by
    show (m.source.map toC).filter (·.eq) = _
    rw [List.filter_map]
    have hco : ((fun x : CRow => x.eq) ∘ toC) = (fun r : LRow => r.le) := rfl
    rw [hco, filter_eq_take_of_iff (fun r : LRow => r.le) m.source m.rank hle]
  have hlen : ((ofEngine m).conSys.filter (·.eq)).length = m.rank := by
    rw [hfil, List.length_map, List.length_take]; omega
  have hget : ∀ i, i < m.rank → ((ofEngine m).conSys.filter (·.eq)).getD i default = toC (m.source.getD i default) := by
    intro i hi
    rw [hfil, getD_map_toC]
    congr 1
    rw [List.getD_eq_getElem?_getD, List.getD_eq_getElem?_getD, List.getElem?_take, if_pos hi]
  intro f hf i hi
  rw [hlen] at hi
  apply hind f _ i hi
  intro k hk
  have := hf k hk
  rw [hlen] at this
  rw [← this]
  apply Finset.sum_congr rfl
  intro j hj
  rw [hget j (Finset.mem_range.mp hj)]
  rfl

/-- **the assembly**: `EngineDD` of the result of `minimize`, from the theorems of `Props/C01ConvComplete`,
`Props/C01ConvMinimal`, `minimize_eq_indep`, and three facts about the shape of the minimised system. -/
theorem engineDD_of_minimize_core
    (hsz : n + 1 < 2 ^ 64) (hsrc : source.length < 2 ^ 64)
    (hne : (minimize true false (n + 1) source sat0).empty = false)
    (hsl : ∀ c ∈ (minimize true false (n + 1) source sat0).source, c.v.length = n + 1)
    (hdl : ∀ g ∈ (minimize true false (n + 1) source sat0).dest, g.v.length = n + 1)
    (hle : ∀ i, i < (minimize true false (n + 1) source sat0).source.length →
      (((minimize true false (n + 1) source sat0).source.getD i default).le = true ↔
        i < (minimize true false (n + 1) source sat0).rank))
    (hprop : ∀ c ∈ (minimize true false (n + 1) source sat0).source, c.le = false →
      ∃ g ∈ (minimize true false (n + 1) source sat0).dest, scalarProduct c.v g.v ≠ 0) :
    EngineDD n (ofEngine (minimize true false (n + 1) source sat0)) where
  wf := by
    intro c hc
    rw [ofEngine_conSys] at hc
    obtain ⟨s, hs, rfl⟩ := List.mem_map.mp hc
    exact hsl s hs
  gwf := by
    intro g hg
    rw [ofEngine_genSys] at hg
    obtain ⟨d, hd, rfl⟩ := List.mem_map.mp hg
    exact hdl d hd
  satG_ok := ofEngine_satG _
  gens_in := engine_gens_in (n + 1) source sat0 hsz hsrc hne
  complete := engine_complete n source sat0 hsz hsrc hne
  irred := engine_irred n source sat0 hsz hsrc hne hle
  proper := engine_proper n source sat0 hsz hsrc hne hprop
  eqIndep := engine_eqIndep n source sat0 hsz hsrc hne hle
  hasPoint := engine_hasPoint (n + 1) source sat0 hsz hsrc hne

end core

end PPLV.Widen.Impl
