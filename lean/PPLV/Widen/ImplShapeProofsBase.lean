import PPLV.Widen.ImplShape
import PPLV.WR.ClosureProofsBase
/-!
# C08 stage 2 — the loops of the shape widenings, cell by cell

Every loop nest of `ImplShape.lean` (`bdCC76Loops`, `octCC76Loops`, `bdBHMZ05Loops`, `octBHMZ05Loops`, the loops
of `bdIntersectionAssign` / `octIntersectionAssign`) rewrites each cell of its range as a function of the old
value of that cell alone; `loopDown2_cells` / `loopUp2_cells` say so once, for any state with a matrix view.
-/
namespace PPLV.Widen
open PPLV.WR
open PPLV.WR.ExtRat (fin pinf le_rfl' le_trans' le_total' le_pinf)

section generic
variable {α : Type} (π : α → Nat → Nat → ExtRat) (g : Nat → Nat → ExtRat → ExtRat) (f : Nat → Nat → α → α)

theorem loopDown_row_cells
    (hf : ∀ i j s a b, π (f i j s) a b = if a = i ∧ b = j then g i j (π s i j) else π s a b)
    (i cols : Nat) (s : α) (a b : Nat) :
    π (loopDown cols (fun j s => f i j s) s) a b = if a = i ∧ b < cols then g i b (π s a b) else π s a b := by
  induction cols generalizing s with
  | zero => simp [loopDown]
  | succ c ih =>
    simp only [loopDown]
    rw [ih, hf]
    by_cases h1 : a = i ∧ b < c
    · have : ¬ (a = i ∧ b = c) := by omega
      rw [if_pos h1, if_neg this, if_pos (by omega)]
    · rw [if_neg h1]
      by_cases h2 : a = i ∧ b = c
      · rw [if_pos h2, if_pos (by omega)]; obtain ⟨h3, h4⟩ := h2; subst h3; subst h4; rfl
      · rw [if_neg h2, if_neg (by omega)]

theorem loopDown2_cells
    (hf : ∀ i j s a b, π (f i j s) a b = if a = i ∧ b = j then g i j (π s i j) else π s a b)
    (rows cols : Nat) (s : α) (a b : Nat) :
    π (loopDown rows (fun i s => loopDown cols (fun j s => f i j s) s) s) a b
      = if a < rows ∧ b < cols then g a b (π s a b) else π s a b := by
  induction rows generalizing s with
  | zero => simp [loopDown]
  | succ r ih =>
    simp only [loopDown]
    rw [ih, loopDown_row_cells π g f hf]
    by_cases h1 : a < r ∧ b < cols
    · have : ¬ (a = r ∧ b < cols) := by omega
      rw [if_pos h1, if_neg this, if_pos (by omega)]
    · rw [if_neg h1]
      by_cases h2 : a = r ∧ b < cols
      · rw [if_pos h2, if_pos (by omega)]; obtain ⟨h3, _⟩ := h2; subst h3; rfl
      · rw [if_neg h2, if_neg (by omega)]

theorem loopUp_row_cells
    (hf : ∀ i j s a b, π (f i j s) a b = if a = i ∧ b = j then g i j (π s i j) else π s a b)
    (i cols : Nat) (s : α) (a b : Nat) :
    π (loopUp cols (fun j s => f i j s) s) a b = if a = i ∧ b < cols then g i b (π s a b) else π s a b := by
  induction cols with
  | zero => simp [loopUp]
  | succ c ih =>
    simp only [loopUp]
    rw [hf]
    by_cases h2 : a = i ∧ b = c
    · obtain ⟨h3, h4⟩ := h2; subst h3; subst h4
      rw [if_pos ⟨rfl, rfl⟩, if_pos ⟨rfl, by omega⟩, ih, if_neg (by omega)]
    · rw [if_neg h2, ih]
      by_cases h1 : a = i ∧ b < c
      · rw [if_pos h1, if_pos (by omega)]
      · rw [if_neg h1, if_neg (by omega)]

theorem loopUp2_cells
    (hf : ∀ i j s a b, π (f i j s) a b = if a = i ∧ b = j then g i j (π s i j) else π s a b)
    (rows : Nat) (cols : Nat → Nat) (s : α) (a b : Nat) :
    π (loopUp rows (fun i s => loopUp (cols i) (fun j s => f i j s) s) s) a b
      = if a < rows ∧ b < cols a then g a b (π s a b) else π s a b := by
  induction rows with
  | zero => simp [loopUp]
  | succ r ih =>
    simp only [loopUp]
    rw [loopUp_row_cells π g f hf, ih]
    by_cases h2 : a = r ∧ b < cols r
    · obtain ⟨h3, h4⟩ := h2; subst h3
      have : ¬ (a < a ∧ b < cols a) := by omega
      rw [if_pos ⟨rfl, h4⟩, if_neg this, if_pos ⟨by omega, h4⟩]
    · rw [if_neg h2]
      by_cases h1 : a < r ∧ b < cols a
      · rw [if_pos h1, if_pos ⟨by omega, h1.2⟩]
      · rw [if_neg h1, if_neg]
        intro h; apply h2; constructor
        · have := h.1; have : a = r := by
            by_contra hne; exact h1 ⟨by omega, h.2⟩
          exact this
        · have : a = r := by
            by_contra hne; exact h1 ⟨by omega, h.2⟩
          subst this; exact h.2

end generic

/-! ## the loops of `ImplShape.lean` -/

theorem bdCC76Loops_apply (up : Rat → ExtRat) (stops : List Rat) (n : Nat) (x y : Mat) (a b : Nat) :
    bdCC76Loops up stops n x y a b
      = if a < n + 1 ∧ b < n + 1 then cc76Cell up stops (x a b) (y a b) else x a b := by
  unfold bdCC76Loops
  exact loopDown2_cells (fun m : Mat => m.f) (fun i j v => cc76Cell up stops v (y i j))
    (fun i j m => m.set i j (cc76Cell up stops (m i j) (y i j)))
    (fun i j s a b => by simp [Mat.set]) (n+1) (n+1) x a b

theorem octCC76Loops_apply (up : Rat → ExtRat) (stops : List Rat) (n : Nat) (x y : Mat) (a b : Nat) :
    octCC76Loops up stops n x y a b
      = if a < 2 * n ∧ b < rowSize a then cc76Cell up stops (x a b) (y a b) else x a b := by
  unfold octCC76Loops
  exact loopUp2_cells (fun m : Mat => m.f) (fun i j v => cc76Cell up stops v (y i j))
    (fun i j m => m.set i j (cc76Cell up stops (m i j) (y i j)))
    (fun i j s a b => by simp [Mat.set]) (2 * n) rowSize x a b

theorem bdBHMZ05Loops_apply (n : Nat) (x y : Mat) (r : BMat) (a b : Nat) :
    bdBHMZ05Loops n x y r a b
      = if a < n + 1 ∧ b < n + 1 then bhmz05Cell (x a b) (y a b) (r a b) else x a b := by
  unfold bdBHMZ05Loops
  exact loopDown2_cells (fun m : Mat => m.f) (fun i j v => bhmz05Cell v (y i j) (r i j))
    (fun i j m => if r i j || y i j != m i j then m.set i j pinf else m)
    (fun i j s a b => by
      simp only [bhmz05Cell]
      by_cases hc : (r i j || y i j != s i j) = true
      · simp [hc, Mat.set]
      · simp only [hc]
        by_cases h : a = i ∧ b = j
        · obtain ⟨h1, h2⟩ := h; subst h1; subst h2; simp
        · simp [h]) (n+1) (n+1) x a b

theorem octBHMZ05Loops_apply (n : Nat) (x y : Mat) (a b : Nat) :
    octBHMZ05Loops n x y a b
      = if a < 2 * n ∧ b < rowSize a then bhmz05Cell (x a b) (y a b) false else x a b := by
  unfold octBHMZ05Loops
  exact loopUp2_cells (fun m : Mat => m.f) (fun i j v => bhmz05Cell v (y i j) false)
    (fun i j m => if y i j != m i j then m.set i j pinf else m)
    (fun i j s a b => by
      simp only [bhmz05Cell, Bool.false_or]
      by_cases hc : (y i j != s i j) = true
      · simp [hc, Mat.set]
      · simp only [hc]
        by_cases h : a = i ∧ b = j
        · obtain ⟨h1, h2⟩ := h; subst h1; subst h2; simp
        · simp [h]) (2 * n) rowSize x a b

/-- `if (dbm_ij > y_dbm_ij) dbm_ij = y_dbm_ij` -/
def minCell (elem y_elem : ExtRat) : ExtRat := if ExtRat.ltB y_elem elem then y_elem else elem

/-- the matrix left by the loops of `bdIntersectionAssign` -/
theorem bdIntersection_loops_apply (n : Nat) (x y : Mat) (a b : Nat) :
    (loopDown (n+1) (fun i (st : Mat × Bool) =>
      loopDown (n+1) (fun j (st : Mat × Bool) =>
        if ExtRat.ltB (y i j) (st.1 i j) then (st.1.set i j (y i j), true) else st) st) (x, false)).1 a b
      = if a < n + 1 ∧ b < n + 1 then minCell (x a b) (y a b) else x a b := by
  exact loopDown2_cells (fun st : Mat × Bool => st.1.f) (fun i j v => minCell v (y i j))
    (fun i j (st : Mat × Bool) => if ExtRat.ltB (y i j) (st.1 i j) then (st.1.set i j (y i j), true) else st)
    (fun i j s a b => by
      simp only [minCell]
      by_cases hc : ExtRat.ltB (y i j) (s.1 i j) = true
      · simp [hc, Mat.set]
      · simp only [hc]
        by_cases h : a = i ∧ b = j
        · obtain ⟨h1, h2⟩ := h; subst h1; subst h2; simp
        · simp [h]) (n+1) (n+1) (x, false) a b

theorem octIntersection_loops_apply (n : Nat) (x y : Mat) (a b : Nat) :
    (loopUp (2 * n) (fun i (st : Mat × Bool) =>
      loopUp (rowSize i) (fun j (st : Mat × Bool) =>
        if ExtRat.ltB (y i j) (st.1 i j) then (st.1.set i j (y i j), true) else st) st) (x, false)).1 a b
      = if a < 2 * n ∧ b < rowSize a then minCell (x a b) (y a b) else x a b := by
  exact loopUp2_cells (fun st : Mat × Bool => st.1.f) (fun i j v => minCell v (y i j))
    (fun i j (st : Mat × Bool) => if ExtRat.ltB (y i j) (st.1 i j) then (st.1.set i j (y i j), true) else st)
    (fun i j s a b => by
      simp only [minCell]
      by_cases hc : ExtRat.ltB (y i j) (s.1 i j) = true
      · simp [hc, Mat.set]
      · simp only [hc]
        by_cases h : a = i ∧ b = j
        · obtain ⟨h1, h2⟩ := h; subst h1; subst h2; simp
        · simp [h]) (2 * n) rowSize (x, false) a b

/-! ## the cells -/

theorem ltB_iff (a b : ExtRat) : ExtRat.ltB a b = true ↔ ¬ b ≤ a := by
  simp [ExtRat.ltB]

/-- the CC76 cell never decreases (`assign_r(…, ROUND_UP)` rounds upwards) -/
theorem le_cc76Cell {up : Rat → ExtRat} (hup : ∀ q, fin q ≤ up q) (stops : List Rat) (elem y_elem : ExtRat) :
    elem ≤ cc76Cell up stops elem y_elem := by
  unfold cc76Cell
  split
  · simp only
    split
    · split
      · rename_i h
        rw [ltB_iff] at h
        rcases le_total' elem (fin stops[lowerBoundE stops elem]) with h1 | h1
        · exact le_trans' h1 (hup _)
        · exact absurd h1 h
      · exact le_rfl' _
    · exact le_pinf _
  · exact le_rfl' _

theorem le_bhmz05Cell (elem y_elem : ExtRat) (r : Bool) : elem ≤ bhmz05Cell elem y_elem r := by
  unfold bhmz05Cell
  split
  · exact le_pinf _
  · exact le_rfl' _

theorem minCell_le_left (a b : ExtRat) : minCell a b ≤ a := by
  unfold minCell
  split
  · rename_i h
    rw [ltB_iff] at h
    rcases le_total' a b with h1 | h1
    · exact absurd h1 h
    · exact h1
  · exact le_rfl' _

theorem minCell_le_right (a b : ExtRat) : minCell a b ≤ b := by
  unfold minCell
  split
  · exact le_rfl' _
  · rename_i h
    rw [ltB_iff] at h
    exact not_not.mp h

theorem le_minCell {c a b : ExtRat} (h1 : c ≤ a) (h2 : c ≤ b) : c ≤ minCell a b := by
  unfold minCell; split <;> assumption

/-! ## what an object denotes -/

/-- class invariant of `BD_Shape::OK()`: the stored main diagonal is `+∞` -/
def BDS.WF (n : Nat) (s : BDS) : Prop := ∀ i, i ≤ n → s.dbm i i = pinf
/-- class invariant of `Octagonal_Shape::OK()` -/
def OCS.WF (n : Nat) (s : OCS) : Prop := ∀ i, i < 2 * n → s.mat i i = pinf

/-- the points of a `BD_Shape` object: none when marked empty, else those satisfying every cell (`DBM.Sat`) -/
def BDS.γ (n : Nat) (s : BDS) (p : Nat → Rat) : Prop :=
  s.empty = false ∧ ∀ i j, i ≤ n → j ≤ n → fin (DBM.val p j - DBM.val p i) ≤ s.dbm i j

/-- the points of an `Octagonal_Shape` object (`OctM.Sat` on the stored cells) -/
def OCS.γ (n : Nat) (s : OCS) (p : Nat → Rat) : Prop :=
  s.empty = false ∧ ∀ i j, i < 2 * n → j < rowSize i → fin (OctM.oval p j - OctM.oval p i) ≤ s.mat i j

/-- the points of a `Box` object -/
def BoxS.γ (b : BoxS) (p : Nat → Rat) : Prop :=
  b.markedEmpty = false ∧ ∀ k (h : k < b.seq.length), (b.seq[k]).mem (p k)

/-- entrywise order on the cells of a `BD_Shape` of dimension `n` -/
def bdLE (n : Nat) (a b : Mat) : Prop := ∀ i j, i ≤ n → j ≤ n → a i j ≤ b i j
/-- entrywise order on the stored cells of an `Octagonal_Shape` of dimension `n` -/
def octLE (n : Nat) (a b : Mat) : Prop := ∀ i j, i < 2 * n → j < rowSize i → a i j ≤ b i j

end PPLV.Widen
