import PPLV.Widen.ImplH79ProofsEngineFacet0
import PPLV.Widen.ImplH79ProofsGen
import Mathlib.Tactic.Ring
import Mathlib.Tactic.Linarith
import Mathlib.Tactic.FieldSimp
import Mathlib.Data.Rat.Lemmas

/-!
# C08 stage 2b — rational points `(1, p)` versus integer vectors of the homogeneous space
-/
namespace PPLV.Widen.Impl

theorem sp_of_repZ {n : Nat} {d : Int} {v : Vec} {p : Pt} (h : RepZ n d v p) (e : Vec)
    (he : e.length ≤ n + 1) : ((sp e v : Int) : Rat) = (d : Rat) * evalRow e (hom n p 0) := by
  rw [← evalRow_getD e v, ← evalRow_smul_fun]
  exact evalRow_congr _ _ _ fun i hi => h.2.2 i (by omega)

theorem holds_iff_holdsZ {n : Nat} {d : Int} {v : Vec} {p : Pt} (h : RepZ n d v p) (c : CRow)
    (hc : c.e.length ≤ n + 1) : c.holds (hom n p 0) ↔ c.holdsZ v := by
  have hs := sp_of_repZ h c.e hc
  have hd : (0 : Rat) < (d : Rat) := by exact_mod_cast h.1
  unfold CRow.holds CRow.holdsZ
  cases c.eq
  · simp only [Bool.false_eq_true, if_false]
    rw [show (0 ≤ sp c.e v) ↔ (0 : Rat) ≤ ((sp c.e v : Int) : Rat) from (by norm_cast), hs]
    constructor
    · intro h0; exact mul_nonneg hd.le h0
    · intro h0; exact (mul_nonneg_iff_of_pos_left hd).1 h0
  · simp only [if_true]
    rw [show (sp c.e v = 0) ↔ ((sp c.e v : Int) : Rat) = 0 from (by norm_cast), hs]
    constructor
    · intro h0; rw [h0, mul_zero]
    · intro h0
      rcases mul_eq_zero.1 h0 with h1 | h1
      · exact absurd h1 hd.ne'
      · exact h1

theorem getD_map_mul (k : Int) (l : List Int) (i : Nat) :
    (l.map (fun x => k * x)).getD i 0 = k * l.getD i 0 := by
  induction l generalizing i with
  | nil => simp
  | cons a as ih =>
    cases i with
    | zero => simp
    | succ j => simpa using ih j

theorem exists_scaled (n : Nat) : ∀ p : Nat → Rat, ∃ d : Int, 0 < d ∧ ∃ l : List Int, l.length = n ∧
    ∀ i, i < n → ((l.getD i 0 : Int) : Rat) = p i * (d : Rat) := by
  induction n with
  | zero => intro p; exact ⟨1, one_pos, [], rfl, fun i hi => absurd hi (by omega)⟩
  | succ m ih =>
    intro p
    obtain ⟨d, hd, l, hl, hi⟩ := ih (fun i => p (i + 1))
    refine ⟨((p 0).den : Int) * d, mul_pos (by exact_mod_cast (p 0).den_pos) hd,
      ((p 0).num * d) :: l.map (fun x => ((p 0).den : Int) * x), by simp [hl], ?_⟩
    intro i hlt
    cases i with
    | zero =>
      simp only [List.getD_cons_zero]
      push_cast
      have := Rat.mul_den_eq_num (p 0)
      rw [← this]; ring
    | succ j =>
      simp only [List.getD_cons_succ]
      rw [getD_map_mul]
      push_cast
      rw [hi j (by omega)]
      ring

theorem exists_repZ_of_pt (n : Nat) (p : Pt) : ∃ (d : Int) (v : Vec), RepZ n d v p := by
  obtain ⟨d, hd, l, hl, hi⟩ := exists_scaled n p
  refine ⟨d, d :: l, hd, by simp [hl], ?_⟩
  intro i hle
  cases i with
  | zero => simp [hom]
  | succ j =>
    simp only [List.getD_cons_succ]
    rw [hi j (by omega)]
    have : j + 1 ≤ n := hle
    simp [hom, this, mul_comm]

theorem exists_repZ_of_vec (n : Nat) (v : Vec) (hl : v.length = n + 1) (hd : 0 < v.headD 0) :
    ∃ p : Pt, RepZ n (v.headD 0) v p := by
  refine ⟨fun i => ((v.getD (i + 1) 0 : Int) : Rat) / ((v.headD 0 : Int) : Rat), hd, hl, ?_⟩
  have hne : ((v.headD 0 : Int) : Rat) ≠ 0 := by exact_mod_cast hd.ne'
  intro i hle
  cases i with
  | zero =>
    cases v with
    | nil => simp at hl
    | cons a as => simp [hom]
  | succ j =>
    have : j + 1 ≤ n := hle
    simp only [hom, this, if_true, Nat.add_sub_cancel, Nat.succ_ne_zero, if_false]
    rw [mul_div_cancel₀ _ hne]

end PPLV.Widen.Impl
