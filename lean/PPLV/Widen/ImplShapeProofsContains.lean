import PPLV.Widen.ImplShapeProofsClose
import PPLV.Widen.ProofsItv
/-!
# C08 stage 2 — the shape widenings return an object that contains the receiver

At the level of the whole modelled functions (`bdCC76`, `octCC76`, `boxCC76`, `boxCC76Stops`): every point of the
receiver `x` is a point of the result; the loops only raise cells; hence, under the precondition `y ⊆ x` of the
widenings, the result contains `y` too.  The token protocol: with a positive token count the receiver is only
closed and the count stays or drops by one.
-/
namespace PPLV.Widen
open PPLV.WR
open PPLV.WR.ExtRat (fin pinf le_rfl' le_trans' le_total' le_pinf)

variable {up : Rat → ExtRat}

theorem bdClosureAssign_zero (up : Rat → ExtRat) (s : BDS) : bdClosureAssign up 0 s = s := by
  unfold bdClosureAssign; simp

theorem octClosureAssign_zero (up : Rat → ExtRat) (s : OCS) : octClosureAssign up 0 s = s := by
  unfold octClosureAssign; simp

/-! ## `BD_Shape::CC76_extrapolation_assign` -/

/-- the matrix-widened copy of the closed receiver -/
def bdCC76Widened (up : Rat → ExtRat) (n : Nat) (stops : List Rat) (X Y : BDS) : BDS :=
  { (bdClosureAssign up n X) with
    dbm := bdCC76Loops up stops n (bdClosureAssign up n X).dbm (bdClosureAssign up n Y).dbm }.resetClosed

/-- every path through `bdCC76` -/
theorem bdCC76_cases (up : Rat → ExtRat) (n : Nat) (stops : List Rat) (X Y : BDS) (tp : Option Nat) :
    (n = 0 ∧ bdCC76 up n stops X Y tp = (X, Y, tp))
    ∨ (n ≠ 0 ∧ (bdClosureAssign up n X).empty = true ∧ bdCC76 up n stops X Y tp = (bdClosureAssign up n X, Y, tp))
    ∨ (n ≠ 0 ∧ (bdClosureAssign up n X).empty = false ∧ (bdClosureAssign up n Y).empty = true
        ∧ bdCC76 up n stops X Y tp = (bdClosureAssign up n X, bdClosureAssign up n Y, tp))
    ∨ (n ≠ 0 ∧ (bdClosureAssign up n X).empty = false ∧ (bdClosureAssign up n Y).empty = false
        ∧ ((∃ t, tp = some t ∧ 0 < t ∧ bdCC76 up n stops X Y tp
              = (bdClosureAssign up n X, bdClosureAssign up n Y,
                  if !bdContains up n (bdClosureAssign up n X) (bdCC76Widened up n stops X Y) then some (t - 1) else some t))
          ∨ ((tp = none ∨ tp = some 0)
              ∧ bdCC76 up n stops X Y tp = (bdCC76Widened up n stops X Y, bdClosureAssign up n Y, tp)))) := by
  unfold bdCC76 bdCC76Widened
  by_cases h0 : n = 0
  · left; exact ⟨h0, by rw [if_pos h0]⟩
  · right
    by_cases hx : (bdClosureAssign up n X).empty = true
    · left; exact ⟨h0, hx, by simp only [h0, hx, ↓reduceIte]⟩
    · right
      have hx' : (bdClosureAssign up n X).empty = false := by
        cases h : (bdClosureAssign up n X).empty <;> simp_all
      by_cases hy : (bdClosureAssign up n Y).empty = true
      · left; exact ⟨h0, hx', hy, by simp only [h0, hx', hy, Bool.false_eq_true, ↓reduceIte]⟩
      · right
        have hy' : (bdClosureAssign up n Y).empty = false := by
          cases h : (bdClosureAssign up n Y).empty <;> simp_all
        refine ⟨h0, hx', hy', ?_⟩
        cases tp with
        | none => right; exact ⟨Or.inl rfl, by simp only [h0, hx', hy', Bool.false_eq_true, ↓reduceIte]⟩
        | some t =>
          by_cases ht : t > 0
          · left
            exact ⟨t, rfl, ht, by simp only [h0, hx', hy', Bool.false_eq_true, ht, ↓reduceIte]⟩
          · right
            have : t = 0 := by omega
            subst this
            exact ⟨Or.inr rfl, by simp only [h0, hx', hy', Bool.false_eq_true, ↓reduceIte]; rfl⟩

/-- the loops only raise cells -/
theorem bdCC76Loops_ge (hup : ∀ q, fin q ≤ up q) (stops : List Rat) (n : Nat) (x y : Mat) :
    bdLE n x (bdCC76Loops up stops n x y) := by
  intro i j _ _
  rw [bdCC76Loops_apply]
  split
  · exact le_cc76Cell hup stops _ _
  · exact le_rfl' _

/-- the receiver returned: the closed `*this`, or the closed `*this` with the widened matrix -/
theorem bdCC76_fst_cases (up : Rat → ExtRat) (n : Nat) (stops : List Rat) (X Y : BDS) (tp : Option Nat) :
    (bdCC76 up n stops X Y tp).1 = bdClosureAssign up n X
    ∨ ((bdClosureAssign up n X).empty = false ∧ (bdClosureAssign up n Y).empty = false ∧ n ≠ 0
        ∧ (tp = none ∨ tp = some 0) ∧ (bdCC76 up n stops X Y tp).1 = bdCC76Widened up n stops X Y) := by
  rcases bdCC76_cases up n stops X Y tp with ⟨h0, h⟩ | ⟨_, _, h⟩ | ⟨_, _, _, h⟩
    | ⟨h0, hx, hy, ⟨t, _, _, h⟩ | ⟨ht, h⟩⟩
  · left; rw [h]; subst h0; rw [bdClosureAssign_zero]
  · left; rw [h]
  · left; rw [h]
  · left; rw [h]
  · right; exact ⟨hx, hy, h0, ht, by rw [h]⟩

/-- **the result of the CC76 extrapolation contains the receiver** (`BD_Shape_templates.hh:3086`) -/
theorem bd_cc76_contains_x (hup : ∀ q, fin q ≤ up q) (n : Nat) (stops : List Rat) (X Y : BDS)
    (tp : Option Nat) (hX : BDS.WF n X) (p : Nat → Rat) (hp : BDS.γ n X p) :
    BDS.γ n (bdCC76 up n stops X Y tp).1 p := by
  have hc := bdClosureAssign_γ hup hX hp
  rcases bdCC76_fst_cases up n stops X Y tp with h | ⟨_, _, _, _, h⟩
  · rw [h]; exact hc
  · rw [h]
    refine ⟨hc.1, fun i j hi hj => ?_⟩
    exact le_trans' (hc.2 i j hi hj) (bdCC76Loops_ge hup stops n _ _ i j hi hj)

/-- … hence, under the precondition `y ⊆ x` of the widening, it contains `y` -/
theorem bd_cc76_contains_y (hup : ∀ q, fin q ≤ up q) (n : Nat) (stops : List Rat) (X Y : BDS)
    (tp : Option Nat) (hX : BDS.WF n X) (hyx : ∀ p, BDS.γ n Y p → BDS.γ n X p) (p : Nat → Rat)
    (hp : BDS.γ n Y p) : BDS.γ n (bdCC76 up n stops X Y tp).1 p :=
  bd_cc76_contains_x hup n stops X Y tp hX p (hyx p hp)

/-- the argument `y` comes back closed at most: the same points (the `const_cast` is harmless) -/
theorem bd_cc76_y_γ (hup : ∀ q, fin q ≤ up q) (n : Nat) (stops : List Rat) (X Y : BDS) (tp : Option Nat)
    (hY : BDS.WF n Y) (p : Nat → Rat) : BDS.γ n (bdCC76 up n stops X Y tp).2.1 p ↔ BDS.γ n Y p := by
  rcases bdCC76_cases up n stops X Y tp with ⟨_, h⟩ | ⟨_, _, h⟩ | ⟨_, _, _, h⟩
    | ⟨_, _, _, ⟨t, _, _, h⟩ | ⟨_, h⟩⟩ <;> rw [h]
  all_goals first | exact Iff.rfl | exact bdClosureAssign_γ_iff hup hY p

/-- the token protocol (`:3113-3122`): with a positive count the receiver is only closed, and the count stays or
drops by one -/
theorem bd_cc76_token (up : Rat → ExtRat) (n : Nat) (stops : List Rat) (X Y : BDS) (t : Nat) (ht : 0 < t) :
    (bdCC76 up n stops X Y (some t)).1 = bdClosureAssign up n X
    ∧ ((bdCC76 up n stops X Y (some t)).2.2 = some t ∨ (bdCC76 up n stops X Y (some t)).2.2 = some (t - 1)) := by
  rcases bdCC76_cases up n stops X Y (some t) with ⟨h0, h⟩ | ⟨_, _, h⟩ | ⟨_, _, _, h⟩
    | ⟨_, _, _, ⟨t', ht', _, h⟩ | ⟨h', _⟩⟩
  · rw [h]; subst h0; rw [bdClosureAssign_zero]; exact ⟨rfl, Or.inl rfl⟩
  · rw [h]; exact ⟨rfl, Or.inl rfl⟩
  · rw [h]; exact ⟨rfl, Or.inl rfl⟩
  · rw [h]; injection ht' with ht'; subst ht'
    refine ⟨rfl, ?_⟩
    show (if _ then _ else _) = _ ∨ (if _ then _ else _) = _
    split
    · right; rfl
    · left; rfl
  · rcases h' with h' | h'
    · cases h'
    · injection h' with h'; omega

/-- without tokens (`nullptr` or a count of `0`) the count is untouched -/
theorem bd_cc76_no_token (up : Rat → ExtRat) (n : Nat) (stops : List Rat) (X Y : BDS) (tp : Option Nat)
    (h : tp = none ∨ tp = some 0) : (bdCC76 up n stops X Y tp).2.2 = tp := by
  rcases bdCC76_cases up n stops X Y tp with ⟨_, h'⟩ | ⟨_, _, h'⟩ | ⟨_, _, _, h'⟩
    | ⟨_, _, _, ⟨t', ht', ht0, h'⟩ | ⟨_, h'⟩⟩
  · rw [h']
  · rw [h']
  · rw [h']
  · rcases h with h | h
    · rw [h] at ht'; cases ht'
    · rw [h] at ht'; injection ht' with ht'; omega
  · rw [h']

/-! ## `Octagonal_Shape::CC76_extrapolation_assign` -/

/-- the matrix-widened copy of the closed receiver -/
def octCC76Widened (up : Rat → ExtRat) (n : Nat) (stops : List Rat) (X Y : OCS) : OCS :=
  { (octClosureAssign up n X) with
    mat := octCC76Loops up stops n (octClosureAssign up n X).mat (octClosureAssign up n Y).mat }.resetClosed

/-- every path through `octCC76` -/
theorem octCC76_cases (up : Rat → ExtRat) (n : Nat) (stops : List Rat) (X Y : OCS) (tp : Option Nat) :
    (n = 0 ∧ octCC76 up n stops X Y tp = (X, Y, tp))
    ∨ (n ≠ 0 ∧ (octClosureAssign up n X).empty = true ∧ octCC76 up n stops X Y tp = (octClosureAssign up n X, Y, tp))
    ∨ (n ≠ 0 ∧ (octClosureAssign up n X).empty = false ∧ (octClosureAssign up n Y).empty = true
        ∧ octCC76 up n stops X Y tp = (octClosureAssign up n X, octClosureAssign up n Y, tp))
    ∨ (n ≠ 0 ∧ (octClosureAssign up n X).empty = false ∧ (octClosureAssign up n Y).empty = false
        ∧ ((∃ t, tp = some t ∧ 0 < t ∧ octCC76 up n stops X Y tp
              = (octClosureAssign up n X, octClosureAssign up n Y,
                  if !octContains up n (octClosureAssign up n X) (octCC76Widened up n stops X Y) then some (t - 1) else some t))
          ∨ ((tp = none ∨ tp = some 0)
              ∧ octCC76 up n stops X Y tp = (octCC76Widened up n stops X Y, octClosureAssign up n Y, tp)))) := by
  unfold octCC76 octCC76Widened
  by_cases h0 : n = 0
  · left; exact ⟨h0, by rw [if_pos h0]⟩
  · right
    by_cases hx : (octClosureAssign up n X).empty = true
    · left; exact ⟨h0, hx, by simp only [h0, hx, ↓reduceIte]⟩
    · right
      have hx' : (octClosureAssign up n X).empty = false := by
        cases h : (octClosureAssign up n X).empty <;> simp_all
      by_cases hy : (octClosureAssign up n Y).empty = true
      · left; exact ⟨h0, hx', hy, by simp only [h0, hx', hy, Bool.false_eq_true, ↓reduceIte]⟩
      · right
        have hy' : (octClosureAssign up n Y).empty = false := by
          cases h : (octClosureAssign up n Y).empty <;> simp_all
        refine ⟨h0, hx', hy', ?_⟩
        cases tp with
        | none => right; exact ⟨Or.inl rfl, by simp only [h0, hx', hy', Bool.false_eq_true, ↓reduceIte]⟩
        | some t =>
          by_cases ht : t > 0
          · left
            exact ⟨t, rfl, ht, by simp only [h0, hx', hy', Bool.false_eq_true, ht, ↓reduceIte]⟩
          · right
            have : t = 0 := by omega
            subst this
            exact ⟨Or.inr rfl, by simp only [h0, hx', hy', Bool.false_eq_true, ↓reduceIte]; rfl⟩

/-- the loops only raise cells -/
theorem octCC76Loops_ge (hup : ∀ q, fin q ≤ up q) (stops : List Rat) (n : Nat) (x y : Mat) :
    octLE n x (octCC76Loops up stops n x y) := by
  intro i j _ _
  rw [octCC76Loops_apply]
  split
  · exact le_cc76Cell hup stops _ _
  · exact le_rfl' _

/-- the receiver returned: the closed `*this`, or the closed `*this` with the widened matrix -/
theorem octCC76_fst_cases (up : Rat → ExtRat) (n : Nat) (stops : List Rat) (X Y : OCS) (tp : Option Nat) :
    (octCC76 up n stops X Y tp).1 = octClosureAssign up n X
    ∨ ((octClosureAssign up n X).empty = false ∧ (octClosureAssign up n Y).empty = false ∧ n ≠ 0
        ∧ (tp = none ∨ tp = some 0) ∧ (octCC76 up n stops X Y tp).1 = octCC76Widened up n stops X Y) := by
  rcases octCC76_cases up n stops X Y tp with ⟨h0, h⟩ | ⟨_, _, h⟩ | ⟨_, _, _, h⟩
    | ⟨h0, hx, hy, ⟨t, _, _, h⟩ | ⟨ht, h⟩⟩
  · left; rw [h]; subst h0; rw [octClosureAssign_zero]
  · left; rw [h]
  · left; rw [h]
  · left; rw [h]
  · right; exact ⟨hx, hy, h0, ht, by rw [h]⟩

/-- **the result of the CC76 extrapolation contains the receiver** (`Octagonal_Shape_templates.hh:3842`) -/
theorem oct_cc76_contains_x (hup : ∀ q, fin q ≤ up q) (n : Nat) (stops : List Rat) (X Y : OCS)
    (tp : Option Nat) (hX : OCS.WF n X) (p : Nat → Rat) (hp : OCS.γ n X p) :
    OCS.γ n (octCC76 up n stops X Y tp).1 p := by
  have hc := octClosureAssign_γ hup hX hp
  rcases octCC76_fst_cases up n stops X Y tp with h | ⟨_, _, _, _, h⟩
  · rw [h]; exact hc
  · rw [h]
    refine ⟨hc.1, fun i j hi hj => ?_⟩
    exact le_trans' (hc.2 i j hi hj) (octCC76Loops_ge hup stops n _ _ i j hi hj)

/-- … hence, under the precondition `y ⊆ x` of the widening, it contains `y` -/
theorem oct_cc76_contains_y (hup : ∀ q, fin q ≤ up q) (n : Nat) (stops : List Rat) (X Y : OCS)
    (tp : Option Nat) (hX : OCS.WF n X) (hyx : ∀ p, OCS.γ n Y p → OCS.γ n X p) (p : Nat → Rat)
    (hp : OCS.γ n Y p) : OCS.γ n (octCC76 up n stops X Y tp).1 p :=
  oct_cc76_contains_x hup n stops X Y tp hX p (hyx p hp)

/-- the argument `y` comes back closed at most: the same points (the `const_cast` is harmless) -/
theorem oct_cc76_y_γ (hup : ∀ q, fin q ≤ up q) (n : Nat) (stops : List Rat) (X Y : OCS) (tp : Option Nat)
    (hY : OCS.WF n Y) (p : Nat → Rat) : OCS.γ n (octCC76 up n stops X Y tp).2.1 p ↔ OCS.γ n Y p := by
  rcases octCC76_cases up n stops X Y tp with ⟨_, h⟩ | ⟨_, _, h⟩ | ⟨_, _, _, h⟩
    | ⟨_, _, _, ⟨t, _, _, h⟩ | ⟨_, h⟩⟩ <;> rw [h]
  all_goals first | exact Iff.rfl | exact octClosureAssign_γ_iff hup hY p

/-- the token protocol (`:3870-3879`): with a positive count the receiver is only closed, and the count stays or
drops by one -/
theorem oct_cc76_token (up : Rat → ExtRat) (n : Nat) (stops : List Rat) (X Y : OCS) (t : Nat) (ht : 0 < t) :
    (octCC76 up n stops X Y (some t)).1 = octClosureAssign up n X
    ∧ ((octCC76 up n stops X Y (some t)).2.2 = some t ∨ (octCC76 up n stops X Y (some t)).2.2 = some (t - 1)) := by
  rcases octCC76_cases up n stops X Y (some t) with ⟨h0, h⟩ | ⟨_, _, h⟩ | ⟨_, _, _, h⟩
    | ⟨_, _, _, ⟨t', ht', _, h⟩ | ⟨h', _⟩⟩
  · rw [h]; subst h0; rw [octClosureAssign_zero]; exact ⟨rfl, Or.inl rfl⟩
  · rw [h]; exact ⟨rfl, Or.inl rfl⟩
  · rw [h]; exact ⟨rfl, Or.inl rfl⟩
  · rw [h]; injection ht' with ht'; subst ht'
    refine ⟨rfl, ?_⟩
    show (if _ then _ else _) = _ ∨ (if _ then _ else _) = _
    split
    · right; rfl
    · left; rfl
  · rcases h' with h' | h'
    · cases h'
    · injection h' with h'; omega

/-- without tokens (`nullptr` or a count of `0`) the count is untouched -/
theorem oct_cc76_no_token (up : Rat → ExtRat) (n : Nat) (stops : List Rat) (X Y : OCS) (tp : Option Nat)
    (h : tp = none ∨ tp = some 0) : (octCC76 up n stops X Y tp).2.2 = tp := by
  rcases octCC76_cases up n stops X Y tp with ⟨_, h'⟩ | ⟨_, _, h'⟩ | ⟨_, _, _, h'⟩
    | ⟨_, _, _, ⟨t', ht', ht0, h'⟩ | ⟨_, h'⟩⟩
  · rw [h']
  · rw [h']
  · rw [h']
  · rcases h with h | h
    · rw [h] at ht'; cases ht'
    · rw [h] at ht'; injection ht' with ht'; omega
  · rw [h']

/-! ## `Box::CC76_widening_assign` -/

/-- **`x.CC76_widening_assign(y, first, last)` contains `x`** (`Box_templates.hh:4186`), componentwise by
`cc76_sup`.  No hypothesis on the lengths: the result has `min` of the two lengths components, each one a
superset of the component of `x`. -/
theorem box_cc76_stops_contains_x (stops : List Rat) (x y : BoxS) (p : Nat → Rat) (hp : BoxS.γ x p) :
    BoxS.γ (boxCC76Stops stops x y) p := by
  unfold boxCC76Stops
  split
  · exact hp
  · refine ⟨hp.1, fun k hk => ?_⟩
    have hk' : k < (List.zipWith (Itv.cc76 stops) x.seq y.seq).length := hk
    rw [List.length_zipWith] at hk'
    have hkx : k < x.seq.length := by omega
    have hky : k < y.seq.length := by omega
    show ((List.zipWith (Itv.cc76 stops) x.seq y.seq)[k]).mem (p k)
    rw [List.getElem_zipWith]
    exact cc76_sup stops _ _ _ (hp.2 k hkx)

/-- the space dimension is kept when both boxes have the same one -/
theorem boxCC76Stops_length (stops : List Rat) (x y : BoxS) (h : x.seq.length = y.seq.length) :
    (boxCC76Stops stops x y).seq.length = x.seq.length := by
  unfold boxCC76Stops
  split
  · rfl
  · show (List.zipWith (Itv.cc76 stops) x.seq y.seq).length = _
    rw [List.length_zipWith]; omega

theorem boxCC76_fst_cases (x y : BoxS) (tp : Option Nat) :
    (boxCC76 x y tp).1 = x ∨ ((tp = none ∨ tp = some 0) ∧ (boxCC76 x y tp).1 = boxCC76Stops defaultStops x y) := by
  unfold boxCC76
  cases tp with
  | none => right; exact ⟨Or.inl rfl, rfl⟩
  | some t =>
    by_cases ht : t > 0
    · left; simp only [ht, if_true]
    · right
      have : t = 0 := by omega
      subst this
      exact ⟨Or.inr rfl, rfl⟩

/-- **`x.CC76_widening_assign(y, tp)` contains `x`** (`Box_templates.hh:4207`) -/
theorem box_cc76_contains_x (x y : BoxS) (tp : Option Nat) (p : Nat → Rat) (hp : BoxS.γ x p) :
    BoxS.γ (boxCC76 x y tp).1 p := by
  rcases boxCC76_fst_cases x y tp with h | ⟨_, h⟩
  · rw [h]; exact hp
  · rw [h]; exact box_cc76_stops_contains_x _ x y p hp

theorem box_cc76_contains_y (x y : BoxS) (tp : Option Nat) (hyx : ∀ p, BoxS.γ y p → BoxS.γ x p)
    (p : Nat → Rat) (hp : BoxS.γ y p) : BoxS.γ (boxCC76 x y tp).1 p :=
  box_cc76_contains_x x y tp p (hyx p hp)

theorem box_cc76_stops_contains_y (stops : List Rat) (x y : BoxS) (hyx : ∀ p, BoxS.γ y p → BoxS.γ x p)
    (p : Nat → Rat) (hp : BoxS.γ y p) : BoxS.γ (boxCC76Stops stops x y) p :=
  box_cc76_stops_contains_x stops x y p (hyx p hp)

/-- the token protocol of the box widening (`:4221-4230`) -/
theorem box_cc76_token (x y : BoxS) (t : Nat) (ht : 0 < t) :
    (boxCC76 x y (some t)).1 = x
    ∧ ((boxCC76 x y (some t)).2 = some t ∨ (boxCC76 x y (some t)).2 = some (t - 1)) := by
  unfold boxCC76
  have ht' : t > 0 := ht
  simp only [ht', if_true]
  refine ⟨trivial, ?_⟩
  split
  · right; rfl
  · left; rfl

theorem box_cc76_no_token (x y : BoxS) (tp : Option Nat) (h : tp = none ∨ tp = some 0) :
    (boxCC76 x y tp).2 = tp := by
  unfold boxCC76
  rcases h with h | h <;> subst h <;> simp

end PPLV.Widen
