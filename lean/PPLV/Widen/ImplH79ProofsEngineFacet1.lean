import PPLV.Widen.ImplH79ProofsEngineFacetV
import PPLV.Widen.ImplH79ProofsEngineFacetQ

/-!
# C08 stage 2b — `hfacet`, step 0: a constraint valid on the point set is valid on the generators
-/
namespace PPLV.Widen.Impl

/-- column 0 of a generator row: `0` for lines, `≥ 0` for rays (`0`) and points (the divisor) -/
def GPos (y : YMin) : Prop :=
  ∀ g ∈ y.genSys, if g.line then g.e.headD 0 = 0 else 0 ≤ g.e.headD 0

theorem holdsZ_ineq {c : CRow} (he : c.eq = false) (v : Vec) : c.holdsZ v ↔ 0 ≤ sp c.e v := by
  unfold CRow.holdsZ; simp [he]

theorem holdsZ_eq {c : CRow} (he : c.eq = true) (v : Vec) : c.holdsZ v ↔ sp c.e v = 0 := by
  unfold CRow.holdsZ; simp [he]

theorem headD_zadd (a b : Vec) (h : a.length = b.length) :
    (zadd a b).headD 0 = a.headD 0 + b.headD 0 := by
  cases a <;> cases b <;> simp [zadd] at h ⊢

theorem headD_zsmul (k : Int) (a : Vec) : (zsmul k a).headD 0 = k * a.headD 0 := by
  cases a <;> simp [zsmul]

theorem holdsZ_zadd (c : CRow) (a b : Vec) (hl : a.length = b.length) (ha : c.holdsZ a)
    (hb : c.holdsZ b) : c.holdsZ (zadd a b) := by
  cases he : c.eq
  · rw [holdsZ_ineq he] at *
    rw [sp_zadd _ _ _ hl]; linarith
  · rw [holdsZ_eq he] at *
    rw [sp_zadd _ _ _ hl, ha, hb]; rfl

theorem holdsZ_zsmul (c : CRow) (k : Int) (hk : 0 ≤ k) (a : Vec) (ha : c.holdsZ a) :
    c.holdsZ (zsmul k a) := by
  cases he : c.eq
  · rw [holdsZ_ineq he] at *
    rw [sp_zsmul]; exact mul_nonneg hk ha
  · rw [holdsZ_eq he] at *
    rw [sp_zsmul, ha]; ring

theorem sat_iff {ci cj : CRow} {gs : List GRow} (h : satRow ci gs = satRow cj gs) :
    ∀ g ∈ gs, (0 < sp ci.e g.e ↔ 0 < sp cj.e g.e) := by
  intro g hg
  unfold satRow at h
  have := List.map_inj_left.mp h g hg
  exact decide_eq_decide.mp this

/-- a vector of the cone with positive column 0 is a positive multiple of a point of the polyhedron -/
theorem ci_holdsZ_of_pos {n : Nat} {y : YMin} (hy : EngineDD n y) (ci : CRow)
    (hci : ci.e.length = n + 1) (hval : ∀ p ∈ den false n y.conSys, ci.holds (hom n p 0))
    (v : Vec) (hv : InK n y v) (hd : 0 < v.headD 0) : ci.holdsZ v := by
  obtain ⟨p, hp⟩ := exists_repZ_of_vec n v hv.1 hd
  have hpden : p ∈ den false n y.conSys :=
    mem_den_false.mpr fun c hc => (holds_iff_holdsZ hp c (le_of_eq (hy.wf c hc))).mpr (hv.2 c hc)
  exact (holds_iff_holdsZ hp ci (le_of_eq hci)).mp (hval p hpden)

/-- … hence the constraint holds at every vector of the cone with non-negative column 0 -/
theorem ci_holdsZ_of_nonneg {n : Nat} {y : YMin} (hy : EngineDD n y) (ci : CRow)
    (hci : ci.e.length = n + 1) (hval : ∀ p ∈ den false n y.conSys, ci.holds (hom n p 0))
    (u : Vec) (hu : InK n y u) (h0 : 0 ≤ u.headD 0) : ci.holdsZ u := by
  obtain ⟨gp, hgp, _, hgp0⟩ := hy.hasPoint
  have hgpK := gen_inK hy hgp
  have hl : ∀ t : Int, gp.e.length = (zsmul t u).length := fun t => by
    rw [length_zsmul, hgpK.1, hu.1]
  have key : ∀ t : Int, 0 ≤ t → ci.holdsZ (zadd gp.e (zsmul t u)) := by
    intro t ht
    apply ci_holdsZ_of_pos hy ci hci hval _ (hgpK.zadd (hu.zsmul t ht))
    rw [headD_zadd _ _ (hl t), headD_zsmul]
    have := mul_nonneg ht h0
    linarith
  cases he : ci.eq
  · rw [holdsZ_ineq he]
    have k0 := key 0 (le_refl _)
    rw [holdsZ_ineq he, sp_zadd _ _ _ (hl 0), sp_zsmul] at k0
    have hG : 0 ≤ sp ci.e gp.e := by linarith
    have kG := key (sp ci.e gp.e + 1) (by linarith)
    rw [holdsZ_ineq he, sp_zadd _ _ _ (hl _), sp_zsmul] at kG
    by_contra hneg
    have hneg := not_le.mp hneg
    have h1 : sp ci.e u ≤ -1 := by omega
    nlinarith
  · rw [holdsZ_eq he]
    have k0 := key 0 (le_refl _)
    have k1 := key 1 (by norm_num)
    rw [holdsZ_eq he, sp_zadd _ _ _ (hl 0), sp_zsmul] at k0
    rw [holdsZ_eq he, sp_zadd _ _ _ (hl 1), sp_zsmul] at k1
    linarith

/-- step 0: `ci` is valid on the generators (and vanishes on them when it is an equality) -/
theorem ci_validG {n : Nat} {y : YMin} (hy : EngineDD n y) (hgp : GPos y) (ci : CRow)
    (hci : ci.e.length = n + 1) (hval : ∀ p ∈ den false n y.conSys, ci.holds (hom n p 0)) :
    ValidG y ci.e ∧ (ci.eq = true → ∀ g ∈ y.genSys, sp ci.e g.e = 0) := by
  have hall : ∀ g ∈ y.genSys, ci.holdsZ g.e ∧ (g.line = true → sp ci.e g.e = 0) := by
    intro g hg
    have hpos := hgp g hg
    cases hl : g.line
    · simp only [hl, Bool.false_eq_true, if_false] at hpos
      exact ⟨ci_holdsZ_of_nonneg hy ci hci hval _ (gen_inK hy hg) hpos, fun h => by cases h⟩
    · simp only [hl, if_true] at hpos
      have h1 := ci_holdsZ_of_nonneg hy ci hci hval _ (gen_inK hy hg) (le_of_eq hpos.symm)
      have h2 := ci_holdsZ_of_nonneg hy ci hci hval _ (line_neg_inK hy hg hl (-1))
        (by rw [headD_zsmul, hpos]; norm_num)
      refine ⟨h1, fun _ => ?_⟩
      cases he : ci.eq
      · rw [holdsZ_ineq he] at h1 h2
        rw [sp_zsmul] at h2
        linarith
      · exact (holdsZ_eq he _).mp h1
  constructor
  · intro g hg
    obtain ⟨h1, h2⟩ := hall g hg
    cases hl : g.line
    · simp only [Bool.false_eq_true, if_false]
      cases he : ci.eq
      · exact (holdsZ_ineq he _).mp h1
      · exact le_of_eq ((holdsZ_eq he _).mp h1).symm
    · simp only [if_true]
      exact h2 hl
  · intro he g hg
    exact (holdsZ_eq he _).mp (hall g hg).1

/-- a row of the system is valid on the generators -/
theorem cj_validG {n : Nat} {y : YMin} (hy : EngineDD n y) {cj : CRow} (hcj : cj ∈ y.conSys) :
    ValidG y cj.e := by
  intro g hg
  have := hy.gens_in g hg cj hcj
  cases he : cj.eq <;> cases hl : g.line <;> simp [he, hl] at this ⊢ <;> omega

end PPLV.Widen.Impl
