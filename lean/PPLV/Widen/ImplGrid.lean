import PPLV.Lattice.RedSem
import PPLV.Widen.Model
/-!
# C08, stage 2 — the GRID widening implementations: code-shaped model of /repo/src/Grid_widenings.cc (no Mathlib)

Rows, `dim_kinds`, `Grid::simplify` and `Grid::conversion` are the models of `PPLV/Lattice/Reduce.lean` and
`PPLV/Lattice/Convert.lean` (property C05, stage 2); this file adds

* the row functions the widenings call: `Linear_Expression::sign_normalize`, `Congruence::normalize` /
  `strong_normalize` (every `Congruence_System::insert(cg)` strongly normalises its copy),
  `Grid_Generator::grid_line` + `strong_normalize`, the two `is_equal_at_dimension`,
  `num_equalities`, `num_lines`, `num_parameters`;
* `Grid::select_wider_congruences` (l.33) and `Grid::select_wider_generators` (l.240);
* a `Grid` object as the members the widenings read and write (`GridM`: `space_dim`, the status flags,
  `con_sys`, `gen_sys`, `dim_kinds`), `Grid(n)` / `Grid(n, EMPTY)`, `set_empty`, `update_congruences`,
  `update_generators`, `add_recycled_congruences`, `add_recycled_grid_generators`;
* `congruence_widening_assign` (l.77), `generator_widening_assign` (l.290), `widening_assign` (l.457) and the three
  `limited_*_extrapolation_assign` (l.163, l.367, l.484).

`Grid::contains` and `Grid::relation_with(cg) == is_included()` are parameters (`contains`, `sat`): the theorems
assume they are exact, the driver instantiates them with the verified K2 deciders and the harness journals what
the real functions answered.

Both assigned-to objects are returned: the C++ functions minimise `y` in place through a `const_cast`.
-/
namespace PPLV.Widen.ImplGrid
open PPLV.Lattice PPLV.Lattice.Red

/-! ## row functions -/

/-- `Linear_Expression_Impl::sign_normalize()` (Linear_Expression_Impl_templates.hh:696): when the first non-zero
    homogeneous coefficient is negative, it and everything after it are negated, and the inhomogeneous term too
    (the entries in between are zero: the whole row is negated) -/
def signNormalize (e : Row) : Row :=
  match (e.drop 1).find? (fun z => z != 0) with
  | some c => if c < 0 then e.map (fun z => -z) else e
  | none => e

/-- `Congruence::normalize()` (Congruence.cc:62); `c %= modulus_` is GMP's truncating remainder -/
def normalizeCg (r : CRow) : CRow :=
  let e := signNormalize r.e
  if r.m = 0 then { e := e, m := r.m }
  else
    let c := Int.tmod (get e 0) r.m
    let c := if c < 0 then c + r.m else c
    { e := e.set 0 c, m := r.m }

/-- `expr.gcd(0, space_dimension() + 1)`: non-negative gcd of all entries -/
def rowGcd (e : Row) : Int := e.foldl (fun g z => gcdI g z) 0

/-- `Congruence::strong_normalize()` (Congruence.cc:84) -/
def strongNormalizeCg (r : CRow) : CRow :=
  let r1 := normalizeCg r
  let g0 := rowGcd r1.e
  let g := if g0 = 0 then r1.m else gcdI r1.m g0
  if g ≠ 0 ∧ g ≠ 1 then { e := r1.e.map (fun z => z / g), m := r1.m / g } else r1

/-- `Congruence::is_equal_at_dimension(Variable(dim - 1), cg)` (Congruence_inlines.hh:249):
    `coefficient(v) * cg.modulus() == cg.coefficient(v) * modulus()` -/
def cgIsEqualAtDimension (x : CRow) (dim : Nat) (y : CRow) : Bool :=
  get x.e dim * y.m == get y.e dim * x.m

/-- `Grid_Generator::is_equal_at_dimension(dim, y)` (Grid_Generator_inlines.hh:254):
    `x.expr.get(dim) * y.divisor() == y.expr.get(dim) * x.divisor()`
    (`divisor()` throws on a line; the callers only reach it with parameters and points, see `selectGuardGens`) -/
def genIsEqualAtDimension (x : GRow) (dim : Nat) (y : GRow) : Bool :=
  get x.e dim * y.divisor == get y.e dim * x.divisor

/-- `Grid_Generator::grid_line(Linear_Expression(gg.expression()))` (Grid_Generator.cc:124) on a row with `n + 2`
    entries: the homogeneous coefficients are copied, the inhomogeneous term and the parameter divisor column are 0;
    `strong_normalize()` (Grid_Generator_inlines.hh:303) = `expr.normalize()` (division by the gcd), then
    `sign_normalize()` -/
def gridLine (gg : GRow) : GRow :=
  let e0 : Row := tab gg.e fun i => if i = 0 ∨ i + 1 = gg.e.length then 0 else get gg.e i
  let g := rowGcd e0
  let e1 := if g ≠ 0 ∧ g ≠ 1 then e0.map (fun z => z / g) else e0
  { line := true, e := signNormalize e1 }

/-- `Congruence_System::num_equalities()` (Congruence_System.cc:252) -/
def numEqualities (rows : List CRow) : Nat := (rows.filter (·.isEquality)).length
/-- `Congruence_System::num_proper_congruences()` (Congruence_System.cc:264) -/
def numProperCongruences (rows : List CRow) : Nat := (rows.filter (·.isProperCongruence)).length
/-- `Grid_Generator_System::num_lines()` (Grid_Generator_System.cc:266), the branch of an unsorted system
    (`Grid_Generator_System` clears the sortedness flag in every constructor; the harness journals the flag) -/
def numLines (rows : List GRow) : Nat := (rows.filter (·.isLine)).length
/-- `Grid_Generator_System::num_parameters()` (Grid_Generator_System.cc:291), unsorted branch:
    `is_parameter()` = not a line and a zero inhomogeneous term -/
def numParameters (rows : List GRow) : Nat := (rows.filter fun r => !r.isLine && r.isLineOrParameter).length

/-! ## `Grid::select_wider_congruences` (Grid_widenings.cc:33) -/

/-- the loop `for (dim = con_sys.space_dimension(), x_row = 0, y_row = 0; dim > 0; --dim)`; the first argument is
    `dim`; `selected_cgs.insert(cg)` appends the strongly normalised copy -/
def selectWiderCongruencesLoop (xs : List CRow) (xdk : List Nat) (ys : List CRow) (ydk : List Nat) :
    Nat → Nat → Nat → List CRow → List CRow
  | 0, _, _, sel => sel
  | dim + 1, xRow, yRow, sel =>
    if kind xdk (dim + 1) = PROPER_CONGRUENCE then
      let cg := rowAt xs xRow
      let yCg := rowAt ys yRow
      let sel' := if cgIsEqualAtDimension cg (dim + 1) yCg then sel ++ [strongNormalizeCg cg] else sel
      selectWiderCongruencesLoop xs xdk ys ydk dim (xRow + 1) (yRow + 1) sel'
    else if kind xdk (dim + 1) = EQUALITY then
      selectWiderCongruencesLoop xs xdk ys ydk dim (xRow + 1) (yRow + 1) (sel ++ [strongNormalizeCg (rowAt xs xRow)])
    else if kind xdk (dim + 1) = CON_VIRTUAL then
      selectWiderCongruencesLoop xs xdk ys ydk dim xRow (if kind ydk (dim + 1) ≠ CON_VIRTUAL then yRow + 1 else yRow) sel
    else selectWiderCongruencesLoop xs xdk ys ydk dim xRow yRow sel

/-- `x.select_wider_congruences(y, selected_cgs)` with `selected_cgs` empty on entry -/
def selectWiderCongruences (n : Nat) (xs : List CRow) (xdk : List Nat) (ys : List CRow) (ydk : List Nat) : List CRow :=
  selectWiderCongruencesLoop xs xdk ys ydk n 0 0 []

/-! ## `Grid::select_wider_generators` (Grid_widenings.cc:240) -/

/-- the loop `for (dim = 0, x_row = 0, y_row = 0; dim <= gen_sys.space_dimension(); ++dim)`; the first argument is the
    number of iterations left, `dim` the current dimension -/
def selectWiderGeneratorsLoop (xs : List GRow) (xdk : List Nat) (ys : List GRow) (ydk : List Nat) :
    Nat → Nat → Nat → Nat → List GRow → List GRow
  | 0, _, _, _, w => w
  | fuel + 1, dim, xRow, yRow, w =>
    if kind xdk dim = PARAMETER then
      let gg := rowAt xs xRow
      let yGg := rowAt ys yRow
      let w' := if genIsEqualAtDimension gg dim yGg then w ++ [gg] else w ++ [gridLine gg]
      selectWiderGeneratorsLoop xs xdk ys ydk fuel (dim + 1) (xRow + 1) (yRow + 1) w'
    else if kind xdk dim = LINE then
      selectWiderGeneratorsLoop xs xdk ys ydk fuel (dim + 1) (xRow + 1) (yRow + 1) (w ++ [rowAt xs xRow])
    else if kind xdk dim = GEN_VIRTUAL then
      selectWiderGeneratorsLoop xs xdk ys ydk fuel (dim + 1) xRow (if kind ydk dim ≠ GEN_VIRTUAL then yRow + 1 else yRow) w
    else selectWiderGeneratorsLoop xs xdk ys ydk fuel (dim + 1) xRow yRow w

/-- `x.select_wider_generators(y, widened_ggs)` with `widened_ggs` empty on entry -/
def selectWiderGenerators (n : Nat) (xs : List GRow) (xdk : List Nat) (ys : List GRow) (ydk : List Nat) : List GRow :=
  selectWiderGeneratorsLoop xs xdk ys ydk (n + 1) 0 0 0 []

/-- what the two `select_*` read without a bounds check is there: the row counters stay inside both systems and
    `is_equal_at_dimension` never asks a line for its divisor (the `PPL_ASSERT`s on `dim_kinds` of the C++) -/
def selectGuardGens (n : Nat) (xs : List GRow) (xdk : List Nat) (ys : List GRow) (ydk : List Nat) : Bool :=
  let nvx := ((List.range (n + 1)).filter fun d => kind xdk d != GEN_VIRTUAL).length
  let nvy := ((List.range (n + 1)).filter fun d => kind ydk d != GEN_VIRTUAL).length
  decide (nvx ≤ xs.length) && decide (nvy ≤ ys.length) &&
    (List.range (n + 1)).all fun d => kind xdk d == LINE || kind ydk d == GEN_VIRTUAL || kind xdk d == kind ydk d

def selectGuardCgs (n : Nat) (xs : List CRow) (xdk : List Nat) (ys : List CRow) (ydk : List Nat) : Bool :=
  let nvx := ((List.range (n + 1)).filter fun d => kind xdk d != CON_VIRTUAL).length
  let nvy := ((List.range (n + 1)).filter fun d => kind ydk d != CON_VIRTUAL).length
  decide (nvx ≤ xs.length) && decide (nvy ≤ ys.length) &&
    (List.range (n + 1)).all fun d => kind xdk d == CON_VIRTUAL || kind xdk d == kind ydk d

/-! ## the `Grid` object -/

/-- the members of `Grid` the widenings read and write -/
structure GridM where
  n : Nat                 -- `space_dim`
  empty : Bool            -- `marked_empty()`
  cgUp : Bool             -- `congruences_are_up_to_date()`
  cgMin : Bool            -- `congruences_are_minimized()`
  genUp : Bool            -- `generators_are_up_to_date()`
  genMin : Bool           -- `generators_are_minimized()`
  con : List CRow         -- `con_sys`
  gen : List GRow         -- `gen_sys`
  dk : List Nat           -- `dim_kinds`
deriving Repr, Inhabited, DecidableEq

/-- `Grid(n)` (universe), `Grid::construct(n, UNIVERSE)` (Grid_nonpublic.cc:52), `n > 0` -/
def universeGrid (n : Nat) : GridM :=
  { n := n, empty := false, cgUp := true, cgMin := true, genUp := true, genMin := true,
    con := [integralityRow n 1],
    gen := { line := false, e := 1 :: List.replicate (n + 1) 0 } ::
      (List.range n).map (fun d => { line := true, e := (List.range (n + 2)).map fun i => if i = d + 1 then 1 else 0 }),
    dk := PROPER_CONGRUENCE :: List.replicate n CON_VIRTUAL }

/-- the false congruence `1 = 0` in dimension `n` (`Congruence::zero_dim_false()` after `set_space_dimension`) -/
def falseRow (n : Nat) : CRow := { e := 1 :: List.replicate n 0, m := 0 }

/-- `Grid(n, EMPTY)` (Grid_nonpublic.cc:56): only the empty flag is set; `dim_kinds` is empty -/
def emptyGrid (n : Nat) : GridM :=
  { n := n, empty := true, cgUp := false, cgMin := false, genUp := false, genMin := false,
    con := [falseRow n], gen := [], dk := [] }

/-- `Grid::set_empty()` (Grid_nonpublic.cc:479): `Status::set_empty` resets every other flag -/
def GridM.setEmpty (g : GridM) : GridM :=
  { g with empty := true, cgUp := false, cgMin := false, genUp := false, genMin := false,
           con := [falseRow g.n], gen := [] }

/-- `Grid::update_congruences()` (Grid_nonpublic.cc:494) -/
def GridM.updateCongruences (g : GridM) : GridM :=
  let sg := if !g.genMin then simplifyGens g.n g.gen g.dk else (g.gen, g.dk)
  { g with gen := sg.1, dk := sg.2, con := conversionGensToCgs g.n sg.1 sg.2,
           cgUp := true, cgMin := true, genMin := true }

/-- `Grid::update_generators()` (Grid_nonpublic.cc:521); the flag is the return value -/
def GridM.updateGenerators (g : GridM) : GridM × Bool :=
  let sc := if !g.cgMin then simplifyCgs g.n g.con g.dk else (g.con, g.dk, false)
  if sc.2.2 then (g.setEmpty, false)
  else
    ({ g with con := sc.1, dk := sc.2.1, gen := conversionCgsToGens g.n sc.1 sc.2.1,
              genUp := true, cgMin := true, genMin := true }, true)

/-- `result.add_recycled_congruences(cgs)` (Grid_public.cc:1334) on a non-empty grid of positive dimension -/
def GridM.addRecycledCongruences (g : GridM) (cgs : List CRow) : GridM :=
  if cgs.isEmpty then g
  else if g.empty then g
  else
    let g1 := if !g.cgUp then g.updateCongruences else g
    { g1 with con := g1.con ++ cgs, cgMin := false, genUp := false, genMin := false }

/-- `result.add_recycled_grid_generators(ggs)` (Grid_public.cc:1379) on `Grid(n, EMPTY)`, `n > 0`, `ggs` with a
    point: the branch "The grid is empty" (`gen_sys.m_swap(gs); normalize_divisors(gen_sys);`) -/
def addRecycledGridGeneratorsToEmpty (n : Nat) (ggs : List GRow) : GridM :=
  if ggs.isEmpty then emptyGrid n
  else { emptyGrid n with empty := false, genUp := true, gen := (normalizeDivisors n ggs 1).1 }

/-! ## `Grid::congruence_widening_assign` (Grid_widenings.cc:77) -/

/-- "Ensure that the congruences are in minimal form" (l.92-104 for `x`, l.107-120 for `yy`); `none`: the grid was
    found empty (`set_empty(); return;`) -/
def GridM.minimizeCongruences (g : GridM) : GridM × Bool :=
  if g.cgUp then
    if !g.cgMin then
      let sc := simplifyCgs g.n g.con g.dk
      if sc.2.2 then (g.setEmpty, true)
      else ({ g with con := sc.1, dk := sc.2.1, cgMin := true }, false)
    else (g, false)
  else (g.updateCongruences, false)

/-- `x.congruence_widening_assign(y, tp)`; `tp = none` is the null pointer -/
def congruenceWideningAssign (contains : GridM → GridM → Bool) (x y : GridM) (tp : Option Nat) : GridM × GridM × Option Nat × String :=
  if x.n = 0 ∨ x.empty ∨ y.empty then (x, y, tp, "trivial")
  else
    let mx := x.minimizeCongruences
    if mx.2 then (mx.1, y, tp, "x_empty")
    else
      let x := mx.1
      let my := y.minimizeCongruences
      if my.2 then (x, my.1, tp, "y_empty")
      else
        let yy := my.1
        if numEqualities x.con < numEqualities yy.con then (x, yy, tp, "fewer_equalities")
        else
          let cgs := selectWiderCongruences x.n x.con x.dk yy.con yy.dk
          if cgs.length = x.con.length then (x, yy, tp, "all_selected")
          else
            let result := (universeGrid x.n).addRecycledCongruences cgs
            match tp with
            | some (t + 1) => if !contains x result then (x, yy, some t, "token_used") else (x, yy, tp, "token_kept")
            | _ => (result, yy, tp, "widened")

/-! ## `Grid::generator_widening_assign` (Grid_widenings.cc:290) -/

/-- "Ensure that the generators are in minimal form" (l.305-315 / l.322-333) -/
def GridM.minimizeGenerators (g : GridM) : GridM :=
  if g.genUp then
    if !g.genMin then
      let sg := simplifyGens g.n g.gen g.dk
      { g with gen := sg.1, dk := sg.2, genMin := true }
    else g
  else g.updateGenerators.1

/-- `x.generator_widening_assign(y, tp)` -/
def generatorWideningAssign (contains : GridM → GridM → Bool) (x y : GridM) (tp : Option Nat) : GridM × GridM × Option Nat × String :=
  if x.n = 0 ∨ x.empty ∨ y.empty then (x, y, tp, "trivial")
  else
    let x := x.minimizeGenerators
    if x.empty then (x, y, tp, "x_empty")
    else
      let yy := y.minimizeGenerators
      if x.gen.length > yy.gen.length then (x, yy, tp, "more_rows")
      else if numLines x.gen > numLines yy.gen then (x, yy, tp, "more_lines")
      else
        let ggs := selectWiderGenerators x.n x.gen x.dk yy.gen yy.dk
        if numParameters ggs = numParameters x.gen then (x, yy, tp, "all_selected")
        else
          let result := addRecycledGridGeneratorsToEmpty x.n ggs
          match tp with
          | some (t + 1) =>
            -- `x.contains(result)` = `result.is_included_in(x)` (Grid_nonpublic.cc:259) brings the congruences
            -- of `x` up to date (the quick equivalence test can only succeed when they already are)
            let x' := if !x.cgUp then x.updateCongruences else x
            if !contains x result then (x', yy, some t, "token_used") else (x', yy, tp, "token_kept")
          | _ => (result, yy, tp, "widened")

/-! ## `Grid::widening_assign` (Grid_widenings.cc:457) -/

def wideningAssign (contains : GridM → GridM → Bool) (x y : GridM) (tp : Option Nat) : GridM × GridM × Option Nat × String :=
  if x.cgUp && y.cgUp then congruenceWideningAssign contains x y tp
  else if x.genUp && y.genUp then generatorWideningAssign contains x y tp
  else congruenceWideningAssign contains x y tp

/-! ## the three `limited_*_extrapolation_assign` (Grid_widenings.cc:163, 367, 484) -/

/-- `x.relation_with(cg) == Poly_Con_Relation::is_included()` (l.225, l.429, l.547) from the inclusion test `incl`
    (`x ⊆ {cg}`): on a non-empty grid `Grid::relation_with(const Congruence&)` (Grid_public.cc:391) answers
    `is_included() && saturates()` for an EQUALITY that every point satisfies, and that is not `== is_included()`:
    a supplied equality is never selected.  (Harmless for the property: the grid widenings keep every equality of
    `x`, so the result satisfies it anyway.) -/
def relationIsIncluded (incl : GridM → CRow → Bool) (x : GridM) (cg : CRow) : Bool :=
  !cg.isEquality && incl x cg

/-- the shared body; `w` is the widening the variant calls.  The dimension checks throw (not modelled: the theorems
    and the harness use dimension-compatible arguments); the aliasing prologue copies `cgs` and calls again. -/
def limitedBody (w : GridM → GridM → Option Nat → GridM × GridM × Option Nat × String)
    (sat : GridM → CRow → Bool) (x y : GridM) (cgs : List CRow) (tp : Option Nat) : GridM × GridM × Option Nat × String :=
  if cgs.isEmpty then w x y tp
  else if y.empty then (x, y, tp, "limited_trivial")
  else if x.empty then (x, y, tp, "limited_trivial")
  else if x.n = 0 then (x, y, tp, "limited_trivial")
  else
    -- `if (!x.generators_are_up_to_date() && !x.update_generators()) return;`
    let ux := if !x.genUp then x.updateGenerators else (x, true)
    if !ux.2 then (ux.1, y, tp, "limited_x_empty")
    else
      let x := ux.1
      match tp with
      | some (_ + 1) => w x y tp
      | _ =>
        let newCgs := (cgs.filter (relationIsIncluded sat x)).map strongNormalizeCg
        let r := w x y tp
        (r.1.addRecycledCongruences newCgs, r.2.1, r.2.2.1, r.2.2.2)

/-- `limited_congruence_extrapolation_assign`: an empty `cgs` falls back to `widening_assign` (l.186) -/
def limitedCongruenceExtrapolationAssign (contains : GridM → GridM → Bool) (sat : GridM → CRow → Bool)
    (x y : GridM) (cgs : List CRow) (tp : Option Nat) :=
  if cgs.isEmpty then wideningAssign contains x y tp
  else limitedBody (congruenceWideningAssign contains) sat x y cgs tp

/-- `limited_generator_extrapolation_assign`: an empty `cgs` falls back to `generator_widening_assign` (l.390) -/
def limitedGeneratorExtrapolationAssign (contains : GridM → GridM → Bool) (sat : GridM → CRow → Bool)
    (x y : GridM) (cgs : List CRow) (tp : Option Nat) :=
  limitedBody (generatorWideningAssign contains) sat x y cgs tp

/-- `limited_extrapolation_assign` (l.484) -/
def limitedExtrapolationAssign (contains : GridM → GridM → Bool) (sat : GridM → CRow → Bool)
    (x y : GridM) (cgs : List CRow) (tp : Option Nat) :=
  limitedBody (wideningAssign contains) sat x y cgs tp

/-! ## `Grid_Certificate(gr)` (Grid_Certificate.cc:32) on a non-empty grid of positive dimension -/

def certificate (g : GridM) : GridCert :=
  if g.cgUp then
    if g.cgMin then { numEqualities := numEqualities g.con, numProperCongruences := numProperCongruences g.con }
    else if g.genUp && g.genMin then
      { numEqualities := g.n + 1 - g.gen.length, numProperCongruences := numParameters g.gen + 1 }
    else
      let sc := simplifyCgs g.n g.con g.dk
      { numEqualities := numEqualities sc.1, numProperCongruences := numProperCongruences sc.1 }
  else
    let gen := if !g.genMin then (simplifyGens g.n g.gen g.dk).1 else g.gen
    { numEqualities := g.n + 1 - gen.length, numProperCongruences := numParameters gen + 1 }

end PPLV.Widen.ImplGrid
