import PPLV.Widen.ImplShapeProofsBase
import PPLV.WR.ClosureProofsBDS
import PPLV.WR.ClosureProofsOct
/-!
# C08 stage 2 — `shortest_path_closure_assign()` / `strong_closure_assign()` as the widenings see them

`bdClosureAssign up n s` and `octClosureAssign up n s` (the flag-guarded closures of `ImplShape.lean`) keep the
class invariant (when the result is not marked empty; after `set_empty()` the matrix is garbage), keep every point
of the object, only lower cells, and — in the non-empty outcome — lose no point either.
-/
namespace PPLV.Widen
open PPLV.WR
open PPLV.WR.ExtRat (fin pinf le_rfl' le_trans' le_total' le_pinf)

variable {up : Rat → ExtRat}

/-! ## `BD_Shape` -/

/-- the three outcomes of `shortest_path_closure_assign()` -/
theorem bdClosureAssign_cases (up : Rat → ExtRat) (n : Nat) (s : BDS) :
    bdClosureAssign up n s = s
    ∨ (s.empty = false ∧ s.closed = false ∧ n ≠ 0 ∧ (bdsCore up (n+1) s.dbm).negDiag (n+1) = true
        ∧ bdClosureAssign up n s = { s.setEmpty with dbm := bdsCore up (n+1) s.dbm })
    ∨ (s.empty = false ∧ s.closed = false ∧ n ≠ 0 ∧ (bdsCore up (n+1) s.dbm).negDiag (n+1) = false
        ∧ bdClosureAssign up n s
            = { s with dbm := Mat.diagDown (n+1) pinf (bdsCore up (n+1) s.dbm), closed := true }) := by
  unfold bdClosureAssign
  by_cases h1 : (s.empty || s.closed) = true
  · left; rw [if_pos h1]
  · rw [if_neg h1]
    by_cases h2 : n = 0
    · left; rw [if_pos h2]
    · rw [if_neg h2]
      have he : s.empty = false := by cases h : s.empty <;> simp_all
      have hc : s.closed = false := by cases h : s.closed <;> simp_all
      right
      by_cases h3 : (bdsCore up (n+1) s.dbm).negDiag (n+1) = true
      · left; exact ⟨he, hc, h2, h3, by simp only [h3, if_true]⟩
      · right
        have h3' : (bdsCore up (n+1) s.dbm).negDiag (n+1) = false := by
          cases h : (bdsCore up (n+1) s.dbm).negDiag (n+1) <;> simp_all
        exact ⟨he, hc, h2, h3', by simp only [h3']; rfl⟩

/-- a marked-empty object is left alone -/
theorem bdClosureAssign_of_empty (up : Rat → ExtRat) (n : Nat) (s : BDS) (h : s.empty = true) :
    bdClosureAssign up n s = s := by
  unfold bdClosureAssign; simp [h]

/-- a closed object is left alone -/
theorem bdClosureAssign_of_closed (up : Rat → ExtRat) (n : Nat) (s : BDS) (h : s.closed = true) :
    bdClosureAssign up n s = s := by
  unfold bdClosureAssign; simp [h]

/-- closing is idempotent (the flags short-circuit the second call) -/
theorem bdClosureAssign_idem (up : Rat → ExtRat) (n : Nat) (s : BDS) :
    bdClosureAssign up n (bdClosureAssign up n s) = bdClosureAssign up n s := by
  rcases bdClosureAssign_cases up n s with h | ⟨_, _, _, _, h⟩ | ⟨_, _, _, _, h⟩
  · rw [h]; exact h
  · rw [h]; exact bdClosureAssign_of_empty _ _ _ rfl
  · rw [h]; exact bdClosureAssign_of_closed _ _ _ rfl

/-- the receiver was not marked empty if the closed object is not -/
theorem bdClosureAssign_empty_false {n : Nat} {s : BDS} (h : (bdClosureAssign up n s).empty = false) :
    s.empty = false := by
  rcases bdClosureAssign_cases up n s with h' | ⟨he, _⟩ | ⟨he, _⟩
  · rw [h'] at h; exact h
  · exact he
  · exact he

/-- the class invariant survives the closure (non-empty outcome; after `set_empty()` the diagonal is garbage) -/
theorem bdClosureAssign_WF {n : Nat} {s : BDS} (hWF : BDS.WF n s)
    (hne : (bdClosureAssign up n s).empty = false) : BDS.WF n (bdClosureAssign up n s) := by
  rcases bdClosureAssign_cases up n s with h | ⟨_, _, _, _, h⟩ | ⟨_, _, _, _, h⟩
  · rw [h]; exact hWF
  · rw [h] at hne; simp [BDS.setEmpty] at hne
  · rw [h]; intro i hi
    show Mat.diagDown (n+1) pinf (bdsCore up (n+1) s.dbm) i i = pinf
    rw [Mat.diagDown_apply, if_pos ⟨rfl, by omega⟩]

/-- the flags of the non-empty outcome: closed, or dimension zero -/
theorem bdClosureAssign_closed {n : Nat} {s : BDS} (hne : (bdClosureAssign up n s).empty = false) :
    (bdClosureAssign up n s).closed = true ∨ n = 0 := by
  by_cases h0 : n = 0
  · exact Or.inr h0
  · left
    unfold bdClosureAssign at hne ⊢
    by_cases h1 : (s.empty || s.closed) = true
    · rw [if_pos h1] at hne ⊢; cases hc : s.closed <;> simp_all
    · rw [if_neg h1, if_neg h0] at hne ⊢
      by_cases h3 : (bdsCore up (n+1) s.dbm).negDiag (n+1) = true
      · simp [h3, BDS.setEmpty] at hne
      · simp [h3]

/-- the matrix with its invariant, as a `DBM n` -/
def BDS.toDBM {n : Nat} (s : BDS) (hWF : BDS.WF n s) : DBM n := ⟨s.dbm, hWF⟩

theorem BDS.γ_iff_sat {n : Nat} (s : BDS) (hWF : BDS.WF n s) (p : Nat → Rat) :
    BDS.γ n s p ↔ s.empty = false ∧ (s.toDBM hWF).Sat p := Iff.rfl

/-- `shortest_path_closure_assign()` keeps every point of the object -/
theorem bdClosureAssign_γ (hup : ∀ q, fin q ≤ up q) {n : Nat} {s : BDS} (hWF : BDS.WF n s) {p : Nat → Rat}
    (hp : BDS.γ n s p) : BDS.γ n (bdClosureAssign up n s) p := by
  rcases bdClosureAssign_cases up n s with h | ⟨_, _, _, hneg, _⟩ | ⟨_, _, _, _, h⟩
  · rw [h]; exact hp
  · exact absurd hp.2 (DBM.closureEmpty_sound hup (s.toDBM hWF) hneg p)
  · rw [h]
    exact ⟨hp.1, DBM.closure_sat hup (s.toDBM hWF) p hp.2⟩

/-- a closure that finds emptiness is right: the object had no point -/
theorem bdClosureAssign_empty_sound (hup : ∀ q, fin q ≤ up q) {n : Nat} {s : BDS} (hWF : BDS.WF n s)
    (he : (bdClosureAssign up n s).empty = true) (p : Nat → Rat) : ¬ BDS.γ n s p := by
  intro hp
  have := (bdClosureAssign_γ hup hWF hp).1
  rw [he] at this; exact Bool.noConfusion this

/-- `shortest_path_closure_assign()` only lowers cells -/
theorem bdClosureAssign_le (hup : ∀ q, fin q ≤ up q) {n : Nat} {s : BDS} (hWF : BDS.WF n s)
    (hne : (bdClosureAssign up n s).empty = false) : bdLE n (bdClosureAssign up n s).dbm s.dbm := by
  rcases bdClosureAssign_cases up n s with h | ⟨_, _, _, _, h⟩ | ⟨_, _, _, _, h⟩
  · rw [h]; intro i j _ _; exact le_rfl' _
  · rw [h] at hne; simp [BDS.setEmpty] at hne
  · rw [h]; exact DBM.closure_le hup (s.toDBM hWF)

/-- … hence it loses no point -/
theorem bdClosureAssign_γ_back (hup : ∀ q, fin q ≤ up q) {n : Nat} {s : BDS} (hWF : BDS.WF n s)
    {p : Nat → Rat} (hp : BDS.γ n (bdClosureAssign up n s) p) : BDS.γ n s p := by
  have hne := hp.1
  refine ⟨bdClosureAssign_empty_false hne, fun i j hi hj => ?_⟩
  exact le_trans' (hp.2 i j hi hj) (bdClosureAssign_le hup hWF hne i j hi hj)

/-- closing does not change the denotation -/
theorem bdClosureAssign_γ_iff (hup : ∀ q, fin q ≤ up q) {n : Nat} {s : BDS} (hWF : BDS.WF n s)
    (p : Nat → Rat) : BDS.γ n (bdClosureAssign up n s) p ↔ BDS.γ n s p :=
  ⟨bdClosureAssign_γ_back hup hWF, bdClosureAssign_γ hup hWF⟩

/-! ## `Octagonal_Shape` -/

/-- the three outcomes of `strong_closure_assign()` -/
theorem octClosureAssign_cases (up : Rat → ExtRat) (n : Nat) (s : OCS) :
    octClosureAssign up n s = s
    ∨ (s.empty = false ∧ s.closed = false ∧ n ≠ 0 ∧ (octCore up n s.mat).negDiag (2 * n) = true
        ∧ octClosureAssign up n s = { s.setEmpty with mat := octCore up n s.mat })
    ∨ (s.empty = false ∧ s.closed = false ∧ n ≠ 0 ∧ (octCore up n s.mat).negDiag (2 * n) = false
        ∧ octClosureAssign up n s
            = { s with mat := strongCoherenceM up n (Mat.diagUp (2 * n) pinf (octCore up n s.mat)),
                       closed := true }) := by
  unfold octClosureAssign
  by_cases h1 : (s.empty || s.closed || decide (n = 0)) = true
  · left; rw [if_pos h1]
  · rw [if_neg h1]
    have he : s.empty = false := by cases h : s.empty <;> simp_all
    have hc : s.closed = false := by cases h : s.closed <;> simp_all
    have h2 : n ≠ 0 := by intro h; simp_all
    right
    by_cases h3 : (octCore up n s.mat).negDiag (2 * n) = true
    · left; exact ⟨he, hc, h2, h3, by simp only [h3, if_true]⟩
    · right
      have h3' : (octCore up n s.mat).negDiag (2 * n) = false := by
        cases h : (octCore up n s.mat).negDiag (2 * n) <;> simp_all
      exact ⟨he, hc, h2, h3', by simp only [h3']; rfl⟩

theorem octClosureAssign_of_empty (up : Rat → ExtRat) (n : Nat) (s : OCS) (h : s.empty = true) :
    octClosureAssign up n s = s := by
  unfold octClosureAssign; simp [h]

theorem octClosureAssign_of_closed (up : Rat → ExtRat) (n : Nat) (s : OCS) (h : s.closed = true) :
    octClosureAssign up n s = s := by
  unfold octClosureAssign; simp [h]

theorem octClosureAssign_empty_false {n : Nat} {s : OCS} (h : (octClosureAssign up n s).empty = false) :
    s.empty = false := by
  rcases octClosureAssign_cases up n s with h' | ⟨he, _⟩ | ⟨he, _⟩
  · rw [h'] at h; exact h
  · exact he
  · exact he

/-- the class invariant survives the strong closure (non-empty outcome) -/
theorem octClosureAssign_WF {n : Nat} {s : OCS} (hWF : OCS.WF n s)
    (hne : (octClosureAssign up n s).empty = false) : OCS.WF n (octClosureAssign up n s) := by
  rcases octClosureAssign_cases up n s with h | ⟨_, _, _, _, h⟩ | ⟨_, _, _, _, h⟩
  · rw [h]; exact hWF
  · rw [h] at hne; simp [OCS.setEmpty] at hne
  · rw [h]; intro i hi
    show strongCoherenceM up n (Mat.diagUp (2 * n) pinf (octCore up n s.mat)) i i = pinf
    rw [strongCoherenceM_diag, Mat.diagUp_apply, if_pos ⟨rfl, hi⟩]

/-- the flags of the non-empty outcome: closed, or dimension zero -/
theorem octClosureAssign_closed {n : Nat} {s : OCS} (hne : (octClosureAssign up n s).empty = false) :
    (octClosureAssign up n s).closed = true ∨ n = 0 := by
  by_cases h0 : n = 0
  · exact Or.inr h0
  · left
    rcases octClosureAssign_cases up n s with h | ⟨_, _, _, _, h⟩ | ⟨_, _, _, _, h⟩
    · unfold octClosureAssign at h hne ⊢
      by_cases h1 : (s.empty || s.closed || decide (n = 0)) = true
      · rw [if_pos h1] at hne ⊢; cases hc : s.closed <;> simp_all
      · rw [if_neg h1] at hne ⊢
        by_cases h3 : (octCore up n s.mat).negDiag (2 * n) = true
        · simp [h3, OCS.setEmpty] at hne
        · simp [h3]
    · rw [h] at hne; simp [OCS.setEmpty] at hne
    · rw [h]

/-- the matrix with its invariant, as an `OctM n` -/
def OCS.toOctM {n : Nat} (s : OCS) (hWF : OCS.WF n s) : OctM n := ⟨s.mat, hWF⟩

theorem OCS.γ_iff_sat {n : Nat} (s : OCS) (hWF : OCS.WF n s) (p : Nat → Rat) :
    OCS.γ n s p ↔ s.empty = false ∧ (s.toOctM hWF).Sat p := Iff.rfl

theorem octClosureAssign_mat_eq {n : Nat} {s : OCS} (hWF : OCS.WF n s)
    (hneg : (octCore up n s.mat).negDiag (2 * n) = false) :
    strongCoherenceM up n (Mat.diagUp (2 * n) pinf (octCore up n s.mat))
      = (OctM.strongClosure up (s.toOctM hWF)).e := by
  have : OctM.strongClosureEmpty up (s.toOctM hWF) = false := hneg
  unfold OctM.strongClosure
  rw [this]; rfl

/-- `strong_closure_assign()` keeps every point of the object -/
theorem octClosureAssign_γ (hup : ∀ q, fin q ≤ up q) {n : Nat} {s : OCS} (hWF : OCS.WF n s) {p : Nat → Rat}
    (hp : OCS.γ n s p) : OCS.γ n (octClosureAssign up n s) p := by
  rcases octClosureAssign_cases up n s with h | ⟨_, _, _, hneg, _⟩ | ⟨_, _, _, hneg, h⟩
  · rw [h]; exact hp
  · exact absurd hp.2 (OctM.strongClosureEmpty_sound hup (s.toOctM hWF) hneg p)
  · rw [h]
    refine ⟨hp.1, ?_⟩
    show ∀ i j, i < 2 * n → j < rowSize i → fin (OctM.oval p j - OctM.oval p i)
      ≤ strongCoherenceM up n (Mat.diagUp (2 * n) pinf (octCore up n s.mat)) i j
    rw [octClosureAssign_mat_eq hWF hneg]
    exact OctM.strongClosure_sat hup (s.toOctM hWF) p hp.2

theorem octClosureAssign_empty_sound (hup : ∀ q, fin q ≤ up q) {n : Nat} {s : OCS} (hWF : OCS.WF n s)
    (he : (octClosureAssign up n s).empty = true) (p : Nat → Rat) : ¬ OCS.γ n s p := by
  intro hp
  have := (octClosureAssign_γ hup hWF hp).1
  rw [he] at this; exact Bool.noConfusion this

/-- `strong_closure_assign()` only lowers cells -/
theorem octClosureAssign_le (hup : ∀ q, fin q ≤ up q) {n : Nat} {s : OCS} (hWF : OCS.WF n s)
    (hne : (octClosureAssign up n s).empty = false) : octLE n (octClosureAssign up n s).mat s.mat := by
  rcases octClosureAssign_cases up n s with h | ⟨_, _, _, _, h⟩ | ⟨_, _, _, hneg, h⟩
  · rw [h]; intro i j _ _; exact le_rfl' _
  · rw [h] at hne; simp [OCS.setEmpty] at hne
  · rw [h]
    show octLE n (strongCoherenceM up n (Mat.diagUp (2 * n) pinf (octCore up n s.mat))) s.mat
    rw [octClosureAssign_mat_eq hWF hneg]
    exact OctM.strongClosure_le hup (s.toOctM hWF)

/-- … hence it loses no point -/
theorem octClosureAssign_γ_back (hup : ∀ q, fin q ≤ up q) {n : Nat} {s : OCS} (hWF : OCS.WF n s)
    {p : Nat → Rat} (hp : OCS.γ n (octClosureAssign up n s) p) : OCS.γ n s p := by
  have hne := hp.1
  refine ⟨octClosureAssign_empty_false hne, fun i j hi hj => ?_⟩
  exact le_trans' (hp.2 i j hi hj) (octClosureAssign_le hup hWF hne i j hi hj)

theorem octClosureAssign_γ_iff (hup : ∀ q, fin q ≤ up q) {n : Nat} {s : OCS} (hWF : OCS.WF n s)
    (p : Nat → Rat) : OCS.γ n (octClosureAssign up n s) p ↔ OCS.γ n s p :=
  ⟨octClosureAssign_γ_back hup hWF, octClosureAssign_γ hup hWF⟩

end PPLV.Widen
