import PPLV.Widen.ImplH79ProofsEngineMinAbs0
import Mathlib.Tactic.Linarith
import Mathlib.Tactic.Choose
import Mathlib.Tactic.Positivity
import Mathlib.Algebra.Order.BigOperators.Group.Finset

/-!
# C08 stage 2b — the abstract counting argument, part 1: an injection facets → non-vanishing rows of `D`
-/
namespace PPLV.Widen.Impl.Abs

variable {V : Type*} [AddCommGroup V] [Module ℚ V]

/-- L0 threshold lemma (monotone form) -/
theorem thr {ι : Type*} [Fintype ι] (s t : ι → ℚ) (hs : ∀ i, 0 < s i) :
    ∃ M : ℚ, 0 < M ∧ ∀ M', M ≤ M' → ∀ i, 0 < M' * s i + t i := by
  classical
  refine ⟨1 + ∑ i, |t i| / s i, ?_, ?_⟩
  · have : 0 ≤ ∑ i, |t i| / s i :=
      Finset.sum_nonneg (fun i _ => div_nonneg (abs_nonneg _) (hs i).le)
    linarith
  · intro M' hM' i
    have hnn : ∀ k ∈ (Finset.univ : Finset ι), 0 ≤ |t k| / s k :=
      fun k _ => div_nonneg (abs_nonneg _) (hs k).le
    have h1 := Finset.single_le_sum hnn (Finset.mem_univ i)
    have h2 : |t i| / s i < M' := by linarith
    rw [div_lt_iff₀ (hs i)] at h2
    have h3 := neg_abs_le (t i)
    linarith

/-- L0 for a single pair -/
theorem thr1 (s t : ℚ) (hs : 0 < s) :
    ∃ M : ℚ, 0 < M ∧ ∀ M', M ≤ M' → 0 < M' * s + t := by
  obtain ⟨M, hM, h⟩ := thr (fun _ : Unit => s) (fun _ => t) (fun _ => hs)
  exact ⟨M, hM, fun M' hM' => h M' hM' ()⟩

/-- L1 absorb -/
theorem absorb {x0 : V →ₗ[ℚ] ℚ} {e f : ℕ} {A : Fin e → V →ₗ[ℚ] ℚ} {C : Fin f → V →ₗ[ℚ] ℚ}
    {mm x : V} (h0 : 0 < x0 mm) (hA : ∀ i, A i mm = 0) (hC : ∀ j, 0 < C j mm)
    (hx : ∀ i, A i x = 0) :
    ∃ M : ℚ, 0 < M ∧ (0 < x0 (M • mm + x) ∧ InK A C (M • mm + x)) ∧
      (0 < x0 (M • mm - x) ∧ InK A C (M • mm - x)) := by
  obtain ⟨M1, hM1, h1⟩ := thr (fun j => C j mm) (fun j => C j x) hC
  obtain ⟨M2, hM2, h2⟩ := thr (fun j => C j mm) (fun j => -(C j x)) hC
  obtain ⟨M3, hM3, h3⟩ := thr1 (x0 mm) (x0 x) h0
  obtain ⟨M4, hM4, h4⟩ := thr1 (x0 mm) (-(x0 x)) h0
  have hM : 0 < M1 + M2 + M3 + M4 := by linarith
  refine ⟨M1 + M2 + M3 + M4, hM, ⟨?_, ?_, ?_⟩, ⟨?_, ?_, ?_⟩⟩
  · have := h3 (M1 + M2 + M3 + M4) (by linarith)
    simpa [map_add, map_smul, smul_eq_mul] using this
  · intro i; simp [map_add, map_smul, hA, hx]
  · intro j
    have := h1 (M1 + M2 + M3 + M4) (by linarith) j
    have h' : C j ((M1 + M2 + M3 + M4) • mm + x) = (M1 + M2 + M3 + M4) * C j mm + C j x := by
      simp [map_add, map_smul, smul_eq_mul]
    rw [h']; exact this.le
  · have := h4 (M1 + M2 + M3 + M4) (by linarith)
    have h' : x0 ((M1 + M2 + M3 + M4) • mm - x) = (M1 + M2 + M3 + M4) * x0 mm + -(x0 x) := by
      simp [map_smul, smul_eq_mul, sub_eq_add_neg]
    rw [h']; exact this
  · intro i; simp [map_sub, map_smul, hA, hx]
  · intro j
    have := h2 (M1 + M2 + M3 + M4) (by linarith) j
    have h' : C j ((M1 + M2 + M3 + M4) • mm - x) = (M1 + M2 + M3 + M4) * C j mm + -(C j x) := by
      simp [map_smul, smul_eq_mul, sub_eq_add_neg]
    rw [h']; exact this.le

/-- L2: a row valid on `K ∩ H` and vanishing at a relative interior vector vanishes on `ker A` -/
theorem row_zero_of_interior {x0 : V →ₗ[ℚ] ℚ} {e f : ℕ} {A : Fin e → V →ₗ[ℚ] ℚ}
    {C : Fin f → V →ₗ[ℚ] ℚ} {d : Bool × (V →ₗ[ℚ] ℚ)}
    (hd : ∀ v, 0 < x0 v → InK A C v → Holds d v)
    {mm : V} (h0 : 0 < x0 mm) (hA : ∀ i, A i mm = 0) (hC : ∀ j, 0 < C j mm)
    (hdm : d.2 mm = 0) : ∀ x, (∀ i, A i x = 0) → d.2 x = 0 := by
  intro x hx
  obtain ⟨M, _, ⟨hp0, hpK⟩, ⟨hm0, hmK⟩⟩ := absorb h0 hA hC hx
  have hp := hd _ hp0 hpK
  have hm := hd _ hm0 hmK
  have ep : d.2 (M • mm + x) = d.2 x := by simp [map_add, map_smul, hdm]
  have em : d.2 (M • mm - x) = -(d.2 x) := by simp [map_sub, map_smul, hdm]
  unfold Holds at hp hm
  rw [ep] at hp
  rw [em] at hm
  by_cases hb : d.1 = true
  · rw [if_pos hb] at hp; exact hp
  · rw [if_neg hb] at hp hm; linarith

/-- L3: a vector of the half space in the relative interior of facet `j`, with the violating vector -/
theorem facet_interior {x0 : V →ₗ[ℚ] ℚ} {e f m : ℕ}
    {A : Fin e → V →ₗ[ℚ] ℚ} {C : Fin f → V →ₗ[ℚ] ℚ} {D : Fin m → Bool × (V →ₗ[ℚ] ℚ)}
    (h : Setup x0 A C D) (j : Fin f) :
    ∃ w x, (∀ i, A i x = 0) ∧ C j x < 0 ∧ 0 < x0 w ∧ (∀ i, A i w = 0) ∧ C j w = 0 ∧
      ∀ k, k ≠ j → 0 < C k w := by
  obtain ⟨p, hp0, hpA, hpC⟩ := h.pstar
  obtain ⟨x, hxA, hxC, hxj⟩ := h.irred j
  obtain ⟨g, hg0, ⟨hgA, hgC⟩, hgj⟩ := h.facetPt j
  obtain ⟨M, hM, hM'⟩ := thr1 (x0 g) (x0 ((-(C j x)) • p + (C j p) • x)) hg0
  refine ⟨M • g + ((-(C j x)) • p + (C j p) • x), x, hxA, hxj, ?_, ?_, ?_, ?_⟩
  · have := hM' M le_rfl
    have h' : x0 (M • g + ((-(C j x)) • p + (C j p) • x))
        = M * x0 g + x0 ((-(C j x)) • p + (C j p) • x) := by
      simp [map_add, map_smul, smul_eq_mul]
    rw [h']; exact this
  · intro i; simp [map_add, map_smul, hgA, hpA, hxA]
  · simp only [map_add, map_smul, smul_eq_mul, hgj]; ring
  · intro k hk
    have h' : C k (M • g + ((-(C j x)) • p + (C j p) • x))
        = M * C k g + ((-(C j x)) * C k p + C j p * C k x) := by
      simp [map_add, map_smul, smul_eq_mul]
    rw [h']
    have a1 : 0 ≤ M * C k g := mul_nonneg hM.le (hgC k)
    have a2 : 0 < (-(C j x)) * C k p := mul_pos (by linarith) (hpC k)
    have a3 : 0 ≤ C j p * C k x := mul_nonneg (hpC j).le (hxC k hk)
    linarith

/-- L4: a row of `D` vanishing at `w` but not at `x` -/
theorem exists_row {x0 : V →ₗ[ℚ] ℚ} {e f m : ℕ}
    {A : Fin e → V →ₗ[ℚ] ℚ} {C : Fin f → V →ₗ[ℚ] ℚ} {D : Fin m → Bool × (V →ₗ[ℚ] ℚ)}
    (h : Setup x0 A C D) {w x : V} {j : Fin f}
    (h0w : 0 < x0 w) (hK : InK A C w) (hjw : C j w = 0) (hjx : C j x < 0) :
    ∃ i, (D i).2 w = 0 ∧ (D i).2 x ≠ 0 := by
  classical
  have hall := (h.same w h0w).1 hK
  obtain ⟨M1, hM1, h1⟩ := thr (fun i => if 0 < (D i).2 w then (D i).2 w else 1)
    (fun i => if 0 < (D i).2 w then (D i).2 x else 0)
    (by intro i; by_cases hh : 0 < (D i).2 w
        · simp only [if_pos hh]; exact hh
        · simp only [if_neg hh]; exact one_pos)
  obtain ⟨M2, hM2, h2⟩ := thr1 (x0 w) (x0 x) h0w
  have hq0 : 0 < x0 ((M1 + M2) • w + x) := by
    have := h2 (M1 + M2) (by linarith)
    have h' : x0 ((M1 + M2) • w + x) = (M1 + M2) * x0 w + x0 x := by
      simp [map_add, map_smul, smul_eq_mul]
    rw [h']; exact this
  have hnK : ¬ InK A C ((M1 + M2) • w + x) := by
    intro hq
    have := hq.2 j
    have h' : C j ((M1 + M2) • w + x) = C j x := by
      simp [map_add, map_smul, hjw]
    rw [h'] at this; linarith
  have hnall : ¬ ∀ i, Holds (D i) ((M1 + M2) • w + x) := fun hh => hnK ((h.same _ hq0).2 hh)
  obtain ⟨i, hi⟩ := not_forall.1 hnall
  have hq : (D i).2 ((M1 + M2) • w + x) = (M1 + M2) * (D i).2 w + (D i).2 x := by
    simp [map_add, map_smul, smul_eq_mul]
  have hw0 : (D i).2 w = 0 := by
    by_contra hne
    have hiw := hall i
    unfold Holds at hiw hi
    by_cases hb : (D i).1 = true
    · rw [if_pos hb] at hiw; exact hne hiw
    · rw [if_neg hb] at hiw hi
      have hpos : 0 < (D i).2 w := lt_of_le_of_ne hiw (Ne.symm hne)
      have := h1 (M1 + M2) (by linarith) i
      simp only [if_pos hpos] at this
      apply hi; rw [hq]; exact this.le
  refine ⟨i, hw0, ?_⟩
  intro hx0
  apply hi
  unfold Holds
  rw [hq, hw0, hx0]
  simp

/-- L5: a row not vanishing on `ker A` does not vanish on `K ∩ H` -/
theorem not_vanish_of_ne {x0 : V →ₗ[ℚ] ℚ} {e f m : ℕ}
    {A : Fin e → V →ₗ[ℚ] ℚ} {C : Fin f → V →ₗ[ℚ] ℚ} {D : Fin m → Bool × (V →ₗ[ℚ] ℚ)}
    (h : Setup x0 A C D) {d : V →ₗ[ℚ] ℚ} {x : V} (hxA : ∀ i, A i x = 0) (hne : d x ≠ 0) :
    ¬ Vanish x0 A C d := by
  intro hv
  obtain ⟨p, hp0, hpA, hpC⟩ := h.pstar
  obtain ⟨M, _, ⟨hq0, hqK⟩, _⟩ := absorb hp0 hpA hpC hxA
  have e1 := hv _ hq0 hqK
  have e2 := hv p hp0 ⟨hpA, fun j => (hpC j).le⟩
  apply hne
  simpa [map_add, map_smul, e2] using e1

/-- the per-facet data, bundled -/
theorem per_facet {x0 : V →ₗ[ℚ] ℚ} {e f m : ℕ}
    {A : Fin e → V →ₗ[ℚ] ℚ} {C : Fin f → V →ₗ[ℚ] ℚ} {D : Fin m → Bool × (V →ₗ[ℚ] ℚ)}
    (h : Setup x0 A C D) (j : Fin f) :
    ∃ (w x : V) (i : Fin m), (∀ i, A i x = 0) ∧ 0 < x0 w ∧ (∀ i, A i w = 0) ∧ C j w = 0 ∧
      (∀ k, k ≠ j → 0 < C k w) ∧ (D i).2 w = 0 ∧ (D i).2 x ≠ 0 := by
  obtain ⟨w, x, hxA, hxj, hw0, hwA, hwj, hwk⟩ := facet_interior h j
  have hK : InK A C w := by
    refine ⟨hwA, fun k => ?_⟩
    by_cases hk : k = j
    · rw [hk, hwj]
    · exact (hwk k hk).le
  obtain ⟨i, hi1, hi2⟩ := exists_row h hw0 hK hwj hxj
  exact ⟨w, x, i, hxA, hw0, hwA, hwj, hwk, hi1, hi2⟩

/-- L6: distinct facets get distinct non-vanishing rows -/
theorem facets_inj {x0 : V →ₗ[ℚ] ℚ} {e f m : ℕ}
    {A : Fin e → V →ₗ[ℚ] ℚ} {C : Fin f → V →ₗ[ℚ] ℚ} {D : Fin m → Bool × (V →ₗ[ℚ] ℚ)}
    (h : Setup x0 A C D) :
    ∃ σ : Fin f → Fin m, Function.Injective σ ∧ ∀ j, ¬ Vanish x0 A C (D (σ j)).2 := by
  choose w x σ hxA hw0 hwA hwj hwk hdw hdx using per_facet h
  refine ⟨σ, ?_, fun j => not_vanish_of_ne h (hxA j) (hdx j)⟩
  intro j k hjk
  by_contra hne
  have hkj : k ≠ j := fun hh => hne hh.symm
  have m0 : 0 < x0 (w j + w k) := by
    rw [map_add]; have := hw0 j; have := hw0 k; linarith
  have mA : ∀ i, A i (w j + w k) = 0 := by
    intro i; rw [map_add, hwA j i, hwA k i, add_zero]
  have mC : ∀ l, 0 < C l (w j + w k) := by
    intro l
    rw [map_add]
    by_cases hlj : l = j
    · have := hwk k l (by rw [hlj]; exact hne)
      rw [hlj] at this ⊢
      rw [hwj j]; linarith
    · by_cases hlk : l = k
      · have := hwk j l hlj
        rw [hlk] at this ⊢
        rw [hwj k]; linarith
      · have := hwk j l hlj
        have := hwk k l hlk
        linarith
  have mD : (D (σ j)).2 (w j + w k) = 0 := by
    rw [map_add, hdw j]
    have := hdw k
    rw [← hjk] at this
    rw [this, add_zero]
  have hd : ∀ v, 0 < x0 v → InK A C v → Holds (D (σ j)) v :=
    fun v hv hK => (h.same v hv).1 hK (σ j)
  exact hdx j (row_zero_of_interior hd m0 mA mC mD (x j) (hxA j))

end PPLV.Widen.Impl.Abs
