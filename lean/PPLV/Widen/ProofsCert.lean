import PPLV.Widen.Model
import Mathlib.Order.WellFounded
import Mathlib.Order.RelClasses
import Mathlib.Tactic.SplitIfs

/-!
# C08 — the certificate orders are well-founded; laws of the three `compare(cert)` methods
-/
namespace PPLV.Widen

/-! ### `cmpStep` / `cmpVec` -/

theorem cmpStep_lt (a b : Nat) (k : Ordering) :
    cmpStep a b k = .lt ↔ a < b ∨ (a = b ∧ k = .lt) := by
  unfold cmpStep
  split_ifs with h1 h2
  · simp; omega
  · simp; omega
  · simp at h1; simp [h1]

theorem cmpStep_gt (a b : Nat) (k : Ordering) :
    cmpStep a b k = .gt ↔ b < a ∨ (a = b ∧ k = .gt) := by
  unfold cmpStep
  split_ifs with h1 h2
  · simp; omega
  · simp; omega
  · simp at h1; simp [h1]

theorem cmpStep_eq (a b : Nat) (k : Ordering) :
    cmpStep a b k = .eq ↔ (a = b ∧ k = .eq) := by
  unfold cmpStep
  split_ifs with h1 h2
  · simp; omega
  · simp; omega
  · simp at h1; simp [h1]

theorem cmpVec_swap : ∀ (a b : List Nat), cmpVec a b = .gt ↔ cmpVec b a = .lt
  | [], _ => by simp [cmpVec]
  | _ :: _, [] => by simp [cmpVec]
  | x :: as, y :: bs => by
    simp only [cmpVec, cmpStep_gt, cmpStep_lt, cmpVec_swap as bs]
    constructor <;> (rintro (h | ⟨h1, h2⟩); exact Or.inl h; exact Or.inr ⟨h1.symm, h2⟩)

theorem cmpVec_eq : ∀ (a b : List Nat), a.length = b.length → (cmpVec a b = .eq ↔ a = b)
  | [], [], _ => by simp [cmpVec]
  | [], _ :: _, h => by simp at h
  | _ :: _, [], h => by simp at h
  | x :: as, y :: bs, h => by
    have hl : as.length = bs.length := by simpa using h
    simp [cmpVec, cmpStep_eq, cmpVec_eq as bs hl]

theorem cmpVec_trans : ∀ (a b c : List Nat), a.length = b.length → b.length = c.length →
    cmpVec a b = .lt → cmpVec b c = .lt → cmpVec a c = .lt
  | [], _, _, _, _, h, _ => by simp [cmpVec] at h
  | _ :: _, [], _, _, _, h, _ => by simp [cmpVec] at h
  | _ :: _, _ :: _, [], _, _, _, h => by simp [cmpVec] at h
  | x :: as, y :: bs, z :: cs, h1, h2, h3, h4 => by
    have hl1 : as.length = bs.length := by simpa using h1
    have hl2 : bs.length = cs.length := by simpa using h2
    simp only [cmpVec, cmpStep_lt] at h3 h4 ⊢
    rcases h3 with h3 | ⟨e3, h3⟩ <;> rcases h4 with h4 | ⟨e4, h4⟩
    · exact Or.inl (by omega)
    · exact Or.inl (by omega)
    · exact Or.inl (by omega)
    · exact Or.inr ⟨by omega, cmpVec_trans as bs cs hl1 hl2 h3 h4⟩

theorem cmpVecPh_gt : ∀ (p c : List Nat), cmpVecPh p c = .gt ↔ cmpVec p c = .lt
  | [], _ => by simp [cmpVec, cmpVecPh]
  | _ :: _, [] => by simp [cmpVec, cmpVecPh]
  | x :: as, y :: bs => by
    simp only [cmpVecPh, cmpVec, cmpStep_lt]
    split_ifs with h1 h2
    · simp; omega
    · simp; omega
    · simp at h1; simp [h1, cmpVecPh_gt as bs]

/-- lexicographic order on vectors of a fixed length, as `cmpVec` induces it -/
def VecLT (n : Nat) (a b : List Nat) : Prop := a.length = n ∧ b.length = n ∧ cmpVec a b = .lt

theorem vecLT_wf : ∀ n, WellFounded (VecLT n)
  | 0 => ⟨fun a => Acc.intro a fun b h => by
      obtain ⟨h1, _, h3⟩ := h
      have : b = [] := List.length_eq_zero_iff.mp h1
      subst this; simp [cmpVec] at h3⟩
  | n + 1 => by
    have ih := vecLT_wf n
    have wfP : WellFounded (Prod.Lex (· < · : Nat → Nat → Prop) (VecLT n)) :=
      WellFounded.prod_lex Nat.lt_wfRel.wf ih
    refine Subrelation.wf (r := InvImage (Prod.Lex (· < ·) (VecLT n)) (fun l : List Nat => (l.headD 0, l.tail)))
      ?_ (InvImage.wf _ wfP)
    intro a b h
    obtain ⟨h1, h2, h3⟩ := h
    match a, b, h1, h2, h3 with
    | x :: as, y :: bs, h1, h2, h3 =>
      simp only [cmpVec, cmpStep_lt] at h3
      simp only [InvImage, List.headD_cons, List.tail_cons]
      rcases h3 with h3 | ⟨e, h3⟩
      · exact Prod.Lex.left _ _ h3
      · subst e
        exact Prod.Lex.right _ ⟨by simpa using h1, by simpa using h2, h3⟩

theorem lex_mk {α β : Type} {ra : α → α → Prop} {rb : β → β → Prop} {a a' : α} {b b' : β}
    (h : ra a a' ∨ (a = a' ∧ rb b b')) : Prod.Lex ra rb (a, b) (a', b') := by
  rcases h with h | ⟨e, h⟩
  · exact Prod.Lex.left _ _ h
  · subst e; exact Prod.Lex.right _ h

/-! ### H79 -/

theorem H79Cert.compare_lt (a b : H79Cert) :
    a.compare b = .lt ↔ a.affineDim < b.affineDim ∨
      (a.affineDim = b.affineDim ∧ a.numConstraints < b.numConstraints) := by
  simp [H79Cert.compare, cmpStep_lt]

/-- the order in which `is_cert_multiset_stabilizing` uses `H79_Certificate::compare(cert)` -/
theorem h79_compare_wf : WellFounded (fun a b : H79Cert => a.compare b = .lt) := by
  have wfP : WellFounded (Prod.Lex (· < · : Nat → Nat → Prop) (· < · : Nat → Nat → Prop)) :=
    WellFounded.prod_lex Nat.lt_wfRel.wf Nat.lt_wfRel.wf
  refine Subrelation.wf (r := InvImage _ (fun c : H79Cert => (c.affineDim, c.numConstraints))) ?_
    (InvImage.wf _ wfP)
  intro a b h
  exact lex_mk ((H79Cert.compare_lt a b).mp h)

theorem H79Cert.comparePh_gt (c p : H79Cert) :
    c.comparePh p = .gt ↔ c.affineDim < p.affineDim ∨
      (¬ c.affineDim < p.affineDim ∧ p.numConstraints < c.numConstraints) := by
  unfold H79Cert.comparePh
  split_ifs with h1 h2 h3 <;> simp <;> omega

/-- "new certificate strictly smaller" as `H79_widening` / `BHZ03` test it through `compare(ph)`,
    together with what the code asserts (`ph ⊇ *this`, so the affine dimension does not decrease)
    and the bound `affine_dim ≤ space_dim` -/
def H79Cert.LessPh (n : Nat) (new old : H79Cert) : Prop :=
  old.comparePh new = .gt ∧ old.affineDim ≤ new.affineDim ∧ new.affineDim ≤ n

theorem h79_comparePh_wf (n : Nat) : WellFounded (H79Cert.LessPh n) := by
  have wfP : WellFounded (Prod.Lex (· < · : Nat → Nat → Prop) (· < · : Nat → Nat → Prop)) :=
    WellFounded.prod_lex Nat.lt_wfRel.wf Nat.lt_wfRel.wf
  refine Subrelation.wf (r := InvImage _ (fun c : H79Cert => (n - c.affineDim, c.numConstraints))) ?_
    (InvImage.wf _ wfP)
  intro a b h
  obtain ⟨h1, h2, h3⟩ := h
  rw [H79Cert.comparePh_gt] at h1
  apply lex_mk
  rcases h1 with h1 | ⟨h1, h1'⟩
  · exact Or.inl (by omega)
  · exact Or.inr ⟨by omega, h1'⟩

theorem H79Cert.compare_eq (a b : H79Cert) : a.compare b = .eq ↔ a = b := by
  cases a; cases b
  simp [H79Cert.compare, cmpStep_eq]

theorem H79Cert.compare_swap (a b : H79Cert) : a.compare b = .gt ↔ b.compare a = .lt := by
  simp only [H79Cert.compare, cmpStep_gt, cmpStep_lt]
  constructor <;> (rintro (h | ⟨h1, h2 | ⟨h2, h3⟩⟩)
                   · exact Or.inl h
                   · exact Or.inr ⟨h1.symm, Or.inl h2⟩
                   · simp at h3)

theorem H79Cert.compare_trans (a b c : H79Cert) :
    a.compare b = .lt → b.compare c = .lt → a.compare c = .lt := by
  simp only [H79Cert.compare_lt]; omega

/-! ### Grid -/

theorem GridCert.compare_lt (a b : GridCert) :
    a.compare b = .lt ↔ a.numEqualities < b.numEqualities ∨
      (a.numEqualities = b.numEqualities ∧ a.numProperCongruences < b.numProperCongruences) := by
  unfold GridCert.compare
  split_ifs with h1 h2 h3 h4 <;> simp <;> omega

theorem GridCert.compare_gt (a b : GridCert) :
    a.compare b = .gt ↔ b.numEqualities < a.numEqualities ∨
      (a.numEqualities = b.numEqualities ∧ b.numProperCongruences < a.numProperCongruences) := by
  unfold GridCert.compare
  split_ifs with h1 h2 h3 h4 <;> simp <;> omega

theorem grid_compare_wf : WellFounded (fun a b : GridCert => a.compare b = .lt) := by
  have wfP : WellFounded (Prod.Lex (· < · : Nat → Nat → Prop) (· < · : Nat → Nat → Prop)) :=
    WellFounded.prod_lex Nat.lt_wfRel.wf Nat.lt_wfRel.wf
  refine Subrelation.wf (r := InvImage _ (fun c : GridCert => (c.numEqualities, c.numProperCongruences))) ?_
    (InvImage.wf _ wfP)
  intro a b h
  exact lex_mk ((GridCert.compare_lt a b).mp h)

/-- "new strictly smaller" as the grid widenings' certificate is used: `old.compare(new_grid) == 1` -/
theorem grid_comparePh_wf : WellFounded (fun new old : GridCert => old.comparePh new = .gt) := by
  refine Subrelation.wf (r := fun a b : GridCert => a.compare b = .lt) ?_ grid_compare_wf
  intro a b h
  simp only [GridCert.comparePh, GridCert.compare_gt] at h
  rw [GridCert.compare_lt]
  omega

theorem GridCert.compare_eq (a b : GridCert) : a.compare b = .eq ↔ a = b := by
  cases a; cases b
  unfold GridCert.compare
  split_ifs with h1 h2 h3 <;> simp_all

theorem GridCert.compare_swap (a b : GridCert) : a.compare b = .gt ↔ b.compare a = .lt := by
  rw [GridCert.compare_gt, GridCert.compare_lt]; omega

theorem GridCert.compare_trans (a b c : GridCert) :
    a.compare b = .lt → b.compare c = .lt → a.compare c = .lt := by
  simp only [GridCert.compare_lt]; omega

/-! ### BHRZ03 -/

theorem BHRZ03Cert.compare_lt (a b : BHRZ03Cert) :
    a.compare b = .lt ↔
      a.affineDim < b.affineDim ∨ (a.affineDim = b.affineDim ∧
      (a.linSpaceDim < b.linSpaceDim ∨ (a.linSpaceDim = b.linSpaceDim ∧
      (a.numConstraints < b.numConstraints ∨ (a.numConstraints = b.numConstraints ∧
      (a.numPoints < b.numPoints ∨ (a.numPoints = b.numPoints ∧
        cmpVec a.numRaysNullCoord b.numRaysNullCoord = .lt))))))) := by
  simp [BHRZ03Cert.compare, cmpStep_lt]

/-- `compare(cert) = -1` between certificates of the same space dimension `n` -/
def BHRZ03Cert.LessCert (n : Nat) (a b : BHRZ03Cert) : Prop :=
  a.numRaysNullCoord.length = n ∧ b.numRaysNullCoord.length = n ∧ a.compare b = .lt

abbrev Lex5 (n : Nat) :=
  Prod.Lex (· < · : Nat → Nat → Prop) (Prod.Lex (· < · : Nat → Nat → Prop)
    (Prod.Lex (· < · : Nat → Nat → Prop) (Prod.Lex (· < · : Nat → Nat → Prop) (VecLT n))))

theorem lex5_wf (n : Nat) : WellFounded (Lex5 n) :=
  WellFounded.prod_lex Nat.lt_wfRel.wf (WellFounded.prod_lex Nat.lt_wfRel.wf
    (WellFounded.prod_lex Nat.lt_wfRel.wf (WellFounded.prod_lex Nat.lt_wfRel.wf (vecLT_wf n))))

theorem bhrz03_compare_wf (n : Nat) : WellFounded (BHRZ03Cert.LessCert n) := by
  refine Subrelation.wf (r := InvImage (Lex5 n) (fun c : BHRZ03Cert =>
    (c.affineDim, c.linSpaceDim, c.numConstraints, c.numPoints, c.numRaysNullCoord))) ?_
    (InvImage.wf _ (lex5_wf n))
  intro a b h
  obtain ⟨h1, h2, h3⟩ := h
  rw [BHRZ03Cert.compare_lt] at h3
  refine lex_mk (h3.imp_right (And.imp_right fun h => lex_mk (h.imp_right (And.imp_right fun h =>
    lex_mk (h.imp_right (And.imp_right fun h => lex_mk (h.imp_right (And.imp_right fun h =>
      ⟨h1, h2, h⟩))))))))

theorem BHRZ03Cert.comparePh_gt (c p : BHRZ03Cert) :
    c.comparePh p = .gt ↔
      c.affineDim < p.affineDim ∨ (¬ c.affineDim < p.affineDim ∧
      (c.linSpaceDim < p.linSpaceDim ∨ (¬ c.linSpaceDim < p.linSpaceDim ∧
      (p.numConstraints < c.numConstraints ∨ (p.numConstraints = c.numConstraints ∧
      (p.numPoints < c.numPoints ∨ (p.numPoints = c.numPoints ∧
        cmpVec p.numRaysNullCoord c.numRaysNullCoord = .lt))))))) := by
  unfold BHRZ03Cert.comparePh
  split_ifs with h1 h2 h3 h4 h5 h6
  · simp [h1]
  · simp [h1, h2]
  · simp [h1, h2]; omega
  · simp [h1, h2]; omega
  · simp at h3; simp [h1, h2, h3]; omega
  · simp at h3; simp [h1, h2, h3]; omega
  · simp at h3 h5; simp [h1, h2, h3, h5, cmpVecPh_gt]

/-- "new certificate strictly smaller" as `BHRZ03_widening_assign` and `BHZ03_widening_assign` test it
    through `compare(ph)` (`is_stabilizing`), with the two facts the code asserts after its tests
    (`ph ⊇ *this`: affine dimension and lineality do not decrease) and the bounds by the space dimension -/
def BHRZ03Cert.LessPh (n : Nat) (new old : BHRZ03Cert) : Prop :=
  old.comparePh new = .gt ∧ old.affineDim ≤ new.affineDim ∧ new.affineDim ≤ n ∧
  old.linSpaceDim ≤ new.linSpaceDim ∧ new.linSpaceDim ≤ n ∧
  new.numRaysNullCoord.length = n ∧ old.numRaysNullCoord.length = n

theorem bhrz03_comparePh_wf (n : Nat) : WellFounded (BHRZ03Cert.LessPh n) := by
  refine Subrelation.wf (r := InvImage (Lex5 n) (fun c : BHRZ03Cert =>
    (n - c.affineDim, n - c.linSpaceDim, c.numConstraints, c.numPoints, c.numRaysNullCoord))) ?_
    (InvImage.wf _ (lex5_wf n))
  intro a b h
  obtain ⟨h1, h2, h3, h4, h5, h6, h7⟩ := h
  rw [BHRZ03Cert.comparePh_gt] at h1
  apply lex_mk
  rcases h1 with h1 | ⟨h1, h1'⟩
  · exact Or.inl (by omega)
  refine Or.inr ⟨by omega, lex_mk ?_⟩
  rcases h1' with h1' | ⟨h1', h1''⟩
  · exact Or.inl (by omega)
  refine Or.inr ⟨by omega, lex_mk ?_⟩
  exact h1''.imp_right (And.imp_right fun h => lex_mk (h.imp_right (And.imp_right fun h => ⟨h6, h7, h⟩)))

theorem BHRZ03Cert.compare_eq (a b : BHRZ03Cert)
    (hl : a.numRaysNullCoord.length = b.numRaysNullCoord.length) : a.compare b = .eq ↔ a = b := by
  cases a; cases b
  simp only [BHRZ03Cert.compare, cmpStep_eq, BHRZ03Cert.mk.injEq]
  simp only at hl
  rw [cmpVec_eq _ _ hl]

theorem BHRZ03Cert.compare_swap (a b : BHRZ03Cert) : a.compare b = .gt ↔ b.compare a = .lt := by
  simp only [BHRZ03Cert.compare, cmpStep_gt, cmpStep_lt, cmpVec_swap]
  constructor <;>
    (intro h
     rcases h with h | ⟨e1, h | ⟨e2, h | ⟨e3, h | ⟨e4, h⟩⟩⟩⟩
     · exact Or.inl h
     · exact Or.inr ⟨e1.symm, Or.inl h⟩
     · exact Or.inr ⟨e1.symm, Or.inr ⟨e2.symm, Or.inl h⟩⟩
     · exact Or.inr ⟨e1.symm, Or.inr ⟨e2.symm, Or.inr ⟨e3.symm, Or.inl h⟩⟩⟩
     · exact Or.inr ⟨e1.symm, Or.inr ⟨e2.symm, Or.inr ⟨e3.symm, Or.inr ⟨e4.symm, h⟩⟩⟩⟩)

theorem BHRZ03Cert.compare_trans (a b c : BHRZ03Cert)
    (h1 : a.numRaysNullCoord.length = b.numRaysNullCoord.length)
    (h2 : b.numRaysNullCoord.length = c.numRaysNullCoord.length) :
    a.compare b = .lt → b.compare c = .lt → a.compare c = .lt := by
  simp only [BHRZ03Cert.compare_lt]
  intro h3 h4
  have T := cmpVec_trans _ _ _ h1 h2
  rcases h3 with h3 | ⟨a1, h3⟩ <;> rcases h4 with h4 | ⟨b1, h4⟩
  · exact Or.inl (by omega)
  · exact Or.inl (by omega)
  · exact Or.inl (by omega)
  refine Or.inr ⟨by omega, ?_⟩
  rcases h3 with h3 | ⟨a2, h3⟩ <;> rcases h4 with h4 | ⟨b2, h4⟩
  · exact Or.inl (by omega)
  · exact Or.inl (by omega)
  · exact Or.inl (by omega)
  refine Or.inr ⟨by omega, ?_⟩
  rcases h3 with h3 | ⟨a3, h3⟩ <;> rcases h4 with h4 | ⟨b3, h4⟩
  · exact Or.inl (by omega)
  · exact Or.inl (by omega)
  · exact Or.inl (by omega)
  refine Or.inr ⟨by omega, ?_⟩
  rcases h3 with h3 | ⟨a4, h3⟩ <;> rcases h4 with h4 | ⟨b4, h4⟩
  · exact Or.inl (by omega)
  · exact Or.inl (by omega)
  · exact Or.inl (by omega)
  exact Or.inr ⟨by omega, T h3 h4⟩

/-! ### the two overloads -/

/-- Where they agree: on certificates with the same affine dimension and the same lineality the two
    overloads return the same value. -/
theorem BHRZ03Cert.comparePh_eq_compare_of_same_dims (c p : BHRZ03Cert)
    (h1 : c.affineDim = p.affineDim) (h2 : c.linSpaceDim = p.linSpaceDim) :
    c.comparePh p = c.compare p := by
  have hv : ∀ a b : List Nat, cmpVecPh a b = cmpVec b a := by
    intro a
    induction a with
    | nil => intro b; cases b <;> simp [cmpVecPh, cmpVec]
    | cons x as ih =>
      intro b
      cases b with
      | nil => simp [cmpVecPh, cmpVec]
      | cons y bs =>
        simp only [cmpVecPh, cmpVec, cmpStep, ih bs]
        split_ifs <;> first | rfl | omega
  unfold BHRZ03Cert.comparePh BHRZ03Cert.compare cmpStep
  rw [hv]
  split_ifs <;> first | rfl | omega

theorem H79Cert.comparePh_eq_compare_of_same_dims (c p : H79Cert)
    (h1 : c.affineDim = p.affineDim) : c.comparePh p = c.compare p := by
  unfold H79Cert.comparePh H79Cert.compare cmpStep
  split_ifs <;> first | rfl | omega

end PPLV.Widen
