import PPLV.Widen.ImplH79ProofsEngine0
import PPLV.Props.C01ConvMinimal

/-!
# C08 stage 2b — bridge from the conversion engine model (`PPLV.Conv.minimize`) to `EngineDD`

`ofEngine` reads the result of `PPLV.Conv.minimize true false (n + 1) source sat0` (closed polyhedra,
constraint-to-generator direction) as a `YMin` of `ImplH79.lean`.  This file: the glue between the two
vocabularies (`sp` / `scalarProduct`, `CRow.holdsZ` / `holds`) and the fields of `EngineDD` that follow from
the theorems of `Props/C01ConvComplete.lean` and `Props/C01ConvMinimal.lean` alone (`satG_ok`, `gens_in`,
`complete`, `hasPoint`).  `ImplH79ProofsEngineBridge2.lean` has the other fields and the assembly.
-/
namespace PPLV.Widen.Impl
open PPLV.Conv

/-- a row of the engine read as a constraint row -/
def toC (r : LRow) : CRow := { e := r.v, eq := r.le }
/-- a row of the engine read as a generator row -/
def toG (r : LRow) : GRow := { e := r.v, line := r.le }

/-- the result of `minimize` (constraints to generators) as the `(con_sys, gen_sys, sat_g)` of `ImplH79` -/
def ofEngine (m : PPLV.Conv.MinResult) : YMin :=
  let cs := m.source.map fun r => ({ e := r.v, eq := r.le } : CRow)
  let gs := m.dest.map fun r => ({ e := r.v, line := r.le } : GRow)
  { conSys := cs, genSys := gs, satG := cs.map fun c => satRow c gs }

theorem ofEngine_conSys (m : MinResult) : (ofEngine m).conSys = m.source.map toC := rfl
theorem ofEngine_genSys (m : MinResult) : (ofEngine m).genSys = m.dest.map toG := rfl
theorem ofEngine_satG (m : MinResult) :
    (ofEngine m).satG = (ofEngine m).conSys.map fun c => satRow c (ofEngine m).genSys := rfl

/-! ## glue -/

theorem sp_eq_scalarProduct (a b : List Int) : sp a b = scalarProduct a b := by
  induction a generalizing b with
  | nil => simp [sp, scalarProduct]
  | cons x xs ih =>
    cases b with
    | nil => simp [sp, scalarProduct]
    | cons y ys => simp [sp, scalarProduct, ih]

theorem scalarProduct_neg_right (a b : List Int) : scalarProduct a (b.map (- ·)) = - scalarProduct a b := by
  induction a generalizing b with
  | nil => simp [scalarProduct]
  | cons x xs ih =>
    cases b with
    | nil => simp [scalarProduct]
    | cons y ys =>
      simp only [List.map_cons, scalarProduct, ih]
      ring

theorem scalarProduct_replicate_zero (k : Nat) (a : List Int) : scalarProduct a (List.replicate k 0) = 0 := by
  induction k generalizing a with
  | zero => cases a <;> simp [scalarProduct]
  | succ k ih =>
    cases a with
    | nil => simp [scalarProduct]
    | cons x xs => simp [List.replicate_succ, scalarProduct, ih]

theorem scalarProduct_pad (k : Nat) (a b : List Int) :
    scalarProduct a (b ++ List.replicate k 0) = scalarProduct a b := by
  induction b generalizing a with
  | nil =>
    cases a <;> simp [scalarProduct, scalarProduct_replicate_zero]
  | cons y ys ih =>
    cases a with
    | nil => simp [scalarProduct]
    | cons x xs => simp [scalarProduct, ih]

theorem holds_pad (k : Nat) (r : LRow) (x : List Int) : holds r (x ++ List.replicate k 0) ↔ holds r x := by
  unfold holds
  rw [scalarProduct_pad]

theorem holdsZ_toC (r : LRow) (v : List Int) : (toC r).holdsZ v ↔ holds r v := by
  unfold CRow.holdsZ holds toC
  simp only [sp_eq_scalarProduct]

theorem getD_map_toC (l : List LRow) (i : Nat) : (l.map toC).getD i default = toC (l.getD i default) := by
  rw [List.getD_eq_getElem?_getD, List.getD_eq_getElem?_getD, List.getElem?_map]
  cases l[i]? <;> rfl

theorem getD_map_toG (l : List LRow) (i : Nat) : (l.map toG).getD i default = toG (l.getD i default) := by
  rw [List.getD_eq_getElem?_getD, List.getD_eq_getElem?_getD, List.getElem?_map]
  cases l[i]? <;> rfl

theorem getElem_map_toG (l : List LRow) (i : Nat) (h : i < (l.map toG).length) :
    (l.map toG)[i] = toG (l[i]'(by simpa using h)) := by simp

/-! ## the engine facts in one place -/

/-- `minimize(...).dest` is the `dest` of the conversion -/
theorem minimize_dest_eq (nnc : Bool) (ncols : Nat) (source : List LRow) (sat0 : List BRow) :
    (minimize true nnc ncols source sat0).dest = (conversion ncols source 0 (identityLines ncols)
      (List.replicate ncols (List.replicate source.length false)) ncols).dest := by
  unfold minimize
  simp only
  split <;> rfl

theorem minimize_dest_length_le (nnc : Bool) (ncols : Nat) (source : List LRow) (sat0 : List BRow) :
    ∀ g ∈ (minimize true nnc ncols source sat0).dest, g.v.length ≤ ncols := by
  rw [minimize_dest_eq]
  exact conversion_identity_length ncols source

/-- every generator satisfies every row of the MINIMISED system (soundness is stated for the rows given to
`minimize`; `simplify` replaces rows by combinations: go through `minimize_same_set`). -/
theorem minimize_sound_min (ncols : Nat) (source : List LRow) (sat0 : List BRow)
    (hsz : ncols < 2 ^ 64) (hsrc : source.length < 2 ^ 64)
    (hne : (minimize true false ncols source sat0).empty = false) :
    Sound (minimize true false ncols source sat0).source (minimize true false ncols source sat0).dest := by
  intro d hd s hs
  have hS : ∀ s ∈ source, satisfies s d := C01.minimize_dest_sound true false ncols source sat0 d hd
  have hdl := minimize_dest_length_le false ncols source sat0 d hd
  have hsame := C01.minimize_same_set false ncols source sat0 hsz hsrc hne
  have h1 : holdsAll source d.v := by
    intro s' hs'
    have := hS s' hs'
    unfold satisfies at this
    unfold holds
    cases h1 : s'.le <;> cases h2 : d.le <;> simp [h1, h2] at this ⊢ <;> omega
  have h2 := (hsame d.v hdl).mpr h1 s hs
  unfold satisfies
  unfold holds at h2
  cases hl : d.le
  · cases hsl : s.le <;> simp [hsl] at h2 ⊢ <;> exact h2
  · have h3 : holdsAll source (d.v.map (- ·)) := by
      intro s' hs'
      have := hS s' hs'
      unfold satisfies at this
      unfold holds
      rw [scalarProduct_neg_right]
      simp [hl] at this
      simp [this]
    have h4 := (hsame (d.v.map (- ·)) (by simpa using hdl)).mpr h3 s hs
    unfold holds at h4
    rw [scalarProduct_neg_right] at h4
    cases hsl : s.le <;> simp [hsl] at h2 h4 ⊢ <;> omega

theorem engine_gens_in (ncols : Nat) (source : List LRow) (sat0 : List BRow)
    (hsz : ncols < 2 ^ 64) (hsrc : source.length < 2 ^ 64)
    (hne : (minimize true false ncols source sat0).empty = false) :
    let y := ofEngine (minimize true false ncols source sat0)
    ∀ g ∈ y.genSys, ∀ c ∈ y.conSys, if c.eq || g.line then sp c.e g.e = 0 else 0 ≤ sp c.e g.e := by
  intro y g hg c hc
  rw [ofEngine_genSys] at hg
  rw [ofEngine_conSys] at hc
  obtain ⟨d, hd, rfl⟩ := List.mem_map.mp hg
  obtain ⟨s, hs, rfl⟩ := List.mem_map.mp hc
  have := minimize_sound_min ncols source sat0 hsz hsrc hne d hd s hs
  unfold satisfies at this
  simpa [toC, toG, sp_eq_scalarProduct] using this

theorem engine_complete (n : Nat) (source : List LRow) (sat0 : List BRow)
    (hsz : n + 1 < 2 ^ 64) (hsrc : source.length < 2 ^ 64)
    (hne : (minimize true false (n + 1) source sat0).empty = false) :
    let y := ofEngine (minimize true false (n + 1) source sat0)
    ∀ v : Vec, v.length = n + 1 → (∀ c ∈ y.conSys, c.holdsZ v) →
    ∃ (den : Int) (coef : List Int), 0 < den ∧ coef.length = y.genSys.length ∧
      (∀ i (h : i < y.genSys.length), y.genSys[i].line = false → 0 ≤ coef.getD i 0) ∧
      ∀ c : Vec, den * sp c v =
        ((List.range y.genSys.length).map fun i => coef.getD i 0 * sp c (y.genSys.getD i default).e).sum := by
  intro y v hv hall
  have h1 : holdsAll (minimize true false (n + 1) source sat0).source v := by
    intro s hs
    exact (holdsZ_toC s v).mp (hall (toC s) (by rw [ofEngine_conSys]; exact List.mem_map_of_mem hs))
  have h2 := (C01.minimize_same_set false (n + 1) source sat0 hsz hsrc hne v (by omega)).mp h1
  have h3 := C01.conversion_complete (n + 1) source hsz hsrc v (by omega) h2
  rw [← minimize_dest_eq false (n + 1) source sat0] at h3
  obtain ⟨den, coef, hden, hlen, hnn, hsum⟩ := h3
  have hgl : y.genSys.length = (minimize true false (n + 1) source sat0).dest.length := by
    show ((minimize true false (n + 1) source sat0).dest.map toG).length = _
    rw [List.length_map]
  refine ⟨den, coef, hden, by rw [hgl]; exact hlen, ?_, ?_⟩
  · intro i hi hline
    have hi' : i < (minimize true false (n + 1) source sat0).dest.length := by rw [← hgl]; exact hi
    apply hnn i hi'
    have : y.genSys[i] = toG ((minimize true false (n + 1) source sat0).dest[i]) :=
      getElem_map_toG _ i hi
    rw [this] at hline
    exact hline
  · intro c
    rw [sp_eq_scalarProduct, hsum c, hgl]
    congr 1
    apply List.map_congr_left
    intro i _
    have : y.genSys.getD i default = toG ((minimize true false (n + 1) source sat0).dest.getD i default) :=
      getD_map_toG _ i
    rw [this, sp_eq_scalarProduct]
    rfl

theorem engine_hasPoint (ncols : Nat) (source : List LRow) (sat0 : List BRow)
    (hsz : ncols < 2 ^ 64) (hsrc : source.length < 2 ^ 64)
    (hne : (minimize true false ncols source sat0).empty = false) :
    let y := ofEngine (minimize true false ncols source sat0)
    ∃ g ∈ y.genSys, g.line = false ∧ 0 < g.e.headD 0 := by
  intro y
  have hp := PPLV.Conv.minimize_hasPoint false ncols source sat0 hne
  obtain ⟨_, hlf, _⟩ := C01.conversion_dd_pair ncols source hsz hsrc
  rw [← minimize_dest_eq false ncols source sat0] at hp hlf
  unfold hasPoint at hp
  rw [List.any_eq_true] at hp
  obtain ⟨r, hr, hd⟩ := hp
  have h1 : r.v.getD 0 0 > 0 := by simpa using hd
  obtain ⟨i, hi, rfl⟩ := List.mem_iff_getElem.mp hr
  rw [List.getElem_drop] at h1
  rw [List.length_drop] at hi
  generalize hk : (conversion ncols source 0 (identityLines ncols)
      (List.replicate ncols (List.replicate source.length false)) ncols).nle = k at *
  have hki : k + i < (minimize true false ncols source sat0).dest.length := by omega
  refine ⟨toG ((minimize true false ncols source sat0).dest[k + i]), ?_, ?_, ?_⟩
  · rw [ofEngine_genSys]; exact List.mem_map_of_mem (List.getElem_mem hki)
  · show ((minimize true false ncols source sat0).dest[k + i]).le = false
    rw [hlf _ hki]
    simp
  · show 0 < ((minimize true false ncols source sat0).dest[k + i]).v.headD 0
    revert h1
    cases ((minimize true false ncols source sat0).dest[k + i]).v <;> simp

end PPLV.Widen.Impl
