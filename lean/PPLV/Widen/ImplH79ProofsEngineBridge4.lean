import PPLV.Widen.ImplH79ProofsEngineBridge3
import PPLV.Widen.ImplH79ProofsEngineFacet1

/-!
# C08 stage 2b — `GPos` of the result of the engine's `minimize`

The positivity constraint `d ≥ 0` (row `(1, 0, …, 0)`) is a row of every closed constraint system of PPL;
every generator `conversion` returns satisfies every source row (`C01.minimize_dest_sound`), and the scalar
product of `(1, 0, …, 0)` with a generator is its column 0: `= 0` for a line, `≥ 0` otherwise.
-/
namespace PPLV.Widen.Impl
open PPLV.Conv

theorem scalarProduct_replicate_zero_left (k : Nat) (b : List Int) :
    scalarProduct (List.replicate k 0) b = 0 := by
  induction k generalizing b with
  | zero => simp [scalarProduct]
  | succ k ih =>
    cases b with
    | nil => simp [List.replicate_succ, scalarProduct]
    | cons y ys => simp [List.replicate_succ, scalarProduct, ih]

theorem scalarProduct_unit0 (k : Nat) (b : List Int) :
    scalarProduct (1 :: List.replicate k 0) b = b.headD 0 := by
  cases b with
  | nil => simp [scalarProduct]
  | cons y ys => simp [scalarProduct, scalarProduct_replicate_zero_left]

/-- **`gpos_of_minimize`** — column 0 of the generators returned: `0` on lines, `≥ 0` on the others, when the
positivity constraint is a row of the source. -/
theorem gpos_of_minimize (n : Nat) (source : List PPLV.Conv.LRow) (sat0 : List PPLV.Conv.BRow)
    (_hsz : n + 1 < 2 ^ 64) (_hsrc : source.length < 2 ^ 64)
    (_hlen : ∀ s ∈ source, s.v.length = n + 1)
    (_hne : (PPLV.Conv.minimize true false (n + 1) source sat0).empty = false)
    (hpos : (⟨false, 1 :: List.replicate n 0⟩ : PPLV.Conv.LRow) ∈ source) :
    GPos (ofEngine (PPLV.Conv.minimize true false (n + 1) source sat0)) := by
  intro g hg
  rw [ofEngine_genSys] at hg
  obtain ⟨d, hd, rfl⟩ := List.mem_map.mp hg
  have h := C01.minimize_dest_sound true false (n + 1) source sat0 d hd _ hpos
  unfold satisfies at h
  rw [scalarProduct_unit0] at h
  show if d.le then d.v.headD 0 = 0 else 0 ≤ d.v.headD 0
  cases hl : d.le <;> simpa [hl] using h

/-- non-vacuity: the segment `0 ≤ x ≤ 3` with its positivity constraint. -/
example : GPos (ofEngine (minimize true false 2 [⟨false, [0, 1]⟩, ⟨false, [3, -1]⟩, ⟨false, [1, 0]⟩] [])) :=
  gpos_of_minimize 1 _ [] (by norm_num) (by simp) (by decide) (by decide) (by decide)

end PPLV.Widen.Impl
