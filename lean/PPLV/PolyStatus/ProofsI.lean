import PPLV.PolyStatus.ProofsH
/-!
# C01 stage 2 — proofs, part I: two objects (possibly the same one); the binary observers
-/
namespace PPLV.PolyStatus
open PState Two

/-- both objects satisfy the invariant. -/
structure TwoOK (c : Two) : Prop where
  x : Inv c.x
  y : Inv c.gy

/-- a binary observer's effect: both objects are re-represented, nothing else. -/
structure Obs2 (c d : Two) : Prop where
  x : Obs c.x d.x
  y : Obs c.gy d.gy
  al : d.al = c.al

theorem Obs2.ok {c d : Two} (h : Obs2 c d) : TwoOK d := ⟨h.x.inv, h.y.inv⟩
theorem Obs2.refl {c : Two} (h : TwoOK c) : Obs2 c c := ⟨Obs.refl h.x, Obs.refl h.y, rfl⟩
theorem Obs2.trans {c d e : Two} (h1 : Obs2 c d) (h2 : Obs2 d e) : Obs2 c e :=
  ⟨h1.x.trans h2.x, h1.y.trans h2.y, h2.al.trans h1.al⟩

theorem gy_onX (f : PState → PState) (c : Two) : (onX f c).gy = if c.al then f c.x else c.gy := by
  cases hal : c.al <;> simp [onX, gy, hal]
theorem gy_onY (f : PState → PState) (c : Two) : (onY f c).gy = f c.gy := by
  cases hal : c.al <;> simp [onY, gy, hal]
theorem x_onY (f : PState → PState) (c : Two) : (onY f c).x = if c.al then f c.x else c.x := by
  cases hal : c.al <;> simp [onY, hal]

theorem onX_obs2 (f : PState → PState) (c : Two) (h : TwoOK c) (hf : Obs c.x (f c.x)) : Obs2 c (onX f c) := by
  refine ⟨hf, ?_, rfl⟩
  rw [gy_onX]
  cases hal : c.al
  · simpa using Obs.refl h.y
  · simpa [gy, hal] using hf

theorem onY_obs2 (f : PState → PState) (c : Two) (h : TwoOK c) (hf : Obs c.gy (f c.gy)) : Obs2 c (onY f c) := by
  refine ⟨?_, by rw [gy_onY]; exact hf, by cases hal : c.al <;> simp [onY, hal]⟩
  rw [x_onY]
  cases hal : c.al
  · simpa using Obs.refl h.x
  · simpa [gy, hal] using hf

theorem onXb_eq (f : PState → Bool × PState) (c : Two) :
    (onXb f c).2 = onX (fun s => (f s).2) c ∧ (onXb f c).1 = (f c.x).1 := ⟨rfl, rfl⟩
theorem onYb_eq (f : PState → Bool × PState) (c : Two) :
    (onYb f c).2 = onY (fun s => (f s).2) c ∧ (onYb f c).1 = (f c.gy).1 := by
  cases hal : c.al <;> simp [onYb, onY, gy, hal]

theorem osg_obs (s : PState) (h : Inv s) (hg : s.b .gup = true) (he : s.b .em = false) :
    Obs s (obtainSortedGenerators s) ∧ (obtainSortedGenerators s).b .gup = true
    ∧ (obtainSortedGenerators s).b .em = false := by
  obtain ⟨h1, _, h3⟩ := osg_spec s h hg he
  exact ⟨⟨h1, h3.mono satFlds_sub⟩, by rw [h3.b _ (by decide)]; exact hg, by rw [h3.b _ (by decide)]; exact he⟩

theorem osc_obs (s : PState) (h : Inv s) (hc : s.b .cup = true) (he : s.b .em = false) :
    Obs s (obtainSortedConstraints s) ∧ (obtainSortedConstraints s).b .cup = true
    ∧ (obtainSortedConstraints s).b .em = false := by
  obtain ⟨h1, _, h3⟩ := osc_spec s h hc he
  exact ⟨⟨h1, h3.mono satFlds_sub⟩, by rw [h3.b _ (by decide)]; exact hc, by rw [h3.b _ (by decide)]; exact he⟩

/-- an observer applied to both objects (twice to the same one when they are aliased). -/
theorem onBoth_obs2 (f : PState → PState) (P : PState → Prop) (c : Two) (h : TwoOK c) (hx : P c.x) (hy : P c.gy)
    (hf : ∀ s, Inv s → P s → Obs s (f s) ∧ P (f s)) :
    Obs2 c (onY f (onX f c)) ∧ P (onY f (onX f c)).x ∧ P (onY f (onX f c)).gy := by
  have o1 := onX_obs2 f c h (hf _ h.x hx).1
  have hP : P (onX f c).gy := by
    rw [gy_onX]
    cases hal : c.al
    · simpa using hy
    · simpa using (hf _ h.x hx).2
  have hPx : P (onX f c).x := (hf _ h.x hx).2
  refine ⟨o1.trans (onY_obs2 _ _ o1.ok (hf _ o1.ok.y hP).1), ?_, ?_⟩
  · rw [x_onY]
    cases hal : (onX f c).al
    · simpa using hPx
    · have : (onX f c).gy = (onX f c).x := by simp [gy, hal]
      simpa [this] using (hf _ o1.ok.y hP).2
  · rw [gy_onY]; exact (hf _ o1.ok.y hP).2

theorem Inv.gmin_gup {s : PState} (h : Inv s) (he : s.b .em = false) (hm : s.b .gmin = true) : s.b .gup = true := by
  spec_tac [] using []
theorem Inv.cmin_cup {s : PState} (h : Inv s) (he : s.b .em = false) (hm : s.b .cmin = true) : s.b .cup = true := by
  spec_tac [] using []

/-- `quick_equivalence_test`. -/
theorem quickEquivalenceTest_obs2 (q : GhQ) (c : Two) (h : TwoOK c) (hx : c.x.b .em = false)
    (hy : c.gy.b .em = false) :
    Obs2 c (quickEquivalenceTest q c).2 ∧ (quickEquivalenceTest q c).2.x.b .em = false
    ∧ (quickEquivalenceTest q c).2.gy.b .em = false := by
  unfold quickEquivalenceTest
  simp only
  split
  · split
    · next hq hg =>
      have hgx : c.x.b .gmin = true := by simp at hg; exact hg.1.2
      have hgy : c.gy.b .gmin = true := by simp at hg; exact hg.2
      obtain ⟨o, p1, p2⟩ := onBoth_obs2 obtainSortedGenerators (fun s => s.b .gup = true ∧ s.b .em = false) c h
        ⟨h.x.gmin_gup hx hgx, hx⟩ ⟨h.y.gmin_gup hy hgy, hy⟩
        (fun s hs hp => ⟨(osg_obs s hs hp.1 hp.2).1, (osg_obs s hs hp.1 hp.2).2⟩)
      exact ⟨o, p1.2, p2.2⟩
    split
    · next hq hg hc =>
      have hcx : c.x.b .cmin = true := by simp at hc; exact hc.1.2
      have hcy : c.gy.b .cmin = true := by simp at hc; exact hc.2
      obtain ⟨o, p1, p2⟩ := onBoth_obs2 obtainSortedConstraints (fun s => s.b .cup = true ∧ s.b .em = false) c h
        ⟨h.x.cmin_cup hx hcx, hx⟩ ⟨h.y.cmin_cup hy hcy, hy⟩
        (fun s hs hp => ⟨(osc_obs s hs hp.1 hp.2).1, (osc_obs s hs hp.1 hp.2).2⟩)
      exact ⟨o, p1.2, p2.2⟩
    · exact ⟨Obs2.refl h, hx, hy⟩
  · exact ⟨Obs2.refl h, hx, hy⟩

/-- both objects satisfy the invariant, are not marked empty and have positive dimension. -/
structure Live2 (c : Two) : Prop where
  ok : TwoOK c
  xe : c.x.b .em = false
  ye : c.gy.b .em = false
  xd : c.x.dim ≠ 0
  yd : c.gy.dim ≠ 0

/-- a (possibly emptiness-detecting) observer applied to the first object. -/
theorem liveX (f : PState → Bool × PState) (c : Two) (hl : Live2 c)
    (hf : ∀ s, Inv s → s.b .em = false → s.dim ≠ 0 → Obs s (f s).2 ∧ ((f s).1 = true → (f s).2.b .em = false)) :
    Obs2 c (onXb f c).2 ∧ ((onXb f c).1 = true → Live2 (onXb f c).2) := by
  obtain ⟨h1, h2⟩ := hf c.x hl.ok.x hl.xe hl.xd
  have o : Obs2 c (onXb f c).2 := onX_obs2 (fun s => (f s).2) c hl.ok h1
  refine ⟨o, fun hr => ⟨o.ok, h2 hr, ?_, by rw [o.x.same.dim]; exact hl.xd, by rw [o.y.same.dim]; exact hl.yd⟩⟩
  show (onX (fun s => (f s).2) c).gy.b .em = false
  rw [gy_onX]
  cases hal : c.al
  · simpa using hl.ye
  · simpa using h2 hr

/-- an observer applied to the second object. -/
theorem liveY (f : PState → PState) (c : Two) (hl : Live2 c)
    (hf : ∀ s, Inv s → s.b .em = false → s.dim ≠ 0 → Obs s (f s) ∧ (f s).b .em = false) :
    Obs2 c (onY f c) ∧ Live2 (onY f c) := by
  obtain ⟨h1, h2⟩ := hf c.gy hl.ok.y hl.ye hl.yd
  have o : Obs2 c (onY f c) := onY_obs2 f c hl.ok h1
  refine ⟨o, ⟨o.ok, ?_, by rw [gy_onY]; exact h2, by rw [o.x.same.dim]; exact hl.xd, by rw [o.y.same.dim]; exact hl.yd⟩⟩
  rw [x_onY]
  cases hal : c.al
  · simpa using hl.xe
  · have : c.gy = c.x := by simp [gy, hal]
    simpa [this] using h2

theorem phaseA1 (g : Gh) (s : PState) (h : Inv s) (he : s.b .em = false) (hd : s.dim ≠ 0) :
    Obs s (if s.cpend then processPendingConstraints g s else (true, s)).2
    ∧ ((if s.cpend then processPendingConstraints g s else (true, s)).1 = true →
        (if s.cpend then processPendingConstraints g s else (true, s)).2.b .em = false) := by
  split
  · next hc =>
    obtain ⟨h1, h2, h3, h4⟩ := ppc_spec g s h hc
    exact ⟨⟨h1, h2⟩, fun hr => (h3 hr).em⟩
  · exact ⟨Obs.refl h, fun _ => he⟩

theorem phaseB1 (g : Gh) (s : PState) (h : Inv s) (he : s.b .em = false) (hd : s.dim ≠ 0) :
    Obs s (if s.gpend then processPendingGenerators g s else s)
    ∧ (if s.gpend then processPendingGenerators g s else s).b .em = false := by
  split
  · next hc =>
    obtain ⟨h1, h2, h3⟩ := ppg_spec g s h hc
    exact ⟨⟨h1, h2⟩, h3.em⟩
  · exact ⟨Obs.refl h, he⟩

theorem phaseA2 (g : Gh) (s : PState) (h : Inv s) (he : s.b .em = false) (hd : s.dim ≠ 0) :
    Obs s (if !s.gup then updateGenerators g s else (true, s)).2
    ∧ ((if !s.gup then updateGenerators g s else (true, s)).1 = true →
        (if !s.gup then updateGenerators g s else (true, s)).2.b .em = false) := by
  split
  · next hg =>
    have hg' : s.b .gup = false := by simpa using hg
    have hcu : s.b .cup = true := by spec_tac [] using []
    have hc : s.b .cpend = false := by spec_tac [] using []
    have hgp : s.b .gpend = false := by spec_tac [] using []
    obtain ⟨h1, h2, h3, h4⟩ := updateGenerators_spec g s h he hd hcu hc hgp
    exact ⟨⟨h1, h2⟩, fun hr => (h3 hr).em⟩
  · exact ⟨Obs.refl h, fun _ => he⟩

theorem phaseB2 (g : Gh) (s : PState) (h : Inv s) (he : s.b .em = false) (hd : s.dim ≠ 0) :
    Obs s (if !s.cup then updateConstraints g s else s)
    ∧ (if !s.cup then updateConstraints g s else s).b .em = false := by
  split
  · next hcu =>
    have hcu' : s.b .cup = false := by simpa using hcu
    have hg : s.b .gup = true := by spec_tac [] using []
    have hc : s.b .cpend = false := by spec_tac [] using []
    have hgp : s.b .gpend = false := by spec_tac [] using []
    obtain ⟨h1, h2, h3⟩ := updateConstraints_spec g s h he hd hg hc hgp
    exact ⟨⟨h1, h2⟩, h3.em⟩
  · exact ⟨Obs.refl h, he⟩

end PPLV.PolyStatus
