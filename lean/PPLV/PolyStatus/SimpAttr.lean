import Lean
/-! simp set `pst`: the primitives of the status-protocol model (unfolded to chains of `set`). -/
register_simp_attr pst
