import PPLV.PolyStatus.ProofsF
/-!
# C01 stage 2 — proofs, part G: removing / mapping dimensions; the step lists of the composite methods
-/
namespace PPLV.PolyStatus
open PState

theorem dropEmpty_inv (s : PState) (h : Inv s) (he : s.b .em = true) (d : Nat) :
    Inv (conClear (s.setDim d).bump) := by
  spec_tac [] using []

theorem setZeroDimUnivChanged_inv (s : PState) (h : Inv s) (hr : GensReady s) :
    Inv (setZeroDimUniv (setChanges false s)) := by
  obtain ⟨r1, r2, r3⟩ := hr
  have := h.gup_nonempty r2 r3
  spec_tac [] using []

theorem dropDimsTail_inv (keep : Bool) (d : Nat) (s : PState) (h : Inv s) (hr : GensReady s) (hg : s.b .gpend = false)
    (hd : d ≠ 0) :
    Inv (clearGeneratorsMinimized (clearConstraintsUpToDate
      ((genRewrite keep (setChanges false s)).setDim d |>.set .vC false |>.set .dd false |>.set .mG false
        |>.set .vSC false |>.set .vSG false))) := by
  obtain ⟨r1, r2, r3⟩ := hr
  spec_tac [keep] using []

/-- the common part of `remove_space_dimensions` / `remove_higher_space_dimensions`. -/
theorem removeDims_inv (g : Gh) (d : Nat) (s : PState) (h : Inv s) (hd : s.dim ≠ 0) : Inv (removeDims g d s) := by
  unfold removeDims
  obtain ⟨h1, h2, h3, h4⟩ := needGensDroppingPending_spec g s h hd
  rcases Bool.eq_false_or_eq_true (needGensDroppingPending g s).1 with hr | hr
  · simp only [hr, ite_true]; exact dropEmpty_inv _ h1 (h3 hr) d
  · simp only [hr, Bool.false_eq_true, ite_false]
    split
    · exact setZeroDimUnivChanged_inv _ h1 (h4 hr).1
    · next hd0 => exact dropDimsTail_inv false d _ h1 (h4 hr).1 (h4 hr).2 (by simpa using hd0)

/-- `remove_space_dimensions(vars)`. -/
theorem removeSpaceDimensions_inv (f : Facts) : InvStep (fun g s => removeSpaceDimensions g f s) := by
  intro g s h
  show Inv (removeSpaceDimensions g f s)
  unfold removeSpaceDimensions
  split
  · exact h
  next hk =>
  split
  · exact h
  next hlt =>
    have hk' : f.k ≠ 0 := by simpa using hk
    exact removeDims_inv g _ s h (by omega)

/-- `remove_higher_space_dimensions(nd)`. -/
theorem removeHigherSpaceDimensions_inv (g : Gh) (f : Facts) (s : PState) (h : Inv s) :
    Inv (removeHigherSpaceDimensions g f s) := by
  unfold removeHigherSpaceDimensions
  split
  · exact h
  next hne =>
  split
  · exact h
  next hlt =>
  have hne' : f.nd ≠ s.dim := by simpa using hne
  have hd : s.dim ≠ 0 := by omega
  obtain ⟨h1, h2, h3, h4⟩ := needGensDroppingPending_spec g s h hd
  rcases Bool.eq_false_or_eq_true (needGensDroppingPending g s).1 with hr | hr
  · simp only [hr, ite_true]; exact dropEmpty_inv _ h1 (h3 hr) f.nd
  · simp only [hr, Bool.false_eq_true, ite_false]
    split
    · exact setZeroDimUnivChanged_inv _ h1 (h4 hr).1
    · next hd0 => exact dropDimsTail_inv g.keep f.nd _ h1 (h4 hr).1 (h4 hr).2 (by simpa using hd0)

theorem dropLastDim_inv : InvStep dropLastDim := fun g s h => removeHigherSpaceDimensions_inv g _ s h

/-- `map_space_dimensions(pfunc)`: the steps. -/
theorem mapPermute_inv : InvStep (fun g s =>
      let s := setChanges false s
      let s := if s.cup then conRewrite g.keep s else s
      if s.gup then genRewrite g.aux s else s) := by
  intro g s h
  spec_tac [s.b .cup, s.b .gup, g.keep, g.aux] using []

theorem ctorDegenerate_inv (nnc : Bool) (dim : Nat) (empty : Bool) (g : Gh) : Inv (ctorDegenerate nnc dim empty g) := by
  rcases Nat.eq_zero_or_pos dim with hd | hd <;>
    spec_tac [empty, nnc, g.keep] using [ctorDegenerate, fresh]

theorem ctorCons_inv (nnc : Bool) (f : Facts) (g : Gh) : Inv (ctorCons nnc f g) := by
  rcases Nat.eq_zero_or_pos f.dim with hd | hd <;>
    spec_tac [f.incons, g.keep, g.be] using [ctorCons, fresh]

theorem ctorGens_inv (nnc : Bool) (f : Facts) (g : Gh) : Inv (ctorGens nnc f g) := by
  rcases Nat.eq_zero_or_pos f.dim with hd | hd <;>
    spec_tac [f.norows, g.keep] using [ctorGens, fresh]

theorem setVer_inv (s : PState) (v : Nat) (h : Inv s) : Inv (s.setVer v) := by
  spec_tac [] using []

theorem mapRebuild_inv (f : Facts) : InvStep (fun g s =>
      if s.em then (ctorDegenerate s.nnc f.nd true g).setVer (s.ver + 1)
      else (ctorGens s.nnc { dim := f.nd } g).setVer (s.ver + 1)) := by
  intro g s h
  show Inv (if s.em then _ else _)
  split
  · exact setVer_inv _ _ (ctorDegenerate_inv _ _ _ _)
  · exact setVer_inv _ _ (ctorGens_inv _ _ _)

end PPLV.PolyStatus
