import PPLV.PolyStatus.ProofsI
/-!
# C01 stage 2 — proofs, part J: `contains`, `strictly_contains`, `==`, `is_disjoint_from`
-/
namespace PPLV.PolyStatus
open PState Two

/-- `x.is_included_in(y)`. -/
theorem earlyExit_J (f : PState → Bool × PState) (c : Two) (hl : Live2 c) :
    (onXb f c).2.x.b .em = false → (onXb f c).2.gy.b .em = false := by
  intro hx
  show (onX (fun s => (f s).2) c).gy.b .em = false
  rw [gy_onX]
  cases hal : c.al
  · simpa using hl.ye
  · have hx' : (f c.x).2.b .em = false := hx
    simpa using hx'

/-- `x.is_included_in(y)`: both objects are only re-represented; `y` is marked empty afterwards only if it is `x`. -/
theorem isIncludedIn_obs2' (ga gb : Gh) (c : Two) (hl : Live2 c) :
    Obs2 c (isIncludedIn ga gb c)
    ∧ ((isIncludedIn ga gb c).x.b .em = false → (isIncludedIn ga gb c).gy.b .em = false) := by
  unfold isIncludedIn
  obtain ⟨o1, l1⟩ := liveX (fun s => if s.cpend then processPendingConstraints ga s else (true, s)) c hl
    (fun s h he hd => phaseA1 ga s h he hd)
  have e1 : inclA1 ga c = onXb (fun s => if s.cpend then processPendingConstraints ga s else (true, s)) c := rfl
  rw [e1]
  rcases Bool.eq_false_or_eq_true (onXb (fun s => if s.cpend then processPendingConstraints ga s else (true, s)) c).1 with hr | hr
  · simp only [hr, Bool.not_true, Bool.false_eq_true, ite_false]
    have l1' := l1 hr
    generalize (onXb (fun s => if s.cpend then processPendingConstraints ga s else (true, s)) c).2 = c1 at o1 l1'
    obtain ⟨o2, l2⟩ := liveY (fun s => if s.gpend then processPendingGenerators gb s else s) c1 l1'
      (fun s h he hd => phaseB1 gb s h he hd)
    have e2 : inclB1 gb c1 = onY (fun s => if s.gpend then processPendingGenerators gb s else s) c1 := rfl
    rw [e2]
    generalize onY (fun s => if s.gpend then processPendingGenerators gb s else s) c1 = c2 at o2 l2
    obtain ⟨o3, l3⟩ := liveX (fun s => if !s.gup then updateGenerators ga s else (true, s)) c2 l2
      (fun s h he hd => phaseA2 ga s h he hd)
    have e3 : inclA2 ga c2 = onXb (fun s => if !s.gup then updateGenerators ga s else (true, s)) c2 := rfl
    rw [e3]
    rcases Bool.eq_false_or_eq_true (onXb (fun s => if !s.gup then updateGenerators ga s else (true, s)) c2).1 with hr3 | hr3
    · simp only [hr3, Bool.not_true, Bool.false_eq_true, ite_false]
      have l3' := l3 hr3
      generalize (onXb (fun s => if !s.gup then updateGenerators ga s else (true, s)) c2).2 = c3 at o3 l3'
      obtain ⟨o4, _⟩ := liveY (fun s => if !s.cup then updateConstraints gb s else s) c3 l3'
        (fun s h he hd => phaseB2 gb s h he hd)
      have e4 : inclB2 gb c3 = onY (fun s => if !s.cup then updateConstraints gb s else s) c3 := rfl
      rw [e4]
      exact ⟨o1.trans (o2.trans (o3.trans o4)), fun _ => (liveY _ c3 l3' (fun s h he hd => phaseB2 gb s h he hd)).2.ye⟩
    · simp only [hr3, Bool.not_false, ite_true]
      exact ⟨o1.trans (o2.trans o3), earlyExit_J _ c2 l2⟩
  · simp only [hr, Bool.not_false, ite_true]
    exact ⟨o1, earlyExit_J _ c hl⟩

theorem isIncludedIn_obs2 (ga gb : Gh) (c : Two) (hl : Live2 c) : Obs2 c (isIncludedIn ga gb c) :=
  (isIncludedIn_obs2' ga gb c hl).1

theorem gy_swap (c : Two) : c.swap.gy = c.x := by
  cases hal : c.al <;> simp [Two.swap, gy, hal]
theorem x_swap (c : Two) : c.swap.x = c.gy := by
  cases hal : c.al <;> simp [Two.swap, gy, hal]
theorem al_swap (c : Two) : c.swap.al = c.al := by
  cases hal : c.al <;> simp [Two.swap, hal]

theorem TwoOK.swap {c : Two} (h : TwoOK c) : TwoOK c.swap := ⟨by rw [x_swap]; exact h.y, by rw [gy_swap]; exact h.x⟩
theorem Live2.swap {c : Two} (h : Live2 c) : Live2 c.swap :=
  ⟨h.ok.swap, by rw [x_swap]; exact h.ye, by rw [gy_swap]; exact h.xe, by rw [x_swap]; exact h.yd,
   by rw [gy_swap]; exact h.xd⟩
theorem Obs2.of_swap {c d : Two} (h : Obs2 c.swap d) : Obs2 c d.swap :=
  ⟨by rw [x_swap]; have := h.y; rwa [gy_swap] at this, by rw [gy_swap]; have := h.x; rwa [x_swap] at this,
   by rw [al_swap, h.al, al_swap]⟩

theorem onYb_isEmpty_obs2 (g : Gh) (c : Two) (h : TwoOK c) : Obs2 c (onYb (isEmpty g) c).2 := by
  rw [(onYb_eq _ _).1]
  exact onY_obs2 _ c h (isEmpty_obs g _ h.y)

theorem onXb_isEmpty_obs2 (g : Gh) (c : Two) (h : TwoOK c) : Obs2 c (onXb (isEmpty g) c).2 :=
  onX_obs2 (fun s => (isEmpty g s).2) c h (isEmpty_obs g _ h.x)

/-- `x.contains(y)`. -/
theorem contains_obs2 (gx gy : Gh) (q : GhQ) (c : Two) (h : TwoOK c) (hd : c.gy.dim = c.x.dim) :
    Obs2 c (contains gx gy q c) := by
  unfold contains
  split
  · exact Obs2.refl h
  next hye =>
  split
  · exact onYb_isEmpty_obs2 gy c h
  next hxe =>
  split
  · exact Obs2.refl h
  next hyd =>
  have hxe' : c.x.b .em = false := by simpa using hxe
  have hye' : c.gy.b .em = false := by simpa using hye
  have hyd' : c.gy.dim ≠ 0 := by simpa using hyd
  obtain ⟨o, e1, e2⟩ := quickEquivalenceTest_obs2 q c h hxe' hye'
  simp only
  split
  · exact o
  · have hl : Live2 (quickEquivalenceTest q c).2 :=
      ⟨o.ok, e1, e2, by rw [o.x.same.dim, ← hd]; exact hyd', by rw [o.y.same.dim]; exact hyd'⟩
    exact o.trans (Obs2.of_swap (isIncludedIn_obs2 gy gx _ hl.swap))

theorem Obs2.dims {c d : Two} (h : Obs2 c d) (hd : c.gy.dim = c.x.dim) : d.gy.dim = d.x.dim := by
  rw [h.x.same.dim, h.y.same.dim, hd]

/-- `x.strictly_contains(y)`: both steps. -/
theorem strictlyContainsSteps_obs2 : ∀ st ∈ strictlyContainsSteps, ∀ h c, TwoOK c → c.gy.dim = c.x.dim →
    Obs2 c (st h c) := by
  intro st hst h c hc hd
  rcases mem2 hst with rfl | rfl
  · exact contains_obs2 _ _ _ c hc hd
  · show Obs2 c (if h.gx.aux then (contains h.gy h.gx h.q c.swap).swap else c)
    split
    · exact Obs2.of_swap (contains_obs2 _ _ _ _ hc.swap (by rw [gy_swap, x_swap, hd]))
    · exact Obs2.refl hc

theorem withGo_obs2 {c d : Two} (b : Bool) (h : Obs2 c d) : Obs2 c { d with go := b } := ⟨h.x, h.y, h.al⟩

/-- what holds between the two steps of `operator==`. -/
structure EqMid (c : Two) : Prop where
  ok : TwoOK c
  dims : c.gy.dim = c.x.dim
  go : c.go = true → c.x.dim ≠ 0 ∧ (c.x.b .em = false → c.gy.b .em = false)

theorem withGoFalse_mid {c d : Two} (h : Obs2 c d) (hd : c.gy.dim = c.x.dim) : EqMid { d with go := false } :=
  ⟨⟨h.x.inv, h.y.inv⟩, h.dims hd, fun hf => by simp at hf⟩

/-- `operator==`, first step. -/
theorem equalsHead_obs2 (h : Gh2) (c : Two) (hc : TwoOK c) (hd : c.gy.dim = c.x.dim) :
    Obs2 c (equalsHead h c) ∧ EqMid (equalsHead h c) := by
  unfold equalsHead
  split
  · exact ⟨withGo_obs2 _ (onYb_isEmpty_obs2 _ c hc), withGoFalse_mid (onYb_isEmpty_obs2 _ c hc) hd⟩
  next hxe =>
  split
  · exact ⟨withGo_obs2 _ (onXb_isEmpty_obs2 _ c hc), withGoFalse_mid (onXb_isEmpty_obs2 _ c hc) hd⟩
  next hye =>
  split
  · exact ⟨withGo_obs2 _ (Obs2.refl hc), withGoFalse_mid (Obs2.refl hc) hd⟩
  next hxd =>
  have hxe' : c.x.b .em = false := by simpa using hxe
  have hye' : c.gy.b .em = false := by simpa using hye
  have hxd' : c.x.dim ≠ 0 := by simpa using hxd
  obtain ⟨o, e1, e2⟩ := quickEquivalenceTest_obs2 h.q c hc hxe' hye'
  simp only
  split
  · exact ⟨withGo_obs2 _ o, withGoFalse_mid o hd⟩
  · have hl : Live2 (quickEquivalenceTest h.q c).2 :=
      ⟨o.ok, e1, e2, by rw [o.x.same.dim]; exact hxd', by rw [o.y.same.dim, hd]; exact hxd'⟩
    obtain ⟨o2, j2⟩ := isIncludedIn_obs2' h.gx h.gy _ hl
    have ot := o.trans o2
    exact ⟨withGo_obs2 _ ot, ⟨⟨ot.x.inv, ot.y.inv⟩, ot.dims hd, fun _ => ⟨by rw [ot.x.same.dim]; exact hxd', j2⟩⟩⟩

/-- `operator==`, second step. -/
theorem equalsTail_obs2 (h : Gh2) (c : Two) (hm : EqMid c) : Obs2 c (equalsTail h c) := by
  unfold equalsTail
  split
  · next hgo =>
    have hgo' : c.go = true := by simp at hgo; exact hgo.1
    obtain ⟨hxd, hj⟩ := hm.go hgo'
    split
    · exact onYb_isEmpty_obs2 _ c hm.ok
    · next hxe =>
      have hxe' : c.x.b .em = false := by simpa using hxe
      have hl : Live2 c := ⟨hm.ok, hxe', hj hxe', hxd, by rw [hm.dims]; exact hxd⟩
      exact Obs2.of_swap (isIncludedIn_obs2 _ _ _ hl.swap)
  · exact Obs2.refl hm.ok

end PPLV.PolyStatus
