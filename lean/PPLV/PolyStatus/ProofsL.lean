import PPLV.PolyStatus.ProofsK
/-!
# C01 stage 2 — proofs, part L: `time_elapse_assign`, `concatenate_assign`, `simplify_using_context_assign`,
`is_disjoint_from`, `m_swap`
-/
namespace PPLV.PolyStatus
open PState Two

theorem timeElapseTail_inv (g : Gh) (x : PState) (h : Inv x) (hr : GensReady x) (hd : x.dim ≠ 0) :
    Inv (if x.canHaveSomethingPending then insertGens g x
         else insertGens { g with keep := true } (if !x.gsS then genSortRows x else x)) := by
  split
  · exact (insertGens_spec g x h hr hd).1
  · next hcp =>
    obtain ⟨r1, r2, r3⟩ := hr
    spec_tac [x.b .cmin, x.b .gmin, x.b .satc, x.b .satg, x.b .gsS, x.b .cup] using [insertGens]

/-- `time_elapse_assign(y)`. -/
theorem timeElapseAssign_ok (gx gy : Gh) (c : Two) (h : TwoOK c) (hd : c.gy.dim = c.x.dim) :
    TwoOK (timeElapseAssign gx gy c) := by
  unfold timeElapseAssign
  split
  · split
    · exact onX_ok _ c h (setEmptyChanged_inv _ h.x)
    · exact h
  next hxd =>
  split
  · exact onX_ok _ c h (setEmptyChanged_inv _ h.x)
  next hee =>
  have hxd' : c.x.dim ≠ 0 := by simpa using hxd
  have hee' : c.x.b .em = false ∧ c.gy.b .em = false := by simpa using hee
  have hl : Live2 c := ⟨h, hee'.1, hee'.2, hxd', by rw [hd]; exact hxd'⟩
  obtain ⟨o1, l1⟩ := stepX (needGens gx) GensReady c hl (needGens_step gx)
  simp only
  rcases Bool.eq_false_or_eq_true (onXb (needGens gx) c).1 with hr | hr
  · simp only [hr, ite_true]
    refine onX_ok _ _ o1.ok ?_
    have hi := o1.ok.x
    have hem : (onXb (needGens gx) c).2.x.b .em = true :=
      (needGens_spec gx c.x h.x hee'.1 hxd').2.2.1 hr
    generalize (onXb (needGens gx) c).2.x = t at hi hem
    spec_tac [] using []
  · simp only [hr, Bool.false_eq_true, ite_false]
    obtain ⟨l1', p1⟩ := l1 hr
    generalize (onXb (needGens gx) c).2 = c1 at o1 l1' p1
    obtain ⟨o2, l2⟩ := stepY (needGens gy) GensReady c1 l1' p1 (needGens_step gy)
    rcases Bool.eq_false_or_eq_true (onYb (needGens gy) c1).1 with hr2 | hr2
    · simp only [hr2, ite_true]; exact onX_ok _ _ o2.ok (setEmptyChanged_inv _ o2.ok.x)
    · simp only [hr2, Bool.false_eq_true, ite_false]
      obtain ⟨l2', p2, _⟩ := l2 hr2
      split
      · exact o2.ok
      · exact onX_ok _ _ o2.ok (timeElapseTail_inv gx _ o2.ok.x p2 l2'.xd)

/-- `m_swap(y)`. -/
theorem mSwap_ok (c : Two) (h : TwoOK c) : TwoOK (mSwap c) := by
  unfold mSwap
  cases hal : c.al
  · have hy : Inv c.y := by have := h.y; simpa [gy, hal] using this
    exact ⟨hy, by simpa [gy, hal] using h.x⟩
  · simpa using h

theorem concatTail_inv (g : Gh) (ydim : Nat) (x : PState) (h : Inv x) (hr : ConsReady x) (hd : x.dim ≠ 0) :
    Inv (let x := setChanges g.be x
         let x :=
           if x.canHaveSomethingPending then
             let x := genRewrite g.aux (conInsertPending x)
             let x := if !x.satc then setSatCUpToDate (satCFromSatG x) else x
             setConstraintsPending (clearSatGUpToDate x)
           else
             let x := conInsert g.keep x
             clearSatCUpToDate (clearSatGUpToDate (clearGeneratorsUpToDate (clearConstraintsMinimized x)))
         x.setDim (x.dim + ydim)) := by
  obtain ⟨r1, r2, r3⟩ := hr
  spec_tac [x.b .cmin, x.b .gmin, x.b .satc, x.b .satg, x.b .gup] using []

theorem constraints_both (g : Gh) : ∀ s, Inv s → LiveP s →
    Obs s (constraints g s) ∧ True ∧ LiveP (constraints g s) := by
  intro s h hp
  have e : constraints g s = needCons g s := by simp [constraints, hp.1, hp.2]
  rw [e]
  obtain ⟨h1, h2, h3⟩ := needCons_spec g s h hp.1 hp.2
  exact ⟨⟨h1, h2⟩, trivial, ⟨h3.em, by rw [h2.dim]; exact hp.2⟩⟩

theorem al_onY (f : PState → PState) (c : Two) : (onY f c).al = c.al := by
  cases hal : c.al <;> simp [onY, hal]

/-- `f2` applied to the argument first, then `f1` to the receiver. -/
theorem onBoth2' (f1 f2 : PState → PState) (Pre Post : PState → Prop) (c : Two) (h : TwoOK c)
    (hx : Pre c.x) (hy : Pre c.gy)
    (hf1 : ∀ s, Inv s → Pre s → Obs s (f1 s) ∧ Post (f1 s) ∧ Pre (f1 s))
    (hf2 : ∀ s, Inv s → Pre s → Obs s (f2 s) ∧ Pre (f2 s)) :
    Obs2 c (onX f1 (onY f2 c)) ∧ Post (onX f1 (onY f2 c)).x := by
  have o1 := onY_obs2 f2 c h (hf2 _ h.y hy).1
  have hP : Pre (onY f2 c).x := by
    rw [x_onY]
    cases hal : c.al
    · simpa using hx
    · have : c.gy = c.x := by simp [gy, hal]
      have := (hf2 _ h.y hy).2
      simpa [‹c.gy = c.x›] using this
  exact ⟨o1.trans (onX_obs2 _ _ o1.ok (hf1 _ o1.ok.x hP).1), (hf1 _ o1.ok.x hP).2.1⟩

/-- `concatenate_assign(y)`. -/
theorem concatenateAssign_ok (gx gy : Gh) (c : Two) (h : TwoOK c) : TwoOK (concatenateAssign gx gy c) := by
  unfold concatenateAssign
  simp only
  split
  · refine onX_ok _ c h ?_
    have := h.x
    generalize c.x = t at this
    generalize c.gy.dim = n
    spec_tac [] using []
  next hee =>
  split
  · exact h
  next hyd =>
  split
  · exact assignFromY_ok c h
  next hxd =>
  have hee' : c.x.b .em = false ∧ c.gy.b .em = false := by simpa using hee
  have hxd' : c.x.dim ≠ 0 := by simpa using hxd
  have hyd' : c.gy.dim ≠ 0 := by simpa using hyd
  obtain ⟨o, p⟩ := onBoth2' (needCons gx) (constraints gy) LiveP (fun s => ConsReady s ∧ s.dim ≠ 0) c h
    ⟨hee'.1, hxd'⟩ ⟨hee'.2, hyd'⟩ (needCons_both gx)
    (fun s hs hp => ⟨(constraints_both gy s hs hp).1, (constraints_both gy s hs hp).2.2⟩)
  exact onX_ok _ _ o.ok (concatTail_inv gx _ _ o.ok.x p.1 p.2)

/-- `simplify_using_context_assign(y)`: the replacement of the receiver. -/
theorem replaced_inv (g : Gh) (x : PState) :
    Inv (addConstraints g { norows := g.aux, nontriv := !g.aux } ((ctorDegenerate x.nnc x.dim false g).setVer (x.ver + 1))) :=
  addConstraints_inv _ g _ (setVer_inv _ _ (ctorDegenerate_inv _ _ _ _))

/-- `simplify_using_context_assign(y)`. -/
theorem simplifyUsingContextAssign_ok (gx gy : Gh) (c : Two) (h : TwoOK c) :
    TwoOK (simplifyUsingContextAssign gx gy c) := by
  unfold simplifyUsingContextAssign
  split
  · have o := onYb_isEmpty_obs2 gy c h
    simp only
    split
    · exact onX_ok _ _ o.ok (setZeroDimUnivPoint_inv _)
    · exact (onXb_isEmpty_obs2 gx _ o.ok).ok
  · have o : Obs2 c (onYb (minimize gy) c).2 := by
      rw [(onYb_eq _ _).1]
      exact onY_obs2 _ c h (minimize_obs gy _ h.y)
    simp only
    split
    · exact onX_ok _ _ o.ok (setVer_inv _ _ (ctorDegenerate_inv _ _ _ _))
    · have o2 : Obs2 (onYb (minimize gy) c).2 (onXb (minimize gx) (onYb (minimize gy) c).2).2 :=
        onX_obs2 (fun s => (minimize gx s).2) _ o.ok (minimize_obs gx _ o.ok.x)
      split
      · split
        · exact onX_ok _ _ o2.ok (replaced_inv gx _)
        · exact o2.ok
      · exact onX_ok _ _ o2.ok (replaced_inv gx _)

theorem y_onX (f : PState → PState) (c : Two) : (onX f c).y = c.y := rfl
theorem al_onX (f : PState → PState) (c : Two) : (onX f c).al = c.al := rfl
theorem y_onY_nal (f : PState → PState) (c : Two) (hal : c.al = false) : (onY f c).y = f c.y := by
  simp [onY, hal]

/-- the argument of `intersection_assign` is only re-represented. -/
theorem intersectionAssign_y (gx gy : Gh) (c : Two) (h : TwoOK c) (hd : c.gy.dim = c.x.dim) (hal : c.al = false) :
    Obs c.y (intersectionAssign gx gy c).y := by
  have hgy : c.gy = c.y := by simp [Two.gy, hal]
  have hy : Inv c.y := hgy ▸ h.y
  unfold intersectionAssign
  split
  · exact Obs.refl hy
  next hxe =>
  split
  · rw [y_onX]; exact Obs.refl hy
  next hye =>
  split
  · exact Obs.refl hy
  next hxd =>
  have hye' : c.y.b .em = false := by rw [← hgy]; simpa using hye
  have hxd' : c.x.dim ≠ 0 := by simpa using hxd
  have e : ∀ (f1 f2 f3 : PState → PState), (onX f3 (onY f2 (onX f1 c))).y = f2 c.y := fun f1 f2 f3 => by
    rw [y_onX, y_onY_nal _ _ (by rw [al_onX]; exact hal), y_onX]
  show Obs c.y (onX _ (onY (needCons gy) (onX (needCons gx) c))).y
  rw [e]
  exact needCons_obs gy c.y hy hye' (by rw [← hgy, hd]; exact hxd')

/-- `is_disjoint_from(y)`: the receiver is untouched, the argument is re-represented. -/
theorem isDisjointFrom_obs2 (gx gy : Gh) (c : Two) (hc : TwoOK c) (hd : c.gy.dim = c.x.dim) :
    Obs2 c (isDisjointFrom gx gy c) := by
  unfold isDisjointFrom
  obtain ⟨k1, k2, _⟩ := copyCtor_spec c.x hc.x
  have hz : TwoOK { x := copyCtor c.x, y := c.gy, al := false } := ⟨k1, by simpa [Two.gy] using hc.y⟩
  have ho := intersectionAssign_y gx gy { x := copyCtor c.x, y := c.gy, al := false } hz
    (by rw [k2]; simpa [Two.gy] using hd) rfl
  simp only at ho ⊢
  exact onY_obs2 _ c hc ho

end PPLV.PolyStatus
