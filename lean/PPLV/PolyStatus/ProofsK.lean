import PPLV.PolyStatus.ProofsJ
/-!
# C01 stage 2 — proofs, part K: the binary mutators, copy and assignment
-/
namespace PPLV.PolyStatus
open PState Two

theorem copyCtor_spec (y : PState) (h : Inv y) :
    Inv (copyCtor y) ∧ (copyCtor y).dim = y.dim ∧ (copyCtor y).b .em = y.b .em ∧ (copyCtor y).b .emp = y.b .emp
    ∧ (copyCtor y).ver = y.ver ∧ (copyCtor y).nnc = y.nnc := by
  refine ⟨?_, rfl, rfl, rfl, rfl, rfl⟩
  spec_tac [y.b .cup, y.b .gup, y.b .em] using [copyCtor]

theorem Inv.sorted_facts {x : PState} (h : Inv x) :
    (x.b .csS = true → x.b .rC = true) ∧ (x.b .gsS = true → x.b .rG = true) := by
  simp only [pst] at h
  simp at h
  casesm* _ ∧ _
  constructor <;> intro hh <;> simp_all

theorem assign_inv (x y : PState) (hx : Inv x) (hy : Inv y) : Inv (assign x y) := by
  obtain ⟨hxc, hxg⟩ := hx.sorted_facts
  clear hx
  unfold assign
  simp only
  split
  · spec_tac [] using []
  split
  · spec_tac [] using []
  · next he hd =>
    have he' : y.b .em = false := by simpa using he
    have hd' : y.dim ≠ 0 := by simpa using hd
    spec_tac [y.b .cup, y.b .gup, x.b .csS, x.b .gsS] using []

theorem onX_ok (f : PState → PState) (c : Two) (h : TwoOK c) (hf : Inv (f c.x)) : TwoOK (onX f c) := by
  refine ⟨hf, ?_⟩
  rw [gy_onX]
  cases hal : c.al
  · simpa using h.y
  · simpa using hf

/-- `x = y` inside a binary method. -/
theorem assignFromY_ok (c : Two) (h : TwoOK c) : TwoOK (assignFromY c) := by
  unfold assignFromY
  cases hal : c.al
  · simp only [Bool.false_eq_true, ite_false]
    apply onX_ok _ c h
    have : c.gy = c.y := by simp [gy, hal]
    exact assign_inv _ _ h.x (this ▸ h.y)
  · simpa using h

/-- `f1` applied to the receiver, then `f2` to the argument (to the same object when they are aliased). -/
theorem onBoth2 (f1 f2 : PState → PState) (Pre Post : PState → Prop) (c : Two) (h : TwoOK c)
    (hx : Pre c.x) (hy : Pre c.gy)
    (hf1 : ∀ s, Inv s → Pre s → Obs s (f1 s) ∧ Post (f1 s) ∧ Pre (f1 s))
    (hf2 : ∀ s, Inv s → Pre s → Obs s (f2 s) ∧ Post (f2 s) ∧ Pre (f2 s)) :
    Obs2 c (onY f2 (onX f1 c)) ∧ Post (onY f2 (onX f1 c)).x ∧ Post (onY f2 (onX f1 c)).gy := by
  have o1 := onX_obs2 f1 c h (hf1 _ h.x hx).1
  have hP : Pre (onX f1 c).gy := by
    rw [gy_onX]
    cases hal : c.al
    · simpa using hy
    · simpa using (hf1 _ h.x hx).2.2
  refine ⟨o1.trans (onY_obs2 _ _ o1.ok (hf2 _ o1.ok.y hP).1), ?_, ?_⟩
  · rw [x_onY]
    cases hal : (onX f1 c).al
    · have : Post (onX f1 c).x := (hf1 _ h.x hx).2.1
      simpa using this
    · have : (onX f1 c).gy = (onX f1 c).x := by simp [gy, hal]
      simpa [this] using (hf2 _ o1.ok.y hP).2.1
  · rw [gy_onY]; exact (hf2 _ o1.ok.y hP).2.1

def LiveP (s : PState) : Prop := s.b .em = false ∧ s.dim ≠ 0

theorem needCons_both (g : Gh) : ∀ s, Inv s → LiveP s →
    Obs s (needCons g s) ∧ (ConsReady (needCons g s) ∧ (needCons g s).dim ≠ 0) ∧ LiveP (needCons g s) := by
  intro s h hp
  obtain ⟨h1, h2, h3⟩ := needCons_spec g s h hp.1 hp.2
  exact ⟨⟨h1, h2⟩, ⟨h3, by rw [h2.dim]; exact hp.2⟩, ⟨h3.em, by rw [h2.dim]; exact hp.2⟩⟩

/-- `intersection_assign(y)`. -/
theorem intersectionAssign_ok (gx gy : Gh) (c : Two) (h : TwoOK c) (hd : c.gy.dim = c.x.dim) :
    TwoOK (intersectionAssign gx gy c) := by
  unfold intersectionAssign
  split
  · exact h
  next hxe =>
  split
  · exact onX_ok _ c h (setEmptyChanged_inv _ h.x)
  next hye =>
  split
  · exact h
  next hxd =>
  have hxe' : c.x.b .em = false := by simpa using hxe
  have hye' : c.gy.b .em = false := by simpa using hye
  have hxd' : c.x.dim ≠ 0 := by simpa using hxd
  obtain ⟨o, p1, _⟩ := onBoth2 (needCons gx) (needCons gy) LiveP (fun s => ConsReady s ∧ s.dim ≠ 0) c h
    ⟨hxe', hxd'⟩ ⟨hye', by rw [hd]; exact hxd'⟩ (needCons_both gx) (needCons_both gy)
  simp only
  exact onX_ok _ _ o.ok (insertCons_spec _ _ o.ok.x p1.1 p1.2).1

/-- an emptiness-detecting observer on the receiver (`true` = found empty), with what it guarantees otherwise. -/
theorem stepX (f : PState → Bool × PState) (P : PState → Prop) (c : Two) (hl : Live2 c)
    (hf : ∀ s, Inv s → s.b .em = false → s.dim ≠ 0 →
      Obs s (f s).2 ∧ ((f s).1 = false → (f s).2.b .em = false ∧ P (f s).2)) :
    Obs2 c (onXb f c).2 ∧ ((onXb f c).1 = false → Live2 (onXb f c).2 ∧ P (onXb f c).2.x) := by
  obtain ⟨h1, h2⟩ := hf c.x hl.ok.x hl.xe hl.xd
  have o : Obs2 c (onXb f c).2 := onX_obs2 (fun s => (f s).2) c hl.ok h1
  refine ⟨o, fun hr => ⟨⟨o.ok, (h2 hr).1, ?_, by rw [o.x.same.dim]; exact hl.xd, by rw [o.y.same.dim]; exact hl.yd⟩,
    (h2 hr).2⟩⟩
  show (onX (fun s => (f s).2) c).gy.b .em = false
  rw [gy_onX]
  cases hal : c.al
  · simpa using hl.ye
  · simpa using (h2 hr).1

/-- the same on the argument; a property `P` of the receiver survives (it is re-established when the two are aliased). -/
theorem stepY (f : PState → Bool × PState) (P : PState → Prop) (c : Two) (hl : Live2 c) (hPx : P c.x)
    (hf : ∀ s, Inv s → s.b .em = false → s.dim ≠ 0 →
      Obs s (f s).2 ∧ ((f s).1 = false → (f s).2.b .em = false ∧ P (f s).2)) :
    Obs2 c (onYb f c).2 ∧ ((onYb f c).1 = false → Live2 (onYb f c).2 ∧ P (onYb f c).2.x ∧ P (onYb f c).2.gy) := by
  obtain ⟨h1, h2⟩ := hf c.gy hl.ok.y hl.ye hl.yd
  obtain ⟨e2, e1⟩ := onYb_eq f c
  rw [e2, e1]
  have o : Obs2 c (onY (fun s => (f s).2) c) := onY_obs2 _ c hl.ok h1
  refine ⟨o, fun hr => ?_⟩
  have hx : (onY (fun s => (f s).2) c).x.b .em = false ∧ P (onY (fun s => (f s).2) c).x := by
    rw [x_onY]
    cases hal : c.al
    · simpa using ⟨hl.xe, hPx⟩
    · have : c.gy = c.x := by simp [gy, hal]
      simpa [this] using h2 hr
  have hy : (onY (fun s => (f s).2) c).gy.b .em = false ∧ P (onY (fun s => (f s).2) c).gy := by
    rw [gy_onY]; exact h2 hr
  exact ⟨⟨o.ok, hx.1, hy.1, by rw [o.x.same.dim]; exact hl.xd, by rw [o.y.same.dim]; exact hl.yd⟩, hx.2, hy.2⟩

theorem needGens_step (g : Gh) : ∀ s, Inv s → s.b .em = false → s.dim ≠ 0 →
    Obs s (needGens g s).2 ∧ ((needGens g s).1 = false → (needGens g s).2.b .em = false ∧ GensReady (needGens g s).2) := by
  intro s h he hd
  obtain ⟨h1, h2, h3, h4⟩ := needGens_spec g s h he hd
  exact ⟨⟨h1, h2⟩, fun hr => ⟨(h4 hr).em, h4 hr⟩⟩

/-- `poly_hull_assign(y)`. -/
theorem polyHullAssign_ok (gx gy : Gh) (c : Two) (h : TwoOK c) (hd : c.gy.dim = c.x.dim) :
    TwoOK (polyHullAssign gx gy c) := by
  unfold polyHullAssign
  split
  · exact h
  next hye =>
  split
  · exact assignFromY_ok c h
  next hxe =>
  split
  · exact h
  next hxd =>
  have hxe' : c.x.b .em = false := by simpa using hxe
  have hye' : c.gy.b .em = false := by simpa using hye
  have hxd' : c.x.dim ≠ 0 := by simpa using hxd
  have hl : Live2 c := ⟨h, hxe', hye', hxd', by rw [hd]; exact hxd'⟩
  obtain ⟨o1, l1⟩ := stepX (needGens gx) GensReady c hl (needGens_step gx)
  simp only
  rcases Bool.eq_false_or_eq_true (onXb (needGens gx) c).1 with hr | hr
  · simp only [hr, ite_true]; exact assignFromY_ok _ o1.ok
  · simp only [hr, Bool.false_eq_true, ite_false]
    obtain ⟨l1', p1⟩ := l1 hr
    generalize (onXb (needGens gx) c).2 = c1 at o1 l1' p1
    obtain ⟨o2, l2⟩ := stepY (needGens gy) GensReady c1 l1' p1 (needGens_step gy)
    rcases Bool.eq_false_or_eq_true (onYb (needGens gy) c1).1 with hr2 | hr2
    · simp only [hr2, ite_true]; exact o2.ok
    · simp only [hr2, Bool.false_eq_true, ite_false]
      obtain ⟨l2', p2, _⟩ := l2 hr2
      exact onX_ok _ _ o2.ok (insertGens_spec _ _ o2.ok.x p2 l2'.xd).1

end PPLV.PolyStatus
