import PPLV.PolyStatus.State
/-!
# C01 stage 2 — the private helpers of `Polyhedron`, code-shaped

One Lean function per C++ function of `src/Polyhedron_nonpublic.cc` /
`src/Polyhedron_minimize_templates.hh`, statement by statement, over the abstract state of
`State.lean`.  Where the C++ depends on data the abstract state does not hold, the choice is a field
of the ghost input `Gh` (the caller — theorem or driver — quantifies over it).
-/
namespace PPLV.PolyStatus
open PState

/-- Ghost inputs: the data-dependent choices of one call. -/
structure Gh where
  dup : Bool := false    -- `sort_pending_and_remove_duplicates` left no pending row
  srcS : Bool := false   -- `sorted` flag of the source system after conversion + simplify
  dstS : Bool := false   -- conversion kept the `sorted` flag of the destination system (incremental case)
  keep : Bool := false   -- an insertion / transformation keeps the `sorted` flag
  fast : Bool := false   -- a data-dependent early exit of an observer was taken
  chg : Bool := false    -- `strongly_minimize_*` / closure / a loop found something to change
  be : Bool := false     -- the mutation makes the set empty
  aux : Bool := false    -- a second data-dependent test of the same call
deriving DecidableEq, Repr, Inhabited

/-! ## conversion (`Polyhedron::minimize` / `add_and_minimize`, static templates): parameters,
assumed exact — they report "empty" iff the set is empty, and they produce a DD pair in minimal form
from valid inputs. -/

/-- `minimize(true, con_sys, gen_sys, sat_g)`; returns `empty`. -/
def convCG (g : Gh) (s : PState) : Bool × PState :=
  let s := if !s.csS then conSortRows s else s
  if s.emp then
    (true, s.set .gsS false |>.set .rG false |>.set .vG false |>.set .mG false |>.set .dd false
             |>.set .vSC false |>.set .vSG false |>.set .pG false)
  else
    (false, s.set .vG s.vC |>.set .dd true |>.set .mC true |>.set .mG true |>.set .vSG true |>.set .vSC false
              |>.set .csS g.srcS |>.set .rC g.srcS |>.set .gsS false |>.set .rG false |>.set .pG false)

/-- `minimize(false, gen_sys, con_sys, sat_c)` (never reports empty). -/
def convGC (g : Gh) (s : PState) : PState :=
  let s := if !s.gsS then genSortRows s else s
  s.set .vC s.vG |>.set .dd true |>.set .mC true |>.set .mG true |>.set .vSC true |>.set .vSG false
    |>.set .gsS g.srcS |>.set .rG g.srcS |>.set .csS false |>.set .rC false |>.set .pC false

/-- `add_and_minimize(true, con_sys, gen_sys, sat_c)`: integrates the pending constraints; returns `empty`. -/
def addMinC (g : Gh) (s : PState) : Bool × PState :=
  let ok := s.dd && s.mC && s.mG && s.vSC
  if s.emp then
    (true, s.set .vG false |>.set .mG false |>.set .dd false |>.set .vSC false |>.set .vSG false |>.set .pC false
             |>.set .gsS false |>.set .rG false)
  else
    (false, s.set .vG (s.vC && ok) |>.set .dd ok |>.set .mC ok |>.set .mG ok |>.set .vSC ok |>.set .vSG false
              |>.set .pC false |>.set .csS g.srcS |>.set .rC g.srcS
              |>.set .gsS (s.gsS && g.dstS) |>.set .rG (s.rG && g.dstS))

/-- `add_and_minimize(false, gen_sys, con_sys, sat_g)`: integrates the pending generators. -/
def addMinG (g : Gh) (s : PState) : PState :=
  let ok := s.dd && s.mC && s.mG && s.vSG
  s.set .vC (s.vG && ok) |>.set .dd ok |>.set .mC ok |>.set .mG ok |>.set .vSG ok |>.set .vSC false
    |>.set .pG false |>.set .gsS g.srcS |>.set .rG g.srcS
    |>.set .csS (s.csS && g.dstS) |>.set .rC (s.rC && g.dstS)

/-! ## `Polyhedron_nonpublic.cc` -/

/-- `Polyhedron::set_empty()`. -/
def setEmpty (s : PState) : PState := genClear (conClear (stSetEmpty s))

/-- `Polyhedron::set_zero_dim_univ()`. -/
def setZeroDimUniv (s : PState) : PState := genClear (conClear ((stSetZeroDimUniv s).setDim 0))

/-- `update_sat_c()`. -/
def updateSatC (s : PState) : PState := setSatCUpToDate (satCCompute s)
/-- `update_sat_g()`. -/
def updateSatG (s : PState) : PState := setSatGUpToDate (satGCompute s)

/-- `obtain_sorted_constraints()`. -/
def obtainSortedConstraints (s : PState) : PState :=
  if !s.csS then
    if s.satg then clearSatCUpToDate (conSortWithSatG s)
    else if s.satc then
      clearSatCUpToDate (setSatGUpToDate (conSortWithSatG (satGFromSatC s)))
    else conSortRows s
  else s

/-- `obtain_sorted_generators()`. -/
def obtainSortedGenerators (s : PState) : PState :=
  if !s.gsS then
    if s.satc then clearSatGUpToDate (genSortWithSatC s)
    else if s.satg then
      clearSatGUpToDate (setSatCUpToDate (genSortWithSatC (satCFromSatG s)))
    else genSortRows s
  else s

/-- `obtain_sorted_constraints_with_sat_c()`. -/
def obtainSortedConstraintsWithSatC (s : PState) : PState :=
  let s := if !s.satc && !s.satg then updateSatC s else s
  if s.csS && s.satc then s
  else
    let s :=
      if s.csS then s
      else
        let s := if !s.satg then setSatGUpToDate (satGFromSatC s) else s
        conSortWithSatG s
    conSetSorted true (setSatCUpToDate (satCFromSatG s))

/-- `obtain_sorted_generators_with_sat_g()`. -/
def obtainSortedGeneratorsWithSatG (s : PState) : PState :=
  let s := if !s.satc && !s.satg then updateSatG s else s
  if s.gsS && s.satg then s
  else
    let s :=
      if s.gsS then s
      else
        let s := if !s.satc then setSatCUpToDate (satCFromSatG s) else s
        genSortWithSatC s
    genSetSorted true (setSatGUpToDate (satGFromSatC s))

/-- `process_pending_constraints()`, first half: "we need `sat_c` up-to-date and `con_sys` sorted (together with `sat_c`)". -/
def ppcPrepare (s : PState) : PState :=
  let s := if !s.satc then satCFromSatG s else s
  if !s.csS then obtainSortedConstraintsWithSatC s else s

/-- `process_pending_constraints()`, second half: duplicates removed, `add_and_minimize`, flags. -/
def ppcFinish (g : Gh) (s : PState) : Bool × PState :=
  let s := conSortPending (g.dup && !s.emp) s   -- (only duplicates pending: the set is that of the generators)
  if !s.pC then
    -- no pending row is left: gen_sys, the DD pair of the non-pending part, describes the whole set
    (true, clearPendingConstraints (s.set .vG (s.vC && s.dd)))
  else
    let r := addMinC g s
    if r.1 then (false, setEmpty r.2)
    else (true, setSatCUpToDate (clearSatGUpToDate (clearPendingConstraints r.2)))

/-- `process_pending_constraints()`; returns "not empty". -/
def processPendingConstraints (g : Gh) (s : PState) : Bool × PState := ppcFinish g (ppcPrepare s)

/-- `process_pending_generators()`, first half. -/
def ppgPrepare (s : PState) : PState :=
  let s := if !s.satg then satGFromSatC s else s
  if !s.gsS then obtainSortedGeneratorsWithSatG s else s

/-- `process_pending_generators()`, second half. -/
def ppgFinish (g : Gh) (s : PState) : PState :=
  let s := genSortPending g.dup s
  if !s.pG then clearPendingGenerators (s.set .vC (s.vG && s.dd))
  else setSatGUpToDate (clearSatCUpToDate (clearPendingGenerators (addMinG g s)))

/-- `process_pending_generators()`. -/
def processPendingGenerators (g : Gh) (s : PState) : PState := ppgFinish g (ppgPrepare s)

/-- `remove_pending_to_obtain_constraints()`. -/
def removePendingToObtainConstraints (g : Gh) (s : PState) : PState :=
  if s.cpend then
    clearGeneratorsUpToDate (clearConstraintsMinimized (clearPendingConstraints
      (conUnsetPending (conSetSorted false s))))
  else processPendingGenerators g s

/-- `remove_pending_to_obtain_generators()`; returns "not empty". -/
def removePendingToObtainGenerators (g : Gh) (s : PState) : Bool × PState :=
  if s.gpend then
    (true, clearConstraintsUpToDate (clearGeneratorsMinimized (clearPendingGenerators
      (genUnsetPending (genSetSorted false s)))))
  else processPendingConstraints g s

/-- `update_constraints()`. -/
def updateConstraints (g : Gh) (s : PState) : PState :=
  setGeneratorsMinimized (setConstraintsMinimized (clearSatGUpToDate (setSatCUpToDate (convGC g s))))

/-- `update_generators()`; returns "not empty". -/
def updateGenerators (g : Gh) (s : PState) : Bool × PState :=
  let r := convCG g s
  if r.1 then (false, setEmpty r.2)
  else (true, setGeneratorsMinimized (setConstraintsMinimized (clearSatCUpToDate (setSatGUpToDate r.2))))

/-- `process_pending()`. -/
def processPending (g : Gh) (s : PState) : Bool × PState :=
  if s.cpend then processPendingConstraints g s else (true, processPendingGenerators g s)

/-- `minimize()`; returns "not empty". -/
def minimize (g : Gh) (s : PState) : Bool × PState :=
  if s.em then (false, s)
  else if s.dim == 0 then (true, s)
  else if s.hasSomethingPending then processPending g s
  else if s.cmin && s.gmin then (true, s)
  else if s.cup then updateGenerators g s
  else (true, updateConstraints g s)

/-- `is_empty()`. -/
def isEmpty (g : Gh) (s : PState) : Bool × PState :=
  if s.em then (true, s)
  else if s.gup && !s.cpend then (false, s)
  else let r := minimize g s; (!r.1, r.2)

/-- `strongly_minimize_constraints()` after `minimize()` succeeded; `g.chg`: an eps-redundant constraint was removed. -/
def smcTail (g : Gh) (s : PState) : PState :=
  if s.dim == 0 then s
  else
    let s := if !s.satg then satGFromSatC s else s
    if g.chg then
      -- rows of con_sys removed (with the rows of sat_g), possibly eps_leq_one inserted
      let s := s.set .vG false |>.set .dd false |>.set .vSC false |>.set .vSG false
                 |>.set .csS (s.csS && g.keep) |>.set .rC (s.rC && g.keep)
      clearGeneratorsUpToDate s
    else s

/-- `strongly_minimize_constraints()` (NNC only). -/
def stronglyMinimizeConstraints (g : Gh) (s : PState) : Bool × PState :=
  let r := minimize g s
  if !r.1 then (false, r.2) else (true, smcTail g r.2)

/-- `strongly_minimize_generators()` after `minimize()` succeeded; `g.chg`: a point was removed or re-normalised. -/
def smgTail (g : Gh) (s : PState) : PState :=
  if s.dim == 0 then s
  else
    let s := if !s.satc then satCFromSatG s else s
    if g.chg then
      -- points moved to the bottom / erased / re-normalised (with the rows of sat_c)
      let s := s.set .vC false |>.set .dd false |>.set .vSC false |>.set .vSG false |>.set .rG false |>.set .pG false
      genSetSorted false (clearConstraintsUpToDate s)
    else s.set .pG false

/-- `strongly_minimize_generators()` (NNC only). -/
def stronglyMinimizeGenerators (g : Gh) (s : PState) : Bool × PState :=
  let r := minimize g s
  if !r.1 then (false, r.2) else (true, smgTail g r.2)

/-- The idiom "the constraints (possibly with pending rows) are required":
`if (has_pending_generators()) process_pending_generators(); else if (!constraints_are_up_to_date()) update_constraints();`
(constraints(), relation_with(g), refine_no_check, add_recycled_constraints, refine_with_constraints,
intersection_assign, concatenate_assign, constrains). -/
def needCons (g : Gh) (s : PState) : PState :=
  if s.gpend then processPendingGenerators g s
  else if !s.cup then updateConstraints g s
  else s

/-- The idiom "the generators (possibly with pending rows) are required"; returns "discovered empty":
`(has_pending_constraints() && !process_pending_constraints()) || (!generators_are_up_to_date() && !update_generators())`
(generators(), relation_with(c), relation_with(cg), is_bounded, bounds, max_min, add_generator, unconstrain,
poly_hull_assign, time_elapse_assign). -/
def needGens (g : Gh) (s : PState) : Bool × PState :=
  if s.cpend then
    let r := processPendingConstraints g s
    if !r.1 then (true, r.2)
    else if !r.2.gup then let q := updateGenerators g r.2; (!q.1, q.2) else (false, r.2)
  else if !s.gup then let q := updateGenerators g s; (!q.1, q.2)
  else (false, s)

/-- the same idiom in `add_recycled_generators`, which calls `minimize()` instead of `update_generators()`:
`(has_pending_constraints() && !process_pending_constraints()) || (!generators_are_up_to_date() && !minimize())`. -/
def needGensMin (g : Gh) (s : PState) : Bool × PState :=
  if s.cpend then
    let r := processPendingConstraints g s
    if !r.1 then (true, r.2)
    else if !r.2.gup then let q := minimize g r.2; (!q.1, q.2) else (false, r.2)
  else if !s.gup then let q := minimize g s; (!q.1, q.2)
  else (false, s)

/-- `refine_no_check(c)`; `incons`: `c.is_inconsistent()`; `g.keep`: the inserted row keeps `con_sys`
sorted; `g.be`: the set becomes empty. -/
def refineNoCheck (g : Gh) (incons : Bool) (s : PState) : PState :=
  if s.dim == 0 then
    if incons then setEmpty (setChanges true s) else s
  else
    let s := setChanges g.be (needCons g s)
    if s.canHaveSomethingPending then
      setConstraintsPending (conInsertPending s)
    else
      clearGeneratorsUpToDate (clearConstraintsMinimized (conInsert g.keep s))

end PPLV.PolyStatus
