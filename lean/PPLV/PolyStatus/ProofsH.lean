import PPLV.PolyStatus.ProofsG
/-!
# C01 stage 2 — proofs, part H: every method on one object keeps the invariant; observers keep the set
-/
namespace PPLV.PolyStatus
open PState

theorem runSteps_cons (f : Step) (fs : List Step) (gs : List Gh) (s : PState) :
    runSteps (f :: fs) gs s = runSteps fs gs.tail (f (gs.headD {}) s) := by
  cases gs <;> rfl

theorem runSteps_inv {l : List Step} (hl : ∀ f ∈ l, InvStep f) (gs : List Gh) (s : PState) (h : Inv s) :
    Inv (runSteps l gs s) := by
  induction l generalizing gs s with
  | nil => simpa [runSteps] using h
  | cons f fs ih =>
    rw [runSteps_cons]
    exact ih (fun f' hf' => hl f' (List.mem_cons_of_mem _ hf')) _ _ (hl f (List.mem_cons_self ..) _ _ h)

theorem runSteps_obs {l : List Step} (hl : ∀ f ∈ l, ObsStep f) (gs : List Gh) (s : PState) (h : Inv s) :
    Obs s (runSteps l gs s) := by
  induction l generalizing gs s with
  | nil => simpa [runSteps] using Obs.refl h
  | cons f fs ih =>
    rw [runSteps_cons]
    have h1 := hl f (List.mem_cons_self ..) (gs.headD {}) s h
    exact h1.trans (ih (fun f' hf' => hl f' (List.mem_cons_of_mem _ hf')) _ _ h1.inv)

/-- a step that needs, and keeps, "not marked empty". -/
def EmStep (f : Step) : Prop := ∀ g s, Inv s → s.b .em = false → Inv (f g s) ∧ (f g s).b .em = false
/-- a step that needs "not marked empty". -/
def PreStep (f : Step) : Prop := ∀ g s, Inv s → s.b .em = false → Inv (f g s)

theorem InvStep.preStep {f : Step} (h : InvStep f) : PreStep f := fun g s hs _ => h g s hs

/-- a prefix of steps that keep "not marked empty", one step that needs it, then unconditional steps. -/
theorem runSteps_em {l1 l2 : List Step} {last : Step} (h1 : ∀ f ∈ l1, EmStep f) (hl : PreStep last)
    (h2 : ∀ f ∈ l2, InvStep f) (gs : List Gh) (s : PState) (h : Inv s) (he : s.b .em = false) :
    Inv (runSteps (l1 ++ last :: l2) gs s) := by
  induction l1 generalizing gs s with
  | nil =>
    simp only [List.nil_append]
    rw [runSteps_cons]
    exact runSteps_inv h2 _ _ (hl _ _ h he)
  | cons f fs ih =>
    simp only [List.cons_append]
    rw [runSteps_cons]
    obtain ⟨k1, k2⟩ := h1 f (List.mem_cons_self ..) (gs.headD {}) s h he
    exact ih (fun f' hf' => h1 f' (List.mem_cons_of_mem _ hf')) _ _ k1 k2

theorem runSteps_em' {l1 l2 : List Step} (h1 : ∀ f ∈ l1, EmStep f) (h2 : ∀ f ∈ l2, InvStep f)
    (gs : List Gh) (s : PState) (h : Inv s) (he : s.b .em = false) : Inv (runSteps (l1 ++ l2) gs s) := by
  induction l1 generalizing gs s with
  | nil => simpa using runSteps_inv h2 gs s h
  | cons f fs ih =>
    simp only [List.cons_append]
    rw [runSteps_cons]
    obtain ⟨k1, k2⟩ := h1 f (List.mem_cons_self ..) (gs.headD {}) s h he
    exact ih (fun f' hf' => h1 f' (List.mem_cons_of_mem _ hf')) _ _ k1 k2

theorem refineNoCheck_emStep : EmStep (fun g s => refineNoCheck g false s) := fun g s h he =>
  ⟨(refineNoCheck_spec g false s h he).1, (refineNoCheck_spec g false s h he).2.1 rfl⟩

theorem addDimsEmbed_emStep (f : Facts) : EmStep (fun g s => addSpaceDimensionsAndEmbed g f s) := fun g s h he =>
  ⟨(addSpaceDimensionsAndEmbed_spec g f s h).1, by rw [(addSpaceDimensionsAndEmbed_spec g f s h).2]; exact he⟩

theorem swapDims_spec (a b : Bool) (t : PState) (h : Inv t) (he : t.b .em = false) :
    Inv (let s := if t.cup then conRewrite a t else t
         if s.gup then genRewrite b s else s)
    ∧ (let s := if t.cup then conRewrite a t else t
       if s.gup then genRewrite b s else s).b .em = false := by
  constructor <;> spec_tac [t.b .cup, t.b .gup] using []

theorem addDimsSwap_emStep : EmStep (fun g s =>
      let s := addSpaceDimensionsAndEmbed g { m := 1 } s
      let s := if s.cup then conRewrite g.aux s else s
      if s.gup then genRewrite g.fast s else s) := by
  intro g s h he
  obtain ⟨k1, k2⟩ := addSpaceDimensionsAndEmbed_spec g { m := 1 } s h
  exact swapDims_spec g.aux g.fast _ k1 (by rw [k2]; exact he)

/-! ### the step lists -/

theorem generalizedAffineImageSteps_inv (f : Facts) : ∀ st ∈ generalizedAffineImageSteps f, InvStep st := by
  intro st hst
  unfold generalizedAffineImageSteps at hst
  split at hst
  · simp at hst; subst hst; exact affineImage_inv f
  · simp at hst
    rcases hst with rfl | rfl | rfl | ⟨_, rfl⟩
    · exact affineImage_inv f
    · exact isEmpty_obsStep.invStep
    · exact unlessEm_inv fun g s h _ => addGenerator_inv g s h
    · exact strictImageTail_inv

theorem minimizedConstraintsSteps_obs : ∀ st ∈ minimizedConstraintsSteps, ObsStep st := by
  intro st hst
  simp only [minimizedConstraintsSteps, List.mem_cons, List.mem_singleton, List.not_mem_nil, or_false] at hst
  rcases hst with rfl | rfl
  · exact minimizeOrStrongC_obs
  · exact constraints_obsStep

theorem minimizedGeneratorsSteps_obs : ∀ st ∈ minimizedGeneratorsSteps, ObsStep st := by
  intro st hst
  simp only [minimizedGeneratorsSteps, List.mem_cons, List.mem_singleton, List.not_mem_nil, or_false] at hst
  rcases hst with rfl | rfl
  · exact minimizeOrStrongG_obs
  · exact generators_obsStep

theorem unlessEm_obsStep {f : Step} (hf : ObsStep f) : ObsStep (unlessEm f) :=
  unlessEm_obs fun g s h _ => hf g s h

theorem mem2 {α} {x a b : α} (h : x ∈ [a, b]) : x = a ∨ x = b := by
  simpa [List.mem_cons] using h
theorem mem3 {α} {x a b c : α} (h : x ∈ [a, b, c]) : x = a ∨ x = b ∨ x = c := by
  simpa [List.mem_cons] using h

theorem refineUnlessEm_inv : InvStep (unlessEm fun g s => refineNoCheck g false s) := refineNoCheck_step false
theorem addGeneratorsUnlessEm_inv : InvStep (unlessEm fun g s => addGenerators g {} s) :=
  unlessEm_inv fun g s h _ => addGenerators_inv {} g s h

/-- the tail shared by the "common variable" cases of the two-expression images. -/
theorem commonTail_inv : ∀ st ∈ [fun g s => (isEmpty g s).2, unlessEm fun g s => addGenerators g {} s,
    unlessEm fun g s => refineNoCheck g false s, dropLastDim], InvStep st := by
  intro st hst
  simp only [List.mem_cons, List.not_mem_nil, or_false] at hst
  rcases hst with rfl | rfl | rfl | rfl
  · exact isEmpty_obsStep.invStep
  · exact addGeneratorsUnlessEm_inv
  · exact refineUnlessEm_inv
  · exact dropLastDim_inv

/-- `generalized_affine_image(lhs, relsym, rhs)`. -/
theorem img2 (f : Facts) (s : PState) (gs : List Gh) (h : Inv s) :
    Inv (runSteps (generalizedAffineImage2Steps f s) gs s) := by
  unfold generalizedAffineImage2Steps
  split
  · simpa [runSteps] using h
  next he =>
  have he' : s.b .em = false := by simpa using he
  split
  · exact runSteps_em (l1 := []) (last := fun g s => refineNoCheck g g.be s) (l2 := [])
      (fun st hst => by simp at hst) (fun g s h he => (refineNoCheck_spec g g.be s h he).1)
      (fun st hst => by simp at hst) _ _ h he'
  split
  · exact runSteps_em (l1 := [fun g s => addSpaceDimensionsAndEmbed g { m := 1 } s, fun g s => refineNoCheck g false s])
      (last := fun g s => (isEmpty g s).2)
      (l2 := [unlessEm fun g s => addGenerators g {} s, unlessEm fun g s => refineNoCheck g false s, dropLastDim])
      (fun st hst => by rcases mem2 hst with rfl | rfl
                        · exact addDimsEmbed_emStep _
                        · exact refineNoCheck_emStep)
      isEmpty_obsStep.invStep.preStep
      (fun st hst => by rcases mem3 hst with rfl | rfl | rfl
                        · exact addGeneratorsUnlessEm_inv
                        · exact refineUnlessEm_inv
                        · exact dropLastDim_inv) _ _ h he'
  · refine runSteps_inv (fun st hst => ?_) _ _ h
    rcases mem3 hst with rfl | rfl | rfl
    · exact isEmpty_obsStep.invStep
    · exact addGeneratorsUnlessEm_inv
    · exact refineUnlessEm_inv

/-- every method on one object keeps the invariant. -/
theorem apply1_inv (o : Op1) (gs : List Gh) (f : Facts) (s : PState) (h : Inv s) : Inv (apply1 o gs f s) := by
  unfold apply1
  cases o <;> simp only [stepsOf]
  case constraints => exact runSteps_inv (fun st hst => by simp at hst; subst hst; exact constraints_obsStep.invStep) _ _ h
  case minimizedConstraints => exact (runSteps_obs minimizedConstraintsSteps_obs _ _ h).inv
  case generators => exact runSteps_inv (fun st hst => by simp at hst; subst hst; exact generators_obsStep.invStep) _ _ h
  case minimizedGenerators => exact (runSteps_obs minimizedGeneratorsSteps_obs _ _ h).inv
  case isEmpty => exact runSteps_inv (fun st hst => by simp at hst; subst hst; exact isEmpty_obsStep.invStep) _ _ h
  case isUniverse => exact runSteps_inv (fun st hst => by simp at hst; subst hst; exact isUniverse_obsStep.invStep) _ _ h
  case isBounded => exact runSteps_inv (fun st hst => by simp at hst; subst hst; exact isBounded_obsStep.invStep) _ _ h
  case bounds => exact runSteps_inv (fun st hst => by simp at hst; subst hst; exact isBounded_obsStep.invStep) _ _ h
  case maxMin => exact runSteps_inv (fun st hst => by simp at hst; subst hst; exact isBounded_obsStep.invStep) _ _ h
  case isTopologicallyClosed =>
    exact runSteps_inv (fun st hst => by simp at hst; subst hst; exact isTopologicallyClosed_obsStep.invStep) _ _ h
  case constrains => exact runSteps_inv (fun st hst => by simp at hst; subst hst; exact constrains_obsStep.invStep) _ _ h
  case relationWithCon => exact runSteps_inv (fun st hst => by simp at hst; subst hst; exact relationWithCon_obsStep.invStep) _ _ h
  case relationWithCg => exact runSteps_inv (fun st hst => by simp at hst; subst hst; exact relationWithCon_obsStep.invStep) _ _ h
  case relationWithGen =>
    refine runSteps_inv (fun st hst => ?_) _ _ h
    rcases mem2 hst with rfl | rfl
    · exact isEmpty_obsStep.invStep
    · exact relationWithGenTail_obs.invStep
  case affineDimension =>
    refine runSteps_inv (fun st hst => ?_) _ _ h
    simp only [affineDimensionSteps, minimizedConstraintsSteps, List.map, List.mem_cons, List.not_mem_nil, or_false] at hst
    rcases hst with rfl | rfl | rfl
    · exact isEmpty_obsStep.invStep
    · exact (unlessEm_obsStep minimizeOrStrongC_obs).invStep
    · exact (unlessEm_obsStep constraints_obsStep).invStep
  case addConstraint => exact runSteps_inv (fun st hst => by simp at hst; subst hst; exact addConstraint_inv f) _ _ h
  case addConstraints => exact runSteps_inv (fun st hst => by simp at hst; subst hst; exact addConstraints_inv f) _ _ h
  case refineWithConstraint => exact runSteps_inv (fun st hst => by simp at hst; subst hst; exact refineWithConstraint_inv f) _ _ h
  case refineWithConstraints => exact runSteps_inv (fun st hst => by simp at hst; subst hst; exact refineWithConstraints_inv f) _ _ h
  case addGenerator => exact runSteps_inv (fun st hst => by simp at hst; subst hst; exact addGenerator_inv) _ _ h
  case addGenerators => exact runSteps_inv (fun st hst => by simp at hst; subst hst; exact addGenerators_inv f) _ _ h
  case unconstrain => exact runSteps_inv (fun st hst => by simp at hst; subst hst; exact unconstrain_inv) _ _ h
  case affineImage => exact runSteps_inv (fun st hst => by simp at hst; subst hst; exact affineImage_inv f) _ _ h
  case affinePreimage => exact runSteps_inv (fun st hst => by simp at hst; subst hst; exact affinePreimage_inv f) _ _ h
  case generalizedAffineImage => exact runSteps_inv (generalizedAffineImageSteps_inv f) _ _ h
  case generalizedAffinePreimage =>
    split
    · simpa [runSteps] using h
    next he =>
    have he' : s.b .em = false := by simpa using he
    unfold generalizedAffinePreimageSteps
    split
    · exact runSteps_inv (fun st hst => by simp at hst; subst hst; exact affinePreimage_inv f) _ _ h
    split
    · exact runSteps_inv (generalizedAffineImageSteps_inv f) _ _ h
    · exact runSteps_em (l1 := [fun g s => refineNoCheck g false s]) (last := unconstrain) (l2 := [])
        (fun st hst => by simp at hst; subst hst; exact refineNoCheck_emStep) unconstrain_inv.preStep
        (fun st hst => by simp at hst) _ _ h he'
  case addSpaceDimensionsAndEmbed =>
    exact runSteps_inv (fun st hst => by simp at hst; subst hst; exact addSpaceDimensionsAndEmbed_inv f) _ _ h
  case addSpaceDimensionsAndProject =>
    exact runSteps_inv (fun st hst => by simp at hst; subst hst; exact addSpaceDimensionsAndProject_inv f) _ _ h
  case removeSpaceDimensions =>
    exact runSteps_inv (fun st hst => by simp at hst; subst hst; exact removeSpaceDimensions_inv f) _ _ h
  case removeHigherSpaceDimensions =>
    exact runSteps_inv (fun st hst => by simp at hst; subst hst; exact fun g s h => removeHigherSpaceDimensions_inv g f s h) _ _ h
  case topologicalClosureAssign =>
    split
    · simpa [runSteps] using h
    · refine runSteps_inv (fun st hst => ?_) _ _ h
      rcases mem2 hst with rfl | rfl
      · exact isEmpty_obsStep.invStep
      · exact closureTail_inv
  case expandSpaceDimension =>
    split
    · simpa [runSteps] using h
    · refine runSteps_inv (fun st hst => ?_) _ _ h
      rcases mem3 hst with rfl | rfl | rfl
      · exact addSpaceDimensionsAndEmbed_inv f
      · exact constraints_obsStep.invStep
      · exact fun g s h => addConstraints_inv _ g s h
  case mapSpaceDimensions =>
    unfold mapSpaceDimensionsSteps
    split
    · simpa [runSteps] using h
    split
    · exact runSteps_inv (fun st hst => by simp only [List.mem_cons, List.not_mem_nil, or_false] at hst; subst hst; exact mapPermute_inv) _ _ h
    · refine runSteps_inv (fun st hst => ?_) _ _ h
      rcases mem2 hst with rfl | rfl
      · exact generators_obsStep.invStep
      · exact mapRebuild_inv f
  case generalizedAffineImage2 => exact img2 f s gs h
  case generalizedAffinePreimage2 =>
    unfold generalizedAffinePreimage2Steps
    split
    · simpa [runSteps] using h
    next he =>
    have he' : s.b .em = false := by simpa using he
    split
    · exact img2 f s gs h
    split
    · exact runSteps_em (l1 := [fun g s => addSpaceDimensionsAndEmbed g { m := 1 } s, fun g s => refineNoCheck g false s])
        (last := fun g s => (isEmpty g s).2)
        (l2 := [unlessEm fun g s => addGenerators g {} s, unlessEm fun g s => refineNoCheck g false s, dropLastDim])
        (fun st hst => by rcases mem2 hst with rfl | rfl
                          · exact addDimsEmbed_emStep _
                          · exact refineNoCheck_emStep)
        isEmpty_obsStep.invStep.preStep
        (fun st hst => by rcases mem3 hst with rfl | rfl | rfl
                          · exact addGeneratorsUnlessEm_inv
                          · exact refineUnlessEm_inv
                          · exact dropLastDim_inv) _ _ h he'
    · exact runSteps_em (l1 := [fun g s => refineNoCheck g false s]) (last := fun g s => (isEmpty g s).2)
        (l2 := [unlessEm fun g s => addGenerators g {} s])
        (fun st hst => by simp at hst; subst hst; exact refineNoCheck_emStep)
        isEmpty_obsStep.invStep.preStep
        (fun st hst => by simp only [List.mem_cons, List.not_mem_nil, or_false] at hst; subst hst; exact addGeneratorsUnlessEm_inv)
        _ _ h he'
  case boundedAffineImage =>
    unfold boundedAffineImageSteps
    split
    · simpa [runSteps] using h
    next he =>
    have he' : s.b .em = false := by simpa using he
    split
    · refine runSteps_inv (fun st hst => ?_) _ _ h
      rcases List.mem_append.mp hst with hm | hm
      · exact generalizedAffineImageSteps_inv _ st hm
      · simp only [List.mem_cons, List.not_mem_nil, or_false] at hm; subst hm; exact refineUnlessEm_inv
    · rw [List.append_assoc]
      refine runSteps_em' (fun st hst => ?_) (fun st hst => ?_) _ _ h he'
      · rcases mem2 hst with rfl | rfl
        · exact addDimsEmbed_emStep _
        · exact refineNoCheck_emStep
      · rcases List.mem_append.mp hst with hm | hm
        · exact generalizedAffineImageSteps_inv _ st hm
        · rcases mem2 hm with rfl | rfl
          · exact refineUnlessEm_inv
          · exact dropLastDim_inv
  case boundedAffinePreimage =>
    unfold boundedAffinePreimageSteps
    split
    · simpa [runSteps] using h
    next he =>
    have he' : s.b .em = false := by simpa using he
    split
    · exact runSteps_em (l1 := [fun g s => refineNoCheck g false s, fun g s => refineNoCheck g false s])
        (last := unconstrain) (l2 := [])
        (fun st hst => by rcases mem2 hst with rfl | rfl <;> exact refineNoCheck_emStep)
        unconstrain_inv.preStep (fun st hst => by simp at hst) _ _ h he'
    · exact runSteps_em
        (l1 := [fun g s =>
                  let s := addSpaceDimensionsAndEmbed g { m := 1 } s
                  let s := if s.cup then conRewrite g.aux s else s
                  if s.gup then genRewrite g.fast s else s,
                fun g s => refineNoCheck g false s, fun g s => refineNoCheck g false s])
        (last := dropLastDim) (l2 := [])
        (fun st hst => by rcases mem3 hst with rfl | rfl | rfl
                          · exact addDimsSwap_emStep
                          · exact refineNoCheck_emStep
                          · exact refineNoCheck_emStep)
        dropLastDim_inv.preStep (fun st hst => by simp at hst) _ _ h he'

/-- the observers on one object only re-represent the set. -/
theorem apply1_obs (o : Op1) (ho : o.isObserver = true) (gs : List Gh) (f : Facts) (s : PState) (h : Inv s) :
    Obs s (apply1 o gs f s) := by
  unfold apply1
  cases o <;> (try (exact absurd ho (by decide))) <;> simp only [stepsOf]
  case constraints => exact runSteps_obs (fun st hst => by simp at hst; subst hst; exact constraints_obsStep) _ _ h
  case minimizedConstraints => exact runSteps_obs minimizedConstraintsSteps_obs _ _ h
  case generators => exact runSteps_obs (fun st hst => by simp at hst; subst hst; exact generators_obsStep) _ _ h
  case minimizedGenerators => exact runSteps_obs minimizedGeneratorsSteps_obs _ _ h
  case isEmpty => exact runSteps_obs (fun st hst => by simp at hst; subst hst; exact isEmpty_obsStep) _ _ h
  case isUniverse => exact runSteps_obs (fun st hst => by simp at hst; subst hst; exact isUniverse_obsStep) _ _ h
  case isBounded => exact runSteps_obs (fun st hst => by simp at hst; subst hst; exact isBounded_obsStep) _ _ h
  case bounds => exact runSteps_obs (fun st hst => by simp at hst; subst hst; exact isBounded_obsStep) _ _ h
  case maxMin => exact runSteps_obs (fun st hst => by simp at hst; subst hst; exact isBounded_obsStep) _ _ h
  case isTopologicallyClosed =>
    exact runSteps_obs (fun st hst => by simp at hst; subst hst; exact isTopologicallyClosed_obsStep) _ _ h
  case constrains => exact runSteps_obs (fun st hst => by simp at hst; subst hst; exact constrains_obsStep) _ _ h
  case relationWithCon => exact runSteps_obs (fun st hst => by simp at hst; subst hst; exact relationWithCon_obsStep) _ _ h
  case relationWithCg => exact runSteps_obs (fun st hst => by simp at hst; subst hst; exact relationWithCon_obsStep) _ _ h
  case relationWithGen =>
    refine runSteps_obs (fun st hst => ?_) _ _ h
    rcases mem2 hst with rfl | rfl
    · exact isEmpty_obsStep
    · exact relationWithGenTail_obs
  case affineDimension =>
    refine runSteps_obs (fun st hst => ?_) _ _ h
    simp only [affineDimensionSteps, minimizedConstraintsSteps, List.map, List.mem_cons, List.not_mem_nil, or_false] at hst
    rcases hst with rfl | rfl | rfl
    · exact isEmpty_obsStep
    · exact unlessEm_obsStep minimizeOrStrongC_obs
    · exact unlessEm_obsStep constraints_obsStep

end PPLV.PolyStatus
