import PPLV.PolyStatus.Helpers
/-!
# C01 stage 2 — the public methods of `Polyhedron`, code-shaped (one object)

`src/Polyhedron_public.cc`, `src/Polyhedron_chdims.cc`, `src/Polyhedron_nonpublic.cc` (constructors,
`operator=`), `src/Polyhedron_inlines.hh` (`m_swap`, `is_empty`), `src/Polyhedron_templates.hh`
(`map_space_dimensions`).  Exceptional exits are not modelled (a call that throws is not judged).
`Facts` are the properties of the *arguments* of a call the flag logic tests; they are supplied by the
journal.  Binary methods are in `Ops2.lean`.
-/
namespace PPLV.PolyStatus
open PState

/-- What the flag logic of a call tests about its arguments. -/
structure Facts where
  strict : Bool := false    -- the constraint / relation symbol is strict
  taut : Bool := false      -- `c.is_tautological()`
  incons : Bool := false    -- `c.is_inconsistent()` / some row of `cs` is inconsistent (0-dim constructor)
  norows : Bool := false    -- the system argument has no rows
  nontriv : Bool := false   -- `cs.begin() != cs.end()`
  hasstrict : Bool := false -- `cs.has_strict_inequalities()`
  inv : Bool := false       -- `expr.coefficient(var) != 0`
  eq : Bool := false        -- relation symbol `EQUAL` / the congruence is an equality
  lconst : Bool := false    -- `lhs` has no variable
  common : Bool := false    -- `lhs` and `rhs` have a common variable
  lbv : Bool := false       -- `lb_expr.coefficient(var) != 0`
  ubv : Bool := false       -- `ub_expr.coefficient(var) != 0`
  point : Bool := false     -- the generator is a point
  m : Nat := 0              -- number of dimensions added
  k : Nat := 0              -- number of variables in the set argument
  nd : Nat := 0             -- new space dimension
  dim : Nat := 0            -- space dimension of a constructor argument
deriving Repr, Inhabited

/-- One call of a (public or private) method inside a composite public method: it has its own ghost inputs. -/
abbrev Step := Gh → PState → PState

/-- run the steps of a composite method, the i-th step with the i-th ghost input. -/
def runSteps : List Step → List Gh → PState → PState
  | [], _, s => s
  | f :: fs, [], s => runSteps fs [] (f {} s)
  | f :: fs, g :: gs, s => runSteps fs gs (f g s)

/-- a step that is skipped when the receiver is marked empty (`if (!marked_empty()) …`, or the early
`return` after `is_empty()`). -/
def unlessEm (f : Step) : Step := fun g s => if s.em then s else f g s

/-! ## constructors -/

/-- a `Polyhedron` before the body of a constructor runs: empty systems, `Status()` = ZE. -/
def fresh (nnc : Bool) : PState := { nnc := nnc, b := fun f => f == .csS || f == .gsS || f == .rC || f == .rG }

/-- `Polyhedron(topol, num_dimensions, kind)`. -/
def ctorDegenerate (nnc : Bool) (dim : Nat) (empty : Bool) (g : Gh) : PState :=
  let s := fresh nnc
  if empty then ((stSetEmpty s).setDim dim).set .emp true
  else if dim > 0 then
    -- add_low_level_constraints, adjust_topology_and_space_dimension
    setConstraintsMinimized (s.setDim dim |>.set .vC true |>.set .mC true |>.set .csS (!nnc || g.keep) |>.set .rC (!nnc || g.keep))
  else s.setDim dim

/-- `Polyhedron(topol, cs)`; `f.dim = cs.space_dimension()`, `f.incons`: some row is inconsistent. -/
def ctorCons (nnc : Bool) (f : Facts) (g : Gh) : PState :=
  let s := (fresh nnc).setDim f.dim
  if f.dim > 0 then
    -- swap(con_sys, cs_copy); [pending rows: set_sorted(false), unset]; add_low_level_constraints
    setConstraintsUpToDate (s.set .vC true |>.set .csS g.keep |>.set .rC g.keep |>.set .emp g.be)
  else if f.incons then setEmpty (s.set .emp true)
  else s

/-- `Polyhedron(topol, gs)`. -/
def ctorGens (nnc : Bool) (f : Facts) (g : Gh) : PState :=
  let s := (fresh nnc).setDim f.dim
  if f.norows then (stSetEmpty s).set .emp true
  else if f.dim > 0 then
    setGeneratorsUpToDate (s.set .vG true |>.set .gsS g.keep |>.set .rG g.keep)
  else s

/-- `Polyhedron(const Polyhedron& y)`: status and dimension copied; a system / matrix is copied
(`assign_with_pending`) only if its flag is set. -/
def copyCtor (y : PState) : PState :=
  { nnc := y.nnc, dim := y.dim, ver := y.ver,
    b := fun f => match f with
      | .em => y.em | .cup => y.cup | .gup => y.gup | .cmin => y.cmin | .gmin => y.gmin
      | .satc => y.satc | .satg => y.satg | .cpend => y.cpend | .gpend => y.gpend
      | .emp => y.emp
      | .csS => if y.cup then y.csS else true | .rC => if y.cup then y.rC else true
      | .vC => y.cup && y.vC | .mC => y.cup && y.mC | .pC => y.cup && y.pC
      | .gsS => if y.gup then y.gsS else true | .rG => if y.gup then y.rG else true
      | .vG => y.gup && y.vG | .mG => y.gup && y.mG | .pG => y.gup && y.pG
      | .dd => y.cup && y.gup && y.dd
      | .vSC => y.satc && y.vSC && y.cup && y.gup | .vSG => y.satg && y.vSG && y.cup && y.gup }

/-- `operator=(y)`. -/
def assign (x y : PState) : PState :=
  let x := (x.setDim y.dim |>.set .emp y.emp).bump
  if y.em then setEmpty x
  else if y.dim == 0 then setZeroDimUniv x
  else
    let x := x.set .em y.em |>.set .cup y.cup |>.set .gup y.gup |>.set .cmin y.cmin |>.set .gmin y.gmin
              |>.set .satc y.satc |>.set .satg y.satg |>.set .cpend y.cpend |>.set .gpend y.gpend
    -- systems and matrices not assigned keep their old (now meaningless) contents
    let x := if y.cup then x.set .csS y.csS |>.set .rC y.rC |>.set .vC y.vC |>.set .mC y.mC |>.set .pC y.pC
             else x.set .vC false |>.set .mC false |>.set .pC false
    let x := if y.gup then x.set .gsS y.gsS |>.set .rG y.rG |>.set .vG y.vG |>.set .mG y.mG |>.set .pG y.pG
             else x.set .vG false |>.set .mG false |>.set .pG false
    x.set .dd (y.cup && y.gup && y.dd) |>.set .vSC (y.satc && y.vSC) |>.set .vSG (y.satg && y.vSG)

/-! ## observers -/

/-- `constraints()`. -/
def constraints (g : Gh) (s : PState) : PState :=
  if s.em then s.set .csS true |>.set .rC true     -- the unsatisfiable system of the right dimension is installed
  else if s.dim == 0 then s
  else needCons g s

/-- `minimized_constraints()`: `minimize()` / `strongly_minimize_constraints()`, then `constraints()`. -/
def minimizedConstraintsSteps : List Step :=
  [fun g s => if !s.nnc then (minimize g s).2 else (stronglyMinimizeConstraints g s).2, constraints]

/-- `generators()`. -/
def generators (g : Gh) (s : PState) : PState :=
  if s.em then s.set .gsS true |>.set .rG true
  else if s.dim == 0 then s
  else
    let r := needGens g s
    if r.1 then r.2.set .gsS true |>.set .rG true
    else if r.2.nnc && r.2.gmin && !r.2.gpend then obtainSortedGenerators r.2
    else r.2

/-- `minimized_generators()`: `minimize()` / `strongly_minimize_generators()`, then `generators()`. -/
def minimizedGeneratorsSteps : List Step :=
  [fun g s => if !s.nnc then (minimize g s).2 else (stronglyMinimizeGenerators g s).2, generators]

/-- `relation_with(const Constraint&)`, and `relation_with(const Congruence&)` (which either converts an equality
to a constraint or needs the generators once and then calls `relation_with(c)`). -/
def relationWithCon (g : Gh) (s : PState) : PState :=
  if s.em then s else if s.dim == 0 then s else (needGens g s).2

/-- `relation_with(const Generator&)`: `is_empty()`, then the constraints are required. -/
def relationWithGenSteps : List Step :=
  [fun g s => (isEmpty g s).2, unlessEm fun g s => if s.dim == 0 then s else needCons g s]

/-- `is_universe()`; `g.fast`: one of the fast-fail / success-first tests on the generators decided. -/
def isUniverse (g : Gh) (s : PState) : PState :=
  if s.em then s else if s.dim == 0 then s
  else if !s.gpend && s.cup then s
  else if g.fast then s
  else if s.gpend then processPendingGenerators g s
  else if !s.cmin then (minimize g s).2
  else s

/-- `is_bounded()`, `bounds()`, `max_min()` (for `dim > 0`), `frequency()`. -/
def isBounded (g : Gh) (s : PState) : PState :=
  if s.dim == 0 then s else if s.em then s else (needGens g s).2

/-- `is_topologically_closed()`. -/
def isTopologicallyClosed (g : Gh) (s : PState) : PState :=
  if !s.nnc then s else if s.em then s else if s.dim == 0 then s
  else
    let r := if s.hasSomethingPending then processPending g s else (true, s)
    if !r.1 then r.2
    else if r.2.gmin then r.2
    else (stronglyMinimizeConstraints g r.2).2

/-- `constrains(var)`; `g.fast`: the scan of the generators decided. -/
def constrains (g : Gh) (s : PState) : PState :=
  if s.em then s
  else if s.gup && !s.cpend then
    if s.cup && !s.gpend then s
    else if g.fast then s
    else needCons g s
  else (minimize g s).2

/-- `affine_dimension()`: `is_empty()`, then `minimized_constraints()`. -/
def affineDimensionSteps : List Step :=
  (fun g s => (isEmpty g s).2) :: minimizedConstraintsSteps.map unlessEm

/-! ## mutators -/

/-- the tail of every "add constraints" method: rows inserted into `con_sys`, pending if possible. -/
def insertCons (g : Gh) (s : PState) : PState :=
  let s := setChanges g.be s
  if s.canHaveSomethingPending then setConstraintsPending (conInsertPending s)
  else clearGeneratorsUpToDate (clearConstraintsMinimized (conInsert g.keep s))

/-- the tail of every "add generators" method (receiver known to be non-empty, generators available). -/
def insertGens (g : Gh) (s : PState) : PState :=
  let s := setChanges false s
  if s.canHaveSomethingPending then setGeneratorsPending (genInsertPending s)
  else clearConstraintsUpToDate (clearGeneratorsMinimized (genInsert g.keep s))

/-- `add_constraint(c)`. -/
def addConstraint (g : Gh) (f : Facts) (s : PState) : PState :=
  if f.strict && !s.nnc then
    if f.taut then s else setEmpty (setChanges true s)   -- (a non-trivial strict inequality throws)
  else if !s.em then refineNoCheck g f.incons s
  else s

/-- `refine_with_constraint(c)`. -/
def refineWithConstraint (g : Gh) (f : Facts) (s : PState) : PState :=
  if !s.em then refineNoCheck g f.incons s else s

/-- `add_recycled_constraints(cs)` (= `add_constraints`). -/
def addConstraints (g : Gh) (f : Facts) (s : PState) : PState :=
  if !s.nnc && f.hasstrict then setEmpty (setChanges true s)
  else if f.norows then s
  else if s.dim == 0 then
    if f.nontriv then stSetEmpty (setChanges true s) else s
  else if s.em then s
  else insertCons g (needCons g s)

/-- `refine_with_constraints(cs)`. -/
def refineWithConstraints (g : Gh) (f : Facts) (s : PState) : PState :=
  if f.norows then s
  else if s.dim == 0 then
    if f.nontriv then stSetEmpty (setChanges true s) else s
  else if s.em then s
  else insertCons g (needCons g s)

/-- the receiver was (found) empty: the point becomes its only generator (`add_generator`). -/
def firstPoint (g : Gh) (s : PState) : PState :=
  let s := (s.set .emp false |>.set .vG true |>.set .mG true |>.set .dd false |>.set .vC false
              |>.set .gsS (s.gsS && (!s.nnc || g.keep)) |>.set .rG (s.rG && (!s.nnc || g.keep))).bump
  setGeneratorsMinimized (clearEmpty s)

/-- `add_generator(g)`. -/
def addGenerator (g : Gh) (s : PState) : PState :=
  if s.dim == 0 then
    if s.em then setZeroDimUniv (s.set .emp false).bump else s
  else
    let r := if s.em then (true, s) else needGens g s
    if r.1 then firstPoint g r.2 else insertGens g r.2

/-- the receiver was (found) empty: `gs` becomes its generator system (`add_recycled_generators`). -/
def swapGens (g : Gh) (s : PState) : PState :=
  let s := (s.set .emp false |>.set .vG true |>.set .mG false |>.set .dd false |>.set .vC false
              |>.set .gsS g.keep |>.set .rG g.keep |>.set .pG false).bump
  clearEmpty (setGeneratorsUpToDate s)

/-- `add_recycled_generators(gs)` (= `add_generators`). -/
def addGenerators (g : Gh) (f : Facts) (s : PState) : PState :=
  if f.norows then s
  else if s.dim == 0 then setZeroDimUniv (s.set .emp false).bump
  else
    let r := needGensMin g s
    if r.1 then
      -- swap(gen_sys, gs); set_generators_up_to_date(); clear_empty();
      swapGens g r.2
    else insertGens g r.2

/-- `unconstrain(var)` / `unconstrain(vars)` (non-empty `vars`). -/
def unconstrain (g : Gh) (s : PState) : PState :=
  if s.dim == 0 then s      -- (throws: the variable is not a dimension of the polyhedron)
  else
  let r := if s.em then (true, s) else needGens g s
  if r.1 then r.2 else insertGens g r.2

/-- `affine_image(var, expr, d)`; `f.inv`: the transformation is invertible. -/
def affineImage (g : Gh) (f : Facts) (s : PState) : PState :=
  if s.dim == 0 then s      -- (throws: the variable is not a dimension of the polyhedron)
  else if s.em then s
  else if f.inv then
    -- both systems, if up to date, are transformed in place: minimal form and saturators preserved
    let s := setChanges false s
    let s := if s.gup then genRewrite g.keep s else s
    let s := if s.cup then conRewrite g.aux s else s
    s.set .vC (s.cup && s.vC) |>.set .vG (s.gup && s.vG) |>.set .dd (s.cup && s.gup && s.dd)
      |>.set .vSC (s.cup && s.gup && s.vSC) |>.set .vSG (s.cup && s.gup && s.vSG)
  else
    let r : Bool × PState :=
      if s.hasSomethingPending then removePendingToObtainGenerators g s
      else if !s.gup then minimize g s else (true, s)
    let s := r.2
    if !s.em then
      let s := genRewrite g.keep (setChanges false s)
      let s := s.set .vC false |>.set .dd false |>.set .mG false |>.set .vSC false |>.set .vSG false
      clearSatGUpToDate (clearSatCUpToDate (clearGeneratorsMinimized (clearConstraintsUpToDate s)))
    else s

/-- `affine_preimage(var, expr, d)`. -/
def affinePreimage (g : Gh) (f : Facts) (s : PState) : PState :=
  if s.dim == 0 then s      -- (throws: the variable is not a dimension of the polyhedron)
  else if s.em then s
  else if f.inv then
    let s := setChanges false s
    let s := if s.cup then conRewrite g.aux s else s
    let s := if s.gup then genRewrite g.keep s else s
    s.set .vC (s.cup && s.vC) |>.set .vG (s.gup && s.vG) |>.set .dd (s.cup && s.gup && s.dd)
      |>.set .vSC (s.cup && s.gup && s.vSC) |>.set .vSG (s.cup && s.gup && s.vSG)
  else
    let s := if s.hasSomethingPending then removePendingToObtainConstraints g s
             else if !s.cup then (minimize g s).2 else s
    let s := conRewrite g.keep (setChanges g.be s)
    let s := s.set .vG false |>.set .dd false |>.set .mC false |>.set .vSC false |>.set .vSG false
    clearSatGUpToDate (clearSatCUpToDate (clearConstraintsMinimized (clearGeneratorsUpToDate s)))

/-- the end of `generalized_affine_image(var, …)` for a strict relation symbol: `minimize()`, every point split
into a closure point and a displaced point, `set_sorted(false)`, `unset_pending_rows()`, flags cleared. -/
def strictImageTail (g : Gh) (s : PState) : PState :=
  let s := (minimize g s).2
  let s := (setChanges false s).set .gsS false |>.set .rG false |>.set .pG false
             |>.set .vC false |>.set .dd false |>.set .mG false |>.set .vSC false |>.set .vSG false
  clearSatGUpToDate (clearSatCUpToDate (clearGeneratorsMinimized (clearConstraintsUpToDate s)))

/-- `generalized_affine_image(var, relsym, expr, d)`: `affine_image`; unless `relsym` is `EQUAL`: `is_empty()`
(return if empty), `add_generator(ray)`, and for a strict symbol the tail above. -/
def generalizedAffineImageSteps (f : Facts) : List Step :=
  if f.eq then [fun g s => affineImage g f s]
  else
    [fun g s => affineImage g f s, fun g s => (isEmpty g s).2, unlessEm fun g s => addGenerator g s]
    ++ (if f.strict then [unlessEm strictImageTail] else [])

/-- `generalized_affine_preimage(var, relsym, expr, d)` (receiver not marked empty). -/
def generalizedAffinePreimageSteps (f : Facts) : List Step :=
  if f.eq then [fun g s => affinePreimage g f s]
  else if f.inv then generalizedAffineImageSteps f
  else [fun g s => refineNoCheck g false s, unconstrain]

/-- the body of `topological_closure_assign()` after the emptiness test; `g.chg`: a strict inequality was relaxed. -/
def closureTail (g : Gh) (s : PState) : PState :=
  let r := if s.cpend then processPendingConstraints g s else (true, s)
  if !r.1 then r.2
  else
    let s := r.2
    if !s.gpend && s.cup then
      if g.chg then
        -- strict rows rewritten, eps_leq_one inserted, set_sorted(false)
        let s := conSetSorted false (conInsert false (setChanges false s))
        clearConstraintsMinimized (clearGeneratorsUpToDate s)
      else s
    else
      -- gen_sys.add_corresponding_points(): appended as pending rows
      let s := genInsertPending (setChanges false s)
      if s.canHaveSomethingPending then setGeneratorsPending s
      else
        clearGeneratorsMinimized (clearConstraintsUpToDate (genSetSorted false (genUnsetPending s)))

/-- `topological_closure_assign()` (NNC, positive dimension, not marked empty): `is_empty()`, then the tail. -/
def topologicalClosureAssignSteps : List Step :=
  [fun g s => (isEmpty g s).2, unlessEm closureTail]

/-- `add_space_dimensions_and_embed(m)`. -/
def addSpaceDimensionsAndEmbed (g : Gh) (f : Facts) (s : PState) : PState :=
  if f.m == 0 then s
  else if s.em then conClear (s.setDim (s.dim + f.m)).bump
  else if s.dim == 0 then
    -- m_swap with a fresh universe of dimension m
    (ctorDegenerate s.nnc f.m false g).setVer (s.ver + 1)
  else
    let s := setChanges false s
    let s :=
      if s.cup then
        if s.gup then
          let s := if !s.satc then updateSatC s else s
          -- add_space_dimensions(con_sys, gen_sys, sat_c, sat_g, m): lines added in front of gen_sys,
          -- sat_c extended, sat_g := transpose
          (genRewrite g.keep s).set .vSG s.vSC
        else s
      else genRewrite g.keep s
    s.setDim (s.dim + f.m)

/-- `add_space_dimensions_and_project(m)`. -/
def addSpaceDimensionsAndProject (g : Gh) (f : Facts) (s : PState) : PState :=
  if f.m == 0 then s
  else if s.em then conClear (s.setDim (s.dim + f.m)).bump
  else if s.dim == 0 then
    let s := (s.setDim f.m |>.set .vG true |>.set .mG true |>.set .gsS (s.gsS && (!s.nnc || g.keep))
                |>.set .rG (s.rG && (!s.nnc || g.keep))).bump
    setGeneratorsMinimized s
  else
    let s := setChanges false s
    let s :=
      if s.cup then
        if s.gup then
          let s := if !s.satg then updateSatG s else s
          (conRewrite g.keep s).set .vSC s.vSG
        else conRewrite g.keep s
      else s
    s.setDim (s.dim + f.m)

/-- the first half of `remove_space_dimensions` / `remove_higher_space_dimensions` / `map_space_dimensions`:
"we need updated generators" — returns "empty". -/
def needGensDroppingPending (g : Gh) (s : PState) : Bool × PState :=
  if s.em then (true, s)
  else if s.hasSomethingPending then
    let r := removePendingToObtainGenerators g s
    if !r.1 then (true, r.2)
    else if !r.2.gup then let q := updateGenerators g r.2; (!q.1, q.2) else (false, r.2)
  else if !s.gup then let q := updateGenerators g s; (!q.1, q.2)
  else (false, s)

/-- `remove_space_dimensions(vars)` (`f.k = vars.size()`, non-empty) and
`remove_higher_space_dimensions(nd)` (`nd < dim`): `newDim` is the resulting dimension. -/
def removeDims (g : Gh) (newDim : Nat) (s : PState) : PState :=
  let r := needGensDroppingPending g s
  if r.1 then conClear (r.2.setDim newDim).bump
  else if newDim == 0 then setZeroDimUniv (setChanges false r.2)
  else
    let s := genRewrite false (setChanges false r.2)
    let s := s.setDim newDim |>.set .vC false |>.set .dd false |>.set .mG false |>.set .vSC false |>.set .vSG false
    clearGeneratorsMinimized (clearConstraintsUpToDate s)

def removeSpaceDimensions (g : Gh) (f : Facts) (s : PState) : PState :=
  if f.k == 0 then s
  else if s.dim < f.k then s      -- (throws: the variables are not dimensions of the polyhedron)
  else removeDims g (s.dim - f.k) s

/-- `remove_higher_space_dimensions` keeps the rows (`set_space_dimension`): the `sorted` flag survives. -/
def removeHigherSpaceDimensions (g : Gh) (f : Facts) (s : PState) : PState :=
  if f.nd == s.dim then s
  else if s.dim < f.nd then s     -- (throws)
  else
    let r := needGensDroppingPending g s
    if r.1 then conClear (r.2.setDim f.nd).bump
    else if f.nd == 0 then setZeroDimUniv (setChanges false r.2)
    else
      let s := genRewrite g.keep (setChanges false r.2)
      let s := s.setDim f.nd |>.set .vC false |>.set .dd false |>.set .mG false |>.set .vSC false |>.set .vSG false
      clearGeneratorsMinimized (clearConstraintsUpToDate s)

/-- `expand_space_dimension(var, m)` (`m > 0`): `add_space_dimensions_and_embed(m)`, `constraints()`,
`add_recycled_constraints(new_constraints)`; `g.aux` (third step): no constraint mentions `var`. -/
def expandSpaceDimensionSteps (f : Facts) : List Step :=
  [fun g s => addSpaceDimensionsAndEmbed g f s, constraints,
   fun g s => addConstraints g { norows := g.aux, nontriv := !g.aux } s]

/-- `map_space_dimensions(pfunc)`; `f.nd` = new dimension (`pfunc` has a non-empty codomain). -/
def mapSpaceDimensionsSteps (f : Facts) (s0 : PState) : List Step :=
  if s0.dim == 0 then []
  else if f.nd == s0.dim then
    -- a permutation: columns of whatever is up to date are permuted
    [fun g s =>
      let s := setChanges false s
      let s := if s.cup then conRewrite g.keep s else s
      if s.gup then genRewrite g.aux s else s]
  else
    [generators,
     fun g s =>
      if s.em then (ctorDegenerate s.nnc f.nd true g).setVer (s.ver + 1)
      else (ctorGens s.nnc { dim := f.nd } g).setVer (s.ver + 1)]

def dropLastDim : Step := fun g s => removeHigherSpaceDimensions g { nd := s.dim - 1 } s

/-- `bounded_affine_image(var, lb, ub, d)`. -/
def boundedAffineImageSteps (f : Facts) (s0 : PState) : List Step :=
  if s0.em then []
  else if !f.lbv || !f.ubv then
    generalizedAffineImageSteps { f with inv := if !f.lbv then f.ubv else f.lbv, eq := false, strict := false }
    ++ [unlessEm fun g s => refineNoCheck g false s]
  else
    [fun g s => addSpaceDimensionsAndEmbed g { m := 1 } s, fun g s => refineNoCheck g false s]
    ++ generalizedAffineImageSteps { f with inv := true, eq := false, strict := false }
    ++ [unlessEm fun g s => refineNoCheck g false s, dropLastDim]

/-- `bounded_affine_preimage(var, lb, ub, d)`. -/
def boundedAffinePreimageSteps (f : Facts) (s0 : PState) : List Step :=
  if s0.em then []
  else if !f.lbv && !f.ubv then
    [fun g s => refineNoCheck g false s, fun g s => refineNoCheck g false s, unconstrain]
  else
    [fun g s =>
      let s := addSpaceDimensionsAndEmbed g { m := 1 } s
      -- swap_space_dimensions(var, new_var) on whatever is up to date
      let s := if s.cup then conRewrite g.aux s else s
      if s.gup then genRewrite g.fast s else s,
     fun g s => refineNoCheck g false s, fun g s => refineNoCheck g false s, dropLastDim]

/-- `generalized_affine_image(lhs, relsym, rhs)`. -/
def generalizedAffineImage2Steps (f : Facts) (s0 : PState) : List Step :=
  if s0.em then []
  else if f.lconst then [fun g s => refineNoCheck g g.be s]
  else if f.common then
    [fun g s => addSpaceDimensionsAndEmbed g { m := 1 } s, fun g s => refineNoCheck g false s,
     fun g s => (isEmpty g s).2, unlessEm fun g s => addGenerators g {} s,
     unlessEm fun g s => refineNoCheck g false s, dropLastDim]
  else
    [fun g s => (isEmpty g s).2, unlessEm fun g s => addGenerators g {} s,
     unlessEm fun g s => refineNoCheck g false s]

/-- `generalized_affine_preimage(lhs, relsym, rhs)`. -/
def generalizedAffinePreimage2Steps (f : Facts) (s0 : PState) : List Step :=
  if s0.em then []
  else if f.lconst then generalizedAffineImage2Steps f s0
  else if f.common then
    [fun g s => addSpaceDimensionsAndEmbed g { m := 1 } s, fun g s => refineNoCheck g false s,
     fun g s => (isEmpty g s).2, unlessEm fun g s => addGenerators g {} s,
     unlessEm fun g s => refineNoCheck g false s, dropLastDim]
  else
    [fun g s => refineNoCheck g false s, fun g s => (isEmpty g s).2, unlessEm fun g s => addGenerators g {} s]

end PPLV.PolyStatus
