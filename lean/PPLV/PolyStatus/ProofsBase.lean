import PPLV.PolyStatus.Step
import PPLV.PolyStatus.SimpAttr
import Mathlib.Tactic.CasesM
/-!
# C01 stage 2 — proofs, part 0: vocabulary

`Frame L s t`: the object `t` is `s` except for the Boolean components listed in `L` (same dimension,
topology, and — `SameSet` — same ghost set).  Simp sets: `prims` unfolds the flag / system primitives of
`State.lean` (chains of `set`), `flds` the readable accessors.
-/
namespace PPLV.PolyStatus
open PState

attribute [pst] PState.em PState.cup PState.gup PState.cmin PState.gmin PState.satc PState.satg PState.cpend PState.gpend
  PState.csS PState.gsS PState.emp PState.vC PState.vG PState.dd PState.mC PState.mG PState.vSC PState.vSG PState.rC PState.rG
  PState.pC PState.pG
attribute [pst] PState.ze PState.stClear PState.stSetEmpty PState.stSetZeroDimUniv PState.clearEmpty
  PState.setConstraintsUpToDate PState.setGeneratorsUpToDate PState.setConstraintsMinimized PState.setGeneratorsMinimized
  PState.setConstraintsPending PState.setGeneratorsPending PState.setSatCUpToDate PState.setSatGUpToDate
  PState.clearConstraintsMinimized PState.clearGeneratorsMinimized PState.clearPendingConstraints
  PState.clearPendingGenerators PState.clearSatCUpToDate PState.clearSatGUpToDate PState.clearConstraintsUpToDate
  PState.clearGeneratorsUpToDate PState.hasSomethingPending PState.canHaveSomethingPending
  PState.conClear PState.genClear PState.satCFromSatG PState.satGFromSatC PState.satCCompute PState.satGCompute
  PState.conSortRows PState.genSortRows PState.conSortWithSatG PState.genSortWithSatC PState.conSetSorted PState.genSetSorted
  PState.conUnsetPending PState.genUnsetPending PState.conSortPending PState.genSortPending
  PState.conInsertPending PState.genInsertPending PState.conInsert PState.genInsert PState.conRewrite PState.genRewrite
  PState.setChanges
  PState.b_set PState.dim_set PState.ver_set PState.nnc_set PState.b_setDim PState.dim_setDim PState.ver_setDim PState.nnc_setDim
  PState.b_setVer PState.dim_setVer PState.ver_setVer PState.nnc_setVer PState.b_bump PState.dim_bump PState.ver_bump PState.nnc_bump
attribute [pst] setEmpty setZeroDimUniv updateSatC updateSatG
attribute [pst] Inv PState.invB PState.statusOK PState.polyOK PState.semOK

/-- split the invariant (hypotheses) into its clauses -/
macro "inv_hyps" : tactic =>
  `(tactic| (simp only [pst] at *; simp at *; casesm* _ ∧ _))

/-- leaf of a case split: `simp_all`, splitting conjunctions that appear among the hypotheses on the way. -/
syntax "leaf " "[" Lean.Parser.Tactic.simpLemma,* "]" : tactic
macro_rules
  | `(tactic| leaf [$ls,*]) =>
    `(tactic| (simp_all [pst, $ls,*] <;>
               (try (casesm* _ ∧ _ <;> simp_all [pst, $ls,*] <;>
                 (try (casesm* _ ∧ _ <;> simp_all [pst, $ls,*])))) <;> (try grind)))

syntax "bash " "[" term,* "]" " using " "[" Lean.Parser.Tactic.simpLemma,* "]" : tactic
macro_rules
  | `(tactic| bash [] using [$ls,*]) => `(tactic| leaf [$ls,*])
  | `(tactic| bash [$t] using [$ls,*]) =>
    `(tactic| (rcases Bool.eq_false_or_eq_true $t with hb | hb <;> leaf [$ls,*]))
  | `(tactic| bash [$t, $ts,*] using [$ls,*]) =>
    `(tactic| (rcases Bool.eq_false_or_eq_true $t with hb | hb <;> bash [$ts,*] using [$ls,*]))

/-- prove one component of the specification of a small function: hypotheses split into clauses, a case split on
the listed Boolean components, `simp_all` with the listed definitions. -/
syntax "spec_tac " "[" term,* "]" " using " "[" Lean.Parser.Tactic.simpLemma,* "]" : tactic
macro_rules
  | `(tactic| spec_tac [$ts,*] using [$ls,*]) =>
    `(tactic| (try intro f hf
               try simp only [pst] at *
               try simp at *
               all_goals (try casesm* _ ∧ _)
               all_goals (bash [$ts,*] using [$ls,*])))

/-- all components outside `L` unchanged; dimension, topology and ghost counter unchanged. -/
structure Frame (L : List Fld) (s t : PState) : Prop where
  b : ∀ f, f ∉ L → t.b f = s.b f
  dim : t.dim = s.dim
  nnc : t.nnc = s.nnc
  ver : t.ver = s.ver

theorem Frame.refl (L : List Fld) (s : PState) : Frame L s s := ⟨fun _ _ => rfl, rfl, rfl, rfl⟩

theorem Frame.trans {L : List Fld} {s t u : PState} (h1 : Frame L s t) (h2 : Frame L t u) : Frame L s u :=
  ⟨fun f hf => (h2.b f hf).trans (h1.b f hf), h2.dim.trans h1.dim, h2.nnc.trans h1.nnc, h2.ver.trans h1.ver⟩

theorem Frame.mono {L M : List Fld} {s t : PState} (h : Frame L s t) (hsub : ∀ f, f ∈ L → f ∈ M) : Frame M s t :=
  ⟨fun f hf => h.b f (fun hm => hf (hsub f hm)), h.dim, h.nnc, h.ver⟩

/-- the status bits -/
def statusFlds : List Fld := [.em, .cup, .gup, .cmin, .gmin, .satc, .satg, .cpend, .gpend]

/-- everything an observer may touch: all but the ghost "the set is empty". -/
def lazyFlds : List Fld :=
  [.em, .cup, .gup, .cmin, .gmin, .satc, .satg, .cpend, .gpend, .csS, .gsS, .vC, .vG, .dd, .mC, .mG, .vSC, .vSG,
   .rC, .rG, .pC, .pG]

/-- `t` is a lazy re-representation of `s`: same set (`emp`, `ver`), same dimension and topology. -/
abbrev SameSet (s t : PState) : Prop := Frame lazyFlds s t

theorem SameSet.of {s t : PState} (he : t.b .emp = s.b .emp) (hd : t.dim = s.dim) (hn : t.nnc = s.nnc)
    (hv : t.ver = s.ver) : SameSet s t :=
  ⟨fun f hf => by cases f <;> first | exact he | exact absurd (by decide) hf, hd, hn, hv⟩

theorem SameSet.emp {s t : PState} (h : SameSet s t) : t.b .emp = s.b .emp := h.b .emp (by decide)

end PPLV.PolyStatus
