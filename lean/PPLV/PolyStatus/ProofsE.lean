import PPLV.PolyStatus.ProofsD
/-!
# C01 stage 2 — proofs, part E: images, closure, dimension operators keep the invariant
-/
namespace PPLV.PolyStatus
open PState

/-- `affine_image`, invertible case. -/
theorem affineImageInv_inv (g : Gh) (s : PState) (h : Inv s) (he : s.b .em = false) :
    Inv (let s := setChanges false s
         let s := if s.gup then genRewrite g.keep s else s
         let s := if s.cup then conRewrite g.aux s else s
         s.set .vC (s.cup && s.vC) |>.set .vG (s.gup && s.vG) |>.set .dd (s.cup && s.gup && s.dd)
           |>.set .vSC (s.cup && s.gup && s.vSC) |>.set .vSG (s.cup && s.gup && s.vSG)) := by
  spec_tac [s.b .cup, s.b .gup, g.keep, g.aux] using []

/-- `affine_image`, non-invertible case, after the generators were obtained. -/
theorem affineImageTail_inv (g : Gh) (s : PState) (h : Inv s) (hr : GensReady s) (hgp : s.b .gpend = false) :
    Inv (let s := genRewrite g.keep (setChanges false s)
         let s := s.set .vC false |>.set .dd false |>.set .mG false |>.set .vSC false |>.set .vSG false
         clearSatGUpToDate (clearSatCUpToDate (clearGeneratorsMinimized (clearConstraintsUpToDate s)))) := by
  obtain ⟨r1, r2, r3⟩ := hr
  spec_tac [g.keep] using []

/-- `affine_image(var, expr, d)`. -/
theorem affineImage_inv (f : Facts) : InvStep (fun g s => affineImage g f s) := by
  intro g s h
  show Inv (affineImage g f s)
  unfold affineImage
  split
  · exact h
  next hd0 =>
  have hd' : s.dim ≠ 0 := by simpa using hd0
  split
  · exact h
  next he =>
  have he' : s.b .em = false := by simpa using he
  split
  · exact affineImageInv_inv g s h he'
  · -- generators wanted
    have key : ∀ r : Bool × PState, Inv r.2 → (r.2.b .em = false → GensReady r.2 ∧ r.2.b .gpend = false) →
        Inv (if !r.2.em then
              (let s := genRewrite g.keep (setChanges false r.2)
               let s := s.set .vC false |>.set .dd false |>.set .mG false |>.set .vSC false |>.set .vSG false
               clearSatGUpToDate (clearSatCUpToDate (clearGeneratorsMinimized (clearConstraintsUpToDate s))))
             else r.2) := by
      intro r hi hk
      rcases Bool.eq_false_or_eq_true (r.2.b .em) with hre | hre
      · simp only [PState.em, hre, Bool.not_true, Bool.false_eq_true, ite_false]; exact hi
      · simp only [PState.em, hre, Bool.not_false, ite_true]
        exact affineImageTail_inv g r.2 hi (hk hre).1 (hk hre).2
    apply key
    · split
      · next hp => exact (removePendingToObtainGenerators_spec g s h hp).1
      split
      · exact (minimize_spec g s h).1
      · exact h
    · split
      · next hp =>
        obtain ⟨h1, h2, h3, h4⟩ := removePendingToObtainGenerators_spec g s h hp
        intro hre
        rcases Bool.eq_false_or_eq_true (removePendingToObtainGenerators g s).1 with hr | hr
        · exact h3 hr
        · rw [h4 hr] at hre; exact absurd hre (by simp)
      split
      · next hp hg =>
        obtain ⟨h1, h2, h3, h4⟩ := minimize_spec g s h
        intro hre
        rcases Bool.eq_false_or_eq_true (minimize g s).1 with hr | hr
        · have hm := (h3 hr).2 hd'
          exact ⟨hm.gensReady, hm.gpend⟩
        · rw [h4 hr] at hre; exact absurd hre (by simp)
      · next hp hg =>
        intro _
        have hpp : s.b .cpend = false ∧ s.b .gpend = false := by simpa [hasSomethingPending] using hp
        exact ⟨⟨he', by simpa using hg, hpp.1⟩, hpp.2⟩

/-- `affine_preimage`, non-invertible case, after the constraints were obtained. -/
theorem affinePreimageTail_inv (g : Gh) (s : PState) (h : Inv s) (hr : ConsReady s) (hcp : s.b .cpend = false) :
    Inv (let s := conRewrite g.keep (setChanges g.be s)
         let s := s.set .vG false |>.set .dd false |>.set .mC false |>.set .vSC false |>.set .vSG false
         clearSatGUpToDate (clearSatCUpToDate (clearConstraintsMinimized (clearGeneratorsUpToDate s)))) := by
  obtain ⟨r1, r2, r3⟩ := hr
  spec_tac [g.keep, g.be] using []

theorem affinePreimageInv_inv (g : Gh) (s : PState) (h : Inv s) (he : s.b .em = false) :
    Inv (let s := setChanges false s
         let s := if s.cup then conRewrite g.aux s else s
         let s := if s.gup then genRewrite g.keep s else s
         s.set .vC (s.cup && s.vC) |>.set .vG (s.gup && s.vG) |>.set .dd (s.cup && s.gup && s.dd)
           |>.set .vSC (s.cup && s.gup && s.vSC) |>.set .vSG (s.cup && s.gup && s.vSG)) := by
  spec_tac [s.b .cup, s.b .gup, g.keep, g.aux] using []

/-- `affine_preimage(var, expr, d)`. -/
theorem affinePreimage_inv (f : Facts) : InvStep (fun g s => affinePreimage g f s) := by
  intro g s h
  show Inv (affinePreimage g f s)
  unfold affinePreimage
  split
  · exact h
  next hd0 =>
  have hd' : s.dim ≠ 0 := by simpa using hd0
  split
  · exact h
  next he =>
  have he' : s.b .em = false := by simpa using he
  split
  · exact affinePreimageInv_inv g s h he'
  · have key : ∀ t : PState, Inv t → ConsReady t → t.b .cpend = false →
        Inv (let s := conRewrite g.keep (setChanges g.be t)
             let s := s.set .vG false |>.set .dd false |>.set .mC false |>.set .vSC false |>.set .vSG false
             clearSatGUpToDate (clearSatCUpToDate (clearConstraintsMinimized (clearGeneratorsUpToDate s)))) :=
      fun t hi hr hc => affinePreimageTail_inv g t hi hr hc
    apply key
    · split
      · next hp => exact (removePendingToObtainConstraints_spec g s h hp).1
      split
      · exact (minimize_spec g s h).1
      · exact h
    · split
      · next hp => exact (removePendingToObtainConstraints_spec g s h hp).2.2.1
      split
      · next hp hc =>
        obtain ⟨h1, h2, h3, h4⟩ := minimize_spec g s h
        rcases Bool.eq_false_or_eq_true (minimize g s).1 with hr | hr
        · exact ((h3 hr).2 hd').consReady
        · exfalso
          -- generators are up to date (the constraints are not): `minimize` cannot find the set empty
          have hpp : s.b .cpend = false ∧ s.b .gpend = false := by simpa [hasSomethingPending] using hp
          have hg : s.b .gup = true := by spec_tac [s.b .em] using []
          have := h.gup_nonempty hg hpp.1
          rw [minimize_false_emp g s h hr] at this; exact absurd this (by simp)
      · next hp hc =>
        have hpp : s.b .cpend = false ∧ s.b .gpend = false := by simpa [hasSomethingPending] using hp
        exact ⟨he', by simpa using hc, hpp.2⟩
    · split
      · next hp => exact (removePendingToObtainConstraints_spec g s h hp).2.2.2
      split
      · next hp hc =>
        obtain ⟨h1, h2, h3, h4⟩ := minimize_spec g s h
        rcases Bool.eq_false_or_eq_true (minimize g s).1 with hr | hr
        · exact ((h3 hr).2 hd').cpend
        · exfalso
          have hpp : s.b .cpend = false ∧ s.b .gpend = false := by simpa [hasSomethingPending] using hp
          have hg : s.b .gup = true := by spec_tac [s.b .em] using []
          have := h.gup_nonempty hg hpp.1
          rw [minimize_false_emp g s h hr] at this; exact absurd this (by simp)
      · next hp hc =>
        have hpp : s.b .cpend = false ∧ s.b .gpend = false := by simpa [hasSomethingPending] using hp
        exact hpp.1

end PPLV.PolyStatus
