import PPLV.PolyStatus.Ops
/-!
# C01 stage 2 — the binary methods of `Polyhedron`, code-shaped

The receiver `x` and the argument `y` (declared `const`, yet lazily updated) may be the same object:
`Two.al`.  Every access to `y` goes through `gy` / `onY`, so an aliased call is modelled exactly.
-/
namespace PPLV.PolyStatus
open PState

structure Two where
  x : PState
  y : PState
  al : Bool := false     -- `y` is `x` itself
  go : Bool := true      -- (between the steps of a composite method) the method has not returned yet
deriving Inhabited

namespace Two
def beq (c d : Two) : Bool := c.x == d.x && c.y == d.y && c.al == d.al && c.go == d.go
instance : BEq Two := ⟨beq⟩
def gy (c : Two) : PState := if c.al then c.x else c.y
def onX (f : PState → PState) (c : Two) : Two := { c with x := f c.x }
def onY (f : PState → PState) (c : Two) : Two := if c.al then { c with x := f c.x } else { c with y := f c.y }
def onXb (f : PState → Bool × PState) (c : Two) : Bool × Two := let r := f c.x; (r.1, { c with x := r.2 })
def onYb (f : PState → Bool × PState) (c : Two) : Bool × Two :=
  if c.al then let r := f c.x; (r.1, { c with x := r.2 }) else let r := f c.y; (r.1, { c with y := r.2 })
end Two
open Two

/-- ghost inputs of the quick equivalence test. -/
structure GhQ where
  qg : Bool := false   -- both generator systems were sorted and compared
  qc : Bool := false   -- both constraint systems were sorted and compared
  qt : Bool := false   -- the answer was `TVB_TRUE`
  qf : Bool := false   -- the answer was `TVB_FALSE` (by a counting test, or by the comparison)
deriving DecidableEq, Repr, Inhabited

/-- `x.quick_equivalence_test(y)`; returns (`TVB_TRUE`, `TVB_FALSE`). -/
def quickEquivalenceTest (q : GhQ) (c : Two) : (Bool × Bool) × Two :=
  let x := c.x; let y := c.gy
  if !x.nnc && !x.hasSomethingPending && !y.hasSomethingPending then
    if q.qg && x.gmin && y.gmin then
      ((q.qt, !q.qt), onY obtainSortedGenerators (onX obtainSortedGenerators c))
    else if q.qc && x.cmin && y.cmin then
      ((q.qt, !q.qt), onY obtainSortedConstraints (onX obtainSortedConstraints c))
    else ((false, q.qf), c)
  else ((false, false), c)

/-- exchange the roles of the two objects (`y.f(x)`). -/
def Two.swap (c : Two) : Two := if c.al then c else { c with x := c.y, y := c.x }

/-- `x.is_included_in(y)`, first statement: "`x` cannot have pending constraints, because we need its generators". -/
def inclA1 (ga : Gh) (c : Two) : Bool × Two :=
  onXb (fun x => if x.cpend then processPendingConstraints ga x else (true, x)) c
/-- "`y` cannot have pending generators, because we need its constraints". -/
def inclB1 (gb : Gh) (c : Two) : Two :=
  onY (fun y => if y.gpend then processPendingGenerators gb y else y) c
/-- `if (!x.generators_are_up_to_date() && !x.update_generators()) return true;` -/
def inclA2 (ga : Gh) (c : Two) : Bool × Two :=
  onXb (fun x => if !x.gup then updateGenerators ga x else (true, x)) c
/-- `if (!y.constraints_are_up_to_date()) y.update_constraints();` -/
def inclB2 (gb : Gh) (c : Two) : Two :=
  onY (fun y => if !y.cup then updateConstraints gb y else y) c

/-- `x.is_included_in(y)` (`x = c.x`, `y = c.y`; for `y.is_included_in(x)` the caller swaps the roles). -/
def isIncludedIn (ga gb : Gh) (c : Two) : Two :=
  let r := inclA1 ga c
  if !r.1 then r.2
  else
    let r := inclA2 ga (inclB1 gb r.2)
    if !r.1 then r.2 else inclB2 gb r.2

/-- `x.contains(y)`. -/
def contains (gx gy : Gh) (q : GhQ) (c : Two) : Two :=
  if c.gy.em then c
  else if c.x.em then (onYb (isEmpty gy) c).2
  else if c.gy.dim == 0 then c
  else
    let r := quickEquivalenceTest q c
    if r.1.1 then r.2 else (isIncludedIn gy gx r.2.swap).swap

/-- Ghost inputs of one step of a binary method. -/
structure Gh2 where
  gx : Gh := {}
  gy : Gh := {}
  q : GhQ := {}
deriving Repr, Inhabited

abbrev Step2 := Gh2 → Two → Two

def runSteps2 : List Step2 → List Gh2 → Two → Two
  | [], _, c => c
  | f :: fs, [], c => runSteps2 fs [] (f {} c)
  | f :: fs, g :: gs, c => runSteps2 fs gs (f g c)

/-- `x.strictly_contains(y)`: `x.contains(y) && !y.contains(x)`; `gx.aux` (second step): the first call answered `true`. -/
def strictlyContainsSteps : List Step2 :=
  [fun h c => contains h.gx h.gy h.q c,
   fun h c => if h.gx.aux then (contains h.gy h.gx h.q c.swap).swap else c]

/-- `operator==(x, y)` up to and including the first inclusion test; `go`: the second one is still to be decided. -/
def equalsHead (h : Gh2) (c : Two) : Two :=
  if c.x.em then { (onYb (isEmpty h.gy) c).2 with go := false }
  else if c.gy.em then { (onXb (isEmpty h.gx) c).2 with go := false }
  else if c.x.dim == 0 then { c with go := false }
  else
    let r := quickEquivalenceTest h.q c
    if r.1.1 || r.1.2 then { r.2 with go := false }
    else { isIncludedIn h.gx h.gy r.2 with go := true }

/-- the rest of `operator==`; `gx.aux`: `x.is_included_in(y)` answered `true`. -/
def equalsTail (h : Gh2) (c : Two) : Two :=
  if c.go && h.gx.aux then
    if c.x.em then (onYb (isEmpty h.gy) c).2 else (isIncludedIn h.gy h.gx c.swap).swap
  else c

def equalsSteps : List Step2 := [equalsHead, equalsTail]

/-- `intersection_assign(y)`. -/
def intersectionAssign (gx gy : Gh) (c : Two) : Two :=
  if c.x.em then c
  else if c.gy.em then onX (fun x => setEmpty (setChanges true x)) c
  else if c.x.dim == 0 then c
  else
    let c := onX (needCons gx) c
    let c := onY (needCons gy) c
    let y := c.gy
    -- pending if possible; else `merge_rows_assign` if both are fully sorted, `insert` otherwise:
    -- the sorted flag survives exactly when `y.con_sys` is sorted and has no pending rows
    onX (insertCons { gx with keep := y.csS && !y.cpend }) c

/-- `x = y` inside a binary method (`y` is not `x`: the aliased call returned earlier). -/
def assignFromY (c : Two) : Two := if c.al then c else onX (fun x => assign x c.y) c

/-- `poly_hull_assign(y)` (= `upper_bound_assign`). -/
def polyHullAssign (gx gy : Gh) (c : Two) : Two :=
  if c.gy.em then c
  else if c.x.em then assignFromY c
  else if c.x.dim == 0 then c
  else
    let r := onXb (needGens gx) c
    if r.1 then assignFromY r.2
    else
      let r := onYb (needGens gy) r.2
      if r.1 then r.2
      else
        let c := r.2
        let y := c.gy
        onX (insertGens { gx with keep := y.gsS && !y.gpend }) c

/-- `time_elapse_assign(y)`; `gx.aux`: after dropping the origin `gs` has no rows. -/
def timeElapseAssign (gx gy : Gh) (c : Two) : Two :=
  if c.x.dim == 0 then
    if c.gy.em then onX (fun x => setEmpty (setChanges true x)) c else c
  else if c.x.em || c.gy.em then onX (fun x => setEmpty (setChanges true x)) c
  else
    let r := onXb (needGens gx) c
    if r.1 then onX (fun x => setEmpty x) r.2
    else
      let r := onYb (needGens gy) r.2
      if r.1 then onX (fun x => setEmpty (setChanges true x)) r.2
      else if gx.aux then r.2
      else
        -- pending if possible; else `sort_rows` on both systems and `merge_rows_assign`
        onX (fun x =>
          if x.canHaveSomethingPending then insertGens gx x
          else insertGens { gx with keep := true } (if !x.gsS then genSortRows x else x)) r.2

/-- `concatenate_assign(y)`. -/
def concatenateAssign (gx gy : Gh) (c : Two) : Two :=
  let ydim := c.gy.dim
  if c.x.em || c.gy.em then
    onX (fun x => setEmpty ((setChanges true x).setDim (x.dim + ydim))) c
  else if ydim == 0 then c
  else if c.x.dim == 0 then assignFromY c
  else
    let c := onY (constraints gy) c
    let c := onX (needCons gx) c
    onX (fun x =>
      let x := setChanges gx.be x
      let x :=
        if x.canHaveSomethingPending then
          -- rows appended as pending; lines added to gen_sys; sat_c rebuilt
          let x := genRewrite gx.aux (conInsertPending x)
          let x := if !x.satc then setSatCUpToDate (satCFromSatG x) else x
          setConstraintsPending (clearSatGUpToDate x)
        else
          let x := conInsert gx.keep x
          clearSatCUpToDate (clearSatGUpToDate (clearGeneratorsUpToDate (clearConstraintsMinimized x)))
      x.setDim (x.dim + ydim)) c

/-- `m_swap(y)`. -/
def mSwap (c : Two) : Two := if c.al then c else { c with x := c.y, y := c.x }

/-- `is_disjoint_from(y)`: `z = *this; z.intersection_assign(y); z.is_empty()` — the receiver is untouched. -/
def isDisjointFrom (gx gy : Gh) (c : Two) : Two :=
  let z := copyCtor c.x
  let r := intersectionAssign gx gy { x := z, y := c.gy, al := false }
  onY (fun _ => r.y) c

/-- `simplify_using_context_assign(y)`: the receiver ends as a universe polyhedron to which the
selected constraints were added (`gx.aux`: none were), or as the zero-dimensional universe, or untouched;
`gx.chg`: the receiver was replaced. -/
def simplifyUsingContextAssign (gx gy : Gh) (c : Two) : Two :=
  if c.x.dim == 0 then
    let r := onYb (isEmpty gy) c
    if r.1 then onX (fun x => setZeroDimUniv (x.set .emp false).bump) r.2
    else (onXb (isEmpty gx) r.2).2
  else
    let r := onYb (minimize gy) c
    let replaced (x : PState) : PState :=
      let u := (ctorDegenerate x.nnc x.dim false gx).setVer (x.ver + 1)
      addConstraints gx { norows := gx.aux, nontriv := !gx.aux } u
    if !r.1 then onX (fun x => (ctorDegenerate x.nnc x.dim false gx).setVer (x.ver + 1)) r.2
    else
      let r := onXb (minimize gx) r.2
      if !r.1 then
        if gx.chg then onX replaced r.2 else r.2
      else onX replaced r.2

/-- one iteration of the loop of `poly_difference_assign`: `z = x` refined with the complement of a constraint
of `y` is joined to `new_polyhedron`. -/
def diffIter (gz gn : Gh) (x nw : PState) : PState :=
  let z := refineNoCheck gz false (copyCtor x)
  (polyHullAssign gn gz { x := nw, y := z, al := false }).x

/-- `poly_difference_assign(y)` up to its loop; returns (finished, state).
`gx.chg`: `y.contains(x)`; `gx.fast`: an equality of `y` (closed case) ends the loop without assignment. -/
def diffPre (gx gy : Gh) (q : GhQ) (c : Two) : Bool × Two :=
  if c.gy.em then (true, c)
  else if c.x.em then (true, c)
  else if c.x.dim == 0 then (true, onX (fun x => setEmpty (setChanges true x)) c)
  else
    -- y.contains(x)
    let c := (contains gy gx q c.swap).swap
    if gx.chg then (true, onX (fun x => setEmpty (setChanges true x)) c)
    else
      let r := onYb (minimize gy) c
      if !r.1 then (true, r.2)
      else
        let c := onX (fun x => (minimize gx x).2) r.2
        let c := onY (constraints gy) c
        (gx.fast, c)

/-- `new_polyhedron` before the loop. -/
def diffNew0 (x : PState) : PState := ((stSetEmpty (fresh x.nnc)).setDim x.dim).set .emp true

/-- the loop of `poly_difference_assign`; `its`: the ghost inputs of the iterations that are not skipped. -/
def diffLoop (its : List (Gh × Gh)) (x : PState) : PState :=
  -- (a receiver found empty by `minimize()` is included in every constraint: all iterations are skipped)
  if x.em then diffNew0 x else its.foldl (fun nw gg => diffIter gg.1 gg.2 x nw) (diffNew0 x)

/-- `poly_difference_assign(y)`. -/
def polyDifferenceAssign (gx gy : Gh) (q : GhQ) (its : List (Gh × Gh)) (c : Two) : Two :=
  let r := diffPre gx gy q c
  if r.1 then r.2 else onX (fun x => assign x (diffLoop its x)) r.2

end PPLV.PolyStatus
