import PPLV.PolyStatus.ProofsE
/-!
# C01 stage 2 — proofs, part F: strict images, closure, dimension operators
-/
namespace PPLV.PolyStatus
open PState

/-- the end of `generalized_affine_image` for a strict relation symbol. -/
theorem strictImageTail_rewrite_inv (s : PState) (h : Inv s) (he : s.b .em = false)
    (hm : s.dim ≠ 0 → Minimized s) :
    Inv (let s := (setChanges false s).set .gsS false |>.set .rG false |>.set .pG false
                    |>.set .vC false |>.set .dd false |>.set .mG false |>.set .vSC false |>.set .vSG false
         clearSatGUpToDate (clearSatCUpToDate (clearGeneratorsMinimized (clearConstraintsUpToDate s)))) := by
  rcases Nat.eq_zero_or_pos s.dim with hd | hd
  · spec_tac [s.b .cup] using []
  · obtain ⟨m1, m2, m3, m4, m5, m6, m7⟩ := hm (by omega)
    spec_tac [] using []

theorem strictImageTail_inv : InvStep (unlessEm strictImageTail) := by
  apply unlessEm_inv
  intro g s h he
  unfold strictImageTail
  obtain ⟨h1, h2, h3, h4⟩ := minimize_spec g s h
  rcases Bool.eq_false_or_eq_true (minimize g s).1 with hr | hr
  · exact strictImageTail_rewrite_inv _ h1 (h3 hr).1 (fun hd => (h3 hr).2 (by rw [← h2.dim]; exact hd))
  · -- found empty: the rewriting touches a cleared generator system
    have hem := h4 hr
    generalize (minimize g s).2 = t at h1 hem
    spec_tac [] using []

/-- the body of `topological_closure_assign()` once pending constraints are processed. -/
theorem closureBody_inv (g : Gh) (s : PState) (h : Inv s) (he : s.b .em = false) (hd : s.dim ≠ 0)
    (hc : s.b .cpend = false) :
    Inv (if !s.gpend && s.cup then
           if g.chg then
             clearConstraintsMinimized (clearGeneratorsUpToDate
               (conSetSorted false (conInsert false (setChanges false s))))
           else s
         else
           let s := genInsertPending (setChanges false s)
           if s.canHaveSomethingPending then setGeneratorsPending s
           else clearGeneratorsMinimized (clearConstraintsUpToDate (genSetSorted false (genUnsetPending s)))) := by
  spec_tac [s.b .gpend, s.b .cup, g.chg, s.b .cmin, s.b .gmin, s.b .satc, s.b .satg, s.b .gup] using []

theorem closureTail_inv : InvStep (unlessEm closureTail) := by
  apply unlessEm_inv
  intro g s h he
  unfold closureTail
  rcases Nat.eq_zero_or_pos s.dim with hd | hd
  · -- zero-dimensional, not marked empty: the status word is ZE, nothing to do
    have hz : s.b .cpend = false ∧ s.b .gpend = false ∧ s.b .cup = false ∧ s.b .gup = false := by
      refine ⟨?_, ?_, ?_, ?_⟩ <;> spec_tac [s.b .em] using []
    obtain ⟨z1, z2, z3, z4⟩ := hz
    simp only [PState.cpend, z1, Bool.false_eq_true, ite_false, Bool.not_true]
    spec_tac [s.b .cmin, s.b .gmin, s.b .satc, s.b .satg] using []
  have hd' : s.dim ≠ 0 := by omega
  rcases Bool.eq_false_or_eq_true (s.b .cpend) with hc | hc
  · obtain ⟨h1, h2, h3, h4⟩ := ppc_spec g s h hc
    simp only [PState.cpend, hc, ite_true]
    rcases Bool.eq_false_or_eq_true (processPendingConstraints g s).1 with hr | hr
    · simp only [hr, Bool.not_true, Bool.false_eq_true, ite_false]
      exact closureBody_inv g _ h1 (h3 hr).em (by rw [h2.dim]; exact hd') (h3 hr).cpend
    · simp only [hr, Bool.not_false, ite_true]; exact h1
  · simp only [PState.cpend, hc, Bool.false_eq_true, ite_false, Bool.not_true]
    exact closureBody_inv g s h he hd' hc

/-- `add_space_dimensions_and_embed(m)`. -/
theorem addSpaceDimensionsAndEmbed_spec (g : Gh) (f : Facts) (s : PState) (h : Inv s) :
    Inv (addSpaceDimensionsAndEmbed g f s) ∧ (addSpaceDimensionsAndEmbed g f s).b .em = s.b .em := by
  unfold addSpaceDimensionsAndEmbed
  split
  · exact ⟨h, rfl⟩
  next hm =>
  have hm' : f.m ≠ 0 := by simpa using hm
  split
  · next he => constructor <;> spec_tac [] using []
  next he =>
  have he' : s.b .em = false := by simpa using he
  split
  · next hd =>
    have hpos : 0 < f.m := by omega
    constructor <;> spec_tac [s.nnc, g.keep] using [ctorDegenerate, fresh]
  · next hd => constructor <;> spec_tac [s.b .cup, s.b .gup, s.b .satc, g.keep] using []

theorem addSpaceDimensionsAndEmbed_inv (f : Facts) : InvStep (fun g s => addSpaceDimensionsAndEmbed g f s) :=
  fun g s h => (addSpaceDimensionsAndEmbed_spec g f s h).1

/-- `add_space_dimensions_and_project(m)`. -/
theorem addSpaceDimensionsAndProject_inv (f : Facts) : InvStep (fun g s => addSpaceDimensionsAndProject g f s) := by
  intro g s h
  show Inv (addSpaceDimensionsAndProject g f s)
  unfold addSpaceDimensionsAndProject
  split
  · exact h
  next hm =>
  have hm' : f.m ≠ 0 := by simpa using hm
  split
  · next he => spec_tac [] using []
  next he =>
  have he' : s.b .em = false := by simpa using he
  split
  · next hd => spec_tac [s.nnc, g.keep, s.b .gsS] using []
  · next hd => spec_tac [s.b .cup, s.b .gup, s.b .satg, g.keep] using []

end PPLV.PolyStatus
