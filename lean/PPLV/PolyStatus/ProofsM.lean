import PPLV.PolyStatus.ProofsL
/-!
# C01 stage 2 — proofs, part M: `poly_difference_assign`; every binary method keeps the invariant
-/
namespace PPLV.PolyStatus
open PState Two

theorem assign_dim (x y : PState) : (assign x y).dim = y.dim := by
  unfold assign
  simp only
  split
  · simp [pst]
  split
  · next _ hd => simp [pst]; exact (by simpa using hd : y.dim = 0).symm
  · split <;> split <;> simp [pst]

theorem x_onX (f : PState → PState) (c : Two) : (onX f c).x = f c.x := rfl

theorem assignFromY_dim (c : Two) (hd : c.gy.dim = c.x.dim) : (assignFromY c).x.dim = c.x.dim := by
  unfold assignFromY
  cases hal : c.al
  · simp only [Bool.false_eq_true, ite_false]
    rw [x_onX, assign_dim]
    have : c.gy = c.y := by simp [Two.gy, hal]
    rw [← this, hd]
  · simp

/-- `poly_hull_assign(y)` keeps the space dimension. -/
theorem polyHullAssign_dim (gx gy : Gh) (c : Two) (h : TwoOK c) (hd : c.gy.dim = c.x.dim) :
    (polyHullAssign gx gy c).x.dim = c.x.dim := by
  unfold polyHullAssign
  split
  · rfl
  next hye =>
  split
  · exact assignFromY_dim c hd
  next hxe =>
  split
  · rfl
  next hxd =>
  have hxe' : c.x.b .em = false := by simpa using hxe
  have hye' : c.gy.b .em = false := by simpa using hye
  have hxd' : c.x.dim ≠ 0 := by simpa using hxd
  have hl : Live2 c := ⟨h, hxe', hye', hxd', by rw [hd]; exact hxd'⟩
  obtain ⟨o1, l1⟩ := stepX (needGens gx) GensReady c hl (needGens_step gx)
  simp only
  rcases Bool.eq_false_or_eq_true (onXb (needGens gx) c).1 with hr | hr
  · simp only [hr, ite_true]
    rw [assignFromY_dim _ (o1.dims hd), o1.x.same.dim]
  · simp only [hr, Bool.false_eq_true, ite_false]
    obtain ⟨l1', p1⟩ := l1 hr
    have hd1 := o1.x.same.dim
    generalize (onXb (needGens gx) c).2 = c1 at o1 l1' p1 hd1
    obtain ⟨o2, l2⟩ := stepY (needGens gy) GensReady c1 l1' p1 (needGens_step gy)
    rcases Bool.eq_false_or_eq_true (onYb (needGens gy) c1).1 with hr2 | hr2
    · simp only [hr2, ite_true]; rw [o2.x.same.dim, hd1]
    · simp only [hr2, Bool.false_eq_true, ite_false]
      obtain ⟨l2', p2, _⟩ := l2 hr2
      rw [x_onX, (insertGens_spec _ _ o2.ok.x p2 l2'.xd).2.2, o2.x.same.dim, hd1]

theorem diffNew0_inv (x : PState) : Inv (diffNew0 x) ∧ (diffNew0 x).dim = x.dim := by
  constructor <;> spec_tac [] using [diffNew0, fresh]

/-- one iteration of the loop of `poly_difference_assign`. -/
theorem diffIter_inv (gz gn : Gh) (x nw : PState) (hx : Inv x) (he : x.b .em = false) (hn : Inv nw)
    (hd : nw.dim = x.dim) : Inv (diffIter gz gn x nw) ∧ (diffIter gz gn x nw).dim = x.dim := by
  unfold diffIter
  obtain ⟨k1, k2, k3, _⟩ := copyCtor_spec x hx
  obtain ⟨r1, _, r3⟩ := refineNoCheck_spec gz false (copyCtor x) k1 (by rw [k3]; exact he)
  have hz : TwoOK { x := nw, y := refineNoCheck gz false (copyCtor x), al := false } := ⟨hn, by simpa [Two.gy] using r1⟩
  have hdz : ({ x := nw, y := refineNoCheck gz false (copyCtor x), al := false } : Two).gy.dim = nw.dim := by
    simp [Two.gy, r3, k2, hd]
  exact ⟨(polyHullAssign_ok gn gz _ hz hdz).x, by rw [polyHullAssign_dim gn gz _ hz hdz]; exact hd⟩

theorem diffLoop_inv (its : List (Gh × Gh)) (x : PState) (hx : Inv x) :
    Inv (diffLoop its x) ∧ (diffLoop its x).dim = x.dim := by
  unfold diffLoop
  split
  · exact diffNew0_inv x
  next he =>
  have he' : x.b .em = false := by simpa using he
  have key : ∀ (l : List (Gh × Gh)) (nw : PState), Inv nw → nw.dim = x.dim →
      Inv (l.foldl (fun nw gg => diffIter gg.1 gg.2 x nw) nw) ∧ (l.foldl (fun nw gg => diffIter gg.1 gg.2 x nw) nw).dim = x.dim := by
    intro l
    induction l with
    | nil => intro nw h1 h2; exact ⟨h1, h2⟩
    | cons a t ih =>
      intro nw h1 h2
      obtain ⟨i1, i2⟩ := diffIter_inv a.1 a.2 x nw hx he' h1 h2
      exact ih _ i1 i2
  exact key its _ (diffNew0_inv x).1 (diffNew0_inv x).2

/-- `poly_difference_assign(y)` up to its loop. -/
theorem diffPre_ok (gx gy : Gh) (q : GhQ) (c : Two) (h : TwoOK c) (hd : c.gy.dim = c.x.dim) :
    TwoOK (diffPre gx gy q c).2 := by
  unfold diffPre
  split
  · exact h
  split
  · exact h
  split
  · show TwoOK (onX (fun x => setEmpty (setChanges true x)) c)
    exact onX_ok _ c h (setEmptyChanged_inv _ h.x)
  have o1 : Obs2 c (contains gy gx q c.swap).swap :=
    Obs2.of_swap (contains_obs2 gy gx q c.swap h.swap (by rw [gy_swap, x_swap, hd]))
  simp only
  generalize (contains gy gx q c.swap).swap = c1 at o1
  split
  · show TwoOK (onX (fun x => setEmpty (setChanges true x)) c1)
    exact onX_ok _ _ o1.ok (setEmptyChanged_inv _ o1.ok.x)
  have o2 : Obs2 c1 (onYb (minimize gy) c1).2 := by
    rw [(onYb_eq _ _).1]; exact onY_obs2 _ c1 o1.ok (minimize_obs gy _ o1.ok.y)
  split
  · exact o2.ok
  have o3 := onX_obs2 (fun x => (minimize gx x).2) _ o2.ok (minimize_obs gx _ o2.ok.x)
  show TwoOK (onY (constraints gy) (onX (fun x => (minimize gx x).2) (onYb (minimize gy) c1).2))
  exact (onY_obs2 (constraints gy) _ o3.ok (constraints_obs gy _ o3.ok.y)).ok

/-- `poly_difference_assign(y)`. -/
theorem polyDifferenceAssign_ok (gx gy : Gh) (q : GhQ) (its : List (Gh × Gh)) (c : Two) (h : TwoOK c)
    (hd : c.gy.dim = c.x.dim) : TwoOK (polyDifferenceAssign gx gy q its c) := by
  unfold polyDifferenceAssign
  have k := diffPre_ok gx gy q c h hd
  simp only
  split
  · exact k
  · exact onX_ok _ _ k (assign_inv _ _ k.x (diffLoop_inv its _ k.x).1)

theorem runSteps2_two (f1 f2 : Step2) (hs : List Gh2) (c : Two) :
    runSteps2 [f1, f2] hs c = f2 (hs.tail.headD {}) (f1 (hs.headD {}) c) := by
  rcases hs with _ | ⟨a, _ | ⟨b, t⟩⟩ <;> rfl

theorem strictlyContains_obs2 (hs : List Gh2) (c : Two) (h : TwoOK c) (hd : c.gy.dim = c.x.dim) :
    Obs2 c (runSteps2 strictlyContainsSteps hs c) := by
  unfold strictlyContainsSteps
  rw [runSteps2_two]
  have o1 := contains_obs2 (hs.headD {}).gx (hs.headD {}).gy (hs.headD {}).q c h hd
  refine o1.trans ?_
  generalize contains (hs.headD {}).gx (hs.headD {}).gy (hs.headD {}).q c = c1 at o1
  have hd1 := o1.dims hd
  show Obs2 c1 (if (hs.tail.headD {}).gx.aux then (contains _ _ _ c1.swap).swap else c1)
  split
  · exact Obs2.of_swap (contains_obs2 _ _ _ _ o1.ok.swap (by rw [gy_swap, x_swap, hd1]))
  · exact Obs2.refl o1.ok

theorem equals_obs2 (hs : List Gh2) (c : Two) (h : TwoOK c) (hd : c.gy.dim = c.x.dim) :
    Obs2 c (runSteps2 equalsSteps hs c) := by
  unfold equalsSteps
  rw [runSteps2_two]
  obtain ⟨o1, m1⟩ := equalsHead_obs2 (hs.headD {}) c h hd
  exact o1.trans (equalsTail_obs2 _ _ m1)

/-- every binary method keeps the invariant of both objects. -/
theorem apply2_ok (o : Op2) (hs : List Gh2) (its : List (Gh × Gh)) (c : Two) (h : TwoOK c)
    (hd : o = .concatenateAssign ∨ c.gy.dim = c.x.dim) : TwoOK (apply2 o hs its c) := by
  unfold apply2
  cases o <;> simp only [steps2Of, runSteps2]
  case polyDifferenceAssign => exact polyDifferenceAssign_ok _ _ _ _ c h (by simpa using hd)
  case concatenateAssign => cases hs <;> exact concatenateAssign_ok _ _ c h
  all_goals have hd' : c.gy.dim = c.x.dim := by simpa using hd
  case contains => cases hs <;> exact (contains_obs2 _ _ _ c h hd').ok
  case isDisjointFrom => cases hs <;> exact (isDisjointFrom_obs2 _ _ c h hd').ok
  case intersectionAssign => cases hs <;> exact intersectionAssign_ok _ _ c h hd'
  case polyHullAssign => cases hs <;> exact polyHullAssign_ok _ _ c h hd'
  case timeElapseAssign => cases hs <;> exact timeElapseAssign_ok _ _ c h hd'
  case simplifyUsingContextAssign => cases hs <;> exact simplifyUsingContextAssign_ok _ _ c h
  case assign => cases hs <;> exact assignFromY_ok c h
  case mSwap => cases hs <;> exact mSwap_ok c h
  case strictlyContains => exact (strictlyContains_obs2 hs c h hd').ok
  case equals => exact (equals_obs2 hs c h hd').ok

end PPLV.PolyStatus
