import PPLV.PolyStatus.ProofsB
/-!
# C01 stage 2 — proofs, part C: observers on one object keep the invariant and the set
-/
namespace PPLV.PolyStatus
open PState

theorem smcTail_spec (g : Gh) (s : PState) (h : Inv s) (hm : s.dim ≠ 0 → Minimized s) (he : s.b .em = false) :
    Inv (smcTail g s) ∧ SameSet s (smcTail g s) ∧ (smcTail g s).b .em = false := by
  rcases Nat.eq_zero_or_pos s.dim with hd | hd
  · have e : smcTail g s = s := by simp [smcTail, hd]
    rw [e]; exact ⟨h, Frame.refl _ _, he⟩
  · have hm' := hm (by omega)
    obtain ⟨m1, m2, m3, m4, m5, m6, m7⟩ := hm'
    refine ⟨?_, SameSet.of ?_ ?_ ?_ ?_, ?_⟩ <;>
      spec_tac [g.chg, s.b .satg, s.b .satc] using [smcTail]

theorem smgTail_spec (g : Gh) (s : PState) (h : Inv s) (hm : s.dim ≠ 0 → Minimized s) (he : s.b .em = false) :
    Inv (smgTail g s) ∧ SameSet s (smgTail g s) ∧ (smgTail g s).b .em = false := by
  rcases Nat.eq_zero_or_pos s.dim with hd | hd
  · have e : smgTail g s = s := by simp [smgTail, hd]
    rw [e]; exact ⟨h, Frame.refl _ _, he⟩
  · have hm' := hm (by omega)
    obtain ⟨m1, m2, m3, m4, m5, m6, m7⟩ := hm'
    refine ⟨?_, SameSet.of ?_ ?_ ?_ ?_, ?_⟩ <;>
      spec_tac [g.chg, s.b .satg, s.b .satc] using [smgTail]

/-- an observer's effect: invariant kept, same set. -/
structure Obs (s t : PState) : Prop where
  inv : Inv t
  same : SameSet s t

theorem Obs.refl {s : PState} (h : Inv s) : Obs s s := ⟨h, Frame.refl _ _⟩
theorem Obs.trans {s t u : PState} (h1 : Obs s t) (h2 : Obs t u) : Obs s u := ⟨h2.inv, h1.same.trans h2.same⟩

theorem minimize_obs (g : Gh) (s : PState) (h : Inv s) : Obs s (minimize g s).2 :=
  ⟨(minimize_spec g s h).1, (minimize_spec g s h).2.1⟩

theorem isEmpty_obs (g : Gh) (s : PState) (h : Inv s) : Obs s (isEmpty g s).2 :=
  ⟨(isEmpty_spec g s h).1, (isEmpty_spec g s h).2.1⟩

theorem stronglyMinimizeConstraints_obs (g : Gh) (s : PState) (h : Inv s) :
    Obs s (stronglyMinimizeConstraints g s).2 := by
  obtain ⟨h1, h2, h3, h4⟩ := minimize_spec g s h
  rcases Bool.eq_false_or_eq_true (minimize g s).1 with hr | hr
  · have e : stronglyMinimizeConstraints g s = (true, smcTail g (minimize g s).2) := by
      simp [stronglyMinimizeConstraints, hr]
    rw [e]
    have hd : (minimize g s).2.dim = s.dim := h2.dim
    obtain ⟨k1, k2, _⟩ := smcTail_spec g (minimize g s).2 h1 (fun hd' => (h3 hr).2 (by omega)) (h3 hr).1
    exact ⟨k1, h2.trans k2⟩
  · have e : stronglyMinimizeConstraints g s = (false, (minimize g s).2) := by
      simp [stronglyMinimizeConstraints, hr]
    rw [e]; exact ⟨h1, h2⟩

theorem stronglyMinimizeGenerators_obs (g : Gh) (s : PState) (h : Inv s) :
    Obs s (stronglyMinimizeGenerators g s).2 := by
  obtain ⟨h1, h2, h3, h4⟩ := minimize_spec g s h
  rcases Bool.eq_false_or_eq_true (minimize g s).1 with hr | hr
  · have e : stronglyMinimizeGenerators g s = (true, smgTail g (minimize g s).2) := by
      simp [stronglyMinimizeGenerators, hr]
    rw [e]
    have hd : (minimize g s).2.dim = s.dim := h2.dim
    obtain ⟨k1, k2, _⟩ := smgTail_spec g (minimize g s).2 h1 (fun hd' => (h3 hr).2 (by omega)) (h3 hr).1
    exact ⟨k1, h2.trans k2⟩
  · have e : stronglyMinimizeGenerators g s = (false, (minimize g s).2) := by
      simp [stronglyMinimizeGenerators, hr]
    rw [e]; exact ⟨h1, h2⟩

theorem needCons_obs (g : Gh) (s : PState) (h : Inv s) (he : s.b .em = false) (hd : s.dim ≠ 0) :
    Obs s (needCons g s) := ⟨(needCons_spec g s h he hd).1, (needCons_spec g s h he hd).2.1⟩

theorem needGens_obs (g : Gh) (s : PState) (h : Inv s) (he : s.b .em = false) (hd : s.dim ≠ 0) :
    Obs s (needGens g s).2 := ⟨(needGens_spec g s h he hd).1, (needGens_spec g s h he hd).2.1⟩

/-- a marked-empty or zero-dimensional object: only sortedness of a (cleared) system is touched. -/
theorem setSorted_obs (s : PState) (h : Inv s) (he : s.b .em = true) :
    Obs s (s.set .csS true |>.set .rC true) ∧ Obs s (s.set .gsS true |>.set .rG true) := by
  refine ⟨⟨?_, SameSet.of ?_ ?_ ?_ ?_⟩, ⟨?_, SameSet.of ?_ ?_ ?_ ?_⟩⟩ <;> spec_tac [] using []

/-- `constraints()`. -/
theorem constraints_obs (g : Gh) (s : PState) (h : Inv s) : Obs s (constraints g s) := by
  rcases Bool.eq_false_or_eq_true (s.b .em) with he | he
  · have e : constraints g s = (s.set .csS true |>.set .rC true) := by simp [constraints, he]
    rw [e]; exact (setSorted_obs s h he).1
  rcases Nat.eq_zero_or_pos s.dim with hd | hd
  · have e : constraints g s = s := by simp [constraints, he, hd]
    rw [e]; exact Obs.refl h
  · have e : constraints g s = needCons g s := by
      have : ¬ s.dim = 0 := by omega
      simp [constraints, he, this]
    rw [e]; exact needCons_obs g s h he (by omega)

/-- `generators()`. -/
theorem generators_obs (g : Gh) (s : PState) (h : Inv s) : Obs s (generators g s) := by
  rcases Bool.eq_false_or_eq_true (s.b .em) with he | he
  · have e : generators g s = (s.set .gsS true |>.set .rG true) := by simp [generators, he]
    rw [e]; exact (setSorted_obs s h he).2
  rcases Nat.eq_zero_or_pos s.dim with hd | hd
  · have e : generators g s = s := by simp [generators, he, hd]
    rw [e]; exact Obs.refl h
  · have hd' : ¬ s.dim = 0 := by omega
    obtain ⟨h1, h2, h3, h4⟩ := needGens_spec g s h he hd'
    rcases Bool.eq_false_or_eq_true (needGens g s).1 with hr | hr
    · have e : generators g s = ((needGens g s).2.set .gsS true |>.set .rG true) := by
        simp [generators, he, hd', hr]
      rw [e]; exact Obs.trans ⟨h1, h2⟩ (setSorted_obs _ h1 (h3 hr)).2
    · have hr' := h4 hr
      rcases Bool.eq_false_or_eq_true ((needGens g s).2.nnc && (needGens g s).2.b .gmin && !(needGens g s).2.b .gpend) with hq | hq
      · have e : generators g s = obtainSortedGenerators (needGens g s).2 := by
          simp [generators, he, hd', hr]
          simp at hq
          simp [hq]
        rw [e]
        obtain ⟨k1, _, k3⟩ := osg_spec (needGens g s).2 h1 hr'.gup hr'.em
        exact Obs.trans ⟨h1, h2⟩ ⟨k1, k3.mono satFlds_sub⟩
      · have e : generators g s = (needGens g s).2 := by
          simp [generators, he, hd', hr]
          intro a b c
          simp [a, b, c] at hq
        rw [e]; exact ⟨h1, h2⟩

/-- a step that only re-represents the set. -/
def ObsStep (f : Step) : Prop := ∀ g s, Inv s → Obs s (f g s)

theorem unlessEm_obs {f : Step} (hf : ∀ g s, Inv s → s.b .em = false → Obs s (f g s)) : ObsStep (unlessEm f) := by
  intro g s h
  rcases Bool.eq_false_or_eq_true (s.b .em) with he | he
  · have e : unlessEm f g s = s := by simp [unlessEm, he]
    rw [e]; exact Obs.refl h
  · have e : unlessEm f g s = f g s := by simp [unlessEm, he]
    rw [e]; exact hf g s h he

theorem minimizeOrStrongC_obs : ObsStep (fun g s => if !s.nnc then (minimize g s).2 else (stronglyMinimizeConstraints g s).2) := by
  intro g s h
  show Obs s (if !s.nnc then (minimize g s).2 else (stronglyMinimizeConstraints g s).2)
  split
  · exact minimize_obs g s h
  · exact stronglyMinimizeConstraints_obs g s h

theorem minimizeOrStrongG_obs : ObsStep (fun g s => if !s.nnc then (minimize g s).2 else (stronglyMinimizeGenerators g s).2) := by
  intro g s h
  show Obs s (if !s.nnc then (minimize g s).2 else (stronglyMinimizeGenerators g s).2)
  split
  · exact minimize_obs g s h
  · exact stronglyMinimizeGenerators_obs g s h

theorem constraints_obsStep : ObsStep constraints := fun g s h => constraints_obs g s h
theorem generators_obsStep : ObsStep generators := fun g s h => generators_obs g s h
theorem isEmpty_obsStep : ObsStep (fun g s => (isEmpty g s).2) := fun g s h => isEmpty_obs g s h

/-- `relation_with(c)`, `relation_with(cg)`. -/
theorem relationWithCon_obsStep : ObsStep relationWithCon := by
  intro g s h
  unfold relationWithCon
  split
  · exact Obs.refl h
  split
  · exact Obs.refl h
  · next he hd => exact needGens_obs g s h (by simpa using he) (by simpa using hd)

/-- `is_bounded()`, `bounds()`, `max_min()`. -/
theorem isBounded_obsStep : ObsStep isBounded := by
  intro g s h
  unfold isBounded
  split
  · exact Obs.refl h
  split
  · exact Obs.refl h
  · next hd he => exact needGens_obs g s h (by simpa using he) (by simpa using hd)

/-- `is_universe()`. -/
theorem isUniverse_obsStep : ObsStep isUniverse := by
  intro g s h
  unfold isUniverse
  split
  · exact Obs.refl h
  split
  · exact Obs.refl h
  split
  · exact Obs.refl h
  split
  · exact Obs.refl h
  split
  · next _ _ _ _ hg => obtain ⟨h1, h2, _⟩ := ppg_spec g s h hg; exact ⟨h1, h2⟩
  split
  · exact minimize_obs g s h
  · exact Obs.refl h

/-- `constrains(var)`. -/
theorem constrains_obsStep : ObsStep constrains := by
  intro g s h
  unfold constrains
  split
  · exact Obs.refl h
  split
  · next he hg =>
    split
    · exact Obs.refl h
    split
    · exact Obs.refl h
    · have he' : s.b .em = false := by simpa using he
      have hd : s.dim ≠ 0 := by
        intro hd
        have hg' : s.b .gup = true := by simp at hg; exact hg.1
        spec_tac [s.b .em] using []
      exact needCons_obs g s h he' hd
  · exact minimize_obs g s h

/-- `is_topologically_closed()`. -/
theorem isTopologicallyClosed_obsStep : ObsStep isTopologicallyClosed := by
  intro g s h
  unfold isTopologicallyClosed
  split
  · exact Obs.refl h
  split
  · exact Obs.refl h
  split
  · exact Obs.refl h
  next hn he hd =>
  have he' : s.b .em = false := by simpa using he
  rcases Bool.eq_false_or_eq_true s.hasSomethingPending with hp | hp
  · obtain ⟨h1, h2, h3, h4⟩ := processPending_spec g s h hp
    simp only [hp, ite_true]
    rcases Bool.eq_false_or_eq_true (processPending g s).1 with hr | hr
    · simp only [hr, Bool.not_true, Bool.false_eq_true, ite_false]
      split
      · exact ⟨h1, h2⟩
      · have hm := h3 hr
        have hd' : (processPending g s).2.dim = s.dim := h2.dim
        obtain ⟨k1, k2, k3, k4⟩ := minimize_spec g (processPending g s).2 h1
        exact Obs.trans ⟨h1, h2⟩ (stronglyMinimizeConstraints_obs g _ h1)
    · simp only [hr, Bool.not_false, ite_true]; exact ⟨h1, h2⟩
  · simp only [hp, Bool.false_eq_true, ite_false, Bool.not_true]
    split
    · exact Obs.refl h
    · exact stronglyMinimizeConstraints_obs g s h

/-- `relation_with(g)`, second half. -/
theorem relationWithGenTail_obs : ObsStep (unlessEm fun g s => if s.dim == 0 then s else needCons g s) := by
  apply unlessEm_obs
  intro g s h he
  show Obs s (if s.dim == 0 then s else needCons g s)
  split
  · exact Obs.refl h
  · next hd => exact needCons_obs g s h he (by simpa using hd)

end PPLV.PolyStatus
