import PPLV.PolyStatus.State
/-!
# C01 stage 2 — the invariant of the status protocol (executable, `Bool`-valued)

`statusOK` is the legality table of `Polyhedron::Status::OK()` (`src/Ph_Status.cc`); `polyOK` adds the
structural clauses of `Polyhedron::OK()` that only mention the status word and the space dimension;
`semOK` says that no flag is set over a description that was modified without being re-validated.
The driver evaluates the same functions on observed flags.
-/
namespace PPLV.PolyStatus
namespace PState

/-- `Polyhedron::Status::OK()`. -/
def statusOK (s : PState) : Bool :=
  if s.ze then true
  else if s.em then
    -- "The empty flag is incompatible with any other one."
    !(s.cup || s.gup || s.cmin || s.gmin || s.satc || s.satg || s.cpend || s.gpend)
  else
    !((s.satc || s.satg) && !(s.cup && s.gup))
    && !(s.cmin && !s.cup)
    && !(s.gmin && !s.gup)
    && !(s.cpend && s.gpend)
    && (!(s.cpend || s.gpend) || ((s.cmin && s.gmin) && (s.satc || s.satg)))

/-- The clauses of `Polyhedron::OK()` over status word and dimension: a zero-dimensional polyhedron is
`ZE` or `EM`; a non-empty polyhedron of positive dimension has a description up to date. -/
def polyOK (s : PState) : Bool :=
  (!(s.dim == 0) || (s.ze || s.em))
  && (s.dim == 0 || s.em || s.cup || s.gup)

/-- No flag is left set over a description that does not deserve it. -/
def semOK (s : PState) : Bool :=
  (!s.em || s.emp)                                   -- marked empty ⇒ the set is empty
  && (!(s.gup && !(s.cpend && s.pC)) || !s.emp)      -- generators up to date, no pending constraint ⇒ there is a point
  && (!(s.ze && s.dim == 0) || !s.emp)               -- zero-dim universe
  && (!(s.cup && !s.gpend) || s.vC)                  -- CS ⇒ con_sys denotes the set
  && (!(s.gup && !s.cpend) || s.vG)                  -- GS ⇒ gen_sys denotes the set
  && (!(s.cup && s.gpend) || s.dd) && (!(s.gup && s.cpend) || s.dd)  -- pending: the non-pending parts are a DD pair
  && (!s.cpend || s.vC) && (!s.gpend || s.vG)        -- pending rows included, the system denotes the set
  && (!s.cmin || s.mC) && (!s.gmin || s.mG)          -- CM / GM ⇒ minimal form
  && (!s.pC || s.cpend) && (!s.pG || s.gpend)        -- pending rows only under the pending flag
  && (!s.satc || s.vSC) && (!s.satg || s.vSG)        -- SC / SG ⇒ the matrix is the saturation relation
  && (!s.csS || s.rC) && (!s.gsS || s.rG)            -- sorted flag ⇒ rows sorted

def invB (s : PState) : Bool := s.statusOK && s.polyOK && s.semOK

end PState

/-- The invariant of the status protocol. -/
def Inv (s : PState) : Prop := s.invB = true

end PPLV.PolyStatus
