import PPLV.PolyStatus.ProofsC
/-!
# C01 stage 2 — proofs, part D: mutators on one object keep the invariant
-/
namespace PPLV.PolyStatus
open PState

/-- a step that keeps the invariant. -/
def InvStep (f : Step) : Prop := ∀ g s, Inv s → Inv (f g s)

theorem ObsStep.invStep {f : Step} (h : ObsStep f) : InvStep f := fun g s hs => (h g s hs).inv

theorem unlessEm_inv {f : Step} (hf : ∀ g s, Inv s → s.b .em = false → Inv (f g s)) : InvStep (unlessEm f) := by
  intro g s h
  rcases Bool.eq_false_or_eq_true (s.b .em) with he | he
  · have e : unlessEm f g s = s := by simp [unlessEm, he]
    rw [e]; exact h
  · have e : unlessEm f g s = f g s := by simp [unlessEm, he]
    rw [e]; exact hf g s h he

/-- rows inserted into `con_sys` (pending if possible). -/
theorem insertCons_spec (g : Gh) (s : PState) (h : Inv s) (hr : ConsReady s) (hd : s.dim ≠ 0) :
    Inv (insertCons g s) ∧ (insertCons g s).b .em = false ∧ (insertCons g s).dim = s.dim := by
  obtain ⟨r1, r2, r3⟩ := hr
  refine ⟨?_, ?_, ?_⟩ <;>
    spec_tac [s.b .cmin, s.b .gmin, s.b .satc, s.b .satg, s.b .gup] using [insertCons]

/-- rows inserted into `gen_sys` (pending if possible). -/
theorem insertGens_spec (g : Gh) (s : PState) (h : Inv s) (hr : GensReady s) (hd : s.dim ≠ 0) :
    Inv (insertGens g s) ∧ (insertGens g s).b .em = false ∧ (insertGens g s).dim = s.dim := by
  obtain ⟨r1, r2, r3⟩ := hr
  refine ⟨?_, ?_, ?_⟩ <;>
    spec_tac [s.b .cmin, s.b .gmin, s.b .satc, s.b .satg, s.b .cup] using [insertGens]

/-- `Polyhedron::set_empty()` by a mutator that makes the set empty. -/
theorem setEmptyChanged_inv (s : PState) (h : Inv s) : Inv (setEmpty (setChanges true s)) := by
  spec_tac [] using []

theorem stSetEmptyChanged_inv (s : PState) (h : Inv s) (hd : s.dim = 0) : Inv (stSetEmpty (setChanges true s)) := by
  spec_tac [s.b .em] using []

/-- `refine_no_check(c)`. -/
theorem refineNoCheck_spec (g : Gh) (inc : Bool) (s : PState) (h : Inv s) (he : s.b .em = false) :
    Inv (refineNoCheck g inc s) ∧ (inc = false → (refineNoCheck g inc s).b .em = false)
    ∧ (refineNoCheck g inc s).dim = s.dim := by
  rcases Nat.eq_zero_or_pos s.dim with hd | hd
  · rcases Bool.eq_false_or_eq_true inc with hi | hi
    · have e : refineNoCheck g inc s = setEmpty (setChanges true s) := by simp [refineNoCheck, hd, hi]
      rw [e]; exact ⟨setEmptyChanged_inv s h, fun hf => by simp [hi] at hf, by simp [pst]⟩
    · have e : refineNoCheck g inc s = s := by simp [refineNoCheck, hd, hi]
      rw [e]; exact ⟨h, fun _ => he, rfl⟩
  · have hd' : ¬ s.dim = 0 := by omega
    have e : refineNoCheck g inc s = insertCons g (needCons g s) := by
      simp [refineNoCheck, hd', insertCons]
    rw [e]
    obtain ⟨h1, h2, h3⟩ := needCons_spec g s h he hd'
    obtain ⟨k1, k2, k3⟩ := insertCons_spec g _ h1 h3 (by rw [h2.dim]; exact hd')
    exact ⟨k1, fun _ => k2, by rw [k3, h2.dim]⟩

theorem refineNoCheck_step (inc : Bool) : InvStep (unlessEm fun g s => refineNoCheck g inc s) :=
  unlessEm_inv fun g s h he => (refineNoCheck_spec g inc s h he).1

/-- `add_constraint(c)`. -/
theorem addConstraint_inv (f : Facts) : InvStep (fun g s => addConstraint g f s) := by
  intro g s h
  show Inv (addConstraint g f s)
  unfold addConstraint
  split
  · split
    · exact h
    · exact setEmptyChanged_inv s h
  split
  · next _ he => exact (refineNoCheck_spec g f.incons s h (by simpa using he)).1
  · exact h

/-- `refine_with_constraint(c)`. -/
theorem refineWithConstraint_inv (f : Facts) : InvStep (fun g s => refineWithConstraint g f s) := by
  intro g s h
  show Inv (refineWithConstraint g f s)
  unfold refineWithConstraint
  split
  · next he => exact (refineNoCheck_spec g f.incons s h (by simpa using he)).1
  · exact h

theorem addConsBody_inv (g : Gh) (s : PState) (h : Inv s) (he : s.b .em = false) (hd : s.dim ≠ 0) :
    Inv (insertCons g (needCons g s)) := by
  obtain ⟨h1, h2, h3⟩ := needCons_spec g s h he hd
  exact (insertCons_spec g _ h1 h3 (by rw [h2.dim]; exact hd)).1

/-- `add_constraints(cs)` / `add_recycled_constraints(cs)`. -/
theorem addConstraints_inv (f : Facts) : InvStep (fun g s => addConstraints g f s) := by
  intro g s h
  show Inv (addConstraints g f s)
  unfold addConstraints
  split
  · exact setEmptyChanged_inv s h
  split
  · exact h
  split
  · next _ _ hd =>
    split
    · exact stSetEmptyChanged_inv s h (by simpa using hd)
    · exact h
  split
  · exact h
  · next _ _ hd he => exact addConsBody_inv g s h (by simpa using he) (by simpa using hd)

/-- `refine_with_constraints(cs)`. -/
theorem refineWithConstraints_inv (f : Facts) : InvStep (fun g s => refineWithConstraints g f s) := by
  intro g s h
  show Inv (refineWithConstraints g f s)
  unfold refineWithConstraints
  split
  · exact h
  split
  · next _ hd =>
    split
    · exact stSetEmptyChanged_inv s h (by simpa using hd)
    · exact h
  split
  · exact h
  · next _ hd he => exact addConsBody_inv g s h (by simpa using he) (by simpa using hd)

/-- the first point of an empty polyhedron. -/
theorem firstPoint_inv (g : Gh) (s : PState) (h : Inv s) (he : s.b .em = true) (hd : s.dim ≠ 0) :
    Inv (firstPoint g s) := by
  spec_tac [s.nnc, g.keep] using [firstPoint]

theorem setZeroDimUnivPoint_inv (s : PState) : Inv (setZeroDimUniv (s.set .emp false).bump) := by
  spec_tac [] using []

/-- `add_generator(g)`. -/
theorem addGenerator_inv : InvStep addGenerator := by
  intro g s h
  unfold addGenerator
  split
  · split
    · exact setZeroDimUnivPoint_inv s
    · exact h
  next hd =>
  have hd' : s.dim ≠ 0 := by simpa using hd
  rcases Bool.eq_false_or_eq_true (s.b .em) with he | he
  · simp only [PState.em, he, ite_true]
    exact firstPoint_inv g s h he hd'
  · simp only [PState.em, he, Bool.false_eq_true, ite_false]
    obtain ⟨h1, h2, h3, h4⟩ := needGens_spec g s h he hd'
    rcases Bool.eq_false_or_eq_true (needGens g s).1 with hr | hr
    · simp only [hr, ite_true]
      exact firstPoint_inv g _ h1 (h3 hr) (by rw [h2.dim]; exact hd')
    · simp only [hr, Bool.false_eq_true, ite_false]
      exact (insertGens_spec g _ h1 (h4 hr) (by rw [h2.dim]; exact hd')).1

/-- `unconstrain(var)` / `unconstrain(vars)`. -/
theorem unconstrain_inv : InvStep unconstrain := by
  intro g s h
  unfold unconstrain
  split
  · exact h
  next hd =>
  have hd' : s.dim ≠ 0 := by simpa using hd
  rcases Bool.eq_false_or_eq_true (s.b .em) with he | he
  · simp only [PState.em, he, ite_true]; exact h
  · simp only [PState.em, he, Bool.false_eq_true, ite_false]
    obtain ⟨h1, h2, h3, h4⟩ := needGens_spec g s h he hd'
    rcases Bool.eq_false_or_eq_true (needGens g s).1 with hr | hr
    · simp only [hr, ite_true]; exact h1
    · simp only [hr, Bool.false_eq_true, ite_false]
      exact (insertGens_spec g _ h1 (h4 hr) (by rw [h2.dim]; exact hd')).1

/-- `add_generators(gs)`: the generators replace an empty polyhedron. -/
theorem swapGens_inv (g : Gh) (s : PState) (h : Inv s) (he : s.b .em = true) (hd : s.dim ≠ 0) :
    Inv (swapGens g s) := by
  spec_tac [g.keep] using [swapGens]

/-- `add_generators(gs)` / `add_recycled_generators(gs)`. -/
theorem addGenerators_inv (f : Facts) : InvStep (fun g s => addGenerators g f s) := by
  intro g s h
  show Inv (addGenerators g f s)
  unfold addGenerators
  split
  · exact h
  split
  · exact setZeroDimUnivPoint_inv s
  next _ hd =>
  have hd' : s.dim ≠ 0 := by simpa using hd
  obtain ⟨h1, h2, h3, h4⟩ := needGensMin_spec g s h hd'
  rcases Bool.eq_false_or_eq_true (needGensMin g s).1 with hr | hr
  · simp only [hr, ite_true]; exact swapGens_inv g _ h1 (h3 hr) (by rw [h2.dim]; exact hd')
  · simp only [hr, Bool.false_eq_true, ite_false]
    exact (insertGens_spec g _ h1 (h4 hr) (by rw [h2.dim]; exact hd')).1

end PPLV.PolyStatus
