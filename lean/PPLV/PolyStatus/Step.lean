import PPLV.PolyStatus.Ops2
import PPLV.PolyStatus.Inv
/-!
# C01 stage 2 — the operations of the protocol as data, and a pool of polyhedra

`Op1` / `Op2` name every modelled public method; `apply1` / `apply2` dispatch to the code-shaped
functions.  `PolyOp` is one step on a pool of objects (`World`), `PolyProto.step` its effect:
a binary call whose operands disagree in dimension or topology throws in the real code and is a
no-op here.
-/
namespace PPLV.PolyStatus
open PState

/-- methods on one object. -/
inductive Op1
  -- observers
  | constraints | minimizedConstraints | generators | minimizedGenerators
  | isEmpty | isUniverse | isBounded | isTopologicallyClosed | constrains
  | relationWithCon | relationWithGen | relationWithCg | bounds | maxMin | affineDimension
  -- mutators
  | addConstraint | addConstraints | refineWithConstraint | refineWithConstraints
  | addGenerator | addGenerators | unconstrain
  | affineImage | affinePreimage | generalizedAffineImage | generalizedAffinePreimage
  | generalizedAffineImage2 | generalizedAffinePreimage2 | boundedAffineImage | boundedAffinePreimage
  | topologicalClosureAssign
  | addSpaceDimensionsAndEmbed | addSpaceDimensionsAndProject | removeSpaceDimensions
  | removeHigherSpaceDimensions | expandSpaceDimension | mapSpaceDimensions
deriving DecidableEq, Repr, Inhabited

def Op1.isObserver : Op1 → Bool
  | .constraints | .minimizedConstraints | .generators | .minimizedGenerators
  | .isEmpty | .isUniverse | .isBounded | .isTopologicallyClosed | .constrains
  | .relationWithCon | .relationWithGen | .relationWithCg | .bounds | .maxMin | .affineDimension => true
  | _ => false

/-- methods on two objects (the second one `const`). -/
inductive Op2
  | contains | strictlyContains | isDisjointFrom | equals      -- observers
  | intersectionAssign | polyHullAssign | polyDifferenceAssign | timeElapseAssign
  | concatenateAssign | simplifyUsingContextAssign | assign | mSwap
deriving DecidableEq, Repr, Inhabited

def Op2.isObserver : Op2 → Bool
  | .contains | .strictlyContains | .isDisjointFrom | .equals => true
  | _ => false

/-- the steps of a method on one object; `s0` is the receiver at the call (early returns that depend on it). -/
def stepsOf (o : Op1) (f : Facts) (s0 : PState) : List Step :=
  match o with
  | .constraints => [constraints]
  | .minimizedConstraints => minimizedConstraintsSteps
  | .generators => [generators]
  | .minimizedGenerators => minimizedGeneratorsSteps
  | .isEmpty => [fun g s => (isEmpty g s).2]
  | .isUniverse => [isUniverse]
  | .isBounded | .bounds | .maxMin => [isBounded]
  | .isTopologicallyClosed => [isTopologicallyClosed]
  | .constrains => [constrains]
  | .relationWithCon | .relationWithCg => [relationWithCon]
  | .relationWithGen => relationWithGenSteps
  | .affineDimension => affineDimensionSteps
  | .addConstraint => [fun g s => addConstraint g f s]
  | .addConstraints => [fun g s => addConstraints g f s]
  | .refineWithConstraint => [fun g s => refineWithConstraint g f s]
  | .refineWithConstraints => [fun g s => refineWithConstraints g f s]
  | .addGenerator => [addGenerator]
  | .addGenerators => [fun g s => addGenerators g f s]
  | .unconstrain => [unconstrain]
  | .affineImage => [fun g s => affineImage g f s]
  | .affinePreimage => [fun g s => affinePreimage g f s]
  | .generalizedAffineImage => generalizedAffineImageSteps f
  | .generalizedAffinePreimage => if s0.em then [] else generalizedAffinePreimageSteps f
  | .generalizedAffineImage2 => generalizedAffineImage2Steps f s0
  | .generalizedAffinePreimage2 => generalizedAffinePreimage2Steps f s0
  | .boundedAffineImage => boundedAffineImageSteps f s0
  | .boundedAffinePreimage => boundedAffinePreimageSteps f s0
  | .topologicalClosureAssign => if !s0.nnc || s0.em || s0.dim == 0 then [] else topologicalClosureAssignSteps
  | .addSpaceDimensionsAndEmbed => [fun g s => addSpaceDimensionsAndEmbed g f s]
  | .addSpaceDimensionsAndProject => [fun g s => addSpaceDimensionsAndProject g f s]
  | .removeSpaceDimensions => [fun g s => removeSpaceDimensions g f s]
  | .removeHigherSpaceDimensions => [fun g s => removeHigherSpaceDimensions g f s]
  | .expandSpaceDimension => if f.m == 0 then [] else expandSpaceDimensionSteps f
  | .mapSpaceDimensions => mapSpaceDimensionsSteps f s0

/-- a method on one object, with the ghost inputs of its steps. -/
def apply1 (o : Op1) (gs : List Gh) (f : Facts) (s : PState) : PState :=
  runSteps (stepsOf o f s) gs s

/-- the steps of a binary method (all but `poly_difference_assign`, whose loop has its own ghost inputs). -/
def steps2Of (o : Op2) : List Step2 :=
  match o with
  | .contains => [fun h c => contains h.gx h.gy h.q c]
  | .strictlyContains => strictlyContainsSteps
  | .isDisjointFrom => [fun h c => isDisjointFrom h.gx h.gy c]
  | .equals => equalsSteps
  | .intersectionAssign => [fun h c => intersectionAssign h.gx h.gy c]
  | .polyHullAssign => [fun h c => polyHullAssign h.gx h.gy c]
  | .polyDifferenceAssign => []
  | .timeElapseAssign => [fun h c => timeElapseAssign h.gx h.gy c]
  | .concatenateAssign => [fun h c => concatenateAssign h.gx h.gy c]
  | .simplifyUsingContextAssign => [fun h c => simplifyUsingContextAssign h.gx h.gy c]
  | .assign => [fun _ c => assignFromY c]
  | .mSwap => [fun _ c => mSwap c]

/-- a binary method, with the ghost inputs of its steps (`its`: those of the loop of `poly_difference_assign`). -/
def apply2 (o : Op2) (hs : List Gh2) (its : List (Gh × Gh)) (c : Two) : Two :=
  match o with
  | .polyDifferenceAssign =>
    let h := hs.headD {}
    polyDifferenceAssign h.gx h.gy h.q its c
  | _ => runSteps2 (steps2Of o) hs c

/-- binary methods other than `concatenate_assign` throw unless dimension and topology agree. -/
def Op2.compatible (o : Op2) (x y : PState) : Bool :=
  x.nnc == y.nnc && (o == .concatenateAssign || x.dim == y.dim)

/-! ## a pool of polyhedra -/

abbrev World := Nat → PState

def World.set (w : World) (i : Nat) (s : PState) : World := fun j => if j = i then s else w j

/-- one step of a history. -/
inductive PolyOp
  | newDegenerate (slot : Nat) (nnc : Bool) (dim : Nat) (empty : Bool) (g : Gh)
  | newCons (slot : Nat) (nnc : Bool) (f : Facts) (g : Gh)
  | newGens (slot : Nat) (nnc : Bool) (f : Facts) (g : Gh)
  | copy (dst src : Nat)
  | un (slot : Nat) (o : Op1) (gs : List Gh) (f : Facts)
  | bin (slot arg : Nat) (o : Op2) (hs : List Gh2) (its : List (Gh × Gh))
deriving Inhabited

namespace PolyProto

/-- every slot starts as a zero-dimensional universe (`Status()`), which satisfies the invariant. -/
def init : World := fun _ => fresh false

def step (w : World) : PolyOp → World
  | .newDegenerate i nnc dim empty g => w.set i (ctorDegenerate nnc dim empty g)
  | .newCons i nnc f g => w.set i (ctorCons nnc f g)
  | .newGens i nnc f g => w.set i (ctorGens nnc f g)
  | .copy d s => w.set d (copyCtor (w s))
  | .un i o gs f => w.set i (apply1 o gs f (w i))
  | .bin i j o hs its =>
    if !o.compatible (w i) (w j) then w
    else if i = j then w.set i (apply2 o hs its { x := w i, y := w i, al := true }).x
    else
      let r := apply2 o hs its { x := w i, y := w j, al := false }
      (w.set i r.x).set j r.gy      -- (`r.gy` is `r.y`: no method changes the identity of its operands)

end PolyProto

/-- the invariant holds of every object of the pool. -/
def StatusInv (w : World) : Prop := ∀ i, Inv (w i)

end PPLV.PolyStatus
