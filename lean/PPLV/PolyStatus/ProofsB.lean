import PPLV.PolyStatus.ProofsA
/-!
# C01 stage 2 — proofs, part B: `minimize`, `is_empty`, the "need constraints / generators" idioms
-/
namespace PPLV.PolyStatus
open PState

theorem Minimized.of_flags {s : PState} (he : s.b .em = false) (h1 : s.b .cup = true) (h2 : s.b .gup = true)
    (h3 : s.b .cmin = true) (h4 : s.b .gmin = true) (h5 : s.b .cpend = false) (h6 : s.b .gpend = false) :
    Minimized s := ⟨he, h1, h2, h3, h4, h5, h6⟩

/-- facts the legality table gives for free -/
theorem Inv.pend_facts {s : PState} (h : Inv s) (hp : s.b .cpend = true ∨ s.b .gpend = true) :
    s.b .em = false ∧ s.dim ≠ 0 ∧ s.b .cup = true ∧ s.b .gup = true ∧ s.b .cmin = true ∧ s.b .gmin = true := by
  rcases hp with hp | hp <;> refine ⟨?_, ?_, ?_, ?_, ?_, ?_⟩ <;> spec_tac [s.b .em] using []

theorem Inv.cpend_gpend {s : PState} (h : Inv s) (hp : s.b .cpend = true) : s.b .gpend = false := by
  spec_tac [s.b .em] using []

theorem Inv.em_emp {s : PState} (h : Inv s) (he : s.b .em = true) : s.b .emp = true := by
  spec_tac [] using []

theorem Inv.gup_nonempty {s : PState} (h : Inv s) (hg : s.b .gup = true) (hc : s.b .cpend = false) :
    s.b .emp = false := by
  spec_tac [s.b .em] using []

/-- `process_pending()`. -/
theorem processPending_spec (g : Gh) (s : PState) (h : Inv s) (hp : s.hasSomethingPending = true) :
    Inv (processPending g s).2 ∧ SameSet s (processPending g s).2
    ∧ ((processPending g s).1 = true → Minimized (processPending g s).2)
    ∧ ((processPending g s).1 = false → (processPending g s).2.b .em = true) := by
  unfold processPending
  rcases Bool.eq_false_or_eq_true (s.b .cpend) with hc | hc
  · simp only [PState.cpend, hc, ite_true]; exact ppc_spec g s h hc
  · have hg : s.b .gpend = true := by simpa [hasSomethingPending, PState.cpend, PState.gpend, hc] using hp
    simp only [PState.cpend, hc]
    obtain ⟨h1, h2, h3⟩ := ppg_spec g s h hg
    exact ⟨h1, h2, fun _ => h3, fun hf => by simp at hf⟩

/-- `minimize()`. -/
theorem minimize_spec (g : Gh) (s : PState) (h : Inv s) :
    Inv (minimize g s).2 ∧ SameSet s (minimize g s).2
    ∧ ((minimize g s).1 = true → (minimize g s).2.b .em = false ∧ (s.dim ≠ 0 → Minimized (minimize g s).2))
    ∧ ((minimize g s).1 = false → (minimize g s).2.b .em = true) := by
  unfold minimize
  split
  · next he => exact ⟨h, Frame.refl _ _, fun hf => by simp at hf, fun _ => he⟩
  split
  · next he hd =>
    refine ⟨h, Frame.refl _ _, fun _ => ⟨by simpa using he, fun hd' => absurd (by simpa using hd) hd'⟩, fun hf => by simp at hf⟩
  split
  · next he hd hp =>
    obtain ⟨h1, h2, h3, h4⟩ := processPending_spec g s h hp
    exact ⟨h1, h2, fun hr => ⟨(h3 hr).em, fun _ => h3 hr⟩, h4⟩
  split
  · next he hd hp hm =>
    refine ⟨h, Frame.refl _ _, fun _ => ⟨by simpa using he, fun _ => ?_⟩, fun hf => by simp at hf⟩
    constructor <;> spec_tac [s.b .em] using []
  split
  · next he hd hp hm hc =>
    have he' : s.b .em = false := by simpa using he
    have hd' : s.dim ≠ 0 := by simpa using hd
    have hpp : s.b .cpend = false ∧ s.b .gpend = false := by simpa [hasSomethingPending] using hp
    obtain ⟨h1, h2, h3, h4⟩ := updateGenerators_spec g s h he' hd' hc hpp.1 hpp.2
    exact ⟨h1, h2, fun hr => ⟨(h3 hr).em, fun _ => h3 hr⟩, h4⟩
  · next he hd hp hm hc =>
    have he' : s.b .em = false := by simpa using he
    have hd' : s.dim ≠ 0 := by simpa using hd
    have hpp : s.b .cpend = false ∧ s.b .gpend = false := by simpa [hasSomethingPending] using hp
    have hg : s.b .gup = true := by spec_tac [s.b .em] using []
    obtain ⟨h1, h2, h3⟩ := updateConstraints_spec g s h he' hd' hg hpp.1 hpp.2
    exact ⟨h1, h2, fun _ => ⟨h3.em, fun _ => h3⟩, fun hf => by simp at hf⟩

/-- `minimize()` finds a polyhedron empty only if its set is empty. -/
theorem minimize_false_emp (g : Gh) (s : PState) (h : Inv s) (hr : (minimize g s).1 = false) : s.b .emp = true := by
  obtain ⟨h1, h2, _, h4⟩ := minimize_spec g s h
  rw [← h2.emp]; exact h1.em_emp (h4 hr)

/-- `is_empty()`: the answer is the `EM` flag afterwards. -/
theorem isEmpty_spec (g : Gh) (s : PState) (h : Inv s) :
    Inv (isEmpty g s).2 ∧ SameSet s (isEmpty g s).2 ∧ (isEmpty g s).1 = (isEmpty g s).2.b .em := by
  unfold isEmpty
  split
  · next he => exact ⟨h, Frame.refl _ _, by simpa using he.symm⟩
  split
  · next he hg =>
    refine ⟨h, Frame.refl _ _, ?_⟩
    have : s.b .em = false := by simpa using he
    simp [this]
  · next he hg =>
    obtain ⟨h1, h2, h3, h4⟩ := minimize_spec g s h
    refine ⟨h1, h2, ?_⟩
    rcases Bool.eq_false_or_eq_true (minimize g s).1 with hr | hr
    · simp [hr, (h3 hr).1]
    · simp [hr, h4 hr]

/-- the constraints (possibly with pending rows) are available. -/
structure ConsReady (t : PState) : Prop where
  em : t.b .em = false
  cup : t.b .cup = true
  gpend : t.b .gpend = false

/-- the generators (possibly with pending rows) are available. -/
structure GensReady (t : PState) : Prop where
  em : t.b .em = false
  gup : t.b .gup = true
  cpend : t.b .cpend = false

theorem Minimized.consReady {t : PState} (h : Minimized t) : ConsReady t := ⟨h.em, h.cup, h.gpend⟩
theorem Minimized.gensReady {t : PState} (h : Minimized t) : GensReady t := ⟨h.em, h.gup, h.cpend⟩

/-- "the constraints are required". -/
theorem needCons_spec (g : Gh) (s : PState) (h : Inv s) (he : s.b .em = false) (hd : s.dim ≠ 0) :
    Inv (needCons g s) ∧ SameSet s (needCons g s) ∧ ConsReady (needCons g s) := by
  unfold needCons
  split
  · next hg =>
    obtain ⟨h1, h2, h3⟩ := ppg_spec g s h hg
    exact ⟨h1, h2, h3.consReady⟩
  split
  · next hg hc =>
    have hg' : s.b .gpend = false := by simpa using hg
    have hgu : s.b .gup = true := by spec_tac [s.b .cup] using []
    have hcp : s.b .cpend = false := by spec_tac [s.b .cup] using []
    obtain ⟨h1, h2, h3⟩ := updateConstraints_spec g s h he hd hgu hcp hg'
    exact ⟨h1, h2, h3.consReady⟩
  · next hg hc =>
    exact ⟨h, Frame.refl _ _, ⟨he, by simpa using hc, by simpa using hg⟩⟩

/-- "the generators are required"; the Boolean is "found empty". -/
theorem needGens_spec (g : Gh) (s : PState) (h : Inv s) (he : s.b .em = false) (hd : s.dim ≠ 0) :
    Inv (needGens g s).2 ∧ SameSet s (needGens g s).2
    ∧ ((needGens g s).1 = true → (needGens g s).2.b .em = true)
    ∧ ((needGens g s).1 = false → GensReady (needGens g s).2) := by
  rcases Bool.eq_false_or_eq_true (s.b .cpend) with hc | hc
  · obtain ⟨h1, h2, h3, h4⟩ := ppc_spec g s h hc
    rcases Bool.eq_false_or_eq_true (processPendingConstraints g s).1 with hr | hr
    · have hm := h3 hr
      have e : needGens g s = (false, (processPendingConstraints g s).2) := by
        simp [needGens, hc, hr, hm.gup]
      rw [e]; exact ⟨h1, h2, fun hf => by simp at hf, fun _ => hm.gensReady⟩
    · have e : needGens g s = (true, (processPendingConstraints g s).2) := by simp [needGens, hc, hr]
      rw [e]; exact ⟨h1, h2, fun _ => h4 hr, fun hf => by simp at hf⟩
  rcases Bool.eq_false_or_eq_true (s.b .gup) with hg | hg
  · have e : needGens g s = (false, s) := by simp [needGens, hc, hg]
    rw [e]; exact ⟨h, Frame.refl _ _, fun hf => by simp at hf, fun _ => ⟨he, hg, hc⟩⟩
  · have e : needGens g s = (!(updateGenerators g s).1, (updateGenerators g s).2) := by simp [needGens, hc, hg]
    rw [e]
    have hcu : s.b .cup = true := by spec_tac [s.b .gup] using []
    have hgp : s.b .gpend = false := by spec_tac [s.b .gup] using []
    obtain ⟨h1, h2, h3, h4⟩ := updateGenerators_spec g s h he hd hcu hc hgp
    exact ⟨h1, h2, fun hr => h4 (by simpa using hr), fun hr => (h3 (by simpa using hr)).gensReady⟩

/-- the idiom of `add_recycled_generators`. -/
theorem needGensMin_spec (g : Gh) (s : PState) (h : Inv s) (hd : s.dim ≠ 0) :
    Inv (needGensMin g s).2 ∧ SameSet s (needGensMin g s).2
    ∧ ((needGensMin g s).1 = true → (needGensMin g s).2.b .em = true)
    ∧ ((needGensMin g s).1 = false → GensReady (needGensMin g s).2) := by
  rcases Bool.eq_false_or_eq_true (s.b .cpend) with hc | hc
  · obtain ⟨h1, h2, h3, h4⟩ := ppc_spec g s h hc
    rcases Bool.eq_false_or_eq_true (processPendingConstraints g s).1 with hr | hr
    · have hm := h3 hr
      have e : needGensMin g s = (false, (processPendingConstraints g s).2) := by
        simp [needGensMin, hc, hr, hm.gup]
      rw [e]; exact ⟨h1, h2, fun hf => by simp at hf, fun _ => hm.gensReady⟩
    · have e : needGensMin g s = (true, (processPendingConstraints g s).2) := by simp [needGensMin, hc, hr]
      rw [e]; exact ⟨h1, h2, fun _ => h4 hr, fun hf => by simp at hf⟩
  rcases Bool.eq_false_or_eq_true (s.b .gup) with hg | hg
  · have he : s.b .em = false := by spec_tac [s.b .em] using []
    have e : needGensMin g s = (false, s) := by simp [needGensMin, hc, hg]
    rw [e]; exact ⟨h, Frame.refl _ _, fun hf => by simp at hf, fun _ => ⟨he, hg, hc⟩⟩
  · have e : needGensMin g s = (!(minimize g s).1, (minimize g s).2) := by simp [needGensMin, hc, hg]
    rw [e]
    obtain ⟨h1, h2, h3, h4⟩ := minimize_spec g s h
    exact ⟨h1, h2, fun hr => h4 (by simpa using hr), fun hr => ((h3 (by simpa using hr)).2 hd).gensReady⟩

/-- `remove_pending_to_obtain_constraints()`. -/
theorem removePendingToObtainConstraints_spec (g : Gh) (s : PState) (h : Inv s) (hp : s.hasSomethingPending = true) :
    Inv (removePendingToObtainConstraints g s) ∧ SameSet s (removePendingToObtainConstraints g s)
    ∧ ConsReady (removePendingToObtainConstraints g s)
    ∧ (removePendingToObtainConstraints g s).b .cpend = false := by
  rcases Bool.eq_false_or_eq_true (s.b .cpend) with hc | hc
  · refine ⟨?_, SameSet.of ?_ ?_ ?_ ?_, ⟨?_, ?_, ?_⟩, ?_⟩ <;>
      spec_tac [s.b .pC] using [removePendingToObtainConstraints]
  · have hg : s.b .gpend = true := by simpa [hasSomethingPending, hc] using hp
    have e : removePendingToObtainConstraints g s = processPendingGenerators g s := by
      simp [removePendingToObtainConstraints, hc]
    rw [e]
    obtain ⟨h1, h2, h3⟩ := ppg_spec g s h hg
    exact ⟨h1, h2, h3.consReady, h3.cpend⟩

/-- `remove_pending_to_obtain_generators()`. -/
theorem removePendingToObtainGenerators_spec (g : Gh) (s : PState) (h : Inv s) (hp : s.hasSomethingPending = true) :
    Inv (removePendingToObtainGenerators g s).2 ∧ SameSet s (removePendingToObtainGenerators g s).2
    ∧ ((removePendingToObtainGenerators g s).1 = true → GensReady (removePendingToObtainGenerators g s).2
        ∧ (removePendingToObtainGenerators g s).2.b .gpend = false)
    ∧ ((removePendingToObtainGenerators g s).1 = false → (removePendingToObtainGenerators g s).2.b .em = true) := by
  rcases Bool.eq_false_or_eq_true (s.b .gpend) with hg | hg
  · refine ⟨?_, SameSet.of ?_ ?_ ?_ ?_, fun _ => ⟨⟨?_, ?_, ?_⟩, ?_⟩, ?_⟩ <;>
      spec_tac [s.b .pG] using [removePendingToObtainGenerators]
  · have hc : s.b .cpend = true := by simpa [hasSomethingPending, hg] using hp
    have e : removePendingToObtainGenerators g s = processPendingConstraints g s := by
      simp [removePendingToObtainGenerators, hg]
    rw [e]
    obtain ⟨h1, h2, h3, h4⟩ := ppc_spec g s h hc
    exact ⟨h1, h2, fun hr => ⟨(h3 hr).gensReady, (h3 hr).gpend⟩, h4⟩

/-- "we need updated generators" (pending generators are merged, not processed); the Boolean is "empty". -/
theorem needGensDroppingPending_spec (g : Gh) (s : PState) (h : Inv s) (hd : s.dim ≠ 0) :
    Inv (needGensDroppingPending g s).2 ∧ SameSet s (needGensDroppingPending g s).2
    ∧ ((needGensDroppingPending g s).1 = true → (needGensDroppingPending g s).2.b .em = true)
    ∧ ((needGensDroppingPending g s).1 = false → GensReady (needGensDroppingPending g s).2
        ∧ (needGensDroppingPending g s).2.b .gpend = false) := by
  rcases Bool.eq_false_or_eq_true (s.b .em) with he | he
  · have e : needGensDroppingPending g s = (true, s) := by simp [needGensDroppingPending, he]
    rw [e]; exact ⟨h, Frame.refl _ _, fun _ => he, fun hf => by simp at hf⟩
  rcases Bool.eq_false_or_eq_true s.hasSomethingPending with hp | hp
  · obtain ⟨h1, h2, h3, h4⟩ := removePendingToObtainGenerators_spec g s h hp
    rcases Bool.eq_false_or_eq_true (removePendingToObtainGenerators g s).1 with hr | hr
    · obtain ⟨hm, hgp⟩ := h3 hr
      have e : needGensDroppingPending g s = (false, (removePendingToObtainGenerators g s).2) := by
        simp [needGensDroppingPending, he, hp, hr, hm.gup]
      rw [e]; exact ⟨h1, h2, fun hf => by simp at hf, fun _ => ⟨hm, hgp⟩⟩
    · have e : needGensDroppingPending g s = (true, (removePendingToObtainGenerators g s).2) := by
        simp [needGensDroppingPending, he, hp, hr]
      rw [e]; exact ⟨h1, h2, fun _ => h4 hr, fun hf => by simp at hf⟩
  have hpp : s.b .cpend = false ∧ s.b .gpend = false := by simpa [hasSomethingPending] using hp
  rcases Bool.eq_false_or_eq_true (s.b .gup) with hg | hg
  · have e : needGensDroppingPending g s = (false, s) := by simp [needGensDroppingPending, he, hp, hg]
    rw [e]; exact ⟨h, Frame.refl _ _, fun hf => by simp at hf, fun _ => ⟨⟨he, hg, hpp.1⟩, hpp.2⟩⟩
  · have e : needGensDroppingPending g s = (!(updateGenerators g s).1, (updateGenerators g s).2) := by
      simp [needGensDroppingPending, he, hp, hg]
    rw [e]
    have hcu : s.b .cup = true := by spec_tac [s.b .gup] using []
    obtain ⟨h1, h2, h3, h4⟩ := updateGenerators_spec g s h he hd hcu hpp.1 hpp.2
    exact ⟨h1, h2, fun hr => h4 (by simpa using hr),
      fun hr => ⟨(h3 (by simpa using hr)).gensReady, (h3 (by simpa using hr)).gpend⟩⟩

end PPLV.PolyStatus
