import PPLV.PolyStatus.Step
/-!
# C01 stage 2 — models of three methods with one status update removed

Used by `C01.forgotten_*_fails` (`Props/C01Status.lean`): the invariant is not preserved by these variants, i.e. the
theorem `C01.status_inv` does notice a forgotten `clear_*()`.
-/
namespace C01
open PPLV.PolyStatus PPLV.PolyStatus.PState

/-- `intersection_assign`, non-pending path, without `clear_generators_up_to_date()`. -/
def insertConsForgotGens (g : Gh) (s : PState) : PState :=
  let s := setChanges g.be s
  if s.canHaveSomethingPending then setConstraintsPending (conInsertPending s)
  else clearConstraintsMinimized (conInsert g.keep s)

/-- a polyhedron with both descriptions up to date but not minimised (legal by `Status::OK()`). -/
def bothUpToDate : PState :=
  (fresh false).setDim 2 |>.set .cup true |>.set .gup true |>.set .vC true |>.set .vG true |>.set .dd true

/-- `add_generator`, non-pending path, leaving `constraints_minimized` set. -/
def insertGensForgotCmin (g : Gh) (s : PState) : PState :=
  let s := setChanges false s
  if s.canHaveSomethingPending then setGeneratorsPending (genInsertPending s)
  else
    clearGeneratorsMinimized ((genInsert g.keep s).set .cpend false |>.set .satc false |>.set .satg false |>.set .cup false)

def consMinimizedGensUp : PState := (bothUpToDate.set .cmin true).set .mC true

/-- `obtain_sorted_generators` not clearing `sat_g_up_to_date` after sorting with `sat_c`. -/
def obtainSortedGeneratorsForgot (s : PState) : PState :=
  if !s.gsS then
    if s.satc then genSortWithSatC s
    else if s.satg then clearSatGUpToDate (setSatCUpToDate (genSortWithSatC (satCFromSatG s)))
    else genSortRows s
  else s

def minimizedBothSat : PState :=
  bothUpToDate.set .cmin true |>.set .mC true |>.set .gmin true |>.set .mG true |>.set .satc true |>.set .vSC true
    |>.set .satg true |>.set .vSG true |>.set .gsS false |>.set .rG false


end C01
