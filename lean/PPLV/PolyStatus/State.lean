/-!
# C01 stage 2 — the lazy status protocol of `Polyhedron`: abstract state

The abstract state of one `Polyhedron` object:

* the nine stored bits of `Polyhedron::Status` (`src/Ph_Status_idefs.hh`; `ZE` is the all-zero
  word, `ZERO_DIM_UNIV = 0`), the space dimension and the topology;
* the `sorted` flags of the two `Linear_System`s;
* ghost facts the code does not store: whether the denoted set is empty, which description
  denotes the set, whether a description is in minimal form, whether a saturation matrix is the
  saturation relation of the two systems, whether the rows are really sorted, whether pending
  rows (may) exist, and a counter of set changes.

The Boolean components are a function `Fld → Bool` (one generic update `set`, one generic lemma).
No Mathlib; this file is linked into the native driver `pplv_polystatus`.
-/
namespace PPLV.PolyStatus

/-- The Boolean components of the abstract state. -/
inductive Fld
  -- Polyhedron::Status
  | em      -- EMPTY
  | cup     -- C_UP_TO_DATE      (CS)
  | gup     -- G_UP_TO_DATE      (GS)
  | cmin    -- C_MINIMIZED       (CM)
  | gmin    -- G_MINIMIZED       (GM)
  | satc    -- SAT_C_UP_TO_DATE  (SC)
  | satg    -- SAT_G_UP_TO_DATE  (SG)
  | cpend   -- CS_PENDING        (CP)
  | gpend   -- GS_PENDING        (GP)
  -- Linear_System::sorted of con_sys / gen_sys
  | csS | gsS
  -- ghost
  | emp     -- the denoted set is empty
  | vC      -- con_sys (all rows, pending included) denotes the set
  | vG      -- gen_sys (all rows, pending included) denotes the set
  | dd      -- the non-pending parts of con_sys and gen_sys denote the same set
  | mC      -- the non-pending part of con_sys is in minimal form
  | mG      -- the non-pending part of gen_sys is in minimal form
  | vSC     -- sat_c is the saturation relation of the two non-pending parts
  | vSG     -- sat_g is the saturation relation of the two non-pending parts
  | rC      -- the non-pending rows of con_sys are really sorted
  | rG      -- the non-pending rows of gen_sys are really sorted
  | pC      -- con_sys may have pending rows
  | pG      -- gen_sys may have pending rows
deriving DecidableEq, Repr, Inhabited

def Fld.all : List Fld :=
  [.em, .cup, .gup, .cmin, .gmin, .satc, .satg, .cpend, .gpend, .csS, .gsS, .emp, .vC, .vG, .dd, .mC, .mG,
   .vSC, .vSG, .rC, .rG, .pC, .pG]

structure PState where
  nnc : Bool := false
  dim : Nat := 0
  ver : Nat := 0            -- ghost: number of set changes performed by mutators
  b : Fld → Bool := fun _ => false

instance : Inhabited PState := ⟨{}⟩

namespace PState

/-- update of one Boolean component. -/
def set (s : PState) (f : Fld) (v : Bool) : PState :=
  { s with b := fun f' => if f' = f then v else s.b f' }

@[simp] theorem b_set (s : PState) (f f' : Fld) (v : Bool) :
    (s.set f v).b f' = if f' = f then v else s.b f' := rfl
@[simp] theorem dim_set (s : PState) (f : Fld) (v : Bool) : (s.set f v).dim = s.dim := rfl
@[simp] theorem ver_set (s : PState) (f : Fld) (v : Bool) : (s.set f v).ver = s.ver := rfl
@[simp] theorem nnc_set (s : PState) (f : Fld) (v : Bool) : (s.set f v).nnc = s.nnc := rfl

def setDim (s : PState) (d : Nat) : PState := { s with dim := d }
def bump (s : PState) : PState := { s with ver := s.ver + 1 }
@[simp] theorem b_setDim (s : PState) (d : Nat) (f : Fld) : (s.setDim d).b f = s.b f := rfl
@[simp] theorem dim_setDim (s : PState) (d : Nat) : (s.setDim d).dim = d := rfl
@[simp] theorem ver_setDim (s : PState) (d : Nat) : (s.setDim d).ver = s.ver := rfl
@[simp] theorem nnc_setDim (s : PState) (d : Nat) : (s.setDim d).nnc = s.nnc := rfl
def setVer (s : PState) (v : Nat) : PState := { s with ver := v }
@[simp] theorem b_setVer (s : PState) (v : Nat) (f : Fld) : (s.setVer v).b f = s.b f := rfl
@[simp] theorem dim_setVer (s : PState) (v : Nat) : (s.setVer v).dim = s.dim := rfl
@[simp] theorem ver_setVer (s : PState) (v : Nat) : (s.setVer v).ver = v := rfl
@[simp] theorem nnc_setVer (s : PState) (v : Nat) : (s.setVer v).nnc = s.nnc := rfl
@[simp] theorem b_bump (s : PState) (f : Fld) : s.bump.b f = s.b f := rfl
@[simp] theorem dim_bump (s : PState) : s.bump.dim = s.dim := rfl
@[simp] theorem ver_bump (s : PState) : s.bump.ver = s.ver + 1 := rfl
@[simp] theorem nnc_bump (s : PState) : s.bump.nnc = s.nnc := rfl

/-- executable equality (the state contains a function). -/
def beq (s t : PState) : Bool :=
  s.nnc == t.nnc && s.dim == t.dim && s.ver == t.ver && Fld.all.all fun f => s.b f == t.b f
instance : BEq PState := ⟨beq⟩

-- readable accessors
abbrev em (s : PState) := s.b .em
abbrev cup (s : PState) := s.b .cup
abbrev gup (s : PState) := s.b .gup
abbrev cmin (s : PState) := s.b .cmin
abbrev gmin (s : PState) := s.b .gmin
abbrev satc (s : PState) := s.b .satc
abbrev satg (s : PState) := s.b .satg
abbrev cpend (s : PState) := s.b .cpend
abbrev gpend (s : PState) := s.b .gpend
abbrev csS (s : PState) := s.b .csS
abbrev gsS (s : PState) := s.b .gsS
abbrev emp (s : PState) := s.b .emp
abbrev vC (s : PState) := s.b .vC
abbrev vG (s : PState) := s.b .vG
abbrev dd (s : PState) := s.b .dd
abbrev mC (s : PState) := s.b .mC
abbrev mG (s : PState) := s.b .mG
abbrev vSC (s : PState) := s.b .vSC
abbrev vSG (s : PState) := s.b .vSG
abbrev rC (s : PState) := s.b .rC
abbrev rG (s : PState) := s.b .rG
abbrev pC (s : PState) := s.b .pC
abbrev pG (s : PState) := s.b .pG

/-- `Status::test_zero_dim_univ`: `flags == ZERO_DIM_UNIV` (= 0). -/
def ze (s : PState) : Bool :=
  !(s.em || s.cup || s.gup || s.cmin || s.gmin || s.satc || s.satg || s.cpend || s.gpend)

/-! ## `Ph_Status_inlines.hh` / `Polyhedron_inlines.hh`: the flag primitives, literally -/

/-- all nine status bits cleared. -/
def stClear (s : PState) : PState :=
  s.set .em false |>.set .cup false |>.set .gup false |>.set .cmin false |>.set .gmin false
    |>.set .satc false |>.set .satg false |>.set .cpend false |>.set .gpend false
/-- `Status::set_empty`: `flags = EMPTY`. -/
def stSetEmpty (s : PState) : PState := (stClear s).set .em true
/-- `Status::set_zero_dim_univ`: `flags = ZERO_DIM_UNIV`. -/
def stSetZeroDimUniv (s : PState) : PState := stClear s
def clearEmpty (s : PState) : PState := s.set .em false
def setConstraintsUpToDate (s : PState) : PState := s.set .cup true
def setGeneratorsUpToDate (s : PState) : PState := s.set .gup true
def setConstraintsMinimized (s : PState) : PState := s.set .cup true |>.set .cmin true
def setGeneratorsMinimized (s : PState) : PState := s.set .gup true |>.set .gmin true
def setConstraintsPending (s : PState) : PState := s.set .cpend true
def setGeneratorsPending (s : PState) : PState := s.set .gpend true
def setSatCUpToDate (s : PState) : PState := s.set .satc true
def setSatGUpToDate (s : PState) : PState := s.set .satg true
def clearConstraintsMinimized (s : PState) : PState := s.set .cmin false
def clearGeneratorsMinimized (s : PState) : PState := s.set .gmin false
def clearPendingConstraints (s : PState) : PState := s.set .cpend false
def clearPendingGenerators (s : PState) : PState := s.set .gpend false
def clearSatCUpToDate (s : PState) : PState := s.set .satc false
def clearSatGUpToDate (s : PState) : PState := s.set .satg false
/-- `clear_constraints_up_to_date`: also clears CP, CM, SC, SG. -/
def clearConstraintsUpToDate (s : PState) : PState :=
  s.set .cpend false |>.set .cmin false |>.set .satc false |>.set .satg false |>.set .cup false
/-- `clear_generators_up_to_date`: also clears GP, GM, SC, SG. -/
def clearGeneratorsUpToDate (s : PState) : PState :=
  s.set .gpend false |>.set .gmin false |>.set .satc false |>.set .satg false |>.set .gup false

def hasSomethingPending (s : PState) : Bool := s.cpend || s.gpend
def canHaveSomethingPending (s : PState) : Bool := s.cmin && s.gmin && (s.satc || s.satg)

/-! ## `Linear_System` / `Bit_Matrix` level: what a data operation does to the ghost facts

Every function below stands for one call on `con_sys`, `gen_sys`, `sat_c` or `sat_g`; it says which
ghost facts survive the call.  These (together with conversion, in `Helpers.lean`) are the
*parameters* of the protocol: they are assumed to do what their documentation says. -/

/-- `con_sys.clear()`: no rows, `sorted = true`, nothing pending. -/
def conClear (s : PState) : PState :=
  s.set .csS true |>.set .rC true |>.set .pC false |>.set .vC false |>.set .mC false |>.set .dd false
    |>.set .vSC false |>.set .vSG false
/-- `gen_sys.clear()`. -/
def genClear (s : PState) : PState :=
  s.set .gsS true |>.set .rG true |>.set .pG false |>.set .vG false |>.set .mG false |>.set .dd false
    |>.set .vSC false |>.set .vSG false

/-- `sat_c.transpose_assign(sat_g)`. -/
def satCFromSatG (s : PState) : PState := s.set .vSC s.vSG
/-- `sat_g.transpose_assign(sat_c)`. -/
def satGFromSatC (s : PState) : PState := s.set .vSG s.vSC
/-- the loops of `update_sat_c` / `update_sat_g`: the matrix is computed from the two systems. -/
def satCCompute (s : PState) : PState := s.set .vSC true
def satGCompute (s : PState) : PState := s.set .vSG true

/-- `con_sys.sort_rows()`: non-pending rows sorted (duplicates dropped); a saturation matrix indexed by
the constraints no longer matches. -/
def conSortRows (s : PState) : PState := s.set .csS true |>.set .rC true |>.set .vSC false |>.set .vSG false
def genSortRows (s : PState) : PState := s.set .gsS true |>.set .rG true |>.set .vSC false |>.set .vSG false
/-- `con_sys.sort_and_remove_with_sat(sat_g)`: `sat_g` is permuted together with the rows, `sat_c` is not. -/
def conSortWithSatG (s : PState) : PState := s.set .csS true |>.set .rC true |>.set .vSC false
/-- `gen_sys.sort_and_remove_with_sat(sat_c)`. -/
def genSortWithSatC (s : PState) : PState := s.set .gsS true |>.set .rG true |>.set .vSG false
def conSetSorted (v : Bool) (s : PState) : PState := s.set .csS v
def genSetSorted (v : Bool) (s : PState) : PState := s.set .gsS v
/-- `con_sys.unset_pending_rows()`: the pending rows become ordinary rows (behind the sorted prefix:
the order, minimal form and the saturation matrices of the non-pending part are lost). -/
def conUnsetPending (s : PState) : PState :=
  if s.pC then
    s.set .pC false |>.set .rC false |>.set .mC false |>.set .dd false |>.set .vSC false |>.set .vSG false
  else s
def genUnsetPending (s : PState) : PState :=
  if s.pG then
    s.set .pG false |>.set .rG false |>.set .mG false |>.set .dd false |>.set .vSC false |>.set .vSG false
  else s
/-- `con_sys.sort_pending_and_remove_duplicates()`; `none` = every pending row was a duplicate. -/
def conSortPending (none : Bool) (s : PState) : PState := if none then s.set .pC false else s
def genSortPending (none : Bool) (s : PState) : PState := if none then s.set .pG false else s

/-- `con_sys.insert_pending(…)`: rows appended behind the non-pending part, which (with its minimal form and
the saturation matrices) is untouched; `gen_sys` keeps denoting the non-pending part only. -/
def conInsertPending (s : PState) : PState :=
  s.set .pC true |>.set .vG false |>.set .dd (s.dd || (s.vC && s.vG && !s.pC && !s.pG))
def genInsertPending (s : PState) : PState :=
  s.set .pG true |>.set .vC false |>.set .dd (s.dd || (s.vC && s.vG && !s.pC && !s.pG))
/-- `con_sys.insert(…)` (no pending rows): `keep` = the new rows sort after the old ones. -/
def conInsert (keep : Bool) (s : PState) : PState :=
  s.set .vG false |>.set .dd false |>.set .mC false |>.set .vSC false |>.set .vSG false
    |>.set .csS (s.csS && keep) |>.set .rC (s.rC && keep)
def genInsert (keep : Bool) (s : PState) : PState :=
  s.set .vC false |>.set .dd false |>.set .mG false |>.set .vSC false |>.set .vSG false
    |>.set .gsS (s.gsS && keep) |>.set .rG (s.rG && keep)
/-- the rows of `con_sys` are rewritten in place (affine preimage, dimension changes, …) and the system is
re-normalised: `Linear_System::strong_normalize` sets `sorted = (nrows <= 1)`, other rewrites keep or drop the
flag; `keep` = the resulting flag, which these primitives set only when the rows are in order. -/
def conRewrite (keep : Bool) (s : PState) : PState := s.set .csS keep |>.set .rC keep
def genRewrite (keep : Bool) (s : PState) : PState := s.set .gsS keep |>.set .rG keep

/-- A mutator changes the denoted set (`be`: it becomes empty). -/
def setChanges (be : Bool) (s : PState) : PState := (s.set .emp (s.emp || be)).bump

end PState
end PPLV.PolyStatus
