import PPLV.PolyStatus.ProofsBase
/-!
# C01 stage 2 — proofs, part A: the private helpers keep the invariant

For every helper: the invariant of the result, the flags it guarantees, and its frame (`Frame L s t`: only the
components in `L` may differ; dimension, topology and the ghost counter of set changes are untouched).
-/
namespace PPLV.PolyStatus
open PState

/-- constraints and generators in minimal form, nothing pending. -/
structure Minimized (t : PState) : Prop where
  em : t.b .em = false
  cup : t.b .cup = true
  gup : t.b .gup = true
  cmin : t.b .cmin = true
  gmin : t.b .gmin = true
  cpend : t.b .cpend = false
  gpend : t.b .gpend = false

def satFlds : List Fld := [.satc, .satg, .csS, .gsS, .vSC, .vSG, .rC, .rG]

theorem oscs_spec (s : PState) (h : Inv s) (h1 : s.b .cup = true) (h2 : s.b .gup = true) (h3 : s.b .em = false) :
    Inv (obtainSortedConstraintsWithSatC s) ∧ (obtainSortedConstraintsWithSatC s).b .satc = true
    ∧ (obtainSortedConstraintsWithSatC s).b .csS = true
    ∧ Frame satFlds s (obtainSortedConstraintsWithSatC s) := by
  refine ⟨?_, ?_, ?_, ⟨?_, ?_, ?_, ?_⟩⟩
  all_goals spec_tac [s.b .satc, s.b .satg, s.b .csS] using [obtainSortedConstraintsWithSatC, satFlds]

theorem osgs_spec (s : PState) (h : Inv s) (h1 : s.b .cup = true) (h2 : s.b .gup = true) (h3 : s.b .em = false) :
    Inv (obtainSortedGeneratorsWithSatG s) ∧ (obtainSortedGeneratorsWithSatG s).b .satg = true
    ∧ (obtainSortedGeneratorsWithSatG s).b .gsS = true
    ∧ Frame satFlds s (obtainSortedGeneratorsWithSatG s) := by
  refine ⟨?_, ?_, ?_, ⟨?_, ?_, ?_, ?_⟩⟩
  all_goals spec_tac [s.b .satc, s.b .satg, s.b .gsS] using [obtainSortedGeneratorsWithSatG, satFlds]

theorem osc_spec (s : PState) (h : Inv s) (h1 : s.b .cup = true) (h3 : s.b .em = false) :
    Inv (obtainSortedConstraints s) ∧ (obtainSortedConstraints s).b .csS = true
    ∧ Frame satFlds s (obtainSortedConstraints s) := by
  refine ⟨?_, ?_, ⟨?_, ?_, ?_, ?_⟩⟩
  all_goals spec_tac [s.b .satc, s.b .satg, s.b .csS] using [obtainSortedConstraints, satFlds]

theorem osg_spec (s : PState) (h : Inv s) (h1 : s.b .gup = true) (h3 : s.b .em = false) :
    Inv (obtainSortedGenerators s) ∧ (obtainSortedGenerators s).b .gsS = true
    ∧ Frame satFlds s (obtainSortedGenerators s) := by
  refine ⟨?_, ?_, ⟨?_, ?_, ?_, ?_⟩⟩
  all_goals spec_tac [s.b .satc, s.b .satg, s.b .gsS] using [obtainSortedGenerators, satFlds]

/-! ### pending rows -/

theorem ppcPrepare_spec (s : PState) (h : Inv s) (hp : s.b .cpend = true) :
    Inv (ppcPrepare s) ∧ (ppcPrepare s).b .vSC = true ∧ (ppcPrepare s).b .csS = true
    ∧ Frame satFlds s (ppcPrepare s) := by
  refine ⟨?_, ?_, ?_, ⟨?_, ?_, ?_, ?_⟩⟩
  all_goals spec_tac [s.b .satc, s.b .satg, s.b .csS] using [ppcPrepare, obtainSortedConstraintsWithSatC, satFlds]

theorem ppgPrepare_spec (s : PState) (h : Inv s) (hp : s.b .gpend = true) :
    Inv (ppgPrepare s) ∧ (ppgPrepare s).b .vSG = true ∧ (ppgPrepare s).b .gsS = true
    ∧ Frame satFlds s (ppgPrepare s) := by
  refine ⟨?_, ?_, ?_, ⟨?_, ?_, ?_, ?_⟩⟩
  all_goals spec_tac [s.b .satc, s.b .satg, s.b .gsS] using [ppgPrepare, obtainSortedGeneratorsWithSatG, satFlds]

theorem ppcFinish_spec (g : Gh) (s : PState) (h : Inv s) (hp : s.b .cpend = true) (hv : s.b .vSC = true)
    (hs : s.b .csS = true) :
    Inv (ppcFinish g s).2 ∧ SameSet s (ppcFinish g s).2
    ∧ ((ppcFinish g s).1 = true → Minimized (ppcFinish g s).2)
    ∧ ((ppcFinish g s).1 = false → (ppcFinish g s).2.b .em = true) := by
  refine ⟨?_, SameSet.of ?_ ?_ ?_ ?_, ?_, ?_⟩
  · spec_tac [g.dup, s.b .pC, s.b .emp] using [ppcFinish, addMinC]
  · spec_tac [g.dup, s.b .pC, s.b .emp] using [ppcFinish, addMinC]
  · spec_tac [g.dup, s.b .pC, s.b .emp] using [ppcFinish, addMinC]
  · spec_tac [g.dup, s.b .pC, s.b .emp] using [ppcFinish, addMinC]
  · spec_tac [g.dup, s.b .pC, s.b .emp] using [ppcFinish, addMinC]
  · intro hr; constructor <;> spec_tac [g.dup, s.b .pC, s.b .emp] using [ppcFinish, addMinC]
  · spec_tac [g.dup, s.b .pC, s.b .emp] using [ppcFinish, addMinC]

theorem ppgFinish_spec (g : Gh) (s : PState) (h : Inv s) (hp : s.b .gpend = true) (hv : s.b .vSG = true)
    (hs : s.b .gsS = true) :
    Inv (ppgFinish g s) ∧ SameSet s (ppgFinish g s) ∧ Minimized (ppgFinish g s) := by
  refine ⟨?_, SameSet.of ?_ ?_ ?_ ?_, ?_⟩
  · spec_tac [g.dup, s.b .pG] using [ppgFinish, addMinG]
  · spec_tac [g.dup, s.b .pG] using [ppgFinish, addMinG]
  · spec_tac [g.dup, s.b .pG] using [ppgFinish, addMinG]
  · spec_tac [g.dup, s.b .pG] using [ppgFinish, addMinG]
  · spec_tac [g.dup, s.b .pG] using [ppgFinish, addMinG]
  · constructor <;> spec_tac [g.dup, s.b .pG] using [ppgFinish, addMinG]

theorem satFlds_sub : ∀ f, f ∈ satFlds → f ∈ lazyFlds := by decide

/-- `process_pending_constraints()`. -/
theorem ppc_spec (g : Gh) (s : PState) (h : Inv s) (hp : s.b .cpend = true) :
    Inv (processPendingConstraints g s).2 ∧ SameSet s (processPendingConstraints g s).2
    ∧ ((processPendingConstraints g s).1 = true → Minimized (processPendingConstraints g s).2)
    ∧ ((processPendingConstraints g s).1 = false → (processPendingConstraints g s).2.b .em = true) := by
  obtain ⟨h1, h2, h3, h4⟩ := ppcPrepare_spec s h hp
  have hp' : (ppcPrepare s).b .cpend = true := by rw [h4.b _ (by decide)]; exact hp
  obtain ⟨k1, k2, k3, k4⟩ := ppcFinish_spec g (ppcPrepare s) h1 hp' h2 h3
  exact ⟨k1, (h4.mono satFlds_sub).trans k2, k3, k4⟩

/-- `process_pending_generators()`. -/
theorem ppg_spec (g : Gh) (s : PState) (h : Inv s) (hp : s.b .gpend = true) :
    Inv (processPendingGenerators g s) ∧ SameSet s (processPendingGenerators g s)
    ∧ Minimized (processPendingGenerators g s) := by
  obtain ⟨h1, h2, h3, h4⟩ := ppgPrepare_spec s h hp
  have hp' : (ppgPrepare s).b .gpend = true := by rw [h4.b _ (by decide)]; exact hp
  obtain ⟨k1, k2, k3⟩ := ppgFinish_spec g (ppgPrepare s) h1 hp' h2 h3
  exact ⟨k1, (h4.mono satFlds_sub).trans k2, k3⟩

/-! ### conversions -/

/-- `update_constraints()`. -/
theorem updateConstraints_spec (g : Gh) (s : PState) (h : Inv s) (he : s.b .em = false) (hd : s.dim ≠ 0)
    (hg : s.b .gup = true) (hc : s.b .cpend = false) (hgp : s.b .gpend = false) :
    Inv (updateConstraints g s) ∧ SameSet s (updateConstraints g s) ∧ Minimized (updateConstraints g s) := by
  refine ⟨?_, SameSet.of ?_ ?_ ?_ ?_, ?_⟩
  · spec_tac [s.b .gsS] using [updateConstraints, convGC]
  · spec_tac [s.b .gsS] using [updateConstraints, convGC]
  · spec_tac [s.b .gsS] using [updateConstraints, convGC]
  · spec_tac [s.b .gsS] using [updateConstraints, convGC]
  · spec_tac [s.b .gsS] using [updateConstraints, convGC]
  · constructor <;> spec_tac [s.b .gsS] using [updateConstraints, convGC]

/-- `update_generators()`. -/
theorem updateGenerators_spec (g : Gh) (s : PState) (h : Inv s) (he : s.b .em = false) (hd : s.dim ≠ 0)
    (hcu : s.b .cup = true) (hc : s.b .cpend = false) (hgp : s.b .gpend = false) :
    Inv (updateGenerators g s).2 ∧ SameSet s (updateGenerators g s).2
    ∧ ((updateGenerators g s).1 = true → Minimized (updateGenerators g s).2)
    ∧ ((updateGenerators g s).1 = false → (updateGenerators g s).2.b .em = true) := by
  refine ⟨?_, SameSet.of ?_ ?_ ?_ ?_, ?_, ?_⟩
  · spec_tac [s.b .csS, s.b .emp] using [updateGenerators, convCG]
  · spec_tac [s.b .csS, s.b .emp] using [updateGenerators, convCG]
  · spec_tac [s.b .csS, s.b .emp] using [updateGenerators, convCG]
  · spec_tac [s.b .csS, s.b .emp] using [updateGenerators, convCG]
  · spec_tac [s.b .csS, s.b .emp] using [updateGenerators, convCG]
  · intro hr; constructor <;> spec_tac [s.b .csS, s.b .emp] using [updateGenerators, convCG]
  · spec_tac [s.b .csS, s.b .emp] using [updateGenerators, convCG]

end PPLV.PolyStatus
