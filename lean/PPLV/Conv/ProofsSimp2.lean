import PPLV.Conv.ProofsSimp1
/-!
# C01 stage 3 — `simplify`: `subsetOrEqual`, the independence rule only removes rows
-/
namespace PPLV.Conv

theorem bit_nil (j : Nat) : bit [] j = false := by simp [bit]
theorem bit_cons_zero (x : Bool) (xs : BRow) : bit (x :: xs) 0 = x := by simp [bit]
theorem bit_cons_succ (x : Bool) (xs : BRow) (j : Nat) : bit (x :: xs) (j + 1) = bit xs j := by simp [bit]

theorem subsetOrEqual_iff : ∀ (x y : BRow),
    subsetOrEqual x y = true ↔ ∀ j, bit x j = true → bit y j = true
  | [], y => by simp [subsetOrEqual, bit_nil]
  | x :: xs, [] => by
    have ih := subsetOrEqual_iff xs []
    simp only [subsetOrEqual, Bool.and_eq_true, Bool.not_eq_true', ih, bit_nil]
    constructor
    · rintro ⟨h0, h1⟩ j
      cases j with
      | zero => simp [bit_cons_zero, h0]
      | succ j => rw [bit_cons_succ]; exact h1 j
    · intro h
      refine ⟨?_, fun j => ?_⟩
      · have := h 0; rw [bit_cons_zero] at this; cases x <;> simp_all
      · have := h (j + 1); rw [bit_cons_succ] at this; exact this
  | x :: xs, y :: ys => by
    have ih := subsetOrEqual_iff xs ys
    simp only [subsetOrEqual, Bool.and_eq_true, Bool.or_eq_true, Bool.not_eq_true', ih]
    constructor
    · rintro ⟨h0, h1⟩ j
      cases j with
      | zero => simp only [bit_cons_zero]; intro hx; rcases h0 with h0 | h0 <;> simp_all
      | succ j => simp only [bit_cons_succ]; exact h1 j
    · intro h
      refine ⟨?_, fun j => ?_⟩
      · have := h 0; simp only [bit_cons_zero] at this; cases x <;> simp_all
      · have := h (j + 1); simp only [bit_cons_succ] at this; exact this

theorem subsetOrEqual_refl (x : BRow) : subsetOrEqual x x = true :=
  (subsetOrEqual_iff x x).2 fun _ h => h

theorem subsetOrEqual_trans (x y z : BRow) (h1 : subsetOrEqual x y = true) (h2 : subsetOrEqual y z = true) :
    subsetOrEqual x z = true :=
  (subsetOrEqual_iff x z).2 fun j h => (subsetOrEqual_iff y z).1 h2 j ((subsetOrEqual_iff x y).1 h1 j h)

theorem indepInner_mem : ∀ (fuel : Nat) (rows : List SRow) (i j : Nat),
    ∀ x ∈ (indepInner fuel rows i j).1, x ∈ rows
  | 0, rows, _, _ => fun x h => by simpa [indepInner] using h
  | n + 1, rows, i, j => fun x h => by
    unfold indepInner at h
    split at h
    · split at h
      · exact indepInner_mem n _ _ _ x h
      · simp only at h
        split at h
        · split at h
          · exact h
          · exact mem_removeRowAt rows j x (indepInner_mem n _ _ _ x h)
        · exact indepInner_mem n _ _ _ x h
    · exact h

theorem indepLoop_mem : ∀ (fuel nle : Nat) (rows : List SRow) (i : Nat),
    ∀ x ∈ indepLoop fuel nle rows i, x ∈ rows
  | 0, _, rows, _ => fun x h => by simpa [indepLoop] using h
  | n + 1, nle, rows, i => fun x h => by
    unfold indepLoop at h
    split at h
    · simp only at h
      split at h
      · exact indepInner_mem _ rows i nle x (mem_removeRowAt _ i x (indepLoop_mem n _ _ _ x h))
      · exact indepInner_mem _ rows i nle x (indepLoop_mem n _ _ _ x h)
    · exact h

end PPLV.Conv
