import PPLV.Conv.ProofsCompleteRay2
/-!
# C01 stage 4 — `adjacent` never rejects an adjacent pair

The quick non-adjacency test (:755-799) compares the number of common saturators with
`num_columns - num_lines - 2`; an adjacent pair passes it by the dimension count
`Abs.quick_nonadjacent_sound` (with `Abs.pair_dim` to show the unsigned subtraction does not wrap).
-/
namespace PPLV.Conv
open PPLV.Conv.Abs

theorem mem_take_iff_getElem? {α} (l : List α) (b : Nat) (x : α) :
    x ∈ l.take b ↔ ∃ m, m < b ∧ l[m]? = some x := by
  have := mem_take_drop_iff_getElem? l 0 b x
  simp only [List.drop_zero, Nat.zero_le, true_and] at this
  exact this

/-- the lines of a state are its first `nle` rows. -/
theorem linesOf_eq_take (st : CState) (hl : ∀ m d, st.rows[m]? = some d → d.row.le = decide (m < st.nle)) :
    linesOf st.gens = {x | x ∈ (st.rows.take st.nle).map (fun d => emb d.row.v)} := by
  ext x
  simp only [linesOf, Set.mem_setOf_eq, List.mem_map]
  constructor
  · rintro ⟨r, hr, hle, rfl⟩
    obtain ⟨d, hd, rfl⟩ := (mem_gens_iff st r).mp hr
    obtain ⟨m, hm⟩ := List.mem_iff_getElem?.mp hd
    have := hl m d hm
    rw [hle] at this
    have hmn : m < st.nle := by simpa using this.symm
    exact ⟨d, (mem_take_iff_getElem? _ _ _).mpr ⟨m, hmn, hm⟩, rfl⟩
  · rintro ⟨d, hd, rfl⟩
    obtain ⟨m, hmn, hm⟩ := (mem_take_iff_getElem? _ _ _).mp hd
    refine ⟨d.row, (mem_gens_iff st d.row).mpr ⟨d, memC hm, rfl⟩, ?_, rfl⟩
    rw [hl m d hm]; simpa using hmn

theorem raysOf_iff (st : CState) (hl : ∀ m d, st.rows[m]? = some d → d.row.le = decide (m < st.nle)) (x : FV) :
    x ∈ raysOf st.gens ↔ ∃ d ∈ st.rows.drop st.nle, x = emb d.row.v := by
  simp only [raysOf, Set.mem_setOf_eq]
  constructor
  · rintro ⟨r, hr, hle, rfl⟩
    obtain ⟨d, hd, rfl⟩ := (mem_gens_iff st r).mp hr
    obtain ⟨m, hm1, hm2⟩ := ray_index hl hd hle
    exact ⟨d, (mem_drop_iff_getElem? _ _ _).mpr ⟨m, hm1, hm2⟩, rfl⟩
  · rintro ⟨d, hd, rfl⟩
    obtain ⟨m, hm1, hm2⟩ := (mem_drop_iff_getElem? _ _ _).mp hd
    refine ⟨d.row, (mem_gens_iff st d.row).mpr ⟨d, memC hm2, rfl⟩, ?_, rfl⟩
    rw [hl m d hm2]; simp; omega

namespace RayCtx
variable {ncols : Nat} {srcK : LRow} {kept : List LRow} {st : CState} {R : List DRow} {leb sup : Nat}

/-- the new constraint vanishes on the lines (this is `rayCase`). -/
theorem lines_zero (C : RayCtx ncols srcK kept st R leb sup) : ∀ l ∈ linesOf st.gens, (conOf srcK).f l = 0 := by
  intro l hl
  rw [linesOf_eq_take st C.H.hl] at hl
  obtain ⟨d, hd, rfl⟩ := List.mem_map.mp hl
  rw [conOf_f_emb, ← C.H.hsp d (List.mem_of_mem_take hd), C.P.hz d hd]; simp

theorem sp_val (C : RayCtx ncols srcK kept st R leb sup) {d : DRow} (hd : d ∈ st.rows) :
    (conOf srcK).f (emb d.row.v) = (d.sp : ℚ) := by
  rw [conOf_f_emb, ← C.H.hsp d hd]

/-- the quick non-adjacency test passes for an abstractly adjacent pair on opposite sides. -/
theorem quick_nonadj_pass (C : RayCtx ncols srcK kept st R leb sup) [FiniteDimensional ℚ (ambient ncols)]
    (hfr : Module.finrank ℚ (ambient ncols) = ncols) (hsz : ncols < 2 ^ 64) (hkz : kept.length < 2 ^ 64)
    {i j : Nat} {di dj : DRow} (hi : st.nle ≤ i) (hj : st.nle ≤ j) (ei : R[i]? = some di) (ej : R[j]? = some dj)
    (hpos : 0 < di.sp) (hneg : dj.sp < 0)
    (hadj : Adjacent (kept.map conOf) (raysOf st.gens) (emb di.row.v) (emb dj.row.v)) :
    ¬ usub kept.length (countOnes (bor di.sat dj.sat)) < usub (usub ncols st.nle) 2 := by
  obtain ⟨mi, _, ri⟩ := C.ray hi ei
  obtain ⟨mj, _, rj⟩ := C.ray hj ej
  have hbits : ∀ k, bit (bor di.sat dj.sat) k = true → k < kept.length := by
    intro k hk
    rw [bit_bor] at hk
    rcases (Bool.or_eq_true _ _).mp hk with h | h
    · exact C.bit_lt mi k h
    · exact C.bit_lt mj k h
  have hones : countOnes (bor di.sat dj.sat) ≤ kept.length := by
    rw [countOnes_eq_countP _ _ hbits]
    have := List.countP_le_length (p := fun j => bit (bor di.sat dj.sat) j) (l := List.range kept.length)
    rwa [List.length_range] at this
  -- the common saturators, as a list
  let Zc : List (ACon FV) :=
    ((List.range kept.length).filter (fun k => !bit (bor di.sat dj.sat) k)).map (fun k => conOf (kept.getD k default))
  have hZlen : Zc.length = kept.length - countOnes (bor di.sat dj.sat) := by
    simp only [Zc, List.length_map]
    rw [← List.countP_eq_length_filter, countP_not_bit _ _ hbits]
  have hZc : ∀ a ∈ kept.map conOf, a.f (emb di.row.v) = 0 → a.f (emb dj.row.v) = 0 → a ∈ Zc := by
    intro a ha h1 h2
    obtain ⟨s, hs, rfl⟩ := mem_kept_conOf ha
    obtain ⟨k, hkl, rfl⟩ := kept_index hs
    rw [C.f_zero_iff mi k hkl] at h1
    rw [C.f_zero_iff mj k hkl] at h2
    simp only [Zc, List.mem_map, List.mem_filter, List.mem_range]
    exact ⟨k, ⟨hkl, by rw [bit_bor, h1, h2]; rfl⟩, rfl⟩
  have hLl : ((st.rows.take st.nle).map (fun d => emb d.row.v)).length = st.nle := by
    rw [List.length_map, List.length_take]; exact Nat.min_eq_left C.H.hn
  have h1 := quick_nonadjacent_sound C.inv _ (linesOf_eq_take st C.H.hl) _ _ ri rj hadj Zc hZc
  rw [hfr, hZlen, hLl] at h1
  have h2 := pair_dim C.inv st.nle C.X.rank _ _ ri rj (conOf srcK).f C.lines_zero
    (by rw [C.sp_val mi]; exact_mod_cast hpos) (by rw [C.sp_val mj]; exact_mod_cast hneg)
  rw [hfr] at h2
  rw [usub_eq _ _ hkz hones, usub_eq ncols st.nle hsz (by omega), usub_eq _ 2 (by omega) (by omega)]
  omega

/-- **an abstractly adjacent pair (one row in Q+, one in Q-) gets a positive verdict.** -/
theorem adjacent_of_abs (C : RayCtx ncols srcK kept st R leb sup) [FiniteDimensional ℚ (ambient ncols)]
    (hfr : Module.finrank ℚ (ambient ncols) = ncols) (hsz : ncols < 2 ^ 64) (hkz : kept.length < 2 ^ 64)
    {i j : Nat} {di dj : DRow} (hi : st.nle ≤ i) (hj : st.nle ≤ j) (ei : R[i]? = some di) (ej : R[j]? = some dj)
    (hpos : 0 < di.sp) (hneg : dj.sp < 0)
    (hadj : Adjacent (kept.map conOf) (raysOf st.gens) (emb di.row.v) (emb dj.row.v)) :
    adjacent ncols st.nle kept.length st.rows.length R i j = some (bor di.sat dj.sat) := by
  have gi : R.getD i default = di := getD_of_getElem? R i di default ei
  have gj : R.getD j default = dj := getD_of_getElem? R j dj default ej
  have hq := C.quick_nonadj_pass hfr hsz hkz hi hj ei ej hpos hneg hadj
  unfold adjacent
  simp only [gi, gj]
  rw [if_neg hq]
  split
  · rfl
  · split
    · rename_i hany
      exfalso
      rw [List.any_eq_true] at hany
      obtain ⟨l, hl, hcond⟩ := hany
      rw [List.mem_range'_1] at hl
      have hlR : l < R.length := by rw [C.P.hlen]; omega
      have el : R[l]? = some (R.getD l default) := getElem?_of_lt_getD R l default hlR
      simp only [Bool.and_eq_true, bne_iff_ne, ne_eq] at hcond
      have := C.no_third hi hj hl.1 hcond.1.1 hcond.1.2 ei ej el hadj
      rw [hcond.2] at this; cases this
    · rfl

end RayCtx
end PPLV.Conv
