import PPLV.Conv.Simplify
/-!
# C01 stage 3 — what the theorems about `conversion` / `simplify` talk about

Plain definitions (no Mathlib): the relation "generator row satisfies constraint row" with the code's
conventions, the lines-first layout, the saturation relation, the processed / kept source rows.
-/
namespace PPLV.Conv

/-- the dest row `d` satisfies the source row `s`: the scalar product is `≥ 0`, and `= 0` when the
source row is an equality (a line, in the generator-to-constraint direction) or the dest row is a
line (an equality). -/
def satisfies (s d : LRow) : Prop :=
  if s.le || d.le then scalarProduct s.v d.v = 0 else 0 ≤ scalarProduct s.v d.v

instance (s d : LRow) : Decidable (satisfies s d) := by unfold satisfies; infer_instance

/-- the first `nle` rows are the lines / equalities, the others are not. -/
def LinesFirst (dest : List LRow) (nle : Nat) : Prop :=
  ∀ i (h : i < dest.length), dest[i].le = decide (i < nle)

/-- every row of `dest` satisfies every row of `src`. -/
def Sound (src dest : List LRow) : Prop := ∀ d ∈ dest, ∀ s ∈ src, satisfies s d

/-- `sat` is the saturation relation of `dest` (rows) and `cols` (columns), the code's convention:
bit `j` of row `i` is set iff `scalar_product(cols[j], dest[i]) ≠ 0`; no bit is set beyond `cols`. -/
def SatCorrect (cols dest : List LRow) (sat : List BRow) : Prop :=
  sat.length = dest.length ∧
  ∀ i (h : i < dest.length), ∀ j,
    bit (sat.getD i []) j = (decide (j < cols.length) && decide (scalarProduct (cols.getD j default).v dest[i].v ≠ 0))

/-- the invariant on the records of the loop state: with `kept` the source rows that own a column. -/
def RowsSatCorrect (kept : List LRow) (rows : List DRow) : Prop :=
  ∀ d ∈ rows, ∀ j,
    bit d.sat j = (decide (j < kept.length) && decide (scalarProduct (kept.getD j default).v d.row.v ≠ 0))

/-- `x` (a vector of the homogeneous space) satisfies the row `r` of a system. -/
def holds (r : LRow) (x : Vec) : Prop :=
  if r.le then scalarProduct r.v x = 0 else 0 ≤ scalarProduct r.v x

/-- `x` satisfies every row. -/
def holdsAll (rows : List LRow) (x : Vec) : Prop := ∀ r ∈ rows, holds r x

/-- `x` is a combination of the rows of `gens`: any coefficient on lines, non-negative on the others;
stated on linear functionals (`∀ c`), with a common positive denominator `den`. -/
def Generated (gens : List LRow) (x : Vec) : Prop :=
  ∃ (den : Int) (coef : List Int), 0 < den ∧ coef.length = gens.length ∧
    (∀ i (h : i < gens.length), gens[i].le = false → 0 ≤ coef.getD i 0) ∧
    ∀ c : Vec, den * scalarProduct c x =
      ((List.range gens.length).map fun i => coef.getD i 0 * scalarProduct c (gens.getD i default).v).sum

end PPLV.Conv
