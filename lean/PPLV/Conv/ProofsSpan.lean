import PPLV.Conv.ProofsSat3
/-!
# The line case keeps what satisfies the new constraint (the half of completeness without adjacency)
-/
namespace PPLV.Conv

/-- where the old record of index `m0 ≠ inz` sits after set + swap. -/
theorem lineRowsB_reverse (st : CState) (inz : Nat) (hinz : inz < st.nle) (hn : st.nle ≤ st.rows.length)
    (m0 : Nat) (d0 : DRow) (hm0 : m0 ≠ inz) (hd0 : st.rows[m0]? = some d0) :
    ∃ b, (lineRowsB st inz)[if m0 = st.nle - 1 then inz else m0]? = some b ∧ b.row = d0.row ∧ b.sp = d0.sp := by
  have hi : inz < st.rows.length := by omega
  have hj : st.nle - 1 < st.rows.length := by omega
  have hm0lt : m0 < st.rows.length := by
    by_contra hc
    rw [List.getElem?_eq_none (by omega)] at hd0; cases hd0
  unfold lineRowsB
  by_cases he : inz = st.nle - 1
  · have hne : m0 ≠ st.nle - 1 := by omega
    simp only [he, bne_self_eq_false, Bool.false_eq_true, if_false, hne]
    refine ⟨d0, ?_, rfl, rfl⟩
    rw [List.getElem?_set]
    have : ¬ st.nle - 1 = m0 := fun h => hne h.symm
    simp only [this, if_false]; exact hd0
  · have hne : (inz != st.nle - 1) = true := by simpa using he
    simp only [hne, if_true]
    have hlen : (st.rows.set inz (linePivot (st.rows.getD inz default))).length = st.rows.length := by simp
    rw [getElem?_swapRowSp _ _ _ _ (by rw [hlen]; exact hi) (by rw [hlen]; exact hj)]
    by_cases h1 : m0 = st.nle - 1
    · simp only [h1, if_true, he, if_false]
      have hthis : (st.rows.set inz (linePivot (st.rows.getD inz default)))[st.nle - 1]'(by rw [hlen]; exact hj) = d0 := by
        rw [List.getElem_set]
        simp only [he, if_false]
        have := hd0; rw [h1, List.getElem?_eq_getElem hj] at this
        exact Option.some.inj this
      refine ⟨_, rfl, ?_, ?_⟩
      · show ((st.rows.set inz (linePivot (st.rows.getD inz default)))[st.nle - 1]'(by rw [hlen]; exact hj)).row = d0.row
        rw [hthis]
      · show ((st.rows.set inz (linePivot (st.rows.getD inz default)))[st.nle - 1]'(by rw [hlen]; exact hj)).sp = d0.sp
        rw [hthis]
    · simp only [h1, if_false, hm0]
      refine ⟨d0, ?_, rfl, rfl⟩
      rw [List.getElem?_set]
      have : ¬ inz = m0 := fun h => hm0 h.symm
      simp only [this, if_false]; exact hd0

/-- the pivot record after set + swap. -/
theorem lineRowsB_pivot (st : CState) (inz : Nat) (hinz : inz < st.nle) (hn : st.nle ≤ st.rows.length) :
    ∃ dn, (lineRowsB st inz)[st.nle - 1]? = some dn ∧ (lineRowsB st inz).getD (st.nle - 1) default = dn ∧
      dn.row = (linePivot (st.rows.getD inz default)).row ∧ dn.sp = (linePivot (st.rows.getD inz default)).sp := by
  have hj : st.nle - 1 < st.rows.length := by omega
  have hlenB : (lineRowsB st inz).length = st.rows.length := by
    unfold lineRowsB
    simp only
    split
    · rw [length_swapRowSp]; simp
    · simp
  obtain ⟨dn, hdn⟩ : ∃ dn, (lineRowsB st inz)[st.nle - 1]? = some dn := by
    rw [List.getElem?_eq_getElem (by rw [hlenB]; exact hj)]; exact ⟨_, rfl⟩
  refine ⟨dn, hdn, ?_, ?_⟩
  · rw [List.getD_eq_getElem?_getD, hdn]; rfl
  · rcases lineRowsB_index st inz hinz hn (st.nle - 1) dn hdn with ⟨_, h1, h2⟩ | ⟨h1, _⟩
    · exact ⟨h1, h2⟩
    · exact absurd rfl h1

/-- where every old record ends up after the combination step. -/
theorem lineRows3_reverse (st : CState) (inz : Nat) (hinz : inz < st.nle) (hn : st.nle ≤ st.rows.length)
    (m0 : Nat) (d0 : DRow) (hm0 : m0 ≠ inz) (hd0 : st.rows[m0]? = some d0) :
    let p := linePivot (st.rows.getD inz default)
    ∃ m d', (lineRows3 st inz)[m]? = some d' ∧ m ≠ st.nle - 1 ∧
      (d0.sp = 0 → d'.row = d0.row) ∧
      (d0.sp ≠ 0 → st.nle ≤ m0 → d'.row = combRow p.row p.sp d0.row d0.sp) := by
  intro p
  obtain ⟨b, hb, hbrow, hbsp⟩ := lineRowsB_reverse st inz hinz hn m0 d0 hm0 hd0
  obtain ⟨dn, _, hdnD, hdnrow, hdnsp⟩ := lineRowsB_pivot st inz hinz hn
  have hget : (lineRows3 st inz)[if m0 = st.nle - 1 then inz else m0]? =
      some (if ((((inz ≤ (if m0 = st.nle - 1 then inz else m0)) ∧ (if m0 = st.nle - 1 then inz else m0) < st.nle - 1) ∨
        st.nle - 1 + 1 ≤ (if m0 = st.nle - 1 then inz else m0)) ∧ b.sp ≠ 0)
        then combineWithNle ((lineRowsB st inz).getD (st.nle - 1) default) b else b) := by
    rw [lineRows3_eqB, List.getElem?_mapIdx, hb]; rfl
  refine ⟨if m0 = st.nle - 1 then inz else m0, _, hget, ?_, ?_, ?_⟩
  · split <;> omega
  · intro hz
    have : ¬ ((((inz ≤ (if m0 = st.nle - 1 then inz else m0)) ∧ (if m0 = st.nle - 1 then inz else m0) < st.nle - 1) ∨
        st.nle - 1 + 1 ≤ (if m0 = st.nle - 1 then inz else m0)) ∧ b.sp ≠ 0) := by
      intro hc; exact hc.2 (by rw [hbsp]; exact hz)
    rw [if_neg this]
    exact hbrow
  · intro hnz hge
    have hm : (if m0 = st.nle - 1 then inz else m0) = m0 := by
      split
      · omega
      · rfl
    have : ((((inz ≤ (if m0 = st.nle - 1 then inz else m0)) ∧ (if m0 = st.nle - 1 then inz else m0) < st.nle - 1) ∨
        st.nle - 1 + 1 ≤ (if m0 = st.nle - 1 then inz else m0)) ∧ b.sp ≠ 0) := by
      refine ⟨Or.inr ?_, by rw [hbsp]; exact hnz⟩
      rw [hm]; omega
    rw [if_pos this, hdnD, combineWithNle_row, hdnrow, hdnsp, hbrow, hbsp]

/-- whatever is not at index `i` survives `swap with the last, pop`. -/
theorem mem_swap_dropLast_of_ne {α : Type} (l : List α) (i m : Nat) (x : α) (hi : i < l.length) (hm : m ≠ i)
    (hx : l[m]? = some x) : x ∈ (swapAt l i (l.length - 1)).dropLast := by
  have hlast : l.length - 1 < l.length := by omega
  have hmlt : m < l.length := by
    by_contra hc
    rw [List.getElem?_eq_none (by omega)] at hx; cases hx
  apply List.mem_iff_getElem?.mpr
  by_cases hml : m = l.length - 1
  · -- the last element has been moved to `i`
    refine ⟨i, ?_⟩
    rw [List.getElem?_dropLast, length_swapAt']
    have : i < l.length - 1 := by omega
    simp only [this, if_true]
    rw [getElem?_swapAt' l i (l.length - 1) i hi hlast]
    have h1 : ¬ i = l.length - 1 := by omega
    simp only [h1, if_false, if_true]
    rw [← hx, hml, List.getElem?_eq_getElem hlast]
  · refine ⟨m, ?_⟩
    rw [List.getElem?_dropLast, length_swapAt']
    have : m < l.length - 1 := by omega
    simp only [this, if_true]
    rw [getElem?_swapAt' l i (l.length - 1) m hi hlast]
    simp only [hml, hm, if_false]
    exact hx

/-- **the line case keeps what satisfies the new constraint.**  `st` holds the scalar products with
`srcK`; `inz` is the line that does not saturate it.  Every old record other than that line:
(a) with product 0 is kept with the same row; (b) a ray (index ≥ nle) with a positive product, when
`srcK` is an inequality, is a non-negative combination of its replacement `d'` and of the new ray `p`:
`a * d = g * d' + b * p` as linear functionals, with `a, g, b > 0`. -/
theorem lineCase_preserves_span (srcK : LRow) (newK : Nat) (st : CState) (inz : Nat)
    (hinz : inz < st.nle) (hn : st.nle ≤ st.rows.length)
    (hpiv : ∃ r, st.rows[inz]? = some r ∧ r.sp ≠ 0)
    (m0 : Nat) (d0 : DRow) (hm0 : m0 ≠ inz) (hd0 : st.rows[m0]? = some d0) :
    let st' := lineCase srcK newK st inz
    (d0.sp = 0 → ∃ d' ∈ st'.rows, d'.row = d0.row) ∧
    (0 < d0.sp → st.nle ≤ m0 → d0.row.le = false → srcK.le = false →
      ∃ d' ∈ st'.rows, ∃ p ∈ st'.rows, ∃ g a b : Int, 0 < g ∧ 0 < a ∧ 0 < b ∧
        ∀ s, a * scalarProduct s d0.row.v = g * scalarProduct s d'.row.v + b * scalarProduct s p.row.v) := by
  intro st'
  obtain ⟨r, hr, hrnz⟩ := hpiv
  have hrD : st.rows.getD inz default = r := by rw [List.getD_eq_getElem?_getD, hr]; rfl
  obtain ⟨m, d', hd', hmne, hzero, hcomb⟩ := lineRows3_reverse st inz hinz hn m0 d0 hm0 hd0
  simp only [hrD] at hcomb
  have hlen := length_lineRows3 st inz
  have hi : st.nle - 1 < (lineRows3 st inz).length := by rw [hlen]; omega
  -- membership in the final rows of every record of rows3 not at the pivot index
  have hfinal : ∀ m x, m ≠ st.nle - 1 → (lineRows3 st inz)[m]? = some x → ∃ x' ∈ st'.rows, x'.row = x.row := by
    intro m x hm hx
    show ∃ x' ∈ (lineCase srcK newK st inz).rows, x'.row = x.row
    rw [lineCase_eq]
    by_cases hk : srcK.le = true
    · simp only [hk, Bool.not_true, Bool.false_eq_true, if_false]
      exact ⟨x, mem_swap_dropLast_of_ne _ _ m x hi hm hx, rfl⟩
    · have hk' : srcK.le = false := by simpa using hk
      simp only [hk', Bool.not_false, if_true]
      have hne' : ¬ st.nle - 1 = m := fun h => hm h.symm
      refine ⟨x, List.mem_iff_getElem?.mpr ⟨m, ?_⟩, rfl⟩
      rw [List.getElem?_modify, hx]
      simp [hne']
  constructor
  · intro hz
    obtain ⟨x', hx', hrow⟩ := hfinal m d' hmne hd'
    exact ⟨x', hx', by rw [hrow, hzero hz]⟩
  · intro hpos hge hdl hk
    -- the pivot is still there (inequality)
    have hppos : 0 < (linePivot r).sp := by
      unfold linePivot
      by_cases h : r.sp < 0
      · rw [if_pos h]; show 0 < - r.sp; omega
      · rw [if_neg h]; show 0 < r.sp; omega
    obtain ⟨pr, hpr, hprrow⟩ : ∃ pr, (lineRows3 st inz)[st.nle - 1]? = some pr ∧ pr.row = (linePivot r).row := by
      obtain ⟨pr, hpr⟩ : ∃ pr, (lineRows3 st inz)[st.nle - 1]? = some pr := by
        rw [List.getElem?_eq_getElem hi]; exact ⟨_, rfl⟩
      refine ⟨pr, hpr, ?_⟩
      have := lineRows3_index st inz hinz hn (st.nle - 1) pr hpr
      simp only [hrD] at this
      rcases this with ⟨_, h1, _⟩ | ⟨h1, _⟩
      · exact h1
      · exact absurd rfl h1
    have hpfinal : ∃ p ∈ st'.rows, p.row = (linePivot r).row := by
      show ∃ p ∈ (lineCase srcK newK st inz).rows, p.row = (linePivot r).row
      rw [lineCase_eq]
      simp only [hk, Bool.not_false, if_true]
      refine ⟨{ pr with sat := setBit pr.sat newK }, List.mem_iff_getElem?.mpr ⟨st.nle - 1, ?_⟩, hprrow⟩
      rw [List.getElem?_modify, hpr]; simp
    obtain ⟨p, hp, hprow⟩ := hpfinal
    obtain ⟨x', hx', hrow⟩ := hfinal m d' hmne hd'
    have hne : d0.sp ≠ 0 := by omega
    have hd'row := hcomb hne hge
    obtain ⟨g, c, nI, nO, _, hgpos, hc, h1, h2, _, _, _, hs⟩ :=
      sp_combineWithNle { row := (linePivot r).row, sp := (linePivot r).sp, sat := [] } { row := d0.row, sp := d0.sp, sat := [] }
        (by simpa using ne_of_gt hppos)
    simp only at h1 h2 hgpos
    have hs : ∀ s : Vec, nO * scalarProduct s d0.row.v - nI * scalarProduct s (linePivot r).row.v
        = g * scalarProduct s (combRow (linePivot r).row (linePivot r).sp d0.row d0.sp).v := hs
    have hnO : 0 < nO := by
      by_contra hneg
      have : nO ≤ 0 := by omega
      have : c * nO ≤ 0 := Int.mul_nonpos_of_nonneg_of_nonpos (le_of_lt hc) this
      omega
    have hnI : 0 < nI := by
      by_contra hneg
      have : nI ≤ 0 := by omega
      have : c * nI ≤ 0 := Int.mul_nonpos_of_nonneg_of_nonpos (le_of_lt hc) this
      omega
    refine ⟨x', hx', p, hp, g, nO, nI, hgpos hdl, hnO, hnI, ?_⟩
    intro s
    rw [hrow, hd'row, hprow]
    have := hs s
    linarith

end PPLV.Conv
