import PPLV.Conv.ProofsCompleteInv
import PPLV.Conv.ProofsSimp2
/-!
# C01 stage 4 — the line case of `conversion`: the saturation rows of the result (`antichain`, `proper`)

The sat rows stay at their index; the old lines have empty sat rows, so for an inequality the new ray (index
`nle - 1`) owns exactly the new column; for an equality the new ray is removed by swap-with-last-and-pop.
-/
namespace PPLV.Conv
open PPLV.Conv.Abs

theorem lineBitsEmpty_iff (x : BRow) : bitsEmpty x = true ↔ ∀ j, bit x j = false := by
  induction x with
  | nil => simp [bitsEmpty, bit_nil]
  | cons a x ih =>
    simp only [bitsEmpty, List.all_cons, Bool.and_eq_true] at ih ⊢
    rw [ih]
    constructor
    · rintro ⟨ha, h⟩ j
      cases j with
      | zero => simpa [bit] using ha
      | succ j => have := h j; simpa [bit] using this
    · intro h
      exact ⟨by simpa [bit] using h 0, fun j => by simpa [bit] using h (j + 1)⟩

theorem lineBitsEmpty_false_iff (x : BRow) : bitsEmpty x = false ↔ ∃ j, bit x j = true := by
  rw [Bool.eq_false_iff, Ne, lineBitsEmpty_iff]
  constructor
  · intro h
    by_contra hc
    apply h
    intro j
    cases hb : bit x j with
    | false => rfl
    | true => exact absurd ⟨j, hb⟩ hc
  · rintro ⟨j, hj⟩ h
    rw [h j] at hj; cases hj

theorem lineCase_nle (srcK : LRow) (newK : Nat) (st : CState) (inz : Nat) :
    (lineCase srcK newK st inz).nle = st.nle - 1 := by
  rw [lineCase_eq]; split <;> rfl

/-- an old line has an empty saturation row. -/
theorem line_bits_false (srcK : LRow) (kept : List LRow) (st : CState) (H : StepHyp srcK st kept)
    (hsat : RowsSatCorrect kept st.rows) (m : Nat) (dm : DRow) (hdm : st.rows[m]? = some dm) (hm : m < st.nle) :
    ∀ j, bit dm.sat j = false :=
  bits_false_of_zero kept _ _ (hsat dm (memC hdm)) (fun s hs =>
    satisfies_line_zero s dm.row (H.hP dm (memC hdm) s hs) (Or.inr (by rw [H.hl m dm hdm]; simpa using hm)))

/-- no old record has the new column set. -/
theorem old_bit_new_false (kept : List LRow) (rows : List DRow) (hsat : RowsSatCorrect kept rows)
    (dm : DRow) (hdm : dm ∈ rows) : bit dm.sat kept.length = false := by
  rw [hsat dm hdm kept.length]; simp

/-- **the saturation row of every result record at or after the new `nle`**: the new ray (inequality, index
`nle - 1`, exactly the new column), or the saturation row of an old ray — a different one for a different
index. -/
theorem lineCase_sat_src (srcK : LRow) (kept : List LRow) (st : CState) (inz : Nat) (H : StepHyp srcK st kept)
    (hinz : inz < st.nle) (hsat : RowsSatCorrect kept st.rows)
    (m : Nat) (d : DRow) (hd : (lineCase srcK kept.length st inz).rows[m]? = some d) (hm : st.nle - 1 ≤ m) :
    (srcK.le = false ∧ m = st.nle - 1 ∧ ∀ j, bit d.sat j = decide (j = kept.length)) ∨
    (∃ m0 dm, st.nle ≤ m0 ∧ st.rows[m0]? = some dm ∧ d.sat = dm.sat ∧ (srcK.le = false → m0 = m) ∧
      (srcK.le = true → (m = m0 ∨ (m = st.nle - 1 ∧ m0 = st.rows.length - 1)) ∧ m < st.rows.length - 1)) := by
  have hn := H.hn
  have hlen := length_lineRows3 st inz
  have hi : st.nle - 1 < (lineRows3 st inz).length := by rw [hlen]; omega
  rw [lineCase_eq] at hd
  by_cases hk : srcK.le = true
  · simp only [hk, Bool.not_true, Bool.false_eq_true, if_false] at hd
    have hmlt : m < st.rows.length - 1 := by
      obtain ⟨hlt, _⟩ := List.getElem?_eq_some_iff.mp hd
      rw [List.length_dropLast, length_swapAt', hlen] at hlt
      exact hlt
    obtain ⟨m0, hm0, hx, hcase⟩ := getElem?_swap_dropLast _ _ m hi d hd
    rw [hlen] at hcase
    obtain ⟨dm, hdm, hsatm, _⟩ := lineRows3_sat st inz hinz hn m0 d hx
    right
    have hf : srcK.le = false → m0 = m := fun h => by rw [hk] at h; cases h
    refine ⟨m0, dm, ?_, hdm, hsatm, hf, fun _ => ⟨hcase, hmlt⟩⟩
    rcases hcase with h | ⟨h1, h2⟩ <;> omega
  · have hk' : srcK.le = false := by simpa using hk
    simp only [hk', Bool.not_false, if_true] at hd
    rw [List.getElem?_modify] at hd
    match hq : (lineRows3 st inz)[m]? with
    | none => rw [hq] at hd; simp at hd
    | some dd =>
      rw [hq] at hd
      simp only [Option.map_eq_map, Option.map_some, Option.some.injEq] at hd
      obtain ⟨dm, hdm, hsatm, _⟩ := lineRows3_sat st inz hinz hn m dd hq
      by_cases hmm : st.nle - 1 = m
      · left
        rw [if_pos hmm] at hd
        subst hd
        refine ⟨hk', hmm.symm, fun j => ?_⟩
        show bit (setBit dd.sat kept.length) j = _
        rw [bit_setBit, hsatm, line_bits_false srcK kept st H hsat m dm hdm (by omega)]
        simp
      · right
        rw [if_neg hmm] at hd
        subst hd
        exact ⟨m, dm, by omega, hdm, hsatm, fun _ => rfl, fun h => absurd h hk⟩

theorem lineCase_extra_proper (ncols : Nat) (srcK : LRow) (kept : List LRow) (st : CState) (inz : Nat)
    (H : StepHyp srcK st kept) (hinz : inz < st.nle) (hsat : RowsSatCorrect kept st.rows)
    (X : CExtra ncols kept st) :
    SatProper (lineCase srcK kept.length st inz).nle (lineCase srcK kept.length st inz).rows := by
  intro m d hm hd
  rw [lineCase_nle] at hm
  rcases lineCase_sat_src srcK kept st inz H hinz hsat m d hd hm with ⟨_, _, hb⟩ | ⟨m0, dm, hge, hdm, hs, _, _⟩
  · rw [lineBitsEmpty_false_iff]
    exact ⟨kept.length, by rw [hb]; simp⟩
  · rw [hs]; exact X.proper m0 dm hge hdm

theorem lineCase_extra_antichain (ncols : Nat) (srcK : LRow) (kept : List LRow) (st : CState) (inz : Nat)
    (H : StepHyp srcK st kept) (hinz : inz < st.nle) (hsat : RowsSatCorrect kept st.rows)
    (X : CExtra ncols kept st) :
    SatAntichain (lineCase srcK kept.length st inz).nle (lineCase srcK kept.length st inz).rows := by
  intro l m dl dm hl hm hne hdl hdm
  rw [lineCase_nle] at hl hm
  rw [Bool.eq_false_iff]
  intro hsub
  rw [subsetOrEqual_iff] at hsub
  rcases lineCase_sat_src srcK kept st inz H hinz hsat l dl hdl hl with
    ⟨_, hl1, hbl⟩ | ⟨l0, el, hgel, hel, hsl, hfl, htl⟩
  · rcases lineCase_sat_src srcK kept st inz H hinz hsat m dm hdm hm with
      ⟨_, hm1, _⟩ | ⟨m0, em, hgem, hem, hsm, _, _⟩
    · omega
    · -- the new ray owns the new column, the old ray does not
      have h1 : bit dl.sat kept.length = true := by rw [hbl]; simp
      have h2 := hsub _ h1
      rw [hsm, old_bit_new_false kept st.rows hsat em (memC hem)] at h2
      cases h2
  · rcases lineCase_sat_src srcK kept st inz H hinz hsat m dm hdm hm with
      ⟨_, hm1, hbm⟩ | ⟨m0, em, hgem, hem, hsm, hfm, htm⟩
    · -- the old ray has some column, which is not the new one
      obtain ⟨j, hj⟩ := (lineBitsEmpty_false_iff _).mp (X.proper l0 el hgel hel)
      have hjne : j ≠ kept.length := by
        intro e
        rw [e, old_bit_new_false kept st.rows hsat el (memC hel)] at hj
        cases hj
      have h2 := hsub j (by rw [hsl]; exact hj)
      rw [hbm] at h2
      simp only [decide_eq_true_eq] at h2
      exact hjne h2
    · have hne0 : l0 ≠ m0 := by
        cases hk : srcK.le with
        | false =>
          have := hfl hk; have := hfm hk; omega
        | true =>
          have := htl hk; have := htm hk; omega
      have := X.antichain l0 m0 el em hgel hgem hne0 hel hem
      rw [Bool.eq_false_iff] at this
      apply this
      rw [subsetOrEqual_iff]
      intro j hj
      have := hsub j (by rw [hsl]; exact hj)
      rw [hsm] at this
      exact this

end PPLV.Conv
