import PPLV.Conv.ProofsCompleteAbs2b
/-!
# C01 stage 4 — the Double Description lemma with the adjacency test

One iteration of Chernikova's conversion for a constraint `c` that every line saturates: keep the rays that
satisfy `c`, and for every *adjacent* pair of rays on opposite sides of `c` add a positive combination on
the hyperplane.  If `(A, L ∪ R)` was a double description pair (`DDInv`), the new system generates the new
cone (`ray_step_complete`).
-/
namespace PPLV.Conv.Abs

variable {V : Type*} [AddCommGroup V] [Module ℚ V]

theorem ray_step_face_aux (U : Submodule ℚ V) (A : List (ACon V)) (L R R' : Set V) (c : ACon V)
    (inv : DDInv U A L R) (hcL : ∀ l ∈ L, c.f l = 0)
    (hkeep : ∀ r ∈ R, c.holds r → r ∈ R')
    (hnew : ∀ r ∈ R, ∀ s ∈ R, 0 < c.f r → c.f s < 0 → Adjacent A R r s →
        ∃ p ∈ R', ∃ a b : ℚ, 0 < a ∧ 0 < b ∧ p = a • r + b • s ∧ c.f p = 0) :
    ∀ n : ℕ, ∀ x ∈ U, InP (c :: A) x → (∃ a ∈ c :: A, a.f x ≠ 0) → nsat (c :: A) x = n →
      FaceRay U (c :: A) R' x := by
  intro n
  induction n using Nat.strong_induction_on with
  | _ n ih =>
    intro x hxU hxP hxne hn
    have ihx : ∀ u ∈ U, InP (c :: A) u → (∃ a ∈ c :: A, a.f u ≠ 0) →
        nsat (c :: A) u < nsat (c :: A) x → FaceRay U (c :: A) R' u :=
      fun u huU huP hune hlt => ih (nsat (c :: A) u) (by omega) u huU huP hune rfl
    obtain ⟨hcx, hxA⟩ := InP_cons.1 hxP
    have h1 : Cone L R x := inv.complete x hxU hxA
    have h2 := Cone.face A inv.lineSat inv.raySound h1
    have keep_ok : ∀ r ∈ R, c.holds r → SatSub A x r → (c.f x = 0 → c.f r = 0) →
        FaceRay U (c :: A) R' x := by
      intro r hr hcr hsr hc0
      obtain ⟨a, ha, hne⟩ := inv.proper r hr
      exact ⟨r, hkeep r hr hcr, inv.rayU r hr, InP_cons.2 ⟨hcr, inv.raySound r hr⟩,
        SatSub_cons.2 ⟨hc0, hsr⟩, a, List.mem_cons_of_mem _ ha, hne⟩
    rcases hcx.nonneg.eq_or_lt with hc0 | hcpos
    · by_cases hb : ∃ r, (r ∈ R ∧ SatSub A x r) ∧ c.f r = 0
      · obtain ⟨r, ⟨hr, hsr⟩, hcr⟩ := hb
        exact keep_ok r hr (ACon.holds_of_zero hcr) hsr (fun _ => hcr)
      · have hS : ∀ r ∈ {r | r ∈ R ∧ SatSub A x r}, c.f r ≠ 0 := fun r hr h0 => hb ⟨r, hr, h0⟩
        have hnl : ¬ Cone L ∅ x := by
          intro hl
          obtain ⟨a, ha, hne⟩ := hxne
          apply hne
          rcases List.mem_cons.1 ha with e | ha'
          · rw [e]; exact hc0.symm
          · exact Cone.lines_eval a.f (fun l hl' => inv.lineSat l hl' a ha') hl
        obtain ⟨r, ⟨hr, hsr⟩, s, ⟨hs, hss⟩, hcr, hcs⟩ :=
          Cone.exists_pos_neg c.f hcL h2 hc0.symm hS hnl
        have hxp : SatSub (c :: A) x ((-c.f s) • r + c.f r • s) := by
          refine SatSub_cons.2 ⟨fun _ => by rw [comb_eval]; ring, fun a ha h0 => ?_⟩
          rw [comb_eval, hsr a ha h0, hss a ha h0, mul_zero, mul_zero, add_zero]
        refine FaceRay.of_satSub hxp (pair_face U A L R R' c inv hkeep hnew hr hs hcr hcs ?_)
        intro u huU huP hune hlt
        exact ihx u huU huP hune (lt_of_lt_of_le hlt (nsat_le hxp))
    · obtain ⟨r, ⟨hr, hsr⟩, hcr⟩ := Cone.exists_pos c.f hcL h2 hcpos
      exact keep_ok r hr (ACon.holds_of_nonneg (hcx.eq_false hcpos.ne') hcr.le) hsr
        (fun h0 => absurd h0 hcpos.ne')

/-- every point of the new cone that is not in the lineality space has a ray of the new system in its
minimal face -/
theorem ray_step_face (U : Submodule ℚ V) (A : List (ACon V)) (L R R' : Set V) (c : ACon V)
    (inv : DDInv U A L R) (hcL : ∀ l ∈ L, c.f l = 0)
    (hkeep : ∀ r ∈ R, c.holds r → r ∈ R')
    (hnew : ∀ r ∈ R, ∀ s ∈ R, 0 < c.f r → c.f s < 0 → Adjacent A R r s →
        ∃ p ∈ R', ∃ a b : ℚ, 0 < a ∧ 0 < b ∧ p = a • r + b • s ∧ c.f p = 0) :
    ∀ x ∈ U, InP (c :: A) x → (∃ a ∈ c :: A, a.f x ≠ 0) →
      ∃ g ∈ R', g ∈ U ∧ InP (c :: A) g ∧ SatSub (c :: A) x g ∧ ∃ a ∈ c :: A, a.f g ≠ 0 :=
  fun x hxU hxP hxne => ray_step_face_aux U A L R R' c inv hcL hkeep hnew _ x hxU hxP hxne rfl

theorem ray_step_complete_aux (U : Submodule ℚ V) (A : List (ACon V)) (L R R' : Set V) (c : ACon V)
    (inv : DDInv U A L R) (hcL : ∀ l ∈ L, c.f l = 0)
    (hkeep : ∀ r ∈ R, c.holds r → r ∈ R')
    (hnew : ∀ r ∈ R, ∀ s ∈ R, 0 < c.f r → c.f s < 0 → Adjacent A R r s →
        ∃ p ∈ R', ∃ a b : ℚ, 0 < a ∧ 0 < b ∧ p = a • r + b • s ∧ c.f p = 0) :
    ∀ n : ℕ, ∀ x ∈ U, InP (c :: A) x → nsat (c :: A) x = n → Cone L R' x := by
  intro n
  induction n using Nat.strong_induction_on with
  | _ n ih =>
    intro x hxU hxP hn
    by_cases hxne : ∃ a ∈ c :: A, a.f x ≠ 0
    · obtain ⟨g, hgR, hgU, hgP, hxg, hgne⟩ :=
        ray_step_face U A L R R' c inv hcL hkeep hnew x hxU hxP hxne
      obtain ⟨t, ht, hyP, hxy, hstrict⟩ := peel (c :: A) x g hxP hgP hxg hgne
      have hyU : x - t • g ∈ U := U.sub_mem hxU (U.smul_mem _ hgU)
      have hlt := nsat_lt hxy hstrict
      have hy := ih (nsat (c :: A) (x - t • g)) (by omega) (x - t • g) hyU hyP rfl
      have hx := Cone.ray t hgR ht hy
      rwa [sub_add_cancel] at hx
    · have hall : ∀ a ∈ A, a.f x = 0 := fun a ha => by
        by_contra hne
        exact hxne ⟨a, List.mem_cons_of_mem _ ha, hne⟩
      exact Cone.mono (fun _ h => h) (Set.empty_subset _) (inv.lineality x hxU hall)

/-- **the Double Description lemma with the adjacency test** -/
theorem ray_step_complete (U : Submodule ℚ V) (A : List (ACon V)) (L R R' : Set V) (c : ACon V)
    (inv : DDInv U A L R) (hcL : ∀ l ∈ L, c.f l = 0)
    (hkeep : ∀ r ∈ R, c.holds r → r ∈ R')
    (hnew : ∀ r ∈ R, ∀ s ∈ R, 0 < c.f r → c.f s < 0 → Adjacent A R r s →
        ∃ p ∈ R', ∃ a b : ℚ, 0 < a ∧ 0 < b ∧ p = a • r + b • s ∧ c.f p = 0) :
    ∀ x ∈ U, InP A x → c.holds x → Cone L R' x :=
  fun x hxU hxA hcx =>
    ray_step_complete_aux U A L R R' c inv hcL hkeep hnew _ x hxU (InP_cons.2 ⟨hcx, hxA⟩) rfl

end PPLV.Conv.Abs
