import PPLV.Conv.ProofsCompleteAbs0
import PPLV.Conv.ProofsRow
import Mathlib.LinearAlgebra.Pi
import Mathlib.LinearAlgebra.Span.Defs
/-!
# C01 stage 4 — the model rows inside the abstract setting

A row `x : List Int` is seen through its scalar products: `emb x = fun c => scalarProduct c x`, an element
of the `ℚ`-vector space `Vec → ℚ`.  `Generated gens x` (`Spec.lean`, stated on linear functionals) is an
equation in that space; a source row `s` is the evaluation functional at `s.v`.  The ambient space of a
system with `n` columns is the span of the rows of length `≤ n` (dimension `n`).
-/
namespace PPLV.Conv
open PPLV.Conv.Abs

/-- the space the rows live in. -/
abbrev FV := Vec → ℚ

/-- a row, seen through its scalar products. -/
def emb (x : Vec) : FV := fun c => (scalarProduct c x : ℚ)

/-- a source row as an abstract constraint: evaluation at `s.v`. -/
def conOf (s : LRow) : ACon FV := ⟨s.le, LinearMap.proj s.v⟩

theorem conOf_f (s : LRow) (y : FV) : (conOf s).f y = y s.v := rfl

theorem conOf_f_emb (s : LRow) (x : Vec) : (conOf s).f (emb x) = (scalarProduct s.v x : ℚ) := rfl

theorem conOf_eq (s : LRow) : (conOf s).eq = s.le := rfl

/-- the ambient space of a system with `n` columns. -/
def ambient (n : Nat) : Submodule ℚ FV := Submodule.span ℚ (emb '' {x | x.length ≤ n})

theorem emb_mem_ambient (n : Nat) (x : Vec) (h : x.length ≤ n) : emb x ∈ ambient n :=
  Submodule.subset_span ⟨x, h, rfl⟩

/-- the lines of a generator system (`is_line_or_equality()` rows). -/
def linesOf (rows : List LRow) : Set FV := {v | ∃ r ∈ rows, r.le = true ∧ v = emb r.v}

/-- the rays (and points) of a generator system. -/
def raysOf (rows : List LRow) : Set FV := {v | ∃ r ∈ rows, r.le = false ∧ v = emb r.v}

/-- an identity between scalar products, for every functional, is an identity between embedded rows. -/
theorem emb_comb2 {x y z : Vec} {a b g : Int}
    (h : ∀ s, a * scalarProduct s x + b * scalarProduct s y = g * scalarProduct s z) :
    (a : ℚ) • emb x + (b : ℚ) • emb y = (g : ℚ) • emb z := by
  funext s
  simp only [Pi.add_apply, Pi.smul_apply, emb, smul_eq_mul]
  exact_mod_cast h s

theorem emb_sub2 {x y z : Vec} {a b g : Int}
    (h : ∀ s, a * scalarProduct s x - b * scalarProduct s y = g * scalarProduct s z) :
    (a : ℚ) • emb x - (b : ℚ) • emb y = (g : ℚ) • emb z := by
  funext s
  simp only [Pi.sub_apply, Pi.smul_apply, emb, smul_eq_mul]
  exact_mod_cast h s

theorem emb_neg (x : Vec) : emb (x.map (- ·)) = - emb x := by
  funext s
  simp only [emb, Pi.neg_apply, sp_neg]
  push_cast; ring

theorem holds_iff_abs (r : LRow) (x : Vec) : holds r x ↔ (conOf r).holds (emb x) := by
  unfold holds ACon.holds
  rw [conOf_eq, conOf_f_emb]
  cases r.le
  · simp only [Bool.false_eq_true, if_false]
    exact_mod_cast Iff.rfl
  · simp only [if_true]
    exact_mod_cast Iff.rfl

theorem holdsAll_iff_abs (rows : List LRow) (x : Vec) : holdsAll rows x ↔ InP (rows.map conOf) (emb x) := by
  unfold holdsAll InP
  constructor
  · intro h a ha
    obtain ⟨r, hr, rfl⟩ := List.mem_map.mp ha
    exact (holds_iff_abs r x).mp (h r hr)
  · intro h r hr
    exact (holds_iff_abs r x).mpr (h _ (List.mem_map.mpr ⟨r, hr, rfl⟩))

/-- `satisfies s d` (a generator row against a source row) in the abstract setting. -/
theorem satisfies_abs (s d : LRow) (h : satisfies s d) :
    0 ≤ (conOf s).f (emb d.v) ∧ ((s.le = true ∨ d.le = true) → (conOf s).f (emb d.v) = 0) := by
  rw [conOf_f_emb]
  unfold satisfies at h
  constructor
  · by_cases hc : (s.le || d.le) = true
    · rw [if_pos hc] at h; rw [h]; simp
    · rw [if_neg hc] at h; exact_mod_cast h
  · intro hc
    have : (s.le || d.le) = true := by
      rcases hc with hc | hc <;> simp [hc]
    rw [if_pos this] at h
    rw [h]; simp

end PPLV.Conv
