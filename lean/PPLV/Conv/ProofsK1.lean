import PPLV.Conv.ProofsSound3
import PPLV.Lin.Decide
import PPLV.Lin.CertProofs
/-!
# Bridge to the K1 kernel: a generator with a positive divisor that satisfies the rows is a point of
`sem` of the constraint system (necessarily closed reading of the rows)
-/
namespace PPLV.Conv
open PPLV.Lin

/-- the K1 reading of a constraint row `k + Σ a_i x_i ≥ 0` / `= 0` (column 0 = inhomogeneous term). -/
def rowCons (r : LRow) : List Con :=
  if r.le then eqRows (r.v.drop 1) (r.v.getD 0 0) else [geRow (r.v.drop 1) (r.v.getD 0 0)]

def sysCons (rows : List LRow) : List Con := rows.flatMap rowCons

theorem sp_eq_zsum (a b : Vec) : scalarProduct a b = zsum a b := by
  induction a generalizing b with
  | nil => simp [scalarProduct, zsum]
  | cons x xs ih =>
    cases b with
    | nil => simp [scalarProduct, zsum]
    | cons y ys => simp [scalarProduct, zsum, ih]

theorem sp_split (r d : Vec) (hd : d ≠ []) :
    scalarProduct r d = r.getD 0 0 * d.getD 0 0 + scalarProduct (r.drop 1) (d.drop 1) := by
  cases r with
  | nil => simp [sp_nil_left]
  | cons a as =>
    cases d with
    | nil => exact absurd rfl hd
    | cons b bs => simp [scalarProduct]

theorem zsum_neg (a b : Vec) : zsum (a.map (- ·)) b = - zsum a b := by
  induction a generalizing b with
  | nil => simp [zsum]
  | cons x xs ih =>
    cases b with
    | nil => simp [zsum]
    | cons y ys => simp [zsum, ih]; ring

/-- a generator row with a positive divisor that satisfies a constraint row is, as the rational point
`coordinates / divisor`, a solution of its K1 reading. -/
theorem satisfies_point_sat (r d : LRow) (hd0 : 0 < d.v.getD 0 0) (h : satisfies r d) :
    Sat (rowCons r) (ratPoint (d.v.drop 1) (d.v.getD 0 0)) := by
  have hne : d.v ≠ [] := by
    intro e; rw [e] at hd0; simp at hd0
  have hsp := sp_split r.v d.v hne
  rw [sp_eq_zsum (r.v.drop 1) (d.v.drop 1)] at hsp
  have hnn := satisfies_nonneg r d h
  rw [hsp] at hnn
  intro c hc
  rw [← holdsAt_iff c _ _ hd0]
  unfold rowCons at hc
  by_cases hle : r.le = true
  · have hz := satisfies_line_zero r d h (Or.inl hle)
    rw [hsp] at hz
    simp only [hle, if_true] at hc
    unfold eqRows at hc
    simp only [List.mem_cons, List.not_mem_nil, or_false] at hc
    rcases hc with rfl | rfl
    · unfold Con.holdsAt
      simp only [foldl_zipWith, zero_add, Bool.false_eq_true, if_false, decide_eq_true_eq]
      linarith
    · unfold Con.holdsAt
      simp only [foldl_zipWith, zero_add, Bool.false_eq_true, if_false, decide_eq_true_eq, zsum_neg]
      linarith
  · have hle' : r.le = false := by simpa using hle
    simp only [hle', Bool.false_eq_true, if_false] at hc
    unfold geRow at hc
    simp only [List.mem_cons, List.not_mem_nil, or_false] at hc
    subst hc
    unfold Con.holdsAt
    simp only [foldl_zipWith, zero_add, Bool.false_eq_true, if_false, decide_eq_true_eq]
    linarith

theorem sound_point_sat (source : List LRow) (d : LRow) (hd0 : 0 < d.v.getD 0 0)
    (h : ∀ s ∈ source, satisfies s d) : Sat (sysCons source) (ratPoint (d.v.drop 1) (d.v.getD 0 0)) := by
  intro c hc
  unfold sysCons at hc
  obtain ⟨r, hr, hcr⟩ := List.mem_flatMap.mp hc
  exact satisfies_point_sat r d hd0 (h r hr) c hcr

end PPLV.Conv
