import PPLV.Conv.ProofsList
/-!
# C01 stage 3 — `simplify`: `removeRowAt` and the saturation rule `satRuleLoop`
-/
namespace PPLV.Conv

/-! ## `removeRowAt` -/

theorem length_removeRowAt (l : List SRow) (i : Nat) : (removeRowAt l i).length = l.length - 1 := by
  simp [removeRowAt, length_swapAt]

theorem mem_removeRowAt (l : List SRow) (i : Nat) (x : SRow) (h : x ∈ removeRowAt l i) : x ∈ l := by
  unfold removeRowAt at h
  exact (mem_swapAt l i (l.length - 1) x).1 ((List.dropLast_sublist _).subset h)

/-- what is at index `m` after `removeRowAt l i`. -/
theorem getElem?_removeRowAt (l : List SRow) (i m : Nat) (hi : i < l.length) :
    (removeRowAt l i)[m]? =
      if m < l.length - 1 then (if m = i then l[l.length - 1]? else l[m]?) else none := by
  have hlast : l.length - 1 < l.length := by omega
  unfold removeRowAt
  rw [List.getElem?_dropLast, length_swapAt]
  by_cases hm : m < l.length - 1
  · simp only [hm, if_true]
    rw [getElem?_swapAt l i (l.length - 1) m hi hlast]
    have h1 : m ≠ l.length - 1 := by omega
    simp only [h1, if_false]
  · simp only [hm, if_false]

theorem getElem?_removeRowAt_of_ne (l : List SRow) (i m : Nat) (hi : i < l.length) (hm : m < l.length - 1)
    (hne : m ≠ i) : (removeRowAt l i)[m]? = l[m]? := by
  rw [getElem?_removeRowAt l i m hi]; simp [hm, hne]

/-- every row but the one at index `i` survives. -/
theorem mem_removeRowAt_of_ne (l : List SRow) (i m : Nat) (hi : i < l.length) (hm : m < l.length) (hne : m ≠ i) :
    l[m] ∈ removeRowAt l i := by
  rw [List.mem_iff_getElem?]
  by_cases h : m < l.length - 1
  · exact ⟨m, by rw [getElem?_removeRowAt_of_ne l i m hi h hne, List.getElem?_eq_getElem hm]⟩
  · have e : m = l.length - 1 := by omega
    refine ⟨i, ?_⟩
    rw [getElem?_removeRowAt l i i hi]
    have : i < l.length - 1 := by omega
    simp only [this, if_true]
    subst e
    exact List.getElem?_eq_getElem hm

/-- a row of `l` is still there or was the row at index `i`. -/
theorem mem_removeRowAt_or (l : List SRow) (i : Nat) (hi : i < l.length) (x : SRow) (h : x ∈ l) :
    x ∈ removeRowAt l i ∨ x = l.getD i default := by
  obtain ⟨m, hm, rfl⟩ := List.mem_iff_getElem.1 h
  by_cases e : m = i
  · right; subst e; simp [List.getD_eq_getElem?_getD, List.getElem?_eq_getElem hm]
  · left; exact mem_removeRowAt_of_ne l i m hi hm e

theorem take_removeRowAt (l : List SRow) (i k : Nat) (hi : i < l.length) (hk : k ≤ i) :
    (removeRowAt l i).take k = l.take k := by
  unfold removeRowAt
  rw [List.dropLast_eq_take, List.take_take, length_swapAt]
  have : min k (l.length - 1) = k := by omega
  rw [this]
  exact swapAt_take k l i (l.length - 1) hk (by omega)

/-! ## the saturation rule -/

theorem satRuleLoop_mem : ∀ (fuel numColsSat minSat : Nat) (rows : List SRow) (i : Nat),
    ∀ x ∈ satRuleLoop fuel numColsSat minSat rows i, x ∈ rows
  | 0, _, _, rows, _ => fun x h => by simpa [satRuleLoop] using h
  | n + 1, numColsSat, minSat, rows, i => fun x h => by
    unfold satRuleLoop at h
    split at h
    · split at h
      · exact mem_removeRowAt rows i x (satRuleLoop_mem n _ _ _ _ x h)
      · exact satRuleLoop_mem n _ _ _ _ x h
    · exact h

theorem satRuleLoop_take : ∀ (fuel numColsSat minSat : Nat) (rows : List SRow) (i k : Nat), k ≤ i →
    (satRuleLoop fuel numColsSat minSat rows i).take k = rows.take k
  | 0, _, _, rows, _, _, _ => by simp [satRuleLoop]
  | n + 1, numColsSat, minSat, rows, i, k, hk => by
    unfold satRuleLoop
    split
    · rename_i hi
      split
      · rw [satRuleLoop_take n _ _ _ i k hk]
        exact take_removeRowAt rows i k hi hk
      · exact satRuleLoop_take n _ _ _ (i + 1) k (by omega)
    · rfl

/-- only rows below the threshold are removed. -/
theorem satRuleLoop_removed : ∀ (fuel numColsSat minSat : Nat) (rows : List SRow) (i : Nat),
    ∀ x ∈ rows, x ∈ satRuleLoop fuel numColsSat minSat rows i ∨ numSaturators numColsSat x < minSat
  | 0, _, _, rows, _ => fun x h => by left; simpa [satRuleLoop] using h
  | n + 1, numColsSat, minSat, rows, i => fun x h => by
    unfold satRuleLoop
    split
    · rename_i hi
      split
      · rename_i hlt
        rcases mem_removeRowAt_or rows i hi x h with h1 | h1
        · exact satRuleLoop_removed n _ _ _ _ x h1
        · right; rw [h1]; exact hlt
      · exact satRuleLoop_removed n _ _ _ _ x h
    · left; exact h

/-- every row kept from index `i` on passed the test. -/
theorem satRuleLoop_kept : ∀ (fuel numColsSat minSat : Nat) (rows : List SRow) (i : Nat),
    rows.length - i ≤ fuel →
    ∀ x ∈ (satRuleLoop fuel numColsSat minSat rows i).drop i, ¬ numSaturators numColsSat x < minSat
  | 0, _, _, rows, i => fun hf x h => by
    have : rows.length ≤ i := by omega
    simp [satRuleLoop, List.drop_eq_nil_of_le this] at h
  | n + 1, numColsSat, minSat, rows, i => fun hf x h => by
    unfold satRuleLoop at h
    split at h
    · rename_i hi
      split at h
      · exact satRuleLoop_kept n _ _ _ i (by rw [length_removeRowAt]; omega) x h
      · rename_i hge
        rw [mem_drop_iff_getElem?] at h
        obtain ⟨m, hm, hx⟩ := h
        by_cases e : m = i
        · subst e
          have ht := satRuleLoop_take n numColsSat minSat rows (m + 1) (m + 1) (Nat.le_refl _)
          have h2 : ((satRuleLoop n numColsSat minSat rows (m + 1)).take (m + 1))[m]? = some x := by
            rw [List.getElem?_take]; simp [hx]
          rw [ht, List.getElem?_take] at h2
          simp only [Nat.lt_succ_self, if_true] at h2
          have : rows.getD m default = x := getD_of_getElem? rows m x default h2
          rw [← this]; exact hge
        · apply satRuleLoop_kept n numColsSat minSat rows (i + 1) (by omega) x
          rw [mem_drop_iff_getElem?]
          exact ⟨m, by omega, hx⟩
    · have : rows.length ≤ i := by omega
      simp [List.drop_eq_nil_of_le this] at h

end PPLV.Conv
