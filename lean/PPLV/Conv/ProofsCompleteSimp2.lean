import PPLV.Conv.ProofsSimp9
import PPLV.Conv.ProofsCompleteBits
/-!
# C01 stage 4 — `simplify` drops only redundant rows: list facts

* the rows at index `≥ k` after `removeRowAt` / `satRuleLoop` / `indepInner` / `indepLoop` (all of which
  only touch indices `≥ k`) were at index `≥ k` before;
* `eqDetectLoop`: every row keeps an exact saturation row and stays satisfied by the generators
  (`RowOK`), and every row it leaves beyond the equalities has a non-empty saturation row.
-/
namespace PPLV.Conv

/-! ## rows beyond `k` stay beyond `k` -/

theorem mem_drop_removeRowAt (l : List SRow) (i k : Nat) (hk : k ≤ i) (x : SRow)
    (h : x ∈ (removeRowAt l i).drop k) : x ∈ l.drop k := by
  by_cases hi : i < l.length
  · rw [mem_drop_iff_getElem?] at h ⊢
    obtain ⟨m, hm, hx⟩ := h
    rw [getElem?_removeRowAt l i m hi] at hx
    split at hx
    · split at hx
      · exact ⟨l.length - 1, by omega, hx⟩
      · exact ⟨m, hm, hx⟩
    · cases hx
  · have e : removeRowAt l i = l.dropLast := by
      unfold removeRowAt
      rw [swapAt_of_not_lt l i _ (by omega)]
    rw [e, List.dropLast_eq_take, mem_take_drop_iff_getElem?] at h
    obtain ⟨m, hm, _, hx⟩ := h
    exact (mem_drop_iff_getElem? _ _ _).2 ⟨m, hm, hx⟩

theorem satRuleLoop_drop_mem : ∀ (fuel numColsSat minSat : Nat) (rows : List SRow) (i k : Nat), k ≤ i →
    ∀ x ∈ (satRuleLoop fuel numColsSat minSat rows i).drop k, x ∈ rows.drop k
  | 0, _, _, rows, _, _, _ => fun x h => by simpa [satRuleLoop] using h
  | n + 1, numColsSat, minSat, rows, i, k, hk => fun x h => by
    unfold satRuleLoop at h
    split at h
    · split at h
      · exact mem_drop_removeRowAt rows i k hk x (satRuleLoop_drop_mem n _ _ _ i k hk x h)
      · exact satRuleLoop_drop_mem n _ _ _ (i + 1) k (by omega) x h
    · exact h

theorem indepInner_drop_mem : ∀ (fuel : Nat) (rows : List SRow) (i j k : Nat), k ≤ j →
    ∀ x ∈ (indepInner fuel rows i j).1.drop k, x ∈ rows.drop k
  | 0, rows, _, _, _, _ => fun x h => by simpa [indepInner] using h
  | n + 1, rows, i, j, k, hk => fun x h => by
    unfold indepInner at h
    split at h
    · split at h
      · exact indepInner_drop_mem n _ _ _ k (by omega) x h
      · simp only at h
        split at h
        · split at h
          · exact h
          · exact mem_drop_removeRowAt rows j k hk x (indepInner_drop_mem n _ _ _ k hk x h)
        · exact indepInner_drop_mem n _ _ _ k (by omega) x h
    · exact h

theorem indepLoop_drop_mem : ∀ (fuel nle : Nat) (rows : List SRow) (i : Nat), nle ≤ i →
    ∀ x ∈ (indepLoop fuel nle rows i).drop nle, x ∈ rows.drop nle
  | 0, _, rows, _, _ => fun x h => by simpa [indepLoop] using h
  | n + 1, nle, rows, i, hi => fun x h => by
    unfold indepLoop at h
    split at h
    · simp only at h
      split at h
      · exact indepInner_drop_mem _ rows i nle nle (Nat.le_refl _) x
          (mem_drop_removeRowAt _ i nle hi x (indepLoop_drop_mem n _ _ _ hi x h))
      · exact indepInner_drop_mem _ rows i nle nle (Nat.le_refl _) x
          (indepLoop_drop_mem n _ _ _ (by omega) x h)
    · exact h

/-! ## exact saturation rows -/

/-- the saturation row of `r` is exact against `gens`: bit `j` set iff `gens[j]` does not saturate it. -/
def ExactBits (gens : List LRow) (r : SRow) : Prop :=
  ∀ j, bit r.sat j =
    (decide (j < gens.length) && decide (scalarProduct (gens.getD j default).v r.row.v ≠ 0))

/-- exact saturation row, and every generator satisfies the row. -/
def RowOK (gens : List LRow) (r : SRow) : Prop := ExactBits gens r ∧ ∀ g ∈ gens, satisfies r.row g

theorem getD_eq_getElem_lrow (gens : List LRow) (j : Nat) (h : j < gens.length) :
    gens.getD j default = gens[j] := by
  rw [List.getD_eq_getElem?_getD, List.getElem?_eq_getElem h]; rfl

/-- bit `j` against the generator `gens[j]`. -/
theorem ExactBits.bit_iff {gens : List LRow} {r : SRow} (h : ExactBits gens r) (j : Nat)
    (hj : j < gens.length) : bit r.sat j = false ↔ scalarProduct r.row.v gens[j].v = 0 := by
  have := h j
  rw [getD_eq_getElem_lrow gens j hj, sp_comm] at this
  rw [this]
  simp [hj]

theorem ExactBits.lt_of_bit {gens : List LRow} {r : SRow} (h : ExactBits gens r) (j : Nat)
    (hb : bit r.sat j = true) : j < gens.length := by
  have := h j
  rw [hb] at this
  by_contra hc
  simp [hc] at this

/-- a row with an empty exact saturation row is saturated by every generator. -/
theorem ExactBits.saturated_of_empty {gens : List LRow} {r : SRow} (h : ExactBits gens r)
    (hb : bitsEmpty r.sat = true) : ∀ g ∈ gens, scalarProduct r.row.v g.v = 0 := by
  intro g hg
  obtain ⟨j, hj, rfl⟩ := List.mem_iff_getElem.1 hg
  exact (h.bit_iff j hj).1 ((bitsEmpty_iff _).1 hb j)

theorem RowOK_eqRow {gens : List LRow} {s : SRow} (h : RowOK gens s) (hb : bitsEmpty s.sat = true) :
    RowOK gens (eqRow s) := by
  have hz := h.1.saturated_of_empty hb
  have hz' : ∀ g ∈ gens, scalarProduct (eqRow s).row.v g.v = 0 :=
    fun g hg => (eqRow_sp_iff s g.v).2 (hz g hg)
  refine ⟨fun j => ?_, fun g hg => ?_⟩
  · rw [eqRow_sat, (bitsEmpty_iff _).1 hb j]
    by_cases hj : j < gens.length
    · have := hz' gens[j] (List.getElem_mem hj)
      rw [getD_eq_getElem_lrow gens j hj, sp_comm, this]
      simp
    · simp [hj]
  · unfold satisfies
    rw [eqRow_le, Bool.true_or, if_pos rfl]
    exact hz' g hg

/-- the detection of the implicit equalities keeps `RowOK`. -/
theorem eqDetectLoop_rowOK (gens : List LRow) : ∀ (n : Nat) (rows : List SRow) (nle i : Nat),
    (∀ r ∈ rows, RowOK gens r) → ∀ r ∈ (eqDetectLoop n rows nle i).1, RowOK gens r
  | 0, rows, nle, i => fun h => h
  | n + 1, rows, nle, i => fun h => by
    by_cases hb : bitsEmpty (rows.getD i default).sat = true
    · rw [eqDetectLoop_succ_pos n rows nle i hb]
      apply eqDetectLoop_rowOK gens n
      intro s hs
      rw [mem_eqStepRows] at hs
      rcases mem_set_eqRow rows i s hs with h1 | ⟨hi, h1⟩
      · exact h s h1
      · rw [h1]; exact RowOK_eqRow (h _ (getD_mem rows i hi)) hb
    · rw [eqDetectLoop_succ_neg n rows nle i hb]
      exact eqDetectLoop_rowOK gens n rows nle (i + 1) h

/-- the rows at `[a, b)` have a non-empty saturation row. -/
def NonEmptyFrom (rows : List SRow) (a b : Nat) : Prop :=
  ∀ m, a ≤ m → m < b → bitsEmpty (rows.getD m default).sat = false

theorem length_eqStepRows (rows : List SRow) (nle i : Nat) : (eqStepRows rows nle i).length = rows.length := by
  unfold eqStepRows
  split
  · rw [length_swapAt, List.length_set]
  · rw [List.length_set]

theorem getD_set_ne (rows : List SRow) (i m : Nat) (s : SRow) (h : m ≠ i) :
    (rows.set i s).getD m default = rows.getD m default := by
  rw [List.getD_eq_getElem?_getD, List.getElem?_set_ne (Ne.symm h), ← List.getD_eq_getElem?_getD]

/-- after the detection every row beyond the equalities has a non-empty saturation row. -/
theorem eqDetectLoop_nonempty : ∀ (n : Nat) (rows : List SRow) (nle i : Nat),
    nle ≤ i → i + n = rows.length → NonEmptyFrom rows nle i →
    NonEmptyFrom (eqDetectLoop n rows nle i).1 (eqDetectLoop n rows nle i).2
      (eqDetectLoop n rows nle i).1.length
  | 0, rows, nle, i => fun _ hin h m h1 h2 => by
    have h2' : m < rows.length := h2
    exact h m h1 (by omega)
  | n + 1, rows, nle, i => fun hni hin h => by
    by_cases hb : bitsEmpty (rows.getD i default).sat = true
    · rw [eqDetectLoop_succ_pos n rows nle i hb]
      apply eqDetectLoop_nonempty n (eqStepRows rows nle i) (nle + 1) (i + 1) (by omega)
        (by rw [length_eqStepRows]; omega)
      intro m h1 h2
      have hl : (rows.set i (eqRow (rows.getD i default))).length = rows.length := List.length_set
      unfold eqStepRows
      split
      · rename_i hne
        have hne' : i ≠ nle := by simpa using hne
        rw [getD_swapAt _ i nle m (by rw [hl]; omega) (by rw [hl]; omega)]
        have hm1 : m ≠ nle := by omega
        rw [if_neg hm1]
        split
        · rw [getD_set_ne rows i nle _ (Ne.symm hne')]
          exact h nle (Nat.le_refl _) (by omega)
        · rename_i hmi
          rw [getD_set_ne rows i m _ hmi]
          exact h m (by omega) (by omega)
      · rename_i he
        have he' : i = nle := by simpa using he
        omega
    · rw [eqDetectLoop_succ_neg n rows nle i hb]
      apply eqDetectLoop_nonempty n rows nle (i + 1) (by omega) (by omega)
      intro m h1 h2
      by_cases e : m = i
      · rw [e]; simpa using hb
      · exact h m h1 (by omega)

end PPLV.Conv
