import PPLV.Conv.ProofsCompleteMain
/-!
# C01 stage 4 — an "empty" report of `minimize` is right

`minimize(true, cs, gs, sat)` reports "empty" when no generator beyond the lines has a positive
divisor (C) / epsilon coefficient (NNC).  With completeness of `conversion`: if the constraints entail
that this coordinate is non-negative (the positivity constraint, present or implied), no vector
satisfying the constraints has it positive — the polyhedron has no point.
-/
namespace PPLV.Conv
open PPLV.Conv.Abs

/-- the functional "coordinate `k`". -/
def colVec (k : Nat) : Vec := List.replicate k 0 ++ [1]

theorem sp_colVec : ∀ (k : Nat) (x : Vec), scalarProduct (colVec k) x = x.getD k 0
  | 0, [] => by simp [colVec, scalarProduct]
  | 0, a :: xs => by simp [colVec, scalarProduct]
  | k + 1, [] => by simp [colVec, sp_nil_right]
  | k + 1, a :: xs => by
    have ih := sp_colVec k xs
    have e : colVec (k + 1) = 0 :: colVec k := by simp [colVec, List.replicate_succ]
    rw [e]
    simp only [scalarProduct, ih, zero_mul, zero_add, List.getD_cons_succ]

theorem emb_colVec (k : Nat) (x : Vec) : emb x (colVec k) = (x.getD k 0 : ℚ) := by
  unfold emb; rw [sp_colVec]

theorem length_linearCombine (a b : Int) : ∀ (x y : Vec), (linearCombine a b x y).length = max x.length y.length
  | [], ys => by simp [linearCombine]
  | x :: xs, [] => by simp [linearCombine]
  | x :: xs, y :: ys => by
    simp only [linearCombine, List.length_cons, length_linearCombine a b xs ys]
    omega

theorem emb_linearCombine (a b : Int) (x y : Vec) :
    emb (linearCombine a b x y) = (a : ℚ) • emb x + (b : ℚ) • emb y := by
  funext c
  simp only [emb, Pi.add_apply, Pi.smul_apply, smul_eq_mul, sp_linearCombine]
  push_cast; ring

/-- every vector of the ambient space is a positive fraction of an embedded row. -/
theorem ambient_scaled (n : Nat) (y : FV) (hy : y ∈ ambient n) :
    ∃ (x : Vec) (N : Int), x.length ≤ n ∧ 0 < N ∧ (N : ℚ) • y = emb x := by
  unfold ambient at hy
  induction hy using Submodule.span_induction with
  | mem y hy =>
    obtain ⟨x, hx, rfl⟩ := hy
    exact ⟨x, 1, hx, by norm_num, by simp⟩
  | zero =>
    refine ⟨[], 1, by simp, by norm_num, ?_⟩
    funext c; simp [emb, sp_nil_right]
  | add y1 y2 _ _ ih1 ih2 =>
    obtain ⟨x1, N1, h1, p1, e1⟩ := ih1
    obtain ⟨x2, N2, h2, p2, e2⟩ := ih2
    refine ⟨linearCombine N2 N1 x1 x2, N1 * N2, ?_, Int.mul_pos p1 p2, ?_⟩
    · rw [length_linearCombine]; omega
    · rw [emb_linearCombine, ← e1, ← e2, smul_add, smul_smul, smul_smul]
      push_cast
      congr 1 <;> congr 1 <;> ring
  | smul q y _ ih =>
    obtain ⟨x, N, h, p, e⟩ := ih
    refine ⟨linearCombine q.num 0 x [], N * q.den, ?_, Int.mul_pos p (by exact_mod_cast q.den_pos), ?_⟩
    · rw [length_linearCombine]; simp; exact h
    · rw [emb_linearCombine, ← e, smul_smul, smul_smul]
      have hz : emb ([] : Vec) = 0 := by funext c; simp [emb, sp_nil_right]
      rw [hz, smul_zero, add_zero]
      congr 1
      have hd : (q.den : ℚ) ≠ 0 := by exact_mod_cast q.den_nz
      have hq : (q.num : ℚ) = q * q.den := by
        rw [Rat.mul_den_eq_num]
      push_cast
      rw [hq]; ring

/-- positivity stated on rows gives positivity on the whole ambient space. -/
theorem pos_abs_of_rows (ncols k : Nat) (source : List LRow)
    (hpos : ∀ x : Vec, x.length ≤ ncols → holdsAll source x → 0 ≤ x.getD k 0) :
    ∀ y ∈ ambient ncols, InP (source.map conOf) y → 0 ≤ y (colVec k) := by
  intro y hy hP
  obtain ⟨x, N, hx, hN, e⟩ := ambient_scaled ncols y hy
  have hNq : (0 : ℚ) < N := by exact_mod_cast hN
  have hP' : InP (source.map conOf) (emb x) := by
    rw [← e]
    intro a ha
    exact ACon.holds_smul _ (le_of_lt hNq) (hP a ha)
  have h0 := hpos x hx ((holdsAll_iff_abs source x).mpr hP')
  have h1 : emb x (colVec k) = (N : ℚ) * y (colVec k) := by
    rw [← e]; simp
  rw [emb_colVec] at h1
  have h2 : (0 : ℚ) ≤ (N : ℚ) * y (colVec k) := by rw [← h1]; exact_mod_cast h0
  exact nonneg_of_mul_nonneg_right h2 hNq |> fun h => h

/-- a coordinate that is `0` on the lines and `≤ 0` on the rays is `≤ 0` on the cone. -/
theorem cone_col_nonpos (L R : Set FV) (c : Vec) (hL : ∀ l ∈ L, l c = 0) (hR : ∀ r ∈ R, r c ≤ 0) {y : FV}
    (h : Cone L R y) : y c ≤ 0 := by
  induction h with
  | zero => simp
  | line t hl _ ih =>
    simp only [Pi.add_apply, Pi.smul_apply, smul_eq_mul, hL _ hl, mul_zero, add_zero]
    exact ih
  | ray t hr ht _ ih =>
    simp only [Pi.add_apply, Pi.smul_apply, smul_eq_mul]
    have := mul_nonpos_of_nonneg_of_nonpos ht (hR _ hr)
    linarith

/-- **when the conversion of `minimize` finds no generator with a positive coordinate `k`, no vector
satisfying the constraints has one** (`k` = the divisor column for C, the epsilon column for NNC). -/
theorem no_point_of_hasPoint_false (nnc : Bool) (ncols : Nat) (source : List LRow)
    (hsz : ncols < 2 ^ 64) (hsrc : source.length < 2 ^ 64)
    (hpos : ∀ x : Vec, x.length ≤ ncols → holdsAll source x → 0 ≤ x.getD (if nnc then ncols - 1 else 0) 0)
    (h : hasPoint nnc ncols
          (conversion ncols source 0 (identityLines ncols) (List.replicate ncols (List.replicate source.length false)) ncols).nle
          (conversion ncols source 0 (identityLines ncols) (List.replicate ncols (List.replicate source.length false)) ncols).dest
          = false) :
    ∀ x : Vec, x.length ≤ ncols → holdsAll source x → x.getD (if nnc then ncols - 1 else 0) 0 ≤ 0 := by
  set k := (if nnc then ncols - 1 else 0) with hk
  set r := conversion ncols source 0 (identityLines ncols) (List.replicate ncols (List.replicate source.length false)) ncols with hr
  have D : DDComplete ncols r := conversion_identity_complete ncols source hsz hsrc
  obtain ⟨hsound, hlf⟩ := conversion_sound' ncols source 0 (identityLines ncols)
    (List.replicate ncols (List.replicate source.length false)) ncols
    (by intro d _ s hs; simp at hs) (linesFirst_identity' ncols) (by simp [identityLines]) (by simp [identityLines])
  rw [← hr] at hsound hlf
  have hposA := pos_abs_of_rows ncols k source hpos
  intro x hx hall
  have hall' : holdsAll r.source x := fun s hs => hall s (conversion_source_subset _ _ _ _ _ _ s hs)
  have hc := D.complete (emb x) (emb_mem_ambient ncols x hx) ((holdsAll_iff_abs r.source x).mp hall')
  have := cone_col_nonpos (linesOf r.dest) (raysOf r.dest) (colVec k) ?_ ?_ hc
  · rw [emb_colVec] at this; exact_mod_cast this
  · -- lines: both signs satisfy the constraints
    rintro l ⟨g, hg, hle, rfl⟩
    have hz : ∀ a ∈ source.map conOf, a.f (emb g.v) = 0 := by
      intro a ha
      obtain ⟨s, hs, rfl⟩ := List.mem_map.mp ha
      exact (satisfies_abs s g (hsound g hg s hs)).2 (Or.inr hle)
    have hU := D.inU g hg
    have h1 := hposA (emb g.v) hU (fun a ha => ACon.holds_of_zero (hz a ha))
    have h2 := hposA (-emb g.v) (Submodule.neg_mem _ hU)
      (fun a ha => ACon.holds_of_zero (by rw [map_neg, hz a ha, neg_zero]))
    simp only [Pi.neg_apply] at h2
    linarith
  · -- rays: `hasPoint` found none positive
    rintro l ⟨g, hg, hle, rfl⟩
    obtain ⟨i, hi⟩ := List.mem_iff_getElem?.mp hg
    have hil : i < r.dest.length := (List.getElem?_eq_some_iff.1 hi).1
    have hgi : r.dest[i] = g := by
      rw [List.getElem?_eq_getElem hil] at hi; exact Option.some.inj hi
    have hge : r.nle ≤ i := by
      have := hlf i hil
      rw [hgi, hle] at this
      have h' : ¬ i < r.nle := of_decide_eq_false this.symm
      omega
    have hmem : g ∈ r.dest.drop r.nle := (mem_drop_iff_getElem? _ _ _).mpr ⟨i, hge, hi⟩
    unfold hasPoint at h
    rw [List.any_eq_false] at h
    have := h g hmem
    rw [emb_colVec]
    have hle0 : g.v.getD k 0 ≤ 0 := by simpa using this
    exact_mod_cast hle0

end PPLV.Conv
