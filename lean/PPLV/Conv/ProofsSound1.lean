import PPLV.Conv.ProofsLine
/-!
# Soundness of the line case of `conversion`
-/
namespace PPLV.Conv

/-! ## small facts -/

theorem linesFirst_iff (rows : List DRow) (n : Nat) :
    LinesFirst (rows.map (·.row)) n ↔ ∀ m d, rows[m]? = some d → d.row.le = decide (m < n) := by
  constructor
  · intro h m d hd
    have hm : m < rows.length := by
      by_contra hc
      rw [List.getElem?_eq_none (by omega)] at hd; cases hd
    have := h m (by simpa using hm)
    rw [List.getElem?_eq_getElem hm] at hd
    have hd' := Option.some.inj hd
    subst hd'
    simpa using this
  · intro h i hi
    have hi' : i < rows.length := by simpa using hi
    have := h i rows[i] (List.getElem?_eq_getElem hi')
    simpa using this

theorem satisfies_of_zero (s d : LRow) (h : scalarProduct s.v d.v = 0) : satisfies s d := by
  unfold satisfies
  split
  · exact h
  · omega

theorem satisfies_ray (s d : LRow) (hs : s.le = false) (hd : d.le = false) (h : 0 ≤ scalarProduct s.v d.v) :
    satisfies s d := by
  unfold satisfies
  simp [hs, hd, h]

theorem satisfies_line_zero (s d : LRow) (h : satisfies s d) (hl : s.le = true ∨ d.le = true) :
    scalarProduct s.v d.v = 0 := by
  unfold satisfies at h
  have : (s.le || d.le) = true := by rcases hl with h | h <;> simp [h]
  simpa [this] using h

theorem satisfies_nonneg (s d : LRow) (h : satisfies s d) : 0 ≤ scalarProduct s.v d.v := by
  unfold satisfies at h
  split at h
  · omega
  · exact h

/-- `satisfies` only depends on the kind bit and on the product. -/
theorem satisfies_congr (s d d' : LRow) (hle : d'.le = d.le) (g : Int) (hg : g ≠ 0) (hpos : d.le = false → 0 < g)
    (h : satisfies s d) (he : g * scalarProduct s.v d'.v = scalarProduct s.v d.v) : satisfies s d' := by
  unfold satisfies at h ⊢
  rw [hle]
  split at h
  · rename_i hc
    simp only [hc, if_true]
    rw [h] at he
    rcases Int.mul_eq_zero.mp he with h1 | h1
    · exact absurd h1 hg
    · exact h1
  · rename_i hc
    simp only [hc]
    have hdl : d.le = false := by
      cases hd : d.le <;> simp_all
    have hgp := hpos hdl
    simp only [Bool.false_eq_true, if_false]
    by_contra hneg
    have : scalarProduct s.v d'.v < 0 := by omega
    have : g * scalarProduct s.v d'.v < 0 := Int.mul_neg_of_pos_of_neg hgp this
    omega

/-! ## `indexNonZero` -/

theorem indexNonZero_le (l : List DRow) : indexNonZero l ≤ l.length := by
  induction l with
  | nil => simp [indexNonZero]
  | cons d ds ih =>
    simp only [indexNonZero]
    split <;> simp <;> omega

theorem indexNonZero_before (l : List DRow) (m : Nat) (d : DRow) (hm : m < indexNonZero l) (hd : l[m]? = some d) :
    d.sp = 0 := by
  induction l generalizing m with
  | nil => simp at hd
  | cons e es ih =>
    simp only [indexNonZero] at hm
    split at hm
    · omega
    · rename_i hz
      cases m with
      | zero =>
        simp at hd; subst hd
        simpa using hz
      | succ k =>
        simp at hd
        exact ih k (by omega) hd

theorem indexNonZero_at (l : List DRow) (h : indexNonZero l < l.length) :
    ∃ d, l[indexNonZero l]? = some d ∧ d.sp ≠ 0 := by
  induction l with
  | nil => simp at h
  | cons e es ih =>
    simp only [indexNonZero] at h ⊢
    split
    · rename_i hz
      exact ⟨e, by simp, by simpa using hz⟩
    · rename_i hz
      simp only [hz] at h
      have : indexNonZero es < es.length := by simpa using h
      obtain ⟨d, h1, h2⟩ := ih this
      exact ⟨d, by simpa using h1, h2⟩

/-! ## the line case -/

/-- hypotheses shared by the two cases: the products are stored, the old rows satisfy `P`. -/
structure StepHyp (srcK : LRow) (st : CState) (P : List LRow) : Prop where
  hsp : ∀ d ∈ st.rows, d.sp = scalarProduct srcK.v d.row.v
  hP : ∀ d ∈ st.rows, ∀ s ∈ P, satisfies s d.row
  hl : ∀ m d, st.rows[m]? = some d → d.row.le = decide (m < st.nle)
  hn : st.nle ≤ st.rows.length

theorem linePivot_facts (srcK : LRow) (P : List LRow) (r : DRow) (hsp : r.sp = scalarProduct srcK.v r.row.v)
    (hnz : r.sp ≠ 0) (hle : r.row.le = true) (hP : ∀ s ∈ P, satisfies s r.row) :
    (linePivot r).row.le = false ∧ 0 < (linePivot r).sp ∧
    (linePivot r).sp = scalarProduct srcK.v (linePivot r).row.v ∧
    ∀ s ∈ P, scalarProduct s.v (linePivot r).row.v = 0 := by
  unfold linePivot
  by_cases h : r.sp < 0
  · rw [if_pos h]
    refine ⟨rfl, by show 0 < - r.sp; omega, ?_, ?_⟩
    · show - r.sp = scalarProduct srcK.v (r.row.v.map (- ·))
      rw [sp_neg, hsp]
    · intro s hs
      show scalarProduct s.v (r.row.v.map (- ·)) = 0
      rw [sp_neg, satisfies_line_zero s r.row (hP s hs) (Or.inr hle)]; rfl
  · rw [if_neg h]
    refine ⟨rfl, by show 0 < r.sp; omega, hsp, ?_⟩
    intro s hs
    exact satisfies_line_zero s r.row (hP s hs) (Or.inr hle)

/-- a record produced by combining an old record with the pivot is good. -/
theorem combRow_good (srcK : LRow) (P : List LRow) (p : DRow) (d0 : DRow)
    (hple : p.row.le = false) (hppos : 0 < p.sp) (hpsp : p.sp = scalarProduct srcK.v p.row.v)
    (hpP : ∀ s ∈ P, scalarProduct s.v p.row.v = 0)
    (hsp0 : d0.sp = scalarProduct srcK.v d0.row.v) (h0P : ∀ s ∈ P, satisfies s d0.row) :
    (combRow p.row p.sp d0.row d0.sp).le = d0.row.le ∧
    ∀ s ∈ P ++ [srcK], satisfies s (combRow p.row p.sp d0.row d0.sp) := by
  obtain ⟨g, c, nI, nO, hg, hgpos, hc, h1, h2, _, _, hle, hs⟩ :=
    sp_combineWithNle { row := p.row, sp := p.sp, sat := [] } { row := d0.row, sp := d0.sp, sat := [] } (by simpa using ne_of_gt hppos)
  simp only at h1 h2 hgpos
  have hle : (combRow p.row p.sp d0.row d0.sp).le = d0.row.le := hle
  have hs : ∀ s : Vec, nO * scalarProduct s d0.row.v - nI * scalarProduct s p.row.v
      = g * scalarProduct s (combRow p.row p.sp d0.row d0.sp).v := hs
  have hnO : 0 < nO := by
    by_contra hneg
    have : nO ≤ 0 := by omega
    have : c * nO ≤ 0 := Int.mul_nonpos_of_nonneg_of_nonpos (le_of_lt hc) this
    omega
  refine ⟨hle, ?_⟩
  intro s hsm
  rcases List.mem_append.mp hsm with hsP | hsK
  · -- a processed row: its product with the pivot is 0
    have e := hs s.v
    rw [hpP s hsP] at e
    have h0 := h0P s hsP
    unfold satisfies at h0 ⊢
    rw [hle]
    by_cases hc2 : (s.le || d0.row.le) = true
    · simp only [hc2, if_true] at h0 ⊢
      rw [h0] at e
      have : g * scalarProduct s.v (combRow p.row p.sp d0.row d0.sp).v = 0 := by
        linarith
      rcases Int.mul_eq_zero.mp this with h | h
      · exact absurd h hg
      · exact h
    · simp only [hc2, Bool.false_eq_true, if_false] at h0 ⊢
      have hdl : d0.row.le = false := by
        cases hd : d0.row.le <;> simp_all
      have hgp := hgpos hdl
      have e2 : g * scalarProduct s.v (combRow p.row p.sp d0.row d0.sp).v = nO * scalarProduct s.v d0.row.v := by
        linarith
      have : 0 ≤ nO * scalarProduct s.v d0.row.v := Int.mul_nonneg (le_of_lt hnO) h0
      by_contra hneg
      have h3 : scalarProduct s.v (combRow p.row p.sp d0.row d0.sp).v < 0 := by omega
      have : g * scalarProduct s.v (combRow p.row p.sp d0.row d0.sp).v < 0 := Int.mul_neg_of_pos_of_neg hgp h3
      omega
  · have hsK' : s = srcK := by simpa using hsK
    subst hsK'
    apply satisfies_of_zero
    have e := hs s.v
    have e1 : scalarProduct s.v d0.row.v = c * nI := by rw [← hsp0]; exact h1
    have e2 : scalarProduct s.v p.row.v = c * nO := by rw [← hpsp]; exact h2
    rw [e1, e2] at e
    have : g * scalarProduct s.v (combRow p.row p.sp d0.row d0.sp).v = 0 := by
      have : nO * (c * nI) - nI * (c * nO) = 0 := by ring
      linarith
    rcases Int.mul_eq_zero.mp this with h | h
    · exact absurd h hg
    · exact h

end PPLV.Conv
