import PPLV.Conv.ProofsCompleteEmb2
import PPLV.Conv.ProofsSimp4
import Mathlib.Algebra.BigOperators.Group.Finset.Basic
import Mathlib.Algebra.BigOperators.Ring.Finset
import Mathlib.Tactic.Ring
import Mathlib.Tactic.Linarith
/-!
# A linear form vanishing on the integer solutions of a reduced equality system

`reduced_kernel_zero`: for equality rows `E` in (upper) reduced form with pivot columns `J p`, a linear form
that is zero at every pivot column and vanishes on the integer solutions of `E` vanishes everywhere.
-/
namespace PPLV.Conv

/-- The function-level core: every `f` can be scaled by a positive `N` off the pivot columns and corrected at the
pivot columns so that the first `k` rows are solved. -/
theorem reduced_solve_fun (n m : Nat) (R : Nat → Nat → Int) (J : Nat → Nat)
    (hnz : ∀ p, p < m → R p (J p) ≠ 0)
    (hJ : ∀ p, p < m → J p < n)
    (hup : ∀ q p, q < p → p < m → R q (J p) = 0)
    (f : Nat → Int) :
    ∀ k, k ≤ m → ∃ N : Int, 0 < N ∧ ∃ f' : Nat → Int,
      (∀ i, (∀ q, q < k → i ≠ J q) → f' i = N * f i) ∧
      ∀ q, q < k → ∑ i ∈ Finset.range n, R q i * f' i = 0 := by
  intro k
  induction k with
  | zero =>
    intro _
    exact ⟨1, one_pos, f, fun i _ => by ring, fun q hq => absurd hq (Nat.not_lt_zero q)⟩
  | succ k ih =>
    intro hk
    obtain ⟨N, hN, f', hf', hsol⟩ := ih (by omega)
    have hkm : k < m := by omega
    set a := R k (J k) with ha
    have ha0 : a ≠ 0 := hnz k hkm
    set s := ∑ i ∈ (Finset.range n).erase (J k), R k i * f' i with hs
    refine ⟨a * a * N, mul_pos (mul_self_pos.mpr ha0) hN,
      Function.update (fun i => a * a * f' i) (J k) (-a * s), ?_, ?_⟩
    · intro i hi
      have hik : i ≠ J k := hi k (Nat.lt_succ_self k)
      rw [Function.update_of_ne hik]
      rw [hf' i (fun q hq => hi q (by omega))]
      ring
    · intro q hq
      rcases Nat.lt_succ_iff_lt_or_eq.mp hq with hq' | rfl
      · have hterm : ∀ i ∈ Finset.range n,
            R q i * Function.update (fun i => a * a * f' i) (J k) (-a * s) i
              = a * a * (R q i * f' i) := by
          intro i _
          by_cases hik : i = J k
          · subst hik
            rw [hup q k hq' hkm]; ring
          · rw [Function.update_of_ne hik]; ring
        rw [Finset.sum_congr rfl hterm, ← Finset.mul_sum, hsol q hq', mul_zero]
      · have hmem : J q ∈ Finset.range n := Finset.mem_range.mpr (hJ q hkm)
        rw [← Finset.add_sum_erase _ _ hmem]
        have hterm : ∀ i ∈ (Finset.range n).erase (J q),
            R q i * Function.update (fun i => a * a * f' i) (J q) (-a * s) i
              = a * a * (R q i * f' i) := by
          intro i hi
          have hik : i ≠ J q := (Finset.mem_erase.mp hi).1
          rw [Function.update_of_ne hik]; ring
        rw [Finset.sum_congr rfl hterm, ← Finset.mul_sum, Function.update_self, ← hs, ← ha]
        ring

theorem getD_map_range (n : Nat) (f : Nat → Int) (i : Nat) (hi : i < n) :
    ((List.range n).map f).getD i 0 = f i := by
  simp [List.getD_eq_getElem?_getD, hi]

/-- `E` = the equality rows of a system in (upper) reduced form with pivot columns `J p`: row `p` is non-zero at
`J p` and every row ABOVE it (`q < p`) is zero at `J p`.  A linear form `d` that is zero at every pivot column
and vanishes on the integer solutions of `E` vanishes everywhere. -/
theorem reduced_kernel_zero (ncols : Nat) (E : List Vec) (J : Nat → Nat)
    (hlen : ∀ e ∈ E, e.length ≤ ncols)
    (hnz : ∀ p, p < E.length → (E.getD p []).getD (J p) 0 ≠ 0)
    (hup : ∀ q p, q < p → p < E.length → (E.getD q []).getD (J p) 0 = 0)
    (d : Vec) (hd : ∀ p, p < E.length → d.getD (J p) 0 = 0)
    (hker : ∀ x : Vec, x.length ≤ ncols → (∀ e ∈ E, scalarProduct e x = 0) → scalarProduct d x = 0) :
    ∀ x : Vec, x.length ≤ ncols → scalarProduct d x = 0 := by
  intro x hx
  have hmemE : ∀ p, p < E.length → E.getD p [] ∈ E := by
    intro p hp
    have : E.getD p [] = E[p] := by simp [List.getD_eq_getElem?_getD, hp]
    rw [this]
    exact List.getElem_mem hp
  have hJ : ∀ p, p < E.length → J p < ncols := by
    intro p hp
    by_contra hge
    apply hnz p hp
    have hl := hlen _ (hmemE p hp)
    generalize E.getD p [] = e at hl ⊢
    have hnone : e[J p]? = none := List.getElem?_eq_none (by omega)
    rw [List.getD_eq_getElem?_getD, hnone]; rfl
  obtain ⟨N, hN, f', hf', hsol⟩ :=
    reduced_solve_fun ncols E.length (fun q i => (E.getD q []).getD i 0) J hnz hJ hup
      (fun i => x.getD i 0) E.length le_rfl
  have hxl : ((List.range ncols).map f').length ≤ ncols := by simp
  have hsp : ∀ c : Vec, scalarProduct c ((List.range ncols).map f')
      = ∑ i ∈ Finset.range ncols, c.getD i 0 * f' i := by
    intro c
    rw [sp_eq_sum ncols c _ hxl]
    refine Finset.sum_congr rfl fun i hi => ?_
    rw [getD_map_range ncols f' i (Finset.mem_range.mp hi)]
  have hE : ∀ e ∈ E, scalarProduct e ((List.range ncols).map f') = 0 := by
    intro e he
    obtain ⟨q, hq, rfl⟩ := List.mem_iff_getElem.mp he
    rw [hsp]
    have := hsol q hq
    have hq' : E.getD q [] = E[q] := by simp [List.getD_eq_getElem?_getD, hq]
    simp only [hq'] at this
    exact this
  have h0 := hker _ hxl hE
  rw [hsp] at h0
  have hterm : ∀ i ∈ Finset.range ncols, d.getD i 0 * f' i = N * (d.getD i 0 * x.getD i 0) := by
    intro i _
    by_cases hp : ∃ q, q < E.length ∧ i = J q
    · obtain ⟨q, hq, rfl⟩ := hp
      rw [hd q hq]; ring
    · have := hf' i (fun q hq hi => hp ⟨q, hq, hi⟩)
      rw [this]; ring
  rw [Finset.sum_congr rfl hterm, ← Finset.mul_sum] at h0
  rw [sp_eq_sum ncols d x hx]
  rcases mul_eq_zero.mp h0 with h | h
  · exact absurd h (ne_of_gt hN)
  · exact h

end PPLV.Conv
