import PPLV.Conv.ProofsCompleteLine1
import PPLV.Conv.ProofsCompleteEmb2
import PPLV.Conv.ProofsCompleteAbs5
/-!
# C01 stage 4 — the line case of `conversion`: `inU`, `rank`, and the hypotheses of `Abs.line_step_complete`
-/
namespace PPLV.Conv
open PPLV.Conv.Abs

theorem mem_linesOf_gens {st : CState} {l : FV} (h : l ∈ linesOf st.gens) :
    ∃ (m : Nat) (d : DRow), st.rows[m]? = some d ∧ d.row.le = true ∧ l = emb d.row.v := by
  obtain ⟨r, hr, hle, rfl⟩ := h
  obtain ⟨d, hd, rfl⟩ := List.mem_map.mp hr
  obtain ⟨m, hm⟩ := List.mem_iff_getElem?.mp hd
  exact ⟨m, d, hm, hle, rfl⟩

theorem mem_raysOf_gens {st : CState} {l : FV} (h : l ∈ raysOf st.gens) :
    ∃ (m : Nat) (d : DRow), st.rows[m]? = some d ∧ d.row.le = false ∧ l = emb d.row.v := by
  obtain ⟨r, hr, hle, rfl⟩ := h
  obtain ⟨d, hd, rfl⟩ := List.mem_map.mp hr
  obtain ⟨m, hm⟩ := List.mem_iff_getElem?.mp hd
  exact ⟨m, d, hm, hle, rfl⟩

theorem linesOf_gens_of_mem {st : CState} {d : DRow} (hd : d ∈ st.rows) (hle : d.row.le = true) :
    emb d.row.v ∈ linesOf st.gens :=
  ⟨d.row, List.mem_map.mpr ⟨d, hd, rfl⟩, hle, rfl⟩

theorem raysOf_gens_of_mem {st : CState} {d : DRow} (hd : d ∈ st.rows) (hle : d.row.le = false) :
    emb d.row.v ∈ raysOf st.gens :=
  ⟨d.row, List.mem_map.mpr ⟨d, hd, rfl⟩, hle, rfl⟩

/-- hypothesis `hline` of `Abs.line_step_complete` (and, dropping the last component, of `line_step_rank`). -/
theorem lineCase_hline (srcK : LRow) (kept : List LRow) (st : CState) (inz : Nat) (H : StepHyp srcK st kept)
    (hinz : inz < st.nle) (hbefore : ∀ m d, m < inz → st.rows[m]? = some d → d.sp = 0)
    (r : DRow) (hr : st.rows[inz]? = some r) (hrnz : r.sp ≠ 0) :
    ∀ l ∈ linesOf st.gens, l ≠ emb r.row.v →
      ∃ l' ∈ linesOf (lineCase srcK kept.length st inz).gens, ∃ s t : ℚ, s ≠ 0 ∧
        l' = s • l + t • emb r.row.v ∧ (conOf srcK).f l' = 0 := by
  intro l hl hne
  obtain ⟨m0, d0, hd0, hle0, rfl⟩ := mem_linesOf_gens hl
  have hm0 : m0 ≠ inz := by
    intro e
    rw [e, hr] at hd0
    have := Option.some.inj hd0
    subst this
    exact hne rfl
  obtain ⟨d', hd', hle', hsp', s, t, hs, _, hemb⟩ :=
    lineCase_image srcK kept st inz H hinz hbefore r hr hrnz m0 d0 hm0 hd0
  refine ⟨emb d'.row.v, linesOf_gens_of_mem hd' (by rw [hle', hle0]), s, t, hs, hemb, ?_⟩
  rw [conOf_f_emb, hsp']; simp

/-- hypothesis `hray` of `Abs.line_step_complete`. -/
theorem lineCase_hray (srcK : LRow) (kept : List LRow) (st : CState) (inz : Nat) (H : StepHyp srcK st kept)
    (hinz : inz < st.nle) (hbefore : ∀ m d, m < inz → st.rows[m]? = some d → d.sp = 0)
    (r : DRow) (hr : st.rows[inz]? = some r) (hrnz : r.sp ≠ 0) :
    ∀ x ∈ raysOf st.gens,
      ∃ x' ∈ raysOf (lineCase srcK kept.length st inz).gens, ∃ s t : ℚ, 0 < s ∧
        x' = s • x + t • emb r.row.v ∧ (conOf srcK).f x' = 0 := by
  intro l hl
  obtain ⟨m0, d0, hd0, hle0, rfl⟩ := mem_raysOf_gens hl
  have hm0 : m0 ≠ inz := by
    intro e
    rw [e, hr] at hd0
    have := Option.some.inj hd0
    subst this
    have := H.hl inz r hr
    rw [hle0] at this
    simp [hinz] at this
  obtain ⟨d', hd', hle', hsp', s, t, _, hs, hemb⟩ :=
    lineCase_image srcK kept st inz H hinz hbefore r hr hrnz m0 d0 hm0 hd0
  refine ⟨emb d'.row.v, raysOf_gens_of_mem hd' (by rw [hle', hle0]), s, t, hs hle0, hemb, ?_⟩
  rw [conOf_f_emb, hsp']; simp

/-- hypothesis `hpiv` of `Abs.line_step_complete`. -/
theorem lineCase_hpiv (srcK : LRow) (kept : List LRow) (st : CState) (inz : Nat) (H : StepHyp srcK st kept)
    (hinz : inz < st.nle) (r : DRow) (hr : st.rows[inz]? = some r) (hrnz : r.sp ≠ 0) :
    (conOf srcK).eq = false →
      ∃ r₀ ∈ raysOf (lineCase srcK kept.length st inz).gens, ∃ s : ℚ, r₀ = s • emb r.row.v ∧
        0 < (conOf srcK).f r₀ := by
  intro hk
  rw [conOf_eq] at hk
  obtain ⟨pr, hpr, hle, ⟨e, he⟩, hpos⟩ := lineCase_pivot srcK kept st inz H hinz r hr hrnz hk
  refine ⟨emb pr.row.v, raysOf_gens_of_mem hpr hle, e, he, ?_⟩
  rw [conOf_f_emb]
  exact_mod_cast hpos

/-- field `inU` of `CExtra` after the line case. -/
theorem lineCase_extra_inU (ncols : Nat) (srcK : LRow) (kept : List LRow) (st : CState) (inz : Nat)
    (H : StepHyp srcK st kept) (hinz : inz < st.nle)
    (hnz : ∃ r, st.rows[inz]? = some r ∧ r.sp ≠ 0) (X : CExtra ncols kept st) :
    ∀ d ∈ (lineCase srcK kept.length st inz).rows, emb d.row.v ∈ ambient ncols := by
  obtain ⟨r, hr, hrnz⟩ := hnz
  have hrmem := memC hr
  have hrle : r.row.le = true := by
    have := H.hl inz r hr
    simpa [hinz] using this
  obtain ⟨_, ppos, _, _⟩ := linePivot_facts srcK kept r (H.hsp r hrmem) hrnz hrle (H.hP r hrmem)
  obtain ⟨e, _, he⟩ := linePivot_emb r
  have hp : emb (linePivot r).row.v ∈ ambient ncols := by
    rw [he]; exact Submodule.smul_mem _ _ (X.inU r hrmem)
  intro d hd
  rcases lineCase_row_cases srcK kept.length st inz hinz H.hn r hr d hd with h | ⟨d0, hd0, h | h⟩
  · rw [h]; exact hp
  · rw [h]; exact X.inU d0 hd0
  · obtain ⟨_, s, t, _, _, hemb⟩ := combRow_emb (linePivot r) d0 ppos
    rw [h, hemb]
    exact Submodule.add_mem _ (Submodule.smul_mem _ _ (X.inU d0 hd0)) (Submodule.smul_mem _ _ hp)

/-- field `rank` of `CExtra` after the line case. -/
theorem lineCase_extra_rank (ncols : Nat) (srcK : LRow) (kept : List LRow) (st : CState) (inz : Nat)
    (H : StepHyp srcK st kept) (hinz : inz < st.nle)
    (hbefore : ∀ m d, m < inz → st.rows[m]? = some d → d.sp = 0)
    (hnz : ∃ r, st.rows[inz]? = some r ∧ r.sp ≠ 0) (X : CExtra ncols kept st) :
    (lineCase srcK kept.length st inz).nle ≤
      Module.finrank ℚ (Submodule.span ℚ (linesOf (lineCase srcK kept.length st inz).gens)) := by
  obtain ⟨r, hr, hrnz⟩ := hnz
  have hnle : (lineCase srcK kept.length st inz).nle = st.nle - 1 := by
    rw [lineCase_eq]; split <;> rfl
  rw [hnle]
  refine line_step_rank (linesOf st.gens) _ (linesOf_finite _) (emb r.row.v) st.nle X.rank ?_ (linesOf_finite _)
  intro l hl hne
  obtain ⟨l', hl', s, t, hs, he, _⟩ := lineCase_hline srcK kept st inz H hinz hbefore r hr hrnz l hl hne
  exact ⟨l', hl', s, t, hs, he⟩

end PPLV.Conv
