import PPLV.Conv.ProofsRow
import PPLV.Conv.ProofsSimp1
/-!
# C01 stage 3 — `simplify`: `rowLinearCombine` keeps the solution set; index form of `holdsAll`;
`swapRowOnly`; rows rewritten by `mapIdx`
-/
namespace PPLV.Conv

theorem sp_comm : ∀ (a b : Vec), scalarProduct a b = scalarProduct b a
  | [], b => by rw [sp_nil_left, sp_nil_right]
  | _ :: _, [] => by simp [scalarProduct]
  | a :: as, b :: bs => by simp only [scalarProduct, sp_comm as bs]; ring

theorem rowLinearCombine_eq (r y : LRow) (j : Nat) :
    rowLinearCombine r y j = strongNormalize { r with v :=
      (linearCombine (normalize2 (r.v.getD j 0) (y.v.getD j 0)).2 (-(normalize2 (r.v.getD j 0) (y.v.getD j 0)).1)
        r.v y.v) } := rfl

theorem rowLinearCombine_le (r y : LRow) (j : Nat) : (rowLinearCombine r y j).le = r.le := rfl

/-- on the hyperplane of the pivot row `y` the combined row is `r` up to the factors `ny`, `g`. -/
theorem rowLinearCombine_sp (r y : LRow) (j : Nat) :
    ∃ g : Int, g ≠ 0 ∧ (r.le = false → 0 < g) ∧ ∀ x, scalarProduct y.v x = 0 →
      (normalize2 (r.v.getD j 0) (y.v.getD j 0)).2 * scalarProduct r.v x
        = g * scalarProduct (rowLinearCombine r y j).v x := by
  rw [rowLinearCombine_eq]
  generalize (normalize2 (r.v.getD j 0) (y.v.getD j 0)).2 = ny
  generalize (normalize2 (r.v.getD j 0) (y.v.getD j 0)).1 = nx
  have key : ∀ x, scalarProduct y.v x = 0 →
      scalarProduct x (linearCombine ny (-nx) r.v y.v) = ny * scalarProduct r.v x := by
    intro x hx
    rw [sp_linearCombine, sp_comm x y.v, hx, sp_comm x r.v]; ring
  by_cases hle : r.le = true
  · obtain ⟨g, hg, hs⟩ := sp_strongNormalize { r with v := linearCombine ny (-nx) r.v y.v }
    refine ⟨g, hg, (fun h => by rw [hle] at h; cases h), fun x hx => ?_⟩
    rw [sp_comm (strongNormalize _).v x, ← hs x]
    exact (key x hx).symm
  · have hf : r.le = false := by simpa using hle
    obtain ⟨g, hg, hs⟩ := sp_strongNormalize_ray { r with v := linearCombine ny (-nx) r.v y.v } hf
    refine ⟨g, ne_of_gt hg, fun _ => hg, fun x hx => ?_⟩
    rw [sp_comm (strongNormalize _).v x, ← hs x]
    exact (key x hx).symm

theorem normalize2_snd_nonneg (a b : Int) (h : 0 ≤ b) : 0 ≤ (normalize2 a b).2 := by
  simp only [normalize2]
  exact Int.ediv_nonneg h (Int.natCast_nonneg _)

theorem normalize2_snd_ne (a b : Int) (h : b ≠ 0) : (normalize2 a b).2 ≠ 0 := by
  obtain ⟨g, _, _, h2⟩ := normalize2_spec a b (Or.inr h)
  intro e; rw [e] at h2; simp at h2; exact h h2

theorem normalize2_snd_pos (a b : Int) (h : 0 < b) : 0 < (normalize2 a b).2 :=
  lt_of_le_of_ne (normalize2_snd_nonneg a b (le_of_lt h)) (Ne.symm (normalize2_snd_ne a b (ne_of_gt h)))

/-- the solution set is kept (one direction needs no pivot hypothesis). -/
theorem rowLinearCombine_holds_of (r y : LRow) (j : Nat) (x : Vec) (hy : scalarProduct y.v x = 0)
    (hpos : r.le = false → 0 ≤ y.v.getD j 0) (h : holds r x) : holds (rowLinearCombine r y j) x := by
  obtain ⟨g, hg, hgp, hs⟩ := rowLinearCombine_sp r y j
  have e := hs x hy
  unfold holds at h ⊢
  rw [rowLinearCombine_le]
  by_cases hle : r.le = true
  · simp only [hle, if_true] at h ⊢
    rw [h, mul_zero] at e
    rcases mul_eq_zero.1 e.symm with h1 | h1
    · exact absurd h1 hg
    · exact h1
  · have hf : r.le = false := by simpa using hle
    simp only [hf] at h ⊢
    have h1 : 0 ≤ g * scalarProduct (rowLinearCombine r y j).v x := by
      rw [← e]; exact mul_nonneg (normalize2_snd_nonneg _ _ (hpos hf)) h
    exact (mul_nonneg_iff_of_pos_left (hgp hf)).1 h1

/-- `y` an equality that holds at `x`, pivot `y_j ≠ 0` (positive if `r` is an inequality). -/
theorem rowLinearCombine_holds (r y : LRow) (j : Nat) (x : Vec) (hy : scalarProduct y.v x = 0)
    (hp : y.v.getD j 0 ≠ 0) (hpos : r.le = false → 0 < y.v.getD j 0) :
    holds (rowLinearCombine r y j) x ↔ holds r x := by
  refine ⟨fun h => ?_, rowLinearCombine_holds_of r y j x hy (fun hf => le_of_lt (hpos hf))⟩
  obtain ⟨g, hg, hgp, hs⟩ := rowLinearCombine_sp r y j
  have e := hs x hy
  unfold holds at h ⊢
  rw [rowLinearCombine_le] at h
  by_cases hle : r.le = true
  · simp only [hle, if_true] at h ⊢
    rw [h, mul_zero] at e
    rcases mul_eq_zero.1 e with h1 | h1
    · exact absurd h1 (normalize2_snd_ne _ _ hp)
    · exact h1
  · have hf : r.le = false := by simpa using hle
    simp only [hf] at h ⊢
    have h1 : 0 ≤ (normalize2 (r.v.getD j 0) (y.v.getD j 0)).2 * scalarProduct r.v x := by
      rw [e]; exact mul_nonneg (le_of_lt (hgp hf)) h
    exact (mul_nonneg_iff_of_pos_left (normalize2_snd_pos _ _ (hpos hf))).1 h1

/-! ## `holdsAll` by index -/

def HoldsIdx (rows : List SRow) (x : Vec) : Prop :=
  ∀ m, m < rows.length → holds (rows.getD m default).row x

theorem holdsAll_iff_idx (rows : List SRow) (x : Vec) :
    holdsAll (rows.map (·.row)) x ↔ HoldsIdx rows x := by
  unfold holdsAll HoldsIdx
  constructor
  · intro h m hm
    apply h
    rw [List.mem_map]
    refine ⟨rows.getD m default, ?_, rfl⟩
    rw [List.mem_iff_getElem?]
    exact ⟨m, getElem?_of_lt_getD rows m default hm⟩
  · intro h r hr
    rw [List.mem_map] at hr
    obtain ⟨s, hs, rfl⟩ := hr
    obtain ⟨m, hm, rfl⟩ := List.mem_iff_getElem.1 hs
    have := h m hm
    rw [getD_of_getElem? rows m rows[m] default (List.getElem?_eq_getElem hm)] at this
    exact this

/-! ## `swapRowOnly` -/

theorem length_swapRowOnly (l : List SRow) (i j : Nat) : (swapRowOnly l i j).length = l.length := by
  unfold swapRowOnly
  split <;> simp

theorem getElem?_swapRowOnly (l : List SRow) (i j m : Nat) (hi : i < l.length) (hj : j < l.length) :
    (swapRowOnly l i j)[m]? =
      if m = j then some { l[i] with sat := l[j].sat }
      else if m = i then some { l[j] with sat := l[i].sat } else l[m]? := by
  unfold swapRowOnly
  rw [List.getElem?_eq_getElem hi, List.getElem?_eq_getElem hj]
  simp only [List.getElem?_set, List.length_set]
  by_cases h1 : m = j
  · subst h1; simp [hj]
  · by_cases h2 : m = i
    · subst h2; simp [h1, hi, Ne.symm h1]
    · simp [h1, h2, Ne.symm h1, Ne.symm h2]

theorem getD_row_swapRowOnly (l : List SRow) (i j m : Nat) (hi : i < l.length) (hj : j < l.length) :
    ((swapRowOnly l i j).getD m default).row =
      if m = j then (l.getD i default).row else if m = i then (l.getD j default).row
      else (l.getD m default).row := by
  simp only [List.getD_eq_getElem?_getD, getElem?_swapRowOnly l i j m hi hj,
    List.getElem?_eq_getElem hi, List.getElem?_eq_getElem hj]
  split
  · rfl
  · split <;> rfl

theorem getD_swapRowOnly_of_ne (l : List SRow) (i j m : Nat) (hi : i < l.length) (hj : j < l.length)
    (h1 : m ≠ i) (h2 : m ≠ j) : (swapRowOnly l i j).getD m default = l.getD m default := by
  simp only [List.getD_eq_getElem?_getD, getElem?_swapRowOnly l i j m hi hj, h1, h2, if_false]

theorem holdsIdx_swapRowOnly (l : List SRow) (i j : Nat) (hi : i < l.length) (hj : j < l.length) (x : Vec) :
    HoldsIdx (swapRowOnly l i j) x ↔ HoldsIdx l x := by
  unfold HoldsIdx
  rw [length_swapRowOnly]
  constructor
  · intro h m hm
    by_cases h1 : m = i
    · subst h1
      have := h j hj
      rw [getD_row_swapRowOnly l m j j hi hj] at this
      simpa using this
    · by_cases h2 : m = j
      · subst h2
        have := h i hi
        rw [getD_row_swapRowOnly l i m i hi hj] at this
        by_cases e : i = m
        · subst e; simpa using this
        · simpa [e] using this
      · have := h m hm
        rw [getD_row_swapRowOnly l i j m hi hj] at this
        simpa [h1, h2] using this
  · intro h m hm
    rw [getD_row_swapRowOnly l i j m hi hj]
    split
    · exact h i hi
    · split
      · exact h j hj
      · exact h m hm

/-! ## `mapIdx` -/

theorem getD_mapIdx (l : List SRow) (f : Nat → SRow → SRow) (m : Nat) (hm : m < l.length) :
    (l.mapIdx f).getD m default = f m (l.getD m default) := by
  simp [List.getD_eq_getElem?_getD, List.getElem?_mapIdx, List.getElem?_eq_getElem hm]

end PPLV.Conv
