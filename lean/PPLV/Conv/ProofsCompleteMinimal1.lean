import PPLV.Conv.ProofsCompleteSimp3
/-!
# C01 stage 4 — no redundant inequality remains after `simplify`: the argument on lists

`irredundant_of_independent`: a list of records `F` whose first `n` rows are equalities, every row
satisfied by every generator (a), every row from `n` on an inequality with a NON-EMPTY saturation row
that is EXACT against `gens` (b), and no saturation row from `n` on a subset of (or equal to) another (c):
for every `i ≥ n` some integer vector of length `≤ ncols` satisfies every row but `F[i]`.

The witness is explicit: `z` := the sum of the generators saturating `F[i]`, `g₀` a generator with
`⟨F[i], g₀⟩ > 0`, `N := 1 + Σ_m |⟨F[m], g₀⟩|`, `x := N•z − g₀`.
-/
namespace PPLV.Conv

/-- the sum of the rows of a generator list. -/
def vsumOf (gs : List LRow) : Vec := gs.foldr (fun g acc => linearCombine 1 1 g.v acc) []

theorem vsumOf_cons (g : LRow) (gs : List LRow) : vsumOf (g :: gs) = linearCombine 1 1 g.v (vsumOf gs) := rfl

theorem sp_vsumOf_cons (c : Vec) (g : LRow) (gs : List LRow) :
    scalarProduct c (vsumOf (g :: gs)) = scalarProduct c g.v + scalarProduct c (vsumOf gs) := by
  rw [vsumOf_cons, sp_linearCombine]; ring

theorem length_vsumOf (ncols : Nat) : ∀ (gs : List LRow), (∀ g ∈ gs, g.v.length ≤ ncols) →
    (vsumOf gs).length ≤ ncols
  | [], _ => Nat.zero_le _
  | g :: gs, h => by
    rw [vsumOf_cons, length_linearCombine]
    have h1 := h g List.mem_cons_self
    have h2 := length_vsumOf ncols gs (fun g' hg' => h g' (List.mem_cons_of_mem _ hg'))
    omega

theorem sp_vsumOf_zero (c : Vec) : ∀ (gs : List LRow), (∀ g ∈ gs, scalarProduct c g.v = 0) →
    scalarProduct c (vsumOf gs) = 0
  | [], _ => sp_nil_right c
  | g :: gs, h => by
    rw [sp_vsumOf_cons, h g List.mem_cons_self,
      sp_vsumOf_zero c gs (fun g' hg' => h g' (List.mem_cons_of_mem _ hg'))]
    rfl

theorem sp_vsumOf_nonneg (c : Vec) : ∀ (gs : List LRow), (∀ g ∈ gs, 0 ≤ scalarProduct c g.v) →
    0 ≤ scalarProduct c (vsumOf gs)
  | [], _ => by rw [show vsumOf [] = [] from rfl, sp_nil_right]
  | g :: gs, h => by
    rw [sp_vsumOf_cons]
    have h1 := h g List.mem_cons_self
    have h2 := sp_vsumOf_nonneg c gs (fun g' hg' => h g' (List.mem_cons_of_mem _ hg'))
    omega

/-- all terms `≥ 0`, one `≥ 1`. -/
theorem sp_vsumOf_pos (c : Vec) : ∀ (gs : List LRow), (∀ g ∈ gs, 0 ≤ scalarProduct c g.v) →
    (∃ g ∈ gs, 0 < scalarProduct c g.v) → 1 ≤ scalarProduct c (vsumOf gs)
  | [], _, h => by obtain ⟨g, hg, _⟩ := h; cases hg
  | g :: gs, h, hex => by
    rw [sp_vsumOf_cons]
    have h1 := h g List.mem_cons_self
    have hrest : ∀ g' ∈ gs, 0 ≤ scalarProduct c g'.v := fun g' hg' => h g' (List.mem_cons_of_mem _ hg')
    have h2 := sp_vsumOf_nonneg c gs hrest
    obtain ⟨g0, hg0, hpos⟩ := hex
    rcases List.mem_cons.1 hg0 with e | e
    · subst e; omega
    · have := sp_vsumOf_pos c gs hrest ⟨g0, e, hpos⟩
      omega

/-- `Σ_m |⟨F[m], y⟩|`. -/
def absSum (F : List SRow) (y : Vec) : Nat := (F.map fun s => (scalarProduct s.row.v y).natAbs).sum

theorem le_absSum (y : Vec) : ∀ (F : List SRow) (s : SRow), s ∈ F →
    (scalarProduct s.row.v y).natAbs ≤ absSum F y
  | [], _, h => by cases h
  | t :: F, s, h => by
    unfold absSum
    rw [List.map_cons, List.sum_cons]
    rcases List.mem_cons.1 h with e | e
    · subst e; omega
    · have := le_absSum y F s e
      unfold absSum at this
      omega

theorem satisfies_eq_zero (s g : LRow) (hle : s.le = true) (h : satisfies s g) : scalarProduct s.v g.v = 0 := by
  unfold satisfies at h
  rwa [hle, Bool.true_or, if_pos rfl] at h

/-- a bit set in an exact saturation row of a row the generators satisfy: a generator on the positive side. -/
theorem pos_of_bit {gens : List LRow} {r : SRow} (hex : ExactBits gens r)
    (hs : ∀ g ∈ gens, satisfies r.row g) (j : Nat) (hb : bit r.sat j = true) :
    ∃ hj : j < gens.length, 0 < scalarProduct r.row.v gens[j].v := by
  have hj := hex.lt_of_bit j hb
  refine ⟨hj, ?_⟩
  have hne : scalarProduct r.row.v gens[j].v ≠ 0 := by
    intro h0
    rw [(hex.bit_iff j hj).2 h0] at hb; cases hb
  have := satisfies_nonneg r.row gens[j] (hs _ (List.getElem_mem hj))
  omega

/-- `sat[y] ⊄ sat[d]`: a bit of `y` that `d` does not have. -/
theorem bit_of_not_subset (y d : BRow) (h : subsetOrEqual y d = false) :
    ∃ j, bit y j = true ∧ bit d j = false := by
  by_contra hc
  have : subsetOrEqual y d = true := by
    rw [subsetOrEqual_iff]
    intro j hj
    cases hd : bit d j
    · exact absurd ⟨j, hj, hd⟩ hc
    · rfl
  rw [this] at h; cases h

/-- **irredundancy from independent, exact, non-empty saturation rows.** -/
theorem irredundant_of_independent (ncols : Nat) (gens : List LRow) (n : Nat) (F : List SRow)
    (hglen : ∀ g ∈ gens, g.v.length ≤ ncols)
    (hsound : ∀ m, m < F.length → ∀ g ∈ gens, satisfies (F.getD m default).row g)
    (heq : ∀ m, m < n → (F.getD m default).row.le = true)
    (hineq : ∀ m, n ≤ m → m < F.length → (F.getD m default).row.le = false ∧
      bitsEmpty (F.getD m default).sat = false ∧ ExactBits gens (F.getD m default))
    (hindep : ∀ i k, n ≤ i → i < F.length → n ≤ k → k < F.length → k ≠ i →
      subsetOrEqual (F.getD k default).sat (F.getD i default).sat = false) :
    ∀ i, n ≤ i → i < F.length → ∃ x : Vec, x.length ≤ ncols ∧
      (∀ m, m < F.length → m ≠ i → holds (F.getD m default).row x) ∧
      ¬ holds (F.getD i default).row x := by
  intro i hni hil
  obtain ⟨hdle, hdne, hdex⟩ := hineq i hni hil
  generalize hd : F.getD i default = d at hdle hdne hdex
  -- a generator strictly inside `d`
  obtain ⟨j0, hb0⟩ := (bitsEmpty_false_iff _).1 hdne
  obtain ⟨hj0, hpos0⟩ := pos_of_bit hdex (by rw [← hd]; exact hsound i hil) j0 hb0
  generalize hg0 : gens[j0] = g0 at hpos0
  have hg0m : g0 ∈ gens := by rw [← hg0]; exact List.getElem_mem hj0
  -- the generators saturating `d`
  let zs := gens.filter (fun g => decide (scalarProduct d.row.v g.v = 0))
  have hzs : ∀ g ∈ zs, g ∈ gens ∧ scalarProduct d.row.v g.v = 0 := by
    intro g hg
    obtain ⟨h1, h2⟩ := List.mem_filter.1 hg
    exact ⟨h1, by simpa using h2⟩
  let z := vsumOf zs
  let N : Int := 1 + (absSum F g0.v : Nat)
  refine ⟨linearCombine N (-1) z g0.v, ?_, fun m hml hmi => ?_, ?_⟩
  · rw [length_linearCombine]
    have h1 := length_vsumOf ncols zs (fun g hg => hglen g (hzs g hg).1)
    have h2 := hglen g0 hg0m
    show max (vsumOf zs).length g0.v.length ≤ ncols
    omega
  · unfold holds
    rw [sp_linearCombine]
    by_cases hmn : m < n
    · have hle := heq m hmn
      rw [if_pos hle]
      have hz : scalarProduct (F.getD m default).row.v z = 0 :=
        sp_vsumOf_zero _ zs (fun g hg => satisfies_eq_zero _ g hle (hsound m hml g (hzs g hg).1))
      rw [hz, satisfies_eq_zero _ g0 hle (hsound m hml g0 hg0m)]
      rfl
    · obtain ⟨hyle, _, hyex⟩ := hineq m (by omega) hml
      rw [hyle]
      simp only [Bool.false_eq_true, if_false]
      -- a generator saturating `d` and not `F[m]`
      have hsub := hindep i m hni hil (by omega) hml hmi
      rw [hd] at hsub
      obtain ⟨j, hby, hbd⟩ := bit_of_not_subset _ _ hsub
      obtain ⟨hj, hposy⟩ := pos_of_bit hyex (hsound m hml) j hby
      have hdz : scalarProduct d.row.v gens[j].v = 0 := (hdex.bit_iff j hj).1 hbd
      have hmem : gens[j] ∈ zs := List.mem_filter.2 ⟨List.getElem_mem hj, by simpa using hdz⟩
      have hz : 1 ≤ scalarProduct (F.getD m default).row.v z :=
        sp_vsumOf_pos _ zs (fun g hg => satisfies_nonneg _ g (hsound m hml g (hzs g hg).1))
          ⟨gens[j], hmem, hposy⟩
      have hab := le_absSum g0.v F (F.getD m default) (getD_mem F m hml)
      have hN : (scalarProduct (F.getD m default).row.v g0.v) + 1 ≤ N := by
        show _ ≤ 1 + ((absSum F g0.v : Nat) : Int)
        omega
      have hN0 : 0 ≤ N := by
        show 0 ≤ 1 + ((absSum F g0.v : Nat) : Int)
        omega
      have hmul : N * 1 ≤ N * scalarProduct (F.getD m default).row.v z :=
        Int.mul_le_mul_of_nonneg_left hz hN0
      omega
  · unfold holds
    rw [sp_linearCombine, hdle]
    simp only [Bool.false_eq_true, if_false]
    have hz : scalarProduct d.row.v z = 0 := sp_vsumOf_zero _ zs (fun g hg => (hzs g hg).2)
    rw [hz]
    omega

end PPLV.Conv
