import PPLV.Conv.ProofsCompleteSimp8
/-!
# C01 stage 4 — no redundant inequality remains after `simplify`: the phases up to the independence rule

`MinInv gens nle rows` is `PhaseInv` WITHOUT completeness (so neither `hcomp`, nor `hrank`, nor `hsz` is
needed here): the first `nle` rows are equalities, every row from `nle` on is an inequality with a non-empty
saturation row that is exact against `gens`, and every generator satisfies every row.  It is carried from
the input of `simplify` to `simpT`, the list handed to `back_substitute`; with `indepLoop_independent` this
gives the facts (a), (b), (c) at `simpT`.
-/
namespace PPLV.Conv

/-- `PhaseInv` without completeness. -/
structure MinInv (gens : List LRow) (nle : Nat) (rows : List SRow) : Prop where
  ginv : GInv nle rows
  ineq : ∀ r ∈ rows.drop nle, r.row.le = false ∧ bitsEmpty r.sat = false ∧ ExactBits gens r
  sound : Sound (rows.map (·.row)) gens

/-- a phase that only removes rows from `nle` on, keeps the first `nle` rows. -/
theorem MinInv.of_sub {gens : List LRow} {nle : Nat} {rows out : List SRow} (hI : MinInv gens nle rows)
    (hg : GInv nle out) (hdrop : ∀ r ∈ out.drop nle, r ∈ rows.drop nle) (hmem : ∀ r ∈ out, r ∈ rows) :
    MinInv gens nle out := by
  refine ⟨hg, fun r hr => hI.ineq r (hdrop r hr), ?_⟩
  intro g hgm s hs
  obtain ⟨s', hs', rfl⟩ := List.mem_map.1 hs
  exact hI.sound g hgm s'.row (List.mem_map.2 ⟨s', hmem s' hs', rfl⟩)

/-- after the detection of the implicit equalities. -/
theorem simpE_minInv (gens : List LRow) (sys : List SRow) (h : ∀ r ∈ sys, RowOK gens r) :
    MinInv gens (simpE sys).2 (simpE sys).1 := by
  obtain ⟨_, eI, eOK, eNE⟩ := simpE_facts gens sys h
  refine ⟨eI, fun r hr => ?_, sound_of_rowOK gens _ eOK⟩
  obtain ⟨m, hm, hrm⟩ := (mem_drop_iff_getElem? _ _ _).1 hr
  have hml : m < (simpE sys).1.length := (List.getElem?_eq_some_iff.1 hrm).1
  have hne := eNE m hm hml
  rw [getD_of_getElem? _ m r default hrm] at hne
  have hok := eOK r (List.mem_of_mem_drop hr)
  refine ⟨?_, hne, hok.1⟩
  cases hle : r.row.le
  · rfl
  · rw [hok.empty_of_le hle] at hne; cases hne

/-- `gauss` keeps `MinInv`. -/
theorem gauss_minInv (ncols : Nat) (gens : List LRow) (nle : Nat) (rows : List SRow)
    (hI : MinInv gens nle rows) : MinInv gens nle (gauss ncols nle rows).1 := by
  obtain ⟨gl, gI, gU, _⟩ := gauss_keeps ncols nle rows hI.ginv.2 hI.ginv.1
  have hdrop : ∀ r ∈ (gauss ncols nle rows).1.drop nle, r ∈ rows.drop nle :=
    fun r hr => mem_drop_of_getD_eq _ rows nle gl gU r hr
  refine ⟨gI, fun r hr => hI.ineq r (hdrop r hr), ?_⟩
  intro g hg s hs
  obtain ⟨s', hs', rfl⟩ := List.mem_map.1 hs
  rcases mem_take_or_drop _ nle s' hs' with h1 | h1
  · have hle := gI.le_of_mem_take s' h1
    have hall : holdsAll (rows.map (·.row)) g.v := fun r hr => satisfies_holds r g (hI.sound g hg r hr)
    have hall' := (gauss_same_set ncols nle rows hI.ginv.2 hI.ginv.1 g.v).2 hall
    have := hall' s'.row (List.mem_map.2 ⟨s', hs', rfl⟩)
    unfold holds at this
    rw [if_pos hle] at this
    unfold satisfies
    rw [hle, Bool.true_or, if_pos rfl]
    exact this
  · exact hI.sound g hg s'.row (List.mem_map.2 ⟨s', List.mem_of_mem_drop (hdrop s' h1), rfl⟩)

/-- the removal of the redundant equalities keeps `MinInv`. -/
theorem dropPhase_minInv (gens : List LRow) (nle rank : Nat) (rows : List SRow) (hI : MinInv gens nle rows) :
    MinInv gens (dropPhase nle rows.length rows rank).2 (dropPhase nle rows.length rows rank).1 := by
  obtain ⟨a1, _⟩ := dropPhase_analysis nle rank rows hI.ginv.1
  obtain ⟨pI, pM⟩ := dropPhase_spec nle rows.length rows rank hI.ginv rfl
  refine ⟨pI, fun r hr => hI.ineq r (a1 r hr), ?_⟩
  intro g hg s hs
  obtain ⟨s', hs', rfl⟩ := List.mem_map.1 hs
  exact hI.sound g hg s'.row (List.mem_map.2 ⟨s', pM s' hs', rfl⟩)

/-- the saturation rule keeps `MinInv` (whatever the threshold). -/
theorem satRuleLoop_minInv (gens : List LRow) (nle : Nat) (rows : List SRow) (fuel a b : Nat)
    (hI : MinInv gens nle rows) : MinInv gens nle (satRuleLoop fuel a b rows nle) :=
  hI.of_sub (GInv_of_take nle _ rows (satRuleLoop_take fuel a b rows nle nle (Nat.le_refl _)) hI.ginv)
    (satRuleLoop_drop_mem fuel a b rows nle nle (Nat.le_refl _)) (satRuleLoop_mem fuel a b rows nle)

/-- the independence rule keeps `MinInv`. -/
theorem indepLoop_minInv (gens : List LRow) (nle : Nat) (rows : List SRow) (fuel : Nat)
    (hf : rows.length ≤ fuel) (hI : MinInv gens nle rows) : MinInv gens nle (indepLoop fuel nle rows nle) :=
  hI.of_sub (GInv_of_take nle _ rows (indepLoop_take fuel nle rows hf) hI.ginv)
    (indepLoop_drop_mem fuel nle rows nle (Nat.le_refl _)) (indepLoop_mem fuel nle rows nle)

/-- **`MinInv` at the list handed to `back_substitute`.** -/
theorem simpT_minInv (ncols numColsSat : Nat) (sys : List SRow) (gens : List LRow)
    (hOK : ∀ r ∈ sys, RowOK gens r) :
    MinInv gens (simpP ncols sys).2 (simpT ncols numColsSat sys) := by
  have eInv := simpE_minInv gens sys hOK
  have el := (simpE_facts gens sys hOK).1
  have gInv := gauss_minInv ncols gens (simpE sys).2 (simpE sys).1 eInv
  have gl : (simpG ncols sys).1.length = sys.length :=
    (gauss_length ncols _ _ eInv.ginv.2 eInv.ginv.1).trans el
  have pInv := dropPhase_minInv gens (simpE sys).2 (simpG ncols sys).2 (simpG ncols sys).1 gInv
  rw [gl] at pInv
  change MinInv gens (simpP ncols sys).2 (simpP ncols sys).1 at pInv
  have sInv := satRuleLoop_minInv gens (simpP ncols sys).2 (simpP ncols sys).1 (simpP ncols sys).1.length
    numColsSat (usub (usub ncols (simpP ncols sys).2) 1) pInv
  change MinInv gens (simpP ncols sys).2 (simpS ncols numColsSat sys) at sInv
  exact indepLoop_minInv gens (simpP ncols sys).2 (simpS ncols numColsSat sys)
    (simpS ncols numColsSat sys).length (Nat.le_refl _) sInv

/-- (c) at `simpT`: no saturation row from the equalities on is a subset of (or equal to) another. -/
theorem simpT_independent (ncols numColsSat : Nat) (sys : List SRow) :
    ∀ i k, (simpP ncols sys).2 ≤ i → i < (simpT ncols numColsSat sys).length →
      (simpP ncols sys).2 ≤ k → k < (simpT ncols numColsSat sys).length → k ≠ i →
      subsetOrEqual ((simpT ncols numColsSat sys).getD k default).sat
        ((simpT ncols numColsSat sys).getD i default).sat = false :=
  indepLoop_independent (simpS ncols numColsSat sys).length (simpP ncols sys).2 (simpS ncols numColsSat sys)
    (Nat.le_refl _)

/-! ## the index form -/

theorem getD_mem_drop (rows : List SRow) (n m : Nat) (hn : n ≤ m) (hm : m < rows.length) :
    rows.getD m default ∈ rows.drop n :=
  (mem_drop_iff_getElem? _ _ _).2 ⟨m, hn, getElem?_of_lt_getD rows m default hm⟩

theorem MinInv.sound_idx {gens : List LRow} {nle : Nat} {rows : List SRow} (hI : MinInv gens nle rows) :
    ∀ m, m < rows.length → ∀ g ∈ gens, satisfies (rows.getD m default).row g :=
  fun m hm g hg => hI.sound g hg _ (List.mem_map.2 ⟨_, getD_mem rows m hm, rfl⟩)

theorem MinInv.ineq_idx {gens : List LRow} {nle : Nat} {rows : List SRow} (hI : MinInv gens nle rows) :
    ∀ m, nle ≤ m → m < rows.length → (rows.getD m default).row.le = false ∧
      bitsEmpty (rows.getD m default).sat = false ∧ ExactBits gens (rows.getD m default) :=
  fun m hn hm => hI.ineq _ (getD_mem_drop rows nle m hn hm)

end PPLV.Conv
