import PPLV.Conv.ProofsRow
/-!
# The line case of `conversion` (`lineCase`), index by index
-/
namespace PPLV.Conv

/-! ## index lemmas for the primitives -/

theorem getElem?_swapRowSp (l : List DRow) (i j m : Nat) (hi : i < l.length) (hj : j < l.length) :
    (swapRowSp l i j)[m]? =
      if m = j then some { l[i] with sat := l[j].sat }
      else if m = i then some { l[j] with sat := l[i].sat } else l[m]? := by
  unfold swapRowSp
  rw [List.getElem?_eq_getElem hi, List.getElem?_eq_getElem hj]
  simp only [List.getElem?_set, List.length_set]
  by_cases h1 : m = j
  · subst h1; simp [hj]
  · by_cases h2 : m = i
    · subst h2; simp [h1, hi, Ne.symm h1]
    · simp [h1, h2, Ne.symm h1, Ne.symm h2]

theorem length_swapRowSp (l : List DRow) (i j : Nat) : (swapRowSp l i j).length = l.length := by
  unfold swapRowSp
  split <;> simp

theorem length_swapAt' {α : Type} (l : List α) (i j : Nat) : (swapAt l i j).length = l.length := by
  unfold swapAt
  split <;> simp

theorem getElem?_swapAt' {α : Type} (l : List α) (i j m : Nat) (hi : i < l.length) (hj : j < l.length) :
    (swapAt l i j)[m]? = if m = j then some l[i] else if m = i then some l[j] else l[m]? := by
  unfold swapAt
  rw [List.getElem?_eq_getElem hi, List.getElem?_eq_getElem hj]
  simp only [List.getElem?_set, List.length_set]
  by_cases h1 : m = j
  · subst h1; simp [hj]
  · by_cases h2 : m = i
    · subst h2; simp [h1, hi, Ne.symm h1]
    · simp [h1, h2, Ne.symm h1, Ne.symm h2]

/-- removing index `i` by swapping with the last element and popping: what is left. -/
theorem getElem?_swap_dropLast {α : Type} (l : List α) (i m : Nat) (hi : i < l.length) (x : α)
    (h : ((swapAt l i (l.length - 1)).dropLast)[m]? = some x) :
    ∃ m0, m0 ≠ i ∧ l[m0]? = some x ∧ (m = m0 ∨ (m = i ∧ m0 = l.length - 1)) := by
  have hlast : l.length - 1 < l.length := by omega
  rw [List.getElem?_dropLast, length_swapAt'] at h
  by_cases hm : m < l.length - 1
  · simp only [hm, if_true] at h
    rw [getElem?_swapAt' l i (l.length - 1) m hi hlast] at h
    have h1 : m ≠ l.length - 1 := by omega
    simp only [h1, if_false] at h
    by_cases h2 : m = i
    · subst h2
      simp only [if_true] at h
      refine ⟨l.length - 1, by omega, ?_, Or.inr ⟨rfl, rfl⟩⟩
      rw [List.getElem?_eq_getElem hlast]; exact h
    · simp only [h2, if_false] at h
      exact ⟨m, h2, h, Or.inl rfl⟩
  · simp [hm] at h

/-! ## the rows after the combination step -/

/-- row of `combineWithNle`, as a function of the pivot row / product and the row / product combined. -/
def combRow (pr : LRow) (psp : Int) (r : LRow) (sp : Int) : LRow :=
  (combineWithNle { row := pr, sp := psp, sat := [] } { row := r, sp := sp, sat := [] }).row

theorem combineWithNle_row (a d : DRow) : (combineWithNle a d).row = combRow a.row a.sp d.row d.sp := rfl

/-- the pivot record built at :483-494. -/
def linePivot (r : DRow) : DRow :=
  if r.sp < 0 then { row := { le := false, v := r.row.v.map (- ·) }, sp := - r.sp, sat := r.sat }
  else { r with row := { r.row with le := false } }

/-- the rows of `lineCase` after :525-598. -/
def lineRows3 (st : CState) (inz : Nat) : List DRow :=
  let rows := st.rows
  let r1 := linePivot (rows.getD inz default)
  let rows := rows.set inz r1
  let nle := st.nle - 1
  let rows := if inz != nle then swapRowSp rows inz nle else rows
  let dnle := rows.getD nle default
  rows.mapIdx fun i d =>
    if ((inz ≤ i ∧ i < nle) ∨ nle + 1 ≤ i) ∧ d.sp ≠ 0 then combineWithNle dnle d else d

theorem lineCase_eq (srcK : LRow) (newK : Nat) (st : CState) (inz : Nat) :
    lineCase srcK newK st inz =
      if !srcK.le then
        { st with rows := (lineRows3 st inz).modify (st.nle - 1) (fun d => { d with sat := setBit d.sat newK }),
                  nle := st.nle - 1 }
      else
        { st with rows := (swapAt (lineRows3 st inz) (st.nle - 1) ((lineRows3 st inz).length - 1)).dropLast,
                  nle := st.nle - 1 } := by
  unfold lineCase lineRows3 linePivot
  rfl

theorem length_lineRows3 (st : CState) (inz : Nat) : (lineRows3 st inz).length = st.rows.length := by
  unfold lineRows3
  simp only [List.length_mapIdx]
  split
  · rw [length_swapRowSp]; simp
  · simp

/-- the rows after set + swap, index by index. -/
theorem lineRowsB_index (st : CState) (inz : Nat) (hinz : inz < st.nle) (hn : st.nle ≤ st.rows.length) (m : Nat) (d : DRow)
    (h : (let rows := st.rows.set inz (linePivot (st.rows.getD inz default))
          if inz != st.nle - 1 then swapRowSp rows inz (st.nle - 1) else rows)[m]? = some d) :
    (m = st.nle - 1 ∧ d.row = (linePivot (st.rows.getD inz default)).row ∧ d.sp = (linePivot (st.rows.getD inz default)).sp) ∨
    (m ≠ st.nle - 1 ∧ ∃ m0 d0, m0 ≠ inz ∧ st.rows[m0]? = some d0 ∧ d.row = d0.row ∧ d.sp = d0.sp ∧
        (decide (m0 < st.nle) = decide (m < st.nle - 1)) ∧ (m < inz → m0 = m)) := by
  have hi : inz < st.rows.length := by omega
  have hj : st.nle - 1 < st.rows.length := by omega
  simp only at h
  by_cases he : inz = st.nle - 1
  · simp only [he, bne_self_eq_false, Bool.false_eq_true, if_false] at h
    rw [List.getElem?_set] at h
    by_cases hm : st.nle - 1 = m
    · subst hm
      simp only [if_true, hj] at h
      left
      have : d = linePivot (st.rows.getD (st.nle - 1) default) := by simpa using h.symm
      rw [he]; subst this; exact ⟨rfl, rfl, rfl⟩
    · simp only [hm, if_false] at h
      right
      refine ⟨Ne.symm hm, m, d, by omega, h, rfl, rfl, ?_, fun _ => rfl⟩
      have : m < st.rows.length := by
        by_contra hc
        rw [List.getElem?_eq_none (by omega)] at h; cases h
      simp only [decide_eq_decide]; omega
  · have hne : (inz != st.nle - 1) = true := by simpa using he
    simp only [hne, if_true] at h
    have hlen : (st.rows.set inz (linePivot (st.rows.getD inz default))).length = st.rows.length := by simp
    rw [getElem?_swapRowSp _ _ _ _ (by rw [hlen]; exact hi) (by rw [hlen]; exact hj)] at h
    by_cases hm : m = st.nle - 1
    · left
      simp only [hm, if_true] at h
      refine ⟨hm, ?_, ?_⟩
      · have := (Option.some.inj h).symm
        subst this
        simp
      · have := (Option.some.inj h).symm
        subst this
        simp
    · right
      simp only [hm, if_false] at h
      by_cases hm2 : m = inz
      · simp only [hm2, if_true] at h
        have hd := (Option.some.inj h).symm
        refine ⟨hm, st.nle - 1, st.rows[st.nle - 1], by omega, List.getElem?_eq_getElem hj, ?_, ?_, ?_, ?_⟩
        · subst hd; simp [he]
        · subst hd; simp [he]
        · simp only [decide_eq_decide]; omega
        · intro hlt; omega
      · simp only [hm2, if_false] at h
        rw [List.getElem?_set] at h
        simp only [Ne.symm hm2, if_false] at h
        refine ⟨hm, m, d, hm2, h, rfl, rfl, ?_, fun _ => rfl⟩
        simp only [decide_eq_decide]; omega

/-- the rows after the combination step, index by index. -/
theorem lineRows3_index (st : CState) (inz : Nat) (hinz : inz < st.nle) (hn : st.nle ≤ st.rows.length) (m : Nat) (d' : DRow)
    (h : (lineRows3 st inz)[m]? = some d') :
    let p := linePivot (st.rows.getD inz default)
    (m = st.nle - 1 ∧ d'.row = p.row ∧ d'.sp = p.sp) ∨
    (m ≠ st.nle - 1 ∧ ∃ m0 d0, m0 ≠ inz ∧ st.rows[m0]? = some d0 ∧
        (decide (m0 < st.nle) = decide (m < st.nle - 1)) ∧
        ((d0.sp = 0 ∧ d'.row = d0.row ∧ d'.sp = 0) ∨
         (d0.sp ≠ 0 ∧ inz ≤ m ∧ d'.row = combRow p.row p.sp d0.row d0.sp ∧ d'.sp = 0) ∨
         (m < inz ∧ m0 = m ∧ d'.row = d0.row ∧ d'.sp = d0.sp))) := by
  intro p
  unfold lineRows3 at h
  simp only [List.getElem?_mapIdx] at h
  -- the record before the combination
  match hb : (let rows := st.rows.set inz (linePivot (st.rows.getD inz default))
              if inz != st.nle - 1 then swapRowSp rows inz (st.nle - 1) else rows)[m]? with
  | none => simp only at hb; rw [hb] at h; simp at h
  | some b =>
    have hb' := hb
    simp only at hb
    rw [hb] at h
    simp only [Option.map_some, Option.some.injEq] at h
    -- the pivot record
    have hj : st.nle - 1 < st.rows.length := by omega
    have hlenB : (let rows := st.rows.set inz (linePivot (st.rows.getD inz default))
              if inz != st.nle - 1 then swapRowSp rows inz (st.nle - 1) else rows).length = st.rows.length := by
      simp only
      split
      · rw [length_swapRowSp]; simp
      · simp
    obtain ⟨dn, hdn⟩ : ∃ dn, (let rows := st.rows.set inz (linePivot (st.rows.getD inz default))
              if inz != st.nle - 1 then swapRowSp rows inz (st.nle - 1) else rows)[st.nle - 1]? = some dn := by
      rw [List.getElem?_eq_getElem (by rw [hlenB]; exact hj)]; exact ⟨_, rfl⟩
    have hpiv := lineRowsB_index st inz hinz hn (st.nle - 1) dn hdn
    have hdnrow : dn.row = p.row ∧ dn.sp = p.sp := by
      rcases hpiv with ⟨_, h1, h2⟩ | ⟨h1, _⟩
      · exact ⟨h1, h2⟩
      · exact absurd rfl h1
    have hgetD : (let rows := st.rows.set inz (linePivot (st.rows.getD inz default))
              if inz != st.nle - 1 then swapRowSp rows inz (st.nle - 1) else rows).getD (st.nle - 1) default = dn := by
      rw [List.getD_eq_getElem?_getD, hdn]; rfl
    simp only at hgetD
    rw [hgetD] at h
    rcases lineRowsB_index st inz hinz hn m b hb' with ⟨h1, h2, h3⟩ | ⟨h1, m0, d0, h2, h3, h4, h5, h6, h7⟩
    · left
      have hc : ¬ (((inz ≤ m ∧ m < st.nle - 1) ∨ st.nle - 1 + 1 ≤ m) ∧ b.sp ≠ 0) := by
        intro hcc; omega
      rw [if_neg hc] at h
      subst h
      exact ⟨h1, h2, h3⟩
    · right
      refine ⟨h1, m0, d0, h2, h3, h6, ?_⟩
      by_cases hc : (((inz ≤ m ∧ m < st.nle - 1) ∨ st.nle - 1 + 1 ≤ m) ∧ b.sp ≠ 0)
      · rw [if_pos hc] at h
        right; left
        have hge : inz ≤ m := by
          have := hc.1
          clear h hgetD hdn hpiv hb hb' hlenB
          omega
        refine ⟨by rw [← h5]; exact hc.2, hge, ?_, ?_⟩
        · rw [← h, combineWithNle_row, hdnrow.1, hdnrow.2, h4, h5]
        · rw [← h]; rfl
      · rw [if_neg hc] at h
        subst h
        by_cases hsp : d0.sp = 0
        · left; exact ⟨hsp, h4, by rw [h5]; exact hsp⟩
        · right; right
          have hlt : m < inz := by
            by_contra hge
            apply hc
            refine ⟨?_, by rw [h5]; exact hsp⟩
            omega
          exact ⟨hlt, h7 hlt, h4, h5⟩

end PPLV.Conv
