import PPLV.Conv.ProofsCompleteRay6
import PPLV.Conv.ProofsCompleteLine5
import PPLV.Conv.ProofsCompleteEmb2
/-!
# C01 stage 4 — the main loop of `conversion` keeps the double description pair complete and minimal
-/
namespace PPLV.Conv
open PPLV.Conv.Abs

theorem getElem?_map_sp (rows : List DRow) (f : DRow → Int) (m : Nat) (d : DRow)
    (h : (rows.map fun d => ({ d with sp := f d } : DRow))[m]? = some d) :
    ∃ d0, rows[m]? = some d0 ∧ d.row = d0.row ∧ d.sat = d0.sat := by
  rw [List.getElem?_map] at h
  match hq : rows[m]? with
  | none => rw [hq] at h; simp at h
  | some d0 =>
    rw [hq] at h
    simp only [Option.map_some, Option.some.injEq] at h
    exact ⟨d0, rfl, by rw [← h], by rw [← h]⟩

/-- the stage-4 invariant does not look at the scalar products. -/
theorem CExtra.congr_sp {ncols : Nat} {kept : List LRow} {st : CState} (X : CExtra ncols kept st) (f : DRow → Int) :
    CExtra ncols kept { st with rows := st.rows.map fun d => { d with sp := f d } } := by
  have hg : ({ st with rows := st.rows.map fun d => ({ d with sp := f d } : DRow) } : CState).gens = st.gens := by
    unfold CState.gens
    simp only [List.map_map]
    rfl
  refine ⟨?_, ?_, ?_, ?_, ?_⟩
  · intro d hd
    obtain ⟨d0, h0, rfl⟩ := List.mem_map.mp hd
    exact X.inU d0 h0
  · rw [hg]; exact X.complete
  · intro l m dl dm hl hm hne e1 e2
    obtain ⟨a, ea, _, sa⟩ := getElem?_map_sp _ _ _ _ e1
    obtain ⟨b, eb, _, sb⟩ := getElem?_map_sp _ _ _ _ e2
    rw [sa, sb]
    exact X.antichain l m a b hl hm hne ea eb
  · intro m d hm e
    obtain ⟨a, ea, _, sa⟩ := getElem?_map_sp _ _ _ _ e
    rw [sa]
    exact X.proper m a hm ea
  · rw [hg]; exact X.rank

/-- **one iteration of the main loop keeps the stage-4 invariant.** -/
theorem conversionStep_extra (ncols : Nat) (srcK : LRow) (st : CState) (kept : List LRow)
    (hk : kept.length = st.k - st.redundant.length)
    (hs : ∀ d ∈ st.rows, ∀ s ∈ kept, satisfies s d.row)
    (hl : ∀ m d, st.rows[m]? = some d → d.row.le = decide (m < st.nle)) (hn : st.nle ≤ st.rows.length)
    (hsat : RowsSatCorrect kept st.rows) (X : CExtra ncols kept st)
    (hsz : ncols < 2 ^ 64) (hkz : kept.length < 2 ^ 64) :
    let st' := conversionStep ncols srcK st
    (st'.redundant = st.redundant → CExtra ncols (kept ++ [srcK]) st') ∧
    (st'.redundant = st.redundant ++ [st.k] → CExtra ncols kept st') := by
  intro st'
  let rows1 := st.rows.map fun d => { d with sp := scalarProduct srcK.v d.row.v }
  let st1 : CState := { st with rows := rows1 }
  have hmem1 : ∀ d ∈ rows1, ∃ d0 ∈ st.rows, d = { d0 with sp := scalarProduct srcK.v d0.row.v } := by
    intro d hd
    obtain ⟨d0, h0, h1⟩ := List.mem_map.mp hd
    exact ⟨d0, h0, h1.symm⟩
  have H : StepHyp srcK st1 kept := by
    refine ⟨?_, ?_, ?_, ?_⟩
    · intro d hd
      obtain ⟨d0, _, h1⟩ := hmem1 d hd
      rw [h1]
    · intro d hd
      obtain ⟨d0, h0, h1⟩ := hmem1 d hd
      rw [h1]; exact hs d0 h0
    · intro m d hd
      obtain ⟨d0, e0, hrow, _⟩ := getElem?_map_sp _ _ _ _ hd
      rw [hrow]; exact hl m d0 e0
    · show st.nle ≤ (st.rows.map _).length
      rw [List.length_map]; exact hn
  have hsat1 : RowsSatCorrect kept st1.rows := by
    intro d hd
    obtain ⟨d0, h0, h1⟩ := hmem1 d hd
    rw [h1]; exact hsat d0 h0
  have X1 : CExtra ncols kept st1 := X.congr_sp _
  have e : st' = if indexNonZero rows1 < st.nle then lineCase srcK kept.length st1 (indexNonZero rows1)
                 else rayCase ncols srcK kept.length st1 := by
    rw [hk]; rfl
  rw [e]
  by_cases hinz : indexNonZero rows1 < st.nle
  · rw [if_pos hinz]
    have hlen1 : rows1.length = st.rows.length := List.length_map _
    have hb : ∀ m d, m < indexNonZero rows1 → st1.rows[m]? = some d → d.sp = 0 :=
      fun m d hm hd => indexNonZero_before rows1 m d hm hd
    have hp := indexNonZero_at rows1 (by omega)
    have hred := (lineCase_sat srcK kept st1 (indexNonZero rows1) H hinz hb hp hsat1).1
    constructor
    · intro _
      exact lineCase_extra ncols srcK kept st1 (indexNonZero rows1) H hinz hb hp hsat1 X1
    · intro hr
      exfalso
      rw [hred] at hr
      have hr' : st.redundant = st.redundant ++ [st.k] := hr
      have := congrArg List.length hr'
      simp at this
  · rw [if_neg hinz]
    apply rayCase_extra ncols srcK kept st1 H _ hsat1 X1 (finrank_ambient ncols) hsz hkz
    intro d hd
    obtain ⟨m, hm⟩ := List.mem_iff_getElem?.mp hd
    rw [List.getElem?_take] at hm
    split at hm
    · rename_i hlt
      exact indexNonZero_before rows1 m d (by show m < indexNonZero rows1; have : m < st.nle := hlt; omega) hm
    · cases hm

/-- the loop invariant of stage 4: stage 3's `SatInv` and the completeness / minimality part. -/
structure CompInv (ncols : Nat) (source : List LRow) (st : CState) : Prop where
  sat : SatInv source st
  extra : CExtra ncols (removeRows (source.take st.k) st.redundant) st

theorem compInv_step (ncols : Nat) (source : List LRow) (hsz : ncols < 2 ^ 64) (hsrc : source.length < 2 ^ 64)
    (st : CState) (I : CompInv ncols source st) (hlt : st.k < source.length) (st2 : CState)
    (h2 : st2 = { conversionStep ncols source[st.k] st with k := st.k + 1 }) : CompInv ncols source st2 := by
  refine ⟨satInv_step ncols source st I.sat hlt st2 h2, ?_⟩
  have hrows : st2.rows = (conversionStep ncols source[st.k] st).rows := by rw [h2]
  have hnle : st2.nle = (conversionStep ncols source[st.k] st).nle := by rw [h2]
  have hred2 : st2.redundant = (conversionStep ncols source[st.k] st).redundant := by rw [h2]
  have hk2 : st2.k = st.k + 1 := by rw [h2]
  have hlenI := I.sat.hlen
  have hkl : (removeRows (source.take st.k) st.redundant).length = st.k - st.redundant.length := by omega
  have hnotin : ¬ st.k ∈ st.redundant := fun hc => by have := I.sat.hred _ hc; omega
  have hkz : (removeRows (source.take st.k) st.redundant).length < 2 ^ 64 := by omega
  obtain ⟨c1, c2⟩ := conversionStep_extra ncols source[st.k] st _ hkl I.sat.hs I.sat.hl I.sat.hn I.sat.hsat I.extra hsz hkz
  -- transport a `CExtra` of the step result to `st2`
  have tr : ∀ kept', CExtra ncols kept' (conversionStep ncols source[st.k] st) → CExtra ncols kept' st2 := by
    intro kept' Y
    have hg : st2.gens = (conversionStep ncols source[st.k] st).gens := by unfold CState.gens; rw [hrows]
    exact ⟨by rw [hrows]; exact Y.inU, by rw [hg]; exact Y.complete, by rw [hrows, hnle]; exact Y.antichain,
      by rw [hrows, hnle]; exact Y.proper, by rw [hg, hnle]; exact Y.rank⟩
  rcases conversionStep_sat ncols source[st.k] st _ hkl I.sat.hs I.sat.hl I.sat.hn I.sat.hsat with ⟨r1, _⟩ | ⟨r1, _⟩
  · have hkept : removeRows (source.take st2.k) st2.redundant
        = removeRows (source.take st.k) st.redundant ++ [source[st.k]] := by
      rw [hk2, hred2, r1]; exact removeRows_take_succ_keep source st.k st.redundant hlt hnotin
    rw [hkept]
    exact tr _ (c1 r1)
  · have hkept : removeRows (source.take st2.k) st2.redundant
        = removeRows (source.take st.k) st.redundant := by
      rw [hk2, hred2, r1]; exact removeRows_take_succ_drop source st.k st.redundant hlt
    rw [hkept]
    exact tr _ (c2 r1)

theorem conversionLoop_compInv (ncols : Nat) (source : List LRow) (hsz : ncols < 2 ^ 64) (hsrc : source.length < 2 ^ 64) :
    ∀ (rest : List LRow) (st : CState), source.drop st.k = rest → CompInv ncols source st →
      CompInv ncols source (conversionLoop ncols rest st) ∧ (conversionLoop ncols rest st).k = source.length := by
  intro rest
  induction rest with
  | nil =>
    intro st hd I
    simp only [conversionLoop]
    have := List.drop_eq_nil_iff.mp hd
    have := I.sat.hk
    exact ⟨I, by omega⟩
  | cons s rest ih =>
    intro st hd I
    have hlt : st.k < source.length := by
      by_contra hc
      rw [List.drop_eq_nil_iff.mpr (by omega)] at hd
      cases hd
    rw [List.drop_eq_getElem_cons hlt] at hd
    have hs : source[st.k] = s := (List.cons.inj hd).1
    have hr : source.drop (st.k + 1) = rest := (List.cons.inj hd).2
    simp only [conversionLoop]
    rw [← hs]
    exact ih { conversionStep ncols source[st.k] st with k := st.k + 1 } hr
      (compInv_step ncols source hsz hsrc st I hlt _ rfl)

end PPLV.Conv
