import PPLV.Conv.ProofsSimp5
/-!
# C01 stage 3 — `simplify`: `backSubstitute` keeps the solution set
-/
namespace PPLV.Conv

/-- the pivot column of step `k`. -/
def bsCol (rows : List SRow) (k : Nat) : Nat := lastNonzero (rows.getD k default).row.v

/-- the rows after the first pass of step `k` (the equalities above). -/
def bsA (rows : List SRow) (k : Nat) : List SRow :=
  rows.mapIdx (combF (fun i r => i < k ∧ r.row.v.getD (bsCol rows k) 0 ≠ 0) (rows.getD k default).row (bsCol rows k))

/-- the pivot row of the second pass: negated when its pivot coefficient is negative. -/
def bsPiv (rows : List SRow) (k : Nat) : LRow :=
  if (rows.getD k default).row.v.getD (bsCol rows k) 0 < 0 then
    { (rows.getD k default).row with v := (rows.getD k default).row.v.map (- ·) }
  else (rows.getD k default).row

theorem backSubstituteStep_eq (nle : Nat) (rows : List SRow) (k : Nat) :
    backSubstituteStep nle rows k =
      (bsA rows k).mapIdx (combF (fun i r => nle ≤ i ∧ r.row.v.getD (bsCol rows k) 0 ≠ 0) (bsPiv rows k) (bsCol rows k)) :=
  rfl

theorem getD_map_neg (v : Vec) (j : Nat) : (v.map (- ·)).getD j 0 = - v.getD j 0 := by
  simp only [List.getD_eq_getElem?_getD, List.getElem?_map]
  cases v[j]? <;> simp

theorem bsPiv_nonneg (rows : List SRow) (k : Nat) : 0 ≤ (bsPiv rows k).v.getD (bsCol rows k) 0 := by
  unfold bsPiv
  split
  · rename_i h
    simp only [getD_map_neg]; omega
  · rename_i h; omega

theorem bsPiv_ne (rows : List SRow) (k : Nat) (h : (rows.getD k default).row.v.getD (bsCol rows k) 0 ≠ 0) :
    (bsPiv rows k).v.getD (bsCol rows k) 0 ≠ 0 := by
  unfold bsPiv
  split
  · simp only [getD_map_neg]; omega
  · exact h

theorem bsPiv_sp (rows : List SRow) (k : Nat) (x : Vec) (h : scalarProduct (rows.getD k default).row.v x = 0) :
    scalarProduct (bsPiv rows k).v x = 0 := by
  unfold bsPiv
  split
  · show scalarProduct ((rows.getD k default).row.v.map (- ·)) x = 0
    rw [sp_comm, sp_neg, sp_comm, h]; rfl
  · exact h

theorem holds_eq_sp (l : List SRow) (k : Nat) (x : Vec) (hk : k < l.length)
    (hle : (l.getD k default).row.le = true) (h : HoldsIdx l x) :
    scalarProduct (l.getD k default).row.v x = 0 := by
  have := h k hk
  unfold holds at this
  rw [if_pos hle] at this; exact this

theorem bsA_keeps (nle : Nat) (rows : List SRow) (k : Nat) (hI : GInv nle rows) (hk : k < nle) :
    (bsA rows k).length = rows.length ∧ GInv nle (bsA rows k) ∧
    (bsA rows k).getD k default = rows.getD k default ∧
    (∀ x, HoldsIdx rows x → HoldsIdx (bsA rows k) x) ∧
    ((rows.getD k default).row.v.getD (bsCol rows k) 0 ≠ 0 → ∀ x, HoldsIdx (bsA rows k) x ↔ HoldsIdx rows x) := by
  have hkl : k < rows.length := by have := hI.1; omega
  have hkk : (bsA rows k).getD k default = rows.getD k default := by
    unfold bsA
    rw [getD_mapIdx rows _ k hkl, combF_of_not]; omega
  have hvac : ∀ m, m < rows.length → (m < k ∧ (rows.getD m default).row.v.getD (bsCol rows k) 0 ≠ 0) →
      (rows.getD m default).row.le = false → False := by
    intro m _ hP hf
    rw [hI.2 m (by omega)] at hf; cases hf
  refine ⟨by unfold bsA; exact List.length_mapIdx, GInv_mapIdx nle rows _ _ _ hI, hkk, fun x h => ?_, fun hnz x => ?_⟩
  · unfold bsA
    exact holdsIdx_mapIdx_of rows _ _ _ x (holds_eq_sp rows k x hkl (hI.2 k hk) h)
      (fun m hm hP hf => (hvac m hm hP hf).elim) h
  · unfold bsA
    apply holdsIdx_mapIdx_iff rows _ _ _ x (holds_eq_sp rows k x hkl (hI.2 k hk)) _ hnz
      (fun m hm hP hf => (hvac m hm hP hf).elim)
    intro h
    have := holds_eq_sp (bsA rows k) k x (by unfold bsA; rw [List.length_mapIdx]; exact hkl)
      (by rw [hkk]; exact hI.2 k hk) h
    rw [hkk] at this; exact this

theorem backSubstituteStep_keeps (nle : Nat) (rows : List SRow) (k : Nat) (hI : GInv nle rows) (hk : k < nle) :
    (backSubstituteStep nle rows k).length = rows.length ∧ GInv nle (backSubstituteStep nle rows k) ∧
    (∀ x, HoldsIdx rows x → HoldsIdx (backSubstituteStep nle rows k) x) ∧
    ((rows.getD k default).row.v.getD (bsCol rows k) 0 ≠ 0 →
      ∀ x, HoldsIdx (backSubstituteStep nle rows k) x ↔ HoldsIdx rows x) := by
  obtain ⟨a1, a2, a3, a4, a5⟩ := bsA_keeps nle rows k hI hk
  rw [backSubstituteStep_eq]
  have hkl : k < (bsA rows k).length := by have := a2.1; omega
  have hle : ((bsA rows k).getD k default).row.le = true := a2.2 k hk
  have hpA : ∀ x, HoldsIdx (bsA rows k) x → scalarProduct (bsPiv rows k).v x = 0 := by
    intro x h
    have := holds_eq_sp (bsA rows k) k x hkl hle h
    rw [a3] at this
    exact bsPiv_sp rows k x this
  refine ⟨by rw [List.length_mapIdx]; exact a1, GInv_mapIdx nle _ _ _ _ a2, fun x h => ?_, fun hnz x => ?_⟩
  · exact holdsIdx_mapIdx_of _ _ _ _ x (hpA x (a4 x h)) (fun _ _ _ _ => bsPiv_nonneg rows k) (a4 x h)
  · refine Iff.trans ?_ (a5 hnz x)
    apply holdsIdx_mapIdx_iff _ _ _ _ x (hpA x) _ (bsPiv_ne rows k hnz)
      (fun _ _ _ _ => lt_of_le_of_ne (bsPiv_nonneg rows k) (Ne.symm (bsPiv_ne rows k hnz)))
    intro h
    have hkk : ((bsA rows k).mapIdx (combF (fun i r => nle ≤ i ∧ r.row.v.getD (bsCol rows k) 0 ≠ 0)
        (bsPiv rows k) (bsCol rows k))).getD k default = (bsA rows k).getD k default := by
      rw [getD_mapIdx _ _ k hkl, combF_of_not]; omega
    have := holds_eq_sp _ k x (by rw [List.length_mapIdx]; exact hkl) (by rw [hkk]; exact hle) h
    rw [hkk, a3] at this
    exact bsPiv_sp rows k x this

/-- every pivot coefficient used by `backSubstitute` (last non-zero coefficient of the current row `k`,
for the `k`s in the order of the loop) is non-zero, i.e. no pivot row is the zero row. -/
def BackSubPivots (nle : Nat) : List Nat → List SRow → Prop
  | [], _ => True
  | k :: ks, rows =>
    (rows.getD k default).row.v.getD (lastNonzero (rows.getD k default).row.v) 0 ≠ 0 ∧
      BackSubPivots nle ks (backSubstituteStep nle rows k)

theorem backSub_fold_keeps (nle : Nat) : ∀ (ks : List Nat) (rows : List SRow), GInv nle rows →
    (∀ k ∈ ks, k < nle) →
    (ks.foldl (backSubstituteStep nle) rows).length = rows.length ∧
    GInv nle (ks.foldl (backSubstituteStep nle) rows) ∧
    (∀ x, HoldsIdx rows x → HoldsIdx (ks.foldl (backSubstituteStep nle) rows) x) ∧
    (BackSubPivots nle ks rows → ∀ x, HoldsIdx (ks.foldl (backSubstituteStep nle) rows) x ↔ HoldsIdx rows x)
  | [], rows, hI, _ => ⟨rfl, hI, fun _ h => h, fun _ _ => Iff.rfl⟩
  | k :: ks, rows, hI, hks => by
    rw [List.foldl_cons]
    obtain ⟨s1, s2, s3, s4⟩ := backSubstituteStep_keeps nle rows k hI (hks k List.mem_cons_self)
    obtain ⟨r1, r2, r3, r4⟩ := backSub_fold_keeps nle ks (backSubstituteStep nle rows k) s2
      (fun k' hk' => hks k' (List.mem_cons_of_mem _ hk'))
    refine ⟨r1.trans s1, r2, fun x h => r3 x (s3 x h), fun hp x => ?_⟩
    exact (r4 hp.2 x).trans (s4 hp.1 x)

theorem range_reverse_lt (n : Nat) : ∀ k ∈ (List.range n).reverse, k < n := by
  intro k hk
  rw [List.mem_reverse, List.mem_range] at hk; exact hk

/-- `backSubstitute` never loses a solution (no hypothesis on the pivots). -/
theorem backSubstitute_sound (nle : Nat) (rows : List SRow)
    (hle : ∀ i, i < nle → (rows.getD i default).row.le = true) (hn : nle ≤ rows.length) :
    ∀ x, holdsAll (rows.map (·.row)) x → holdsAll ((backSubstitute nle rows).map (·.row)) x := by
  intro x
  rw [holdsAll_iff_idx, holdsAll_iff_idx]
  exact (backSub_fold_keeps nle _ rows ⟨hn, hle⟩ (range_reverse_lt nle)).2.2.1 x

/-- `backSubstitute` keeps the solution set when no pivot row is the zero row. -/
theorem backSubstitute_same_set (nle : Nat) (rows : List SRow)
    (hle : ∀ i, i < nle → (rows.getD i default).row.le = true) (hn : nle ≤ rows.length)
    (hnz : BackSubPivots nle (List.range nle).reverse rows) :
    ∀ x, holdsAll ((backSubstitute nle rows).map (·.row)) x ↔ holdsAll (rows.map (·.row)) x := by
  intro x
  rw [holdsAll_iff_idx, holdsAll_iff_idx]
  exact (backSub_fold_keeps nle _ rows ⟨hn, hle⟩ (range_reverse_lt nle)).2.2.2 hnz x

theorem backSubstitute_length (nle : Nat) (rows : List SRow)
    (hle : ∀ i, i < nle → (rows.getD i default).row.le = true) (hn : nle ≤ rows.length) :
    (backSubstitute nle rows).length = rows.length :=
  (backSub_fold_keeps nle _ rows ⟨hn, hle⟩ (range_reverse_lt nle)).1

theorem backSubstitute_le (nle : Nat) (rows : List SRow)
    (hle : ∀ i, i < nle → (rows.getD i default).row.le = true) (hn : nle ≤ rows.length) :
    ∀ i, i < nle → ((backSubstitute nle rows).getD i default).row.le = true :=
  (backSub_fold_keeps nle _ rows ⟨hn, hle⟩ (range_reverse_lt nle)).2.1.2

end PPLV.Conv
