import PPLV.Conv.Spec
/-!
# Bit rows and `removeRows`: the small facts the saturation-matrix proof needs
-/
namespace PPLV.Conv

theorem bit_nil (j : Nat) : bit [] j = false := by simp [bit]

theorem bit_setBit (x : BRow) (k j : Nat) : bit (setBit x k) j = (decide (j = k) || bit x j) := by
  induction x generalizing k j with
  | nil =>
    induction k generalizing j with
    | zero => cases j <;> simp [setBit, bit]
    | succ k ih =>
      cases j with
      | zero => simp [setBit, bit]
      | succ j =>
        have := ih j
        simp only [bit, setBit, List.getD_cons_succ] at this ⊢
        rw [this]; simp
  | cons a x ih =>
    cases k with
    | zero => cases j <;> simp [setBit, bit]
    | succ k =>
      cases j with
      | zero => simp [setBit, bit]
      | succ j =>
        have := ih k j
        simp only [bit, setBit, List.getD_cons_succ] at this ⊢
        rw [this]; simp

theorem bit_bor (x y : BRow) (j : Nat) : bit (bor x y) j = (bit x j || bit y j) := by
  induction x generalizing y j with
  | nil => simp [bor, bit]
  | cons a x ih =>
    cases y with
    | nil => simp [bor, bit]
    | cons b y =>
      cases j with
      | zero => simp [bor, bit]
      | succ j =>
        have := ih y j
        simp only [bit, bor, List.getD_cons_succ] at this ⊢
        exact this

theorem bit_take (x : BRow) (n j : Nat) : bit (x.take n) j = (decide (j < n) && bit x j) := by
  simp only [bit, List.getD_eq_getElem?_getD, List.getElem?_take]
  by_cases h : j < n <;> simp [h]

/-! ## `removeRows` -/

theorem removeRows_nil {α : Type} (l : List α) : removeRows l [] = l := by
  unfold removeRows
  simp only [List.contains_nil, Bool.not_false]
  rw [List.filter_eq_self.mpr (by intros; rfl)]
  exact List.zipIdx_map_fst _ _

theorem removeRows_take_succ_keep {α : Type} (l : List α) (k : Nat) (red : List Nat) (hk : k < l.length) (h : ¬ k ∈ red) :
    removeRows (l.take (k+1)) red = removeRows (l.take k) red ++ [l[k]] := by
  unfold removeRows
  rw [List.take_succ_eq_append_getElem hk, List.zipIdx_append, List.filter_append, List.map_append]
  congr 1
  have : (l.take k).length = k := by simp; omega
  simp [this, h]

theorem removeRows_congr {α : Type} (l : List α) (red red' : List Nat)
    (h : ∀ i, i < l.length → (i ∈ red ↔ i ∈ red')) : removeRows l red = removeRows l red' := by
  unfold removeRows
  congr 1
  apply List.filter_congr
  rintro ⟨x, i⟩ hx
  have := (List.mem_zipIdx hx).2.1
  have hi := h i (by omega)
  simp only [List.contains_eq_mem]
  by_cases h1 : i ∈ red
  · simp [h1, hi.mp h1]
  · have h2 : ¬ i ∈ red' := fun hc => h1 (hi.mpr hc)
    simp [h1, h2]

theorem removeRows_take_succ_drop {α : Type} (l : List α) (k : Nat) (red : List Nat) (hk : k < l.length) :
    removeRows (l.take (k+1)) (red ++ [k]) = removeRows (l.take k) red := by
  have e : removeRows (l.take (k+1)) (red ++ [k]) = removeRows (l.take k) (red ++ [k]) := by
    unfold removeRows
    rw [List.take_succ_eq_append_getElem hk, List.zipIdx_append, List.filter_append, List.map_append]
    have : (l.take k).length = k := by simp; omega
    simp [this]
  rw [e]
  apply removeRows_congr
  intro i hi
  have : i < k := by simp at hi; omega
  simp; omega

end PPLV.Conv
