import PPLV.Conv.ProofsCompleteMinimal1
import PPLV.Conv.ProofsCompleteMin
/-!
# C01 stage 4c — every non-tautological inequality of a minimal system is saturated by a point

Setting: `rows` (the `n` equalities first) and `gens` a double description pair whose inequalities are
irredundant and not saturated by every generator, positivity (`x_0 ≥ 0`) entailed, a point among the
generators, the equalities in reduced form with pivot columns `J p ≠ 0` at which the inequalities are
zero.  If no POINT saturated the inequality `c`, the facet of `c` would lie in `{x_0 = 0}`; then
`b·c = a·x_0` on the solutions of the equalities, hence everywhere (reduced form): `c` is a tautology.
-/
namespace PPLV.Conv
open PPLV.Conv.Abs

theorem getD_linearCombine (a b : Int) : ∀ (x y : Vec) (j : Nat),
    (linearCombine a b x y).getD j 0 = a * x.getD j 0 + b * y.getD j 0
  | [], ys, j => by
    simp only [linearCombine, List.getD_eq_getElem?_getD, List.getElem?_map, List.getElem?_nil]
    cases ys[j]? <;> simp
  | x :: xs, [], j => by
    simp only [linearCombine, List.getD_eq_getElem?_getD, List.getElem?_map, List.getElem?_nil]
    cases (x :: xs)[j]? <;> simp
  | x :: xs, y :: ys, 0 => by simp [linearCombine]
  | x :: xs, y :: ys, j + 1 => by
    simp only [linearCombine, List.getD_cons_succ]
    exact getD_linearCombine a b xs ys j

theorem holds_of_satisfies (r g : LRow) (h : satisfies r g) : holds r g.v := by
  unfold satisfies at h
  unfold holds
  cases hr : r.le <;> cases hg : g.le <;> simp [hr, hg] at h ⊢ <;> omega

theorem natAbs_le_sum (w : Vec) : ∀ (rows : List LRow) (r : LRow), r ∈ rows →
    (scalarProduct r.v w).natAbs ≤ (rows.map fun r => (scalarProduct r.v w).natAbs).sum
  | [], _, h => by cases h
  | t :: rows, r, h => by
    simp only [List.map_cons, List.sum_cons]
    rcases List.mem_cons.mp h with rfl | h
    · omega
    · have := natAbs_le_sum w rows r h; omega

theorem getD_mem_rows (rows : List LRow) (m : Nat) (h : m < rows.length) : rows.getD m default ∈ rows := by
  rw [List.getD_eq_getElem?_getD, List.getElem?_eq_getElem h]; exact List.getElem_mem h

theorem holdsAll_of_idx (rows : List LRow) (x : Vec)
    (h : ∀ m, m < rows.length → holds (rows.getD m default) x) : holdsAll rows x := by
  intro r hr
  obtain ⟨m, hm⟩ := List.mem_iff_getElem?.mp hr
  have hml : m < rows.length := (List.getElem?_eq_some_iff.1 hm).1
  have := h m hml
  rwa [List.getD_eq_getElem?_getD, hm] at this

/-- **the facet of a non-tautological irredundant inequality holds a point.** -/
theorem facet_point_core (ncols : Nat) (gens rows : List LRow) (n : Nat) (J : Nat → Nat)
    (hglen : ∀ g ∈ gens, g.v.length ≤ ncols)
    (hsound : ∀ r ∈ rows, ∀ g ∈ gens, satisfies r g)
    (hcomp : ∀ x : Vec, x.length ≤ ncols → holdsAll rows x → Generated gens x)
    (heq : ∀ m, m < n → (rows.getD m default).le = true)
    (hineq : ∀ m, n ≤ m → m < rows.length → (rows.getD m default).le = false)
    (hproper : ∀ m, n ≤ m → m < rows.length → ∃ g ∈ gens, 0 < scalarProduct (rows.getD m default).v g.v)
    (hpos : ∀ x : Vec, x.length ≤ ncols → holdsAll rows x → 0 ≤ x.getD 0 0)
    (hpt : ∃ g ∈ gens, g.le = false ∧ 0 < g.v.getD 0 0)
    (hJz : ∀ p, p < n → ∀ m, n ≤ m → m < rows.length → (rows.getD m default).v.getD (J p) 0 = 0)
    (hJ0 : ∀ p, p < n → J p ≠ 0)
    (hK : ∀ d : Vec, (∀ p, p < n → d.getD (J p) 0 = 0) →
      (∀ x : Vec, x.length ≤ ncols → (∀ p, p < n → scalarProduct (rows.getD p default).v x = 0) → scalarProduct d x = 0) →
      ∀ x : Vec, x.length ≤ ncols → scalarProduct d x = 0)
    (i : Nat) (hi1 : n ≤ i) (hi2 : i < rows.length)
    (hilen : (rows.getD i default).v.length ≤ ncols)
    (hirr : ∃ v : Vec, v.length ≤ ncols ∧ (∀ m, m < rows.length → m ≠ i → holds (rows.getD m default) v) ∧
      ¬ holds (rows.getD i default) v)
    (hnt : ¬ ((∀ j, 1 ≤ j → (rows.getD i default).v.getD j 0 = 0) ∧ 0 ≤ (rows.getD i default).v.getD 0 0)) :
    ∃ g ∈ gens, g.le = false ∧ 0 < g.v.getD 0 0 ∧ scalarProduct (rows.getD i default).v g.v = 0 := by
  by_contra hcon
  have hA : ∀ g ∈ gens, g.le = false → scalarProduct (rows.getD i default).v g.v = 0 → g.v.getD 0 0 ≤ 0 := by
    intro g hg hle hz
    by_contra hc
    exact hcon ⟨g, hg, hle, by omega, hz⟩
  set c := rows.getD i default with hc
  have hcmem : c ∈ rows := getD_mem_rows rows i hi2
  have hcle : c.le = false := hineq i hi1 hi2
  -- generators belong to the cone
  have hgK : ∀ g ∈ gens, holdsAll rows g.v := fun g hg r hr => holds_of_satisfies r g (hsound r hr g hg)
  have hg0 : ∀ g ∈ gens, 0 ≤ g.v.getD 0 0 := fun g hg => hpos g.v (hglen g hg) (hgK g hg)
  have hline0 : ∀ g ∈ gens, g.le = true → g.v.getD 0 0 = 0 := by
    intro g hg hle
    have h1 := hg0 g hg
    have h2 := hpos (g.v.map (- ·)) (by simpa using hglen g hg) (by
      intro r hr
      have hs := hsound r hr g hg
      have hz : scalarProduct r.v g.v = 0 := by
        unfold satisfies at hs
        rw [if_pos (by simp [hle])] at hs; exact hs
      unfold holds
      rw [sp_neg, hz]
      split <;> simp)
    rw [getD_map_neg] at h2
    omega
  -- row facts by index
  have hrow_eq : ∀ m, m < n → ∀ g ∈ gens, scalarProduct (rows.getD m default).v g.v = 0 := by
    intro m hm g hg
    have hml : m < rows.length := by omega
    exact satisfies_eq_zero _ g (heq m hm) (hsound _ (getD_mem_rows rows m hml) g hg)
  have hrow_nn : ∀ m, m < rows.length → ∀ g ∈ gens, 0 ≤ scalarProduct (rows.getD m default).v g.v := by
    intro m hml g hg
    exact satisfies_nonneg _ g (hsound _ (getD_mem_rows rows m hml) g hg)
  -- the interior point
  set p := vsumOf gens with hp
  have hplen : p.length ≤ ncols := length_vsumOf ncols gens hglen
  have hp_eq : ∀ m, m < n → scalarProduct (rows.getD m default).v p = 0 :=
    fun m hm => sp_vsumOf_zero _ gens (hrow_eq m hm)
  have hp_pos : ∀ m, n ≤ m → m < rows.length → 1 ≤ scalarProduct (rows.getD m default).v p :=
    fun m hm1 hm2 => sp_vsumOf_pos _ gens (hrow_nn m hm2) (hproper m hm1 hm2)
  -- the vector violating only `c`
  obtain ⟨v, hvlen, hvo, hvc⟩ := hirr
  have hcv : scalarProduct c.v v < 0 := by
    unfold holds at hvc
    rw [hcle] at hvc
    simp only [Bool.false_eq_true, if_false] at hvc
    omega
  have hv_eq : ∀ m, m < n → scalarProduct (rows.getD m default).v v = 0 := by
    intro m hm
    have := hvo m (by omega) (by omega)
    unfold holds at this
    rw [heq m hm] at this
    simpa using this
  have hv_nn : ∀ m, n ≤ m → m < rows.length → m ≠ i → 0 ≤ scalarProduct (rows.getD m default).v v := by
    intro m hm1 hm2 hmi
    have := hvo m hm2 hmi
    unfold holds at this
    rw [hineq m hm1 hm2] at this
    simpa using this
  -- the point `z` in the relative interior of the facet of `c`
  set A := scalarProduct c.v p with hAdef
  set B := - scalarProduct c.v v with hBdef
  have hApos : 1 ≤ A := hp_pos i hi1 hi2
  have hBpos : 0 < B := by omega
  set z := linearCombine A B v p with hz
  have hzlen : z.length ≤ ncols := by rw [hz, length_linearCombine]; omega
  have hz_eq : ∀ m, m < n → scalarProduct (rows.getD m default).v z = 0 := by
    intro m hm
    rw [hz, sp_linearCombine, hv_eq m hm, hp_eq m hm]; ring
  have hz_c : scalarProduct c.v z = 0 := by
    rw [hz, sp_linearCombine]
    show A * scalarProduct c.v v + B * scalarProduct c.v p = 0
    rw [hBdef, hAdef]; ring
  have hz_pos : ∀ m, n ≤ m → m < rows.length → m ≠ i → 1 ≤ scalarProduct (rows.getD m default).v z := by
    intro m hm1 hm2 hmi
    rw [hz, sp_linearCombine]
    have h1 := hv_nn m hm1 hm2 hmi
    have h2 := hp_pos m hm1 hm2
    nlinarith
  have hzK : holdsAll rows z := by
    apply holdsAll_of_idx
    intro m hml
    unfold holds
    by_cases hmn : m < n
    · rw [heq m hmn]
      simp only [if_true]
      exact hz_eq m hmn
    · rw [hineq m (by omega) hml]
      simp only [Bool.false_eq_true, if_false]
      by_cases hmi : m = i
      · rw [hmi, ← hc, hz_c]
      · have := hz_pos m (by omega) hml hmi; omega
  -- `z_0 = 0`
  have hz0 : z.getD 0 0 = 0 := by
    have h1 := hpos z hzlen hzK
    have hcone := cone_of_generated gens z (hcomp z hzlen hzK)
    have hL : ∀ l ∈ linesOf gens, ∀ a ∈ [conOf c], a.f l = 0 := by
      rintro l ⟨g, hg, hle, rfl⟩ a ha
      have : a = conOf c := by simpa using ha
      rw [this, conOf_f_emb]
      have hs := hsound c hcmem g hg
      unfold satisfies at hs
      rw [if_pos (by simp [hle])] at hs
      rw [hs]; simp
    have hR : ∀ r ∈ raysOf gens, InP [conOf c] r := by
      rintro r ⟨g, hg, _, rfl⟩ a ha
      have : a = conOf c := by simpa using ha
      rw [this]
      exact (holds_iff_abs c g.v).mp (hgK g hg c hcmem)
    have hf := Cone.face [conOf c] hL hR hcone
    have h2 := cone_col_nonpos (linesOf gens) {r | r ∈ raysOf gens ∧ SatSub [conOf c] (emb z) r} (colVec 0) ?_ ?_ hf
    · rw [emb_colVec] at h2
      have : z.getD 0 0 ≤ 0 := by exact_mod_cast h2
      omega
    · rintro l ⟨g, hg, hle, rfl⟩
      rw [emb_colVec, hline0 g hg hle]; simp
    · rintro r ⟨⟨g, hg, hle, rfl⟩, hsub⟩
      rw [emb_colVec]
      have hsz := hsub (conOf c) (by simp) (by rw [conOf_f_emb, hz_c]; simp)
      rw [conOf_f_emb] at hsz
      have := hA g hg hle (by exact_mod_cast hsz)
      exact_mod_cast this
  -- (∗) on the kernel of the equalities and of `c`, column 0 vanishes
  have hstar : ∀ w : Vec, w.length ≤ ncols → (∀ m, m < n → scalarProduct (rows.getD m default).v w = 0) →
      scalarProduct c.v w = 0 → w.getD 0 0 = 0 := by
    intro w hwlen hwE hwc
    set M : Int := 1 + ((rows.map fun r => (scalarProduct r.v w).natAbs).sum : Nat) with hM
    have hMpos : 0 < M := by rw [hM]; omega
    have hbound : ∀ m, m < rows.length → |scalarProduct (rows.getD m default).v w| < M := by
      intro m hml
      have := natAbs_le_sum w rows _ (getD_mem_rows rows m hml)
      rw [hM, Int.abs_eq_natAbs]
      omega
    have key : ∀ s : Int, (s = 1 ∨ s = -1) → 0 ≤ s * w.getD 0 0 := by
      intro s hs
      set u := linearCombine M s z w with hu
      have hulen : u.length ≤ ncols := by rw [hu, length_linearCombine]; omega
      have huK : holdsAll rows u := by
        apply holdsAll_of_idx
        intro m hml
        unfold holds
        by_cases hmn : m < n
        · rw [heq m hmn]
          simp only [if_true]
          rw [hu, sp_linearCombine, hz_eq m hmn, hwE m hmn]; ring
        · rw [hineq m (by omega) hml]
          simp only [Bool.false_eq_true, if_false]
          rw [hu, sp_linearCombine]
          by_cases hmi : m = i
          · rw [hmi, ← hc, hz_c, hwc]; simp
          · have h1 := hz_pos m (by omega) hml hmi
            have h2 := hbound m hml
            have h3 := abs_lt.mp h2
            rcases hs with rfl | rfl <;> nlinarith
      have := hpos u hulen huK
      rw [hu, getD_linearCombine, hz0] at this
      simpa using this
    have k1 := key 1 (Or.inl rfl)
    have k2 := key (-1) (Or.inr rfl)
    omega
  -- `a · x_0 = b · (c x)` on the kernel of the equalities
  obtain ⟨g1, hg1, hg1pos⟩ := hproper i hi1 hi2
  rw [← hc] at hg1pos
  set a := scalarProduct c.v g1.v with ha
  set b := g1.v.getD 0 0 with hb
  have hrel : ∀ x : Vec, x.length ≤ ncols → (∀ m, m < n → scalarProduct (rows.getD m default).v x = 0) →
      a * x.getD 0 0 = scalarProduct c.v x * b := by
    intro x hxlen hxE
    have := hstar (linearCombine a (- scalarProduct c.v x) x g1.v)
      (by rw [length_linearCombine]; have := hglen g1 hg1; omega)
      (by intro m hm; rw [sp_linearCombine, hxE m hm, hrow_eq m hm g1 hg1]; ring)
      (by rw [sp_linearCombine]; ring)
    rw [getD_linearCombine] at this
    linarith
  obtain ⟨gp, hgp, hgple, hgp0⟩ := hpt
  have hbpos : 0 < b := by
    have h1 := hrel gp.v (hglen gp hgp) (fun m hm => hrow_eq m hm gp hgp)
    have h2 : 0 ≤ b := hg0 g1 hg1
    rcases Int.lt_or_eq_of_le h2 with h | h
    · exact h
    · exfalso
      rw [← h] at h1
      have : 0 < a * gp.v.getD 0 0 := Int.mul_pos hg1pos hgp0
      omega
  have hncols : 0 < ncols := by
    have h1 : 0 < gp.v.length := by
      by_contra hcz
      have hnil : gp.v = [] := List.length_eq_zero_iff.mp (by omega)
      rw [hnil] at hgp0
      simp at hgp0
    have h2 := hglen gp hgp
    omega
  -- the form `d = b·c − a·x_0`
  set d := linearCombine b (-a) c.v (colVec 0) with hd
  have hcol0 : ∀ j, j ≠ 0 → (colVec 0).getD j 0 = 0 := by
    intro j hj
    cases j with
    | zero => exact absurd rfl hj
    | succ j => simp [colVec]
  have hdJ : ∀ p, p < n → d.getD (J p) 0 = 0 := by
    intro p hp
    rw [hd, getD_linearCombine, hc, hJz p hp i hi1 hi2, hcol0 _ (hJ0 p hp)]; ring
  have hdker : ∀ x : Vec, x.length ≤ ncols →
      (∀ p, p < n → scalarProduct (rows.getD p default).v x = 0) → scalarProduct d x = 0 := by
    intro x hxlen hxE
    rw [sp_comm, hd, sp_linearCombine, sp_comm x c.v, sp_comm x (colVec 0), sp_colVec]
    have := hrel x hxlen hxE
    linarith
  have hdall := hK d hdJ hdker
  have hdj : ∀ j, j < ncols → b * c.v.getD j 0 - a * (colVec 0).getD j 0 = 0 := by
    intro j hj
    have := hdall (unitV ncols j) (by rw [unitV_length])
    rw [sp_unit ncols j d hj, hd, getD_linearCombine] at this
    linarith
  apply hnt
  constructor
  · intro j hj
    by_cases hjn : j < ncols
    · have := hdj j hjn
      rw [hcol0 j (by omega)] at this
      have h2 : b * c.v.getD j 0 = 0 := by linarith
      rcases Int.mul_eq_zero.mp h2 with h | h
      · omega
      · exact h
    · rw [List.getD_eq_getElem?_getD, List.getElem?_eq_none (by omega)]; rfl
  · have := hdj 0 hncols
    have h0 : (colVec 0).getD 0 0 = 1 := by simp [colVec]
    rw [h0] at this
    by_contra hneg
    have hlt : c.v.getD 0 0 < 0 := by omega
    have : b * c.v.getD 0 0 < 0 := Int.mul_neg_of_pos_of_neg hbpos hlt
    omega

end PPLV.Conv
