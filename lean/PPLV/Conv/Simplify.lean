import PPLV.Conv.Model
/-!
# C01 stage 3 — `Polyhedron::simplify`, `Polyhedron::minimize`, `Polyhedron::add_and_minimize`, code-shaped

* `simplify(sys, sat)`: `src/Polyhedron_simplify_templates.hh:82-341`, with
  `Linear_System::gauss` (`src/Linear_System_templates.hh:568-627`),
  `Linear_System::back_substitute` (`:629-731`), `Linear_System::remove_row(i)` with the default
  `keep_sorted = false` (`src/Linear_System_inlines.hh:370-411`: swap with the last row, pop).
* `minimize(con_to_gen, source, dest, sat)`: `src/Polyhedron_minimize_templates.hh:69-216`.
* `add_and_minimize(con_to_gen, source, dest, sat)`: `:370-452`.

The parallel arrays `sys.sys.rows[i]`, `sat[i]` (and `num_saturators[i]`, which for an inequality is
`num_cols_sat - sat[i].count_ones()`, :139, and is never read for an equality) are one list of records
`SRow`; `gauss` swaps rows of `sys` only (`swapRowOnly`).  Rows of `sat` beyond `num_rows` are garbage
that is dropped at :192 / :318: not represented.  (One consequence: in the independence loop :257-301
the code can read `sat[i]` for `i == num_rows` after `remove_row(j)` moved row `i` to `j`; this needs
an earlier `j < i` with `sat[j] == sat[i]` when `i` is the last row, which the outer loop excludes,
because `j` was the outer index before and would have removed it.)

`sort_rows()` at the head of `minimize` is in `PPLV/Conv/Sort.lean` (`minimizeUnsorted`).
NOT modelled: `sorted` flags, and the `std::length_error` of `Variable(j - 1)` for `j == 0` in
`gauss` / `back_substitute` (a pivot in column 0 means an inconsistent equality / a line with a
divisor; `minimize` returns before `simplify` in that case).
-/
namespace PPLV.Conv

/-- `sys.sys.rows[i]`, `sat[i]`. -/
structure SRow where
  row : LRow
  sat : BRow
deriving Repr, DecidableEq, Inhabited

/-- `swap(rows[i], rows[j])` inside `gauss`: `sat` is not touched. -/
def swapRowOnly (l : List SRow) (i j : Nat) : List SRow :=
  match l[i]?, l[j]? with
  | some a, some b => (l.set i { b with sat := a.sat }).set j { a with sat := b.sat }
  | _, _ => l

/-- `sys.remove_row(i); swap(sat[i], sat[num_rows])` after `--num_rows`: the last row takes the place. -/
def removeRowAt (l : List SRow) (i : Nat) : List SRow := (swapAt l i (l.length - 1)).dropLast

/-- :91-95. -/
def countLeadingLe : List SRow → Nat
  | [] => 0
  | r :: rs => if r.row.le then countLeadingLe rs + 1 else 0

/-- :116-141 — inequalities saturated by every generator become equalities. -/
def eqDetectLoop : Nat → List SRow → Nat → Nat → List SRow × Nat
  | 0, rows, nle, _ => (rows, nle)
  | n + 1, rows, nle, i =>
    let r := rows.getD i default
    if bitsEmpty r.sat then
      let r' : SRow := { r with row := rowSignNormalize { r.row with le := true } }   -- :121-123
      let rows := rows.set i r'
      let rows := if i != nle then swapAt rows i nle else rows                          -- :126-130
      eqDetectLoop n rows (nle + 1) (i + 1)
    else eqDetectLoop n rows nle (i + 1)

/-- one column of `gauss` (`Linear_System_templates.hh:590-617`). -/
def gaussColumn (nle j : Nat) (st : List SRow × Nat) : List SRow × Nat :=
  let (rows, rank) := st
  match (List.range' rank (nle - rank)).find? (fun i => (rows.getD i default).row.v.getD j 0 != 0) with
  | none => (rows, rank)
  | some i =>
    let rows := if i > rank then swapRowOnly rows i rank else rows
    let piv := (rows.getD rank default).row
    let rows := rows.mapIdx fun k r =>
      if i + 1 ≤ k ∧ k < nle ∧ r.row.v.getD j 0 ≠ 0 then { r with row := rowLinearCombine r.row piv j } else r
    (rows, rank + 1)

/-- `sys.gauss(n_lines_or_equalities)`: columns from the last to the first. -/
def gauss (ncols nle : Nat) (rows : List SRow) : List SRow × Nat :=
  (List.range ncols).reverse.foldl (fun st j => gaussColumn nle j st) (rows, 0)

/-- :169-179 — move the redundant equalities to the end. -/
def dropRedundantEqLoop : Nat → List SRow → Nat → Nat → Nat → List SRow
  | 0, rows, _, _, _ => rows
  | n + 1, rows, nle, redundant, erasing =>
    if redundant < nle ∧ erasing > nle then
      dropRedundantEqLoop n (removeRowAt rows redundant) nle (redundant + 1) (erasing - 1)
    else rows

/-- `num_saturators[i]` (:139). -/
def numSaturators (numColsSat : Nat) (r : SRow) : Nat := numColsSat - countOnes r.sat

/-- :235-246 — the saturation rule. -/
def satRuleLoop : Nat → Nat → Nat → List SRow → Nat → List SRow
  | 0, _, _, rows, _ => rows
  | n + 1, numColsSat, minSat, rows, i =>
    if i < rows.length then
      if numSaturators numColsSat (rows.getD i default) < minSat then
        satRuleLoop n numColsSat minSat (removeRowAt rows i) i
      else satRuleLoop n numColsSat minSat rows (i + 1)
    else rows

/-- `subset_or_equal(x, y, strict_subset)`. -/
def subsetOrEqualStrict (x y : BRow) : Bool × Bool :=
  (subsetOrEqual x y, subsetOrEqual x y && !subsetOrEqual y x)

/-- :257-301 — the inner loop of the independence rule; returns the rows and `redundant`. -/
def indepInner : Nat → List SRow → Nat → Nat → List SRow × Bool
  | 0, rows, _, _ => (rows, false)
  | n + 1, rows, i, j =>
    if j < rows.length then
      if i == j then indepInner n rows i (j + 1)
      else
        let (sub, strict) := subsetOrEqualStrict (rows.getD j default).sat (rows.getD i default).sat
        if sub then
          if strict then (rows, true)
          else indepInner n (removeRowAt rows j) i j
        else indepInner n rows i (j + 1)
    else (rows, false)

/-- :249-314 — the independence rule. -/
def indepLoop : Nat → Nat → List SRow → Nat → List SRow
  | 0, _, rows, _ => rows
  | n + 1, nle, rows, i =>
    if i < rows.length then
      let (rows', redundant) := indepInner (rows.length - nle + 1) rows i nle
      if redundant then indepLoop n nle (removeRowAt rows' i) i
      else indepLoop n nle rows' (i + 1)
    else rows

/-- last index holding a non-zero coefficient (0 if none): `expr.last_nonzero()`. -/
def lastNonzero (v : Vec) : Nat :=
  (v.zipIdx.foldl (fun acc p => if p.1 != 0 then p.2 else acc) 0)

/-- one `k` of `back_substitute` (`Linear_System_templates.hh:648-712`). -/
def backSubstituteStep (nle : Nat) (rows : List SRow) (k : Nat) : List SRow :=
  let rowK := (rows.getD k default).row
  let j := lastNonzero rowK.v
  -- the equalities above
  let rows := rows.mapIdx fun i r =>
    if i < k ∧ r.row.v.getD j 0 ≠ 0 then { r with row := rowLinearCombine r.row rowK j } else r
  -- :690-693
  let haveToNegate := rowK.v.getD j 0 < 0
  let rowK' : LRow := if haveToNegate then { rowK with v := rowK.v.map (- ·) } else rowK
  -- all the other rows
  rows.mapIdx fun i r =>
    if nle ≤ i ∧ r.row.v.getD j 0 ≠ 0 then { r with row := rowLinearCombine r.row rowK' j } else r

/-- `sys.back_substitute(n_lines_or_equalities)`. -/
def backSubstitute (nle : Nat) (rows : List SRow) : List SRow :=
  (List.range nle).reverse.foldl (backSubstituteStep nle) rows

/-- `Polyhedron::simplify(sys, sat)`; `ncols = sys_num_columns` (:230-232), `numColsSat = sat.num_columns()`.
Returns the simplified system beside its saturation rows, and the rank. -/
def simplify (ncols numColsSat : Nat) (sys : List SRow) : List SRow × Nat :=
  let numRows := sys.length
  let nle0 := countLeadingLe sys
  let (rows, nle) := eqDetectLoop (numRows - nle0) sys nle0 nle0                  -- :116-141
  let (rows, rank) := gauss ncols nle rows                                          -- :152
  let (rows, nle) :=
    if rank < nle then                                                              -- :160-196
      let rows := dropRedundantEqLoop (nle - rank) rows nle rank numRows
      (rows.take (numRows - (nle - rank)), rank)
    else (rows, nle)
  let minSaturators := usub (usub ncols nle) 1                                      -- :233-234
  let rows := satRuleLoop rows.length numColsSat minSaturators rows nle             -- :235-246
  let rows := indepLoop rows.length nle rows nle                                    -- :249-314
  (backSubstitute nle rows, nle)                                                    -- :335

/-! ## the drivers -/

/-- `Bit_Matrix::transpose_assign`: `nrows × ncols` to `ncols × nrows`. -/
def transpose (ncols : Nat) (m : List BRow) : List BRow :=
  (List.range ncols).map fun j => m.map fun r => bit r j

/-- identity matrix of lines (`Polyhedron_minimize_templates.hh:106-120`). -/
def identityLines (n : Nat) : List LRow :=
  (List.range n).map fun i => { le := true, v := (List.range n).map fun c => if c = i then 1 else 0 }

/-- :160-186 / :394-418 — is there a row with a positive divisor (C) / epsilon coefficient (NNC)
at or after `num_lines_or_equalities`? -/
def hasPoint (nnc : Bool) (ncols nle : Nat) (dest : List LRow) : Bool :=
  (dest.drop nle).any fun r => decide (r.v.getD (if nnc then ncols - 1 else 0) 0 > 0)

structure MinResult where
  empty : Bool
  source : List LRow
  dest : List LRow
  sat : List BRow      -- the matrix `sat` as the function leaves it
  rank : Nat           -- value returned by `simplify` (0 when it is not called)
deriving Repr, DecidableEq, Inhabited

/-- `Polyhedron::minimize(con_to_gen, source, dest, sat)` on a sorted `source`;
`sat0` is the caller's `sat`, left alone when the result is empty (:186-190). -/
def minimize (conToGen nnc : Bool) (ncols : Nat) (source : List LRow) (sat0 : List BRow) : MinResult :=
  let dest := identityLines ncols                                                   -- :98-120
  let tmpSat := List.replicate ncols (List.replicate source.length false)           -- :141
  let r := conversion ncols source 0 dest tmpSat ncols                              -- :149-150
  if !hasPoint nnc ncols r.nle r.dest then
    { empty := conToGen, source := r.source, dest := r.dest, sat := sat0, rank := 0 }
  else
    let sat := transpose r.source.length r.sat                                      -- :212
    let (rows, rank) := simplify ncols r.dest.length
                          (List.zipWith (fun a s => { row := a, sat := s }) r.source sat)   -- :213
    { empty := false, source := rows.map (·.row), dest := r.dest, sat := rows.map (·.sat), rank := rank }

/-- `Polyhedron::add_and_minimize(con_to_gen, source, dest, sat)` (:370-452); `start` is
`source.first_pending_row()`, the rows of `sat` are indexed by `dest`. -/
def addAndMinimize (conToGen nnc : Bool) (ncols : Nat) (source : List LRow) (start : Nat) (dest : List LRow)
    (sat : List BRow) : MinResult :=
  -- :382  pad with columns of zeroes
  let sat := sat.map fun r => (r ++ List.replicate (source.length - r.length) false).take source.length
  let nle := (dest.filter (·.le)).length                                            -- :389
  let r := conversion ncols source start dest sat nle                               -- :386-389
  if !hasPoint nnc ncols r.nle r.dest then
    { empty := conToGen, source := r.source, dest := r.dest, sat := r.sat, rank := 0 }
  else
    let satT := transpose r.source.length r.sat                                     -- :446
    let (rows, rank) := simplify ncols r.dest.length
                          (List.zipWith (fun a s => { row := a, sat := s }) r.source satT)  -- :447
    { empty := false, source := rows.map (·.row), dest := r.dest,
      sat := transpose r.dest.length (rows.map (·.sat)), rank := rank }            -- :449

end PPLV.Conv
