import PPLV.Conv.ProofsSimp5
import Mathlib.Algebra.BigOperators.Group.List.Basic
/-!
# C01 stage 3 — `simplify`: the detection of the implicit equalities `eqDetectLoop`
-/
namespace PPLV.Conv

theorem holdsAll_map_iff (rows : List SRow) (x : Vec) :
    holdsAll (rows.map (·.row)) x ↔ ∀ s ∈ rows, holds s.row x := by
  simp [holdsAll]

/-- a functional that vanishes on the generators vanishes on what they generate. -/
theorem generated_sp_zero (gens : List LRow) (x c : Vec) (hg : Generated gens x)
    (h : ∀ g ∈ gens, scalarProduct c g.v = 0) : scalarProduct c x = 0 := by
  obtain ⟨den, coef, hden, _, _, hsum⟩ := hg
  have e := hsum c
  have hz : ((List.range gens.length).map fun i => coef.getD i 0 * scalarProduct c (gens.getD i default).v).sum = 0 := by
    apply List.sum_eq_zero
    intro t ht
    rw [List.mem_map] at ht
    obtain ⟨i, hi, rfl⟩ := ht
    rw [List.mem_range] at hi
    have hm : gens.getD i default ∈ gens := by
      rw [List.mem_iff_getElem?]
      exact ⟨i, getElem?_of_lt_getD gens i default hi⟩
    rw [h _ hm, mul_zero]
  rw [hz] at e
  rcases mul_eq_zero.1 e with h1 | h1
  · omega
  · exact h1

/-- the row written at :121-123. -/
def eqRow (s : SRow) : SRow := { s with row := rowSignNormalize { s.row with le := true } }

theorem eqRow_sat (s : SRow) : (eqRow s).sat = s.sat := rfl
theorem eqRow_le (s : SRow) : (eqRow s).row.le = true := rfl

theorem eqRow_sp_iff (s : SRow) (x : Vec) :
    scalarProduct (eqRow s).row.v x = 0 ↔ scalarProduct s.row.v x = 0 := by
  have e : (eqRow s).row.v = signNormalize s.row.v := by simp [eqRow, rowSignNormalize]
  rw [e]
  obtain ⟨c, hc, hs⟩ := sp_signNormalize s.row.v
  rw [sp_comm, hs x, sp_comm x]
  rcases hc with hc | hc <;> subst hc <;> simp

theorem eqRow_holds_iff (s : SRow) (x : Vec) :
    holds (eqRow s).row x ↔ scalarProduct s.row.v x = 0 := by
  unfold holds
  rw [if_pos (eqRow_le s)]
  exact eqRow_sp_iff s x

/-- the rows with an empty saturation row are saturated by every generator. -/
def EmptySatSaturated (gens : List LRow) (rows : List SRow) : Prop :=
  ∀ r ∈ rows, bitsEmpty r.sat = true → ∀ g ∈ gens, scalarProduct r.row.v g.v = 0

/-- the rows after one detected equality. -/
def eqStepRows (rows : List SRow) (nle i : Nat) : List SRow :=
  if i != nle then swapAt (rows.set i (eqRow (rows.getD i default))) i nle
  else rows.set i (eqRow (rows.getD i default))

theorem eqDetectLoop_succ_pos (n : Nat) (rows : List SRow) (nle i : Nat)
    (h : bitsEmpty (rows.getD i default).sat = true) :
    eqDetectLoop (n + 1) rows nle i = eqDetectLoop n (eqStepRows rows nle i) (nle + 1) (i + 1) := by
  conv_lhs => unfold eqDetectLoop
  simp only [h, if_true]
  rfl

theorem eqDetectLoop_succ_neg (n : Nat) (rows : List SRow) (nle i : Nat)
    (h : ¬ bitsEmpty (rows.getD i default).sat = true) :
    eqDetectLoop (n + 1) rows nle i = eqDetectLoop n rows nle (i + 1) := by
  conv_lhs => unfold eqDetectLoop
  simp only [h, Bool.false_eq_true, if_false]

theorem mem_eqStepRows (rows : List SRow) (nle i : Nat) (s : SRow) :
    s ∈ eqStepRows rows nle i ↔ s ∈ rows.set i (eqRow (rows.getD i default)) := by
  unfold eqStepRows
  split
  · exact mem_swapAt _ _ _ _
  · exact Iff.rfl

/-- a new row is an old row or the equality made of row `i`. -/
theorem mem_set_eqRow (rows : List SRow) (i : Nat) (s : SRow)
    (h : s ∈ rows.set i (eqRow (rows.getD i default))) :
    s ∈ rows ∨ (i < rows.length ∧ s = eqRow (rows.getD i default)) := by
  by_cases hi : i < rows.length
  · rcases List.mem_or_eq_of_mem_set h with h1 | h1
    · exact Or.inl h1
    · exact Or.inr ⟨hi, h1⟩
  · rw [List.set_eq_of_length_le (Nat.le_of_not_lt hi)] at h
    exact Or.inl h

/-- an old row is still there or it was row `i` and its equality is there. -/
theorem mem_set_eqRow' (rows : List SRow) (i : Nat) (s : SRow) (h : s ∈ rows) :
    s ∈ rows.set i (eqRow (rows.getD i default)) ∨
      (s = rows.getD i default ∧ eqRow s ∈ rows.set i (eqRow (rows.getD i default))) := by
  obtain ⟨m, hm, rfl⟩ := List.mem_iff_getElem.1 h
  by_cases e : m = i
  · subst e
    right
    have e1 : rows.getD m default = rows[m] :=
      getD_of_getElem? rows m rows[m] default (List.getElem?_eq_getElem hm)
    refine ⟨e1.symm, ?_⟩
    rw [e1, List.mem_iff_getElem?]
    exact ⟨m, by rw [List.getElem?_set_self hm]⟩
  · left
    rw [List.mem_iff_getElem?]
    exact ⟨m, by rw [List.getElem?_set_ne (Ne.symm e), List.getElem?_eq_getElem hm]⟩

theorem getD_mem (rows : List SRow) (i : Nat) (hi : i < rows.length) : rows.getD i default ∈ rows := by
  rw [List.mem_iff_getElem?]
  exact ⟨i, getElem?_of_lt_getD rows i default hi⟩

theorem eqStepRows_saturated (gens : List LRow) (rows : List SRow) (nle i : Nat)
    (hb : bitsEmpty (rows.getD i default).sat = true) (hH : EmptySatSaturated gens rows) :
    EmptySatSaturated gens (eqStepRows rows nle i) := by
  intro r hr hre g hg
  rw [mem_eqStepRows] at hr
  rcases mem_set_eqRow rows i r hr with h1 | ⟨hi, h1⟩
  · exact hH r h1 hre g hg
  · subst h1
    rw [eqRow_sp_iff]
    exact hH _ (getD_mem rows i hi) hb g hg

theorem eqStepRows_sound (gens : List LRow) (rows : List SRow) (nle i : Nat)
    (hb : bitsEmpty (rows.getD i default).sat = true) (hH : EmptySatSaturated gens rows)
    (x : Vec) (hx : Generated gens x) (h : ∀ s ∈ rows, holds s.row x) :
    ∀ s ∈ eqStepRows rows nle i, holds s.row x := by
  intro s hs
  rw [mem_eqStepRows] at hs
  rcases mem_set_eqRow rows i s hs with h1 | ⟨hi, h1⟩
  · exact h s h1
  · subst h1
    rw [eqRow_holds_iff]
    exact generated_sp_zero gens x _ hx (hH _ (getD_mem rows i hi) hb)

theorem eqStepRows_complete (rows : List SRow) (nle i : Nat) (x : Vec)
    (h : ∀ s ∈ eqStepRows rows nle i, holds s.row x) : ∀ s ∈ rows, holds s.row x := by
  intro s hs
  rcases mem_set_eqRow' rows i s hs with h1 | ⟨_, h1⟩
  · exact h s ((mem_eqStepRows rows nle i s).2 h1)
  · have := h _ ((mem_eqStepRows rows nle i _).2 h1)
    rw [eqRow_holds_iff] at this
    unfold holds
    split
    · exact this
    · rw [this]

/-- the implicit equalities: nothing generated by `gens` is lost, nothing is gained. -/
theorem eqDetectLoop_sets (gens : List LRow) : ∀ (n : Nat) (rows : List SRow) (nle i : Nat),
    EmptySatSaturated gens rows →
    EmptySatSaturated gens (eqDetectLoop n rows nle i).1 ∧
    (∀ x, Generated gens x → (∀ s ∈ rows, holds s.row x) → ∀ s ∈ (eqDetectLoop n rows nle i).1, holds s.row x) ∧
    (∀ x, (∀ s ∈ (eqDetectLoop n rows nle i).1, holds s.row x) → ∀ s ∈ rows, holds s.row x)
  | 0, rows, nle, i => fun hH => ⟨hH, fun _ _ h => h, fun _ h => h⟩
  | n + 1, rows, nle, i => fun hH => by
    by_cases hb : bitsEmpty (rows.getD i default).sat = true
    · rw [eqDetectLoop_succ_pos n rows nle i hb]
      obtain ⟨i1, i2, i3⟩ := eqDetectLoop_sets gens n (eqStepRows rows nle i) (nle + 1) (i + 1)
        (eqStepRows_saturated gens rows nle i hb hH)
      exact ⟨i1, fun x hx h => i2 x hx (eqStepRows_sound gens rows nle i hb hH x hx h),
        fun x h => eqStepRows_complete rows nle i x (i3 x h)⟩
    · rw [eqDetectLoop_succ_neg n rows nle i hb]
      exact eqDetectLoop_sets gens n rows nle (i + 1) hH

theorem eqDetectLoop_sound (gens : List LRow) (n : Nat) (rows : List SRow) (nle i : Nat)
    (hH : ∀ r ∈ rows, bitsEmpty r.sat = true → ∀ g ∈ gens, scalarProduct r.row.v g.v = 0) :
    ∀ x, Generated gens x → holdsAll (rows.map (·.row)) x →
      holdsAll ((eqDetectLoop n rows nle i).1.map (·.row)) x := by
  intro x hx
  rw [holdsAll_map_iff, holdsAll_map_iff]
  exact (eqDetectLoop_sets gens n rows nle i hH).2.1 x hx

theorem eqDetectLoop_complete (n : Nat) (rows : List SRow) (nle i : Nat) :
    ∀ x, holdsAll ((eqDetectLoop n rows nle i).1.map (·.row)) x → holdsAll (rows.map (·.row)) x := by
  intro x
  rw [holdsAll_map_iff, holdsAll_map_iff]
  exact (eqDetectLoop_sets [] n rows nle i (fun _ _ _ g hg => by cases hg)).2.2 x

/-! ## the layout after the detection -/

theorem countLeadingLe_spec : ∀ (l : List SRow),
    countLeadingLe l ≤ l.length ∧ ∀ i, i < countLeadingLe l → (l.getD i default).row.le = true
  | [] => ⟨Nat.le_refl _, fun i hi => by simp [countLeadingLe] at hi⟩
  | r :: rs => by
    obtain ⟨h1, h2⟩ := countLeadingLe_spec rs
    unfold countLeadingLe
    split
    · rename_i hr
      refine ⟨by simp; omega, fun i hi => ?_⟩
      cases i with
      | zero => simpa using hr
      | succ i => simpa using h2 i (by omega)
    · exact ⟨Nat.zero_le _, fun i hi => by omega⟩

theorem eqStepRows_GInv (rows : List SRow) (nle i : Nat) (hni : nle ≤ i) (hi : i < rows.length)
    (hI : GInv nle rows) : (eqStepRows rows nle i).length = rows.length ∧ GInv (nle + 1) (eqStepRows rows nle i) := by
  have hl : (rows.set i (eqRow (rows.getD i default))).length = rows.length := List.length_set
  unfold eqStepRows
  split
  · rename_i hne
    have hne' : i ≠ nle := by simpa using hne
    refine ⟨by rw [length_swapAt, hl], by rw [length_swapAt, hl]; omega, fun m hm => ?_⟩
    rw [getD_swapAt _ i nle m (by rw [hl]; exact hi) (by rw [hl]; omega)]
    split
    · rw [getD_of_getElem? _ i _ default (List.getElem?_set_self hi)]; rfl
    · have h1 : m ≠ i := by omega
      rw [if_neg h1]
      have := hI.2 m (by omega)
      rw [List.getD_eq_getElem?_getD, List.getElem?_set_ne (Ne.symm h1), ← List.getD_eq_getElem?_getD]
      exact this
  · rename_i he
    have he' : i = nle := by simpa using he
    refine ⟨hl, by rw [hl]; omega, fun m hm => ?_⟩
    by_cases h1 : m = i
    · subst h1
      rw [getD_of_getElem? _ m _ default (List.getElem?_set_self hi)]; rfl
    · have := hI.2 m (by omega)
      rw [List.getD_eq_getElem?_getD, List.getElem?_set_ne (Ne.symm h1), ← List.getD_eq_getElem?_getD]
      exact this

/-- after the detection the first `nle` rows are equalities. -/
theorem eqDetectLoop_GInv : ∀ (n : Nat) (rows : List SRow) (nle i : Nat),
    nle ≤ i → i + n ≤ rows.length → GInv nle rows →
    (eqDetectLoop n rows nle i).1.length = rows.length ∧
      GInv (eqDetectLoop n rows nle i).2 (eqDetectLoop n rows nle i).1
  | 0, rows, nle, i => fun _ _ hI => ⟨rfl, hI⟩
  | n + 1, rows, nle, i => fun hni hin hI => by
    by_cases hb : bitsEmpty (rows.getD i default).sat = true
    · rw [eqDetectLoop_succ_pos n rows nle i hb]
      obtain ⟨s1, s2⟩ := eqStepRows_GInv rows nle i hni (by omega) hI
      obtain ⟨r1, r2⟩ := eqDetectLoop_GInv n (eqStepRows rows nle i) (nle + 1) (i + 1) (by omega)
        (by rw [s1]; omega) s2
      exact ⟨r1.trans s1, r2⟩
    · rw [eqDetectLoop_succ_neg n rows nle i hb]
      exact eqDetectLoop_GInv n rows nle (i + 1) (by omega) (by omega) hI

end PPLV.Conv
