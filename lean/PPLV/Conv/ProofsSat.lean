import PPLV.Conv.ProofsSound1
import PPLV.Conv.ProofsBits
import Mathlib.Tactic.Linarith
/-!
# The saturation matrix kept by `conversion` never goes stale: helpers and the line case
-/
namespace PPLV.Conv

theorem memC {α : Type} {l : List α} {m : Nat} {d : α} (h : l[m]? = some d) : d ∈ l :=
  List.mem_iff_getElem?.mpr ⟨m, h⟩

/-- the bits `sat` are the saturation bits of `row` against the columns `kept`. -/
def BitsOK (kept : List LRow) (sat : BRow) (row : LRow) : Prop :=
  ∀ j, bit sat j = (decide (j < kept.length) && decide (scalarProduct (kept.getD j default).v row.v ≠ 0))

theorem rowsSatCorrect_iff (kept : List LRow) (rows : List DRow) :
    RowsSatCorrect kept rows ↔ ∀ d ∈ rows, BitsOK kept d.sat d.row := Iff.rfl

theorem getD_mem_of_lt (kept : List LRow) (j : Nat) (h : j < kept.length) : kept.getD j default ∈ kept := by
  rw [List.getD_eq_getElem?_getD, List.getElem?_eq_getElem h]
  exact List.getElem_mem h

theorem BitsOK_of_zero (kept : List LRow) (sat : BRow) (row : LRow) (h : ∀ j, bit sat j = false)
    (hz : ∀ s ∈ kept, scalarProduct s.v row.v = 0) : BitsOK kept sat row := by
  intro j
  rw [h j]
  by_cases hj : j < kept.length
  · have := hz _ (getD_mem_of_lt kept j hj)
    rw [this]; simp
  · simp [hj]

theorem bits_false_of_zero (kept : List LRow) (sat : BRow) (row : LRow) (h : BitsOK kept sat row)
    (hz : ∀ s ∈ kept, scalarProduct s.v row.v = 0) : ∀ j, bit sat j = false := by
  intro j
  rw [h j]
  by_cases hj : j < kept.length
  · have := hz _ (getD_mem_of_lt kept j hj)
    rw [this]; simp
  · simp [hj]

theorem BitsOK_congr (kept : List LRow) (sat : BRow) (row row' : LRow) (h : BitsOK kept sat row)
    (hz : ∀ s ∈ kept, (scalarProduct s.v row'.v = 0 ↔ scalarProduct s.v row.v = 0)) : BitsOK kept sat row' := by
  intro j
  rw [h j]
  by_cases hj : j < kept.length
  · have := hz _ (getD_mem_of_lt kept j hj)
    simp only [hj, decide_true, Bool.true_and, ne_eq, decide_not]
    rw [decide_eq_decide.mpr this]
  · simp [hj]

theorem getD_append_lt (kept : List LRow) (x : LRow) (j : Nat) (h : j < kept.length) :
    (kept ++ [x]).getD j default = kept.getD j default := by
  simp [List.getD_eq_getElem?_getD, List.getElem?_append_left h]

theorem getD_append_eq (kept : List LRow) (x : LRow) : (kept ++ [x]).getD kept.length default = x := by
  simp [List.getD_eq_getElem?_getD]

/-- the new column is not set, rightly. -/
theorem extend_false (kept : List LRow) (srcK : LRow) (sat : BRow) (row : LRow) (h : BitsOK kept sat row)
    (hz : scalarProduct srcK.v row.v = 0) : BitsOK (kept ++ [srcK]) sat row := by
  intro j
  rw [h j]
  rcases Nat.lt_trichotomy j kept.length with hj | hj | hj
  · rw [getD_append_lt kept srcK j hj]
    have : j < (kept ++ [srcK]).length := by simp; omega
    rw [decide_eq_true hj, decide_eq_true this]
  · subst hj
    rw [getD_append_eq]
    simp [hz]
  · have : ¬ j < (kept ++ [srcK]).length := by simp; omega
    have h2 : ¬ j < kept.length := by omega
    rw [decide_eq_false h2, decide_eq_false this]; rfl

/-- the new column is set, rightly. -/
theorem extend_true (kept : List LRow) (srcK : LRow) (sat : BRow) (row : LRow) (h : BitsOK kept sat row)
    (hz : scalarProduct srcK.v row.v ≠ 0) : BitsOK (kept ++ [srcK]) (setBit sat kept.length) row := by
  intro j
  rw [bit_setBit, h j]
  rcases Nat.lt_trichotomy j kept.length with hj | hj | hj
  · rw [getD_append_lt kept srcK j hj]
    have : j < (kept ++ [srcK]).length := by simp; omega
    have h2 : j ≠ kept.length := by omega
    rw [decide_eq_false h2, decide_eq_true hj, decide_eq_true this]; rfl
  · subst hj
    rw [getD_append_eq]
    simp [hz]
  · have : ¬ j < (kept ++ [srcK]).length := by simp; omega
    have h2 : ¬ j < kept.length := by omega
    have h3 : j ≠ kept.length := by omega
    rw [decide_eq_false h3, decide_eq_false h2, decide_eq_false this]; rfl

/-! ## the combined record -/

theorem combRow_eqn (p d0 : DRow) (hppos : 0 < p.sp) :
    ∃ g c nI nO : Int, g ≠ 0 ∧ 0 < c ∧ 0 < nO ∧ d0.sp = c * nI ∧ p.sp = c * nO ∧
      ∀ s : Vec, nO * scalarProduct s d0.row.v - nI * scalarProduct s p.row.v
        = g * scalarProduct s (combRow p.row p.sp d0.row d0.sp).v := by
  obtain ⟨g, c, nI, nO, hg, hgpos, hc, h1, h2, _, _, hle, hs⟩ :=
    sp_combineWithNle { row := p.row, sp := p.sp, sat := [] } { row := d0.row, sp := d0.sp, sat := [] } (by simpa using ne_of_gt hppos)
  simp only at h1 h2
  have hnO : 0 < nO := by
    by_contra hneg
    have : nO ≤ 0 := by omega
    have : c * nO ≤ 0 := Int.mul_nonpos_of_nonneg_of_nonpos (le_of_lt hc) this
    omega
  exact ⟨g, c, nI, nO, hg, hc, hnO, h1, h2, hs⟩

theorem combRow_zero_iff (p d0 : DRow) (hppos : 0 < p.sp) (s : Vec) (hp : scalarProduct s p.row.v = 0) :
    scalarProduct s (combRow p.row p.sp d0.row d0.sp).v = 0 ↔ scalarProduct s d0.row.v = 0 := by
  obtain ⟨g, c, nI, nO, hg, hc, hnO, h1, h2, hs⟩ := combRow_eqn p d0 hppos
  have e := hs s
  rw [hp] at e
  constructor
  · intro h
    rw [h] at e
    have : nO * scalarProduct s d0.row.v = 0 := by linarith
    rcases Int.mul_eq_zero.mp this with h3 | h3
    · omega
    · exact h3
  · intro h
    rw [h] at e
    have : g * scalarProduct s (combRow p.row p.sp d0.row d0.sp).v = 0 := by linarith
    rcases Int.mul_eq_zero.mp this with h3 | h3
    · exact absurd h3 hg
    · exact h3

theorem combRow_srcK (srcK : LRow) (p d0 : DRow) (hppos : 0 < p.sp) (hpsp : p.sp = scalarProduct srcK.v p.row.v)
    (hsp0 : d0.sp = scalarProduct srcK.v d0.row.v) :
    scalarProduct srcK.v (combRow p.row p.sp d0.row d0.sp).v = 0 := by
  obtain ⟨g, c, nI, nO, hg, hc, hnO, h1, h2, hs⟩ := combRow_eqn p d0 hppos
  have e := hs srcK.v
  have e1 : scalarProduct srcK.v d0.row.v = c * nI := by rw [← hsp0]; exact h1
  have e2 : scalarProduct srcK.v p.row.v = c * nO := by rw [← hpsp]; exact h2
  rw [e1, e2] at e
  have : g * scalarProduct srcK.v (combRow p.row p.sp d0.row d0.sp).v = 0 := by
    have : nO * (c * nI) - nI * (c * nO) = 0 := by ring
    linarith
  rcases Int.mul_eq_zero.mp this with h | h
  · exact absurd h hg
  · exact h

/-! ## the saturation rows of `lineRows3` -/

/-- the rows of `lineCase` after :483-505 (set + swap). -/
def lineRowsB (st : CState) (inz : Nat) : List DRow :=
  let rows := st.rows.set inz (linePivot (st.rows.getD inz default))
  if inz != st.nle - 1 then swapRowSp rows inz (st.nle - 1) else rows

theorem lineRows3_eqB (st : CState) (inz : Nat) :
    lineRows3 st inz = (lineRowsB st inz).mapIdx fun i d =>
      if ((inz ≤ i ∧ i < st.nle - 1) ∨ st.nle - 1 + 1 ≤ i) ∧ d.sp ≠ 0
      then combineWithNle ((lineRowsB st inz).getD (st.nle - 1) default) d else d := rfl

theorem linePivot_sat (r : DRow) : (linePivot r).sat = r.sat := by
  unfold linePivot; split <;> rfl

theorem lineRowsB_sat (st : CState) (inz : Nat) (hinz : inz < st.nle) (hn : st.nle ≤ st.rows.length) (m : Nat) (b : DRow)
    (h : (lineRowsB st inz)[m]? = some b) :
    ∃ dm, st.rows[m]? = some dm ∧ b.sat = dm.sat ∧ (st.nle ≤ m → b = dm) := by
  have hi : inz < st.rows.length := by omega
  have hj : st.nle - 1 < st.rows.length := by omega
  have hgD : st.rows.getD inz default = st.rows[inz] := by
    rw [List.getD_eq_getElem?_getD, List.getElem?_eq_getElem hi]; rfl
  unfold lineRowsB at h
  simp only at h
  by_cases he : inz = st.nle - 1
  · simp only [he, bne_self_eq_false, Bool.false_eq_true, if_false] at h
    rw [List.getElem?_set] at h
    by_cases hm : st.nle - 1 = m
    · subst hm
      simp only [if_true, hj] at h
      have hb : b = linePivot (st.rows.getD (st.nle - 1) default) := by simpa using h.symm
      refine ⟨st.rows[st.nle - 1], List.getElem?_eq_getElem hj, ?_, fun hc => by omega⟩
      rw [hb, linePivot_sat, List.getD_eq_getElem?_getD, List.getElem?_eq_getElem hj]; rfl
    · simp only [hm, if_false] at h
      exact ⟨b, h, rfl, fun _ => rfl⟩
  · have hne : (inz != st.nle - 1) = true := by simpa using he
    simp only [hne, if_true] at h
    have hlen : (st.rows.set inz (linePivot (st.rows.getD inz default))).length = st.rows.length := by simp
    rw [getElem?_swapRowSp _ _ _ _ (by rw [hlen]; exact hi) (by rw [hlen]; exact hj)] at h
    by_cases hm : m = st.nle - 1
    · simp only [hm, if_true] at h
      have hb := (Option.some.inj h).symm
      refine ⟨st.rows[st.nle - 1], by rw [hm]; exact List.getElem?_eq_getElem hj, ?_, fun hc => by omega⟩
      subst hb
      simp [List.getElem_set_ne he]
    · simp only [hm, if_false] at h
      by_cases hm2 : m = inz
      · simp only [hm2, if_true] at h
        have hb := (Option.some.inj h).symm
        refine ⟨st.rows[inz], by rw [hm2]; exact List.getElem?_eq_getElem hi, ?_, fun hc => by omega⟩
        subst hb
        simp [linePivot_sat, hi]
      · simp only [hm2, if_false] at h
        rw [List.getElem?_set] at h
        simp only [Ne.symm hm2, if_false] at h
        exact ⟨b, h, rfl, fun _ => rfl⟩

theorem combineWithNle_sat (a d : DRow) : (combineWithNle a d).sat = d.sat := rfl

/-- companion of `lineRows3_index` for the saturation rows (they stay at their index), and the records
beyond the lines (index `≥ nle`), which stay where they are. -/
theorem lineRows3_sat (st : CState) (inz : Nat) (hinz : inz < st.nle) (hn : st.nle ≤ st.rows.length) (m : Nat) (d' : DRow)
    (h : (lineRows3 st inz)[m]? = some d') :
    let p := linePivot (st.rows.getD inz default)
    ∃ dm, st.rows[m]? = some dm ∧ d'.sat = dm.sat ∧
      (st.nle ≤ m → (dm.sp = 0 ∧ d'.row = dm.row) ∨ (dm.sp ≠ 0 ∧ d'.row = combRow p.row p.sp dm.row dm.sp)) := by
  intro p
  rw [lineRows3_eqB, List.getElem?_mapIdx] at h
  match hb : (lineRowsB st inz)[m]? with
  | none => rw [hb] at h; simp at h
  | some b =>
    rw [hb] at h
    simp only [Option.map_some, Option.some.injEq] at h
    obtain ⟨dm, h1, h2, h3⟩ := lineRowsB_sat st inz hinz hn m b hb
    refine ⟨dm, h1, ?_, ?_⟩
    · rw [← h, ← h2]; split
      · rfl
      · rfl
    · intro hm
      have hc1 : st.nle - 1 + 1 ≤ m := by omega
      have hbd := h3 hm
      subst hbd
      have hj : st.nle - 1 < st.rows.length := by omega
      have hlenB : (lineRowsB st inz).length = st.rows.length := by
        unfold lineRowsB; simp only
        split
        · rw [length_swapRowSp]; simp
        · simp
      obtain ⟨dn, hdn⟩ : ∃ dn, (lineRowsB st inz)[st.nle - 1]? = some dn := by
        rw [List.getElem?_eq_getElem (by rw [hlenB]; exact hj)]; exact ⟨_, rfl⟩
      have hpiv := lineRowsB_index st inz hinz hn (st.nle - 1) dn hdn
      have hdnrow : dn.row = p.row ∧ dn.sp = p.sp := by
        rcases hpiv with ⟨_, h1, h2⟩ | ⟨h1, _⟩
        · exact ⟨h1, h2⟩
        · exact absurd rfl h1
      have hgetD : (lineRowsB st inz).getD (st.nle - 1) default = dn := by
        rw [List.getD_eq_getElem?_getD, hdn]; rfl
      rw [hgetD] at h
      by_cases hz : b.sp = 0
      · left
        have hc : ¬ (((inz ≤ m ∧ m < st.nle - 1) ∨ st.nle - 1 + 1 ≤ m) ∧ b.sp ≠ 0) := fun hcc => hcc.2 hz
        rw [if_neg hc] at h
        exact ⟨hz, by rw [← h]⟩
      · right
        have hc : (((inz ≤ m ∧ m < st.nle - 1) ∨ st.nle - 1 + 1 ≤ m) ∧ b.sp ≠ 0) := ⟨Or.inr hc1, hz⟩
        rw [if_pos hc] at h
        refine ⟨hz, ?_⟩
        rw [← h, combineWithNle_row, hdnrow.1, hdnrow.2]

/-! ## the line case -/

theorem lineRows3_Q (srcK : LRow) (kept : List LRow) (st : CState) (inz : Nat) (H : StepHyp srcK st kept)
    (hinz : inz < st.nle) (hbefore : ∀ m d, m < inz → st.rows[m]? = some d → d.sp = 0)
    (hnz : ∃ r, st.rows[inz]? = some r ∧ r.sp ≠ 0) (hsat : RowsSatCorrect kept st.rows) :
    ∀ m d', (lineRows3 st inz)[m]? = some d' →
      BitsOK kept d'.sat d'.row ∧ (m ≠ st.nle - 1 → scalarProduct srcK.v d'.row.v = 0) ∧
      (m = st.nle - 1 → scalarProduct srcK.v d'.row.v ≠ 0) := by
  intro m d' hd'
  obtain ⟨r, hr, hrnz⟩ := hnz
  have hrD : st.rows.getD inz default = r := by
    rw [List.getD_eq_getElem?_getD, hr]; rfl
  have hrmem := memC hr
  have hrle : r.row.le = true := by
    have := H.hl inz r hr
    simpa [hinz] using this
  obtain ⟨pl, ppos, psp, pP⟩ := linePivot_facts srcK kept r (H.hsp r hrmem) hrnz hrle (H.hP r hrmem)
  have hidx := lineRows3_index st inz hinz H.hn m d' hd'
  obtain ⟨dm, hdm, hsatm, htail⟩ := lineRows3_sat st inz hinz H.hn m d' hd'
  simp only [hrD] at hidx htail
  have hdmmem := memC hdm
  have hdmOK : BitsOK kept dm.sat dm.row := hsat dm hdmmem
  have lineFalse : m < st.nle → ∀ j, bit d'.sat j = false := by
    intro hlt
    rw [hsatm]
    apply bits_false_of_zero kept _ _ hdmOK
    intro s hs
    exact satisfies_line_zero s dm.row (H.hP dm hdmmem s hs) (Or.inr (by rw [H.hl m dm hdm]; simpa using hlt))
  rcases hidx with ⟨hm, hrow, hsp⟩ | ⟨hm, m0, d0, hm0, hd0, hflag, hcases⟩
  · refine ⟨?_, fun h => absurd hm h, fun _ => ?_⟩
    · apply BitsOK_of_zero
      · exact lineFalse (by omega)
      · intro s hs; rw [hrow]; exact pP s hs
    · rw [hrow, ← psp]; omega
  · have hd0mem := memC hd0
    have hrc : (d'.row = d0.row ∧ d0.sp = 0) ∨ d'.row = combRow (linePivot r).row (linePivot r).sp d0.row d0.sp := by
      rcases hcases with ⟨hz, hrow, _⟩ | ⟨_, _, hrow, _⟩ | ⟨hlt, hmm, hrow, _⟩
      · exact Or.inl ⟨hrow, hz⟩
      · exact Or.inr hrow
      · subst hmm; exact Or.inl ⟨hrow, hbefore m0 d0 hlt hd0⟩
    refine ⟨?_, fun _ => ?_, fun h => absurd h hm⟩
    · by_cases hlt : m < st.nle
      · have hm0lt : m0 < st.nle := by
          have : m < st.nle - 1 := by omega
          simpa [this] using hflag
        have hd0z : ∀ s ∈ kept, scalarProduct s.v d0.row.v = 0 := fun s hs =>
          satisfies_line_zero s d0.row (H.hP d0 hd0mem s hs) (Or.inr (by rw [H.hl m0 d0 hd0]; simpa using hm0lt))
        apply BitsOK_of_zero _ _ _ (lineFalse hlt)
        intro s hs
        rcases hrc with ⟨hrow, _⟩ | hrow
        · rw [hrow]; exact hd0z s hs
        · rw [hrow]; exact (combRow_zero_iff (linePivot r) d0 ppos s.v (pP s hs)).mpr (hd0z s hs)
      · rcases htail (by omega) with ⟨_, hrow⟩ | ⟨_, hrow⟩
        · rw [hsatm, hrow]; exact hdmOK
        · rw [hsatm, hrow]
          apply BitsOK_congr kept _ _ _ hdmOK
          intro s hs
          exact combRow_zero_iff (linePivot r) dm ppos s.v (pP s hs)
    · rcases hrc with ⟨hrow, hz⟩ | hrow
      · rw [hrow, ← H.hsp d0 hd0mem]; exact hz
      · rw [hrow]; exact combRow_srcK srcK (linePivot r) d0 ppos psp (H.hsp d0 hd0mem)

/-- **the line case keeps the saturation rows right**; `srcK` gets the column `kept.length`. -/
theorem lineCase_sat (srcK : LRow) (kept : List LRow) (st : CState) (inz : Nat) (H : StepHyp srcK st kept)
    (hinz : inz < st.nle) (hbefore : ∀ m d, m < inz → st.rows[m]? = some d → d.sp = 0)
    (hnz : ∃ r, st.rows[inz]? = some r ∧ r.sp ≠ 0) (hsat : RowsSatCorrect kept st.rows) :
    (lineCase srcK kept.length st inz).redundant = st.redundant ∧
    RowsSatCorrect (kept ++ [srcK]) (lineCase srcK kept.length st inz).rows := by
  have hQ := lineRows3_Q srcK kept st inz H hinz hbefore hnz hsat
  have hlen := length_lineRows3 st inz
  have hn := H.hn
  rw [lineCase_eq]
  by_cases hk : srcK.le = true
  · simp only [hk, Bool.not_true, Bool.false_eq_true, if_false]
    refine ⟨trivial, ?_⟩
    have hi : st.nle - 1 < (lineRows3 st inz).length := by rw [hlen]; omega
    intro d hd
    obtain ⟨m, hm⟩ := List.mem_iff_getElem?.mp hd
    obtain ⟨m0, hm0, hx, _⟩ := getElem?_swap_dropLast _ _ m hi d hm
    obtain ⟨q1, q2, _⟩ := hQ m0 d hx
    exact extend_false kept srcK _ _ q1 (q2 hm0)
  · have hk' : srcK.le = false := by simpa using hk
    simp only [hk', Bool.not_false, if_true]
    refine ⟨trivial, ?_⟩
    intro d hd
    obtain ⟨m, hm⟩ := List.mem_iff_getElem?.mp hd
    rw [List.getElem?_modify] at hm
    match hq : (lineRows3 st inz)[m]? with
    | none => rw [hq] at hm; simp at hm
    | some d0 =>
      rw [hq] at hm
      simp only [Option.map_eq_map, Option.map_some, Option.some.injEq] at hm
      obtain ⟨q1, q2, q3⟩ := hQ m d0 hq
      by_cases hmm : st.nle - 1 = m
      · rw [if_pos hmm] at hm
        subst hm
        exact extend_true kept srcK _ _ q1 (q3 hmm.symm)
      · rw [if_neg hmm] at hm
        subst hm
        exact extend_false kept srcK _ _ q1 (q2 (Ne.symm hmm))

end PPLV.Conv
