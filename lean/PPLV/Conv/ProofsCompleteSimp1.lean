import PPLV.Conv.ProofsCompleteAbs5
/-!
# C01 stage 4 — the rows `simplify` drops are redundant, abstractly

A double description pair `(A, L ∪ R)` inside a subspace `U` (`DDPair`), `p` a point of the cone on which
every constraint that is not saturated by all rays is positive (`exists_interior`: the sum of the rays).

* `shift_max` (R1) — a point `x₀` violating some inequalities is pushed along `p` until the last violated
  inequality becomes tight: `z = x₀ + t • p` satisfies everything and saturates a constraint violated by `x₀`;
* `indep_redundant` (R2) — the independence rule: if every constraint of `A` is in `S` or is an inequality
  whose saturating rays all saturate some `y ∈ S` (not saturated by every ray), then `S` entails `A` on `U`;
* `satrule_rank` (R3) — the saturation rule: if removing the inequality `d` changes the set, then
  `dim U ≤ (#equalities + 1) + #(generators saturating d)`.
-/
namespace PPLV.Conv.Abs
open Module Submodule

variable {V : Type*} [AddCommGroup V] [Module ℚ V]

/-- a double description pair inside `U` (no minimality). -/
structure DDPair (U : Submodule ℚ V) (A : List (ACon V)) (L R : Set V) : Prop where
  lineU : ∀ l ∈ L, l ∈ U
  rayU : ∀ r ∈ R, r ∈ U
  lineSat : ∀ l ∈ L, ∀ a ∈ A, a.f l = 0
  raySound : ∀ r ∈ R, InP A r
  complete : ∀ x ∈ U, InP A x → Cone L R x

/-- a functional that vanishes on the lines and on the rays vanishes on the cone. -/
theorem Cone.eval_zero {L R : Set V} (f : V →ₗ[ℚ] ℚ) (hL : ∀ l ∈ L, f l = 0) (hR : ∀ r ∈ R, f r = 0)
    {x : V} (h : Cone L R x) : f x = 0 := by
  induction h with
  | zero => exact map_zero _
  | @line l y t hl _ ih => rw [map_add, map_smul, hL l hl, smul_zero, add_zero]; exact ih
  | @ray r y t hr _ _ ih => rw [map_add, map_smul, hR r hr, smul_zero, add_zero]; exact ih

theorem ACon.lt_of_not_holds {a : ACon V} {x : V} (he : a.eq = false) (h : ¬ a.holds x) : a.f x < 0 := by
  by_contra hc
  exact h (ACon.holds_of_nonneg he (not_lt.1 hc))

/-- the sum of the rays: in the cone, non-negative on every constraint, positive on every constraint that
some ray does not saturate. -/
theorem exists_interior (A : List (ACon V)) (L : Set V) (Rl : List V) (hR : ∀ r ∈ Rl, InP A r) :
    ∃ p, Cone L {v | v ∈ Rl} p ∧ (∀ a ∈ A, 0 ≤ a.f p) ∧
      ∀ a ∈ A, (∃ r ∈ Rl, a.f r ≠ 0) → 0 < a.f p := by
  induction Rl with
  | nil =>
    refine ⟨0, Cone.zero, fun a _ => by rw [map_zero], ?_⟩
    rintro a _ ⟨r, hr, _⟩; cases hr
  | cons r Rl ih =>
    obtain ⟨p, hp, hnn, hpos⟩ := ih (fun r' hr' => hR r' (List.mem_cons_of_mem _ hr'))
    have hrr : r ∈ {v | v ∈ r :: Rl} := List.mem_cons_self
    have hp' : Cone L {v | v ∈ r :: Rl} p :=
      Cone.mono (fun _ h => h) (fun v hv => List.mem_cons_of_mem _ hv) hp
    refine ⟨p + (1 : ℚ) • r, Cone.ray 1 hrr zero_le_one hp', fun a ha => ?_, ?_⟩
    · have h1 := (hR r List.mem_cons_self a ha).nonneg
      have h2 := hnn a ha
      rw [map_add, map_smul, smul_eq_mul, one_mul]; linarith
    · rintro a ha ⟨r', hr', hne⟩
      have h1 := (hR r List.mem_cons_self a ha).nonneg
      have h2 := hnn a ha
      rw [map_add, map_smul, smul_eq_mul, one_mul]
      rcases List.mem_cons.1 hr' with e | hr''
      · rw [e] at hne
        have : 0 < a.f r := lt_of_le_of_ne h1 (Ne.symm hne)
        linarith
      · have := hpos a ha ⟨r', hr'', hne⟩
        linarith

/-- (R1) push a point that violates some inequalities along `p` until everything holds: the result
saturates one of the violated constraints. -/
theorem shift_max (A : List (ACon V)) (x₀ p : V) (hp : InP A p)
    (hviol : ∃ a ∈ A, ¬ a.holds x₀)
    (hineq : ∀ a ∈ A, ¬ a.holds x₀ → a.eq = false ∧ 0 < a.f p) :
    ∃ t : ℚ, 0 < t ∧ InP A (x₀ + t • p) ∧ ∃ a₀ ∈ A, ¬ a₀.holds x₀ ∧ a₀.f (x₀ + t • p) = 0 := by
  obtain ⟨a₀, ha₀, hv₀, hmin⟩ :=
    exists_min_of_list A (fun a => ¬ a.holds x₀) (fun a => a.f x₀ / a.f p) hviol
  obtain ⟨he₀, hp₀⟩ := hineq a₀ ha₀ hv₀
  have hneg₀ : a₀.f x₀ < 0 := ACon.lt_of_not_holds he₀ hv₀
  have hval : ∀ a : ACon V,
      a.f (x₀ + (-(a₀.f x₀ / a₀.f p)) • p) = a.f x₀ - (a₀.f x₀ / a₀.f p) * a.f p := by
    intro a; simp only [map_add, map_smul, smul_eq_mul]; ring
  have ht : 0 < -(a₀.f x₀ / a₀.f p) := neg_pos.2 (div_neg_of_neg_of_pos hneg₀ hp₀)
  refine ⟨-(a₀.f x₀ / a₀.f p), ht, fun a ha => ?_, a₀, ha₀, hv₀, ?_⟩
  · by_cases hh : a.holds x₀
    · exact ACon.holds_add hh (ACon.holds_smul _ ht.le (hp a ha))
    · obtain ⟨he, hpa⟩ := hineq a ha hh
      refine ACon.holds_of_nonneg he ?_
      rw [hval]
      have h1 : a₀.f x₀ / a₀.f p ≤ a.f x₀ / a.f p := hmin a ha hh
      have h2 := (le_div_iff₀ hpa).1 h1
      linarith
  · rw [hval, div_mul_cancel₀ _ hp₀.ne', sub_self]

/-- (R2) the independence rule, one shot: `S ⊆ A`; every constraint of `A` is in `S` or is an inequality
`a` dominated by some `y ∈ S` (every ray saturating `a` saturates `y`, and some ray does not saturate
`y`).  Then every point of `U` satisfying `S` satisfies `A`. -/
theorem indep_redundant {U : Submodule ℚ V} {A S : List (ACon V)} {L R : Set V} (dd : DDPair U A L R)
    (p : V) (hpC : Cone L R p) (hpos : ∀ a ∈ A, (∃ r ∈ R, a.f r ≠ 0) → 0 < a.f p)
    (hS : ∀ a ∈ S, a ∈ A)
    (hdom : ∀ a ∈ A, a ∈ S ∨ (a.eq = false ∧ ∃ y ∈ S, (∃ r ∈ R, y.f r ≠ 0) ∧
      ∀ r ∈ R, a.f r = 0 → y.f r = 0))
    (x₀ : V) (hx₀ : x₀ ∈ U) (hin : InP S x₀) : InP A x₀ := by
  by_contra hnot
  have hviol : ∃ a ∈ A, ¬ a.holds x₀ := by
    by_contra hc
    exact hnot (fun a ha => by by_contra h; exact hc ⟨a, ha, h⟩)
  have hpP : InP A p := Cone.inP A dd.lineSat dd.raySound hpC
  have hineq : ∀ a ∈ A, ¬ a.holds x₀ → a.eq = false ∧ 0 < a.f p := by
    intro a ha hv
    rcases hdom a ha with h | ⟨he, y, _, ⟨r, hr, hne⟩, hd⟩
    · exact absurd (hin a h) hv
    · exact ⟨he, hpos a ha ⟨r, hr, fun h0 => hne (hd r hr h0)⟩⟩
  obtain ⟨t, ht, hz, a₀, ha₀, hv₀, hz₀⟩ := shift_max A x₀ p hpP hviol hineq
  rcases hdom a₀ ha₀ with h | ⟨_, y, hy, hyr, hd⟩
  · exact hv₀ (hin a₀ h)
  · have hyA := hS y hy
    have hypos : 0 < y.f (x₀ + t • p) := by
      have h1 := (hin y hy).nonneg
      have h2 := mul_pos ht (hpos y hyA hyr)
      rw [map_add, map_smul, smul_eq_mul]; linarith
    have hzU : x₀ + t • p ∈ U :=
      U.add_mem hx₀ (U.smul_mem t (Cone.mem_sub U dd.lineU dd.rayU hpC))
    have hC := dd.complete _ hzU hz
    have hF := Cone.face [a₀] (fun l hl a ha => by
        rw [List.mem_singleton.1 ha]; exact dd.lineSat l hl a₀ ha₀)
      (fun r hr a ha => by rw [List.mem_singleton.1 ha]; exact dd.raySound r hr a₀ ha₀) hC
    have h0 : y.f (x₀ + t • p) = 0 := by
      refine Cone.eval_zero y.f (fun l hl => dd.lineSat l hl y hyA) ?_ hF
      rintro r ⟨hr, hs⟩
      exact hd r hr (hs a₀ (List.mem_singleton.2 rfl) hz₀)
    rw [h0] at hypos
    exact lt_irrefl _ hypos

/-- (R3) the saturation rule: if the inequality `d` is not entailed by the other constraints `A'`, then
the common kernel of the equalities and `d` is spanned by the generators saturating `d`, hence
`dim U ≤ (#equalities + 1) + #(generators saturating d)`. -/
theorem satrule_rank {U : Submodule ℚ V} [FiniteDimensional ℚ U] {A A' : List (ACon V)} {L R : Set V}
    (dd : DDPair U A L R) (d : ACon V) (hd : d.eq = false) (hdA : d ∈ A)
    (hA : ∀ a ∈ A, a = d ∨ a ∈ A')
    (p : V) (hpC : Cone L R p) (hpos : ∀ a ∈ A, a.eq = false → 0 < a.f p)
    (Eq : List (ACon V)) (hEq : ∀ a ∈ A, a.eq = true → a ∈ Eq)
    (vs : List V) (hvL : ∀ l ∈ L, l ∈ vs) (hvR : ∀ r ∈ R, d.f r = 0 → r ∈ vs)
    (x₀ : V) (hx₀ : x₀ ∈ U) (hin : InP A' x₀) (hnot : ¬ d.holds x₀) :
    Module.finrank ℚ U ≤ (Eq.length + 1) + vs.length := by
  have hpP : InP A p := Cone.inP A dd.lineSat dd.raySound hpC
  have hpU : p ∈ U := Cone.mem_sub U dd.lineU dd.rayU hpC
  have hneg : d.f x₀ < 0 := ACon.lt_of_not_holds hd hnot
  have hdp : 0 < d.f p := hpos d hdA hd
  have ht : 0 < -(d.f x₀ / d.f p) := neg_pos.2 (div_neg_of_neg_of_pos hneg hdp)
  set t : ℚ := -(d.f x₀ / d.f p) with htdef
  set z : V := x₀ + t • p with hzdef
  have hval : ∀ a : ACon V, a.f z = a.f x₀ + t * a.f p := by
    intro a; simp only [hzdef, map_add, map_smul, smul_eq_mul]
  have hzd : d.f z = 0 := by
    rw [hval, htdef, neg_mul, div_mul_cancel₀ _ hdp.ne', add_neg_cancel]
  have hzP : InP A z := by
    intro a ha
    rcases hA a ha with e | h'
    · rw [e]; exact ACon.holds_of_zero hzd
    · exact ACon.holds_add (hin a h') (ACon.holds_smul t ht.le (hpP a ha))
  have hzU : z ∈ U := U.add_mem hx₀ (U.smul_mem t hpU)
  have htight : ∀ a ∈ A, a.f z = 0 → a.eq = true ∨ a = d := by
    intro a ha h0
    cases he : a.eq
    · right
      rcases hA a ha with e | h'
      · exact e
      · exfalso
        have h1 := (hin a h').nonneg
        have h2 := mul_pos ht (hpos a ha he)
        rw [hval] at h0; linarith
    · left; rfl
  -- every point of the face of `d` is spanned by the generators saturating `d`
  have hface : ∀ y ∈ U, InP A y → d.f y = 0 → y ∈ Submodule.span ℚ {v | v ∈ vs} := by
    intro y hyU hyP hyd
    have hC := dd.complete y hyU hyP
    have hF := Cone.face [d] (fun l hl a ha => by
        rw [List.mem_singleton.1 ha]; exact dd.lineSat l hl d hdA)
      (fun r hr a ha => by rw [List.mem_singleton.1 ha]; exact dd.raySound r hr d hdA) hC
    refine Cone.mem_sub _ (fun l hl => Submodule.subset_span (hvL l hl)) ?_ hF
    rintro r ⟨hr, hs⟩
    exact Submodule.subset_span (hvR r hr (hs d (List.mem_singleton.2 rfl) hyd))
  have key := finrank_le_of_ker_le_span U (Eq.map (·.f) ++ [d.f]) vs ?_
  · simpa using key
  · intro w hwU hw
    have hwd : d.f w = 0 := hw d.f (by simp)
    have hwE : ∀ a ∈ A, a.f z = 0 → a.f w = 0 := by
      intro a ha h0
      rcases htight a ha h0 with he | e
      · exact hw a.f (List.mem_append_left _ (List.mem_map.2 ⟨a, hEq a ha he, rfl⟩))
      · rw [e]; exact hwd
    obtain ⟨ε, hε, hεP, _⟩ := exists_eps A z w hzP hwE
    have h1 : z + ε • w ∈ Submodule.span ℚ {v | v ∈ vs} :=
      hface _ (U.add_mem hzU (U.smul_mem ε hwU)) hεP (by
        rw [map_add, map_smul, hzd, hwd, smul_zero, add_zero])
    have h2 : z ∈ Submodule.span ℚ {v | v ∈ vs} := hface z hzU hzP hzd
    have e : w = ε⁻¹ • ((z + ε • w) - z) := by
      rw [add_sub_cancel_left, smul_smul, inv_mul_cancel₀ hε.ne', one_smul]
    rw [e]
    exact Submodule.smul_mem _ _ (Submodule.sub_mem _ h1 h2)

end PPLV.Conv.Abs
