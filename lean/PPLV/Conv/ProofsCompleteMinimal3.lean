import PPLV.Conv.ProofsCompleteMinimal1
import PPLV.Conv.ProofsCompleteMinimal2
/-!
# C01 stage 4 — no redundant inequality remains after `simplify`: `back_substitute`

`back_substitute` rewrites a row `r` as a non-zero multiple of `ny•r − nx•e`, `e` an equality (which every
generator saturates), `ny > 0` for the inequalities because the pivot row is negated when its pivot coefficient
is negative; it never touches the saturation rows.  So `BInv gens n` — the first `n` rows are equalities, every
generator satisfies every row, every row from `n` on is an inequality whose saturation row is exact — is kept,
GIVEN that no pivot row is the zero row (`BackSubPivots`).
-/
namespace PPLV.Conv

/-- a generator on the hyperplane of the pivot row still satisfies the combined row. -/
theorem rowLinearCombine_satisfies (r piv : LRow) (j : Nat) (g : LRow) (hp : scalarProduct piv.v g.v = 0)
    (hpos : r.le = false → 0 ≤ piv.v.getD j 0) (h : satisfies r g) :
    satisfies (rowLinearCombine r piv j) g := by
  obtain ⟨c, hc, hcp, hs⟩ := rowLinearCombine_sp r piv j
  have e := hs g.v hp
  unfold satisfies at h ⊢
  rw [rowLinearCombine_le]
  split at h
  · rename_i hor
    rw [if_pos hor]
    rw [h, mul_zero] at e
    rcases mul_eq_zero.1 e.symm with h1 | h1
    · exact absurd h1 hc
    · exact h1
  · rename_i hor
    rw [if_neg hor]
    have hf : r.le = false := by
      cases hr : r.le
      · rfl
      · rw [hr, Bool.true_or] at hor; exact absurd rfl hor
    have h1 : 0 ≤ c * scalarProduct (rowLinearCombine r piv j).v g.v := by
      rw [← e]; exact mul_nonneg (normalize2_snd_nonneg _ _ (hpos hf)) h
    exact (mul_nonneg_iff_of_pos_left (hcp hf)).1 h1

/-- with a non-zero pivot the combined row is saturated by the same generators of the pivot hyperplane. -/
theorem rowLinearCombine_sp_zero_iff (r piv : LRow) (j : Nat) (g : LRow) (hp : scalarProduct piv.v g.v = 0)
    (hnz : piv.v.getD j 0 ≠ 0) :
    scalarProduct (rowLinearCombine r piv j).v g.v = 0 ↔ scalarProduct r.v g.v = 0 := by
  obtain ⟨c, hc, _, hs⟩ := rowLinearCombine_sp r piv j
  have e := hs g.v hp
  constructor
  · intro h
    rw [h, mul_zero] at e
    rcases mul_eq_zero.1 e with h1 | h1
    · exact absurd h1 (normalize2_snd_ne _ _ hnz)
    · exact h1
  · intro h
    rw [h, mul_zero] at e
    rcases mul_eq_zero.1 e.symm with h1 | h1
    · exact absurd h1 hc
    · exact h1

theorem ExactBits_congr {gens : List LRow} {r r' : SRow} (hs : r'.sat = r.sat)
    (h : ∀ g ∈ gens, scalarProduct r'.row.v g.v = 0 ↔ scalarProduct r.row.v g.v = 0)
    (he : ExactBits gens r) : ExactBits gens r' := by
  intro j
  rw [hs, he j]
  by_cases hj : j < gens.length
  · rw [getD_eq_getElem_lrow gens j hj, sp_comm _ r.row.v, sp_comm _ r'.row.v]
    have := h gens[j] (List.getElem_mem hj)
    congr 1
    exact decide_eq_decide.2 (not_congr this.symm)
  · simp [hj]

/-- what `back_substitute` keeps, beside the saturation rows. -/
structure BInv (gens : List LRow) (n : Nat) (rows : List SRow) : Prop where
  ginv : GInv n rows
  sound : ∀ m, m < rows.length → ∀ g ∈ gens, satisfies (rows.getD m default).row g
  ineq : ∀ m, n ≤ m → m < rows.length →
    (rows.getD m default).row.le = false ∧ ExactBits gens (rows.getD m default)

theorem MinInv.binv {gens : List LRow} {n : Nat} {rows : List SRow} (hI : MinInv gens n rows) :
    BInv gens n rows :=
  ⟨hI.ginv, hI.sound_idx, fun m hn hm => ⟨(hI.ineq_idx m hn hm).1, (hI.ineq_idx m hn hm).2.2⟩⟩

theorem combF_sat (P : Nat → SRow → Prop) [∀ k r, Decidable (P k r)] (piv : LRow) (j k : Nat) (r : SRow) :
    (combF P piv j k r).sat = r.sat := by
  unfold combF; split <;> rfl

/-- one pass of `back_substitute`: the pivot row is saturated by every generator, and its pivot coefficient
is positive wherever an inequality is rewritten. -/
theorem mapIdx_combF_binv (gens : List LRow) (n : Nat) (rows : List SRow) (P : Nat → SRow → Prop)
    [∀ k r, Decidable (P k r)] (piv : LRow) (j : Nat) (hI : BInv gens n rows)
    (hpiv : ∀ g ∈ gens, scalarProduct piv.v g.v = 0)
    (hpos : ∀ m, m < rows.length → P m (rows.getD m default) → (rows.getD m default).row.le = false →
      0 < piv.v.getD j 0) :
    BInv gens n (rows.mapIdx (combF P piv j)) ∧
    ∀ m, m < rows.length → ((rows.mapIdx (combF P piv j)).getD m default).sat = (rows.getD m default).sat := by
  refine ⟨⟨GInv_mapIdx n rows P piv j hI.ginv, fun m hm g hg => ?_, fun m hn hm => ?_⟩, fun m hm => ?_⟩
  · rw [List.length_mapIdx] at hm
    rw [getD_mapIdx rows _ m hm]
    unfold combF
    split
    · rename_i hP
      exact rowLinearCombine_satisfies _ piv j g (hpiv g hg)
        (fun hf => le_of_lt (hpos m hm hP hf)) (hI.sound m hm g hg)
    · exact hI.sound m hm g hg
  · rw [List.length_mapIdx] at hm
    rw [getD_mapIdx rows _ m hm]
    obtain ⟨hle, hex⟩ := hI.ineq m hn hm
    refine ⟨by rw [combF_le]; exact hle, ?_⟩
    unfold combF
    split
    · rename_i hP
      have hp0 := hpos m hm hP hle
      exact ExactBits_congr (r := rows.getD m default) rfl
        (fun g hg => rowLinearCombine_sp_zero_iff _ piv j g (hpiv g hg) (ne_of_gt hp0)) hex
    · exact hex
  · rw [getD_mapIdx rows _ m hm, combF_sat]

/-- one `k` of `back_substitute`. -/
theorem backSubstituteStep_binv (gens : List LRow) (n : Nat) (rows : List SRow) (k : Nat)
    (hI : BInv gens n rows) (hk : k < n)
    (hnz : (rows.getD k default).row.v.getD (bsCol rows k) 0 ≠ 0) :
    BInv gens n (backSubstituteStep n rows k) ∧
    (backSubstituteStep n rows k).length = rows.length ∧
    ∀ m, m < rows.length → ((backSubstituteStep n rows k).getD m default).sat = (rows.getD m default).sat := by
  have hkl : k < rows.length := by have := hI.ginv.1; omega
  have hrowk : ∀ g ∈ gens, scalarProduct (rows.getD k default).row.v g.v = 0 :=
    fun g hg => satisfies_eq_zero _ g (hI.ginv.2 k hk) (hI.sound k hkl g hg)
  obtain ⟨aI, aS⟩ := mapIdx_combF_binv gens n rows
    (fun i r => i < k ∧ r.row.v.getD (bsCol rows k) 0 ≠ 0) (rows.getD k default).row (bsCol rows k) hI hrowk
    (fun m _ hP hf => by rw [hI.ginv.2 m (by omega)] at hf; cases hf)
  change BInv gens n (bsA rows k) at aI
  change ∀ m, m < rows.length → ((bsA rows k).getD m default).sat = _ at aS
  have al : (bsA rows k).length = rows.length := by unfold bsA; exact List.length_mapIdx
  obtain ⟨bI, bS⟩ := mapIdx_combF_binv gens n (bsA rows k)
    (fun i r => n ≤ i ∧ r.row.v.getD (bsCol rows k) 0 ≠ 0) (bsPiv rows k) (bsCol rows k) aI
    (fun g hg => bsPiv_sp rows k g.v (hrowk g hg))
    (fun _ _ _ _ => lt_of_le_of_ne (bsPiv_nonneg rows k) (Ne.symm (bsPiv_ne rows k hnz)))
  rw [backSubstituteStep_eq]
  refine ⟨bI, by rw [List.length_mapIdx]; exact al, fun m hm => ?_⟩
  rw [bS m (by rw [al]; exact hm), aS m hm]

/-- the whole loop. -/
theorem backSub_fold_binv (gens : List LRow) (n : Nat) : ∀ (ks : List Nat) (rows : List SRow),
    BInv gens n rows → (∀ k ∈ ks, k < n) → BackSubPivots n ks rows →
    BInv gens n (ks.foldl (backSubstituteStep n) rows) ∧
    (ks.foldl (backSubstituteStep n) rows).length = rows.length ∧
    ∀ m, m < rows.length →
      ((ks.foldl (backSubstituteStep n) rows).getD m default).sat = (rows.getD m default).sat
  | [], rows, hI, _, _ => ⟨hI, rfl, fun _ _ => rfl⟩
  | k :: ks, rows, hI, hks, hp => by
    rw [List.foldl_cons]
    obtain ⟨s1, s2, s3⟩ := backSubstituteStep_binv gens n rows k hI (hks k List.mem_cons_self) hp.1
    obtain ⟨r1, r2, r3⟩ := backSub_fold_binv gens n ks (backSubstituteStep n rows k) s1
      (fun k' hk' => hks k' (List.mem_cons_of_mem _ hk')) hp.2
    exact ⟨r1, r2.trans s2, fun m hm => (r3 m (by rw [s2]; exact hm)).trans (s3 m hm)⟩

/-- **`back_substitute` keeps (a), (b) and the saturation rows**, when it meets no zero pivot row. -/
theorem backSubstitute_binv (gens : List LRow) (n : Nat) (rows : List SRow) (hI : BInv gens n rows)
    (hpiv : BackSubPivots n (List.range n).reverse rows) :
    BInv gens n (backSubstitute n rows) ∧ (backSubstitute n rows).length = rows.length ∧
    ∀ m, m < rows.length → ((backSubstitute n rows).getD m default).sat = (rows.getD m default).sat :=
  backSub_fold_binv gens n _ rows hI (range_reverse_lt n) hpiv

end PPLV.Conv
