import PPLV.Conv.ProofsCompleteRay6
/-!
# C01 stage 4 — the verdict of `adjacent` is the abstract adjacency (both directions)
-/
namespace PPLV.Conv
open PPLV.Conv.Abs

namespace RayCtx
variable {ncols : Nat} {srcK : LRow} {kept : List LRow} {st : CState} {R : List DRow} {leb sup : Nat}

/-- a positive verdict (quick adjacency test or full test) means the pair is adjacent. -/
theorem adjacent_some_abs (C : RayCtx ncols srcK kept st R leb sup) {i j : Nat} {di dj : DRow} {s : BRow}
    (hi : st.nle ≤ i) (hj : st.nle ≤ j) (ei : R[i]? = some di) (ej : R[j]? = some dj)
    (h : adjacent ncols st.nle kept.length st.rows.length R i j = some s) :
    Adjacent (kept.map conOf) (raysOf st.gens) (emb di.row.v) (emb dj.row.v) := by
  obtain ⟨mi, _, _⟩ := C.ray hi ei
  obtain ⟨mj, _, _⟩ := C.ray hj ej
  intro q hq hc
  obtain ⟨dl, hdl, rfl⟩ := (raysOf_iff st C.H.hl q).mp hq
  obtain ⟨l, hl1, _, el⟩ := C.P.index dl hdl
  by_cases hli : l = i
  · left
    subst hli
    rw [el] at ei
    rw [Option.some.inj ei]
  · by_cases hlj : l = j
    · right
      subst hlj
      rw [el] at ej
      rw [Option.some.inj ej]
    · exfalso
      have h1 := C.subset_of_common mi mj (List.mem_of_mem_drop hdl) hc
      have h2 := C.adjacent_some_no_third hi hj ei ej h l dl hl1 hli hlj el
      rw [h1] at h2; cases h2

end RayCtx
end PPLV.Conv
