import PPLV.Conv.ProofsSimp4
/-!
# C01 stage 3 — `simplify`: `gauss` and `backSubstitute` keep the solution set
-/
namespace PPLV.Conv

/-- the first `nle` rows exist and are equalities. -/
def GInv (nle : Nat) (rows : List SRow) : Prop :=
  nle ≤ rows.length ∧ ∀ i, i < nle → (rows.getD i default).row.le = true

/-- the rewriting done by `gauss` / `back_substitute` on the rows selected by `P`. -/
def combF (P : Nat → SRow → Prop) [∀ k r, Decidable (P k r)] (piv : LRow) (j : Nat) (k : Nat) (r : SRow) : SRow :=
  if P k r then { r with row := rowLinearCombine r.row piv j } else r

theorem combF_le (P : Nat → SRow → Prop) [∀ k r, Decidable (P k r)] (piv : LRow) (j k : Nat) (r : SRow) :
    (combF P piv j k r).row.le = r.row.le := by
  unfold combF; split
  · exact rowLinearCombine_le _ _ _
  · rfl

theorem combF_of_not (P : Nat → SRow → Prop) [∀ k r, Decidable (P k r)] (piv : LRow) (j k : Nat) (r : SRow)
    (h : ¬ P k r) : combF P piv j k r = r := by
  unfold combF; rw [if_neg h]

theorem GInv_mapIdx (nle : Nat) (rows : List SRow) (P : Nat → SRow → Prop) [∀ k r, Decidable (P k r)]
    (piv : LRow) (j : Nat) (h : GInv nle rows) : GInv nle (rows.mapIdx (combF P piv j)) := by
  refine ⟨by rw [List.length_mapIdx]; exact h.1, fun i hi => ?_⟩
  rw [getD_mapIdx rows _ i (by have := h.1; omega), combF_le]
  exact h.2 i hi

/-- one direction: no hypothesis on the pivot but its sign for the inequalities. -/
theorem holdsIdx_mapIdx_of (rows : List SRow) (P : Nat → SRow → Prop) [∀ k r, Decidable (P k r)]
    (piv : LRow) (j : Nat) (x : Vec) (hpiv : scalarProduct piv.v x = 0)
    (hpos : ∀ m, m < rows.length → P m (rows.getD m default) → (rows.getD m default).row.le = false →
      0 ≤ piv.v.getD j 0)
    (h : HoldsIdx rows x) : HoldsIdx (rows.mapIdx (combF P piv j)) x := by
  intro m hm
  rw [List.length_mapIdx] at hm
  rw [getD_mapIdx rows _ m hm]
  unfold combF
  split
  · rename_i hP
    exact rowLinearCombine_holds_of _ piv j x hpiv (hpos m hm hP) (h m hm)
  · exact h m hm

theorem holdsIdx_mapIdx_iff (rows : List SRow) (P : Nat → SRow → Prop) [∀ k r, Decidable (P k r)]
    (piv : LRow) (j : Nat) (x : Vec)
    (hpiv : HoldsIdx rows x → scalarProduct piv.v x = 0)
    (hpiv' : HoldsIdx (rows.mapIdx (combF P piv j)) x → scalarProduct piv.v x = 0)
    (hnz : piv.v.getD j 0 ≠ 0)
    (hpos : ∀ m, m < rows.length → P m (rows.getD m default) → (rows.getD m default).row.le = false →
      0 < piv.v.getD j 0) :
    HoldsIdx (rows.mapIdx (combF P piv j)) x ↔ HoldsIdx rows x := by
  constructor
  · intro h m hm
    have h0 := hpiv' h
    have := h m (by rw [List.length_mapIdx]; exact hm)
    rw [getD_mapIdx rows _ m hm] at this
    unfold combF at this
    split at this
    · rename_i hP
      exact (rowLinearCombine_holds _ piv j x h0 hnz (hpos m hm hP)).1 this
    · exact this
  · intro h
    exact holdsIdx_mapIdx_of rows P piv j x (hpiv h) (fun m hm hP hf => le_of_lt (hpos m hm hP hf)) h

/-! ## `gauss` -/

/-- the rows after the swap of `gaussColumn`. -/
def gaussSwap (rows : List SRow) (i rank : Nat) : List SRow :=
  if i > rank then swapRowOnly rows i rank else rows

theorem gaussColumn_none (nle j : Nat) (rows : List SRow) (rank : Nat)
    (h : (List.range' rank (nle - rank)).find? (fun i => (rows.getD i default).row.v.getD j 0 != 0) = none) :
    gaussColumn nle j (rows, rank) = (rows, rank) := by
  unfold gaussColumn
  simp only [h]

theorem gaussColumn_some (nle j : Nat) (rows : List SRow) (rank i : Nat)
    (h : (List.range' rank (nle - rank)).find? (fun i => (rows.getD i default).row.v.getD j 0 != 0) = some i) :
    gaussColumn nle j (rows, rank) =
      ((gaussSwap rows i rank).mapIdx
        (combF (fun k r => i + 1 ≤ k ∧ k < nle ∧ r.row.v.getD j 0 ≠ 0)
          ((gaussSwap rows i rank).getD rank default).row j), rank + 1) := by
  unfold gaussColumn
  simp only [h]
  rfl

/-- what a phase of `gauss` keeps. -/
def GKeeps (nle : Nat) (rows out : List SRow) : Prop :=
  out.length = rows.length ∧ GInv nle out ∧ (∀ m, nle ≤ m → out.getD m default = rows.getD m default) ∧
  ∀ x, HoldsIdx out x ↔ HoldsIdx rows x

theorem GKeeps_refl (nle : Nat) (rows : List SRow) (h : GInv nle rows) : GKeeps nle rows rows :=
  ⟨rfl, h, fun _ _ => rfl, fun _ => Iff.rfl⟩

theorem GKeeps_trans (nle : Nat) (a b c : List SRow) (h1 : GKeeps nle a b) (h2 : GKeeps nle b c) :
    GKeeps nle a c :=
  ⟨h2.1.trans h1.1, h2.2.1, fun m hm => (h2.2.2.1 m hm).trans (h1.2.2.1 m hm),
    fun x => (h2.2.2.2 x).trans (h1.2.2.2 x)⟩

theorem gaussSwap_keeps (nle : Nat) (rows : List SRow) (i rank : Nat) (hI : GInv nle rows)
    (hr : rank ≤ i) (hi : i < nle) :
    GKeeps nle rows (gaussSwap rows i rank) ∧
      ((gaussSwap rows i rank).getD rank default).row = (rows.getD i default).row := by
  unfold gaussSwap
  have hil : i < rows.length := by have := hI.1; omega
  have hrl : rank < rows.length := by omega
  split
  · rename_i hgt
    refine ⟨⟨length_swapRowOnly _ _ _, ⟨by rw [length_swapRowOnly]; exact hI.1, fun m hm => ?_⟩,
      fun m hm => getD_swapRowOnly_of_ne rows i rank m hil hrl (by omega) (by omega),
      fun x => holdsIdx_swapRowOnly rows i rank hil hrl x⟩, ?_⟩
    · rw [getD_row_swapRowOnly rows i rank m hil hrl]
      split
      · exact hI.2 i hi
      · split
        · exact hI.2 rank (by omega)
        · exact hI.2 m hm
    · rw [getD_row_swapRowOnly rows i rank rank hil hrl]; simp
  · have e : i = rank := by omega
    subst e
    exact ⟨GKeeps_refl nle rows hI, rfl⟩

theorem gaussColumn_keeps (nle j : Nat) (rows : List SRow) (rank : Nat) (hI : GInv nle rows) :
    GKeeps nle rows (gaussColumn nle j (rows, rank)).1 := by
  cases hf : (List.range' rank (nle - rank)).find? (fun i => (rows.getD i default).row.v.getD j 0 != 0) with
  | none => rw [gaussColumn_none nle j rows rank hf]; exact GKeeps_refl nle rows hI
  | some i =>
    rw [gaussColumn_some nle j rows rank i hf]
    have hmem := List.mem_of_find?_eq_some hf
    have hp := List.find?_some hf
    rw [List.mem_range'_1] at hmem
    have hr : rank ≤ i := hmem.1
    have hi : i < nle := by omega
    obtain ⟨hk, hrow⟩ := gaussSwap_keeps nle rows i rank hI hr hi
    refine GKeeps_trans nle _ _ _ hk ?_
    generalize gaussSwap rows i rank = rows1 at hk hrow ⊢
    have hI1 : GInv nle rows1 := hk.2.1
    have hrl : rank < rows1.length := by have := hI1.1; omega
    have hnz : (rows1.getD rank default).row.v.getD j 0 ≠ 0 := by
      rw [hrow]; simpa using hp
    have hle : (rows1.getD rank default).row.le = true := hI1.2 rank (by omega)
    have hpivot : ∀ (l : List SRow) (x : Vec), rank < l.length →
        (l.getD rank default).row = (rows1.getD rank default).row → HoldsIdx l x →
        scalarProduct (rows1.getD rank default).row.v x = 0 := by
      intro l x hl he h
      have := h rank hl
      rw [he] at this
      unfold holds at this
      rw [if_pos hle] at this; exact this
    refine ⟨List.length_mapIdx, GInv_mapIdx nle rows1 _ _ j hI1, fun m hm => ?_, fun x => ?_⟩
    · by_cases hml : m < rows1.length
      · rw [getD_mapIdx rows1 _ m hml, combF_of_not]
        omega
      · simp [List.getD_eq_getElem?_getD, List.getElem?_mapIdx, List.getElem?_eq_none (Nat.le_of_not_lt hml)]
    · apply holdsIdx_mapIdx_iff rows1 _ _ j x (hpivot rows1 x hrl rfl) _ hnz
      · intro m hm hP hf
        rw [hI1.2 m hP.2.1] at hf; cases hf
      · apply hpivot _ x (by rw [List.length_mapIdx]; exact hrl)
        rw [getD_mapIdx rows1 _ rank hrl, combF_of_not]
        omega

theorem gauss_fold_keeps (nle : Nat) : ∀ (cols : List Nat) (rows : List SRow) (rank : Nat), GInv nle rows →
    GKeeps nle rows (cols.foldl (fun st j => gaussColumn nle j st) (rows, rank)).1
  | [], rows, rank, hI => GKeeps_refl nle rows hI
  | j :: cols, rows, rank, hI => by
    rw [List.foldl_cons]
    have h1 := gaussColumn_keeps nle j rows rank hI
    have h2 := gauss_fold_keeps nle cols (gaussColumn nle j (rows, rank)).1 (gaussColumn nle j (rows, rank)).2 h1.2.1
    exact GKeeps_trans nle _ _ _ h1 h2

/-- `gauss` keeps the solution set, the length, the kinds of the first `nle` rows, and the rows from `nle` on. -/
theorem gauss_keeps (ncols nle : Nat) (rows : List SRow)
    (hle : ∀ i, i < nle → (rows.getD i default).row.le = true) (hn : nle ≤ rows.length) :
    GKeeps nle rows (gauss ncols nle rows).1 :=
  gauss_fold_keeps nle _ rows 0 ⟨hn, hle⟩

theorem gauss_same_set (ncols nle : Nat) (rows : List SRow)
    (hle : ∀ i, i < nle → (rows.getD i default).row.le = true) (hn : nle ≤ rows.length) :
    ∀ x, holdsAll ((gauss ncols nle rows).1.map (·.row)) x ↔ holdsAll (rows.map (·.row)) x := by
  intro x
  rw [holdsAll_iff_idx, holdsAll_iff_idx]
  exact (gauss_keeps ncols nle rows hle hn).2.2.2 x

theorem gauss_length (ncols nle : Nat) (rows : List SRow)
    (hle : ∀ i, i < nle → (rows.getD i default).row.le = true) (hn : nle ≤ rows.length) :
    (gauss ncols nle rows).1.length = rows.length := (gauss_keeps ncols nle rows hle hn).1

theorem gauss_le (ncols nle : Nat) (rows : List SRow)
    (hle : ∀ i, i < nle → (rows.getD i default).row.le = true) (hn : nle ≤ rows.length) :
    ∀ i, i < nle → ((gauss ncols nle rows).1.getD i default).row.le = true :=
  (gauss_keeps ncols nle rows hle hn).2.1.2

theorem gauss_untouched (ncols nle : Nat) (rows : List SRow)
    (hle : ∀ i, i < nle → (rows.getD i default).row.le = true) (hn : nle ≤ rows.length) :
    ∀ m, nle ≤ m → (gauss ncols nle rows).1.getD m default = rows.getD m default :=
  (gauss_keeps ncols nle rows hle hn).2.2.1

end PPLV.Conv
