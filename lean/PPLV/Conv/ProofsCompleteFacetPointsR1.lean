import PPLV.Conv.ProofsCompleteGauss3
/-!
# `back_substitute` leaves the system in reduced form

`BRed n k₀ rows`: for every "done" equality `p` (`k₀ ≤ p < n`), with `j_p := lastNonzero (row p).v`, row `p` is
non-zero at `j_p` and every row `m < p` and every row `m ≥ n` is zero at `j_p`.  The step `k` of
`back_substitute` turns `BRed n (k+1)` into `BRed n k`.
-/
namespace PPLV.Conv

/-- the rows `p ∈ [k₀, n)` are reduced. -/
def BRed (n k₀ : Nat) (rows : List SRow) : Prop :=
  ∀ p, k₀ ≤ p → p < n →
    (rows.getD p default).row.v.getD (bsCol rows p) 0 ≠ 0 ∧
    ∀ m, m < rows.length → (m < p ∨ n ≤ m) → (rows.getD m default).row.v.getD (bsCol rows p) 0 = 0

theorem bsPiv_zero (rows : List SRow) (k c : Nat) (h : (rows.getD k default).row.v.getD c 0 = 0) :
    (bsPiv rows k).v.getD c 0 = 0 := by
  unfold bsPiv
  split
  · simp only [getD_map_neg]; omega
  · exact h

theorem backSubstituteStep_getD (n : Nat) (rows : List SRow) (k m : Nat) (hm : m < rows.length) :
    (backSubstituteStep n rows k).getD m default =
      combF (fun i r => n ≤ i ∧ r.row.v.getD (bsCol rows k) 0 ≠ 0) (bsPiv rows k) (bsCol rows k) m
        (combF (fun i r => i < k ∧ r.row.v.getD (bsCol rows k) 0 ≠ 0) (rows.getD k default).row (bsCol rows k) m
          (rows.getD m default)) := by
  rw [backSubstituteStep_eq, getD_mapIdx _ _ m (by unfold bsA; rw [List.length_mapIdx]; exact hm)]
  unfold bsA
  rw [getD_mapIdx _ _ m hm]

theorem backSubstituteStep_length' (n : Nat) (rows : List SRow) (k : Nat) :
    (backSubstituteStep n rows k).length = rows.length := by
  rw [backSubstituteStep_eq, List.length_mapIdx]; unfold bsA; rw [List.length_mapIdx]

/-- the rows `[k, n)` are not touched by the step `k`. -/
theorem backSubstituteStep_mid (n : Nat) (rows : List SRow) (k m : Nat) (hm : m < rows.length)
    (hkm : k ≤ m) (hmn : m < n) :
    (backSubstituteStep n rows k).getD m default = rows.getD m default := by
  rw [backSubstituteStep_getD n rows k m hm, combF_of_not _ _ _ _ _ (fun h => by have := h.1; omega),
    combF_of_not _ _ _ _ _ (fun h => by have := h.1; omega)]

/-- a column where the pivot row and the row `m` are zero stays zero in the row `m`. -/
theorem backSubstituteStep_col_zero (n : Nat) (rows : List SRow) (k m c : Nat) (hm : m < rows.length)
    (h1 : (rows.getD m default).row.v.getD c 0 = 0) (h2 : (rows.getD k default).row.v.getD c 0 = 0) :
    ((backSubstituteStep n rows k).getD m default).row.v.getD c 0 = 0 := by
  rw [backSubstituteStep_getD n rows k m hm]
  have hA : (combF (fun i r => i < k ∧ r.row.v.getD (bsCol rows k) 0 ≠ 0) (rows.getD k default).row
      (bsCol rows k) m (rows.getD m default)).row.v.getD c 0 = 0 := by
    unfold combF; split
    · exact rowLinearCombine_col_zero _ _ _ c h1 h2
    · exact h1
  generalize combF (fun i r => i < k ∧ r.row.v.getD (bsCol rows k) 0 ≠ 0) (rows.getD k default).row
      (bsCol rows k) m (rows.getD m default) = a at hA
  unfold combF; split
  · exact rowLinearCombine_col_zero _ _ _ c hA (bsPiv_zero rows k c h2)
  · exact hA

/-- the pivot column of the step `k` is cleared in the rows above `k` and beyond the equalities. -/
theorem backSubstituteStep_pivot_zero (n : Nat) (rows : List SRow) (k m : Nat) (hm : m < rows.length)
    (hk : k < n) (hmk : m < k ∨ n ≤ m) :
    ((backSubstituteStep n rows k).getD m default).row.v.getD (bsCol rows k) 0 = 0 := by
  rw [backSubstituteStep_getD n rows k m hm]
  rcases hmk with hmk | hmk
  · rw [combF_of_not (fun i r => n ≤ i ∧ r.row.v.getD (bsCol rows k) 0 ≠ 0) _ _ _ _
      (fun h => by have := h.1; omega)]
    unfold combF; split
    · rename_i h
      exact rowLinearCombine_pivot_zero _ _ _ (Or.inl h.2)
    · rename_i h
      by_contra h'
      exact h ⟨hmk, h'⟩
  · rw [combF_of_not (fun i r => i < k ∧ r.row.v.getD (bsCol rows k) 0 ≠ 0) _ _ _ _
      (fun h => by have := h.1; omega)]
    unfold combF; split
    · rename_i h
      exact rowLinearCombine_pivot_zero _ _ _ (Or.inl h.2)
    · rename_i h
      by_contra h'
      exact h ⟨hmk, h'⟩

theorem backSubstituteStep_bred (n : Nat) (rows : List SRow) (k : Nat) (hI : GInv n rows) (hk : k < n)
    (hnz : (rows.getD k default).row.v.getD (lastNonzero (rows.getD k default).row.v) 0 ≠ 0)
    (hB : BRed n (k + 1) rows) : BRed n k (backSubstituteStep n rows k) := by
  have hnl : n ≤ rows.length := hI.1
  intro p hkp hpn
  have hrow : (backSubstituteStep n rows k).getD p default = rows.getD p default :=
    backSubstituteStep_mid n rows k p (by omega) hkp hpn
  have hcol : bsCol (backSubstituteStep n rows k) p = bsCol rows p := by
    unfold bsCol; rw [hrow]
  rw [hcol, hrow, backSubstituteStep_length']
  rcases Nat.eq_or_lt_of_le hkp with e | hlt
  · subst e
    exact ⟨hnz, fun m hm hmk => backSubstituteStep_pivot_zero n rows k m hm hk hmk⟩
  · obtain ⟨b1, b2⟩ := hB p hlt hpn
    refine ⟨b1, fun m hm hmp => ?_⟩
    exact backSubstituteStep_col_zero n rows k m _ hm (b2 m hm hmp) (b2 k (by omega) (Or.inl hlt))

theorem backSub_fold_bred (n : Nat) : ∀ (k₀ : Nat) (rows : List SRow), k₀ ≤ n → GInv n rows →
    BackSubPivots n (List.range k₀).reverse rows → BRed n k₀ rows →
    BRed n 0 ((List.range k₀).reverse.foldl (backSubstituteStep n) rows)
  | 0, rows, _, _, _, hB => by simpa using hB
  | k + 1, rows, hk, hI, hp, hB => by
    rw [List.range_succ, List.reverse_append, List.reverse_singleton, List.singleton_append] at hp ⊢
    rw [List.foldl_cons]
    exact backSub_fold_bred n k _ (by omega) (backSubstituteStep_keeps n rows k hI (by omega)).2.1 hp.2
      (backSubstituteStep_bred n rows k hI (by omega) hp.1 hB)

theorem backSubstitute_reduced (n : Nat) (rows : List SRow) (hI : GInv n rows)
    (hpiv : BackSubPivots n (List.range n).reverse rows) :
    let F := backSubstitute n rows
    ∀ p, p < n →
      (F.getD p default).row.v.getD (lastNonzero (F.getD p default).row.v) 0 ≠ 0 ∧
      ∀ m, m < F.length → (m < p ∨ n ≤ m) →
        (F.getD m default).row.v.getD (lastNonzero (F.getD p default).row.v) 0 = 0 := by
  intro F p hp
  have h := backSub_fold_bred n n rows (Nat.le_refl _) hI hpiv (fun p h1 h2 => by omega)
  exact h p (Nat.zero_le _) hp

theorem simplify_result_reduced (ncols numColsSat : Nat) (sys : List SRow) :
    let F := (simplify ncols numColsSat sys).1
    let n := (simplify ncols numColsSat sys).2
    ∀ p, p < n →
      (F.getD p default).row.v.getD (lastNonzero (F.getD p default).row.v) 0 ≠ 0 ∧
      ∀ m, m < F.length → (m < p ∨ n ≤ m) →
        (F.getD m default).row.v.getD (lastNonzero (F.getD p default).row.v) 0 = 0 := by
  rw [simplify_eq']
  exact backSubstitute_reduced _ _ (simpT_take ncols numColsSat sys).1
    (simplify_backSubPivots ncols numColsSat sys)

end PPLV.Conv
