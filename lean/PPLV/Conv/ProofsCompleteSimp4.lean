import PPLV.Conv.ProofsCompleteSimp3
/-!
# C01 stage 4 — `simplify` drops only redundant rows: the independence rule `indepLoop`

`PhaseInv ncols gens nle rows` — what holds of the list entering the saturation rule and the independence
rule: the first `nle` rows are equalities, the others are inequalities with a non-empty, exact saturation
row, the generators satisfy every row, and every vector of length `≤ ncols` satisfying the rows is generated.

`indepLoop_same_set`: under `PhaseInv` the rows removed by the independence rule (:249-314) are implied by
the rows it keeps (one-shot argument on `indepLoop_dominated`).
-/
namespace PPLV.Conv
open PPLV.Conv.Abs

/-- the state of `simplify` between the phases: a double description pair with exact saturation rows. -/
structure PhaseInv (ncols : Nat) (gens : List LRow) (nle : Nat) (rows : List SRow) : Prop where
  ginv : GInv nle rows
  ineq : ∀ r ∈ rows.drop nle, r.row.le = false ∧ bitsEmpty r.sat = false ∧ ExactBits gens r
  sound : Sound (rows.map (·.row)) gens
  complete : ∀ x : Vec, x.length ≤ ncols → holdsAll (rows.map (·.row)) x → Generated gens x

theorem mem_conRows (rows : List SRow) (a : ACon FV) :
    a ∈ (rows.map (·.row)).map conOf ↔ ∃ s ∈ rows, conOf s.row = a := by
  simp [List.mem_map]

theorem mem_take_or_drop (rows : List SRow) (n : Nat) (s : SRow) (h : s ∈ rows) :
    s ∈ rows.take n ∨ s ∈ rows.drop n := by
  rw [← List.take_append_drop n rows] at h
  exact List.mem_append.1 h

theorem GInv.le_of_mem_take {nle : Nat} {rows : List SRow} (h : GInv nle rows) (s : SRow)
    (hs : s ∈ rows.take nle) : s.row.le = true := by
  obtain ⟨m, hm⟩ := List.mem_iff_getElem?.1 hs
  rw [List.getElem?_take] at hm
  split at hm
  · rename_i hlt
    have := h.2 m hlt
    rwa [getD_of_getElem? rows m s default hm] at this
  · cases hm

theorem PhaseInv.rowOK {ncols : Nat} {gens : List LRow} {nle : Nat} {rows : List SRow}
    (hI : PhaseInv ncols gens nle rows) (r : SRow) (hr : r ∈ rows.drop nle) : RowOK gens r :=
  ⟨(hI.ineq r hr).2.2, fun g hg =>
    hI.sound g hg r.row (List.mem_map.2 ⟨r, List.mem_of_mem_drop hr, rfl⟩)⟩

/-- every inequality of the list is positive somewhere on the rays. -/
theorem PhaseInv.ray {ncols : Nat} {gens : List LRow} {nle : Nat} {rows : List SRow}
    (hI : PhaseInv ncols gens nle rows) (r : SRow) (hr : r ∈ rows.drop nle) :
    ∃ v ∈ raysOf gens, (conOf r.row).f v ≠ 0 :=
  ray_of_nonempty (hI.rowOK r hr) (hI.ineq r hr).2.1

/-- **the independence rule removes only redundant rows.** -/
theorem indepLoop_redundant (ncols : Nat) (gens : List LRow) (nle : Nat) (rows : List SRow) (fuel : Nat)
    (hglen : ∀ g ∈ gens, g.v.length ≤ ncols) (hI : PhaseInv ncols gens nle rows)
    (hf : rows.length ≤ fuel) :
    ∀ x : Vec, x.length ≤ ncols → holdsAll ((indepLoop fuel nle rows nle).map (·.row)) x →
      holdsAll (rows.map (·.row)) x := by
  have dd := ddpair_of_rows ncols (rows.map (·.row)) gens hglen hI.sound hI.complete
  obtain ⟨p, hpC, hpos⟩ := exists_interior_rows (rows.map (·.row)) gens hI.sound
  intro x hx hout
  rw [holdsAll_iff_abs] at hout ⊢
  refine indep_redundant dd p hpC hpos ?_ ?_ (emb x) (emb_mem_ambient ncols x hx) hout
  · intro a ha
    obtain ⟨s, hs, rfl⟩ := (mem_conRows _ a).1 ha
    exact (mem_conRows _ _).2 ⟨s, indepLoop_mem fuel nle rows nle s hs, rfl⟩
  · intro a ha
    obtain ⟨s, hs, rfl⟩ := (mem_conRows _ a).1 ha
    rcases mem_take_or_drop rows nle s hs with h1 | h1
    · left
      rw [← indepLoop_take fuel nle rows hf] at h1
      exact (mem_conRows _ _).2 ⟨s, List.mem_of_mem_take h1, rfl⟩
    · right
      obtain ⟨hle, _, hex⟩ := hI.ineq s h1
      obtain ⟨y, hy, hsub⟩ := indepLoop_dominated fuel nle rows hf s h1
      have hy' := indepLoop_drop_mem fuel nle rows nle (Nat.le_refl _) y hy
      refine ⟨hle, conOf y.row, (mem_conRows _ _).2 ⟨y, List.mem_of_mem_drop hy, rfl⟩,
        hI.ray y hy', ?_⟩
      rintro r ⟨g, hg, _, rfl⟩ h0
      exact sat_dom (hI.ineq y hy').2.2 hex hsub g hg h0

/-- the independence rule keeps the set: `holdsAll (output) x ↔ holdsAll (input) x` for `x.length ≤ ncols`. -/
theorem indepLoop_same_set (ncols : Nat) (gens : List LRow) (nle : Nat) (rows : List SRow) (fuel : Nat)
    (hglen : ∀ g ∈ gens, g.v.length ≤ ncols) (hI : PhaseInv ncols gens nle rows)
    (hf : rows.length ≤ fuel) :
    ∀ x : Vec, x.length ≤ ncols →
      (holdsAll ((indepLoop fuel nle rows nle).map (·.row)) x ↔ holdsAll (rows.map (·.row)) x) := by
  intro x hx
  refine ⟨indepLoop_redundant ncols gens nle rows fuel hglen hI hf x hx, fun h => ?_⟩
  rw [holdsAll_map_iff] at h ⊢
  exact fun s hs => h s (indepLoop_mem fuel nle rows nle s hs)

end PPLV.Conv
