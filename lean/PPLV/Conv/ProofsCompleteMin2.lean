import PPLV.Conv.ProofsCompleteSimp10
import PPLV.Conv.ProofsCompleteK1a
/-!
# C01 stage 4 — `minimize`: the system it returns has the solutions of the system it was given

`conversion` returns a DD pair with an exact saturation matrix; its transpose is the saturation matrix
`simplify` expects; the rows `simplify` drops are redundant (`ProofsCompleteSimp*`).
-/
namespace PPLV.Conv

theorem bit_map_bit (m : List BRow) (j i : Nat) :
    bit (m.map fun r => bit r j) i = (decide (i < m.length) && bit (m.getD i []) j) := by
  unfold bit
  rw [List.getD_eq_getElem?_getD, List.getElem?_map]
  by_cases h : i < m.length
  · rw [List.getElem?_eq_getElem h]
    simp [h, List.getD_eq_getElem?_getD]
  · rw [List.getElem?_eq_none (by omega)]
    simp [h]

/-- the transposed saturation matrix is the saturation matrix of the swapped pair. -/
theorem satCorrect_transpose (cols dest : List LRow) (sat : List BRow) (h : SatCorrect cols dest sat) :
    SatCorrect dest cols (transpose cols.length sat) := by
  obtain ⟨hlen, hb⟩ := h
  refine ⟨by simp [transpose], ?_⟩
  intro j hj i
  have e : (transpose cols.length sat).getD j [] = sat.map fun r => bit r j := by
    unfold transpose
    rw [List.getD_eq_getElem?_getD, List.getElem?_map, List.getElem?_range hj]; rfl
  rw [e, bit_map_bit, hlen]
  by_cases hi : i < dest.length
  · have := hb i hi j
    rw [this]
    have hg1 : cols.getD j default = cols[j] := by
      rw [List.getD_eq_getElem?_getD, List.getElem?_eq_getElem hj]; rfl
    have hg2 : dest.getD i default = dest[i] := by
      rw [List.getD_eq_getElem?_getD, List.getElem?_eq_getElem hi]; rfl
    rw [hg1, hg2, sp_comm dest[i].v cols[j].v]
    simp [hi, hj]
  · simp [hi]

/-- **`minimize` returns a system with the solutions of the one it was given** (when it does not report
"empty"), under the two facts about the echelon form of `gauss` that are not proved: the rank returned is
`< ncols` (`hrank`) and `back_substitute` meets no zero pivot row (`hpiv`, the code's own assertion). -/
theorem minimize_same_set_partial (nnc : Bool) (ncols : Nat) (source : List LRow) (sat0 : List BRow)
    (hsz : ncols < 2 ^ 64) (hsrc : source.length < 2 ^ 64)
    (hne : (minimize true nnc ncols source sat0).empty = false)
    (hrank : let r := conversion ncols source 0 (identityLines ncols) (List.replicate ncols (List.replicate source.length false)) ncols
      (simplify ncols r.dest.length (zipSys r.source (transpose r.source.length r.sat))).2 + 1 ≤ ncols)
    (hpiv : let r := conversion ncols source 0 (identityLines ncols) (List.replicate ncols (List.replicate source.length false)) ncols
      BackSubPivots (simpP ncols (zipSys r.source (transpose r.source.length r.sat))).2
        (List.range (simpP ncols (zipSys r.source (transpose r.source.length r.sat))).2).reverse
        (simpT ncols r.dest.length (zipSys r.source (transpose r.source.length r.sat)))) :
    ∀ x : Vec, x.length ≤ ncols → holdsAll (minimize true nnc ncols source sat0).source x →
      holdsAll (conversion ncols source 0 (identityLines ncols)
        (List.replicate ncols (List.replicate source.length false)) ncols).source x := by
  intro x hx
  set r := conversion ncols source 0 (identityLines ncols) (List.replicate ncols (List.replicate source.length false)) ncols with hr
  have D : DDComplete ncols r := conversion_identity_complete ncols source hsz hsrc
  obtain ⟨hsound, _⟩ := conversion_sound' ncols source 0 (identityLines ncols)
    (List.replicate ncols (List.replicate source.length false)) ncols
    (by intro d _ s hs; simp at hs) (linesFirst_identity' ncols) (by simp [identityLines]) (by simp [identityLines])
  rw [← hr] at hsound
  have hsatc : SatCorrect r.source r.dest r.sat :=
    conversion_sat_correct ncols source 0 (identityLines ncols) _ ncols (Nat.zero_le _)
      (by intro d _ s hs; simp at hs) (linesFirst_identity' ncols) (by simp [identityLines])
      (satCorrect_identity ncols source.length)
  have hsound' : Sound r.source r.dest := fun d hd s hs => hsound d hd s (conversion_source_subset _ _ _ _ _ _ s hs)
  have hmin : (minimize true nnc ncols source sat0).source
      = (simplify ncols r.dest.length (List.zipWith (fun a s => ({ row := a, sat := s } : SRow)) r.source
          (transpose r.source.length r.sat))).1.map (·.row) := by
    unfold minimize at hne ⊢
    simp only at hne ⊢
    rw [← hr] at hne ⊢
    split
    · rename_i hc
      rw [if_pos hc] at hne
      simp at hne
    · rfl
  rw [hmin]
  exact simplify_drops_only_redundant_partial ncols r.dest.length r.source (transpose r.source.length r.sat) r.dest
    (satCorrect_transpose r.source r.dest r.sat hsatc) hsound' (fun y hy h => D.generated y hy h) rfl
    (conversion_identity_length ncols source) hsz hrank hpiv x hx

/-- what `minimize` returns as the source system when it does not report "empty". -/
theorem minimize_source_eq (nnc : Bool) (ncols : Nat) (source : List LRow) (sat0 : List BRow)
    (hne : (minimize true nnc ncols source sat0).empty = false) :
    (minimize true nnc ncols source sat0).source
      = (simplify ncols (conversion ncols source 0 (identityLines ncols)
            (List.replicate ncols (List.replicate source.length false)) ncols).dest.length
          (List.zipWith (fun a s => ({ row := a, sat := s } : SRow))
            (conversion ncols source 0 (identityLines ncols)
              (List.replicate ncols (List.replicate source.length false)) ncols).source
            (transpose (conversion ncols source 0 (identityLines ncols)
              (List.replicate ncols (List.replicate source.length false)) ncols).source.length
              (conversion ncols source 0 (identityLines ncols)
                (List.replicate ncols (List.replicate source.length false)) ncols).sat))).1.map (·.row) := by
  unfold minimize at hne ⊢
  simp only at hne ⊢
  split
  · rename_i hc
    rw [if_pos hc] at hne
    simp at hne
  · rfl

end PPLV.Conv
