import PPLV.Conv.ProofsCompleteInv
import PPLV.Conv.ProofsCompleteBits
/-!
# C01 stage 4 — the loop invariant of the model gives the abstract invariant `DDInv`
-/
namespace PPLV.Conv
open PPLV.Conv.Abs

theorem bit_true_iff {kept : List LRow} {rows : List DRow} (hsat : RowsSatCorrect kept rows) {d : DRow} (hd : d ∈ rows)
    (j : Nat) : bit d.sat j = true ↔ j < kept.length ∧ scalarProduct (kept.getD j default).v d.row.v ≠ 0 := by
  rw [hsat d hd j]; simp

theorem mem_gens_iff (st : CState) (r : LRow) : r ∈ st.gens ↔ ∃ d ∈ st.rows, d.row = r := by
  unfold CState.gens; rw [List.mem_map]

theorem mem_kept_conOf {kept : List LRow} {a : ACon FV} (ha : a ∈ kept.map conOf) : ∃ s ∈ kept, a = conOf s := by
  obtain ⟨s, hs, rfl⟩ := List.mem_map.mp ha
  exact ⟨s, hs, rfl⟩

theorem getD_mem_kept (kept : List LRow) (j : Nat) (h : j < kept.length) : kept.getD j default ∈ kept :=
  getD_mem_of_lt kept j h

/-- a ray row sits at an index at or after `nle`. -/
theorem ray_index {st : CState} (hl : ∀ m d, st.rows[m]? = some d → d.row.le = decide (m < st.nle))
    {d : DRow} (hd : d ∈ st.rows) (hle : d.row.le = false) : ∃ m, st.nle ≤ m ∧ st.rows[m]? = some d := by
  obtain ⟨m, hm⟩ := List.mem_iff_getElem?.mp hd
  refine ⟨m, ?_, hm⟩
  have := hl m d hm
  rw [hle] at this
  by_contra hc
  have : decide (m < st.nle) = true := by simp; omega
  simp_all

/-- the saturators of `d1` are saturators of `d2`: the saturation row of `d2` is inside that of `d1`. -/
theorem subset_of_satSub {kept : List LRow} {rows : List DRow} (hsat : RowsSatCorrect kept rows) {d1 d2 : DRow}
    (h1 : d1 ∈ rows) (h2 : d2 ∈ rows)
    (h : SatSub (kept.map conOf) (emb d1.row.v) (emb d2.row.v)) : subsetOrEqual d2.sat d1.sat = true := by
  rw [subsetOrEqual_iff]
  intro j hj
  obtain ⟨hjl, hne⟩ := (bit_true_iff hsat h2 j).mp hj
  rw [bit_true_iff hsat h1 j]
  refine ⟨hjl, ?_⟩
  intro hz
  apply hne
  have := h (conOf (kept.getD j default)) (List.mem_map.mpr ⟨_, getD_mem_kept kept j hjl, rfl⟩)
    (by rw [conOf_f_emb, hz]; simp)
  rw [conOf_f_emb] at this
  exact_mod_cast this

theorem satSub_of_subset {kept : List LRow} {rows : List DRow} (hsat : RowsSatCorrect kept rows) {d1 d2 : DRow}
    (h1 : d1 ∈ rows) (h2 : d2 ∈ rows) (h : subsetOrEqual d2.sat d1.sat = true) :
    SatSub (kept.map conOf) (emb d1.row.v) (emb d2.row.v) := by
  rw [subsetOrEqual_iff] at h
  intro a ha hz
  obtain ⟨s, hs, rfl⟩ := mem_kept_conOf ha
  rw [conOf_f_emb] at hz ⊢
  obtain ⟨j, hj⟩ := List.mem_iff_getElem?.mp hs
  have hjl : j < kept.length := by
    by_contra hc
    rw [List.getElem?_eq_none (by omega)] at hj; cases hj
  have hg : kept.getD j default = s := by rw [List.getD_eq_getElem?_getD, hj]; rfl
  by_contra hne
  have hb : bit d2.sat j = true := by
    rw [bit_true_iff hsat h2 j, hg]
    exact ⟨hjl, fun hc => hne (by rw [hc]; simp)⟩
  have := (bit_true_iff hsat h1 j).mp (h j hb)
  rw [hg] at this
  exact this.2 (by exact_mod_cast hz)

/-- **the invariant of the model is the abstract invariant.** -/
theorem toDDInv (ncols : Nat) (kept : List LRow) (st : CState)
    (hl : ∀ m d, st.rows[m]? = some d → d.row.le = decide (m < st.nle))
    (hP : ∀ d ∈ st.rows, ∀ s ∈ kept, satisfies s d.row) (hsat : RowsSatCorrect kept st.rows)
    (X : CExtra ncols kept st) :
    DDInv (ambient ncols) (kept.map conOf) (linesOf st.gens) (raysOf st.gens) where
  lineU := by
    rintro l ⟨r, hr, _, rfl⟩
    obtain ⟨d, hd, rfl⟩ := (mem_gens_iff st r).mp hr
    exact X.inU d hd
  rayU := by
    rintro l ⟨r, hr, _, rfl⟩
    obtain ⟨d, hd, rfl⟩ := (mem_gens_iff st r).mp hr
    exact X.inU d hd
  lineSat := by
    rintro l ⟨r, hr, hle, rfl⟩ a ha
    obtain ⟨d, hd, rfl⟩ := (mem_gens_iff st r).mp hr
    obtain ⟨s, hs, rfl⟩ := mem_kept_conOf ha
    exact (satisfies_abs s d.row (hP d hd s hs)).2 (Or.inr hle)
  raySound := by
    rintro l ⟨r, hr, _, rfl⟩ a ha
    obtain ⟨d, hd, rfl⟩ := (mem_gens_iff st r).mp hr
    obtain ⟨s, hs, rfl⟩ := mem_kept_conOf ha
    have := satisfies_abs s d.row (hP d hd s hs)
    unfold ACon.holds
    rw [conOf_eq]
    cases hsl : s.le
    · simp only [Bool.false_eq_true, if_false]; exact this.1
    · simp only [if_true]; exact this.2 (Or.inl hsl)
  complete := X.complete
  antichain := by
    rintro r ⟨r1, hr1, hle1, rfl⟩ r' ⟨r2, hr2, hle2, rfl⟩ hsub
    obtain ⟨d1, hd1, rfl⟩ := (mem_gens_iff st r1).mp hr1
    obtain ⟨d2, hd2, rfl⟩ := (mem_gens_iff st r2).mp hr2
    obtain ⟨l, hl1, hl2⟩ := ray_index hl hd1 hle1
    obtain ⟨m, hm1, hm2⟩ := ray_index hl hd2 hle2
    by_cases hlm : l = m
    · subst hlm
      rw [hl2] at hm2
      rw [Option.some.inj hm2]
    · have h1 := subset_of_satSub hsat hd1 hd2 hsub
      have h2 := X.antichain m l d2 d1 hm1 hl1 (fun h => hlm h.symm) hm2 hl2
      rw [h1] at h2; cases h2
  proper := by
    rintro r ⟨r1, hr1, hle1, rfl⟩
    obtain ⟨d, hd, rfl⟩ := (mem_gens_iff st r1).mp hr1
    obtain ⟨m, hm1, hm2⟩ := ray_index hl hd hle1
    obtain ⟨j, hj⟩ := (bitsEmpty_false_iff d.sat).mp (X.proper m d hm1 hm2)
    obtain ⟨hjl, hne⟩ := (bit_true_iff hsat hd j).mp hj
    refine ⟨conOf (kept.getD j default), List.mem_map.mpr ⟨_, getD_mem_kept kept j hjl, rfl⟩, ?_⟩
    rw [conOf_f_emb]
    exact_mod_cast hne

end PPLV.Conv
