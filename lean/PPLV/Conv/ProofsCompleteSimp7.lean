import PPLV.Conv.ProofsCompleteSimp6
/-!
# C01 stage 4 — `simplify` drops only redundant rows: the redundant equalities (`dropPhase`, :160-196)

`dropRedundantEqLoop` overwrites the rows `[rank, nle)` left by `gauss` with rows taken from the end of the
system, `take` cuts whatever is left of them: the rows from `rank` on of the result are rows from `nle` on of
the input (the inequalities), and every row that disappears was at an index in `[rank, nle)`.
GIVEN that those rows vanish on the vectors of length `≤ ncols` (they are the zero rows of the echelon form —
`ProofsCompleteSimp9.lean`), the phase keeps `PhaseInv` and the solution set.
-/
namespace PPLV.Conv
open PPLV.Conv.Abs

theorem dropRedundantEqLoop_succ (n : Nat) (rows : List SRow) (nle redundant erasing : Nat) :
    dropRedundantEqLoop (n + 1) rows nle redundant erasing =
      if redundant < nle ∧ erasing > nle then
        dropRedundantEqLoop n (removeRowAt rows redundant) nle (redundant + 1) (erasing - 1)
      else rows := by
  rw [dropRedundantEqLoop]

theorem dropLoop_analysis (nle : Nat) : ∀ (n : Nat) (rows : List SRow) (redundant : Nat),
    n = nle - redundant → redundant ≤ nle → nle ≤ rows.length →
    (∀ m x, redundant ≤ m → m < rows.length - (nle - redundant) →
      (dropRedundantEqLoop n rows nle redundant rows.length)[m]? = some x → x ∈ rows.drop nle) ∧
    (∀ x ∈ rows,
      x ∈ (dropRedundantEqLoop n rows nle redundant rows.length).take (rows.length - (nle - redundant)) ∨
      ∃ m, redundant ≤ m ∧ m < nle ∧ rows[m]? = some x)
  | 0, rows, redundant => fun hn hr hl => by
    have e : dropRedundantEqLoop 0 rows nle redundant rows.length = rows := rfl
    rw [e]
    refine ⟨fun m x hm _ hx => (mem_drop_iff_getElem? _ _ _).2 ⟨m, by omega, hx⟩, fun x hx => ?_⟩
    left
    rw [List.take_of_length_le (by omega)]
    exact hx
  | n + 1, rows, redundant => fun hn hr hl => by
    have hrl : redundant < nle := by omega
    by_cases hc : rows.length > nle
    · rw [dropRedundantEqLoop_succ, if_pos ⟨hrl, hc⟩]
      have hri : redundant < rows.length := by omega
      have hlen' : (removeRowAt rows redundant).length = rows.length - 1 := length_removeRowAt _ _
      have e : rows.length - 1 = (removeRowAt rows redundant).length := hlen'.symm
      rw [e]
      obtain ⟨c1, c2⟩ := dropLoop_analysis nle n (removeRowAt rows redundant) (redundant + 1)
        (by omega) (by omega) (by omega)
      have hspec := (dropRedundantEqLoop_spec n (removeRowAt rows redundant) nle (redundant + 1)
        (removeRowAt rows redundant).length (redundant + 1) (Nat.le_refl _) rfl).1
      have hcut : (removeRowAt rows redundant).length - (nle - (redundant + 1))
          = rows.length - (nle - redundant) := by omega
      rw [hcut] at c1 c2
      refine ⟨fun m x hm hm2 hx => ?_, fun x hx => ?_⟩
      · by_cases hmr : m = redundant
        · have h1 := congrArg (fun l => l[m]?) hspec
          simp only [List.getElem?_take, hmr, Nat.lt_succ_self, if_true] at h1
          rw [hmr, h1, getElem?_removeRowAt rows redundant redundant hri] at hx
          rw [if_pos (by omega), if_pos rfl] at hx
          exact (mem_drop_iff_getElem? _ _ _).2 ⟨rows.length - 1, by omega, hx⟩
        · have h1 := c1 m x (by omega) hm2 hx
          obtain ⟨m', hm', hx'⟩ := (mem_drop_iff_getElem? _ _ _).1 h1
          rw [getElem?_removeRowAt rows redundant m' hri] at hx'
          split at hx'
          · rw [if_neg (by omega)] at hx'
            exact (mem_drop_iff_getElem? _ _ _).2 ⟨m', hm', hx'⟩
          · cases hx'
      · rcases mem_removeRowAt_or rows redundant hri x hx with h1 | h1
        · rcases c2 x h1 with h2 | ⟨m, hm1, hm2, hxm⟩
          · exact Or.inl h2
          · right
            rw [getElem?_removeRowAt_of_ne rows redundant m hri (by omega) (by omega)] at hxm
            exact ⟨m, by omega, hm2, hxm⟩
        · right
          exact ⟨redundant, Nat.le_refl _, hrl, by rw [h1]; exact getElem?_of_lt_getD rows _ default hri⟩
    · have hlen : rows.length = nle := by omega
      rw [dropRedundantEqLoop_succ, if_neg (by omega)]
      refine ⟨fun m x hm hm2 _ => by omega, fun x hx => ?_⟩
      obtain ⟨m, hxm⟩ := List.mem_iff_getElem?.1 hx
      have hml : m < rows.length := (List.getElem?_eq_some_iff.1 hxm).1
      by_cases hmr : m < redundant
      · left
        rw [List.mem_iff_getElem?]
        refine ⟨m, ?_⟩
        rw [List.getElem?_take, if_pos (by omega)]
        exact hxm
      · exact Or.inr ⟨m, by omega, by omega, hxm⟩

/-- what `dropPhase` does to the list: the rows from the new `nle` on were rows from the old `nle` on, and
only rows at an index in `[rank, nle)` disappear. -/
theorem dropPhase_analysis (nle rank : Nat) (rows : List SRow) (hl : nle ≤ rows.length) :
    (∀ x ∈ (dropPhase nle rows.length rows rank).1.drop (dropPhase nle rows.length rows rank).2,
      x ∈ rows.drop nle) ∧
    (∀ x ∈ rows, x ∈ (dropPhase nle rows.length rows rank).1 ∨
      ∃ m, rank ≤ m ∧ m < nle ∧ rows[m]? = some x) := by
  unfold dropPhase
  split
  · rename_i hlt
    obtain ⟨c1, c2⟩ := dropLoop_analysis nle (nle - rank) rows rank rfl (by omega) hl
    refine ⟨fun x hx => ?_, c2⟩
    obtain ⟨m, hm1, hm2, hxm⟩ := (mem_take_drop_iff_getElem? _ _ _ _).1 hx
    exact c1 m x hm1 hm2 hxm
  · exact ⟨fun x hx => hx, fun x hx => Or.inl hx⟩

/-- `dropPhase` keeps `PhaseInv` and the solution set, GIVEN that the rows `[rank, nle)` vanish on the
vectors of length `≤ ncols`. -/
theorem dropPhase_phaseInv (ncols : Nat) (gens : List LRow) (nle rank : Nat) (rows : List SRow)
    (hI : PhaseInv ncols gens nle rows)
    (hzero : ∀ m, rank ≤ m → m < nle → ∀ x : Vec, x.length ≤ ncols →
      scalarProduct (rows.getD m default).row.v x = 0) :
    PhaseInv ncols gens (dropPhase nle rows.length rows rank).2 (dropPhase nle rows.length rows rank).1 ∧
    ∀ x : Vec, x.length ≤ ncols → holdsAll ((dropPhase nle rows.length rows rank).1.map (·.row)) x →
      holdsAll (rows.map (·.row)) x := by
  obtain ⟨a1, a2⟩ := dropPhase_analysis nle rank rows hI.ginv.1
  obtain ⟨pI, pM⟩ := dropPhase_spec nle rows.length rows rank hI.ginv rfl
  have hred : ∀ x : Vec, x.length ≤ ncols →
      holdsAll ((dropPhase nle rows.length rows rank).1.map (·.row)) x → holdsAll (rows.map (·.row)) x := by
    intro x hx hh
    rw [holdsAll_map_iff] at hh ⊢
    intro s hs
    rcases a2 s hs with h1 | ⟨m, hm1, hm2, hsm⟩
    · exact hh s h1
    · have e := getD_of_getElem? rows m s default hsm
      have hle := hI.ginv.2 m hm2
      have hz := hzero m hm1 hm2 x hx
      rw [e] at hle hz
      unfold holds
      rw [if_pos hle]; exact hz
  refine ⟨⟨pI, fun r hr' => hI.ineq r (a1 r hr'), ?_, fun x hx hh => hI.complete x hx (hred x hx hh)⟩, hred⟩
  intro g hg s hs
  obtain ⟨s', hs', rfl⟩ := List.mem_map.1 hs
  exact hI.sound g hg s'.row (List.mem_map.2 ⟨s', pM s' hs', rfl⟩)

end PPLV.Conv
