import PPLV.Conv.ProofsCompleteLine2
import PPLV.Conv.ProofsCompleteLine3
/-!
# C01 stage 4 — the line case of `conversion`: `complete`, and the five fields together

Stated against the abstract line-step theorem (`Abs.line_step_complete`, `ProofsCompleteAbs3.lean`) as an
explicit hypothesis `LineStepComplete`; `ProofsCompleteLine5.lean` discharges it.
-/
namespace PPLV.Conv
open PPLV.Conv.Abs

/-- the statement of `Abs.line_step_complete`, in the space `FV`. -/
def LineStepComplete : Prop :=
  ∀ (U : Submodule ℚ FV) (A : List (ACon FV)) (L R L' R' : Set FV) (c : ACon FV) (l₀ : FV),
    (∀ x ∈ U, InP A x → Cone L R x) → c.f l₀ ≠ 0 →
    (∀ l ∈ L, l ≠ l₀ → ∃ l' ∈ L', ∃ s t : ℚ, s ≠ 0 ∧ l' = s • l + t • l₀ ∧ c.f l' = 0) →
    (∀ r ∈ R, ∃ r' ∈ R', ∃ s t : ℚ, 0 < s ∧ r' = s • r + t • l₀ ∧ c.f r' = 0) →
    (c.eq = false → ∃ r₀ ∈ R', ∃ s : ℚ, r₀ = s • l₀ ∧ 0 < c.f r₀) →
    ∀ x ∈ U, InP A x → c.holds x → Cone L' R' x

theorem InP_append_single (kept : List LRow) (srcK : LRow) (y : FV)
    (h : InP ((kept ++ [srcK]).map conOf) y) : InP (kept.map conOf) y ∧ (conOf srcK).holds y := by
  constructor
  · intro a ha
    apply h a
    rw [List.map_append]; exact List.mem_append_left _ ha
  · apply h
    rw [List.map_append]; exact List.mem_append_right _ (by simp)

/-- field `complete` of `CExtra` after the line case. -/
theorem lineCase_extra_complete_of (hstep : LineStepComplete) (ncols : Nat) (srcK : LRow) (kept : List LRow)
    (st : CState) (inz : Nat) (H : StepHyp srcK st kept) (hinz : inz < st.nle)
    (hbefore : ∀ m d, m < inz → st.rows[m]? = some d → d.sp = 0)
    (hnz : ∃ r, st.rows[inz]? = some r ∧ r.sp ≠ 0) (X : CExtra ncols kept st) :
    ∀ y ∈ ambient ncols, InP ((kept ++ [srcK]).map conOf) y →
      Cone (linesOf (lineCase srcK kept.length st inz).gens) (raysOf (lineCase srcK kept.length st inz).gens) y := by
  obtain ⟨r, hr, hrnz⟩ := hnz
  intro y hy hin
  obtain ⟨h1, h2⟩ := InP_append_single kept srcK y hin
  refine hstep (ambient ncols) (kept.map conOf) (linesOf st.gens) (raysOf st.gens) _ _ (conOf srcK)
    (emb r.row.v) X.complete ?_ (lineCase_hline srcK kept st inz H hinz hbefore r hr hrnz)
    (lineCase_hray srcK kept st inz H hinz hbefore r hr hrnz)
    (lineCase_hpiv srcK kept st inz H hinz r hr hrnz) y hy h1 h2
  rw [conOf_f_emb, ← H.hsp r (memC hr)]
  exact_mod_cast hrnz

/-- **the line case maintains the stage-4 invariant** (given the abstract line-step theorem). -/
theorem lineCase_extra_of (hstep : LineStepComplete) (ncols : Nat) (srcK : LRow) (kept : List LRow)
    (st : CState) (inz : Nat) (H : StepHyp srcK st kept)
    (hinz : inz < st.nle) (hbefore : ∀ m d, m < inz → st.rows[m]? = some d → d.sp = 0)
    (hnz : ∃ r, st.rows[inz]? = some r ∧ r.sp ≠ 0) (hsat : RowsSatCorrect kept st.rows)
    (X : CExtra ncols kept st) : CExtra ncols (kept ++ [srcK]) (lineCase srcK kept.length st inz) where
  inU := lineCase_extra_inU ncols srcK kept st inz H hinz hnz X
  complete := lineCase_extra_complete_of hstep ncols srcK kept st inz H hinz hbefore hnz X
  antichain := lineCase_extra_antichain ncols srcK kept st inz H hinz hsat X
  proper := lineCase_extra_proper ncols srcK kept st inz H hinz hsat X
  rank := lineCase_extra_rank ncols srcK kept st inz H hinz hbefore hnz X

end PPLV.Conv
