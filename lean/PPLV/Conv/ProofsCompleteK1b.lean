import PPLV.Conv.SpecK1
import PPLV.Conv.ProofsCompleteEmb2
import PPLV.Conv.ProofsSimp4
import PPLV.Lin.GenSem
/-!
# C01 stage 4, corollary for the kernel K1 (b) — the two readings of a valuation and of a generator system

A K1 valuation `x : ℕ → ℚ` is read, in the space `Vec → ℚ` of the completeness proof, as
`valVec n x = Σ_{i<n} x_i • e_i`; a constraint row of length `≤ n` evaluates there to K1's `dot`
(`valVec_dot`), so `Sat (coneCons rows) x ↔ InP (rows.map conOf) (valVec n x)` (`sat_coneCons`).
`GenSem` of `coneGens` (the origin and the rows as lines / rays, all divisors 1) is "some combination of the
rows, non-negative on the rays" coordinate by coordinate (`genSem_coneGens`), which is an identity between
embedded rows (`valVec_eq_iff`).
-/
namespace PPLV.Conv
open PPLV.Lin PPLV.Conv.Abs

/-! ## valuations -/

theorem dot_eq_sum : ∀ (n : Nat) (v : Vec) (x : Val), v.length ≤ n →
    dot v x = ∑ i ∈ Finset.range n, ((v.getD i 0 : ℤ) : ℚ) * x i
  | n, [], x, _ => by simp
  | 0, a :: as, x, h => by simp at h
  | n + 1, a :: as, x, h => by
    rw [dot_cons, Finset.sum_range_succ', dot_eq_sum n as x.tail (by simpa using h)]
    simp [Val.tail, add_comm]

/-- a valuation, as a vector of the ambient space of `n` columns. -/
noncomputable def valVec (n : Nat) (x : Val) : FV := ∑ i ∈ Finset.range n, x i • emb (unitV n i)

theorem valVec_mem (n : Nat) (x : Val) : valVec n x ∈ ambient n :=
  Submodule.sum_mem _ fun i _ => Submodule.smul_mem _ _ (emb_mem_ambient n _ (by rw [unitV_length]))

theorem valVec_apply (n : Nat) (x : Val) (c : Vec) :
    valVec n x c = ∑ i ∈ Finset.range n, x i * ((c.getD i 0 : ℤ) : ℚ) := by
  unfold valVec
  rw [Finset.sum_apply]
  apply Finset.sum_congr rfl
  intro i hi
  simp only [Pi.smul_apply, emb, smul_eq_mul]
  rw [sp_unit n i c (Finset.mem_range.mp hi)]

theorem valVec_dot (n : Nat) (x : Val) (v : Vec) (h : v.length ≤ n) : valVec n x v = dot v x := by
  rw [valVec_apply, dot_eq_sum n v x h]
  apply Finset.sum_congr rfl
  intro i _; ring

theorem valVec_unit (n : Nat) (x : Val) (i : Nat) (hi : i < n) : valVec n x (unitV n i) = x i := by
  rw [valVec_apply, Finset.sum_eq_single i]
  · rw [unitV_getD]; simp [hi]
  · intro k _ hk; rw [unitV_getD]; simp [hk]
  · intro h; exact absurd (Finset.mem_range.mpr hi) h

/-- **the constraint side**: a K1 valuation satisfies the homogeneous cone of the rows iff its vector
satisfies the abstract constraints of the completeness proof. -/
theorem sat_coneCons (n : Nat) (rows : List LRow) (hlen : ∀ s ∈ rows, s.v.length ≤ n) (x : Val) :
    Sat (coneCons rows) x ↔ InP (rows.map conOf) (valVec n x) := by
  unfold coneCons InP
  rw [Sat_flatMap]
  simp only [List.forall_mem_map]
  refine forall_congr' fun s => imp_congr_right fun hs => ?_
  unfold ACon.holds
  rw [conOf_eq, conOf_f, valVec_dot n x s.v (hlen s hs)]
  cases s.le
  · simp only [Bool.false_eq_true, if_false]
    unfold Sat
    simp [Con.sat, geRow, Con.eval]
  · simp only [if_true]
    rw [Sat_eqRows]; simp

theorem wf_coneCons (n : Nat) (rows : List LRow) (hlen : ∀ s ∈ rows, s.v.length ≤ n) : WF n (coneCons rows) := by
  intro c hc
  unfold coneCons at hc
  obtain ⟨s, hs, hc⟩ := List.mem_flatMap.mp hc
  have := hlen s hs
  cases hle : s.le
  · rw [hle] at hc
    simp only [Bool.false_eq_true, if_false, List.mem_cons, List.not_mem_nil, or_false] at hc
    subst hc; exact this
  · rw [hle] at hc
    simp only [if_true, eqRows, List.mem_cons, List.not_mem_nil, or_false] at hc
    rcases hc with rfl | rfl
    · exact this
    · simpa using this

/-! ## generators -/

/-- a generator row as a K1 line / ray with divisor 1. -/
def genOf (r : LRow) : Gen := ⟨if r.le then .line else .ray, r.v, 1⟩

theorem coneGens_eq (n : Nat) (rows : List LRow) :
    coneGens n rows = ⟨.point, List.replicate n 0, 1⟩ :: rows.map genOf := rfl

theorem genOf_isLine (r : LRow) : (genOf r).isLine = r.le := by
  unfold genOf Gen.isLine; cases r.le <;> rfl

theorem genOf_isPtOrCp (r : LRow) : (genOf r).isPtOrCp = false := by
  unfold genOf Gen.isPtOrCp; cases r.le <;> rfl

theorem genOf_coord (r : LRow) (i : Nat) : (genOf r).coord i = ((r.v.getD i 0 : ℤ) : ℚ) := by
  unfold Gen.coord Gen.d
  rw [genOf_isPtOrCp]
  simp [genOf]

theorem origin_coord (n i : Nat) : (⟨.point, List.replicate n 0, 1⟩ : Gen).coord i = 0 := by
  unfold Gen.coord
  have : (List.replicate n (0 : Int)).getD i 0 = 0 := by
    rw [List.getD_eq_getElem?_getD, List.getElem?_replicate]; split <;> rfl
  dsimp only
  rw [this]; simp

theorem gensWF_coneGens (n : Nat) (rows : List LRow) (hlen : ∀ g ∈ rows, g.v.length ≤ n) :
    gensWF n (coneGens n rows) = true := by
  unfold gensWF
  rw [coneGens_eq, List.all_cons, List.all_map]
  simp only [Bool.and_eq_true, decide_eq_true_eq, List.all_eq_true, Function.comp]
  refine ⟨⟨by simp, by simp [Gen.d, Gen.isPtOrCp]⟩, ?_⟩
  intro g hg
  refine ⟨hlen g hg, ?_⟩
  unfold Gen.d; rw [genOf_isPtOrCp]; simp

theorem wsum_map_genOf (f : Gen → ℚ) : ∀ (rows : List LRow) (mu : Val),
    wsum f (rows.map genOf) mu = ∑ j ∈ Finset.range rows.length, mu j * f (genOf (rows.getD j default))
  | [], mu => by simp [wsum]
  | r :: rows, mu => by
    rw [List.map_cons, wsum, wsum_map_genOf f rows mu.tail, List.length_cons, Finset.sum_range_succ']
    simp [Val.tail, add_comm]

theorem coneGens_getD_succ (n : Nat) (rows : List LRow) (j : Nat) (hj : j < rows.length) :
    (coneGens n rows).getD (j + 1) default = genOf rows[j] := by
  rw [coneGens_eq, List.getD_cons_succ, List.getD_eq_getElem?_getD, List.getElem?_map,
    List.getElem?_eq_getElem hj]
  rfl

/-- **the generator side**: `GenSem` of the origin plus lines and rays with divisor 1. -/
theorem genSem_coneGens (n : Nat) (gens : List LRow) (x : Val) :
    x ∈ GenSem n (coneGens n gens) ↔ ∃ q : Nat → ℚ,
      (∀ j (h : j < gens.length), gens[j].le = false → 0 ≤ q j) ∧
      ∀ i < n, x i = ∑ j ∈ Finset.range gens.length, q j * (((gens.getD j default).v.getD i 0 : ℤ) : ℚ) := by
  have hcoord : ∀ (lam : Val) (i : Nat), wsum (fun g => g.coord i) (coneGens n gens) lam
      = ∑ j ∈ Finset.range gens.length, lam.tail j * (((gens.getD j default).v.getD i 0 : ℤ) : ℚ) := by
    intro lam i
    rw [coneGens_eq, wsum, origin_coord, mul_zero, zero_add, wsum_map_genOf]
    apply Finset.sum_congr rfl
    intro j _; rw [genOf_coord]
  have hind : ∀ (lam : Val), wsum (fun g => if g.isPtOrCp then (1 : ℚ) else 0) (coneGens n gens) lam = lam 0 := by
    intro lam
    rw [coneGens_eq, wsum, wsum_map_genOf]
    simp only [genOf_isPtOrCp]
    simp [Gen.isPtOrCp]
  have hlenG : (coneGens n gens).length = gens.length + 1 := by simp [coneGens_eq]
  constructor
  · rintro ⟨lam, h1, _, _, h4⟩
    refine ⟨lam.tail, ?_, ?_⟩
    · intro j hj hle
      have := h1 (j + 1) (by rw [hlenG]; omega)
      rw [coneGens_getD_succ n gens j hj, genOf_isLine] at this
      exact this hle
    · intro i hi; rw [h4 i hi, hcoord]
  · rintro ⟨q, hq, hx⟩
    let lam : Val := fun j => if j = 0 then 1 else q (j - 1)
    have htail : lam.tail = q := by funext j; simp [lam, Val.tail]
    refine ⟨lam, ?_, ?_, ⟨0, by rw [hlenG]; omega, rfl, by simp [lam]⟩, ?_⟩
    · intro j hj hl
      cases j with
      | zero => simp [lam]
      | succ j =>
        have hj' : j < gens.length := by rw [hlenG] at hj; omega
        rw [coneGens_getD_succ n gens j hj', genOf_isLine] at hl
        have := hq j hj' hl
        simpa [lam] using this
    · rw [hind]; simp [lam]
    · intro i hi; rw [hx i hi, hcoord, htail]

/-- coordinate by coordinate, or as an identity between embedded rows. -/
theorem valVec_eq_iff (n : Nat) (gens : List LRow) (hlen : ∀ g ∈ gens, g.v.length ≤ n) (x : Val) (q : Nat → ℚ) :
    (∀ i < n, x i = ∑ j ∈ Finset.range gens.length, q j * (((gens.getD j default).v.getD i 0 : ℤ) : ℚ)) ↔
    valVec n x = ∑ j ∈ Finset.range gens.length, q j • emb (gens.getD j default).v := by
  constructor
  · intro h
    funext c
    rw [valVec_apply, Finset.sum_apply]
    simp only [Pi.smul_apply, emb, smul_eq_mul]
    have e1 : ∀ j ∈ Finset.range gens.length, q j * ((scalarProduct c (gens.getD j default).v : ℤ) : ℚ)
        = ∑ i ∈ Finset.range n, q j * (((gens.getD j default).v.getD i 0 : ℤ) : ℚ) * ((c.getD i 0 : ℤ) : ℚ) := by
      intro j hj
      have hj' := Finset.mem_range.mp hj
      have hl : (gens.getD j default).v.length ≤ n := by
        rw [getD_eq_getElem_of_lt gens j hj']; exact hlen _ (List.getElem_mem hj')
      rw [sp_eq_sum n c _ hl]
      push_cast
      rw [Finset.mul_sum]
      apply Finset.sum_congr rfl
      intro i _; ring
    rw [Finset.sum_congr rfl e1, Finset.sum_comm]
    apply Finset.sum_congr rfl
    intro i hi
    rw [h i (Finset.mem_range.mp hi), Finset.sum_mul]
  · intro h i hi
    have e := congrFun h (unitV n i)
    rw [valVec_unit n x i hi, Finset.sum_apply] at e
    rw [e]
    apply Finset.sum_congr rfl
    intro j _
    simp only [Pi.smul_apply, emb, smul_eq_mul]
    rw [sp_comm, sp_unit n i _ hi]

end PPLV.Conv
