import PPLV.Conv.ProofsCompleteRay5
/-!
# C01 stage 4 — one `rayCase` keeps the whole invariant
-/
namespace PPLV.Conv
open PPLV.Conv.Abs

theorem inP_append_singleton (kept : List LRow) (srcK : LRow) (y : FV) :
    InP ((kept ++ [srcK]).map conOf) y ↔ InP (kept.map conOf) y ∧ (conOf srcK).holds y := by
  unfold InP
  constructor
  · intro h
    refine ⟨fun a ha => h a ?_, h _ ?_⟩
    · obtain ⟨s, hs, rfl⟩ := List.mem_map.mp ha
      exact List.mem_map.mpr ⟨s, List.mem_append_left _ hs, rfl⟩
    · exact List.mem_map.mpr ⟨srcK, by simp, rfl⟩
  · rintro ⟨h1, h2⟩ a ha
    obtain ⟨s, hs, rfl⟩ := List.mem_map.mp ha
    rcases List.mem_append.mp hs with hs | hs
    · exact h1 _ (List.mem_map.mpr ⟨s, hs, rfl⟩)
    · have : s = srcK := by simpa using hs
      rw [this]; exact h2

/-- the part of the invariant that does not mention the constraints. -/
structure CExtraRows (ncols : Nat) (st : CState) : Prop where
  inU : ∀ d ∈ st.rows, emb d.row.v ∈ ambient ncols
  antichain : SatAntichain st.nle st.rows
  proper : SatProper st.nle st.rows
  rank : st.nle ≤ Module.finrank ℚ (Submodule.span ℚ (linesOf st.gens))

theorem rayCase_extraRows (ncols : Nat) (srcK : LRow) (kept : List LRow) (st st' : CState) (R : List DRow)
    (leb sup : Nat) (C : RayCtx ncols srcK kept st R leb sup)
    (S : RayShape ncols srcK kept.length st st' R leb sup) (hnle : st'.nle = st.nle) :
    CExtraRows ncols st' := by
  obtain ⟨t, ht, hrows⟩ := S
  have hn := C.H.hn
  have hlenT : (st.rows.take st.nle).length = st.nle := by rw [List.length_take]; exact Nat.min_eq_left hn
  have hdrop : st'.rows.drop st.nle =
      ((R.take (if srcK.le then leb else sup)).drop st.nle).map
        (keepImage (!srcK.le && st.rows.any (fun d => decide (d.sp < 0))) kept.length) ++ t := by
    rw [hrows, List.drop_left' hlenT]
  -- the three kinds of rows
  have hcases : ∀ d' ∈ st'.rows, d' ∈ st.rows.take st.nle ∨
      (∃ d ∈ (R.take (if srcK.le then leb else sup)).drop st.nle,
        d' = keepImage (!srcK.le && st.rows.any (fun d => decide (d.sp < 0))) kept.length d) ∨
      d' ∈ newRays ncols st.nle kept.length leb sup st.rows.length R := by
    intro d' hd'
    rw [hrows] at hd'
    rcases List.mem_append.mp hd' with h | h
    · exact Or.inl h
    · rcases List.mem_append.mp h with h | h
      · obtain ⟨d, hd, rfl⟩ := List.mem_map.mp h
        exact Or.inr (Or.inl ⟨d, hd, rfl⟩)
      · exact Or.inr (Or.inr (ht.mem_iff.mp h))
  have hnl := C.P.h1
  refine ⟨?_, ?_, ?_, ?_⟩
  · intro d' hd'
    rcases hcases d' hd' with h | ⟨d, hd, rfl⟩ | h
    · exact C.X.inU d' (List.mem_of_mem_take h)
    · obtain ⟨_, _, _, _, hdm, _⟩ := C.kept_part hd
      rw [keepImage_row]
      exact C.X.inU d (List.mem_of_mem_drop hdm)
    · obtain ⟨i, j, di, dj, hi1, _, hj1, _, ei, ej, hpos, hneg, _, rfl⟩ := C.newRay_mem h
      obtain ⟨mi, _, _⟩ := C.ray (by omega : st.nle ≤ i) ei
      obtain ⟨mj, hjle, _⟩ := C.ray (by have := C.P.h2; omega : st.nle ≤ j) ej
      obtain ⟨a, b, _, _, he, _⟩ := emb_newRay di dj (bor di.sat dj.sat) hpos hneg hjle
      rw [he]
      exact Submodule.add_mem _ (Submodule.smul_mem _ _ (C.X.inU di mi)) (Submodule.smul_mem _ _ (C.X.inU dj mj))
  · rw [hnle, satAntichain_iff_pairwise, hdrop, List.pairwise_append]
    refine ⟨C.kept_pairwise _ _, ?_, ?_⟩
    · exact (ht.pairwise_iff (fun {a b} hab => satRel_symm hab)).mpr C.newRays_pairwise
    · intro a ha b hb
      obtain ⟨d, hd, rfl⟩ := List.mem_map.mp ha
      exact C.kept_new hd (ht.mem_iff.mp hb)
  · rw [hnle, satProper_iff, hdrop]
    intro d' hd'
    rcases List.mem_append.mp hd' with h | h
    · obtain ⟨d, hd, rfl⟩ := List.mem_map.mp h
      obtain ⟨_, _, _, _, hdm, _⟩ := C.kept_part hd
      obtain ⟨m', hm1, hm2⟩ := (mem_drop_iff_getElem? _ _ _).mp hdm
      obtain ⟨k, hk⟩ := (bitsEmpty_false_iff _).mp (C.X.proper m' d hm1 hm2)
      exact (bitsEmpty_false_iff _).mpr ⟨k, bit_keepImage_ge _ _ _ _ hk⟩
    · obtain ⟨i, j, di, dj, hi1, _, _, _, ei, _, _, _, _, rfl⟩ := C.newRay_mem (ht.mem_iff.mp h)
      obtain ⟨mi, _, _⟩ := C.ray (by omega : st.nle ≤ i) ei
      have hdi : di ∈ st.rows.drop st.nle := (C.P.at i di (by omega) ei).1
      obtain ⟨m', hm1, hm2⟩ := (mem_drop_iff_getElem? _ _ _).mp hdi
      obtain ⟨k, hk⟩ := (bitsEmpty_false_iff _).mp (C.X.proper m' di hm1 hm2)
      rw [newRay_sat]
      exact (bitsEmpty_false_iff _).mpr ⟨k, by rw [bit_bor, hk]; rfl⟩
  · have heq : linesOf st'.gens = linesOf st.gens := by
      ext x
      constructor
      · rintro ⟨r, hr, hle, rfl⟩
        obtain ⟨d', hd', rfl⟩ := (mem_gens_iff st' r).mp hr
        rcases hcases d' hd' with h | ⟨d, hd, rfl⟩ | h
        · exact ⟨d'.row, (mem_gens_iff st d'.row).mpr ⟨d', List.mem_of_mem_take h, rfl⟩, hle, rfl⟩
        · exfalso
          obtain ⟨m, hm1, _, em, _, _⟩ := C.kept_part hd
          rw [keepImage_row, (C.ray hm1 em).2.1] at hle; cases hle
        · exfalso
          obtain ⟨i, j, di, dj, _, _, hj1, _, _, ej, hpos, hneg, _, rfl⟩ := C.newRay_mem h
          have hjle := (C.ray (by have := C.P.h2; omega : st.nle ≤ j) ej).2.1
          obtain ⟨_, _, _, _, _, _, _, hnle', _⟩ := sp_newRay di dj (bor di.sat dj.sat) hpos hneg hjle
          rw [hnle'] at hle; cases hle
      · intro hx
        rw [linesOf_eq_take st C.H.hl] at hx
        obtain ⟨d, hd, rfl⟩ := List.mem_map.mp hx
        obtain ⟨m, hmn, hm⟩ := (mem_take_iff_getElem? _ _ _).mp hd
        refine ⟨d.row, (mem_gens_iff st' d.row).mpr ⟨d, ?_, rfl⟩, ?_, rfl⟩
        · rw [hrows]; exact List.mem_append_left _ hd
        · rw [C.H.hl m d hm]; simpa using hmn
    rw [hnle, heq]
    exact C.X.rank

/-- **one `rayCase` keeps the stage-4 invariant**, whichever way the new row is classified. -/
theorem rayCase_extra (ncols : Nat) (srcK : LRow) (kept : List LRow) (st : CState) (H : StepHyp srcK st kept)
    (hz : ∀ d ∈ st.rows.take st.nle, d.sp = 0) (hsat : RowsSatCorrect kept st.rows) (X : CExtra ncols kept st)
    [FiniteDimensional ℚ (ambient ncols)] (hfr : Module.finrank ℚ (ambient ncols) = ncols)
    (hsz : ncols < 2 ^ 64) (hkz : kept.length < 2 ^ 64) :
    let st' := rayCase ncols srcK kept.length st
    (st'.redundant = st.redundant → CExtra ncols (kept ++ [srcK]) st') ∧
    (st'.redundant = st.redundant ++ [st.k] → CExtra ncols kept st') := by
  intro st'
  obtain ⟨R, leb, sup, P, S⟩ := rayCase_shape ncols srcK kept.length st H.hn hz
  obtain ⟨hnle, _, hred, _⟩ := rayCase_rows ncols srcK kept.length st H.hn hz
  have C : RayCtx ncols srcK kept st R leb sup := ⟨H, hsat, X, P⟩
  have E := rayCase_extraRows ncols srcK kept st st' R leb sup C S hnle
  have core := rayCase_complete_core ncols srcK kept st st' R leb sup C S hfr hsz hkz
  constructor
  · intro _
    refine ⟨E.inU, ?_, E.antichain, E.proper, E.rank⟩
    intro y hyU hy
    obtain ⟨h1, h2⟩ := (inP_append_singleton kept srcK y).mp hy
    exact core y hyU h1 h2
  · intro hr
    refine ⟨E.inU, ?_, E.antichain, E.proper, E.rank⟩
    intro y hyU hy
    apply core y hyU hy
    -- the row found redundant holds on everything generated
    have hcond : (!srcK.le && st.rows.all (fun d => decide (0 ≤ d.sp))) = true := by
      by_contra hc
      rw [if_neg hc] at hred
      have hr' : st'.redundant = st.redundant ++ [st.k] := hr
      rw [hred] at hr'
      have := congrArg List.length hr'
      simp at this
    have hle : srcK.le = false := by
      have := (Bool.and_eq_true _ _).mp hcond
      simpa using this.1
    have hall : ∀ d ∈ st.rows, 0 ≤ d.sp := by
      have := ((Bool.and_eq_true _ _).mp hcond).2
      intro d hd
      simpa using (List.all_eq_true.mp this) d hd
    have hy1 := X.complete y hyU hy
    have := Cone.inP [conOf srcK] (L := linesOf st.gens) (R := raysOf st.gens)
      (by intro l hl a ha
          have : a = conOf srcK := by simpa using ha
          rw [this]; exact C.lines_zero l hl)
      (by intro r hr a ha
          have : a = conOf srcK := by simpa using ha
          rw [this]
          obtain ⟨d, hd, rfl⟩ := (raysOf_iff st H.hl r).mp hr
          have hdm := List.mem_of_mem_drop hd
          rw [C.holds_iff_survives hdm]
          unfold survives
          simp only [hle, Bool.false_eq_true, if_false]
          exact hall d hdm) hy1
    exact this _ (by simp)

end PPLV.Conv
