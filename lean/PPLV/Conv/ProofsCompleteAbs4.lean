import PPLV.Conv.ProofsCompleteAbs1
import Mathlib.Tactic.Linarith
import Mathlib.Tactic.Ring
import Mathlib.Tactic.Module
/-!
# C01 stage 4 — the quick adjacency test of `conversion`, abstractly

In a minimal double description pair (`DDInv`):

* `extreme_ker` — algebraic extremality: a vector of the ambient space on which every saturator of a ray `r`
  vanishes is a multiple of `r` modulo the lines;
* `adjacent_ker` — the same for an adjacent pair: a vector killed by the common saturators of `r` and `s` is
  a combination of `r`, `s` and lines;
* `quick_adjacent_sound` — the quick adjacency test (`Polyhedron_conversion_templates.hh:808-813`): if the
  constraints not saturated by `s` are, but for exactly one, not saturated by `r` either, the pair passes
  the full combinatorial test `Adjacent`.

Elementary: no dimension theory.
-/
namespace PPLV.Conv.Abs

variable {V : Type*} [AddCommGroup V] [Module ℚ V]

/-- every constraint vanishes on a combination of lines. -/
theorem DDInv.coneLines_sat {U : Submodule ℚ V} {A : List (ACon V)} {L R : Set V} (inv : DDInv U A L R)
    {l : V} (hl : Cone L ∅ l) (a : ACon V) (ha : a ∈ A) : a.f l = 0 := by
  induction hl with
  | zero => simp
  | line t hl _ ih => simp [ih, inv.lineSat _ hl a ha]
  | ray t hr _ _ _ => exact absurd hr (Set.notMem_empty _)

/-- every constraint is non-negative on a ray. -/
theorem DDInv.ray_f_nonneg {U : Submodule ℚ V} {A : List (ACon V)} {L R : Set V} (inv : DDInv U A L R)
    {r : V} (hr : r ∈ R) (a : ACon V) (ha : a ∈ A) : 0 ≤ a.f r := by
  have h := inv.raySound r hr a ha
  rw [ACon.holds_iff] at h
  cases hb : a.eq
  · exact h.2 hb
  · exact (h.1 hb).ge

/-- the saturators of `r + s` are the common saturators. -/
theorem DDInv.sat_add_iff {U : Submodule ℚ V} {A : List (ACon V)} {L R : Set V} (inv : DDInv U A L R)
    {r s : V} (hr : r ∈ R) (hs : s ∈ R) (a : ACon V) (ha : a ∈ A) :
    a.f (r + s) = 0 ↔ a.f r = 0 ∧ a.f s = 0 := by
  have h1 := inv.ray_f_nonneg hr a ha
  have h2 := inv.ray_f_nonneg hs a ha
  rw [map_add]
  constructor
  · intro h; constructor <;> linarith
  · rintro ⟨e1, e2⟩; rw [e1, e2, add_zero]

theorem DDInv.inP_add {U : Submodule ℚ V} {A : List (ACon V)} {L R : Set V} (inv : DDInv U A L R)
    {r s : V} (hr : r ∈ R) (hs : s ∈ R) : InP A (r + s) := by
  intro a ha
  have h1 := inv.raySound r hr a ha
  have h2 := inv.raySound s hs a ha
  rw [ACon.holds_iff] at h1 h2 ⊢
  refine ⟨fun hb => ?_, fun hb => ?_⟩
  · rw [map_add, h1.1 hb, h2.1 hb, add_zero]
  · rw [map_add]; exact add_nonneg (h1.2 hb) (h2.2 hb)

theorem extreme_ker {U : Submodule ℚ V} {A : List (ACon V)} {L R : Set V} (inv : DDInv U A L R)
    (r : V) (hr : r ∈ R) (w : V) (hwU : w ∈ U)
    (hw : ∀ a ∈ A, a.f r = 0 → a.f w = 0) : ∃ β : ℚ, ∃ l, Cone L ∅ l ∧ w = β • r + l := by
  obtain ⟨ε, hε, hyP, _⟩ := exists_eps A r w (inv.raySound r hr) hw
  have hyU : r + ε • w ∈ U := U.add_mem (inv.rayU r hr) (U.smul_mem _ hwU)
  have hf := Cone.face A inv.lineSat inv.raySound (inv.complete _ hyU hyP)
  have hsub : {q | q ∈ R ∧ SatSub A (r + ε • w) q} ⊆ {r} := by
    rintro q ⟨hq, hsq⟩
    have : SatSub A r q := fun a ha h0 => hsq a ha (by simp [h0, hw a ha h0])
    exact (inv.antichain r hr q hq this).symm
  obtain ⟨β, _, l, hl, hy⟩ := Cone.single (Cone.mono (Set.Subset.refl L) hsub hf)
  refine ⟨ε⁻¹ * (β - 1), ε⁻¹ • l, Cone.lines_smul _ hl, ?_⟩
  have e1 : w = ε⁻¹ • ((r + ε • w) - r) := by
    rw [add_sub_cancel_left, smul_smul, inv_mul_cancel₀ hε.ne', one_smul]
  rw [e1, hy]
  module

theorem adjacent_ker {U : Submodule ℚ V} {A : List (ACon V)} {L R : Set V} (inv : DDInv U A L R)
    (r s : V) (hr : r ∈ R) (hs : s ∈ R) (hadj : Adjacent A R r s) (w : V) (hwU : w ∈ U)
    (hw : ∀ a ∈ A, a.f r = 0 → a.f s = 0 → a.f w = 0) :
    ∃ α β : ℚ, ∃ l, Cone L ∅ l ∧ w = α • r + β • s + l := by
  have hwx : ∀ a ∈ A, a.f (r + s) = 0 → a.f w = 0 := fun a ha h =>
    hw a ha ((inv.sat_add_iff hr hs a ha).1 h).1 ((inv.sat_add_iff hr hs a ha).1 h).2
  obtain ⟨ε, hε, hyP, _⟩ := exists_eps A (r + s) w (inv.inP_add hr hs) hwx
  have hyU : (r + s) + ε • w ∈ U :=
    U.add_mem (U.add_mem (inv.rayU r hr) (inv.rayU s hs)) (U.smul_mem _ hwU)
  have hf := Cone.face A inv.lineSat inv.raySound (inv.complete _ hyU hyP)
  have hsub : {q | q ∈ R ∧ SatSub A ((r + s) + ε • w) q} ⊆ {q | q = r ∨ q = s} := by
    rintro q ⟨hq, hsq⟩
    exact hadj q hq fun a ha h1 h2 => hsq a ha (by simp [h1, h2, hw a ha h1 h2])
  obtain ⟨α, β, _, _, l, hl, hy⟩ := Cone.pair (Cone.mono (Set.Subset.refl L) hsub hf)
  refine ⟨ε⁻¹ * (α - 1), ε⁻¹ * (β - 1), ε⁻¹ • l, Cone.lines_smul _ hl, ?_⟩
  have e1 : w = ε⁻¹ • (((r + s) + ε • w) - (r + s)) := by
    rw [add_sub_cancel_left, smul_smul, inv_mul_cancel₀ hε.ne', one_smul]
  rw [e1, hy]
  module

theorem quick_adjacent_sound {U : Submodule ℚ V} {A : List (ACon V)} {L R : Set V}
    (inv : DDInv U A L R) (r s : V) (hr : r ∈ R) (hs : s ∈ R) (e : ACon V) (he : e ∈ A)
    (her : e.f r = 0) (hes : e.f s ≠ 0) (hone : ∀ a ∈ A, a.f s ≠ 0 → a.f r ≠ 0 ∨ a = e) :
    Adjacent A R r s := by
  intro q hq hq0
  have hes_pos : 0 < e.f s := lt_of_le_of_ne (inv.ray_f_nonneg hs e he) (Ne.symm hes)
  have heq_nn : 0 ≤ e.f q := inv.ray_f_nonneg hq e he
  obtain ⟨α, hαdef⟩ : ∃ α : ℚ, α = e.f q / e.f s := ⟨_, rfl⟩
  have hα : 0 ≤ α := by rw [hαdef]; exact div_nonneg heq_nn hes_pos.le
  have hwU : q - α • s ∈ U := U.sub_mem (inv.rayU q hq) (U.smul_mem _ (inv.rayU s hs))
  have hw : ∀ a ∈ A, a.f r = 0 → a.f (q - α • s) = 0 := by
    intro a ha h0
    by_cases h1 : a.f s = 0
    · simp [hq0 a ha h0 h1, h1]
    · rcases hone a ha h1 with h | h
      · exact absurd h0 h
      · subst h
        rw [map_sub, map_smul, smul_eq_mul, hαdef, div_mul_cancel₀ _ hes, sub_self]
  obtain ⟨β, l, hl, hwl⟩ := extreme_ker inv r hr _ hwU hw
  have hfq : ∀ a ∈ A, a.f q = α * a.f s + β * a.f r := by
    intro a ha
    have h := congrArg a.f hwl
    simp only [map_sub, map_add, map_smul, smul_eq_mul, inv.coneLines_sat hl a ha] at h
    linarith
  rcases hα.eq_or_lt with h0 | hpos
  · left
    have : SatSub A r q := fun a ha h => by rw [hfq a ha, ← h0, h]; ring
    exact (inv.antichain r hr q hq this).symm
  · right
    by_cases hβ : 0 ≤ β
    · have : SatSub A q s := fun a ha h => by
        rw [hfq a ha] at h
        have h1 := inv.ray_f_nonneg hs a ha
        have h2 := mul_nonneg hβ (inv.ray_f_nonneg hr a ha)
        rcases h1.eq_or_lt with h3 | h3
        · exact h3.symm
        · have := mul_pos hpos h3
          linarith
      exact inv.antichain q hq s hs this
    · have : SatSub A s q := fun a ha h => by
        have h1 := inv.ray_f_nonneg hq a ha
        have h2 := inv.ray_f_nonneg hr a ha
        have h3 := hfq a ha
        rw [h, mul_zero, zero_add] at h3
        have : β * a.f r ≤ 0 := mul_nonpos_of_nonpos_of_nonneg (not_le.1 hβ).le h2
        linarith
      exact (inv.antichain s hs q hq this).symm
end PPLV.Conv.Abs
