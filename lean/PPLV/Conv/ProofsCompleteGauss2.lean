import PPLV.Conv.ProofsCompleteGauss1
import PPLV.Conv.ProofsCompleteSimp8
import PPLV.Conv.ProofsCompleteEmb2
import Mathlib.Data.Finset.Card
/-!
# C01 stage 4 — `simplify` returns a rank `< ncols` (`hrank` of `simplify_drops_only_redundant_partial`)

A vector `g` (`g.length ≤ ncols`) that is non-zero and satisfies the `rank` pivot rows of an echelon form
with `= 0`: its FIRST non-zero column `k₀` is no pivot column (the pivot row `p` with `piv p = k₀` is zero to
the right of `k₀`, `g` is zero to the left: the scalar product would be `row_p[k₀] * g[k₀] ≠ 0`).  The pivot
columns are `rank` different columns of `[0, ncols) \ {k₀}`: `rank + 1 ≤ ncols`.

In `simplify` every generator satisfies the equalities handed to `gauss`, hence those it leaves; the value
returned is the rank found by `gauss`.
-/
namespace PPLV.Conv

theorem ech_rank_lt (nle ncols : Nat) (rows : List SRow) (rank : Nat) (piv : Nat → Nat)
    (hE : Ech nle ncols 0 rows rank piv) (g : Vec) (hg : g.length ≤ ncols)
    (hz : ∀ p, p < rank → scalarProduct (rows.getD p default).row.v g = 0)
    (hne : ∃ k, g.getD k 0 ≠ 0) : rank + 1 ≤ ncols := by
  classical
  have hk0 : g.getD (Nat.find hne) 0 ≠ 0 := Nat.find_spec hne
  have hmin : ∀ k, k < Nat.find hne → g.getD k 0 = 0 := fun k hk => by
    have := Nat.find_min hne hk
    exact not_not.1 this
  generalize Nat.find hne = k0 at hk0 hmin
  have hk0n : k0 < ncols := by
    by_contra h
    apply hk0
    rw [List.getD_eq_getElem?_getD, List.getElem?_eq_none (by omega)]; rfl
  have hnot : ∀ p, p < rank → piv p ≠ k0 := by
    intro p hp e
    have hsum := sp_eq_sum ncols (rows.getD p default).row.v g hg
    rw [hz p hp, Finset.sum_eq_single k0] at hsum
    · have h1 := hE.nz p hp
      rw [e] at h1
      exact mul_ne_zero h1 hk0 hsum.symm
    · intro b hb hbk
      rw [Finset.mem_range] at hb
      rcases Nat.lt_or_gt_of_ne hbk with h | h
      · rw [hmin b h, mul_zero]
      · rw [hE.za p hp b (by omega) hb, zero_mul]
    · intro h; exact absurd (Finset.mem_range.2 hk0n) h
  have hcard : (Finset.range rank).card ≤ ((Finset.range ncols).erase k0).card := by
    apply Finset.card_le_card_of_injOn piv
    · intro p hp
      have hp' : p < rank := by simpa using hp
      have := hE.rng p hp'
      simp only [Finset.coe_erase, Finset.coe_range, Set.mem_sdiff, Set.mem_Iio, Set.mem_singleton_iff]
      exact ⟨this.2, hnot p hp'⟩
    · intro p hp q hq e
      have hp' : p < rank := by simpa using hp
      have hq' : q < rank := by simpa using hq
      by_contra hpq
      rcases Nat.lt_or_gt_of_ne hpq with h | h
      · have := hE.dec p q h hq'; omega
      · have := hE.dec q p h hp'; omega
  rw [Finset.card_range, Finset.card_erase_of_mem (Finset.mem_range.2 hk0n), Finset.card_range] at hcard
  omega

theorem simpE_ginv (sys : List SRow) :
    (simpE sys).1.length = sys.length ∧ GInv (simpE sys).2 (simpE sys).1 := by
  have hc := countLeadingLe_spec sys
  exact eqDetectLoop_GInv (sys.length - countLeadingLe sys) sys (countLeadingLe sys)
    (countLeadingLe sys) (Nat.le_refl _) (by omega) ⟨hc.1, hc.2⟩

theorem simpG_rank_le (ncols : Nat) (sys : List SRow) : (simpG ncols sys).2 ≤ (simpE sys).2 :=
  gauss_rank_le ncols (simpE sys).2 (simpE sys).1

/-- the number of equalities after the removal of the redundant ones is the rank found by `gauss`. -/
theorem simpP_snd (ncols : Nat) (sys : List SRow) : (simpP ncols sys).2 = (simpG ncols sys).2 := by
  have h := simpG_rank_le ncols sys
  unfold simpP dropPhase
  split
  · rfl
  · show (simpE sys).2 = _
    omega

/-- every generator satisfies (with `= 0`) the equalities left by `gauss`. -/
theorem simpG_gen_zero (ncols : Nat) (gens : List LRow) (sys : List SRow) (hOK : ∀ r ∈ sys, RowOK gens r)
    (g : LRow) (hg : g ∈ gens) :
    ∀ p, p < (simpE sys).2 → scalarProduct ((simpG ncols sys).1.getD p default).row.v g.v = 0 := by
  obtain ⟨_, eI, eOK, _⟩ := simpE_facts gens sys hOK
  have hall : holdsAll ((simpE sys).1.map (·.row)) g.v := by
    intro r hr
    exact satisfies_holds r g (sound_of_rowOK gens _ eOK g hg r hr)
  have hall' := (gauss_same_set ncols _ _ eI.2 eI.1 g.v).2 hall
  rw [holdsAll_iff_idx] at hall'
  intro p hp
  have gK := gauss_keeps ncols _ _ eI.2 eI.1
  exact holds_eq_sp _ p g.v (by have h1 := gK.1; have h2 := eI.1; show p < (gauss ncols _ _).1.length; omega) (gK.2.1.2 p hp) hall'

/-- **`hrank`**: the number of equalities `simplify` returns is `< ncols` when some generator is non-zero
(on its at most `ncols` columns) and the records are `RowOK` against the generators. -/
theorem simplify_rank_lt_core (ncols numColsSat : Nat) (sys : List SRow) (gens : List LRow)
    (hOK : ∀ r ∈ sys, RowOK gens r) (hglen : ∀ g ∈ gens, g.v.length ≤ ncols)
    (hpt : ∃ g ∈ gens, ∃ k, g.v.getD k 0 ≠ 0) :
    (simplify ncols numColsSat sys).2 + 1 ≤ ncols := by
  rw [simplify_eq']
  show (simpP ncols sys).2 + 1 ≤ ncols
  rw [simpP_snd]
  obtain ⟨g, hg, hk⟩ := hpt
  obtain ⟨_, eI⟩ := simpE_ginv sys
  obtain ⟨piv, hE⟩ := gauss_echelon ncols (simpE sys).2 (simpE sys).1 eI
  exact ech_rank_lt _ ncols _ _ piv hE g.v (hglen g hg)
    (fun p hp => simpG_gen_zero ncols gens sys hOK g hg p (by have := simpG_rank_le ncols sys; omega)) hk

/-- **`simplify_rank_lt`** — `hrank` of `simplify_drops_only_redundant_partial`, proved. -/
theorem simplify_rank_lt (ncols numColsSat : Nat) (rows : List LRow) (sat : List BRow) (gens : List LRow)
    (hsat : SatCorrect gens rows sat) (hsound : Sound rows gens)
    (hglen : ∀ g ∈ gens, g.v.length ≤ ncols) (hpt : ∃ g ∈ gens, ∃ k, g.v.getD k 0 ≠ 0) :
    (simplify ncols numColsSat (zipSys rows sat)).2 + 1 ≤ ncols :=
  simplify_rank_lt_core ncols numColsSat (zipSys rows sat) gens (zipSys_rowOK rows sat gens hsat hsound)
    hglen hpt

end PPLV.Conv
