import PPLV.Conv.ProofsCompleteGauss3
import PPLV.Conv.ProofsCompleteMin2
/-!
# C01 stage 4 — `simplify` / `minimize` keep the solution set: the unconditional statements

`simplify_drops_only_redundant_partial`, `simplify_same_set_partial` (`ProofsCompleteSimp10`) and
`minimize_same_set_partial` (`ProofsCompleteMin2`) without `hrank` and `hpiv`:

* `hpiv` (no zero pivot row in `back_substitute`) holds always: `simplify_backSubPivots`;
* `hrank` (the rank returned is `< ncols`) holds when some generator is non-zero: `simplify_rank_lt`;
  in `minimize` the generator is the one `hasPoint` found (positive divisor / epsilon coefficient).
-/
namespace PPLV.Conv

/-- **every vector (of length `≤ ncols`) satisfying the system `simplify` returns satisfies the system it was
given**: the rows dropped are redundant.  `hpt`: some generator is not the zero row. -/
theorem simplify_drops_only_redundant (ncols numColsSat : Nat) (rows : List LRow) (sat : List BRow)
    (gens : List LRow) (hsat : SatCorrect gens rows sat) (hsound : Sound rows gens)
    (hcomp : ∀ x : Vec, x.length ≤ ncols → holdsAll rows x → Generated gens x)
    (hncs : numColsSat = gens.length) (hglen : ∀ g ∈ gens, g.v.length ≤ ncols) (hsz : ncols < 2 ^ 64)
    (hpt : ∃ g ∈ gens, ∃ k, g.v.getD k 0 ≠ 0) :
    ∀ x : Vec, x.length ≤ ncols →
      holdsAll ((simplify ncols numColsSat
        (List.zipWith (fun a s => ({ row := a, sat := s } : SRow)) rows sat)).1.map (·.row)) x →
      holdsAll rows x :=
  simplify_drops_only_redundant_partial ncols numColsSat rows sat gens hsat hsound hcomp hncs hglen hsz
    (simplify_rank_lt ncols numColsSat rows sat gens hsat hsound hglen hpt)
    (simplify_backSubPivots ncols numColsSat (zipSys rows sat))

/-- **`simplify` keeps the solution set** (on the vectors of length `≤ ncols`). -/
theorem simplify_same_set (ncols numColsSat : Nat) (rows : List LRow) (sat : List BRow)
    (gens : List LRow) (hsat : SatCorrect gens rows sat) (hsound : Sound rows gens)
    (hcomp : ∀ x : Vec, x.length ≤ ncols → holdsAll rows x → Generated gens x)
    (hncs : numColsSat = gens.length) (hglen : ∀ g ∈ gens, g.v.length ≤ ncols) (hsz : ncols < 2 ^ 64)
    (hpt : ∃ g ∈ gens, ∃ k, g.v.getD k 0 ≠ 0) :
    ∀ x : Vec, x.length ≤ ncols →
      (holdsAll ((simplify ncols numColsSat (zipSys rows sat)).1.map (·.row)) x ↔ holdsAll rows x) :=
  simplify_same_set_partial ncols numColsSat rows sat gens hsat hsound hcomp hncs hglen hsz
    (simplify_rank_lt ncols numColsSat rows sat gens hsat hsound hglen hpt)
    (simplify_backSubPivots ncols numColsSat (zipSys rows sat))

/-- a row with a positive divisor / epsilon coefficient is not the zero row. -/
theorem hasPoint_witness (nnc : Bool) (ncols nle : Nat) (dest : List LRow)
    (h : hasPoint nnc ncols nle dest = true) : ∃ g ∈ dest, ∃ k, g.v.getD k 0 ≠ 0 := by
  unfold hasPoint at h
  rw [List.any_eq_true] at h
  obtain ⟨r, hr, hd⟩ := h
  have h1 : r.v.getD (if nnc then ncols - 1 else 0) 0 > 0 := of_decide_eq_true hd
  exact ⟨r, List.mem_of_mem_drop hr, (if nnc then ncols - 1 else 0), by omega⟩

/-- `minimize` does not report "empty" only when `hasPoint` found a point. -/
theorem minimize_hasPoint (nnc : Bool) (ncols : Nat) (source : List LRow) (sat0 : List BRow)
    (hne : (minimize true nnc ncols source sat0).empty = false) :
    hasPoint nnc ncols
      (conversion ncols source 0 (identityLines ncols)
        (List.replicate ncols (List.replicate source.length false)) ncols).nle
      (conversion ncols source 0 (identityLines ncols)
        (List.replicate ncols (List.replicate source.length false)) ncols).dest = true := by
  by_contra hc
  unfold minimize at hne
  simp only at hne
  rw [if_pos (by simpa using hc)] at hne
  simp at hne

/-- **`minimize` returns a system with the solutions of the one it was given** (when it does not report
"empty"): every vector of length `≤ ncols` satisfying the minimized system satisfies the system `conversion`
was run on.  No hypothesis left on `gauss` / `back_substitute`. -/
theorem minimize_same_set (nnc : Bool) (ncols : Nat) (source : List LRow) (sat0 : List BRow)
    (hsz : ncols < 2 ^ 64) (hsrc : source.length < 2 ^ 64)
    (hne : (minimize true nnc ncols source sat0).empty = false) :
    ∀ x : Vec, x.length ≤ ncols → holdsAll (minimize true nnc ncols source sat0).source x →
      holdsAll (conversion ncols source 0 (identityLines ncols)
        (List.replicate ncols (List.replicate source.length false)) ncols).source x := by
  have hpt := hasPoint_witness _ _ _ _ (minimize_hasPoint nnc ncols source sat0 hne)
  obtain ⟨hsound, _⟩ := conversion_sound' ncols source 0 (identityLines ncols)
    (List.replicate ncols (List.replicate source.length false)) ncols
    (by intro d _ s hs; simp at hs) (linesFirst_identity' ncols) (by simp [identityLines]) (by simp [identityLines])
  have hsatc := conversion_sat_correct ncols source 0 (identityLines ncols)
    (List.replicate ncols (List.replicate source.length false)) ncols (Nat.zero_le _)
    (by intro d _ s hs; simp at hs) (linesFirst_identity' ncols) (by simp [identityLines])
    (satCorrect_identity ncols source.length)
  generalize hr : conversion ncols source 0 (identityLines ncols)
    (List.replicate ncols (List.replicate source.length false)) ncols = r at hpt hsound hsatc
  have hsound' : Sound r.source r.dest := fun d hd s hs =>
    hsound d hd s (by rw [← hr] at hs; exact conversion_source_subset _ _ _ _ _ _ s hs)
  have hglen : ∀ g ∈ r.dest, g.v.length ≤ ncols := by
    rw [← hr]; exact conversion_identity_length ncols source
  have hT := satCorrect_transpose r.source r.dest r.sat hsatc
  subst hr
  refine minimize_same_set_partial nnc ncols source sat0 hsz hsrc hne ?_ ?_
  · exact simplify_rank_lt ncols _ _ _ _ hT hsound' hglen hpt
  · exact simplify_backSubPivots ncols _ _

end PPLV.Conv
