import PPLV.Conv.Sort
import PPLV.Conv.ProofsSound3
/-!
# `sort_rows()` keeps the rows (as a set)
-/
namespace PPLV.Conv

theorem mem_insertRow (gen nnc : Bool) (r x : LRow) (l : List LRow) :
    x ∈ insertRow gen nnc r l ↔ x = r ∨ x ∈ l := by
  induction l with
  | nil => simp [insertRow]
  | cons y ys ih =>
    simp only [insertRow]
    split
    · simp
    · simp only [List.mem_cons, ih]
      constructor
      · rintro (h | h | h)
        · exact Or.inr (Or.inl h)
        · exact Or.inl h
        · exact Or.inr (Or.inr h)
      · rintro (h | h | h)
        · exact Or.inr (Or.inl h)
        · exact Or.inl h
        · exact Or.inr (Or.inr h)

theorem mem_foldl_insertRow (gen nnc : Bool) (l acc : List LRow) (x : LRow) :
    x ∈ l.foldl (fun acc r => insertRow gen nnc r acc) acc ↔ x ∈ l ∨ x ∈ acc := by
  induction l generalizing acc with
  | nil => simp
  | cons y ys ih =>
    simp only [List.foldl_cons, ih, mem_insertRow, List.mem_cons]
    constructor
    · rintro (h | h | h)
      · exact Or.inl (Or.inr h)
      · exact Or.inl (Or.inl h)
      · exact Or.inr h
    · rintro ((h | h) | h)
      · exact Or.inr (Or.inl h)
      · exact Or.inl h
      · exact Or.inr (Or.inr h)

theorem mem_uniqueRows (l : List LRow) (x : LRow) : x ∈ uniqueRows l ↔ x ∈ l := by
  induction l with
  | nil => simp [uniqueRows]
  | cons a rest ih =>
    simp only [uniqueRows]
    split
    · rename_i h
      have hh : rest.head? = some a := by simpa using h
      have ha : a ∈ rest := by
        cases rest with
        | nil => simp at hh
        | cons b bs =>
          simp only [List.head?_cons, Option.some.injEq] at hh
          rw [hh]; exact List.mem_cons_self ..
      rw [ih]
      constructor
      · intro h1; exact List.mem_cons_of_mem _ h1
      · intro h1
        rcases List.mem_cons.mp h1 with h2 | h2
        · rw [h2]; exact ha
        · exact h2
    · simp only [List.mem_cons, ih]

/-- `sort_rows()` neither invents nor loses a row. -/
theorem mem_sortRows (gen nnc : Bool) (l : List LRow) (x : LRow) : x ∈ sortRows gen nnc l ↔ x ∈ l := by
  unfold sortRows
  rw [mem_uniqueRows, mem_foldl_insertRow]
  simp

end PPLV.Conv
