import PPLV.Conv.ProofsSat
import PPLV.Conv.ProofsRay
/-!
# The saturation matrix kept by `conversion` never goes stale: the ray case and the step
-/
namespace PPLV.Conv

theorem int_comb_ne_zero (g a b x y z : Int) (hg : 0 < g) (ha : 0 < a) (hb : 0 < b) (hx : 0 ≤ x) (hy : 0 ≤ y)
    (e : a * y + b * x = g * z) : z ≠ 0 ↔ (x ≠ 0 ∨ y ≠ 0) := by
  constructor
  · intro hz
    by_contra hc
    have hx0 : x = 0 := by by_contra h; exact hc (Or.inl h)
    have hy0 : y = 0 := by by_contra h; exact hc (Or.inr h)
    subst hx0; subst hy0
    simp only [Int.mul_zero, Int.add_zero] at e
    rcases Int.mul_eq_zero.mp e.symm with h | h
    · omega
    · exact hz h
  · intro h hz
    subst hz
    simp only [Int.mul_zero] at e
    have h1 : 0 ≤ a * y := Int.mul_nonneg (le_of_lt ha) hy
    have h2 : 0 ≤ b * x := Int.mul_nonneg (le_of_lt hb) hx
    have h3 : a * y = 0 := by omega
    have h4 : b * x = 0 := by omega
    rcases Int.mul_eq_zero.mp h3 with h5 | h5
    · omega
    · rcases Int.mul_eq_zero.mp h4 with h6 | h6
      · omega
      · rcases h with h | h
        · exact h h6
        · exact h h5

/-- the new ray: its bits are the union, and it saturates `srcK`. -/
theorem newRay_bits (srcK : LRow) (kept : List LRow) (ri rj : DRow)
    (hi : 0 < ri.sp) (hj : rj.sp < 0) (hlj : rj.row.le = false)
    (hspi : ri.sp = scalarProduct srcK.v ri.row.v) (hspj : rj.sp = scalarProduct srcK.v rj.row.v)
    (hPi : ∀ s ∈ kept, 0 ≤ scalarProduct s.v ri.row.v) (hPj : ∀ s ∈ kept, 0 ≤ scalarProduct s.v rj.row.v)
    (hbi : BitsOK kept ri.sat ri.row) (hbj : BitsOK kept rj.sat rj.row) :
    BitsOK kept (newRay ri rj (bor ri.sat rj.sat)).sat (newRay ri rj (bor ri.sat rj.sat)).row ∧
    scalarProduct srcK.v (newRay ri rj (bor ri.sat rj.sat)).row.v = 0 := by
  obtain ⟨g, a, b, hg, ha, hb, hab, _, _, hsat, hs⟩ := sp_newRay ri rj (bor ri.sat rj.sat) hi hj hlj
  constructor
  · intro j
    rw [hsat, bit_bor, hbi j, hbj j]
    by_cases hjl : j < kept.length
    · have hmem := getD_mem_of_lt kept j hjl
      have key := int_comb_ne_zero g a b _ _ _ hg ha hb (hPi _ hmem) (hPj _ hmem) (hs (kept.getD j default).v)
      rw [decide_eq_true hjl]
      simp only [Bool.true_and]
      rw [← Bool.decide_or]
      exact (decide_eq_decide.mpr key).symm
    · rw [decide_eq_false hjl]; rfl
  · have e := hs srcK.v
    rw [← hspi, ← hspj, hab] at e
    rcases Int.mul_eq_zero.mp e.symm with h | h
    · omega
    · exact h

theorem keepImage_false (newK : Nat) (d : DRow) : keepImage false newK d = d := by
  unfold keepImage; simp

/-- **the ray case keeps the saturation rows right**. -/
theorem rayCase_sat (ncols : Nat) (srcK : LRow) (kept : List LRow) (st : CState) (H : StepHyp srcK st kept)
    (hz : ∀ d ∈ st.rows.take st.nle, d.sp = 0) (hsat : RowsSatCorrect kept st.rows) :
    let st' := rayCase ncols srcK kept.length st
    (st'.redundant = st.redundant ∧ RowsSatCorrect (kept ++ [srcK]) st'.rows) ∨
    (st'.redundant = st.redundant ++ [st.k] ∧ RowsSatCorrect kept st'.rows) := by
  intro st'
  obtain ⟨_, _, hred, tail, hrows, htail, _⟩ := rayCase_rows ncols srcK kept.length st H.hn hz
  by_cases hA : (!srcK.le && st.rows.all (fun d => decide (0 ≤ d.sp))) = true
  · right
    rw [if_pos hA] at hred
    refine ⟨hred, ?_⟩
    have hall : ∀ x ∈ st.rows, 0 ≤ x.sp := by
      have := (Bool.and_eq_true _ _).mp hA
      have h2 := List.all_eq_true.mp this.2
      intro x hx; simpa using h2 x hx
    have hsetb : (!srcK.le && st.rows.any (fun d => decide (d.sp < 0))) = false := by
      have : st.rows.any (fun d => decide (d.sp < 0)) = false := by
        rw [List.any_eq_false]
        intro x hx
        have := hall x hx
        simp; omega
      rw [this]; simp
    intro d' hd'
    have hd' : d' ∈ (rayCase ncols srcK kept.length st).rows := hd'
    rw [hrows] at hd'
    rcases List.mem_append.mp hd' with h | h
    · exact hsat d' (List.mem_of_mem_take h)
    · rcases htail d' h with ⟨d, hd, _, he⟩ | ⟨ri, _, rj, hrj, _, hjn, _⟩
      · rw [hsetb, keepImage_false] at he
        rw [he]; exact hsat d (List.mem_of_mem_drop hd)
      · have := hall rj (List.mem_of_mem_drop hrj)
        omega
  · left
    rw [if_neg hA] at hred
    refine ⟨hred, ?_⟩
    have hany : srcK.le = false → st.rows.any (fun d => decide (d.sp < 0)) = true := by
      intro hk'
      by_contra hn
      apply hA
      rw [hk']
      simp only [Bool.not_false, Bool.true_and]
      rw [List.all_eq_true]
      intro x hx
      by_contra hneg
      apply hn
      rw [List.any_eq_true]
      refine ⟨x, hx, ?_⟩
      simp at hneg ⊢
      omega
    intro d' hd'
    have hd' : d' ∈ (rayCase ncols srcK kept.length st).rows := hd'
    rw [hrows] at hd'
    rcases List.mem_append.mp hd' with h | h
    · have hm := List.mem_of_mem_take h
      apply extend_false kept srcK _ _ (hsat d' hm)
      rw [← H.hsp d' hm]; exact hz d' h
    · rcases htail d' h with ⟨d, hd, hsurv, he⟩ | ⟨ri, hri, rj, hrj, hip, hjn, he⟩
      · have dmem := List.mem_of_mem_drop hd
        have hOK : BitsOK kept d.sat d.row := hsat d dmem
        rw [he]
        unfold keepImage
        by_cases hc : ((!srcK.le && st.rows.any (fun d => decide (d.sp < 0))) && decide (0 < d.sp)) = true
        · rw [if_pos hc]
          apply extend_true kept srcK d.sat d.row hOK
          rw [← H.hsp d dmem]
          have := ((Bool.and_eq_true _ _).mp hc).2
          have : 0 < d.sp := by simpa using this
          omega
        · rw [if_neg hc]
          apply extend_false kept srcK d.sat d.row hOK
          rw [← H.hsp d dmem]
          unfold survives at hsurv
          by_cases hk : srcK.le = true
          · rw [if_pos hk] at hsurv; exact hsurv
          · have hk' : srcK.le = false := by simpa using hk
            rw [if_neg hk] at hsurv
            rw [hk', hany hk'] at hc
            simp at hc
            omega
      · obtain ⟨mi, hmi, hgi⟩ := (mem_drop_iff_getElem? _ _ _).mp hri
        obtain ⟨mj, hmj, hgj⟩ := (mem_drop_iff_getElem? _ _ _).mp hrj
        have hli : ri.row.le = false := by rw [H.hl mi ri hgi]; simp; omega
        have hlj : rj.row.le = false := by rw [H.hl mj rj hgj]; simp; omega
        have rim := memC hgi
        have rjm := memC hgj
        obtain ⟨q1, q2⟩ := newRay_bits srcK kept ri rj hip hjn hlj (H.hsp ri rim) (H.hsp rj rjm)
          (fun s hs => satisfies_nonneg s ri.row (H.hP ri rim s hs))
          (fun s hs => satisfies_nonneg s rj.row (H.hP rj rjm s hs)) (hsat ri rim) (hsat rj rjm)
        rw [he]
        exact extend_false kept srcK _ _ q1 q2

/-! ## the step -/

/-- **one iteration keeps the saturation rows right**: either `srcK` gets the next column, or it is
recorded as redundant and the columns are unchanged. -/
theorem conversionStep_sat (ncols : Nat) (srcK : LRow) (st : CState) (kept : List LRow)
    (hk : kept.length = st.k - st.redundant.length)
    (hs : ∀ d ∈ st.rows, ∀ s ∈ kept, satisfies s d.row)
    (hl : ∀ m d, st.rows[m]? = some d → d.row.le = decide (m < st.nle)) (hn : st.nle ≤ st.rows.length)
    (hsat : RowsSatCorrect kept st.rows) :
    let st' := conversionStep ncols srcK st
    (st'.redundant = st.redundant ∧ RowsSatCorrect (kept ++ [srcK]) st'.rows) ∨
    (st'.redundant = st.redundant ++ [st.k] ∧ RowsSatCorrect kept st'.rows) := by
  intro st'
  let rows1 := st.rows.map fun d => { d with sp := scalarProduct srcK.v d.row.v }
  let st1 : CState := { st with rows := rows1 }
  have hmem1 : ∀ d ∈ rows1, ∃ d0 ∈ st.rows, d = { d0 with sp := scalarProduct srcK.v d0.row.v } := by
    intro d hd
    obtain ⟨d0, h0, h1⟩ := List.mem_map.mp hd
    exact ⟨d0, h0, h1.symm⟩
  have H : StepHyp srcK st1 kept := by
    refine ⟨?_, ?_, ?_, ?_⟩
    · intro d hd
      obtain ⟨d0, _, h1⟩ := hmem1 d hd
      rw [h1]
    · intro d hd
      obtain ⟨d0, h0, h1⟩ := hmem1 d hd
      rw [h1]; exact hs d0 h0
    · intro m d hd
      have hd' : (st.rows.map fun d => { d with sp := scalarProduct srcK.v d.row.v })[m]? = some d := hd
      rw [List.getElem?_map] at hd'
      match hq : st.rows[m]? with
      | none => rw [hq] at hd'; simp at hd'
      | some d0 =>
        rw [hq] at hd'
        simp only [Option.map_some, Option.some.injEq] at hd'
        rw [← hd']; exact hl m d0 hq
    · show st.nle ≤ (st.rows.map _).length
      rw [List.length_map]; exact hn
  have hsat1 : RowsSatCorrect kept st1.rows := by
    intro d hd
    obtain ⟨d0, h0, h1⟩ := hmem1 d hd
    rw [h1]; exact hsat d0 h0
  have e : st' = if indexNonZero rows1 < st.nle then lineCase srcK kept.length st1 (indexNonZero rows1)
                 else rayCase ncols srcK kept.length st1 := by
    rw [hk]; rfl
  rw [e]
  by_cases hinz : indexNonZero rows1 < st.nle
  · rw [if_pos hinz]
    left
    have hlen1 : rows1.length = st.rows.length := List.length_map _
    exact lineCase_sat srcK kept st1 (indexNonZero rows1) H hinz
      (fun m d hm hd => indexNonZero_before rows1 m d hm hd)
      (indexNonZero_at rows1 (by omega)) hsat1
  · rw [if_neg hinz]
    apply rayCase_sat ncols srcK kept st1 H _ hsat1
    intro d hd
    obtain ⟨m, hm⟩ := List.mem_iff_getElem?.mp hd
    rw [List.getElem?_take] at hm
    split at hm
    · rename_i hlt
      exact indexNonZero_before rows1 m d (by show m < indexNonZero rows1; have : m < st.nle := hlt; omega) hm
    · cases hm

end PPLV.Conv
