import PPLV.Conv.ProofsRay
import PPLV.Conv.ProofsSat2
/-!
# C01 stage 4 — the exact shape of the list `rayCase` returns

`rayCase_rows` (stage 3) describes the members of the result; completeness and minimality need the
list itself: the lines, then the kept rays in the order of the partition, then a permutation of
`newRays` (the final `swapLoop` reverses part of it).
-/
namespace PPLV.Conv

/-- the shape of the result of `rayBody`. -/
def RayShape (ncols : Nat) (srcK : LRow) (newK : Nat) (st st' : CState) (R : List DRow) (leb sup : Nat) : Prop :=
  ∃ t, t.Perm (newRays ncols st.nle newK leb sup st.rows.length R) ∧
    st'.rows = st.rows.take st.nle ++
      (((R.take (if srcK.le then leb else sup)).drop st.nle).map
          (keepImage (!srcK.le && st.rows.any (fun d => decide (d.sp < 0))) newK) ++ t)

theorem newRays_nil_of_sup (ncols nle newK leb sup bound : Nat) (R : List DRow) (h : bound ≤ sup) :
    newRays ncols nle newK leb sup bound R = [] := by
  unfold newRays
  have : bound - sup = 0 := by omega
  rw [this]
  simp

theorem newRays_nil_of_leb (ncols nle newK leb sup bound : Nat) (R : List DRow) (h : sup ≤ leb) :
    newRays ncols nle newK leb sup bound R = [] := by
  unfold newRays
  have : sup - leb = 0 := by omega
  rw [this]
  simp

theorem map_keepImage_false (newK : Nat) (l : List DRow) : l.map (keepImage false newK) = l := by
  have : keepImage false newK = id := by funext d; exact keepImage_false newK d
  rw [this, List.map_id]

theorem rayShape_noNeg (ncols : Nat) (srcK : LRow) (newK : Nat) (st : CState) (R : List DRow) (leb sup : Nat)
    (h : PartOK st R leb sup) (hs : sup = st.rows.length) :
    RayShape ncols srcK newK st (rayBody ncols srcK newK st R leb sup) R leb sup := by
  obtain ⟨g1, g2⟩ := h.noNeg hs
  refine ⟨[], by rw [newRays_nil_of_sup _ _ _ _ _ _ _ (by omega)], ?_⟩
  have hsetb : (!srcK.le && st.rows.any (fun d => decide (d.sp < 0))) = false := by simp [g2]
  rw [hsetb, map_keepImage_false, List.append_nil]
  cases hle : srcK.le
  · have hb : rayBody ncols srcK newK st R leb sup = { st with rows := R, redundant := st.redundant ++ [st.k] } := by
      simp [rayBody, hs, hle]
    rw [hb]
    show R = _
    simp only [Bool.false_eq_true, if_false]
    rw [hs, ← h.hlen, List.take_length, ← h.htake, List.take_append_drop]
  · have hb : rayBody ncols srcK newK st R leb sup = { st with rows := R.take leb } := by
      simp [rayBody, hs, hle]
    rw [hb]
    show R.take leb = _
    simp only [if_true]
    conv_lhs => rw [← List.take_append_drop st.nle (R.take leb)]
    rw [List.take_take, Nat.min_eq_left h.h1, h.htake]

theorem rayShape_allNeg (ncols : Nat) (srcK : LRow) (newK : Nat) (st : CState) (R : List DRow) (leb sup : Nat)
    (h : PartOK st R leb sup) (hs : sup < st.rows.length) (hsn : sup = st.nle) :
    RayShape ncols srcK newK st (rayBody ncols srcK newK st R leb sup) R leb sup := by
  have hb : rayBody ncols srcK newK st R leb sup = { st with rows := R.take sup } := by
    have : st.nle ≠ st.rows.length := by omega
    simp [rayBody, this, hsn]
  have hleb : leb = st.nle := by have := h.h1; have := h.h2; omega
  refine ⟨[], by rw [newRays_nil_of_leb _ _ _ _ _ _ _ (by omega)], ?_⟩
  rw [hb]
  show R.take sup = _
  have e : (R.take (if srcK.le then leb else sup)).drop st.nle = [] := by
    have : (if srcK.le then leb else sup) = st.nle := by split <;> omega
    rw [this, List.drop_eq_nil_iff, List.length_take]; omega
  rw [e, hsn, h.htake]; simp

theorem rayShape_general_ineq (ncols : Nat) (srcK : LRow) (newK : Nat) (st : CState) (R : List DRow) (leb sup : Nat)
    (h : PartOK st R leb sup) (hs : sup < st.rows.length) (hsn : sup ≠ st.nle) (hle : srcK.le = false) :
    RayShape ncols srcK newK st (rayBody ncols srcK newK st R leb sup) R leb sup := by
  obtain ⟨g1, g2⟩ := h.hasNeg hs
  have hnl := h.h1
  have hls := h.h2
  have hne : sup ≠ st.rows.length := by omega
  let f : Nat → DRow → DRow := fun l d => if leb ≤ l ∧ l < sup then { d with sat := setBit d.sat newK } else d
  let NR := newRays ncols st.nle newK leb sup st.rows.length R
  let rows3 := (R ++ NR).mapIdx f
  have hl3 : st.rows.length ≤ rows3.length := by
    simp only [rows3, List.length_mapIdx, List.length_append, h.hlen]; omega
  obtain ⟨t, ht1, ht2⟩ := swap_take_shape rows3 st.nle sup st.rows.length (by omega) (by omega) hl3
  have hb : rayBody ncols srcK newK st R leb sup = { st with rows := rows3.take st.nle ++ ((rows3.take sup).drop st.nle ++ t) } := by
    rw [← ht1]
    simp only [rayBody, beq_iff_eq, if_neg hne, if_neg hsn, hle, Bool.not_false, if_true]
    rfl
  have e1 : rows3.take st.nle = st.rows.take st.nle := by
    rw [mapIdx_take_eq f _ st.nle (by intro l hl d; simp only [f]; rw [if_neg (by omega)]),
      List.take_append_of_le_length (by rw [h.hlen]; omega), h.htake]
  have e2 : rows3.drop st.rows.length = NR := by
    rw [mapIdx_drop_eq f _ st.rows.length (by intro l hl d; simp only [f]; rw [if_neg (by omega)]),
      ← h.hlen, List.drop_left]
  have e3 : ∀ m, m < st.rows.length → rows3[m]? = (R[m]?).map (f m) := by
    intro m hm
    simp only [rows3, List.getElem?_mapIdx]
    rw [List.getElem?_append_left (by rw [h.hlen]; exact hm)]
  have hfk : ∀ m d, st.nle ≤ m → m < sup → R[m]? = some d →
      f m d = keepImage (!srcK.le && st.rows.any (fun d => decide (d.sp < 0))) newK d := by
    intro m d hm1 hm2 hd
    obtain ⟨_, _, a3, a4, _⟩ := h.at m d hm1 hd
    by_cases hml : m < leb
    · have := a3 hml
      simp only [f, keepImage, hle, g1]
      rw [if_neg (by omega), if_neg (by simp; omega)]
    · have := a4 (by omega) hm2
      simp only [f, keepImage, hle, g1]
      rw [if_pos (by omega), if_pos (by simpa using this)]
  refine ⟨t, by rw [e2] at ht2; exact ht2, ?_⟩
  rw [hb]
  show rows3.take st.nle ++ _ = _
  rw [e1]
  congr 2
  simp only [hle, Bool.false_eq_true, if_false]
  apply List.ext_getElem?
  intro m
  rw [List.getElem?_drop, List.getElem?_take, List.getElem?_map, List.getElem?_drop, List.getElem?_take]
  by_cases hm : st.nle + m < sup
  · simp only [hm, if_true]
    rw [e3 _ (by omega)]
    cases hR : R[st.nle + m]? with
    | none => rfl
    | some d =>
      simp only [Option.map_some]
      rw [hfk _ d (by omega) hm hR, hle]
  · simp [hm]

theorem rayShape_general_eq (ncols : Nat) (srcK : LRow) (newK : Nat) (st : CState) (R : List DRow) (leb sup : Nat)
    (h : PartOK st R leb sup) (hs : sup < st.rows.length) (hsn : sup ≠ st.nle) (hle : srcK.le = true) :
    RayShape ncols srcK newK st (rayBody ncols srcK newK st R leb sup) R leb sup := by
  have hnl := h.h1
  have hls := h.h2
  have hne : sup ≠ st.rows.length := by omega
  let NR := newRays ncols st.nle newK leb sup st.rows.length R
  let rows3 := R ++ NR
  have hl3 : st.rows.length ≤ rows3.length := by
    simp only [rows3, List.length_append, h.hlen]; omega
  obtain ⟨t, ht1, ht2⟩ := swap_take_shape rows3 st.nle leb st.rows.length (by omega) (by omega) hl3
  have hb : rayBody ncols srcK newK st R leb sup = { st with rows := rows3.take st.nle ++ ((rows3.take leb).drop st.nle ++ t) } := by
    rw [← ht1]
    simp only [rayBody, beq_iff_eq, if_neg hne, if_neg hsn, hle, Bool.not_true]
    rfl
  have e1 : rows3.take st.nle = st.rows.take st.nle := by
    rw [List.take_append_of_le_length (by rw [h.hlen]; omega), h.htake]
  have e2 : rows3.drop st.rows.length = NR := by
    rw [← h.hlen, List.drop_left]
  have e4 : rows3.take leb = R.take leb := List.take_append_of_le_length (by rw [h.hlen]; omega)
  have hsetb : (!srcK.le && st.rows.any (fun d => decide (d.sp < 0))) = false := by simp [hle]
  refine ⟨t, by rw [e2] at ht2; exact ht2, ?_⟩
  rw [hb, hsetb, map_keepImage_false]
  show rows3.take st.nle ++ _ = _
  rw [e1, e4]
  simp [hle]

theorem rayBody_shape (ncols : Nat) (srcK : LRow) (newK : Nat) (st : CState) (R : List DRow) (leb sup : Nat)
    (h : PartOK st R leb sup) : RayShape ncols srcK newK st (rayBody ncols srcK newK st R leb sup) R leb sup := by
  by_cases hs : sup = st.rows.length
  · exact rayShape_noNeg ncols srcK newK st _ _ _ h hs
  · have hs' : sup < st.rows.length := Nat.lt_of_le_of_ne h.h3 hs
    by_cases hsn : sup = st.nle
    · exact rayShape_allNeg ncols srcK newK st _ _ _ h hs' hsn
    · cases hle : srcK.le
      · exact rayShape_general_ineq ncols srcK newK st _ _ _ h hs' hsn hle
      · exact rayShape_general_eq ncols srcK newK st _ _ _ h hs' hsn hle

/-- **the list `rayCase` returns.** -/
theorem rayCase_shape (ncols : Nat) (srcK : LRow) (newK : Nat) (st : CState) (hnle : st.nle ≤ st.rows.length)
    (hz : ∀ d ∈ st.rows.take st.nle, d.sp = 0) :
    ∃ R leb sup, PartOK st R leb sup ∧ RayShape ncols srcK newK st (rayCase ncols srcK newK st) R leb sup := by
  rw [rayCase_eq]
  obtain ⟨p1, p2, p3, p4, p5, p6, p7⟩ := rayCase_partition st hnle
  have h : PartOK st _ _ _ := ⟨p1, p2, p3, p4, p5, p6, p7, hz⟩
  exact ⟨_, _, _, h, rayBody_shape ncols srcK newK st _ _ _ h⟩

/-- membership in `newRays`, with the verdict of the adjacency test. -/
theorem mem_newRays_iff (ncols nle newK leb sup bound : Nat) (rows : List DRow) (x : DRow) :
    x ∈ newRays ncols nle newK leb sup bound rows ↔
    ∃ i j s, leb ≤ i ∧ i < sup ∧ sup ≤ j ∧ j < bound ∧ adjacent ncols nle newK bound rows i j = some s ∧
      x = newRay (rows.getD i default) (rows.getD j default) s := by
  unfold newRays
  rw [List.mem_flatMap]
  constructor
  · rintro ⟨i, hi, h⟩
    rw [List.mem_filterMap] at h
    obtain ⟨j, hj, h⟩ := h
    rw [List.mem_range'_1] at hi hj
    split at h
    · cases h
    · rename_i s hs
      exact ⟨i, j, s, hi.1, by omega, hj.1, by omega, hs, (Option.some.inj h).symm⟩
  · rintro ⟨i, j, s, h1, h2, h3, h4, h5, rfl⟩
    refine ⟨i, by rw [List.mem_range'_1]; omega, ?_⟩
    rw [List.mem_filterMap]
    refine ⟨j, by rw [List.mem_range'_1]; omega, ?_⟩
    rw [h5]

end PPLV.Conv
