import PPLV.Conv.ProofsCompleteFacetPoints1
import PPLV.Conv.ProofsCompleteFacetPointsR1
import PPLV.Conv.ProofsCompleteFacetPointsK1
import PPLV.Props.C01ConvMinimal
/-!
# C01 stage 4c — `minimize`: every non-tautological inequality returned is saturated by a point returned
-/
namespace PPLV.Conv
open PPLV.Conv.Abs

/-- nothing is non-zero to the right of `lastNonzero`. -/
theorem lastNonzero_max (v : Vec) : ∀ j, lastNonzero v < j → v.getD j 0 = 0 := by
  induction v using List.reverseRecOn with
  | nil => intro j _; simp
  | append_singleton w a ih =>
    intro j hj
    rw [lastNonzero_append] at hj
    by_cases ha : a = 0
    · rw [if_neg (by simpa using ha)] at hj
      by_cases hjw : j < w.length
      · rw [List.getD_eq_getElem?_getD, List.getElem?_append_left hjw, ← List.getD_eq_getElem?_getD]
        exact ih j hj
      · by_cases hje : j = w.length
        · subst hje; simp [ha]
        · rw [List.getD_eq_getElem?_getD, List.getElem?_eq_none (by simp; omega)]; rfl
    · rw [if_pos ha] at hj
      rw [List.getD_eq_getElem?_getD, List.getElem?_eq_none (by simp; omega)]; rfl

theorem getD_map_row (F : List SRow) (k : Nat) (hk : k < F.length) :
    (F.map (·.row)).getD k default = (F.getD k default).row := by
  rw [List.getD_eq_getElem?_getD, List.getElem?_map, List.getElem?_eq_getElem hk,
    List.getD_eq_getElem?_getD, List.getElem?_eq_getElem hk]
  rfl

/-- the list-level statement: `F` = the system `simplify` returns (first `n` rows equalities), `gens` the generators. -/
theorem facet_points_core2 (ncols : Nat) (gens : List LRow) (F : List SRow) (n : Nat)
    (hglen : ∀ g ∈ gens, g.v.length ≤ ncols)
    (hsF : ∀ m, m < F.length → ∀ g ∈ gens, satisfies (F.getD m default).row g)
    (heqF : ∀ m, m < n → (F.getD m default).row.le = true)
    (hexF : ∀ m, n ≤ m → m < F.length → (F.getD m default).row.le = false ∧
      bitsEmpty (F.getD m default).sat = false ∧ ExactBits gens (F.getD m default))
    (hred : ∀ p, p < n →
      (F.getD p default).row.v.getD (lastNonzero (F.getD p default).row.v) 0 ≠ 0 ∧
      ∀ m, m < F.length → (m < p ∨ n ≤ m) →
        (F.getD m default).row.v.getD (lastNonzero (F.getD p default).row.v) 0 = 0)
    (hlay : n ≤ F.length)
    (hlenF : ∀ s ∈ F, s.row.v.length ≤ ncols)
    (hcompl : ∀ x : Vec, x.length ≤ ncols → holdsAll (F.map (·.row)) x → Generated gens x)
    (hposF : ∀ x : Vec, x.length ≤ ncols → holdsAll (F.map (·.row)) x → 0 ≤ x.getD 0 0)
    (hpt : ∃ g ∈ gens, g.le = false ∧ 0 < g.v.getD 0 0)
    (hirr : ∀ i, n ≤ i → i < (F.map (·.row)).length → ∃ x : Vec, x.length ≤ ncols ∧
      (∀ k, k < (F.map (·.row)).length → k ≠ i → holds ((F.map (·.row)).getD k default) x) ∧
      ¬ holds ((F.map (·.row)).getD i default) x) :
    ∀ c ∈ F.map (·.row), c.le = false → ¬ ((∀ j, 1 ≤ j → c.v.getD j 0 = 0) ∧ 0 ≤ c.v.getD 0 0) →
      ∃ g ∈ gens, g.le = false ∧ 0 < g.v.getD 0 0 ∧ scalarProduct c.v g.v = 0 := by
  have hlen : (F.map (·.row)).length = F.length := List.length_map _
  obtain ⟨gp, hgp, hgple, hgp0⟩ := hpt
  -- the pivot columns
  let J : Nat → Nat := fun p => lastNonzero (F.getD p default).row.v
  have hJ0 : ∀ p, p < n → J p ≠ 0 := by
    intro p hpn hJ
    have hpl : p < F.length := by omega
    obtain ⟨hnz, _⟩ := hred p hpn
    have hJ' : lastNonzero (F.getD p default).row.v = 0 := hJ
    rw [hJ'] at hnz
    have hz : scalarProduct (F.getD p default).row.v gp.v = 0 :=
      satisfies_eq_zero _ gp (heqF p hpn) (hsF p hpl gp hgp)
    rw [sp_eq_sum ncols _ gp.v (hglen gp hgp), Finset.sum_eq_single 0] at hz
    · rcases Int.mul_eq_zero.mp hz with h | h
      · exact hnz h
      · omega
    · intro j _ hj
      rw [lastNonzero_max _ j (by rw [hJ']; omega)]; ring
    · intro h0
      exfalso; apply h0
      rw [Finset.mem_range]
      have h1 : 0 < gp.v.length := by
        by_contra hcz
        have hnil : gp.v = [] := List.length_eq_zero_iff.mp (by omega)
        rw [hnil] at hgp0
        simp at hgp0
      have := hglen gp hgp
      omega
  intro c hc hcle hnt
  obtain ⟨i, hi⟩ := List.mem_iff_getElem?.mp hc
  have hil : i < (F.map (·.row)).length := (List.getElem?_eq_some_iff.1 hi).1
  have hil' : i < F.length := by rwa [hlen] at hil
  have hci : (F.map (·.row)).getD i default = c := by rw [List.getD_eq_getElem?_getD, hi]; rfl
  have hni : n ≤ i := by
    by_contra hlt
    have := heqF i (by omega)
    rw [← getD_map_row F i hil', hci, hcle] at this
    cases this
  have key := facet_point_core ncols gens (F.map (·.row)) n J hglen
    (by
      intro rr hrr g hg
      obtain ⟨k, hk⟩ := List.mem_iff_getElem?.mp hrr
      have hkl : k < (F.map (·.row)).length := (List.getElem?_eq_some_iff.1 hk).1
      have hkl' : k < F.length := by rwa [hlen] at hkl
      have : (F.map (·.row)).getD k default = rr := by rw [List.getD_eq_getElem?_getD, hk]; rfl
      rw [← this, getD_map_row F k hkl']
      exact hsF k hkl' g hg)
    hcompl
    (by intro k hk; rw [getD_map_row F k (by omega)]; exact heqF k hk)
    (by intro k hk1 hk2; rw [hlen] at hk2; rw [getD_map_row F k hk2]; exact (hexF k hk1 hk2).1)
    (by
      intro k hk1 hk2
      rw [hlen] at hk2
      rw [getD_map_row F k hk2]
      obtain ⟨_, hbe, hex⟩ := hexF k hk1 hk2
      obtain ⟨j, hj⟩ := (bitsEmpty_false_iff _).mp hbe
      obtain ⟨hjl, hpos'⟩ := pos_of_bit hex (hsF k hk2) j hj
      exact ⟨_, List.getElem_mem hjl, hpos'⟩)
    hposF
    ⟨gp, hgp, hgple, hgp0⟩
    (by
      intro p hpn k hk1 hk2
      rw [hlen] at hk2
      rw [getD_map_row F k hk2]
      exact (hred p hpn).2 k hk2 (Or.inr hk1))
    hJ0
    (by
      intro d hdJ hdker
      refine reduced_kernel_zero ncols ((F.take n).map (·.row.v)) J ?_ ?_ ?_ d ?_ ?_
      · intro e he
        obtain ⟨s, hs', rfl⟩ := List.mem_map.mp he
        exact hlenF s (List.mem_of_mem_take hs')
      all_goals
        have hEl : ((F.take n).map (·.row.v)).length = n := by
          rw [List.length_map, List.length_take]; exact Nat.min_eq_left hlay
        have hEg : ∀ p, p < n → ((F.take n).map (·.row.v)).getD p [] = (F.getD p default).row.v := by
          intro p hpn
          have hpl : p < F.length := by omega
          rw [List.getD_eq_getElem?_getD, List.getElem?_map, List.getElem?_take, if_pos hpn,
            List.getElem?_eq_getElem hpl, List.getD_eq_getElem?_getD, List.getElem?_eq_getElem hpl]
          rfl
      · intro p hpE
        rw [hEl] at hpE
        rw [hEg p hpE]
        exact (hred p hpE).1
      · intro q p hqp hpE
        rw [hEl] at hpE
        rw [hEg q (by omega)]
        exact (hred p hpE).2 q (by omega) (Or.inl hqp)
      · intro p hpE
        rw [hEl] at hpE
        exact hdJ p hpE
      · intro x hx hE
        apply hdker x hx
        intro p hpn
        rw [getD_map_row F p (by omega), ← hEg p hpn]
        apply hE
        rw [List.getD_eq_getElem?_getD, List.getElem?_eq_getElem (by rw [hEl]; exact hpn)]
        exact List.getElem_mem _)
    i hni hil (by rw [getD_map_row F i hil']; exact hlenF _ (by rw [List.getD_eq_getElem?_getD, List.getElem?_eq_getElem hil']; exact List.getElem_mem _))
    (by
      obtain ⟨x, hx, h1, h2⟩ := hirr i hni hil
      exact ⟨x, hx, h1, h2⟩)
    (by rw [hci]; exact hnt)
  rw [hci] at key
  exact key

/-- **`minimize_facet_points`** — `minimize(true, cs, gs, sat)` on a closed polyhedron that is not empty,
whose constraints entail positivity (`x_0 ≥ 0`): every inequality it returns that is not a tautology
(not `c_0 ≥ 0` with all other coefficients zero) is saturated by a POINT it returns (a generator that is
not a line and has a positive divisor).  `hlenF`: the rows returned have at most `ncols` columns. -/
theorem minimize_facet_points (ncols : Nat) (source : List LRow) (sat0 : List BRow)
    (hsz : ncols < 2 ^ 64) (hsrc : source.length < 2 ^ 64)
    (hne : (minimize true false ncols source sat0).empty = false)
    (hpos : ∀ x : Vec, x.length ≤ ncols → holdsAll source x → 0 ≤ x.getD 0 0)
    (hlenF : ∀ s ∈ (minimize true false ncols source sat0).source, s.v.length ≤ ncols) :
    ∀ c ∈ (minimize true false ncols source sat0).source, c.le = false →
      ¬ ((∀ j, 1 ≤ j → c.v.getD j 0 = 0) ∧ 0 ≤ c.v.getD 0 0) →
      ∃ g ∈ (minimize true false ncols source sat0).dest, g.le = false ∧ 0 < g.v.getD 0 0 ∧
        scalarProduct c.v g.v = 0 := by
  set r := conversion ncols source 0 (identityLines ncols) (List.replicate ncols (List.replicate source.length false)) ncols with hr
  have hp : hasPoint false ncols r.nle r.dest = true := minimize_hasPoint false ncols source sat0 hne
  have hm : minimize true false ncols source sat0
      = { empty := false,
          source := (simplify ncols r.dest.length (zipSys r.source (transpose r.source.length r.sat))).1.map (·.row),
          dest := r.dest,
          sat := (simplify ncols r.dest.length (zipSys r.source (transpose r.source.length r.sat))).1.map (·.sat),
          rank := (simplify ncols r.dest.length (zipSys r.source (transpose r.source.length r.sat))).2 } := by
    unfold minimize
    simp only
    rw [← hr, if_neg (by simp [hp])]
    rfl
  obtain ⟨hs, hlf, hcompl, _, hsatc, _⟩ := C01.conversion_dd_pair ncols source hsz hsrc
  rw [← hr] at hs hlf hcompl hsatc
  have hsame := C01.minimize_same_set false ncols source sat0 hsz hsrc hne
  have hirr := (C01.minimize_minimal_form false ncols source sat0 hsz hsrc hne).2.1
  have hglen := conversion_identity_length ncols source
  rw [← hr] at hglen
  rw [hm] at hsame hirr hlenF ⊢
  dsimp only at hsame hirr hlenF ⊢
  have hsatT := satCorrect_transpose r.source r.dest r.sat hsatc
  have hsoundR : Sound r.source r.dest := fun d hd s hs' => hs d hd s (conversion_source_subset _ _ _ _ _ _ s hs')
  have hpiv := simplify_backSubPivots ncols r.dest.length (zipSys r.source (transpose r.source.length r.sat))
  have hpt : ∃ g ∈ r.dest, g.le = false ∧ 0 < g.v.getD 0 0 := by
    unfold hasPoint at hp
    rw [List.any_eq_true] at hp
    obtain ⟨g, hg, hd⟩ := hp
    obtain ⟨k, hk1, hk2⟩ := (mem_drop_iff_getElem? _ _ _).mp hg
    have hkl : k < r.dest.length := (List.getElem?_eq_some_iff.1 hk2).1
    have hgk : r.dest[k] = g := by rw [List.getElem?_eq_getElem hkl] at hk2; exact Option.some.inj hk2
    refine ⟨g, List.mem_of_mem_drop hg, ?_, by simpa using hd⟩
    have := hlf k hkl
    rw [hgk] at this
    rw [this]; simp; omega
  exact facet_points_core2 ncols r.dest _ _ hglen
    (simplify_result_sound ncols r.dest.length r.source (transpose r.source.length r.sat) r.dest hsatT hsoundR hpiv).1
    (simplify_result_sound ncols r.dest.length r.source (transpose r.source.length r.sat) r.dest hsatT hsoundR hpiv).2
    (simplify_result_exact ncols r.dest.length r.source (transpose r.source.length r.sat) r.dest hsatT hsoundR hpiv)
    (simplify_result_reduced ncols r.dest.length (zipSys r.source (transpose r.source.length r.sat)))
    (simplify_layout ncols r.dest.length (zipSys r.source (transpose r.source.length r.sat))).1
    (fun s hs' => hlenF s.row (List.mem_map.mpr ⟨s, hs', rfl⟩))
    (fun x hx h => hcompl x hx ((hsame x hx).mp h))
    (fun x hx h => hpos x hx ((hsame x hx).mp h))
    hpt hirr

end PPLV.Conv
