import PPLV.Conv.ProofsSat2
import PPLV.Conv.ProofsSound3
/-!
# The saturation matrix kept by `conversion` never goes stale: the loop and the function
-/
namespace PPLV.Conv

/-- the loop invariant; the columns of the saturation rows are the processed source rows that were
not found redundant. -/
structure SatInv (source : List LRow) (st : CState) : Prop where
  hk : st.k ≤ source.length
  hred : ∀ i ∈ st.redundant, i < st.k
  hlen : (removeRows (source.take st.k) st.redundant).length + st.redundant.length = st.k
  hs : ∀ d ∈ st.rows, ∀ s ∈ removeRows (source.take st.k) st.redundant, satisfies s d.row
  hl : ∀ m d, st.rows[m]? = some d → d.row.le = decide (m < st.nle)
  hn : st.nle ≤ st.rows.length
  hsat : RowsSatCorrect (removeRows (source.take st.k) st.redundant) st.rows

theorem satInv_step (ncols : Nat) (source : List LRow) (st : CState) (I : SatInv source st)
    (hlt : st.k < source.length) (st2 : CState)
    (h2 : st2 = { conversionStep ncols source[st.k] st with k := st.k + 1 }) : SatInv source st2 := by
  have hrows : st2.rows = (conversionStep ncols source[st.k] st).rows := by rw [h2]
  have hnle : st2.nle = (conversionStep ncols source[st.k] st).nle := by rw [h2]
  have hred2 : st2.redundant = (conversionStep ncols source[st.k] st).redundant := by rw [h2]
  have hk2 : st2.k = st.k + 1 := by rw [h2]
  have hlenI := I.hlen
  have hkl : (removeRows (source.take st.k) st.redundant).length = st.k - st.redundant.length := by omega
  obtain ⟨s1, s2, s3⟩ := conversionStep_sound ncols source[st.k] st _ I.hs I.hl I.hn
  have hnotin : ¬ st.k ∈ st.redundant := fun hc => by have := I.hred _ hc; omega
  rcases conversionStep_sat ncols source[st.k] st _ hkl I.hs I.hl I.hn I.hsat with ⟨r1, r2⟩ | ⟨r1, r2⟩
  · have hkept : removeRows (source.take st2.k) st2.redundant
        = removeRows (source.take st.k) st.redundant ++ [source[st.k]] := by
      rw [hk2, hred2, r1]; exact removeRows_take_succ_keep source st.k st.redundant hlt hnotin
    refine ⟨by omega, ?_, ?_, ?_, ?_, ?_, ?_⟩
    · rw [hred2, r1, hk2]; intro i hi; have := I.hred i hi; omega
    · rw [hkept, hred2, r1, hk2, List.length_append]; simp; omega
    · rw [hkept, hrows]; exact s1
    · rw [hrows, hnle]; exact s2
    · rw [hrows, hnle]; exact s3
    · rw [hkept, hrows]; exact r2
  · have hkept : removeRows (source.take st2.k) st2.redundant
        = removeRows (source.take st.k) st.redundant := by
      rw [hk2, hred2, r1]; exact removeRows_take_succ_drop source st.k st.redundant hlt
    refine ⟨by omega, ?_, ?_, ?_, ?_, ?_, ?_⟩
    · rw [hred2, r1, hk2]; intro i hi
      rcases List.mem_append.mp hi with h | h
      · have := I.hred i h; omega
      · have : i = st.k := by simpa using h
        omega
    · rw [hkept, hred2, r1, hk2, List.length_append]; simp; omega
    · rw [hkept, hrows]; intro d hd s hs; exact s1 d hd s (List.mem_append_left _ hs)
    · rw [hrows, hnle]; exact s2
    · rw [hrows, hnle]; exact s3
    · rw [hkept, hrows]; exact r2

theorem conversionLoop_satInv (ncols : Nat) (source : List LRow) :
    ∀ (rest : List LRow) (st : CState), source.drop st.k = rest → SatInv source st →
      SatInv source (conversionLoop ncols rest st) ∧ (conversionLoop ncols rest st).k = source.length := by
  intro rest
  induction rest with
  | nil =>
    intro st hd I
    simp only [conversionLoop]
    have := List.drop_eq_nil_iff.mp hd
    have := I.hk
    exact ⟨I, by omega⟩
  | cons s rest ih =>
    intro st hd I
    have hlt : st.k < source.length := by
      by_contra hc
      rw [List.drop_eq_nil_iff.mpr (by omega)] at hd
      cases hd
    rw [List.drop_eq_getElem_cons hlt] at hd
    have hs : source[st.k] = s := (List.cons.inj hd).1
    have hr : source.drop (st.k + 1) = rest := (List.cons.inj hd).2
    simp only [conversionLoop]
    rw [← hs]
    exact ih { conversionStep ncols source[st.k] st with k := st.k + 1 } hr
      (satInv_step ncols source st I hlt _ rfl)

theorem mem_initRows (dest : List LRow) (sat : List BRow) (d : DRow) (hd : d ∈ initRows dest sat) :
    ∃ i, ∃ h : i < dest.length, d.row = dest[i] ∧ d.sat = sat.getD i [] := by
  unfold initRows at hd
  obtain ⟨i, hi, he⟩ := List.mem_iff_getElem.mp hd
  rw [List.length_zipWith] at hi
  rw [List.getElem_zipWith] at he
  have h2 : i < sat.length := by omega
  refine ⟨i, by omega, ?_, ?_⟩
  · rw [← he]
  · rw [← he, List.getD_eq_getElem?_getD, List.getElem?_eq_getElem h2]; rfl

/-- **the saturation matrix returned by `conversion` is the saturation relation** of the returned
generators (rows) and the returned source rows (columns: the source rows that were not removed as
redundant): bit `j` of row `i` is set iff `scalar_product(source'[j], dest'[i]) ≠ 0`, and no bit is
set beyond the last column. -/
theorem conversion_sat_correct (ncols : Nat) (source : List LRow) (start : Nat) (dest : List LRow) (sat : List BRow)
    (nle : Nat) (hstart : start ≤ source.length) (h0 : Sound (source.take start) dest) (hl : LinesFirst dest nle)
    (hn : nle ≤ dest.length) (hsat0 : SatCorrect (source.take start) dest sat) :
    let r := conversion ncols source start dest sat nle
    SatCorrect r.source r.dest r.sat := by
  intro r
  have hlen := hsat0.1
  have hrow := initRows_row dest sat hlen
  let st0 : CState := { rows := initRows dest sat, nle := nle, k := start, redundant := [] }
  have hmem : ∀ d ∈ st0.rows, d.row ∈ dest := by
    intro d hd
    rw [← hrow]; exact List.mem_map_of_mem hd
  have hl0 : ∀ m d, st0.rows[m]? = some d → d.row.le = decide (m < st0.nle) := by
    have : LinesFirst (st0.rows.map (·.row)) nle := by
      show LinesFirst ((initRows dest sat).map (·.row)) nle; rw [hrow]; exact hl
    exact (linesFirst_iff st0.rows nle).mp this
  have hn0 : st0.nle ≤ st0.rows.length := by
    show nle ≤ (initRows dest sat).length
    have : (initRows dest sat).length = dest.length := by
      have := congrArg List.length hrow
      simpa using this
    omega
  have hkept0 : removeRows (source.take st0.k) st0.redundant = source.take start := removeRows_nil _
  have I0 : SatInv source st0 := by
    refine ⟨hstart, ?_, ?_, ?_, hl0, hn0, ?_⟩
    · intro i hi; cases hi
    · rw [hkept0]; show (source.take start).length + 0 = start
      rw [List.length_take]; omega
    · rw [hkept0]; intro d hd s hs; exact h0 d.row (hmem d hd) s hs
    · rw [hkept0]
      intro d hd j
      obtain ⟨i, hi, e1, e2⟩ := mem_initRows dest sat d hd
      rw [e1, e2]
      exact hsat0.2 i hi j
  obtain ⟨I, hkend⟩ := conversionLoop_satInv ncols source (source.drop start) st0 rfl I0
  -- the final state
  have hr : r = { source := removeRows source (conversionLoop ncols (source.drop start) st0).redundant,
                  dest := (conversionLoop ncols (source.drop start) st0).rows.map (·.row),
                  sat := (conversionLoop ncols (source.drop start) st0).rows.map
                    (fun d => d.sat.take (source.length - (conversionLoop ncols (source.drop start) st0).redundant.length)),
                  nle := (conversionLoop ncols (source.drop start) st0).nle } := rfl
  generalize conversionLoop ncols (source.drop start) st0 = stF at I hkend hr
  have hkeptF : removeRows (source.take stF.k) stF.redundant = removeRows source stF.redundant := by
    rw [hkend, List.take_length]
  have hlenF := I.hlen
  have hsatF := I.hsat
  rw [hkeptF] at hlenF hsatF
  rw [hr]
  refine ⟨by simp, ?_⟩
  dsimp only
  intro i hi j
  have hi' : i < stF.rows.length := by simpa using hi
  have hcols : source.length - stF.redundant.length = (removeRows source stF.redundant).length := by omega
  have e1 : (stF.rows.map (fun d => d.sat.take (source.length - stF.redundant.length))).getD i []
      = stF.rows[i].sat.take (removeRows source stF.redundant).length := by
    rw [List.getD_eq_getElem?_getD, List.getElem?_map, List.getElem?_eq_getElem hi', hcols]; rfl
  rw [e1, bit_take, hsatF stF.rows[i] (List.getElem_mem hi') j, List.getElem_map]
  cases decide (j < (removeRows source stF.redundant).length) <;> rfl

end PPLV.Conv
