import PPLV.Conv.ProofsCompleteAbs2a
/-!
# C01 stage 4 — the Double Description lemma, abstractly (the two-ray and three-ray arguments)

`FaceRay U A' R' x`: some ray of `R'` lies in the minimal face of `x`.  `pair_face`: the positive
combination of two rays on opposite sides of the new constraint has such a ray — either the combination
itself was created (adjacent pair), or a third ray witnesses non-adjacency and the argument recurses on a
point with strictly more saturated constraints (`third_ray`).
-/
namespace PPLV.Conv.Abs

variable {V : Type*} [AddCommGroup V] [Module ℚ V]

/-- a ray of the new system in the minimal face of `x`, not in the lineality space. -/
def FaceRay (U : Submodule ℚ V) (A' : List (ACon V)) (R' : Set V) (x : V) : Prop :=
  ∃ g ∈ R', g ∈ U ∧ InP A' g ∧ SatSub A' x g ∧ ∃ a ∈ A', a.f g ≠ 0

theorem FaceRay.of_satSub {U : Submodule ℚ V} {A' : List (ACon V)} {R' : Set V} {x p : V}
    (h : SatSub A' x p) (hp : FaceRay U A' R' p) : FaceRay U A' R' x := by
  obtain ⟨g, hg, hgU, hgP, hs, hne⟩ := hp
  exact ⟨g, hg, hgU, hgP, h.trans hs, hne⟩

/-- `p` combines `r` and `s`, `v` combines a third ray `q` with `s`, both on the hyperplane of `c`, and `q`
saturates whatever `r` and `s` both saturate: peel `v` off `p`; the rest either has more saturated
constraints (recursion) or is in the lineality space, which contradicts the antichain property. -/
theorem third_ray (U : Submodule ℚ V) (A : List (ACon V)) (L R R' : Set V) (c : ACon V)
    (inv : DDInv U A L R) {r s q p v : V} {α β γ δ : ℚ} (hr : r ∈ R) (hs : s ∈ R) (hq : q ∈ R)
    (hqr : q ≠ r) (hα : 0 < α) (hβ : 0 < β) (hγ : 0 < γ) (hδ : 0 < δ)
    (hp : p = α • r + β • s) (hv : v = γ • q + δ • s) (hcp : c.f p = 0) (hcv : c.f v = 0)
    (hsat : ∀ a ∈ A, a.f r = 0 → a.f s = 0 → a.f q = 0)
    (ih : ∀ u ∈ U, InP (c :: A) u → (∃ a ∈ c :: A, a.f u ≠ 0) →
      nsat (c :: A) u < nsat (c :: A) p → FaceRay U (c :: A) R' u) :
    FaceRay U (c :: A) R' p := by
  have hrP := inv.raySound r hr
  have hsP := inv.raySound s hs
  have hqP := inv.raySound q hq
  have hpU : p ∈ U := by
    rw [hp]; exact U.add_mem (U.smul_mem _ (inv.rayU r hr)) (U.smul_mem _ (inv.rayU s hs))
  have hvU : v ∈ U := by
    rw [hv]; exact U.add_mem (U.smul_mem _ (inv.rayU q hq)) (U.smul_mem _ (inv.rayU s hs))
  have hpP : InP (c :: A) p :=
    InP_cons.2 ⟨ACon.holds_of_zero hcp, by rw [hp]; exact comb_inP hrP hsP hα.le hβ.le⟩
  have hvP : InP (c :: A) v :=
    InP_cons.2 ⟨ACon.holds_of_zero hcv, by rw [hv]; exact comb_inP hqP hsP hγ.le hδ.le⟩
  have hpv : SatSub (c :: A) p v := by
    refine SatSub_cons.2 ⟨fun _ => hcv, fun a ha h0 => ?_⟩
    rw [hp] at h0
    obtain ⟨h1, h2⟩ := comb_zero hrP hsP hα hβ ha h0
    rw [hv, comb_eval, hsat a ha h1 h2, h2, mul_zero, mul_zero, add_zero]
  have hvne : ∃ a ∈ c :: A, a.f v ≠ 0 := by
    obtain ⟨a, ha, hne⟩ := inv.proper q hq
    refine ⟨a, List.mem_cons_of_mem _ ha, fun h0 => hne ?_⟩
    rw [hv] at h0
    exact (comb_zero hqP hsP hγ hδ ha h0).1
  obtain ⟨t, ht, huP, hpu, hstrict⟩ := peel (c :: A) p v hpP hvP hpv hvne
  have huU : p - t • v ∈ U := U.sub_mem hpU (U.smul_mem _ hvU)
  by_cases hu : ∃ a ∈ c :: A, a.f (p - t • v) ≠ 0
  · exact FaceRay.of_satSub hpu (ih _ huU huP hu (nsat_lt hpu hstrict))
  · exfalso
    have hall : ∀ a ∈ A, α * a.f r + β * a.f s = t * (γ * a.f q + δ * a.f s) := by
      intro a ha
      have h0 : a.f (p - t • v) = 0 := by
        by_contra hne
        exact hu ⟨a, List.mem_cons_of_mem _ ha, hne⟩
      rw [map_sub, map_smul, smul_eq_mul, hp, hv, comb_eval, comb_eval] at h0
      linarith
    rcases le_or_gt β (t * δ) with hc | hc
    · have htpos : 0 < t := by
        by_contra hle
        have h1 := mul_nonneg (neg_nonneg.2 (not_lt.1 hle)) hδ.le
        linarith
      have hsub : SatSub A r q := by
        intro a ha h0
        have e := hall a ha
        have h1 := (hsP a ha).nonneg
        have h2 := (hqP a ha).nonneg
        have h3 : 0 ≤ (t * δ - β) * a.f s := mul_nonneg (by linarith) h1
        have h4 : 0 ≤ t * γ * a.f q := mul_nonneg (mul_nonneg ht hγ.le) h2
        have h5 : t * γ * a.f q = 0 := by rw [h0] at e; linarith
        exact (mul_eq_zero.1 h5).resolve_left (mul_pos htpos hγ).ne'
      exact hqr (inv.antichain r hr q hq hsub).symm
    · have hsub : SatSub A q r := by
        intro a ha h0
        have e := hall a ha
        have h1 := (hsP a ha).nonneg
        have h2 := (hrP a ha).nonneg
        have h3 : 0 ≤ (β - t * δ) * a.f s := mul_nonneg (by linarith) h1
        have h4 : 0 ≤ α * a.f r := mul_nonneg hα.le h2
        have h5 : α * a.f r = 0 := by rw [h0] at e; linarith
        exact (mul_eq_zero.1 h5).resolve_left hα.ne'
      exact hqr (inv.antichain q hq r hr hsub)

/-- the canonical combination of two rays on opposite sides of `c` has a ray of the new system in its
minimal face, given the claim for every point with strictly more saturated constraints. -/
theorem pair_face (U : Submodule ℚ V) (A : List (ACon V)) (L R R' : Set V) (c : ACon V)
    (inv : DDInv U A L R) (hkeep : ∀ r ∈ R, c.holds r → r ∈ R')
    (hnew : ∀ r ∈ R, ∀ s ∈ R, 0 < c.f r → c.f s < 0 → Adjacent A R r s →
        ∃ p ∈ R', ∃ a b : ℚ, 0 < a ∧ 0 < b ∧ p = a • r + b • s ∧ c.f p = 0)
    {r s : V} (hr : r ∈ R) (hs : s ∈ R) (hcr : 0 < c.f r) (hcs : c.f s < 0)
    (ih : ∀ u ∈ U, InP (c :: A) u → (∃ a ∈ c :: A, a.f u ≠ 0) →
      nsat (c :: A) u < nsat (c :: A) ((-c.f s) • r + c.f r • s) → FaceRay U (c :: A) R' u) :
    FaceRay U (c :: A) R' ((-c.f s) • r + c.f r • s) := by
  have hrP := inv.raySound r hr
  have hsP := inv.raySound s hs
  have hα : 0 < -c.f s := neg_pos.2 hcs
  have hcp : c.f ((-c.f s) • r + c.f r • s) = 0 := by rw [comb_eval]; ring
  by_cases hadj : Adjacent A R r s
  · obtain ⟨p', hp'R, a', b', ha', hb', hp', hcp'⟩ := hnew r hr s hs hcr hcs hadj
    refine ⟨p', hp'R, ?_, ?_, ?_, ?_⟩
    · rw [hp']; exact U.add_mem (U.smul_mem _ (inv.rayU r hr)) (U.smul_mem _ (inv.rayU s hs))
    · exact InP_cons.2 ⟨ACon.holds_of_zero hcp', by rw [hp']; exact comb_inP hrP hsP ha'.le hb'.le⟩
    · refine SatSub_cons.2 ⟨fun _ => hcp', fun a ha h0 => ?_⟩
      obtain ⟨h1, h2⟩ := comb_zero hrP hsP hα hcr ha h0
      rw [hp', comb_eval, h1, h2, mul_zero, mul_zero, add_zero]
    · obtain ⟨a, ha, hne⟩ := inv.proper r hr
      refine ⟨a, List.mem_cons_of_mem _ ha, fun h0 => hne ?_⟩
      rw [hp'] at h0
      exact (comb_zero hrP hsP ha' hb' ha h0).1
  · have hex : ∃ q ∈ R, (∀ a ∈ A, a.f r = 0 → a.f s = 0 → a.f q = 0) ∧ q ≠ r ∧ q ≠ s := by
      by_contra hno
      apply hadj
      intro q hq hsat
      by_contra hne
      exact hno ⟨q, hq, hsat, fun e => hne (Or.inl e), fun e => hne (Or.inr e)⟩
    obtain ⟨q, hq, hsat, hqr, hqs⟩ := hex
    have hqP := inv.raySound q hq
    rcases lt_trichotomy (c.f q) 0 with hcq | hcq | hcq
    · refine third_ray U A L R R' c inv (r := s) (s := r) (q := q) (α := c.f r) (β := -c.f s)
        (γ := c.f r) (δ := -c.f q) (v := c.f r • q + (-c.f q) • r) hs hr hq hqs hcr hα hcr
        (neg_pos.2 hcq) (add_comm _ _) rfl hcp ?_ (fun a ha h1 h2 => hsat a ha h2 h1) ih
      rw [comb_eval]; ring
    · refine ⟨q, hkeep q hq (ACon.holds_of_zero hcq), inv.rayU q hq,
        InP_cons.2 ⟨ACon.holds_of_zero hcq, hqP⟩, ?_, ?_⟩
      · refine SatSub_cons.2 ⟨fun _ => hcq, fun a ha h0 => ?_⟩
        obtain ⟨h1, h2⟩ := comb_zero hrP hsP hα hcr ha h0
        exact hsat a ha h1 h2
      · obtain ⟨a, ha, hne⟩ := inv.proper q hq
        exact ⟨a, List.mem_cons_of_mem _ ha, hne⟩
    · refine third_ray U A L R R' c inv (r := r) (s := s) (q := q) (α := -c.f s) (β := c.f r)
        (γ := -c.f s) (δ := c.f q) (v := (-c.f s) • q + c.f q • s) hr hs hq hqr hα hcr hα hcq
        rfl rfl hcp ?_ hsat ih
      rw [comb_eval]; ring

end PPLV.Conv.Abs
