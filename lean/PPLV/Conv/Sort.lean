import PPLV.Conv.Simplify
/-!
# C01 stage 3 — `Linear_System::sort_rows()` at the head of `Polyhedron::minimize`, code-shaped

* `compare(Constraint, Constraint)` (`src/Constraint.cc:193-204`), `compare(Generator, Generator)`
  (`src/Generator.cc:211-252`), `Linear_Expression_Impl::compare` (`src/Linear_Expression_Impl_templates.hh:154-218`),
  `compare(Expression_Hide_Last, Expression_Hide_Last)` (`src/Expression_Hide_Last_inlines.hh:244-293`);
* `Linear_System::sort_rows()` (`src/Linear_System_templates.hh:415-466`): `std::sort` of the row indexes
  by `compare(x, y) < 0`, then `std::unique` by `is_equal_to`.  `std::sort` is not stable, but rows that
  compare equal and are not removed by `unique` would have to differ only in data `compare` ignores
  (the epsilon coefficient of NNC lines / rays, which is 0): the model is the stable insertion sort.
-/
namespace PPLV.Conv

/-- `cmp(a, b)` as -1 / 0 / 1. -/
def cmpInt (a b : Int) : Int := if a < b then -1 else if a > b then 1 else 0

/-- `2 * sgn` of the first non-zero coefficient (0 if none). -/
def firstSign2 : Vec → Int
  | [] => 0
  | x :: xs => if x > 0 then 2 else if x < 0 then -2 else firstSign2 xs

/-- lexicographic comparison of the coefficients (`±2` at the first difference; a missing coefficient is 0). -/
def compareCoeffs : Vec → Vec → Int
  | [], ys => - firstSign2 ys
  | x :: xs, [] => firstSign2 (x :: xs)
  | x :: xs, y :: ys => if x < y then -2 else if x > y then 2 else compareCoeffs xs ys

/-- `Linear_Expression_Impl::compare`: the coefficients from position 1, then the inhomogeneous term. -/
def compareExpr (x y : Vec) : Int :=
  let c := compareCoeffs (x.drop 1) (y.drop 1)
  if c != 0 then c else cmpInt (x.getD 0 0) (y.getD 0 0)

/-- `compare(Constraint, Constraint)` / `compare(Generator, Generator)`; `gen && nnc` selects the branch of
`Generator.cc:221-252` that looks at the epsilon coefficient last. -/
def compareRow (gen nnc : Bool) (x y : LRow) : Int :=
  if x.le != y.le then (if y.le then 2 else -2)
  else if !(gen && nnc) then compareExpr x.v y.v
  else
    let c := compareCoeffs ((x.v.drop 1).dropLast) ((y.v.drop 1).dropLast)     -- expression(): epsilon hidden
    if c != 0 then c
    else if x.le then 0
    else if x.v.getD 0 0 == 0 then (if y.v.getD 0 0 == 0 then 0 else -1)       -- x is a ray
    else if y.v.getD 0 0 == 0 then 1
    else
      let c := cmpInt (x.v.getD 0 0) (y.v.getD 0 0)
      if c != 0 then c else cmpInt (x.v.getLast?.getD 0) (y.v.getLast?.getD 0)

/-- insertion into a sorted list, after the rows that do not compare greater (stable). -/
def insertRow (gen nnc : Bool) (r : LRow) : List LRow → List LRow
  | [] => [r]
  | x :: xs => if compareRow gen nnc r x < 0 then r :: x :: xs else x :: insertRow gen nnc r xs

/-- `std::unique` with `is_equal_to`: a row equal to its successor is dropped. -/
def uniqueRows : List LRow → List LRow
  | [] => []
  | x :: rest => if rest.head? == some x then uniqueRows rest else x :: uniqueRows rest

/-- `sort_rows()`: sorted, adjacent duplicates removed. -/
def sortRows (gen nnc : Bool) (l : List LRow) : List LRow :=
  uniqueRows (l.foldl (fun acc r => insertRow gen nnc r acc) [])

/-- `Polyhedron::minimize(con_to_gen, source, dest, sat)` with its head (:88-90):
`if (!source.is_sorted()) source.sort_rows();` — `sorted` is the flag of the system. -/
def minimizeUnsorted (conToGen nnc sorted : Bool) (ncols : Nat) (source : List LRow) (sat0 : List BRow) : MinResult :=
  minimize conToGen nnc ncols (if sorted then source else sortRows (!conToGen) nnc source) sat0

end PPLV.Conv
