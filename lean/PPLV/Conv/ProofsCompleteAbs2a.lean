import PPLV.Conv.ProofsCompleteAbs1
/-!
# C01 stage 4 — the Double Description lemma, abstractly (helpers for the ray step)

The measure `nsat` (number of constraints not saturated), positive combinations of two rays, and the sign
analysis of a cone with respect to one more functional.
-/
namespace PPLV.Conv.Abs

variable {V : Type*} [AddCommGroup V] [Module ℚ V]

/-! ### the measure -/

theorem countP_lt_of {α : Type*} (A : List α) (p q : α → Bool)
    (h : ∀ a ∈ A, p a = true → q a = true) (hex : ∃ a ∈ A, p a = false ∧ q a = true) :
    A.countP p < A.countP q := by
  induction A with
  | nil => obtain ⟨a, ha, _⟩ := hex; cases ha
  | cons b A ih =>
    have hA : ∀ a ∈ A, p a = true → q a = true := fun a ha => h a (List.mem_cons_of_mem _ ha)
    have hle : A.countP p ≤ A.countP q := List.countP_mono_left hA
    have hb := h b List.mem_cons_self
    obtain ⟨a, ha, hpa, hqa⟩ := hex
    rcases List.mem_cons.1 ha with e | ha'
    · rw [e] at hpa hqa
      have hnp : ¬ p b = true := by rw [hpa]; exact Bool.false_ne_true
      rw [List.countP_cons_of_neg hnp, List.countP_cons_of_pos hqa]
      omega
    · have hlt := ih hA ⟨a, ha', hpa, hqa⟩
      cases hpb : p b
      · have hnp : ¬ p b = true := by rw [hpb]; exact Bool.false_ne_true
        rw [List.countP_cons_of_neg hnp]
        cases hqb : q b
        · have hnq : ¬ q b = true := by rw [hqb]; exact Bool.false_ne_true
          rw [List.countP_cons_of_neg hnq]
          exact hlt
        · rw [List.countP_cons_of_pos hqb]
          omega
      · rw [List.countP_cons_of_pos hpb, List.countP_cons_of_pos (hb hpb)]
        omega

/-- the number of constraints of `A` not saturated by `x`. -/
def nsat (A : List (ACon V)) (x : V) : ℕ := A.countP (fun a => decide (a.f x ≠ 0))

theorem nsat_le {A : List (ACon V)} {x u : V} (h : SatSub A x u) : nsat A u ≤ nsat A x := by
  unfold nsat
  apply List.countP_mono_left
  intro a ha hu
  rw [decide_eq_true_eq] at hu ⊢
  exact fun h0 => hu (h a ha h0)

theorem nsat_lt {A : List (ACon V)} {x u : V} (h : SatSub A x u)
    (hex : ∃ a ∈ A, a.f x ≠ 0 ∧ a.f u = 0) : nsat A u < nsat A x := by
  unfold nsat
  apply countP_lt_of
  · intro a ha hu
    rw [decide_eq_true_eq] at hu ⊢
    exact fun h0 => hu (h a ha h0)
  · obtain ⟨a, ha, hax, hau⟩ := hex
    refine ⟨a, ha, ?_, ?_⟩
    · rw [decide_eq_false_iff_not]; exact fun h => h hau
    · rw [decide_eq_true_eq]; exact hax

/-! ### saturation -/

theorem SatSub.trans {A : List (ACon V)} {x y z : V} (h1 : SatSub A x y) (h2 : SatSub A y z) :
    SatSub A x z := fun a ha h => h2 a ha (h1 a ha h)

theorem SatSub_cons {c : ACon V} {A : List (ACon V)} {x y : V} :
    SatSub (c :: A) x y ↔ (c.f x = 0 → c.f y = 0) ∧ SatSub A x y := by
  unfold SatSub
  exact List.forall_mem_cons

/-! ### positive combinations of two rays -/

theorem comb_eval (a : ACon V) (α β : ℚ) (r s : V) :
    a.f (α • r + β • s) = α * a.f r + β * a.f s := by
  simp only [map_add, map_smul, smul_eq_mul]

theorem comb_inP {A : List (ACon V)} {r s : V} (hr : InP A r) (hs : InP A s) {α β : ℚ}
    (hα : 0 ≤ α) (hβ : 0 ≤ β) : InP A (α • r + β • s) :=
  fun a ha => ACon.holds_add (ACon.holds_smul α hα (hr a ha)) (ACon.holds_smul β hβ (hs a ha))

theorem comb_zero {A : List (ACon V)} {r s : V} (hr : InP A r) (hs : InP A s) {α β : ℚ}
    (hα : 0 < α) (hβ : 0 < β) {a : ACon V} (ha : a ∈ A) (h : a.f (α • r + β • s) = 0) :
    a.f r = 0 ∧ a.f s = 0 := by
  have h1 := (hr a ha).nonneg
  have h2 := (hs a ha).nonneg
  rw [comb_eval] at h
  have h3 := mul_nonneg hα.le h1
  have h4 := mul_nonneg hβ.le h2
  have h5 : α * a.f r = 0 := by linarith
  have h6 : β * a.f s = 0 := by linarith
  exact ⟨(mul_eq_zero.1 h5).resolve_left hα.ne', (mul_eq_zero.1 h6).resolve_left hβ.ne'⟩

/-! ### signs of one more functional on a cone -/

theorem Cone.lines_eval {L : Set V} (c : V →ₗ[ℚ] ℚ) (hcL : ∀ l ∈ L, c l = 0) {x : V}
    (h : Cone L ∅ x) : c x = 0 := by
  induction h with
  | zero => exact map_zero c
  | @line l y t hl _ ih => rw [map_add, map_smul, hcL l hl, smul_zero, add_zero, ih]
  | ray t hr _ _ _ => exact absurd hr (Set.notMem_empty _)

theorem Cone.exists_pos {L S : Set V} (c : V →ₗ[ℚ] ℚ) (hcL : ∀ l ∈ L, c l = 0) {x : V}
    (h : Cone L S x) (hx : 0 < c x) : ∃ r ∈ S, 0 < c r := by
  induction h with
  | zero => rw [map_zero] at hx; exact absurd hx (lt_irrefl _)
  | @line l y t hl _ ih =>
    rw [map_add, map_smul, hcL l hl, smul_zero, add_zero] at hx
    exact ih hx
  | @ray r y t hr ht _ ih =>
    rw [map_add, map_smul, smul_eq_mul] at hx
    by_cases hy : 0 < c y
    · exact ih hy
    · refine ⟨r, hr, ?_⟩
      by_contra hneg
      have h1 := not_lt.1 hy
      have h2 := not_lt.1 hneg
      have h3 := mul_nonneg ht (neg_nonneg.2 h2)
      linarith

theorem Cone.allpos {L S : Set V} (c : V →ₗ[ℚ] ℚ) (hcL : ∀ l ∈ L, c l = 0)
    (hS : ∀ r ∈ S, 0 < c r) {x : V} (h : Cone L S x) : 0 ≤ c x ∧ (c x ≤ 0 → Cone L ∅ x) := by
  induction h with
  | zero => exact ⟨(map_zero c).ge, fun _ => Cone.zero⟩
  | @line l y t hl _ ih =>
    have e : c (y + t • l) = c y := by rw [map_add, map_smul, hcL l hl, smul_zero, add_zero]
    rw [e]
    exact ⟨ih.1, fun h => Cone.line t hl (ih.2 h)⟩
  | @ray r y t hr ht _ ih =>
    have e : c (y + t • r) = c y + t * c r := by rw [map_add, map_smul, smul_eq_mul]
    rw [e]
    have h1 := mul_nonneg ht (hS r hr).le
    have h0 := ih.1
    refine ⟨by linarith, fun h => ?_⟩
    have h2 : t * c r = 0 := by linarith
    have h3 : t = 0 := (mul_eq_zero.1 h2).resolve_right (hS r hr).ne'
    rw [h3, zero_smul, add_zero]
    exact ih.2 (by linarith)

theorem Cone.exists_pos_neg {L S : Set V} (c : V →ₗ[ℚ] ℚ) (hcL : ∀ l ∈ L, c l = 0) {x : V}
    (h : Cone L S x) (hx : c x = 0) (hS : ∀ r ∈ S, c r ≠ 0) (hnl : ¬ Cone L ∅ x) :
    ∃ r ∈ S, ∃ s ∈ S, 0 < c r ∧ c s < 0 := by
  by_cases hp : ∃ r ∈ S, 0 < c r
  · by_cases hn : ∃ s ∈ S, c s < 0
    · obtain ⟨r, hr, hr'⟩ := hp
      obtain ⟨s, hs, hs'⟩ := hn
      exact ⟨r, hr, s, hs, hr', hs'⟩
    · exfalso
      apply hnl
      have hall : ∀ r ∈ S, 0 < c r := fun r hr =>
        lt_of_le_of_ne (not_lt.1 (fun h => hn ⟨r, hr, h⟩)) (hS r hr).symm
      exact (Cone.allpos c hcL hall h).2 hx.le
  · exfalso
    apply hnl
    have hall : ∀ r ∈ S, 0 < (-c) r := fun r hr => by
      rw [LinearMap.neg_apply]
      have h1 : c r ≤ 0 := not_lt.1 (fun h => hp ⟨r, hr, h⟩)
      exact neg_pos.2 (lt_of_le_of_ne h1 (hS r hr))
    refine (Cone.allpos (-c) (fun l hl => by rw [LinearMap.neg_apply, hcL l hl, neg_zero]) hall h).2 ?_
    rw [LinearMap.neg_apply, hx, neg_zero]

end PPLV.Conv.Abs
