import PPLV.Conv.ProofsSound1
/-!
# Soundness of the line case of `conversion`: the step lemma
-/
namespace PPLV.Conv

theorem mem_of_getElem? {α : Type} {l : List α} {m : Nat} {d : α} (h : l[m]? = some d) : d ∈ l :=
  List.mem_iff_getElem?.mpr ⟨m, h⟩

/-- every record after the combination step: kind bit, processed rows, and the row being processed
(for the pivot only when it is an inequality). -/
theorem lineRows3_good (srcK : LRow) (P : List LRow) (st : CState) (inz : Nat) (H : StepHyp srcK st P)
    (hinz : inz < st.nle) (hbefore : ∀ m d, m < inz → st.rows[m]? = some d → d.sp = 0)
    (hnz : ∃ r, st.rows[inz]? = some r ∧ r.sp ≠ 0) :
    ∀ m d', (lineRows3 st inz)[m]? = some d' →
      d'.row.le = decide (m < st.nle - 1) ∧ (∀ s ∈ P, satisfies s d'.row) ∧
      ((m ≠ st.nle - 1 ∨ srcK.le = false) → satisfies srcK d'.row) := by
  intro m d' hd'
  obtain ⟨r, hr, hrnz⟩ := hnz
  have hrD : st.rows.getD inz default = r := by
    rw [List.getD_eq_getElem?_getD, hr]; rfl
  have hrmem := mem_of_getElem? hr
  have hrle : r.row.le = true := by
    have := H.hl inz r hr
    simpa [hinz] using this
  obtain ⟨pl, ppos, psp, pP⟩ := linePivot_facts srcK P r (H.hsp r hrmem) hrnz hrle (H.hP r hrmem)
  have hidx := lineRows3_index st inz hinz H.hn m d' hd'
  simp only [hrD] at hidx
  rcases hidx with ⟨hm, hrow, hsp⟩ | ⟨hm, m0, d0, hm0, hd0, hflag, hcases⟩
  · refine ⟨?_, ?_, ?_⟩
    · rw [hrow, pl, hm]; simp
    · intro s hs
      apply satisfies_of_zero
      rw [hrow]; exact pP s hs
    · intro hor
      rcases hor with h | h
      · exact absurd hm h
      · apply satisfies_ray srcK d'.row h (by rw [hrow]; exact pl)
        rw [hrow, ← psp]; omega
  · have hd0mem := mem_of_getElem? hd0
    have hd0le : d0.row.le = decide (m < st.nle - 1) := by rw [H.hl m0 d0 hd0, hflag]
    have zeroCase : d0.sp = 0 → d'.row = d0.row →
        d'.row.le = decide (m < st.nle - 1) ∧ (∀ s ∈ P, satisfies s d'.row) ∧
        ((m ≠ st.nle - 1 ∨ srcK.le = false) → satisfies srcK d'.row) := by
      intro hz hrow
      refine ⟨by rw [hrow, hd0le], ?_, ?_⟩
      · intro s hs; rw [hrow]; exact H.hP d0 hd0mem s hs
      · intro _
        apply satisfies_of_zero
        rw [hrow, ← H.hsp d0 hd0mem]; exact hz
    rcases hcases with ⟨hz, hrow, _⟩ | ⟨hnz0, _, hrow, _⟩ | ⟨hlt, hmm, hrow, _⟩
    · exact zeroCase hz hrow
    · obtain ⟨hle, hgood⟩ := combRow_good srcK P (linePivot r) d0 pl ppos psp pP (H.hsp d0 hd0mem) (H.hP d0 hd0mem)
      refine ⟨by rw [hrow, hle, hd0le], ?_, ?_⟩
      · intro s hs; rw [hrow]; exact hgood s (List.mem_append_left _ hs)
      · intro _; rw [hrow]; exact hgood srcK (List.mem_append_right _ (List.mem_singleton_self _))
    · subst hmm
      exact zeroCase (hbefore m0 d0 hlt hd0) hrow

/-- **soundness of the line case**. -/
theorem lineCase_sound (srcK : LRow) (newK : Nat) (P : List LRow) (st : CState) (inz : Nat) (H : StepHyp srcK st P)
    (hinz : inz < st.nle) (hbefore : ∀ m d, m < inz → st.rows[m]? = some d → d.sp = 0)
    (hnz : ∃ r, st.rows[inz]? = some r ∧ r.sp ≠ 0) :
    let st' := lineCase srcK newK st inz
    (∀ d ∈ st'.rows, ∀ s ∈ P ++ [srcK], satisfies s d.row) ∧
    (∀ m d, st'.rows[m]? = some d → d.row.le = decide (m < st'.nle)) ∧ st'.nle ≤ st'.rows.length := by
  intro st'
  have hgood := lineRows3_good srcK P st inz H hinz hbefore hnz
  have hlen := length_lineRows3 st inz
  have hn := H.hn
  by_cases hk : srcK.le = true
  · -- the equality is violated by the pivot: it is removed
    have e : st' = { st with rows := (swapAt (lineRows3 st inz) (st.nle - 1) ((lineRows3 st inz).length - 1)).dropLast,
                             nle := st.nle - 1 } := by
      show lineCase srcK newK st inz = _
      rw [lineCase_eq]; simp [hk]
    rw [e]
    have hi : st.nle - 1 < (lineRows3 st inz).length := by rw [hlen]; omega
    refine ⟨?_, ?_, ?_⟩
    · intro d hd s hs
      obtain ⟨m, hm⟩ := List.mem_iff_getElem?.mp hd
      obtain ⟨m0, hm0, hx, _⟩ := getElem?_swap_dropLast _ _ m hi d hm
      obtain ⟨_, hP, hK⟩ := hgood m0 d hx
      rcases List.mem_append.mp hs with h | h
      · exact hP s h
      · have : s = srcK := by simpa using h
        subst this; exact hK (Or.inl hm0)
    · intro m d hm
      obtain ⟨m0, hm0, hx, hcase⟩ := getElem?_swap_dropLast _ _ m hi d hm
      obtain ⟨hle, _, _⟩ := hgood m0 d hx
      rw [hle]
      have hm0lt : m0 < (lineRows3 st inz).length := by
        by_contra hc
        rw [List.getElem?_eq_none (by omega)] at hx; cases hx
      rcases hcase with h | ⟨h1, h2⟩
      · rw [h]
      · simp only [decide_eq_decide]; omega
    · simp only [List.length_dropLast, length_swapAt', hlen]; omega
  · have hk' : srcK.le = false := by simpa using hk
    have e : st' = { st with rows := (lineRows3 st inz).modify (st.nle - 1) (fun d => { d with sat := setBit d.sat newK }),
                             nle := st.nle - 1 } := by
      show lineCase srcK newK st inz = _
      rw [lineCase_eq]; simp [hk']
    rw [e]
    have hmod : ∀ (m : Nat) (d : DRow), ((lineRows3 st inz).modify (st.nle - 1) (fun d => { d with sat := setBit d.sat newK }))[m]? = some d →
        ∃ d0 : DRow, (lineRows3 st inz)[m]? = some d0 ∧ d.row = d0.row := by
      intro m d hm
      rw [List.getElem?_modify] at hm
      match hq : (lineRows3 st inz)[m]? with
      | none => rw [hq] at hm; simp at hm
      | some d0 =>
        rw [hq] at hm
        simp only [Option.map_eq_map, Option.map_some, Option.some.injEq] at hm
        refine ⟨d0, rfl, ?_⟩
        rw [← hm]; split <;> rfl
    refine ⟨?_, ?_, ?_⟩
    · intro d hd s hs
      obtain ⟨m, hm⟩ := List.mem_iff_getElem?.mp hd
      obtain ⟨d0, hx, hrow⟩ := hmod m d hm
      obtain ⟨_, hP, hK⟩ := hgood m d0 hx
      rw [hrow]
      rcases List.mem_append.mp hs with h | h
      · exact hP s h
      · have : s = srcK := by simpa using h
        subst this; exact hK (Or.inr hk')
    · intro m d hm
      obtain ⟨d0, hx, hrow⟩ := hmod m d hm
      obtain ⟨hle, _, _⟩ := hgood m d0 hx
      rw [hrow, hle]
    · simp only [List.length_modify, hlen]; omega

end PPLV.Conv
