import PPLV.Conv.ProofsCompleteMinimal3
import PPLV.Conv.ProofsCompleteSimp10
/-!
# C01 stage 4 — no redundant inequality remains after `Polyhedron::simplify`

`rows` beside an exact saturation matrix `sat` against `gens` (`SatCorrect gens rows sat`), `gens` sound for
`rows`, `numColsSat = gens.length`, the generators have at most `ncols` columns.  With `F` the system
`simplify` returns and `n` the number of equalities it returns:

* `simpT_irredundant` — the list handed to `back_substitute` is irredundant (no hypothesis left);
* `simplify_result_sound` (a), `simplify_result_exact` (b), `simplify_result_independent` (c) — the facts
  about `F`, GIVEN `hpiv`: `back_substitute` meets no zero pivot row (`BackSubPivots`, stage 3);
* `simplify_result_irredundant` — for every `i` with `n ≤ i < F.length` an integer vector of length `≤ ncols`
  satisfies every row of `F` but `F[i]`.

Neither completeness of `gens` (`hcomp`), nor `hsz`, nor `hrank` is needed: the saturation rule may remove
whatever it likes, what the independence rule leaves is irredundant.
-/
namespace PPLV.Conv

/-- the system before `back_substitute` is irredundant. -/
theorem simpT_irredundant (ncols numColsSat : Nat) (sys : List SRow) (gens : List LRow)
    (hOK : ∀ r ∈ sys, RowOK gens r) (hglen : ∀ g ∈ gens, g.v.length ≤ ncols) :
    ∀ i, (simpP ncols sys).2 ≤ i → i < (simpT ncols numColsSat sys).length → ∃ x : Vec, x.length ≤ ncols ∧
      (∀ m, m < (simpT ncols numColsSat sys).length → m ≠ i →
        holds ((simpT ncols numColsSat sys).getD m default).row x) ∧
      ¬ holds ((simpT ncols numColsSat sys).getD i default).row x := by
  have tI := simpT_minInv ncols numColsSat sys gens hOK
  exact irredundant_of_independent ncols gens (simpP ncols sys).2 (simpT ncols numColsSat sys) hglen
    tI.sound_idx tI.ginv.2 tI.ineq_idx (simpT_independent ncols numColsSat sys)

/-- (a), (b), (c) for the result of `simplify`, on records. -/
theorem simplify_result_core (ncols numColsSat : Nat) (sys : List SRow) (gens : List LRow)
    (hOK : ∀ r ∈ sys, RowOK gens r)
    (hpiv : BackSubPivots (simpP ncols sys).2 (List.range (simpP ncols sys).2).reverse
      (simpT ncols numColsSat sys)) :
    (∀ m, m < (simplify ncols numColsSat sys).1.length → ∀ g ∈ gens,
      satisfies ((simplify ncols numColsSat sys).1.getD m default).row g) ∧
    (∀ m, m < (simplify ncols numColsSat sys).2 →
      ((simplify ncols numColsSat sys).1.getD m default).row.le = true) ∧
    (∀ m, (simplify ncols numColsSat sys).2 ≤ m → m < (simplify ncols numColsSat sys).1.length →
      ((simplify ncols numColsSat sys).1.getD m default).row.le = false ∧
      bitsEmpty ((simplify ncols numColsSat sys).1.getD m default).sat = false ∧
      ExactBits gens ((simplify ncols numColsSat sys).1.getD m default)) ∧
    (∀ i k, (simplify ncols numColsSat sys).2 ≤ i → i < (simplify ncols numColsSat sys).1.length →
      (simplify ncols numColsSat sys).2 ≤ k → k < (simplify ncols numColsSat sys).1.length → k ≠ i →
      subsetOrEqual ((simplify ncols numColsSat sys).1.getD k default).sat
        ((simplify ncols numColsSat sys).1.getD i default).sat = false) := by
  have tI := simpT_minInv ncols numColsSat sys gens hOK
  obtain ⟨bI, bl, bs⟩ := backSubstitute_binv gens (simpP ncols sys).2 (simpT ncols numColsSat sys) tI.binv hpiv
  rw [simplify_eq']
  refine ⟨bI.sound, bI.ginv.2, fun m hn hm => ?_, fun i k hi hil hk hkl hne => ?_⟩
  · have hm' : m < (simpT ncols numColsSat sys).length := by rw [← bl]; exact hm
    refine ⟨(bI.ineq m hn hm).1, ?_, (bI.ineq m hn hm).2⟩
    show bitsEmpty ((backSubstitute _ _).getD m default).sat = false
    rw [bs m hm']
    exact (tI.ineq_idx m hn hm').2.1
  · have hil' : i < (simpT ncols numColsSat sys).length := by rw [← bl]; exact hil
    have hkl' : k < (simpT ncols numColsSat sys).length := by rw [← bl]; exact hkl
    show subsetOrEqual ((backSubstitute _ _).getD k default).sat ((backSubstitute _ _).getD i default).sat = false
    rw [bs k hkl', bs i hil']
    exact simpT_independent ncols numColsSat sys i k hi hil' hk hkl' hne

section
variable (ncols numColsSat : Nat) (rows : List LRow) (sat : List BRow) (gens : List LRow)
  (hsat : SatCorrect gens rows sat) (hsound : Sound rows gens)
  (hpiv : BackSubPivots (simpP ncols (zipSys rows sat)).2
    (List.range (simpP ncols (zipSys rows sat)).2).reverse (simpT ncols numColsSat (zipSys rows sat)))
include hsat hsound hpiv

/-- (a) every generator satisfies every row of the result (`= 0` on the equalities and for the lines);
the first `n` rows are the equalities. -/
theorem simplify_result_sound :
    let F := (simplify ncols numColsSat (zipSys rows sat)).1
    let n := (simplify ncols numColsSat (zipSys rows sat)).2
    (∀ m, m < F.length → ∀ g ∈ gens, satisfies (F.getD m default).row g) ∧
    ∀ m, m < n → (F.getD m default).row.le = true :=
  have h := simplify_result_core ncols numColsSat (zipSys rows sat) gens
    (zipSys_rowOK rows sat gens hsat hsound) hpiv
  ⟨h.1, h.2.1⟩

/-- (b) every row from `n` on is an inequality whose saturation row is not empty and exact against `gens`. -/
theorem simplify_result_exact :
    let F := (simplify ncols numColsSat (zipSys rows sat)).1
    let n := (simplify ncols numColsSat (zipSys rows sat)).2
    ∀ m, n ≤ m → m < F.length → (F.getD m default).row.le = false ∧
      bitsEmpty (F.getD m default).sat = false ∧ ExactBits gens (F.getD m default) :=
  (simplify_result_core ncols numColsSat (zipSys rows sat) gens
    (zipSys_rowOK rows sat gens hsat hsound) hpiv).2.2.1

/-- (c) no saturation row from `n` on is a subset of (or equal to) another. -/
theorem simplify_result_independent :
    let F := (simplify ncols numColsSat (zipSys rows sat)).1
    let n := (simplify ncols numColsSat (zipSys rows sat)).2
    ∀ i k, n ≤ i → i < F.length → n ≤ k → k < F.length → k ≠ i →
      subsetOrEqual (F.getD k default).sat (F.getD i default).sat = false :=
  (simplify_result_core ncols numColsSat (zipSys rows sat) gens
    (zipSys_rowOK rows sat gens hsat hsound) hpiv).2.2.2

end

/-- **no redundant inequality remains after `simplify`**: every inequality of the result is violated by some
integer vector (of length `≤ ncols`) that satisfies all the other rows.  Hypothesis left explicit: `hpiv`
(no zero pivot row in `back_substitute`). -/
theorem simplify_result_irredundant (ncols numColsSat : Nat) (rows : List LRow) (sat : List BRow)
    (gens : List LRow) (hsat : SatCorrect gens rows sat) (hsound : Sound rows gens)
    (hncs : numColsSat = gens.length) (hglen : ∀ g ∈ gens, g.v.length ≤ ncols)
    (hpiv : BackSubPivots (simpP ncols (zipSys rows sat)).2
      (List.range (simpP ncols (zipSys rows sat)).2).reverse (simpT ncols numColsSat (zipSys rows sat))) :
    let F := (simplify ncols numColsSat (zipSys rows sat)).1
    let n := (simplify ncols numColsSat (zipSys rows sat)).2
    ∀ i, n ≤ i → i < F.length → ∃ x : Vec, x.length ≤ ncols ∧
      (∀ m, m < F.length → m ≠ i → holds (F.getD m default).row x) ∧ ¬ holds (F.getD i default).row x := by
  intro F n
  have _ := hncs   -- not used: the saturation rule may remove whatever it likes
  obtain ⟨ha, he, hb, hc⟩ := simplify_result_core ncols numColsSat (zipSys rows sat) gens
    (zipSys_rowOK rows sat gens hsat hsound) hpiv
  exact irredundant_of_independent ncols gens n F hglen ha he hb hc

/-- the same for the list handed to `back_substitute`: no hypothesis on the pivots. -/
theorem simplify_phases_irredundant (ncols numColsSat : Nat) (rows : List LRow) (sat : List BRow)
    (gens : List LRow) (hsat : SatCorrect gens rows sat) (hsound : Sound rows gens)
    (hglen : ∀ g ∈ gens, g.v.length ≤ ncols) :
    let T := simpT ncols numColsSat (zipSys rows sat)
    let n := (simplify ncols numColsSat (zipSys rows sat)).2
    ∀ i, n ≤ i → i < T.length → ∃ x : Vec, x.length ≤ ncols ∧
      (∀ m, m < T.length → m ≠ i → holds (T.getD m default).row x) ∧ ¬ holds (T.getD i default).row x :=
  simpT_irredundant ncols numColsSat (zipSys rows sat) gens (zipSys_rowOK rows sat gens hsat hsound) hglen

/-- non-vacuity: the square `0 ≤ x ≤ 1, 0 ≤ y ≤ 1` with the redundant `x + y ≤ 3` (the instance at the end of
`ProofsCompleteSimp10.lean`): the hypotheses hold, `simplify` returns 4 rows and no equality, and each of the
four is violated by a vector satisfying the three others. -/
example :
    let rows : List LRow := [⟨false, [0, 1, 0]⟩, ⟨false, [1, -1, 0]⟩, ⟨false, [0, 0, 1]⟩, ⟨false, [1, 0, -1]⟩, ⟨false, [3, -1, -1]⟩]
    let gens : List LRow := [⟨false, [1, 0, 0]⟩, ⟨false, [1, 1, 0]⟩, ⟨false, [1, 0, 1]⟩, ⟨false, [1, 1, 1]⟩]
    let sat : List BRow := [[false, true, false, true], [true, false, true, false], [false, false, true, true],
                            [true, true, false, false], [true, true, true, true]]
    let F := (simplify 3 4 (zipSys rows sat)).1
    SatCorrect gens rows sat ∧ Sound rows gens ∧
    (simplify 3 4 (zipSys rows sat)).2 = 0 ∧ F.length = 4 ∧
    ∀ i, i < 4 → ∃ x : Vec, x.length ≤ 3 ∧
      (∀ m, m < F.length → m ≠ i → holds (F.getD m default).row x) ∧ ¬ holds (F.getD i default).row x := by
  intro rows gens sat F
  have hsat : SatCorrect gens rows sat := by
    refine ⟨by decide, ?_⟩
    have key : ∀ i (h : i < rows.length), ∀ j, j < 4 → bit (sat.getD i []) j =
        (decide (j < gens.length) && decide (scalarProduct (gens.getD j default).v rows[i].v ≠ 0)) := by
      decide
    have k2 : ∀ i, i < rows.length → (sat.getD i []).length ≤ 4 := by decide
    intro i hi j
    by_cases hj : j < 4
    · exact key i hi j hj
    · have hg : gens.length = 4 := rfl
      rw [bit_ge_length _ j (by have := k2 i hi; omega), hg]
      simp [hj]
  have hsound : Sound rows gens := by unfold Sound; decide
  have e : (simpP 3 (zipSys rows sat)).2 = 0 := by decide
  have hpiv : BackSubPivots (simpP 3 (zipSys rows sat)).2 (List.range (simpP 3 (zipSys rows sat)).2).reverse
      (simpT 3 4 (zipSys rows sat)) := by
    rw [e]; exact trivial
  have h := simplify_result_irredundant 3 4 rows sat gens hsat hsound rfl (by decide) hpiv
  have e2 : (simplify 3 4 (zipSys rows sat)).2 = 0 := e
  have e3 : F.length = 4 := by decide
  refine ⟨hsat, hsound, e2, e3, fun i hi => h i (by rw [e2]; exact Nat.zero_le _) (by rw [e3]; exact hi)⟩

end PPLV.Conv
