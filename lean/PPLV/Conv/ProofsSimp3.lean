import PPLV.Conv.ProofsSimp2
/-!
# C01 stage 3 — `simplify`: the independence rule loses nothing

Every row from `nle` on of the input is dominated (`subsetOrEqual y.sat x.sat`) by a row that is kept.
The model reads `rows.getD i default` in the inner loop; that `i` stays in range is part of the invariant
(`Proc`: the rows before the outer index have been compared with every other row and no saturation row
is a subset of theirs; hence the inner loop never removes an index below `i`).
-/
namespace PPLV.Conv

theorem getD_removeRowAt (l : List SRow) (i m : Nat) (hi : i < l.length) (hm : m < l.length - 1) :
    (removeRowAt l i).getD m default = if m = i then l.getD (l.length - 1) default else l.getD m default := by
  simp only [List.getD_eq_getElem?_getD, getElem?_removeRowAt l i m hi, hm, if_true]
  split <;> rfl

/-- where a row other than the removed one goes. -/
theorem removeRowAt_loc (l : List SRow) (a m : Nat) (ha : a < l.length) (hm : m < l.length) (hne : m ≠ a) :
    ∃ m', (m' = m ∨ m' = a) ∧ (removeRowAt l a)[m']? = l[m]? := by
  by_cases h : m < l.length - 1
  · exact ⟨m, Or.inl rfl, getElem?_removeRowAt_of_ne l a m ha h hne⟩
  · have e : m = l.length - 1 := by omega
    refine ⟨a, Or.inr rfl, ?_⟩
    rw [getElem?_removeRowAt l a a ha]
    have : a < l.length - 1 := by omega
    simp only [this, if_true]
    rw [e]

/-- removing a row that is dominated by another row from `nle` on loses nothing. -/
theorem dom_remove (nle : Nat) (rows : List SRow) (a b : Nat) (ha : nle ≤ a) (hb : nle ≤ b)
    (hal : a < rows.length) (hbl : b < rows.length) (hab : b ≠ a)
    (hs : subsetOrEqual (rows.getD b default).sat (rows.getD a default).sat = true) :
    ∀ x ∈ rows.drop nle, ∃ y ∈ (removeRowAt rows a).drop nle, subsetOrEqual y.sat x.sat = true := by
  intro x hx
  rw [mem_drop_iff_getElem?] at hx
  obtain ⟨m, hm, hxm⟩ := hx
  have hml : m < rows.length := (List.getElem?_eq_some_iff.1 hxm).1
  by_cases e : m = a
  · subst e
    obtain ⟨m', hm', hloc⟩ := removeRowAt_loc rows m b hal hbl hab
    refine ⟨rows.getD b default, ?_, ?_⟩
    · rw [mem_drop_iff_getElem?]
      refine ⟨m', by omega, ?_⟩
      rw [hloc]; exact getElem?_of_lt_getD rows b default hbl
    · rw [getD_of_getElem? rows m x default hxm] at hs; exact hs
  · obtain ⟨m', hm', hloc⟩ := removeRowAt_loc rows a m hal hml e
    refine ⟨x, ?_, subsetOrEqual_refl _⟩
    rw [mem_drop_iff_getElem?]
    exact ⟨m', by omega, by rw [hloc]; exact hxm⟩

/-- the rows in `[nle, i)` have been compared with every other row. -/
def Proc (nle : Nat) (rows : List SRow) (i : Nat) : Prop :=
  ∀ j k, nle ≤ j → j < i → nle ≤ k → k < rows.length → k ≠ j →
    subsetOrEqual (rows.getD k default).sat (rows.getD j default).sat = false

theorem Proc_remove (nle : Nat) (rows : List SRow) (i a : Nat) (hia : i ≤ a) (ha : a < rows.length)
    (h : Proc nle rows i) : Proc nle (removeRowAt rows a) i := by
  intro j k hj hji hk hkl hne
  rw [length_removeRowAt] at hkl
  rw [getD_removeRowAt rows a k ha hkl, getD_removeRowAt rows a j ha (by omega)]
  have hja : j ≠ a := by omega
  simp only [hja, if_false]
  split
  · exact h j (rows.length - 1) hj hji (by omega) (by omega) (by omega)
  · exact h j k hj hji hk (by omega) hne

/-! ## equations of the inner loop -/

theorem indepInner_ge (n : Nat) (rows : List SRow) (i j : Nat) (h : ¬ j < rows.length) :
    indepInner (n + 1) rows i j = (rows, false) := by
  simp [indepInner, h]

theorem indepInner_eq (n : Nat) (rows : List SRow) (i j : Nat) (h : j < rows.length) (e : i = j) :
    indepInner (n + 1) rows i j = indepInner n rows i (j + 1) := by
  simp [indepInner, h, e]

theorem indepInner_nsub (n : Nat) (rows : List SRow) (i j : Nat) (h : j < rows.length) (e : i ≠ j)
    (hs : subsetOrEqual (rows.getD j default).sat (rows.getD i default).sat = false) :
    indepInner (n + 1) rows i j = indepInner n rows i (j + 1) := by
  have e' : (i == j) = false := by simpa using e
  conv_lhs => unfold indepInner
  simp only [subsetOrEqualStrict, h, e', hs]
  simp

theorem indepInner_strict (n : Nat) (rows : List SRow) (i j : Nat) (h : j < rows.length) (e : i ≠ j)
    (hs : subsetOrEqual (rows.getD j default).sat (rows.getD i default).sat = true)
    (hs2 : subsetOrEqual (rows.getD i default).sat (rows.getD j default).sat = false) :
    indepInner (n + 1) rows i j = (rows, true) := by
  have e' : (i == j) = false := by simpa using e
  conv_lhs => unfold indepInner
  simp only [subsetOrEqualStrict, h, e', hs, hs2]
  simp

theorem indepInner_rm (n : Nat) (rows : List SRow) (i j : Nat) (h : j < rows.length) (e : i ≠ j)
    (hs : subsetOrEqual (rows.getD j default).sat (rows.getD i default).sat = true)
    (hs2 : subsetOrEqual (rows.getD i default).sat (rows.getD j default).sat = true) :
    indepInner (n + 1) rows i j = indepInner n (removeRowAt rows j) i j := by
  have e' : (i == j) = false := by simpa using e
  conv_lhs => unfold indepInner
  simp only [subsetOrEqualStrict, h, e', hs, hs2]
  simp

/-- what the inner loop establishes. -/
def InnerPost (nle : Nat) (rows : List SRow) (i : Nat) (out : List SRow × Bool) : Prop :=
  i < out.1.length ∧ out.1.length ≤ rows.length ∧ out.1.take (i + 1) = rows.take (i + 1) ∧ Proc nle out.1 i ∧
  (∀ x ∈ rows.drop nle, ∃ y ∈ out.1.drop nle, subsetOrEqual y.sat x.sat = true) ∧
  (out.2 = false → ∀ k, nle ≤ k → k < out.1.length → k ≠ i →
      subsetOrEqual (out.1.getD k default).sat (out.1.getD i default).sat = false) ∧
  (out.2 = true → ∃ k, nle ≤ k ∧ k < out.1.length ∧ k ≠ i ∧
      subsetOrEqual (out.1.getD k default).sat (out.1.getD i default).sat = true)

theorem dom_refl (nle : Nat) (rows : List SRow) :
    ∀ x ∈ rows.drop nle, ∃ y ∈ rows.drop nle, subsetOrEqual y.sat x.sat = true :=
  fun x hx => ⟨x, hx, subsetOrEqual_refl _⟩

theorem indepInner_spec (nle : Nat) : ∀ (fuel : Nat) (rows : List SRow) (i j : Nat),
    nle ≤ i → i < rows.length → nle ≤ j → rows.length - j ≤ fuel → Proc nle rows i →
    (∀ k, nle ≤ k → k < j → k ≠ i →
      subsetOrEqual (rows.getD k default).sat (rows.getD i default).sat = false) →
    InnerPost nle rows i (indepInner fuel rows i j)
  | 0, rows, i, j => fun hi hil hj hf hP hS => by
    simp only [indepInner]
    refine ⟨hil, Nat.le_refl _, rfl, hP, dom_refl nle rows, fun _ k hk hkl hne => ?_, fun h => by cases h⟩
    exact hS k hk (by have : k < rows.length := hkl; omega) hne
  | n + 1, rows, i, j => fun hi hil hj hf hP hS => by
    by_cases hjl : j < rows.length
    · by_cases e : i = j
      · rw [indepInner_eq n rows i j hjl e]
        exact indepInner_spec nle n rows i (j + 1) hi hil (by omega) (by omega) hP
          (fun k hk hkj hne => hS k hk (by omega) hne)
      · cases hs : subsetOrEqual (rows.getD j default).sat (rows.getD i default).sat with
        | false =>
          rw [indepInner_nsub n rows i j hjl e hs]
          refine indepInner_spec nle n rows i (j + 1) hi hil (by omega) (by omega) hP
            (fun k hk hkj hne => ?_)
          by_cases ekj : k = j
          · subst ekj; exact hs
          · exact hS k hk (by omega) hne
        | true =>
          cases hs2 : subsetOrEqual (rows.getD i default).sat (rows.getD j default).sat with
          | false =>
            rw [indepInner_strict n rows i j hjl e hs hs2]
            exact ⟨hil, Nat.le_refl _, rfl, hP, dom_refl nle rows, (fun h => by cases h),
              fun _ => ⟨j, hj, hjl, fun h => e h.symm, hs⟩⟩
          | true =>
            rw [indepInner_rm n rows i j hjl e hs hs2]
            have hij : i < j := by
              rcases Nat.lt_or_ge i j with h | h
              · exact h
              · exfalso
                have := hP j i hj (by omega) hi hil e
                rw [this] at hs2; cases hs2
            have ih := indepInner_spec nle n (removeRowAt rows j) i j hi
              (by rw [length_removeRowAt]; omega) hj (by rw [length_removeRowAt]; omega)
              (Proc_remove nle rows i j (by omega) hjl hP)
              (fun k hk hkj hne => by
                rw [getD_removeRowAt rows j k hjl (by omega), getD_removeRowAt rows j i hjl (by omega)]
                have h1 : k ≠ j := by omega
                have h2 : i ≠ j := by omega
                simp only [h1, h2, if_false]
                exact hS k hk hkj hne)
            obtain ⟨p1, p2, p3, p4, p5, p6, p7⟩ := ih
            refine ⟨p1, ?_, ?_, p4, ?_, p6, p7⟩
            · rw [length_removeRowAt] at p2; omega
            · rw [p3]; exact take_removeRowAt rows j (i + 1) hjl (by omega)
            · intro x hx
              obtain ⟨y, hy, hyx⟩ := dom_remove nle rows j i hj hi hjl hil e hs2 x hx
              obtain ⟨z, hz, hzy⟩ := p5 y hy
              exact ⟨z, hz, subsetOrEqual_trans _ _ _ hzy hyx⟩
    · rw [indepInner_ge n rows i j hjl]
      refine ⟨hil, Nat.le_refl _, rfl, hP, dom_refl nle rows, fun _ k hk hkl hne => ?_, fun h => by cases h⟩
      exact hS k hk (by have : k < rows.length := hkl; omega) hne

/-! ## the outer loop -/

theorem indepLoop_ge (n nle : Nat) (rows : List SRow) (i : Nat) (h : ¬ i < rows.length) :
    indepLoop (n + 1) nle rows i = rows := by
  simp [indepLoop, h]

theorem indepLoop_red (n nle : Nat) (rows : List SRow) (i : Nat) (h : i < rows.length)
    (hr : (indepInner (rows.length - nle + 1) rows i nle).2 = true) :
    indepLoop (n + 1) nle rows i
      = indepLoop n nle (removeRowAt (indepInner (rows.length - nle + 1) rows i nle).1 i) i := by
  simp [indepLoop, h, hr]

theorem indepLoop_nred (n nle : Nat) (rows : List SRow) (i : Nat) (h : i < rows.length)
    (hr : (indepInner (rows.length - nle + 1) rows i nle).2 = false) :
    indepLoop (n + 1) nle rows i
      = indepLoop n nle (indepInner (rows.length - nle + 1) rows i nle).1 (i + 1) := by
  simp [indepLoop, h, hr]

theorem indepLoop_spec (nle : Nat) : ∀ (fuel : Nat) (rows : List SRow) (i : Nat),
    nle ≤ i → rows.length - i ≤ fuel → Proc nle rows i →
    (indepLoop fuel nle rows i).take nle = rows.take nle ∧
    ∀ x ∈ rows.drop nle, ∃ y ∈ (indepLoop fuel nle rows i).drop nle, subsetOrEqual y.sat x.sat = true
  | 0, rows, i => fun _ _ _ => by
    unfold indepLoop
    exact ⟨rfl, dom_refl nle rows⟩
  | n + 1, rows, i => fun hi hf hP => by
    by_cases hil : i < rows.length
    · obtain ⟨p1, p2, p3, p4, p5, p6, p7⟩ :=
        indepInner_spec nle (rows.length - nle + 1) rows i nle hi hil (Nat.le_refl _) (by omega) hP
          (fun k hk hkn _ => by omega)
      have htk : (indepInner (rows.length - nle + 1) rows i nle).1.take nle = rows.take nle := by
        have := congrArg (List.take nle) p3
        rw [List.take_take, List.take_take] at this
        have e : min nle (i + 1) = nle := by omega
        rw [e] at this; exact this
      cases hr : (indepInner (rows.length - nle + 1) rows i nle).2 with
      | true =>
        rw [indepLoop_red n nle rows i hil hr]
        obtain ⟨k, hk, hkl, hne, hs⟩ := p7 hr
        obtain ⟨q1, q2⟩ := indepLoop_spec nle n
          (removeRowAt (indepInner (rows.length - nle + 1) rows i nle).1 i) i hi
          (by rw [length_removeRowAt]; omega) (Proc_remove nle _ i i (Nat.le_refl _) p1 p4)
        refine ⟨?_, fun x hx => ?_⟩
        · rw [q1, take_removeRowAt _ i nle p1 hi, htk]
        · obtain ⟨y, hy, hyx⟩ := p5 x hx
          obtain ⟨z, hz, hzy⟩ := dom_remove nle _ i k hi hk p1 hkl hne hs y hy
          obtain ⟨w, hw, hwz⟩ := q2 z hz
          exact ⟨w, hw, subsetOrEqual_trans _ _ _ hwz (subsetOrEqual_trans _ _ _ hzy hyx)⟩
      | false =>
        rw [indepLoop_nred n nle rows i hil hr]
        have hP' : Proc nle (indepInner (rows.length - nle + 1) rows i nle).1 (i + 1) := by
          intro j k hj hji hk hkl hne
          by_cases e : j = i
          · subst e; exact p6 hr k hk hkl hne
          · exact p4 j k hj (by omega) hk hkl hne
        obtain ⟨q1, q2⟩ := indepLoop_spec nle n _ (i + 1) (by omega) (by omega) hP'
        refine ⟨by rw [q1, htk], fun x hx => ?_⟩
        obtain ⟨y, hy, hyx⟩ := p5 x hx
        obtain ⟨w, hw, hwy⟩ := q2 y hy
        exact ⟨w, hw, subsetOrEqual_trans _ _ _ hwy hyx⟩
    · rw [indepLoop_ge n nle rows i hil]
      exact ⟨rfl, dom_refl nle rows⟩

/-- the independence rule leaves the first `nle` rows alone. -/
theorem indepLoop_take (fuel nle : Nat) (rows : List SRow) (hf : rows.length ≤ fuel) :
    (indepLoop fuel nle rows nle).take nle = rows.take nle :=
  (indepLoop_spec nle fuel rows nle (Nat.le_refl _) (by omega) (fun j k hj hji => by omega)).1

/-- whoever is removed by the independence rule is dominated by a row that is kept. -/
theorem indepLoop_dominated (fuel nle : Nat) (rows : List SRow) (hf : rows.length ≤ fuel) :
    ∀ x ∈ rows.drop nle, ∃ y ∈ (indepLoop fuel nle rows nle).drop nle, subsetOrEqual y.sat x.sat = true :=
  (indepLoop_spec nle fuel rows nle (Nat.le_refl _) (by omega) (fun j k hj hji => by omega)).2

end PPLV.Conv
