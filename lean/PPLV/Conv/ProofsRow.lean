import PPLV.Conv.Spec
import Mathlib.Tactic.Ring
import Mathlib.Tactic.Linarith
/-!
# Row algebra of the conversion model: scalar products under `linear_combine`, negation, normalisation
-/
namespace PPLV.Conv

theorem sp_nil_left (x : Vec) : scalarProduct [] x = 0 := by
  cases x <;> rfl

theorem sp_nil_right (x : Vec) : scalarProduct x [] = 0 := by
  cases x <;> rfl

theorem sp_map_mul (c : Int) (s v : Vec) : scalarProduct s (v.map (c * ·)) = c * scalarProduct s v := by
  induction s generalizing v with
  | nil => simp [sp_nil_left]
  | cons a as ih =>
    cases v with
    | nil => simp [scalarProduct]
    | cons b bs => simp only [List.map_cons, scalarProduct, ih]; ring

theorem sp_linearCombine (c1 c2 : Int) (s x y : Vec) :
    scalarProduct s (linearCombine c1 c2 x y) = c1 * scalarProduct s x + c2 * scalarProduct s y := by
  induction x generalizing s y with
  | nil =>
    simp only [linearCombine, sp_nil_right, mul_zero, zero_add]
    exact sp_map_mul c2 s y
  | cons a as ih =>
    cases y with
    | nil =>
      simp only [linearCombine, sp_nil_right, mul_zero, add_zero]
      exact sp_map_mul c1 s (a :: as)
    | cons b bs =>
      cases s with
      | nil => simp [sp_nil_left]
      | cons t ts => simp only [linearCombine, scalarProduct, ih]; ring

theorem sp_neg (s v : Vec) : scalarProduct s (v.map (- ·)) = - scalarProduct s v := by
  have h := sp_map_mul (-1) s v
  have e : (v.map ((-1 : Int) * ·)) = v.map (- ·) := by
    apply List.map_congr_left; intro a _; ring
  rw [e] at h; rw [h]; ring

/-- every coefficient is a multiple of `gcdVec`. -/
theorem gcdVec_dvd (v : Vec) : ∀ a ∈ v, (gcdVec v : Int) ∣ a := by
  induction v with
  | nil => intro a h; cases h
  | cons b bs ih =>
    intro a h
    simp only [gcdVec]
    rcases List.mem_cons.mp h with h | h
    · subst h
      have : (Nat.gcd a.natAbs (gcdVec bs) : Int) ∣ (a.natAbs : Int) := Int.natCast_dvd_natCast.mpr (Nat.gcd_dvd_left _ _)
      exact Int.dvd_natAbs.mp this
    · have h1 := ih a h
      have : (Nat.gcd b.natAbs (gcdVec bs) : Int) ∣ (gcdVec bs : Int) := Int.natCast_dvd_natCast.mpr (Nat.gcd_dvd_right _ _)
      exact dvd_trans this h1

theorem sp_map_div (g : Int) (s v : Vec) (h : ∀ a ∈ v, g ∣ a) :
    scalarProduct s v = g * scalarProduct s (v.map (· / g)) := by
  induction s generalizing v with
  | nil => simp [sp_nil_left]
  | cons a as ih =>
    cases v with
    | nil => simp [scalarProduct]
    | cons b bs =>
      simp only [List.map_cons, scalarProduct]
      have hb : g ∣ b := h b (List.mem_cons_self ..)
      have ih' := ih bs (fun x hx => h x (List.mem_cons_of_mem _ hx))
      rw [ih']
      have hbb : b = g * (b / g) := (Int.mul_ediv_cancel' hb).symm
      have e : a * b = g * (a * (b / g)) := by
        calc a * b = a * (g * (b / g)) := by rw [← hbb]
          _ = g * (a * (b / g)) := by ring
      rw [e]; ring

theorem sp_normalize (v : Vec) : ∃ g : Int, 0 < g ∧ ∀ s, scalarProduct s v = g * scalarProduct s (normalize v) := by
  unfold normalize
  by_cases h : (gcdVec v == 0 || gcdVec v == 1) = true
  · refine ⟨1, by norm_num, fun s => ?_⟩
    simp only [h, if_true]; ring
  · refine ⟨(gcdVec v : Int), ?_, fun s => ?_⟩
    · have : gcdVec v ≠ 0 := by
        intro e; apply h; simp [e]
      exact_mod_cast Nat.pos_of_ne_zero this
    · simp only [h]
      exact sp_map_div _ s v (gcdVec_dvd v)

theorem sp_signNormalize (v : Vec) :
    ∃ e : Int, (e = 1 ∨ e = -1) ∧ ∀ s, scalarProduct s (signNormalize v) = e * scalarProduct s v := by
  unfold signNormalize
  by_cases h : firstNonzero (v.drop 1) < 0
  · exact ⟨-1, Or.inr rfl, fun s => by simp only [h, if_true]; rw [sp_neg]; ring⟩
  · exact ⟨1, Or.inl rfl, fun s => by simp only [h, if_false]; ring⟩

theorem strongNormalize_le (r : LRow) : (strongNormalize r).le = r.le := rfl

theorem sp_strongNormalize_ray (r : LRow) (h : r.le = false) :
    ∃ g : Int, 0 < g ∧ ∀ s, scalarProduct s r.v = g * scalarProduct s (strongNormalize r).v := by
  obtain ⟨g, hg, hs⟩ := sp_normalize r.v
  refine ⟨g, hg, fun s => ?_⟩
  simp only [strongNormalize, h]
  exact hs s

theorem sp_strongNormalize (r : LRow) :
    ∃ g : Int, g ≠ 0 ∧ ∀ s, scalarProduct s r.v = g * scalarProduct s (strongNormalize r).v := by
  obtain ⟨g, hg, hs⟩ := sp_normalize r.v
  by_cases hle : r.le = true
  · obtain ⟨e, he, hes⟩ := sp_signNormalize (normalize r.v)
    refine ⟨g * e, ?_, fun s => ?_⟩
    · rcases he with he | he <;> subst he <;> simp <;> omega
    · simp only [strongNormalize, hle, if_true]
      rw [hs s, hes s]
      rcases he with he | he <;> subst he <;> ring
  · have hf : r.le = false := by simpa using hle
    obtain ⟨g', hg', hs'⟩ := sp_strongNormalize_ray r hf
    exact ⟨g', ne_of_gt hg', hs'⟩

theorem normalize2_spec (x y : Int) (h : x ≠ 0 ∨ y ≠ 0) :
    ∃ g : Int, 0 < g ∧ x = g * (normalize2 x y).1 ∧ y = g * (normalize2 x y).2 := by
  refine ⟨(Int.gcd x y : Nat), ?_, ?_, ?_⟩
  · have : Int.gcd x y ≠ 0 := by
      intro e
      rw [Int.gcd_eq_zero_iff] at e
      rcases h with h | h
      · exact h e.1
      · exact h e.2
    exact_mod_cast Nat.pos_of_ne_zero this
  · simp only [normalize2]
    exact (Int.mul_ediv_cancel' (Int.gcd_dvd_left x y)).symm
  · simp only [normalize2]
    exact (Int.mul_ediv_cancel' (Int.gcd_dvd_right x y)).symm

/-- the record produced by `combineWithNle`: its row is, up to a non-zero factor `g` (positive for a
ray), `nO * d - nI * dnle` with `d.sp = c * nI`, `dnle.sp = c * nO`, `c > 0`. -/
theorem sp_combineWithNle (dnle d : DRow) (h : dnle.sp ≠ 0) :
    ∃ g c nI nO : Int, g ≠ 0 ∧ (d.row.le = false → 0 < g) ∧ 0 < c ∧ d.sp = c * nI ∧ dnle.sp = c * nO ∧
      (combineWithNle dnle d).sp = 0 ∧ (combineWithNle dnle d).sat = d.sat ∧
      (combineWithNle dnle d).row.le = d.row.le ∧
      ∀ s, nO * scalarProduct s d.row.v - nI * scalarProduct s dnle.row.v
            = g * scalarProduct s (combineWithNle dnle d).row.v := by
  obtain ⟨c, hc, h1, h2⟩ := normalize2_spec d.sp dnle.sp (Or.inr h)
  set nI := (normalize2 d.sp dnle.sp).1 with hnI
  set nO := (normalize2 d.sp dnle.sp).2 with hnO
  let r0 : LRow := { d.row with v := linearCombine nO (-nI) d.row.v dnle.row.v }
  have hcomb : combineWithNle dnle d = { d with row := strongNormalize r0, sp := 0 } := by
    simp only [combineWithNle, r0, hnI, hnO]
  have key : ∃ g : Int, g ≠ 0 ∧ (d.row.le = false → 0 < g) ∧
      ∀ s, scalarProduct s r0.v = g * scalarProduct s (strongNormalize r0).v := by
    by_cases hle : d.row.le = false
    · obtain ⟨g, hg, hs⟩ := sp_strongNormalize_ray r0 hle
      exact ⟨g, ne_of_gt hg, fun _ => hg, hs⟩
    · obtain ⟨g, hg, hs⟩ := sp_strongNormalize r0
      exact ⟨g, hg, fun h => absurd h hle, hs⟩
  obtain ⟨g, hg, hpos, hs⟩ := key
  refine ⟨g, c, nI, nO, hg, hpos, hc, h1, h2, ?_, ?_, ?_, ?_⟩
  · rw [hcomb]
  · rw [hcomb]
  · rw [hcomb]; rfl
  · intro s
    rw [hcomb]
    have := hs s
    simp only [r0] at this
    rw [sp_linearCombine] at this
    simp only [r0]
    linarith

/-- the new ray is a strictly positive combination of `rj` (in Q-) and `ri` (in Q+) that saturates the
constraint being processed. -/
theorem sp_newRay (ri rj : DRow) (sat : BRow) (hi : 0 < ri.sp) (hj : rj.sp < 0) (hl : rj.row.le = false) :
    ∃ g a b : Int, 0 < g ∧ 0 < a ∧ 0 < b ∧ a * rj.sp + b * ri.sp = 0 ∧ (newRay ri rj sat).row.le = false ∧
      (newRay ri rj sat).sp = 0 ∧ (newRay ri rj sat).sat = sat ∧
      ∀ s, a * scalarProduct s rj.row.v + b * scalarProduct s ri.row.v
            = g * scalarProduct s (newRay ri rj sat).row.v := by
  obtain ⟨c, hc, h1, h2⟩ := normalize2_spec ri.sp rj.sp (Or.inl (ne_of_gt hi))
  set nI := (normalize2 ri.sp rj.sp).1 with hnI
  set nO := (normalize2 ri.sp rj.sp).2 with hnO
  let r0 : LRow := { rj.row with v := linearCombine nI (-nO) rj.row.v ri.row.v }
  have hnew : newRay ri rj sat = { row := strongNormalize r0, sp := 0, sat := sat } := by
    simp only [newRay, r0, hnI, hnO]
  obtain ⟨g, hg, hs⟩ := sp_strongNormalize_ray r0 hl
  have hnIpos : 0 < nI := by
    by_contra hneg
    have : nI ≤ 0 := le_of_not_gt hneg
    nlinarith
  have hnOneg : nO < 0 := by
    by_contra hneg
    have : 0 ≤ nO := le_of_not_gt hneg
    nlinarith
  refine ⟨g, nI, -nO, hg, hnIpos, by linarith, ?_, ?_, ?_, ?_, ?_⟩
  · rw [h1, h2]; ring
  · rw [hnew]; exact hl
  · rw [hnew]
  · rw [hnew]
  · intro s
    rw [hnew]
    have := hs s
    simp only [r0] at this
    rw [sp_linearCombine] at this
    simp only [r0]
    linarith

end PPLV.Conv
