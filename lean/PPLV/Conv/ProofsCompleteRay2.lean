import PPLV.Conv.ProofsCompleteInv2
import PPLV.Conv.ProofsCompleteRay1
import PPLV.Conv.ProofsCompleteAbs5
/-!
# C01 stage 4 — the adjacency tests of `conversion` (:755-835) against the abstract adjacency

`adjacent … i j = some _` (quick non-adjacency test passed, then quick adjacency test or full test)
is compared with `Abs.Adjacent` for the embedded rows.
-/
namespace PPLV.Conv
open PPLV.Conv.Abs

/-- the antichain property, permutation-invariantly. -/
def SatRel (a b : DRow) : Prop := subsetOrEqual a.sat b.sat = false ∧ subsetOrEqual b.sat a.sat = false

theorem satRel_symm {a b : DRow} (h : SatRel a b) : SatRel b a := ⟨h.2, h.1⟩

theorem satAntichain_iff_pairwise (nle : Nat) (rows : List DRow) :
    SatAntichain nle rows ↔ (rows.drop nle).Pairwise SatRel := by
  rw [List.pairwise_iff_getElem]
  constructor
  · intro h i j hi hj hij
    have e1 : rows[nle + i]? = some (rows.drop nle)[i] := by
      rw [← List.getElem?_drop, List.getElem?_eq_getElem hi]
    have e2 : rows[nle + j]? = some (rows.drop nle)[j] := by
      rw [← List.getElem?_drop, List.getElem?_eq_getElem hj]
    exact ⟨h _ _ _ _ (by omega) (by omega) (by omega) e1 e2, h _ _ _ _ (by omega) (by omega) (by omega) e2 e1⟩
  · intro h l m dl dm hl hm hne e1 e2
    have hl' : l - nle < (rows.drop nle).length := by
      rw [List.length_drop]; have := (List.getElem?_eq_some_iff.1 e1).1; omega
    have hm' : m - nle < (rows.drop nle).length := by
      rw [List.length_drop]; have := (List.getElem?_eq_some_iff.1 e2).1; omega
    have g1 : (rows.drop nle)[l - nle] = dl := by
      have : (rows.drop nle)[l - nle]? = some dl := by
        rw [List.getElem?_drop, show nle + (l - nle) = l by omega]; exact e1
      rw [List.getElem?_eq_getElem hl'] at this; exact Option.some.inj this
    have g2 : (rows.drop nle)[m - nle] = dm := by
      have : (rows.drop nle)[m - nle]? = some dm := by
        rw [List.getElem?_drop, show nle + (m - nle) = m by omega]; exact e2
      rw [List.getElem?_eq_getElem hm'] at this; exact Option.some.inj this
    rcases Nat.lt_or_gt_of_ne hne with hlt | hgt
    · have := h (l - nle) (m - nle) hl' hm' (by omega)
      rw [g1, g2] at this; exact this.1
    · have := h (m - nle) (l - nle) hm' hl' (by omega)
      rw [g1, g2] at this; exact this.2

theorem SatAntichain.perm {nle : Nat} {rows rows' : List DRow} (h : SatAntichain nle rows)
    (hp : (rows'.drop nle).Perm (rows.drop nle)) : SatAntichain nle rows' := by
  rw [satAntichain_iff_pairwise] at h ⊢
  exact (hp.pairwise_iff (fun {a b} hab => satRel_symm hab)).mpr h

/-- everything the adjacency lemmas need about one call of `rayCase`. -/
structure RayCtx (ncols : Nat) (srcK : LRow) (kept : List LRow) (st : CState) (R : List DRow) (leb sup : Nat) : Prop where
  H : StepHyp srcK st kept
  hsat : RowsSatCorrect kept st.rows
  X : CExtra ncols kept st
  P : PartOK st R leb sup

namespace RayCtx
variable {ncols : Nat} {srcK : LRow} {kept : List LRow} {st : CState} {R : List DRow} {leb sup : Nat}

theorem inv (C : RayCtx ncols srcK kept st R leb sup) :
    DDInv (ambient ncols) (kept.map conOf) (linesOf st.gens) (raysOf st.gens) :=
  toDDInv ncols kept st C.H.hl C.H.hP C.hsat C.X

/-- a record of the partitioned list beyond the lines is a ray of the state. -/
theorem ray (C : RayCtx ncols srcK kept st R leb sup) {m : Nat} {d : DRow} (hm : st.nle ≤ m) (hd : R[m]? = some d) :
    d ∈ st.rows ∧ d.row.le = false ∧ emb d.row.v ∈ raysOf st.gens := by
  obtain ⟨a1, _⟩ := C.P.at m d hm hd
  have hmem := List.mem_of_mem_drop a1
  obtain ⟨m', hm1, hm2⟩ := (mem_drop_iff_getElem? _ _ _).mp a1
  have hle : d.row.le = false := by rw [C.H.hl m' d hm2]; simp; omega
  exact ⟨hmem, hle, d.row, (mem_gens_iff st d.row).mpr ⟨d, hmem, rfl⟩, hle, rfl⟩

theorem antichainR (C : RayCtx ncols srcK kept st R leb sup) : SatAntichain st.nle R :=
  C.X.antichain.perm C.P.hperm

/-- the value of a kept constraint on a row, from the saturation bit. -/
theorem f_zero_iff (C : RayCtx ncols srcK kept st R leb sup) {d : DRow} (hd : d ∈ st.rows) (j : Nat) (hj : j < kept.length) :
    (conOf (kept.getD j default)).f (emb d.row.v) = 0 ↔ bit d.sat j = false := by
  rw [conOf_f_emb]
  have := bit_true_iff C.hsat hd j
  constructor
  · intro hz
    cases hb : bit d.sat j
    · rfl
    · exact absurd (by exact_mod_cast hz) (this.mp hb).2
  · intro hb
    by_contra hne
    have : bit d.sat j = true := this.mpr ⟨hj, fun hc => hne (by rw [hc]; simp)⟩
    rw [hb] at this; cases this

theorem bit_lt (C : RayCtx ncols srcK kept st R leb sup) {d : DRow} (hd : d ∈ st.rows) (j : Nat) (hb : bit d.sat j = true) :
    j < kept.length := ((bit_true_iff C.hsat hd j).mp hb).1

theorem kept_index {s : LRow} (hs : s ∈ kept) : ∃ j, j < kept.length ∧ kept.getD j default = s := by
  obtain ⟨j, hj⟩ := List.mem_iff_getElem?.mp hs
  have hjl : j < kept.length := by
    by_contra hc
    rw [List.getElem?_eq_none (by omega)] at hj; cases hj
  exact ⟨j, hjl, by rw [List.getD_eq_getElem?_getD, hj]; rfl⟩

/-- a third row whose saturation row is inside the union: it saturates the common saturators. -/
theorem common_of_subset (C : RayCtx ncols srcK kept st R leb sup) {di dj dl : DRow}
    (hi : di ∈ st.rows) (hj : dj ∈ st.rows) (hl : dl ∈ st.rows)
    (h : subsetOrEqual dl.sat (bor di.sat dj.sat) = true) :
    ∀ a ∈ kept.map conOf, a.f (emb di.row.v) = 0 → a.f (emb dj.row.v) = 0 → a.f (emb dl.row.v) = 0 := by
  rw [subsetOrEqual_iff] at h
  intro a ha h1 h2
  obtain ⟨s, hs, rfl⟩ := mem_kept_conOf ha
  obtain ⟨j, hjl, rfl⟩ := kept_index hs
  rw [C.f_zero_iff hi j hjl] at h1
  rw [C.f_zero_iff hj j hjl] at h2
  rw [C.f_zero_iff hl j hjl]
  cases hb : bit dl.sat j
  · rfl
  · have := h j hb
    rw [bit_bor, h1, h2] at this; cases this

theorem subset_of_common (C : RayCtx ncols srcK kept st R leb sup) {di dj dl : DRow}
    (hi : di ∈ st.rows) (hj : dj ∈ st.rows) (hl : dl ∈ st.rows)
    (h : ∀ a ∈ kept.map conOf, a.f (emb di.row.v) = 0 → a.f (emb dj.row.v) = 0 → a.f (emb dl.row.v) = 0) :
    subsetOrEqual dl.sat (bor di.sat dj.sat) = true := by
  rw [subsetOrEqual_iff]
  intro j hb
  have hjl := C.bit_lt hl j hb
  rw [bit_bor]
  by_contra hc
  have h1 : bit di.sat j = false := by cases h' : bit di.sat j <;> simp_all
  have h2 : bit dj.sat j = false := by cases h' : bit dj.sat j <;> simp_all
  have := h (conOf (kept.getD j default)) (List.mem_map.mpr ⟨_, getD_mem_kept kept j hjl, rfl⟩)
    ((C.f_zero_iff hi j hjl).mpr h1) ((C.f_zero_iff hj j hjl).mpr h2)
  rw [C.f_zero_iff hl j hjl, hb] at this; cases this

/-- Lemma T: with an abstractly adjacent pair no third row has its saturation row inside the union. -/
theorem no_third (C : RayCtx ncols srcK kept st R leb sup) {i j l : Nat} {di dj dl : DRow}
    (hi : st.nle ≤ i) (hj : st.nle ≤ j) (hl : st.nle ≤ l) (hli : l ≠ i) (hlj : l ≠ j)
    (ei : R[i]? = some di) (ej : R[j]? = some dj) (el : R[l]? = some dl)
    (hadj : Adjacent (kept.map conOf) (raysOf st.gens) (emb di.row.v) (emb dj.row.v)) :
    subsetOrEqual dl.sat (bor di.sat dj.sat) = false := by
  obtain ⟨mi, _, _⟩ := C.ray hi ei
  obtain ⟨mj, _, _⟩ := C.ray hj ej
  obtain ⟨ml, _, rl⟩ := C.ray hl el
  cases hsub : subsetOrEqual dl.sat (bor di.sat dj.sat)
  · rfl
  · exfalso
    have hq := hadj _ rl (C.common_of_subset mi mj ml hsub)
    rcases hq with hq | hq
    · have h1 : SatSub (kept.map conOf) (emb dl.row.v) (emb di.row.v) := by
        intro a _ hz; rw [← hq]; exact hz
      have := subset_of_satSub C.hsat ml mi h1
      have h2 := C.antichainR i l di dl hi hl (fun h => hli h.symm) ei el
      rw [this] at h2; cases h2
    · have h1 : SatSub (kept.map conOf) (emb dl.row.v) (emb dj.row.v) := by
        intro a _ hz; rw [← hq]; exact hz
      have := subset_of_satSub C.hsat ml mj h1
      have h2 := C.antichainR j l dj dl hj hl (fun h => hlj h.symm) ej el
      rw [this] at h2; cases h2

theorem adjacent_symm {A : List (ACon FV)} {S : Set FV} {r s : FV} (h : Adjacent A S r s) : Adjacent A S s r := by
  intro q hq hc
  rcases h q hq (fun a ha h1 h2 => hc a ha h2 h1) with h | h
  · exact Or.inr h
  · exact Or.inl h

/-- Lemma Q: the quick adjacency test (:808-813) implies abstract adjacency. -/
theorem quick_adj (C : RayCtx ncols srcK kept st R leb sup) {i j : Nat} {di dj : DRow}
    (hi : st.nle ≤ i) (hj : st.nle ≤ j) (ei : R[i]? = some di) (ej : R[j]? = some dj)
    (hq : max (countOnes di.sat) (countOnes dj.sat) + 1 = countOnes (bor di.sat dj.sat)) :
    Adjacent (kept.map conOf) (raysOf st.gens) (emb di.row.v) (emb dj.row.v) := by
  obtain ⟨mi, _, ri⟩ := C.ray hi ei
  obtain ⟨mj, _, rj⟩ := C.ray hj ej
  have bi : ∀ k, bit di.sat k = true → k < kept.length := fun k => C.bit_lt mi k
  have bj : ∀ k, bit dj.sat k = true → k < kept.length := fun k => C.bit_lt mj k
  -- the generic step: `b` has exactly one bit `e` outside `a`
  have key : ∀ (da db : DRow), da ∈ st.rows → db ∈ st.rows → emb da.row.v ∈ raysOf st.gens → emb db.row.v ∈ raysOf st.gens →
      (∃ e, bit db.sat e = true ∧ bit da.sat e = false ∧ ∀ k, bit db.sat k = true → bit da.sat k = true ∨ k = e) →
      Adjacent (kept.map conOf) (raysOf st.gens) (emb da.row.v) (emb db.row.v) := by
    intro da db ma mb ra rb ⟨e, he1, he2, he3⟩
    have hel := C.bit_lt mb e he1
    refine quick_adjacent_sound C.inv _ _ ra rb (conOf (kept.getD e default))
      (List.mem_map.mpr ⟨_, getD_mem_kept kept e hel, rfl⟩) ((C.f_zero_iff ma e hel).mpr he2) ?_ ?_
    · intro hz
      rw [C.f_zero_iff mb e hel, he1] at hz; cases hz
    · intro a ha hne
      obtain ⟨s, hs, rfl⟩ := mem_kept_conOf ha
      obtain ⟨k, hkl, rfl⟩ := kept_index hs
      have hbk : bit db.sat k = true := by
        cases hb : bit db.sat k
        · exact absurd ((C.f_zero_iff mb k hkl).mpr hb) hne
        · rfl
      rcases he3 k hbk with h | h
      · left
        intro hz
        rw [C.f_zero_iff ma k hkl, h] at hz; cases hz
      · right; rw [h]
  rcases Nat.le_total (countOnes dj.sat) (countOnes di.sat) with hle | hle
  · rw [Nat.max_eq_left hle] at hq
    exact key di dj mi mj ri rj (bor_count_succ _ _ kept.length bi bj hq.symm)
  · rw [Nat.max_eq_right hle] at hq
    exact adjacent_symm (key dj di mj mi rj ri (bor_count_succ' _ _ kept.length bi bj hq.symm))

/-- **what a positive verdict of `adjacent` means**: no third row has its saturation row inside the union. -/
theorem adjacent_some_no_third (C : RayCtx ncols srcK kept st R leb sup) {i j : Nat} {di dj : DRow} {s : BRow}
    (hi : st.nle ≤ i) (hj : st.nle ≤ j) (ei : R[i]? = some di) (ej : R[j]? = some dj)
    (h : adjacent ncols st.nle kept.length st.rows.length R i j = some s) :
    ∀ l dl, st.nle ≤ l → l ≠ i → l ≠ j → R[l]? = some dl → subsetOrEqual dl.sat (bor di.sat dj.sat) = false := by
  have gi : R.getD i default = di := getD_of_getElem? R i di default ei
  have gj : R.getD j default = dj := getD_of_getElem? R j dj default ej
  intro l dl hl hli hlj el
  unfold adjacent at h
  simp only [gi, gj] at h
  split at h
  · cases h
  · split at h
    · rename_i _ hq
      have hq' : max (countOnes di.sat) (countOnes dj.sat) + 1 = countOnes (bor di.sat dj.sat) := by
        simpa using hq
      exact C.no_third hi hj hl hli hlj ei ej el (C.quick_adj hi hj ei ej hq')
    · split at h
      · cases h
      · rename_i hany
        have hany' := Bool.eq_false_iff.mpr hany
        rw [List.any_eq_false] at hany'
        have hlb : l < st.rows.length := by
          rw [← C.P.hlen]; exact (List.getElem?_eq_some_iff.1 el).1
        have := hany' l (by rw [List.mem_range'_1]; omega)
        have gl : R.getD l default = dl := getD_of_getElem? R l dl default el
        rw [gl] at this
        cases hsub : subsetOrEqual dl.sat (bor di.sat dj.sat)
        · rfl
        · exfalso
          apply this
          simp [hli, hlj, hsub]

end RayCtx
end PPLV.Conv
