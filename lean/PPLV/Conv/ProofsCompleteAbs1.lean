import PPLV.Conv.ProofsCompleteAbs0
import Mathlib.Algebra.Order.Field.Basic
import Mathlib.Tactic.Linarith
import Mathlib.Tactic.Ring
import Mathlib.Tactic.Abel
import Mathlib.Tactic.Module
/-!
# C01 stage 4 — the Double Description lemma, abstractly (basic facts)

Closure properties of `Cone`, the face lemma, the small-step lemma, peeling, and the lineality space of a
double description pair.
-/
namespace PPLV.Conv.Abs

variable {V : Type*} [AddCommGroup V] [Module ℚ V]

/-! ### constraints -/

theorem ACon.holds.nonneg {a : ACon V} {x : V} (h : a.holds x) : 0 ≤ a.f x := by
  rw [ACon.holds_iff] at h
  cases e : a.eq
  · exact h.2 e
  · exact (h.1 e).ge

theorem ACon.holds.eq_false {a : ACon V} {x : V} (h : a.holds x) (hne : a.f x ≠ 0) : a.eq = false := by
  rw [ACon.holds_iff] at h
  cases e : a.eq
  · rfl
  · exact absurd (h.1 e) hne

theorem ACon.holds_of_zero {a : ACon V} {x : V} (h : a.f x = 0) : a.holds x := by
  rw [ACon.holds_iff]; exact ⟨fun _ => h, fun _ => h.ge⟩

theorem ACon.holds_of_nonneg {a : ACon V} {x : V} (he : a.eq = false) (h : 0 ≤ a.f x) : a.holds x := by
  rw [ACon.holds_iff]; exact ⟨fun e => (by rw [he] at e; cases e), fun _ => h⟩

theorem ACon.holds_congr {a : ACon V} {x y : V} (h : a.f x = a.f y) : a.holds x ↔ a.holds y := by
  rw [ACon.holds_iff, ACon.holds_iff, h]

theorem ACon.holds_add {a : ACon V} {x y : V} (hx : a.holds x) (hy : a.holds y) : a.holds (x + y) := by
  rw [ACon.holds_iff] at *
  refine ⟨fun e => ?_, fun e => ?_⟩
  · rw [map_add, hx.1 e, hy.1 e, add_zero]
  · rw [map_add]; exact add_nonneg (hx.2 e) (hy.2 e)

theorem ACon.holds_smul {a : ACon V} {x : V} (t : ℚ) (ht : 0 ≤ t) (hx : a.holds x) : a.holds (t • x) := by
  rw [ACon.holds_iff] at *
  refine ⟨fun e => ?_, fun e => ?_⟩
  · rw [map_smul, hx.1 e, smul_zero]
  · rw [map_smul, smul_eq_mul]; exact mul_nonneg ht (hx.2 e)

theorem InP_cons {c : ACon V} {A : List (ACon V)} {x : V} : InP (c :: A) x ↔ c.holds x ∧ InP A x := by
  unfold InP
  exact List.forall_mem_cons

/-! ### closure properties of `Cone` -/

theorem Cone.mono {L L' R R' : Set V} (hL : L ⊆ L') (hR : R ⊆ R') {x : V} (h : Cone L R x) :
    Cone L' R' x := by
  induction h with
  | zero => exact Cone.zero
  | line t hl _ ih => exact Cone.line t (hL hl) ih
  | ray t hr ht _ ih => exact Cone.ray t (hR hr) ht ih

theorem Cone.add {L R : Set V} {x y : V} (hx : Cone L R x) (hy : Cone L R y) : Cone L R (x + y) := by
  induction hy with
  | zero => rw [add_zero]; exact hx
  | line t hl _ ih => rw [← add_assoc]; exact Cone.line t hl ih
  | ray t hr ht _ ih => rw [← add_assoc]; exact Cone.ray t hr ht ih

theorem Cone.smul {L R : Set V} {x : V} (t : ℚ) (ht : 0 ≤ t) (hx : Cone L R x) : Cone L R (t • x) := by
  induction hx with
  | zero => rw [smul_zero]; exact Cone.zero
  | line s hl _ ih => rw [smul_add, smul_smul]; exact Cone.line _ hl ih
  | ray s hr hs _ ih => rw [smul_add, smul_smul]; exact Cone.ray _ hr (mul_nonneg ht hs) ih

theorem Cone.lines_smul {L : Set V} {x : V} (t : ℚ) (hx : Cone L ∅ x) : Cone L ∅ (t • x) := by
  induction hx with
  | zero => rw [smul_zero]; exact Cone.zero
  | line s hl _ ih => rw [smul_add, smul_smul]; exact Cone.line _ hl ih
  | ray s hr hs _ ih => exact absurd hr (Set.notMem_empty _)

theorem Cone.of_line {L R : Set V} {l : V} (hl : l ∈ L) (t : ℚ) : Cone L R (t • l) := by
  have := Cone.line (R := R) t hl Cone.zero
  rwa [zero_add] at this

theorem Cone.of_ray {L R : Set V} {r : V} (hr : r ∈ R) (t : ℚ) (ht : 0 ≤ t) : Cone L R (t • r) := by
  have := Cone.ray (L := L) t hr ht Cone.zero
  rwa [zero_add] at this

theorem Cone.mem_sub (U : Submodule ℚ V) {L R : Set V} (hL : ∀ l ∈ L, l ∈ U) (hR : ∀ r ∈ R, r ∈ U)
    {x : V} (h : Cone L R x) : x ∈ U := by
  induction h with
  | zero => exact U.zero_mem
  | line t hl _ ih => exact U.add_mem ih (U.smul_mem t (hL _ hl))
  | ray t hr _ _ ih => exact U.add_mem ih (U.smul_mem t (hR _ hr))

/-- split off the line part -/
theorem Cone.split {L R : Set V} {x : V} (h : Cone L R x) :
    ∃ l y, Cone L ∅ l ∧ Cone ∅ R y ∧ x = l + y := by
  induction h with
  | zero => exact ⟨0, 0, Cone.zero, Cone.zero, (add_zero 0).symm⟩
  | line t hl _ ih =>
    obtain ⟨l', y', h1, h2, e⟩ := ih
    exact ⟨l' + t • _, y', Cone.line t hl h1, h2, by rw [e]; abel⟩
  | ray t hr ht _ ih =>
    obtain ⟨l', y', h1, h2, e⟩ := ih
    exact ⟨l', y' + t • _, h1, Cone.ray t hr ht h2, by rw [e]; abel⟩

/-- a one-ray cone -/
theorem Cone.single {L : Set V} {r x : V} (h : Cone L {r} x) :
    ∃ β : ℚ, 0 ≤ β ∧ ∃ l, Cone L ∅ l ∧ x = β • r + l := by
  induction h with
  | zero => exact ⟨0, le_rfl, 0, Cone.zero, by rw [zero_smul, add_zero]⟩
  | line t hl _ ih =>
    obtain ⟨β, hβ, l', h1, e⟩ := ih
    exact ⟨β, hβ, l' + t • _, Cone.line t hl h1, by rw [e]; abel⟩
  | ray t hr ht _ ih =>
    obtain ⟨β, hβ, l', h1, e⟩ := ih
    have hr' := Set.mem_singleton_iff.1 hr
    exact ⟨β + t, add_nonneg hβ ht, l', h1, by rw [e, hr', add_smul]; abel⟩

/-- a two-ray cone -/
theorem Cone.pair {L : Set V} {r s x : V} (h : Cone L {q | q = r ∨ q = s} x) :
    ∃ α β : ℚ, 0 ≤ α ∧ 0 ≤ β ∧ ∃ l, Cone L ∅ l ∧ x = α • r + β • s + l := by
  induction h with
  | zero => exact ⟨0, 0, le_rfl, le_rfl, 0, Cone.zero, by rw [zero_smul, zero_smul, add_zero, add_zero]⟩
  | line t hl _ ih =>
    obtain ⟨α, β, hα, hβ, l', h1, e⟩ := ih
    exact ⟨α, β, hα, hβ, l' + t • _, Cone.line t hl h1, by rw [e]; abel⟩
  | @ray q y t hr ht _ ih =>
    obtain ⟨α, β, hα, hβ, l', h1, e⟩ := ih
    have hr' : q = r ∨ q = s := hr
    rcases hr' with h | h
    · exact ⟨α + t, β, add_nonneg hα ht, hβ, l', h1, by rw [e, h, add_smul]; abel⟩
    · exact ⟨α, β + t, hα, add_nonneg hβ ht, l', h1, by rw [e, h, add_smul]; abel⟩

/-! ### the cone and the constraints -/

/-- points of the cone satisfy the constraints -/
theorem Cone.inP (A : List (ACon V)) {L R : Set V} (hL : ∀ l ∈ L, ∀ a ∈ A, a.f l = 0)
    (hR : ∀ r ∈ R, InP A r) {x : V} (h : Cone L R x) : InP A x := by
  induction h with
  | zero => intro a _; exact ACon.holds_of_zero (map_zero _)
  | @line l y t hl _ ih =>
    intro a ha
    refine (ACon.holds_congr ?_).1 (ih a ha)
    rw [map_add, map_smul, hL l hl a ha, smul_zero, add_zero]
  | @ray r y t hr ht _ ih =>
    intro a ha
    exact ACon.holds_add (ih a ha) (ACon.holds_smul t ht (hR r hr a ha))

theorem Cone.face_aux (A : List (ACon V)) {L R : Set V} (hL : ∀ l ∈ L, ∀ a ∈ A, a.f l = 0)
    (hR : ∀ r ∈ R, InP A r) (x : V) {y : V} (h : Cone L R y) :
    InP A (x - y) → Cone L {r | r ∈ R ∧ SatSub A x r} y := by
  induction h with
  | zero => intro _; exact Cone.zero
  | @line l y t hl hy ih =>
    intro hz
    refine Cone.line t hl (ih ?_)
    intro a ha
    refine (ACon.holds_congr ?_).1 (hz a ha)
    simp only [map_sub, map_add, map_smul, hL l hl a ha, smul_zero, add_zero]
  | @ray r y t hr ht hy ih =>
    intro hz
    have hzy : InP A (x - y) := by
      intro a ha
      have e : x - y = (x - (y + t • r)) + t • r := by abel
      rw [e]
      exact ACon.holds_add (hz a ha) (ACon.holds_smul t ht (hR r hr a ha))
    have hy' := ih hzy
    rcases ht.eq_or_lt with h0 | hpos
    · rw [← h0, zero_smul, add_zero]; exact hy'
    · refine Cone.ray t ⟨hr, ?_⟩ ht hy'
      intro a ha hax
      have h1 := (hz a ha).nonneg
      have h2 := (Cone.inP A hL hR hy a ha).nonneg
      have h3 := (hR r hr a ha).nonneg
      simp only [map_sub, map_add, map_smul, smul_eq_mul] at h1
      have h4 : 0 ≤ t * a.f r := mul_nonneg ht h3
      have h5 : t * a.f r = 0 := by linarith
      rcases mul_eq_zero.1 h5 with h | h
      · exact absurd h hpos.ne'
      · exact h

/-- the face lemma: a point of the cone is generated by the rays that saturate whatever it saturates.
    Hypotheses: lines saturate every constraint, rays satisfy every constraint. -/
theorem Cone.face (A : List (ACon V)) {L R : Set V} (hL : ∀ l ∈ L, ∀ a ∈ A, a.f l = 0)
    (hR : ∀ r ∈ R, InP A r) {x : V} (h : Cone L R x) : Cone L {r | r ∈ R ∧ SatSub A x r} x := by
  refine Cone.face_aux A hL hR x h ?_
  intro a _
  rw [sub_self]
  exact ACon.holds_of_zero (map_zero _)

/-! ### small steps -/

theorem eps_one (p q : ℚ) (hp : 0 < p) : ∃ δ : ℚ, 0 < δ ∧ ∀ ε, 0 < ε → ε ≤ δ → 0 < p + ε * q := by
  rcases le_or_gt 0 q with hq | hq
  · exact ⟨1, one_pos, fun ε hε _ => by have := mul_nonneg hε.le hq; linarith⟩
  · have hq' : 0 < 2 * (-q) := by linarith
    refine ⟨p / (2 * (-q)), div_pos hp hq', fun ε hε hle => ?_⟩
    have h1 : ε * (2 * (-q)) ≤ p := by
      have := mul_le_mul_of_nonneg_right hle hq'.le
      rwa [div_mul_cancel₀ _ hq'.ne'] at this
    linarith

theorem eps_aux (A : List (ACon V)) (x w : V) :
    ∃ δ : ℚ, 0 < δ ∧ ∀ ε, 0 < ε → ε ≤ δ → ∀ a ∈ A, 0 < a.f x → 0 < a.f x + ε * a.f w := by
  induction A with
  | nil => exact ⟨1, one_pos, fun _ _ _ a ha => by cases ha⟩
  | cons b A ih =>
    obtain ⟨δ, hδ, h⟩ := ih
    by_cases hb : 0 < b.f x
    · obtain ⟨δ', hδ', h'⟩ := eps_one (b.f x) (b.f w) hb
      refine ⟨min δ δ', lt_min hδ hδ', fun ε hε hle a ha hpos => ?_⟩
      rcases List.mem_cons.1 ha with e | ha
      · rw [e]; exact h' ε hε (hle.trans (min_le_right _ _))
      · exact h ε hε (hle.trans (min_le_left _ _)) a ha hpos
    · refine ⟨δ, hδ, fun ε hε hle a ha hpos => ?_⟩
      rcases List.mem_cons.1 ha with e | ha
      · rw [e] at hpos; exact absurd hpos hb
      · exact h ε hε hle a ha hpos

/-- a small step in any direction `w` that vanishes where `x` is tight stays inside, with the same
saturators -/
theorem exists_eps (A : List (ACon V)) (x w : V) (hx : InP A x)
    (hw : ∀ a ∈ A, a.f x = 0 → a.f w = 0) :
    ∃ ε : ℚ, 0 < ε ∧ InP A (x + ε • w) ∧ SatSub A (x + ε • w) x := by
  obtain ⟨δ, hδ, h⟩ := eps_aux A x w
  have key : ∀ a ∈ A, a.f x ≠ 0 → 0 < a.f (x + δ • w) := by
    intro a ha hne
    have h1 : 0 < a.f x := lt_of_le_of_ne (hx a ha).nonneg (Ne.symm hne)
    have h2 := h δ hδ le_rfl a ha h1
    simpa only [map_add, map_smul, smul_eq_mul] using h2
  refine ⟨δ, hδ, fun a ha => ?_, fun a ha h0 => ?_⟩
  · by_cases h0 : a.f x = 0
    · refine (ACon.holds_congr ?_).1 (hx a ha)
      simp only [map_add, map_smul, smul_eq_mul, hw a ha h0, mul_zero, add_zero]
    · exact ACon.holds_of_nonneg ((hx a ha).eq_false h0) (key a ha h0).le
  · by_contra hne
    exact absurd h0 (key a ha hne).ne'

/-! ### peeling -/

theorem exists_min_of_list {α : Type*} (A : List α) (p : α → Prop) (g : α → ℚ) (h : ∃ a ∈ A, p a) :
    ∃ a₀ ∈ A, p a₀ ∧ ∀ a ∈ A, p a → g a₀ ≤ g a := by
  induction A with
  | nil => obtain ⟨a, ha, _⟩ := h; cases ha
  | cons b A ih =>
    by_cases hA : ∃ a ∈ A, p a
    · obtain ⟨a₁, ha₁, hp₁, h1⟩ := ih hA
      by_cases hb : p b
      · rcases le_total (g b) (g a₁) with hle | hle
        · refine ⟨b, List.mem_cons_self, hb, fun a ha hpa => ?_⟩
          rcases List.mem_cons.1 ha with e | ha'
          · rw [e]
          · exact hle.trans (h1 a ha' hpa)
        · refine ⟨a₁, List.mem_cons_of_mem _ ha₁, hp₁, fun a ha hpa => ?_⟩
          rcases List.mem_cons.1 ha with e | ha'
          · rw [e]; exact hle
          · exact h1 a ha' hpa
      · refine ⟨a₁, List.mem_cons_of_mem _ ha₁, hp₁, fun a ha hpa => ?_⟩
        rcases List.mem_cons.1 ha with e | ha'
        · rw [e] at hpa; exact absurd hpa hb
        · exact h1 a ha' hpa
    · obtain ⟨a, ha, hpa⟩ := h
      have hab : a = b := by
        rcases List.mem_cons.1 ha with e | ha'
        · exact e
        · exact absurd ⟨a, ha', hpa⟩ hA
      rw [hab] at hpa
      refine ⟨b, List.mem_cons_self, hpa, fun a' ha' hpa' => ?_⟩
      rcases List.mem_cons.1 ha' with e | ha''
      · rw [e]
      · exact absurd ⟨a', ha'', hpa'⟩ hA

/-- peeling: subtract as much of `v` as possible -/
theorem peel (A : List (ACon V)) (x v : V) (hx : InP A x) (hv : InP A v) (hsub : SatSub A x v)
    (hvne : ∃ a ∈ A, a.f v ≠ 0) :
    ∃ t : ℚ, 0 ≤ t ∧ InP A (x - t • v) ∧ SatSub A x (x - t • v) ∧
      ∃ a ∈ A, a.f x ≠ 0 ∧ a.f (x - t • v) = 0 := by
  have hpos : ∃ a ∈ A, 0 < a.f v := by
    obtain ⟨a, ha, hne⟩ := hvne
    exact ⟨a, ha, lt_of_le_of_ne (hv a ha).nonneg (Ne.symm hne)⟩
  obtain ⟨a₀, ha₀, hp₀, hmin⟩ :=
    exists_min_of_list A (fun a => 0 < a.f v) (fun a => a.f x / a.f v) hpos
  have hval : ∀ a : ACon V,
      a.f (x - (a₀.f x / a₀.f v) • v) = a.f x - (a₀.f x / a₀.f v) * a.f v := by
    intro a; simp only [map_sub, map_smul, smul_eq_mul]
  refine ⟨a₀.f x / a₀.f v, div_nonneg (hx a₀ ha₀).nonneg hp₀.le, fun a ha => ?_,
    fun a ha h0 => ?_, a₀, ha₀, ?_, ?_⟩
  · by_cases h0 : a.f v = 0
    · refine (ACon.holds_congr ?_).1 (hx a ha)
      rw [hval, h0, mul_zero, sub_zero]
    · have hpa : 0 < a.f v := lt_of_le_of_ne (hv a ha).nonneg (Ne.symm h0)
      refine ACon.holds_of_nonneg ((hv a ha).eq_false h0) ?_
      rw [hval]
      have h1 : a₀.f x / a₀.f v ≤ a.f x / a.f v := hmin a ha hpa
      have h2 := (le_div_iff₀ hpa).1 h1
      linarith
  · rw [hval, h0, hsub a ha h0, mul_zero, sub_zero]
  · intro h0; exact hp₀.ne' (hsub a₀ ha₀ h0)
  · rw [hval, div_mul_cancel₀ _ hp₀.ne', sub_self]

/-! ### the lineality space -/

/-- lineality space = span of the lines -/
theorem DDInv.lineality {U : Submodule ℚ V} {A : List (ACon V)} {L R : Set V} (inv : DDInv U A L R)
    (x : V) (hxU : x ∈ U) (hx : ∀ a ∈ A, a.f x = 0) : Cone L ∅ x := by
  have h1 : Cone L R x := inv.complete x hxU (fun a ha => ACon.holds_of_zero (hx a ha))
  have h2 := Cone.face A inv.lineSat inv.raySound h1
  refine Cone.mono (fun _ h => h) ?_ h2
  intro r hr
  obtain ⟨hrR, hs⟩ := hr
  obtain ⟨a, ha, hne⟩ := inv.proper r hrR
  exact absurd (hs a ha (hx a ha)) hne

end PPLV.Conv.Abs
