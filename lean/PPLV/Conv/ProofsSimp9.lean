import PPLV.Conv.ProofsSimp8
/-!
# C01 stage 3 — `simplify`: what the independence rule leaves is independent; layout of the result
-/
namespace PPLV.Conv

theorem Proc_mono (nle : Nat) (rows : List SRow) (i i' : Nat) (h : i' ≤ i) (hP : Proc nle rows i) :
    Proc nle rows i' :=
  fun j k hj hji hk hkl hne => hP j k hj (by omega) hk hkl hne

theorem indepLoop_proc (nle : Nat) : ∀ (fuel : Nat) (rows : List SRow) (i : Nat),
    nle ≤ i → rows.length - i ≤ fuel → Proc nle rows i →
    Proc nle (indepLoop fuel nle rows i) (indepLoop fuel nle rows i).length
  | 0, rows, i => fun _ hf hP => by
    unfold indepLoop
    exact Proc_mono nle rows i rows.length (by omega) hP
  | n + 1, rows, i => fun hi hf hP => by
    by_cases hil : i < rows.length
    · obtain ⟨p1, p2, p3, p4, p5, p6, p7⟩ :=
        indepInner_spec nle (rows.length - nle + 1) rows i nle hi hil (Nat.le_refl _) (by omega) hP
          (fun k hk hkn _ => by omega)
      cases hr : (indepInner (rows.length - nle + 1) rows i nle).2 with
      | true =>
        rw [indepLoop_red n nle rows i hil hr]
        exact indepLoop_proc nle n
          (removeRowAt (indepInner (rows.length - nle + 1) rows i nle).1 i) i hi
          (by rw [length_removeRowAt]; omega) (Proc_remove nle _ i i (Nat.le_refl _) p1 p4)
      | false =>
        rw [indepLoop_nred n nle rows i hil hr]
        have hP' : Proc nle (indepInner (rows.length - nle + 1) rows i nle).1 (i + 1) := by
          intro j k hj hji hk hkl hne
          by_cases e : j = i
          · subst e; exact p6 hr k hk hkl hne
          · exact p4 j k hj (by omega) hk hkl hne
        exact indepLoop_proc nle n _ (i + 1) (by omega) (by omega) hP'
    · rw [indepLoop_ge n nle rows i hil]
      exact Proc_mono nle rows i rows.length (by omega) hP

/-- after the independence rule no saturation row from `nle` on is a subset of (or equal to) another. -/
theorem indepLoop_independent (fuel nle : Nat) (rows : List SRow) (hf : rows.length ≤ fuel) :
    ∀ j k, nle ≤ j → j < (indepLoop fuel nle rows nle).length → nle ≤ k →
      k < (indepLoop fuel nle rows nle).length → k ≠ j →
      subsetOrEqual ((indepLoop fuel nle rows nle).getD k default).sat
        ((indepLoop fuel nle rows nle).getD j default).sat = false :=
  indepLoop_proc nle fuel rows nle (Nat.le_refl _) (by omega) (fun j k hj hji => by omega)

/-- the result of `simplify`: the returned rank is at most the number of rows and the rows before it
are equalities. -/
theorem simplify_layout (ncols numColsSat : Nat) (sys : List SRow) :
    (simplify ncols numColsSat sys).2 ≤ (simplify ncols numColsSat sys).1.length ∧
    ∀ i, i < (simplify ncols numColsSat sys).2 →
      ((simplify ncols numColsSat sys).1.getD i default).row.le = true := by
  rw [simplify_eq]
  dsimp only
  have hc := countLeadingLe_spec sys
  obtain ⟨el, eI⟩ := eqDetectLoop_GInv (sys.length - countLeadingLe sys) sys (countLeadingLe sys)
    (countLeadingLe sys) (Nat.le_refl _) (by omega) ⟨hc.1, hc.2⟩
  generalize eqDetectLoop (sys.length - countLeadingLe sys) sys (countLeadingLe sys) (countLeadingLe sys) = e
    at el eI ⊢
  have gK := gauss_keeps ncols e.2 e.1 eI.2 eI.1
  generalize gauss ncols e.2 e.1 = g at gK ⊢
  obtain ⟨pI, pM⟩ := dropPhase_spec e.2 sys.length g.1 g.2 gK.2.1 (by rw [gK.1, el])
  generalize dropPhase e.2 sys.length g.1 g.2 = p at pI pM ⊢
  have sT := satRuleLoop_take p.1.length numColsSat (usub (usub ncols p.2) 1) p.1 p.2 p.2 (Nat.le_refl _)
  generalize satRuleLoop p.1.length numColsSat (usub (usub ncols p.2) 1) p.1 p.2 = s at sT ⊢
  have tT := indepLoop_take s.length p.2 s (Nat.le_refl _)
  generalize indepLoop s.length p.2 s p.2 = t at tT ⊢
  have tI : GInv p.2 t := GInv_of_take p.2 t s tT (GInv_of_take p.2 s p.1 sT pI)
  exact ⟨by rw [backSubstitute_length p.2 t tI.2 tI.1]; exact tI.1, backSubstitute_le p.2 t tI.2 tI.1⟩

end PPLV.Conv
