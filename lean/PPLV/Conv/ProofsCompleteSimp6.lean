import PPLV.Conv.ProofsCompleteSimp5
/-!
# C01 stage 4 — `simplify` drops only redundant rows: the invariant `PhaseInv` up to `gauss`

* the input of `simplify` (rows beside an exact saturation matrix, generators sound): every record is `RowOK`;
* after `eqDetectLoop`: `PhaseInv` (an equality anywhere in the input has an empty saturation row, so it is
  detected: no lines-first layout of the input is needed);
* after `gauss`: `PhaseInv` again (the rows from `nle` on are untouched; the new equalities are satisfied by
  the generators because `gauss` keeps the solution set).
-/
namespace PPLV.Conv
open PPLV.Conv.Abs

/-- the records `simplify` is called on. -/
def zipSys (rows : List LRow) (sat : List BRow) : List SRow :=
  List.zipWith (fun a s => ({ row := a, sat := s } : SRow)) rows sat

theorem zipSys_map_row : ∀ (rows : List LRow) (sat : List BRow), sat.length = rows.length →
    (zipSys rows sat).map (·.row) = rows
  | [], _, _ => by simp [zipSys]
  | r :: rs, [], h => by simp at h
  | r :: rs, b :: bs, h => by
    have ih := zipSys_map_row rs bs (by simpa using h)
    unfold zipSys at ih ⊢
    simp only [List.zipWith_cons_cons, List.map_cons, ih]

theorem zipSys_rowOK (rows : List LRow) (sat : List BRow) (gens : List LRow)
    (hsat : SatCorrect gens rows sat) (hsound : Sound rows gens) :
    ∀ r ∈ zipSys rows sat, RowOK gens r := by
  intro r hr
  obtain ⟨i, hi, rfl⟩ := List.mem_iff_getElem.1 hr
  unfold zipSys at hi ⊢
  rw [List.length_zipWith] at hi
  have hir : i < rows.length := by omega
  have his : i < sat.length := by omega
  rw [List.getElem_zipWith]
  refine ⟨fun j => ?_, fun g hg => hsound g hg rows[i] (List.getElem_mem hir)⟩
  have := hsat.2 i hir j
  have e : sat.getD i [] = sat[i] := by
    rw [List.getD_eq_getElem?_getD, List.getElem?_eq_getElem his]; rfl
  rw [e] at this
  exact this

theorem satisfies_holds (s g : LRow) (h : satisfies s g) : holds s g.v := by
  unfold satisfies at h
  unfold holds
  cases hs : s.le <;> cases hg : g.le <;> simp [hs, hg] at h ⊢ <;> omega

/-- an equality satisfied by the generators has an empty exact saturation row. -/
theorem RowOK.empty_of_le {gens : List LRow} {r : SRow} (h : RowOK gens r) (hle : r.row.le = true) :
    bitsEmpty r.sat = true := by
  rw [bitsEmpty_iff]
  intro j
  by_cases hj : j < gens.length
  · apply (h.1.bit_iff j hj).2
    have := h.2 gens[j] (List.getElem_mem hj)
    unfold satisfies at this
    rwa [hle, Bool.true_or, if_pos rfl] at this
  · cases hb : bit r.sat j
    · rfl
    · exact absurd (h.1.lt_of_bit j hb) hj

theorem sound_of_rowOK (gens : List LRow) (rows : List SRow) (h : ∀ r ∈ rows, RowOK gens r) :
    Sound (rows.map (·.row)) gens := by
  intro g hg s hs
  obtain ⟨s', hs', rfl⟩ := List.mem_map.1 hs
  exact (h s' hs').2 g hg

/-- the result of `eqDetectLoop` on the input of `simplify`. -/
def simpE (sys : List SRow) : List SRow × Nat :=
  eqDetectLoop (sys.length - countLeadingLe sys) sys (countLeadingLe sys) (countLeadingLe sys)

theorem simpE_facts (gens : List LRow) (sys : List SRow) (h : ∀ r ∈ sys, RowOK gens r) :
    (simpE sys).1.length = sys.length ∧ GInv (simpE sys).2 (simpE sys).1 ∧
    (∀ r ∈ (simpE sys).1, RowOK gens r) ∧
    NonEmptyFrom (simpE sys).1 (simpE sys).2 (simpE sys).1.length := by
  have hc := countLeadingLe_spec sys
  obtain ⟨el, eI⟩ := eqDetectLoop_GInv (sys.length - countLeadingLe sys) sys (countLeadingLe sys)
    (countLeadingLe sys) (Nat.le_refl _) (by omega) ⟨hc.1, hc.2⟩
  refine ⟨el, eI, eqDetectLoop_rowOK gens _ sys _ _ h, ?_⟩
  exact eqDetectLoop_nonempty _ sys _ _ (Nat.le_refl _) (by omega) (fun m h1 h2 => by omega)

/-- `PhaseInv` after the detection of the implicit equalities. -/
theorem simpE_phaseInv (ncols : Nat) (gens : List LRow) (sys : List SRow) (h : ∀ r ∈ sys, RowOK gens r)
    (hcomp : ∀ x : Vec, x.length ≤ ncols → holdsAll (sys.map (·.row)) x → Generated gens x) :
    PhaseInv ncols gens (simpE sys).2 (simpE sys).1 := by
  obtain ⟨_, eI, eOK, eNE⟩ := simpE_facts gens sys h
  refine ⟨eI, fun r hr => ?_, sound_of_rowOK gens _ eOK,
    fun x hx hh => hcomp x hx (eqDetectLoop_complete _ sys _ _ x hh)⟩
  obtain ⟨m, hm, hrm⟩ := (mem_drop_iff_getElem? _ _ _).1 hr
  have hml : m < (simpE sys).1.length := (List.getElem?_eq_some_iff.1 hrm).1
  have hne := eNE m hm hml
  rw [getD_of_getElem? _ m r default hrm] at hne
  have hok := eOK r (List.mem_of_mem_drop hr)
  refine ⟨?_, hne, hok.1⟩
  cases hle : r.row.le
  · rfl
  · rw [hok.empty_of_le hle] at hne; cases hne

theorem mem_drop_of_getD_eq (a b : List SRow) (k : Nat) (hlen : a.length = b.length)
    (h : ∀ m, k ≤ m → a.getD m default = b.getD m default) (x : SRow) (hx : x ∈ a.drop k) :
    x ∈ b.drop k := by
  obtain ⟨m, hm, hxm⟩ := (mem_drop_iff_getElem? _ _ _).1 hx
  have hml : m < a.length := (List.getElem?_eq_some_iff.1 hxm).1
  refine (mem_drop_iff_getElem? _ _ _).2 ⟨m, hm, ?_⟩
  rw [getElem?_of_lt_getD b m default (by omega), ← h m hm, getD_of_getElem? a m x default hxm]

/-- `PhaseInv` is kept by `gauss`. -/
theorem gauss_phaseInv (ncols : Nat) (gens : List LRow) (nle : Nat) (rows : List SRow)
    (hI : PhaseInv ncols gens nle rows) :
    PhaseInv ncols gens nle (gauss ncols nle rows).1 := by
  obtain ⟨gl, gI, gU, gS⟩ := gauss_keeps ncols nle rows hI.ginv.2 hI.ginv.1
  have hdrop : ∀ r ∈ (gauss ncols nle rows).1.drop nle, r ∈ rows.drop nle :=
    fun r hr => mem_drop_of_getD_eq _ rows nle gl gU r hr
  refine ⟨gI, fun r hr => hI.ineq r (hdrop r hr), ?_, fun x hx hh => hI.complete x hx
    ((gauss_same_set ncols nle rows hI.ginv.2 hI.ginv.1 x).1 hh)⟩
  intro g hg s hs
  obtain ⟨s', hs', rfl⟩ := List.mem_map.1 hs
  rcases mem_take_or_drop _ nle s' hs' with h1 | h1
  · -- an equality of the new system: the generator is in the solution set
    have hle := gI.le_of_mem_take s' h1
    have hall : holdsAll (rows.map (·.row)) g.v := by
      intro r hr
      exact satisfies_holds r g (hI.sound g hg r hr)
    have hall' := (gauss_same_set ncols nle rows hI.ginv.2 hI.ginv.1 g.v).2 hall
    have := hall' s'.row (List.mem_map.2 ⟨s', hs', rfl⟩)
    unfold holds at this
    rw [if_pos hle] at this
    unfold satisfies
    rw [hle, Bool.true_or, if_pos rfl]
    exact this
  · exact hI.sound g hg s'.row (List.mem_map.2 ⟨s', List.mem_of_mem_drop (hdrop s' h1), rfl⟩)

end PPLV.Conv
