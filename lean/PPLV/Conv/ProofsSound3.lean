import PPLV.Conv.ProofsSound2
import PPLV.Conv.ProofsRay
/-!
# Soundness of `conversion`: the ray case, the step, the loop, the function
-/
namespace PPLV.Conv

theorem keepImage_row (setb : Bool) (newK : Nat) (d : DRow) : (keepImage setb newK d).row = d.row := by
  unfold keepImage; split <;> rfl

/-- a new ray satisfies whatever its two parents satisfy, and saturates the row being processed. -/
theorem newRay_good (srcK : LRow) (P : List LRow) (ri rj : DRow) (sat : BRow)
    (hi : 0 < ri.sp) (hj : rj.sp < 0) (hil : ri.row.le = false) (hjl : rj.row.le = false)
    (hspi : ri.sp = scalarProduct srcK.v ri.row.v) (hspj : rj.sp = scalarProduct srcK.v rj.row.v)
    (hPi : ∀ s ∈ P, satisfies s ri.row) (hPj : ∀ s ∈ P, satisfies s rj.row) :
    (newRay ri rj sat).row.le = false ∧ ∀ s ∈ P ++ [srcK], satisfies s (newRay ri rj sat).row := by
  obtain ⟨g, a, b, hg, ha, hb, hab, hle, _, _, hs⟩ := sp_newRay ri rj sat hi hj hjl
  refine ⟨hle, ?_⟩
  intro s hsm
  rcases List.mem_append.mp hsm with hsP | hsK
  · have e := hs s.v
    have h1 := hPi s hsP
    have h2 := hPj s hsP
    by_cases hsl : s.le = true
    · apply satisfies_of_zero
      rw [satisfies_line_zero s ri.row h1 (Or.inl hsl), satisfies_line_zero s rj.row h2 (Or.inl hsl)] at e
      have : g * scalarProduct s.v (newRay ri rj sat).row.v = 0 := by linarith
      rcases Int.mul_eq_zero.mp this with h | h
      · omega
      · exact h
    · have hsl' : s.le = false := by simpa using hsl
      apply satisfies_ray s _ hsl' hle
      have n1 := satisfies_nonneg s ri.row h1
      have n2 := satisfies_nonneg s rj.row h2
      have : 0 ≤ a * scalarProduct s.v rj.row.v + b * scalarProduct s.v ri.row.v :=
        Int.add_nonneg (Int.mul_nonneg (le_of_lt ha) n2) (Int.mul_nonneg (le_of_lt hb) n1)
      by_contra hneg
      have h3 : scalarProduct s.v (newRay ri rj sat).row.v < 0 := by omega
      have : g * scalarProduct s.v (newRay ri rj sat).row.v < 0 := Int.mul_neg_of_pos_of_neg hg h3
      omega
  · have hsK' : s = srcK := by simpa using hsK
    subst hsK'
    apply satisfies_of_zero
    have e := hs s.v
    rw [← hspi, ← hspj, hab] at e
    rcases Int.mul_eq_zero.mp e.symm with h | h
    · omega
    · exact h

/-- **soundness of the ray case**. -/
theorem rayCase_sound (ncols : Nat) (srcK : LRow) (newK : Nat) (P : List LRow) (st : CState) (H : StepHyp srcK st P)
    (hz : ∀ d ∈ st.rows.take st.nle, d.sp = 0) :
    let st' := rayCase ncols srcK newK st
    (∀ d ∈ st'.rows, ∀ s ∈ P ++ [srcK], satisfies s d.row) ∧
    (∀ m d, st'.rows[m]? = some d → d.row.le = decide (m < st'.nle)) ∧ st'.nle ≤ st'.rows.length := by
  intro st'
  obtain ⟨hnle, _, _, tail, hrows, hmem, _⟩ := rayCase_rows ncols srcK newK st H.hn hz
  -- records of `drop nle` are old non-line records
  have hdrop : ∀ d ∈ st.rows.drop st.nle, d ∈ st.rows ∧ d.row.le = false := by
    intro d hd
    obtain ⟨m, hm, hdm⟩ := (mem_drop_iff_getElem? _ _ _).mp hd
    refine ⟨mem_of_getElem? hdm, ?_⟩
    rw [H.hl m d hdm]; simp; omega
  -- every record of the tail is good and is not a line
  have htail : ∀ d' ∈ tail, d'.row.le = false ∧ ∀ s ∈ P ++ [srcK], satisfies s d'.row := by
    intro d' hd'
    rcases hmem d' hd' with ⟨d, hd, hsurv, he⟩ | ⟨ri, hri, rj, hrj, hi, hj, he⟩
    · obtain ⟨hdm, hdl⟩ := hdrop d hd
      rw [he, keepImage_row]
      refine ⟨hdl, ?_⟩
      intro s hs
      rcases List.mem_append.mp hs with h | h
      · exact H.hP d hdm s h
      · have : s = srcK := by simpa using h
        subst this
        unfold survives at hsurv
        by_cases hk : s.le = true
        · simp only [hk, if_true] at hsurv
          apply satisfies_of_zero
          rw [← H.hsp d hdm]; exact hsurv
        · have hk' : s.le = false := by simpa using hk
          simp only [hk', Bool.false_eq_true, if_false] at hsurv
          apply satisfies_ray s d.row hk' hdl
          rw [← H.hsp d hdm]; exact hsurv
    · obtain ⟨him, hil⟩ := hdrop ri hri
      obtain ⟨hjm, hjl⟩ := hdrop rj hrj
      rw [he]
      exact newRay_good srcK P ri rj _ hi hj hil hjl (H.hsp ri him) (H.hsp rj hjm) (H.hP ri him) (H.hP rj hjm)
  have hlenTake : (st.rows.take st.nle).length = st.nle := by
    rw [List.length_take]; exact Nat.min_eq_left H.hn
  refine ⟨?_, ?_, ?_⟩
  · intro d hd s hs
    rw [hrows] at hd
    rcases List.mem_append.mp hd with h | h
    · have hdm := List.mem_of_mem_take h
      rcases List.mem_append.mp hs with h2 | h2
      · exact H.hP d hdm s h2
      · have : s = srcK := by simpa using h2
        subst this
        apply satisfies_of_zero
        rw [← H.hsp d hdm]; exact hz d h
    · exact (htail d h).2 s hs
  · intro m d hm
    rw [hrows] at hm
    rw [hnle]
    by_cases hlt : m < st.nle
    · rw [List.getElem?_append_left (by rw [hlenTake]; exact hlt), List.getElem?_take] at hm
      simp only [hlt, if_true] at hm
      exact H.hl m d hm
    · rw [List.getElem?_append_right (by rw [hlenTake]; omega)] at hm
      have := (htail d (mem_of_getElem? hm)).1
      rw [this]; simp [hlt]
  · rw [hrows, hnle, List.length_append, hlenTake]; omega

/-- **one iteration of the main loop keeps the invariant of the C++ comments**: every generator
satisfies every constraint processed so far, and the first `num_lines_or_equalities` rows are the lines. -/
theorem conversionStep_sound (ncols : Nat) (srcK : LRow) (st : CState) (P : List LRow)
    (h : ∀ d ∈ st.rows, ∀ s ∈ P, satisfies s d.row)
    (hl : ∀ m d, st.rows[m]? = some d → d.row.le = decide (m < st.nle)) (hn : st.nle ≤ st.rows.length) :
    let st' := conversionStep ncols srcK st
    (∀ d ∈ st'.rows, ∀ s ∈ P ++ [srcK], satisfies s d.row) ∧
    (∀ m d, st'.rows[m]? = some d → d.row.le = decide (m < st'.nle)) ∧ st'.nle ≤ st'.rows.length := by
  intro st'
  let rows1 := st.rows.map fun d => { d with sp := scalarProduct srcK.v d.row.v }
  let st1 : CState := { st with rows := rows1 }
  have H : StepHyp srcK st1 P := by
    refine ⟨?_, ?_, ?_, ?_⟩
    · intro d hd
      obtain ⟨d0, _, rfl⟩ := List.mem_map.mp hd
      rfl
    · intro d hd s hs
      obtain ⟨d0, hd0, rfl⟩ := List.mem_map.mp hd
      exact h d0 hd0 s hs
    · intro m d hm
      show d.row.le = decide (m < st.nle)
      simp only [st1, rows1, List.getElem?_map] at hm
      match hq : st.rows[m]? with
      | none => rw [hq] at hm; simp at hm
      | some d0 =>
        rw [hq] at hm
        simp only [Option.map_some, Option.some.injEq] at hm
        rw [← hm]; exact hl m d0 hq
    · show st.nle ≤ rows1.length
      simp only [rows1, List.length_map]; exact hn
  have hbefore : ∀ m d, m < indexNonZero rows1 → st1.rows[m]? = some d → d.sp = 0 :=
    fun m d hm hd => indexNonZero_before rows1 m d hm hd
  by_cases hc : indexNonZero rows1 < st.nle
  · have e : st' = lineCase srcK (st.k - st.redundant.length) st1 (indexNonZero rows1) := by
      show (if indexNonZero rows1 < st.nle then lineCase srcK (st.k - st.redundant.length) st1 (indexNonZero rows1)
            else rayCase ncols srcK (st.k - st.redundant.length) st1) = _
      rw [if_pos hc]
    rw [e]
    have hlt : indexNonZero rows1 < rows1.length := by
      have : st.nle ≤ rows1.length := H.hn
      omega
    exact lineCase_sound srcK _ P st1 _ H hc hbefore (indexNonZero_at rows1 hlt)
  · have e : st' = rayCase ncols srcK (st.k - st.redundant.length) st1 := by
      show (if indexNonZero rows1 < st.nle then lineCase srcK (st.k - st.redundant.length) st1 (indexNonZero rows1)
            else rayCase ncols srcK (st.k - st.redundant.length) st1) = _
      rw [if_neg hc]
    rw [e]
    apply rayCase_sound ncols srcK _ P st1 H
    intro d hd
    obtain ⟨m, hm⟩ := List.mem_iff_getElem?.mp hd
    rw [List.getElem?_take] at hm
    by_cases hlt : m < st1.nle
    · simp only [hlt, if_true] at hm
      have : m < indexNonZero rows1 := by
        have : st1.nle = st.nle := rfl
        omega
      exact hbefore m d this hm
    · simp [hlt] at hm

/-- the main loop. -/
theorem conversionLoop_sound (ncols : Nat) (rest : List LRow) (st : CState) (P : List LRow)
    (h : ∀ d ∈ st.rows, ∀ s ∈ P, satisfies s d.row)
    (hl : ∀ m d, st.rows[m]? = some d → d.row.le = decide (m < st.nle)) (hn : st.nle ≤ st.rows.length) :
    let st' := conversionLoop ncols rest st
    (∀ d ∈ st'.rows, ∀ s ∈ P ++ rest, satisfies s d.row) ∧
    (∀ m d, st'.rows[m]? = some d → d.row.le = decide (m < st'.nle)) ∧ st'.nle ≤ st'.rows.length := by
  induction rest generalizing st P with
  | nil =>
    simp only [conversionLoop, List.append_nil]
    exact ⟨h, hl, hn⟩
  | cons s rest ih =>
    obtain ⟨h1, h2, h3⟩ := conversionStep_sound ncols s st P h hl hn
    have := ih { conversionStep ncols s st with k := st.k + 1 } (P ++ [s]) h1 h2 h3
    simp only [conversionLoop]
    rw [show P ++ s :: rest = (P ++ [s]) ++ rest by simp]
    exact this

theorem initRows_row (dest : List LRow) (sat : List BRow) (hlen : sat.length = dest.length) :
    (initRows dest sat).map (·.row) = dest := by
  induction dest generalizing sat with
  | nil => simp [initRows]
  | cons d ds ih =>
    cases sat with
    | nil => simp at hlen
    | cons s ss =>
      simp only [initRows, List.zipWith_cons_cons, List.map_cons]
      congr 1
      exact ih ss (by simpa using hlen)

/-- **`conversion` is sound**: if the generators given satisfy the constraints already processed
(`source[0, start)`) and the first `nle` of them are the lines, then every generator returned satisfies
EVERY row of `source` (`≥ 0`; `= 0` for equalities and for lines), including the rows `conversion`
removes as redundant, and the first `num_lines_or_equalities` returned rows are exactly the lines. -/
theorem conversion_sound' (ncols : Nat) (source : List LRow) (start : Nat) (dest : List LRow) (sat : List BRow)
    (nle : Nat) (h0 : Sound (source.take start) dest) (hl : LinesFirst dest nle) (hn : nle ≤ dest.length)
    (hlen : sat.length = dest.length) :
    Sound source (conversion ncols source start dest sat nle).dest ∧
    LinesFirst (conversion ncols source start dest sat nle).dest (conversion ncols source start dest sat nle).nle := by
  have hrow := initRows_row dest sat hlen
  let st0 : CState := { rows := initRows dest sat, nle := nle, k := start, redundant := [] }
  have hmem : ∀ d ∈ st0.rows, d.row ∈ dest := by
    intro d hd
    rw [← hrow]; exact List.mem_map_of_mem hd
  have hl0 : ∀ m d, st0.rows[m]? = some d → d.row.le = decide (m < st0.nle) := by
    have : LinesFirst (st0.rows.map (·.row)) nle := by show LinesFirst ((initRows dest sat).map (·.row)) nle; rw [hrow]; exact hl
    exact (linesFirst_iff st0.rows nle).mp this
  have hn0 : st0.nle ≤ st0.rows.length := by
    show nle ≤ (initRows dest sat).length
    have : (initRows dest sat).length = dest.length := by
      have := congrArg List.length hrow
      simpa using this
    omega
  obtain ⟨h1, h2, _⟩ := conversionLoop_sound ncols (source.drop start) st0 (source.take start)
    (fun d hd s hs => h0 d.row (hmem d hd) s hs) hl0 hn0
  rw [List.take_append_drop] at h1
  constructor
  · intro d hd s hs
    obtain ⟨d0, hd0, rfl⟩ := List.mem_map.mp hd
    exact h1 d0 hd0 s hs
  · exact (linesFirst_iff _ _).mpr h2

end PPLV.Conv
