/-!
# C01 stage 3 — the double-description engine of `Polyhedron`, code-shaped: rows and `conversion`

Executable model (no Mathlib; linked into the native driver `pplv_conv`) of

* `Polyhedron::conversion(source, start, dest, sat, num_lines_or_equalities)`
  (`src/Polyhedron_conversion_templates.hh:367-1022`),
* the row operations it uses: `Scalar_Products::assign`, `Linear_Expression::linear_combine(y, c1, c2)`
  (`src/Linear_Expression_Impl_templates.hh:124`), `normalize2` (`src/math_utilities_inlines.hh:34`),
  `Dense_Row::normalize` (`src/Dense_Row.cc:396`), `Linear_Expression_Impl::sign_normalize`
  (`src/Linear_Expression_Impl_templates.hh:696`), `Constraint/Generator::strong_normalize`,
* the `Bit_Row` operations (`set`, union, `count_ones`, `subset_or_equal`).

Conventions.

* A row (`LRow`) is the whole coefficient vector of a `Constraint` / `Generator` — column 0 is the
  inhomogeneous term / divisor, the last column of an NNC system is the epsilon coefficient, which
  `conversion` treats like any other column — plus the kind bit `le` (`is_line_or_equality()`).
* The parallel arrays `dest.sys.rows[i]`, `scalar_prod[i]`, `sat[i]` (and `sat_num_ones[i]`, which the
  code keeps equal to `sat[i].count_ones()`: the assertion at :428) are ONE list of records `DRow`;
  where the code swaps only some of the arrays (:501-504) the model does the same (`swapRowSp`).
  The rows of `sat` / `recyclable_dest_rows` beyond `dest_num_rows` are garbage the code never reads
  again before overwriting (:850-856) or dropping (:995): they are not represented.
* `dimension_type` subtraction is unsigned 64-bit (`usub`), as in the quick non-adjacency test
  (:755-796).
* NOT modelled: the `sorted` flags and the pending-row index of the two systems (:985-1018;
  they are ghost inputs of the status-protocol model `PPLV/PolyStatus`), `maybe_abandon`, `WEIGHT_*`.
-/
namespace PPLV.Conv

abbrev Vec := List Int
abbrev BRow := List Bool

/-! ## unsigned arithmetic -/

/-- `a - b` on `dimension_type` (`size_t`, 64 bit). -/
def usub (a b : Nat) : Nat := (a % 2^64 + 2^64 - b % 2^64) % 2^64

/-! ## coefficient rows -/

/-- `Scalar_Products::assign(z, x, y)`: sum of the products, column by column. -/
def scalarProduct : Vec → Vec → Int
  | a :: as, b :: bs => a * b + scalarProduct as bs
  | _, _ => 0

/-- `x.linear_combine(y, c1, c2)`: `x := c1*x + c2*y` on every column (a shorter row is padded with 0). -/
def linearCombine (c1 c2 : Int) : Vec → Vec → Vec
  | [], ys => ys.map (c2 * ·)
  | x :: xs, [] => (x :: xs).map (c1 * ·)
  | x :: xs, y :: ys => (c1 * x + c2 * y) :: linearCombine c1 c2 xs ys

/-- gcd of all the coefficients (0 for the zero row). -/
def gcdVec : Vec → Nat
  | [] => 0
  | x :: xs => Nat.gcd x.natAbs (gcdVec xs)

/-- `Dense_Row::normalize()`: divide by the gcd of all coefficients (`Dense_Row.cc:396-445`). -/
def normalize (v : Vec) : Vec :=
  let g := gcdVec v
  if g == 0 || g == 1 then v else v.map (· / (g : Int))

/-- first non-zero element (0 if none). -/
def firstNonzero : Vec → Int
  | [] => 0
  | x :: xs => if x != 0 then x else firstNonzero xs

/-- `Linear_Expression_Impl::sign_normalize()` (:696-717): if the first non-zero coefficient of index ≥ 1
is negative, negate it, everything after it, and column 0.  The columns between 1 and that coefficient
are zero, so this is the negation of the whole row. -/
def signNormalize (v : Vec) : Vec :=
  if firstNonzero (v.drop 1) < 0 then v.map (- ·) else v

/-- `normalize2(x, y, nx, ny)`: both divided by their gcd (`math_utilities_inlines.hh:34-41`). -/
def normalize2 (x y : Int) : Int × Int :=
  let g : Int := (Int.gcd x y : Nat)
  (x / g, y / g)

/-- a `Constraint` / `Generator` seen as a `Linear_System` row. -/
structure LRow where
  le : Bool        -- is_line_or_equality()
  v : Vec
deriving Repr, DecidableEq, Inhabited

/-- `Constraint::strong_normalize()` / `Generator::strong_normalize()`:
`expr.normalize(); sign_normalize();` — the latter only acts on lines / equalities
(`Constraint.cc:252`, `Generator.cc:295`). -/
def strongNormalize (r : LRow) : LRow :=
  let v := normalize r.v
  { r with v := if r.le then signNormalize v else v }

/-- `Constraint::sign_normalize()` / `Generator::sign_normalize()`. -/
def rowSignNormalize (r : LRow) : LRow :=
  { r with v := if r.le then signNormalize r.v else r.v }

/-- `x.linear_combine(y, j)` of `Constraint` / `Generator` (`Constraint.cc:189`, `Generator.cc:207`):
`normalize2(x[j], y[j], nx, ny); neg(nx); x := ny*x + nx*y; strong_normalize()`
(`Linear_Expression_Impl_templates.hh:101-119`). -/
def rowLinearCombine (x y : LRow) (j : Nat) : LRow :=
  let (nx, ny) := normalize2 (x.v.getD j 0) (y.v.getD j 0)
  strongNormalize { x with v := linearCombine ny (-nx) x.v y.v }

/-! ## bit rows -/

/-- `Bit_Row::set(j)`. -/
def setBit : BRow → Nat → BRow
  | [], 0 => [true]
  | [], j + 1 => false :: setBit [] j
  | _ :: xs, 0 => true :: xs
  | x :: xs, j + 1 => x :: setBit xs j

/-- `Bit_Row(x, y)`: the union. -/
def bor : BRow → BRow → BRow
  | [], ys => ys
  | x :: xs, [] => x :: xs
  | x :: xs, y :: ys => (x || y) :: bor xs ys

/-- `count_ones()`. -/
def countOnes (x : BRow) : Nat := x.count true

/-- `Bit_Row::empty()`. -/
def bitsEmpty (x : BRow) : Bool := x.all (! ·)

/-- `subset_or_equal(x, y)`. -/
def subsetOrEqual : BRow → BRow → Bool
  | [], _ => true
  | x :: xs, [] => !x && subsetOrEqual xs []
  | x :: xs, y :: ys => (!x || y) && subsetOrEqual xs ys

/-- the bit `j` (false beyond the end). -/
def bit (x : BRow) (j : Nat) : Bool := x.getD j false

/-! ## the parallel arrays of `conversion` -/

/-- `dest.sys.rows[i]`, `scalar_prod[i]`, `sat[i]`. -/
structure DRow where
  row : LRow
  sp : Int
  sat : BRow
deriving Repr, DecidableEq, Inhabited

/-- `swap(a[i], a[j])` (nothing if an index is out of range). -/
def swapAt {α : Type} (l : List α) (i j : Nat) : List α :=
  match l[i]?, l[j]? with
  | some a, some b => (l.set i b).set j a
  | _, _ => l

/-- :501-504 — `swap(dest.sys.rows[i], dest.sys.rows[j]); swap(scalar_prod[i], scalar_prod[j]);`
the rows of `sat` stay where they are. -/
def swapRowSp (l : List DRow) (i j : Nat) : List DRow :=
  match l[i]?, l[j]? with
  | some a, some b => (l.set i { b with sat := a.sat }).set j { a with sat := b.sat }
  | _, _ => l

/-- the loop state of `conversion`. -/
structure CState where
  rows : List DRow            -- indexes `[0, dest_num_rows)`
  nle : Nat                   -- num_lines_or_equalities
  k : Nat                     -- index of the source row being processed
  redundant : List Nat        -- redundant_source_rows
deriving Repr, Inhabited

/-- :540-551 / :578-590 — combine `dest_i` with `dest_nle` so that it saturates `source_k`:
`normalize2(sp[i], sp_nle, n_i, n_o); neg(n_i); dest_i := n_o*dest_i + n_i*dest_nle;
 strong_normalize(); sp[i] = 0`. -/
def combineWithNle (dnle d : DRow) : DRow :=
  let (nI, nO) := normalize2 d.sp dnle.sp
  { d with row := strongNormalize { d.row with v := linearCombine nO (-nI) d.row.v dnle.row.v }, sp := 0 }

/-- :478-633 — the generator `index_non_zero` that does not saturate `source_k` is a line. -/
def lineCase (srcK : LRow) (newK : Nat) (st : CState) (inz : Nat) : CState :=
  let rows := st.rows
  -- :483-494  the line becomes a ray lying on the right side
  let r := rows.getD inz default
  let r1 : DRow :=
    if r.sp < 0 then { row := { le := false, v := r.row.v.map (- ·) }, sp := - r.sp, sat := r.sat }
    else { r with row := { r.row with le := false } }
  let rows := rows.set inz r1
  -- :499-505
  let nle := st.nle - 1
  let rows := if inz != nle then swapRowSp rows inz nle else rows
  let dnle := rows.getD nle default
  -- :525-554 (the remaining lines) and :563-598 (the rays)
  let rows := rows.mapIdx fun i d =>
    if ((inz ≤ i ∧ i < nle) ∨ nle + 1 ≤ i) ∧ d.sp ≠ 0 then combineWithNle dnle d else d
  if !srcK.le then
    -- :604-609  `sat_nle.set(k - redundant_source_rows.size())`
    { st with rows := rows.modify nle (fun d => { d with sat := setBit d.sat newK }), nle := nle }
  else
    -- :610-629  the equality is violated by `dest_nle`: remove it (swap with the last row, pop)
    { st with rows := (swapAt rows nle (rows.length - 1)).dropLast, nle := nle }

/-- :653-656. -/
def skipSaturators : List DRow → Nat → Nat
  | [], leb => leb
  | d :: ds, leb => if d.sp == 0 then skipSaturators ds (leb + 1) else leb

/-- :658-687 — the three-way partition Q= / Q+ / Q-; the fuel is `inf_bound - sup_bound`, which every
iteration decreases by exactly one.  Returns the rows, `lines_or_equal_bound`, `sup_bound`. -/
def partitionLoop : Nat → List DRow → Nat → Nat → Nat → List DRow × Nat × Nat
  | 0, rows, leb, sup, _ => (rows, leb, sup)
  | n + 1, rows, leb, sup, inf =>
    let s := (rows.getD sup default).sp
    if s == 0 then partitionLoop n (swapAt rows sup leb) (leb + 1) (sup + 1) inf
    else if s < 0 then partitionLoop n (swapAt rows sup (inf - 1)) leb sup (inf - 1)
    else partitionLoop n rows leb (sup + 1) inf

/-- :871-886 — the new ray: `normalize2(sp[i], sp[j], n_i, n_o); neg(n_o); new := dest[j];
new := n_i*new + n_o*dest[i]; strong_normalize()`; its scalar product is 0 (:895-900). -/
def newRay (ri rj : DRow) (newSat : BRow) : DRow :=
  let (nI, nO) := normalize2 ri.sp rj.sp
  { row := strongNormalize { rj.row with v := linearCombine nI (-nO) rj.row.v ri.row.v }, sp := 0, sat := newSat }

/-- :766-835 — is the pair (`i` in Q+, `j` in Q-) adjacent?  Quick non-adjacency test, quick adjacency
test, full combinatorial test. Returns the saturation row of the new ray when they are. -/
def adjacent (ncols nle newK bound : Nat) (rows : List DRow) (i j : Nat) : Option BRow :=
  let ri := rows.getD i default
  let rj := rows.getD j default
  let newSatrow := bor ri.sat rj.sat                              -- :780
  let newSatrowOnes := countOnes newSatrow                        -- :790
  let minSaturators := usub (usub ncols nle) 2                    -- :755-756
  let maxSaturators := newK                                       -- :758
  let numCommonSatur := usub maxSaturators newSatrowOnes          -- :794-795
  if numCommonSatur < minSaturators then none                     -- :796-799
  else if max (countOnes ri.sat) (countOnes rj.sat) + 1 == newSatrowOnes then some newSatrow   -- :808-813
  else if (List.range' nle (bound - nle)).any
            (fun l => l != i && l != j && subsetOrEqual (rows.getD l default).sat newSatrow)  -- :820-828
       then none
       else some newSatrow

/-- :764-910 — the new rays, in the order the two nested loops append them. -/
def newRays (ncols nle newK leb sup bound : Nat) (rows : List DRow) : List DRow :=
  (List.range' leb (sup - leb)).flatMap fun i =>
    (List.range' sup (bound - sup)).filterMap fun j =>
      match adjacent ncols nle newK bound rows i j with
      | none => none
      | some s => some (newRay (rows.getD i default) (rows.getD j default) s)

/-- :941-952 — swap the newly added rays (from the end downwards) with the violating generators
(from `j` upwards); the number of iterations is `min (bound - j) (dest_num_rows - bound)`. -/
def swapLoop : Nat → List DRow → Nat → Nat → List DRow
  | 0, rows, _, _ => rows
  | n + 1, rows, i, j => swapLoop n (swapAt rows (i - 1) j) (i - 1) (j + 1)

/-- :635-968 — all the lines saturate `source_k`. -/
def rayCase (ncols : Nat) (srcK : LRow) (newK : Nat) (st : CState) : CState :=
  let nle := st.nle
  let destNumRows := st.rows.length
  -- :649-656
  let leb0 := skipSaturators (st.rows.drop nle) nle
  -- :657-687
  let (rows, leb, sup) := partitionLoop (destNumRows - leb0) st.rows leb0 leb0 destNumRows
  if sup == destNumRows then
    -- :689-714  Q- is empty
    if !srcK.le then { st with rows := rows, redundant := st.redundant ++ [st.k] }
    else { st with rows := rows.take leb }
  else if sup == nle then
    -- :718-733  Q+ (and Q=) empty: drop Q-
    { st with rows := rows.take sup }
  else
    let bound := destNumRows                                         -- :744
    let rows := rows ++ newRays ncols nle newK leb sup bound rows    -- :764-910
    -- :913-936
    let (j0, rows) :=
      if !srcK.le then
        (sup, rows.mapIdx fun l d => if leb ≤ l ∧ l < sup then { d with sat := setBit d.sat newK } else d)
      else (leb, rows)
    -- :941-952
    let cnt := min (bound - j0) (rows.length - bound)
    let rows' := swapLoop cnt rows rows.length j0
    let i := rows.length - cnt
    let j := j0 + cnt
    -- :960-967
    let newNumRows := if j == bound then i else j
    { st with rows := rows'.take newNumRows }

/-- :445-460 — the first generator that does not saturate `source_k`. -/
def indexNonZero : List DRow → Nat
  | [] => 0
  | d :: ds => if d.sp != 0 then 0 else indexNonZero ds + 1

/-- one iteration of the main loop (:422-969) on `source[k]`. -/
def conversionStep (ncols : Nat) (srcK : LRow) (st : CState) : CState :=
  -- :437-469
  let rows := st.rows.map fun d => { d with sp := scalarProduct srcK.v d.row.v }
  let st := { st with rows := rows }
  let inz := indexNonZero rows
  let newK := st.k - st.redundant.length
  if inz < st.nle then lineCase srcK newK st inz
  else rayCase ncols srcK newK st

/-- the main loop over `source[start..]`. -/
def conversionLoop (ncols : Nat) : List LRow → CState → CState
  | [], st => st
  | s :: rest, st => conversionLoop ncols rest { conversionStep ncols s st with k := st.k + 1 }

/-- `Linear_System::remove_rows(indexes)` (`Linear_System_inlines.hh:560-640`): order preserving. -/
def removeRows {α : Type} (l : List α) (idx : List Nat) : List α :=
  (l.zipIdx.filter fun p => !idx.contains p.2).map (·.1)

structure ConvResult where
  source : List LRow
  dest : List LRow
  sat : List BRow
  nle : Nat
deriving Repr, DecidableEq, Inhabited

/-- initial state: `sat[i]` beside `dest[i]`. -/
def initRows (dest : List LRow) (sat : List BRow) : List DRow :=
  List.zipWith (fun r s => { row := r, sp := 0, sat := s }) dest sat

/-- `Polyhedron::conversion(source, start, dest, sat, num_lines_or_equalities)`;
`ncols = source_num_columns` (:382). -/
def conversion (ncols : Nat) (source : List LRow) (start : Nat) (dest : List LRow) (sat : List BRow)
    (nle : Nat) : ConvResult :=
  let st := conversionLoop ncols (source.drop start)
              { rows := initRows dest sat, nle := nle, k := start, redundant := [] }
  -- :973-976, :993-996
  let satCols := source.length - st.redundant.length
  { source := removeRows source st.redundant,
    dest := st.rows.map (·.row),
    sat := st.rows.map (fun d => d.sat.take satCols),
    nle := st.nle }

end PPLV.Conv
