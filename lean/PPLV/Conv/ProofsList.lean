import PPLV.Conv.Spec
import Mathlib.Data.List.Perm.Basic
import Mathlib.Tactic.Linarith
/-!
# C01 stage 3 — list lemmas for `rayCase`: `swapAt`, `partitionLoop`, `skipSaturators`, `swapLoop`
-/
namespace PPLV.Conv

/-! ## `swapAt` -/

theorem swapAt_of_lt {α} (l : List α) (i j : Nat) (hi : i < l.length) (hj : j < l.length) :
    swapAt l i j = (l.set i l[j]).set j l[i] := by
  unfold swapAt
  rw [List.getElem?_eq_getElem hi, List.getElem?_eq_getElem hj]

theorem swapAt_of_not_lt {α} (l : List α) (i j : Nat) (h : ¬ (i < l.length ∧ j < l.length)) :
    swapAt l i j = l := by
  unfold swapAt
  split
  · rename_i a b ha hb
    exact absurd ⟨(List.getElem?_eq_some_iff.1 ha).1, (List.getElem?_eq_some_iff.1 hb).1⟩ h
  · rfl

theorem length_swapAt {α} (l : List α) (i j : Nat) : (swapAt l i j).length = l.length := by
  unfold swapAt
  split <;> simp

theorem getElem?_swapAt {α} (l : List α) (i j m : Nat) (hi : i < l.length) (hj : j < l.length) :
    (swapAt l i j)[m]? = if m = j then l[i]? else if m = i then l[j]? else l[m]? := by
  rw [swapAt_of_lt l i j hi hj]
  simp only [List.getElem?_set, List.length_set]
  by_cases h1 : j = m
  · subst h1; simp [hj]
  · by_cases h2 : i = m
    · subst h2; simp [h1, hi, Ne.symm h1]
    · simp [h1, h2, Ne.symm h1, Ne.symm h2]

theorem getD_swapAt {α} (l : List α) (i j m : Nat) (hi : i < l.length) (hj : j < l.length) (d : α) :
    (swapAt l i j).getD m d = if m = j then l.getD i d else if m = i then l.getD j d else l.getD m d := by
  simp only [List.getD_eq_getElem?_getD, getElem?_swapAt l i j m hi hj]
  split
  · rfl
  · split <;> rfl

theorem swapAt_cons_succ {α} (x : α) (xs : List α) (i j : Nat) :
    swapAt (x :: xs) (i + 1) (j + 1) = x :: swapAt xs i j := by
  unfold swapAt
  simp only [List.getElem?_cons_succ]
  split <;> simp_all

theorem perm_cons_set {α} (x b : α) : ∀ (xs : List α) (j : Nat), xs[j]? = some b →
    (b :: xs.set j x).Perm (x :: xs)
  | [], j, h => by simp at h
  | y :: ys, 0, h => by
    simp only [List.getElem?_cons_zero, Option.some.injEq] at h
    subst h
    simpa using List.Perm.swap x y ys
  | y :: ys, j + 1, h => by
    simp only [List.getElem?_cons_succ] at h
    have ih := perm_cons_set x b ys j h
    simp only [List.set_cons_succ]
    exact ((List.Perm.swap y b _).trans (ih.cons y)).trans (List.Perm.swap x y ys)

theorem swapAt_perm {α} : ∀ (l : List α) (i j : Nat), (swapAt l i j).Perm l
  | [], i, j => by simp [swapAt]
  | x :: xs, 0, 0 => by simp [swapAt]
  | x :: xs, 0, j + 1 => by
    by_cases hj : j < xs.length
    · rw [swapAt_of_lt _ _ _ (by simp) (by simpa using hj)]
      simp only [List.getElem_cons_succ, List.set_cons_zero, List.set_cons_succ, List.getElem_cons_zero]
      exact perm_cons_set x xs[j] xs j (List.getElem?_eq_getElem hj)
    · rw [swapAt_of_not_lt]
      simp; omega
  | x :: xs, i + 1, 0 => by
    by_cases hi : i < xs.length
    · rw [swapAt_of_lt _ _ _ (by simpa using hi) (by simp)]
      simp only [List.getElem_cons_succ, List.set_cons_zero, List.set_cons_succ, List.getElem_cons_zero]
      exact perm_cons_set x xs[i] xs i (List.getElem?_eq_getElem hi)
    · rw [swapAt_of_not_lt]
      simp; omega
  | x :: xs, i + 1, j + 1 => by
    rw [swapAt_cons_succ]
    exact (swapAt_perm xs i j).cons x

theorem mem_swapAt {α} (l : List α) (i j : Nat) (x : α) : x ∈ swapAt l i j ↔ x ∈ l :=
  (swapAt_perm l i j).mem_iff

/-- a swap above `lo` leaves `take lo` alone and is a swap of `drop lo`. -/
theorem swapAt_take_drop {α} : ∀ (lo : Nat) (l : List α) (i j : Nat), lo ≤ i → lo ≤ j →
    (swapAt l i j).take lo = l.take lo ∧ (swapAt l i j).drop lo = swapAt (l.drop lo) (i - lo) (j - lo)
  | 0, l, i, j, _, _ => by simp
  | lo + 1, [], i, j, _, _ => by simp [swapAt]
  | lo + 1, x :: xs, i, j, hi, hj => by
    obtain ⟨i, rfl⟩ : ∃ i', i = i' + 1 := ⟨i - 1, by omega⟩
    obtain ⟨j, rfl⟩ : ∃ j', j = j' + 1 := ⟨j - 1, by omega⟩
    have ih := swapAt_take_drop lo xs i j (by omega) (by omega)
    rw [swapAt_cons_succ]
    simp only [List.take_succ_cons, List.drop_succ_cons, Nat.add_sub_add_right]
    exact ⟨by rw [ih.1], ih.2⟩

theorem swapAt_take {α} (lo : Nat) (l : List α) (i j : Nat) (hi : lo ≤ i) (hj : lo ≤ j) :
    (swapAt l i j).take lo = l.take lo := (swapAt_take_drop lo l i j hi hj).1

theorem swapAt_drop_perm {α} (lo : Nat) (l : List α) (i j : Nat) (hi : lo ≤ i) (hj : lo ≤ j) :
    ((swapAt l i j).drop lo).Perm (l.drop lo) := by
  rw [(swapAt_take_drop lo l i j hi hj).2]
  exact swapAt_perm _ _ _

/-! ## `skipSaturators` -/

theorem skipSaturators_spec : ∀ (ds : List DRow) (leb : Nat),
    leb ≤ skipSaturators ds leb ∧ skipSaturators ds leb ≤ leb + ds.length ∧
    ∀ m, m < skipSaturators ds leb - leb → (ds.getD m default).sp = 0
  | [], leb => by simp [skipSaturators]
  | d :: ds, leb => by
    unfold skipSaturators
    split
    · rename_i h
      have ih := skipSaturators_spec ds (leb + 1)
      refine ⟨by omega, by simp only [List.length_cons]; omega, ?_⟩
      intro m hm
      cases m with
      | zero => simpa using h
      | succ m =>
        simp only [List.getD_cons_succ]
        exact ih.2.2 m (by omega)
    · simp

/-! ## `partitionLoop` -/

/-- the three regions of the partition, from `lo` on. -/
def Regions (rows : List DRow) (lo leb sup inf : Nat) : Prop :=
  (∀ m, lo ≤ m → m < leb → (rows.getD m default).sp = 0) ∧
  (∀ m, leb ≤ m → m < sup → 0 < (rows.getD m default).sp) ∧
  (∀ m, inf ≤ m → m < rows.length → (rows.getD m default).sp < 0)

theorem partitionLoop_spec (lo : Nat) : ∀ (n : Nat) (rows : List DRow) (leb sup inf : Nat),
    n = inf - sup → lo ≤ leb → leb ≤ sup → sup ≤ inf → inf ≤ rows.length →
    Regions rows lo leb sup inf →
    (partitionLoop n rows leb sup inf).1.length = rows.length ∧
    (partitionLoop n rows leb sup inf).1.take lo = rows.take lo ∧
    ((partitionLoop n rows leb sup inf).1.drop lo).Perm (rows.drop lo) ∧
    lo ≤ (partitionLoop n rows leb sup inf).2.1 ∧
    (partitionLoop n rows leb sup inf).2.1 ≤ (partitionLoop n rows leb sup inf).2.2 ∧
    (partitionLoop n rows leb sup inf).2.2 ≤ rows.length ∧
    Regions (partitionLoop n rows leb sup inf).1 lo (partitionLoop n rows leb sup inf).2.1
      (partitionLoop n rows leb sup inf).2.2 (partitionLoop n rows leb sup inf).2.2
  | 0, rows, leb, sup, inf, hn, h1, h2, h3, h4, hr => by
    have : inf = sup := by omega
    subst this
    unfold partitionLoop
    exact ⟨rfl, rfl, List.Perm.refl _, h1, h2, h4, hr⟩
  | n + 1, rows, leb, sup, inf, hn, h1, h2, h3, h4, hr => by
    obtain ⟨hz, hp, hg⟩ := hr
    have hsup : sup < rows.length := by omega
    have hleb : leb < rows.length := by omega
    have hinf : inf - 1 < rows.length := by omega
    unfold partitionLoop
    simp only [beq_iff_eq]
    split
    · rename_i hs
      have ih := partitionLoop_spec lo n (swapAt rows sup leb) (leb + 1) (sup + 1) inf
        (by omega) (by omega) (by omega) (by omega) (by rw [length_swapAt]; exact h4)
        (by
          refine ⟨?_, ?_, ?_⟩
          · intro m hm1 hm2
            rw [getD_swapAt _ _ _ _ hsup hleb]
            split
            · exact hs
            · split
              · omega
              · exact hz m hm1 (by omega)
          · intro m hm1 hm2
            rw [getD_swapAt _ _ _ _ hsup hleb]
            split
            · omega
            · split
              · exact hp leb (by omega) (by omega)
              · exact hp m (by omega) (by omega)
          · intro m hm1 hm2
            rw [length_swapAt] at hm2
            rw [getD_swapAt _ _ _ _ hsup hleb]
            split
            · omega
            · split
              · omega
              · exact hg m hm1 hm2)
      rw [length_swapAt] at ih
      refine ⟨ih.1, ih.2.1.trans (swapAt_take lo rows sup leb (by omega) (by omega)),
        ih.2.2.1.trans (swapAt_drop_perm lo rows sup leb (by omega) (by omega)), ?_⟩
      exact ⟨by omega, ih.2.2.2.2.1, ih.2.2.2.2.2.1, ih.2.2.2.2.2.2⟩
    · split
      · rename_i hs0 hs
        have ih := partitionLoop_spec lo n (swapAt rows sup (inf - 1)) leb sup (inf - 1)
          (by omega) (by omega) (by omega) (by omega) (by rw [length_swapAt]; omega)
          (by
            refine ⟨?_, ?_, ?_⟩
            · intro m hm1 hm2
              rw [getD_swapAt _ _ _ _ hsup hinf]
              split
              · omega
              · split
                · omega
                · exact hz m hm1 hm2
            · intro m hm1 hm2
              rw [getD_swapAt _ _ _ _ hsup hinf]
              split
              · omega
              · split
                · omega
                · exact hp m hm1 hm2
            · intro m hm1 hm2
              rw [length_swapAt] at hm2
              rw [getD_swapAt _ _ _ _ hsup hinf]
              split
              · exact hs
              · split
                · omega
                · exact hg m (by omega) hm2)
        rw [length_swapAt] at ih
        exact ⟨ih.1, ih.2.1.trans (swapAt_take lo rows sup (inf - 1) (by omega) (by omega)),
          ih.2.2.1.trans (swapAt_drop_perm lo rows sup (inf - 1) (by omega) (by omega)), ih.2.2.2⟩
      · rename_i hs0 hs
        have ih := partitionLoop_spec lo n rows leb (sup + 1) inf
          (by omega) (by omega) (by omega) (by omega) h4
          (by
            refine ⟨hz, ?_, hg⟩
            intro m hm1 hm2
            by_cases hm : m = sup
            · subst hm; omega
            · exact hp m hm1 (by omega))
        exact ih

/-! ## `swapLoop` -/

theorem swapLoop_spec (bound : Nat) : ∀ (n : Nat) (rows : List DRow) (i j : Nat),
    j ≤ bound → bound ≤ i → i ≤ rows.length → n = min (bound - j) (i - bound) →
    ∃ t, (swapLoop n rows i j).take (if j + n = bound then i - n else j + n) = rows.take j ++ t ∧
      t.Perm ((rows.take i).drop bound)
  | 0, rows, i, j, h1, h2, h3, hn => by
    unfold swapLoop
    by_cases hj : j = bound
    · subst hj
      refine ⟨(rows.take i).drop j, ?_, List.Perm.refl _⟩
      simp only [Nat.add_zero, if_true, Nat.sub_zero]
      conv_lhs => rw [← List.take_append_drop j (rows.take i)]
      rw [List.take_take, Nat.min_eq_left h2]
    · have hi : i = bound := by omega
      subst hi
      refine ⟨[], ?_, ?_⟩
      · simp [hj]
      · rw [List.drop_eq_nil_of_le]
        simp
  | n + 1, rows, i, j, h1, h2, h3, hn => by
    have hj : j < bound := by omega
    have hi : bound < i := by omega
    have hi1 : i - 1 < rows.length := by omega
    have hjl : j < rows.length := by omega
    unfold swapLoop
    obtain ⟨t, ht1, ht2⟩ := swapLoop_spec bound n (swapAt rows (i - 1) j) (i - 1) (j + 1)
      (by omega) (by omega) (by rw [length_swapAt]; omega) (by omega)
    have e1 : (swapAt rows (i - 1) j).take (j + 1) = rows.take j ++ [rows[i - 1]] := by
      rw [List.take_add_one, swapAt_take j rows (i - 1) j (by omega) (Nat.le_refl _),
        getElem?_swapAt rows (i - 1) j j hi1 hjl]
      simp [hi1]
    have e2 : ((swapAt rows (i - 1) j).take (i - 1)).drop bound = (rows.take (i - 1)).drop bound := by
      apply List.ext_getElem?
      intro m
      simp only [List.getElem?_drop, List.getElem?_take, getElem?_swapAt rows (i - 1) j _ hi1 hjl]
      split
      · rw [if_neg (by omega), if_neg (by omega)]
      · rfl
    have e3 : (rows.take i).drop bound = (rows.take (i - 1)).drop bound ++ [rows[i - 1]] := by
      have : i = (i - 1) + 1 := by omega
      conv_lhs => rw [this, List.take_add_one, List.getElem?_eq_getElem hi1]
      rw [List.drop_append_of_le_length]
      · rfl
      · rw [List.length_take]; omega
    refine ⟨rows[i - 1] :: t, ?_, ?_⟩
    · have hc : (if j + (n + 1) = bound then i - (n + 1) else j + (n + 1)) =
          (if j + 1 + n = bound then i - 1 - n else j + 1 + n) := by
        split <;> split <;> omega
      rw [hc, ht1, e1]
      simp
    · rw [e2] at ht2
      rw [e3]
      exact (ht2.cons _).trans (List.perm_append_singleton _ _).symm

/-! ## membership by index -/

theorem mem_drop_iff_getElem? {α} (l : List α) (a : Nat) (x : α) :
    x ∈ l.drop a ↔ ∃ m, a ≤ m ∧ l[m]? = some x := by
  rw [List.mem_iff_getElem?]
  simp only [List.getElem?_drop]
  constructor
  · rintro ⟨i, h⟩
    exact ⟨a + i, by omega, h⟩
  · rintro ⟨m, h1, h2⟩
    exact ⟨m - a, by rw [← h2]; congr 1; omega⟩

theorem mem_take_drop_iff_getElem? {α} (l : List α) (a b : Nat) (x : α) :
    x ∈ (l.take b).drop a ↔ ∃ m, a ≤ m ∧ m < b ∧ l[m]? = some x := by
  rw [mem_drop_iff_getElem?]
  simp only [List.getElem?_take]
  constructor
  · rintro ⟨m, h1, h2⟩
    split at h2
    · exact ⟨m, h1, by assumption, h2⟩
    · cases h2
  · rintro ⟨m, h1, h2, h3⟩
    exact ⟨m, h1, by rw [if_pos h2]; exact h3⟩

theorem getD_of_getElem? {α} (l : List α) (m : Nat) (x d : α) (h : l[m]? = some x) : l.getD m d = x := by
  simp [List.getD_eq_getElem?_getD, h]

theorem getElem?_of_lt_getD {α} (l : List α) (m : Nat) (d : α) (h : m < l.length) :
    l[m]? = some (l.getD m d) := by
  simp [List.getD_eq_getElem?_getD, List.getElem?_eq_getElem h]

end PPLV.Conv
