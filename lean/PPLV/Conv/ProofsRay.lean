import PPLV.Conv.ProofsList
/-!
# C01 stage 3 — what `rayCase` does to the list of records
-/
namespace PPLV.Conv

def keepImage (setb : Bool) (newK : Nat) (d : DRow) : DRow := if setb && decide (0 < d.sp) then { d with sat := setBit d.sat newK } else d
def survives (srcK : LRow) (d : DRow) : Prop := if srcK.le then d.sp = 0 else 0 ≤ d.sp

/-- the body of `rayCase` after the partition. -/
def rayBody (ncols : Nat) (srcK : LRow) (newK : Nat) (st : CState) (rows : List DRow) (leb sup : Nat) : CState :=
  let nle := st.nle
  let destNumRows := st.rows.length
  if sup == destNumRows then
    if !srcK.le then { st with rows := rows, redundant := st.redundant ++ [st.k] }
    else { st with rows := rows.take leb }
  else if sup == nle then
    { st with rows := rows.take sup }
  else
    let bound := destNumRows
    let rows := rows ++ newRays ncols nle newK leb sup bound rows
    let (j0, rows) :=
      if !srcK.le then
        (sup, rows.mapIdx fun l d => if leb ≤ l ∧ l < sup then { d with sat := setBit d.sat newK } else d)
      else (leb, rows)
    let cnt := min (bound - j0) (rows.length - bound)
    let rows' := swapLoop cnt rows rows.length j0
    let i := rows.length - cnt
    let j := j0 + cnt
    let newNumRows := if j == bound then i else j
    { st with rows := rows'.take newNumRows }

theorem rayCase_eq (ncols : Nat) (srcK : LRow) (newK : Nat) (st : CState) :
    rayCase ncols srcK newK st =
      rayBody ncols srcK newK st
        (partitionLoop (st.rows.length - skipSaturators (st.rows.drop st.nle) st.nle) st.rows
          (skipSaturators (st.rows.drop st.nle) st.nle) (skipSaturators (st.rows.drop st.nle) st.nle) st.rows.length).1
        (partitionLoop (st.rows.length - skipSaturators (st.rows.drop st.nle) st.nle) st.rows
          (skipSaturators (st.rows.drop st.nle) st.nle) (skipSaturators (st.rows.drop st.nle) st.nle) st.rows.length).2.1
        (partitionLoop (st.rows.length - skipSaturators (st.rows.drop st.nle) st.nle) st.rows
          (skipSaturators (st.rows.drop st.nle) st.nle) (skipSaturators (st.rows.drop st.nle) st.nle) st.rows.length).2.2 := rfl

/-- what the partition of `rayCase` delivers. -/
theorem rayCase_partition (st : CState) (hnle : st.nle ≤ st.rows.length) :
    let leb0 := skipSaturators (st.rows.drop st.nle) st.nle
    let p := partitionLoop (st.rows.length - leb0) st.rows leb0 leb0 st.rows.length
    p.1.length = st.rows.length ∧ p.1.take st.nle = st.rows.take st.nle ∧
    (p.1.drop st.nle).Perm (st.rows.drop st.nle) ∧ st.nle ≤ p.2.1 ∧ p.2.1 ≤ p.2.2 ∧
    p.2.2 ≤ st.rows.length ∧ Regions p.1 st.nle p.2.1 p.2.2 p.2.2 := by
  intro leb0 p
  obtain ⟨hs1, hs2, hs3⟩ := skipSaturators_spec (st.rows.drop st.nle) st.nle
  rw [List.length_drop] at hs2
  have hl : leb0 ≤ st.rows.length := by show skipSaturators _ _ ≤ _; omega
  refine partitionLoop_spec st.nle (st.rows.length - leb0) st.rows leb0 leb0 st.rows.length rfl hs1
    (Nat.le_refl _) hl (Nat.le_refl _) ⟨?_, ?_, ?_⟩
  · intro m hm1 hm2
    have := hs3 (m - st.nle) (by show _ < leb0 - _; omega)
    rw [List.getD_eq_getElem?_getD, List.getElem?_drop] at this
    rw [List.getD_eq_getElem?_getD]
    rwa [show st.nle + (m - st.nle) = m by omega] at this
  · intro m hm1 hm2; omega
  · intro m hm1 hm2; omega

theorem adjacent_some (ncols nle newK bound : Nat) (rows : List DRow) (i j : Nat) (s : BRow)
    (h : adjacent ncols nle newK bound rows i j = some s) :
    s = bor (rows.getD i default).sat (rows.getD j default).sat := by
  unfold adjacent at h
  simp only at h
  split at h
  · cases h
  · split at h
    · exact (Option.some.inj h).symm
    · split at h
      · cases h
      · exact (Option.some.inj h).symm

theorem mem_newRays (ncols nle newK leb sup bound : Nat) (rows : List DRow) (x : DRow)
    (h : x ∈ newRays ncols nle newK leb sup bound rows) :
    ∃ i j, leb ≤ i ∧ i < sup ∧ sup ≤ j ∧ j < bound ∧
      x = newRay (rows.getD i default) (rows.getD j default)
            (bor (rows.getD i default).sat (rows.getD j default).sat) := by
  unfold newRays at h
  rw [List.mem_flatMap] at h
  obtain ⟨i, hi, h⟩ := h
  rw [List.mem_filterMap] at h
  obtain ⟨j, hj, h⟩ := h
  rw [List.mem_range'_1] at hi hj
  refine ⟨i, j, hi.1, by omega, hj.1, by omega, ?_⟩
  split at h
  · cases h
  · rename_i s hs
    rw [adjacent_some _ _ _ _ _ _ _ _ hs] at h
    exact (Option.some.inj h).symm

theorem mapIdx_take_eq (f : Nat → DRow → DRow) (xs : List DRow) (b : Nat)
    (hf : ∀ l, l < b → ∀ d, f l d = d) : (xs.mapIdx f).take b = xs.take b := by
  apply List.ext_getElem?
  intro m
  simp only [List.getElem?_take, List.getElem?_mapIdx]
  split
  · rename_i hm
    cases xs[m]? with
    | none => rfl
    | some d => simp [hf m hm d]
  · rfl

theorem mapIdx_drop_eq (f : Nat → DRow → DRow) (xs : List DRow) (b : Nat)
    (hf : ∀ l, b ≤ l → ∀ d, f l d = d) : (xs.mapIdx f).drop b = xs.drop b := by
  apply List.ext_getElem?
  intro m
  simp only [List.getElem?_drop, List.getElem?_mapIdx]
  cases xs[b + m]? with
  | none => rfl
  | some d => simp [hf (b + m) (by omega) d]

/-- the final `swapLoop` + `take` of `rayCase`. -/
theorem swap_take_shape (rows3 : List DRow) (nle j0 bound : Nat) (h1 : nle ≤ j0) (h2 : j0 ≤ bound)
    (h3 : bound ≤ rows3.length) :
    ∃ t, (swapLoop (min (bound - j0) (rows3.length - bound)) rows3 rows3.length j0).take
        (if (j0 + min (bound - j0) (rows3.length - bound) == bound) = true
          then rows3.length - min (bound - j0) (rows3.length - bound)
          else j0 + min (bound - j0) (rows3.length - bound)) =
        rows3.take nle ++ ((rows3.take j0).drop nle ++ t) ∧ t.Perm (rows3.drop bound) := by
  obtain ⟨t, ht1, ht2⟩ := swapLoop_spec bound (min (bound - j0) (rows3.length - bound)) rows3 rows3.length j0
    h2 h3 (Nat.le_refl _) rfl
  refine ⟨t, ?_, by simpa using ht2⟩
  simp only [beq_iff_eq]
  rw [ht1, ← List.append_assoc]
  congr 1
  conv_lhs => rw [← List.take_append_drop nle (rows3.take j0)]
  rw [List.take_take, Nat.min_eq_left h1]

/-- the facts about the partitioned list that the case analysis of `rayCase` uses. -/
structure PartOK (st : CState) (R : List DRow) (leb sup : Nat) : Prop where
  hlen : R.length = st.rows.length
  htake : R.take st.nle = st.rows.take st.nle
  hperm : (R.drop st.nle).Perm (st.rows.drop st.nle)
  h1 : st.nle ≤ leb
  h2 : leb ≤ sup
  h3 : sup ≤ st.rows.length
  hreg : Regions R st.nle leb sup sup
  hz : ∀ d ∈ st.rows.take st.nle, d.sp = 0

theorem PartOK.index {st R leb sup} (h : PartOK st R leb sup) (d : DRow) (hd : d ∈ st.rows.drop st.nle) :
    ∃ m, st.nle ≤ m ∧ m < st.rows.length ∧ R[m]? = some d := by
  rw [← h.hperm.mem_iff, mem_drop_iff_getElem?] at hd
  obtain ⟨m, hm1, hm2⟩ := hd
  exact ⟨m, hm1, by rw [← h.hlen]; exact (List.getElem?_eq_some_iff.1 hm2).1, hm2⟩

theorem PartOK.at {st R leb sup} (h : PartOK st R leb sup) (m : Nat) (d : DRow) (hm : st.nle ≤ m)
    (hd : R[m]? = some d) :
    d ∈ st.rows.drop st.nle ∧ m < st.rows.length ∧ (m < leb → d.sp = 0) ∧
      (leb ≤ m → m < sup → 0 < d.sp) ∧ (sup ≤ m → d.sp < 0) := by
  have hml : m < R.length := (List.getElem?_eq_some_iff.1 hd).1
  have hg : R.getD m default = d := getD_of_getElem? R m d default hd
  obtain ⟨r1, r2, r3⟩ := h.hreg
  refine ⟨?_, by rw [← h.hlen]; exact hml, ?_, ?_, ?_⟩
  · rw [← h.hperm.mem_iff, mem_drop_iff_getElem?]
    exact ⟨m, hm, hd⟩
  · intro hm2; rw [← hg]; exact r1 m hm hm2
  · intro hm1 hm2; rw [← hg]; exact r2 m hm1 hm2
  · intro hm1; rw [← hg]; exact r3 m hm1 hml

theorem PartOK.sign {st R leb sup} (h : PartOK st R leb sup) (d : DRow) (hd : d ∈ st.rows) :
    d.sp = 0 ∨ d ∈ st.rows.drop st.nle := by
  rw [← List.take_append_drop st.nle st.rows, List.mem_append] at hd
  rcases hd with hd | hd
  · exact Or.inl (h.hz d hd)
  · exact Or.inr hd

theorem PartOK.hasNeg {st R leb sup} (h : PartOK st R leb sup) (hs : sup < st.rows.length) :
    st.rows.any (fun d => decide (d.sp < 0)) = true ∧ st.rows.all (fun d => decide (0 ≤ d.sp)) = false := by
  have hml : sup < R.length := by rw [h.hlen]; exact hs
  obtain ⟨a1, _, _, _, a5⟩ := h.at sup (R.getD sup default) (by have := h.h1; have := h.h2; omega)
    (getElem?_of_lt_getD R sup default hml)
  have hmem := List.mem_of_mem_drop a1
  have hneg := a5 (Nat.le_refl _)
  constructor
  · rw [List.any_eq_true]
    exact ⟨_, hmem, by simpa using hneg⟩
  · rw [List.all_eq_false]
    exact ⟨_, hmem, by rw [decide_eq_true_eq]; omega⟩

theorem PartOK.noNeg {st R leb sup} (h : PartOK st R leb sup) (hs : sup = st.rows.length) :
    st.rows.all (fun d => decide (0 ≤ d.sp)) = true ∧ st.rows.any (fun d => decide (d.sp < 0)) = false := by
  have key : ∀ d ∈ st.rows, 0 ≤ d.sp := by
    intro d hd
    rcases h.sign d hd with h0 | hd
    · omega
    · obtain ⟨m, hm1, hm2, hm3⟩ := h.index d hd
      obtain ⟨_, _, a3, a4, _⟩ := h.at m d hm1 hm3
      by_cases hml : m < leb
      · have := a3 hml; omega
      · have := a4 (by omega) (by omega); omega
  constructor
  · rw [List.all_eq_true]
    intro d hd
    simpa using key d hd
  · rw [List.any_eq_false]
    intro d hd
    have := key d hd
    simp; omega

/-- the statement of `rayCase_rows` about an arbitrary final state. -/
def RayPost (srcK : LRow) (newK : Nat) (st st' : CState) : Prop :=
  st'.nle = st.nle ∧ st'.k = st.k ∧
  (st'.redundant = if !srcK.le && st.rows.all (fun d => decide (0 ≤ d.sp)) then st.redundant ++ [st.k] else st.redundant) ∧
  ∃ tail, st'.rows = st.rows.take st.nle ++ tail ∧
    (∀ d' ∈ tail, (∃ d ∈ st.rows.drop st.nle, survives srcK d ∧
          d' = keepImage (!srcK.le && st.rows.any (fun d => decide (d.sp < 0))) newK d) ∨
        (∃ ri ∈ st.rows.drop st.nle, ∃ rj ∈ st.rows.drop st.nle, 0 < ri.sp ∧ rj.sp < 0 ∧
          d' = newRay ri rj (bor ri.sat rj.sat))) ∧
    (∀ d ∈ st.rows.drop st.nle, survives srcK d →
      keepImage (!srcK.le && st.rows.any (fun d => decide (d.sp < 0))) newK d ∈ tail)

/-- Q- is empty. -/
theorem rayBody_noNeg (ncols : Nat) (srcK : LRow) (newK : Nat) (st : CState) (R : List DRow) (leb sup : Nat)
    (h : PartOK st R leb sup) (hs : sup = st.rows.length) :
    RayPost srcK newK st (rayBody ncols srcK newK st R leb sup) := by
  obtain ⟨g1, g2⟩ := h.noNeg hs
  cases hle : srcK.le
  · have hb : rayBody ncols srcK newK st R leb sup = { st with rows := R, redundant := st.redundant ++ [st.k] } := by
      simp [rayBody, hs, hle]
    rw [hb]
    refine ⟨rfl, rfl, by simp [hle, g1], R.drop st.nle, ?_, ?_, ?_⟩
    · show R = _
      rw [← h.htake, List.take_append_drop]
    · intro d' hd'
      have hm : d' ∈ st.rows.drop st.nle := h.hperm.mem_iff.1 hd'
      refine Or.inl ⟨d', hm, ?_, by simp [keepImage, g2]⟩
      have := (List.all_eq_true.1 g1) d' (List.mem_of_mem_drop hm)
      simpa [survives, hle] using this
    · intro d hd _
      have : keepImage (!srcK.le && st.rows.any (fun d => decide (d.sp < 0))) newK d = d := by
        simp [keepImage, g2]
      rw [this]
      exact h.hperm.mem_iff.2 hd
  · have hb : rayBody ncols srcK newK st R leb sup = { st with rows := R.take leb } := by
      simp [rayBody, hs, hle]
    rw [hb]
    refine ⟨rfl, rfl, by simp [hle], (R.take leb).drop st.nle, ?_, ?_, ?_⟩
    · show R.take leb = _
      conv_lhs => rw [← List.take_append_drop st.nle (R.take leb)]
      rw [List.take_take, Nat.min_eq_left h.h1, h.htake]
    · intro d' hd'
      rw [mem_take_drop_iff_getElem?] at hd'
      obtain ⟨m, hm1, hm2, hm3⟩ := hd'
      obtain ⟨a1, _, a3, _, _⟩ := h.at m d' hm1 hm3
      exact Or.inl ⟨d', a1, by simpa [survives, hle] using a3 hm2, by simp [keepImage, hle]⟩
    · intro d hd hsv
      have hsp : d.sp = 0 := by simpa [survives, hle] using hsv
      have : keepImage (!srcK.le && st.rows.any (fun d => decide (d.sp < 0))) newK d = d := by
        simp [keepImage, hle]
      rw [this, mem_take_drop_iff_getElem?]
      obtain ⟨m, hm1, hm2, hm3⟩ := h.index d hd
      obtain ⟨_, _, _, a4, _⟩ := h.at m d hm1 hm3
      refine ⟨m, hm1, ?_, hm3⟩
      by_cases hml : m < leb
      · exact hml
      · have := a4 (by omega) (by omega); omega

/-- Q= and Q+ are empty. -/
theorem rayBody_allNeg (ncols : Nat) (srcK : LRow) (newK : Nat) (st : CState) (R : List DRow) (leb sup : Nat)
    (h : PartOK st R leb sup) (hs : sup < st.rows.length) (hsn : sup = st.nle) :
    RayPost srcK newK st (rayBody ncols srcK newK st R leb sup) := by
  obtain ⟨g1, g2⟩ := h.hasNeg hs
  have hb : rayBody ncols srcK newK st R leb sup = { st with rows := R.take sup } := by
    have : st.nle ≠ st.rows.length := by omega
    simp [rayBody, this, hsn]
  rw [hb]
  refine ⟨rfl, rfl, by simp [g2], [], ?_, ?_, ?_⟩
  · show R.take sup = _
    rw [hsn, h.htake]; simp
  · intro d' hd'; cases hd'
  · intro d hd hsv
    exfalso
    obtain ⟨m, hm1, hm2, hm3⟩ := h.index d hd
    obtain ⟨_, _, _, _, a5⟩ := h.at m d hm1 hm3
    have := a5 (by omega)
    unfold survives at hsv
    split at hsv <;> omega

/-- members of the appended new rays. -/
theorem PartOK.newRay_mem {st R leb sup} (h : PartOK st R leb sup) (ncols newK : Nat) (x : DRow)
    (hx : x ∈ newRays ncols st.nle newK leb sup st.rows.length R) :
    ∃ ri ∈ st.rows.drop st.nle, ∃ rj ∈ st.rows.drop st.nle, 0 < ri.sp ∧ rj.sp < 0 ∧
      x = newRay ri rj (bor ri.sat rj.sat) := by
  obtain ⟨i, j, hi1, hi2, hj1, hj2, hx⟩ := mem_newRays _ _ _ _ _ _ _ _ hx
  have hil : i < R.length := by rw [h.hlen]; have := h.h3; omega
  have hjl : j < R.length := by rw [h.hlen]; exact hj2
  have hnl := h.h1
  obtain ⟨a1, _, _, a4, _⟩ := h.at i (R.getD i default) (by omega) (getElem?_of_lt_getD R i default hil)
  obtain ⟨b1, _, _, _, b5⟩ := h.at j (R.getD j default) (by omega) (getElem?_of_lt_getD R j default hjl)
  exact ⟨_, a1, _, b1, a4 hi1 hi2, b5 hj1, hx⟩

/-- the general case, `source_k` an inequality. -/
theorem rayBody_general_ineq (ncols : Nat) (srcK : LRow) (newK : Nat) (st : CState) (R : List DRow) (leb sup : Nat)
    (h : PartOK st R leb sup) (hs : sup < st.rows.length) (hsn : sup ≠ st.nle) (hle : srcK.le = false) :
    RayPost srcK newK st (rayBody ncols srcK newK st R leb sup) := by
  obtain ⟨g1, g2⟩ := h.hasNeg hs
  have hnl := h.h1
  have hls := h.h2
  have hne : sup ≠ st.rows.length := by omega
  let f : Nat → DRow → DRow := fun l d => if leb ≤ l ∧ l < sup then { d with sat := setBit d.sat newK } else d
  let NR := newRays ncols st.nle newK leb sup st.rows.length R
  let rows3 := (R ++ NR).mapIdx f
  have hl3 : st.rows.length ≤ rows3.length := by
    simp only [rows3, List.length_mapIdx, List.length_append, h.hlen]; omega
  obtain ⟨t, ht1, ht2⟩ := swap_take_shape rows3 st.nle sup st.rows.length (by omega) (by omega) hl3
  have hb : rayBody ncols srcK newK st R leb sup = { st with rows := rows3.take st.nle ++ ((rows3.take sup).drop st.nle ++ t) } := by
    rw [← ht1]
    simp only [rayBody, beq_iff_eq, if_neg hne, if_neg hsn, hle, Bool.not_false, if_true]
    rfl
  rw [hb]
  have e1 : rows3.take st.nle = st.rows.take st.nle := by
    rw [mapIdx_take_eq f _ st.nle (by intro l hl d; simp only [f]; rw [if_neg (by omega)]),
      List.take_append_of_le_length (by rw [h.hlen]; omega), h.htake]
  have e2 : rows3.drop st.rows.length = NR := by
    rw [mapIdx_drop_eq f _ st.rows.length (by intro l hl d; simp only [f]; rw [if_neg (by omega)]),
      ← h.hlen, List.drop_left]
  have e3 : ∀ m, m < st.rows.length → rows3[m]? = (R[m]?).map (f m) := by
    intro m hm
    simp only [rows3, List.getElem?_mapIdx]
    rw [List.getElem?_append_left (by rw [h.hlen]; exact hm)]
  have hfk : ∀ m d, st.nle ≤ m → m < sup → R[m]? = some d → 0 ≤ d.sp ∧
      f m d = keepImage (!srcK.le && st.rows.any (fun d => decide (d.sp < 0))) newK d := by
    intro m d hm1 hm2 hd
    obtain ⟨_, _, a3, a4, _⟩ := h.at m d hm1 hd
    by_cases hml : m < leb
    · have := a3 hml
      refine ⟨by omega, ?_⟩
      simp only [f, keepImage, hle, g1]
      rw [if_neg (by omega), if_neg (by simp; omega)]
    · have := a4 (by omega) hm2
      refine ⟨by omega, ?_⟩
      simp only [f, keepImage, hle, g1]
      rw [if_pos (by omega), if_pos (by simpa using this)]
  refine ⟨rfl, rfl, by simp [g2], (rows3.take sup).drop st.nle ++ t, ?_, ?_, ?_⟩
  · show rows3.take st.nle ++ _ = _
    rw [e1]
  · intro d' hd'
    rw [List.mem_append] at hd'
    rcases hd' with hd' | hd'
    · rw [mem_take_drop_iff_getElem?] at hd'
      obtain ⟨m, hm1, hm2, hm3⟩ := hd'
      rw [e3 m (by omega)] at hm3
      cases hR : R[m]? with
      | none => rw [hR] at hm3; cases hm3
      | some d =>
        rw [hR] at hm3
        obtain ⟨a1, _⟩ := h.at m d hm1 hR
        obtain ⟨k1, k2⟩ := hfk m d hm1 hm2 hR
        refine Or.inl ⟨d, a1, by simpa [survives, hle] using k1, ?_⟩
        rw [← k2]
        exact (Option.some.inj hm3).symm
    · have : d' ∈ NR := by rw [← e2]; exact ht2.mem_iff.1 hd'
      exact Or.inr (h.newRay_mem ncols newK d' this)
  · intro d hd hsv
    have hsp : 0 ≤ d.sp := by simpa [survives, hle] using hsv
    obtain ⟨m, hm1, hm2, hm3⟩ := h.index d hd
    obtain ⟨_, _, _, _, a5⟩ := h.at m d hm1 hm3
    have hms : m < sup := by
      by_cases hms : m < sup
      · exact hms
      · have := a5 (by omega); omega
    obtain ⟨_, k2⟩ := hfk m d hm1 hms hm3
    rw [List.mem_append]
    left
    rw [mem_take_drop_iff_getElem?]
    exact ⟨m, hm1, hms, by rw [e3 m hm2, hm3, ← k2]; rfl⟩

/-- the general case, `source_k` an equality. -/
theorem rayBody_general_eq (ncols : Nat) (srcK : LRow) (newK : Nat) (st : CState) (R : List DRow) (leb sup : Nat)
    (h : PartOK st R leb sup) (hs : sup < st.rows.length) (hsn : sup ≠ st.nle) (hle : srcK.le = true) :
    RayPost srcK newK st (rayBody ncols srcK newK st R leb sup) := by
  have hnl := h.h1
  have hls := h.h2
  have hne : sup ≠ st.rows.length := by omega
  let NR := newRays ncols st.nle newK leb sup st.rows.length R
  let rows3 := R ++ NR
  have hl3 : st.rows.length ≤ rows3.length := by
    simp only [rows3, List.length_append, h.hlen]; omega
  obtain ⟨t, ht1, ht2⟩ := swap_take_shape rows3 st.nle leb st.rows.length (by omega) (by omega) hl3
  have hb : rayBody ncols srcK newK st R leb sup = { st with rows := rows3.take st.nle ++ ((rows3.take leb).drop st.nle ++ t) } := by
    rw [← ht1]
    simp only [rayBody, beq_iff_eq, if_neg hne, if_neg hsn, hle, Bool.not_true]
    rfl
  rw [hb]
  have e1 : rows3.take st.nle = st.rows.take st.nle := by
    rw [List.take_append_of_le_length (by rw [h.hlen]; omega), h.htake]
  have e2 : rows3.drop st.rows.length = NR := by
    rw [← h.hlen, List.drop_left]
  have e3 : ∀ m, m < st.rows.length → rows3[m]? = R[m]? := by
    intro m hm
    exact List.getElem?_append_left (by rw [h.hlen]; exact hm)
  have hk : ∀ d, keepImage (!srcK.le && st.rows.any (fun d => decide (d.sp < 0))) newK d = d := by
    intro d; simp [keepImage, hle]
  refine ⟨rfl, rfl, by simp [hle], (rows3.take leb).drop st.nle ++ t, ?_, ?_, ?_⟩
  · show rows3.take st.nle ++ _ = _
    rw [e1]
  · intro d' hd'
    rw [List.mem_append] at hd'
    rcases hd' with hd' | hd'
    · rw [mem_take_drop_iff_getElem?] at hd'
      obtain ⟨m, hm1, hm2, hm3⟩ := hd'
      rw [e3 m (by omega)] at hm3
      obtain ⟨a1, _, a3, _, _⟩ := h.at m d' hm1 hm3
      exact Or.inl ⟨d', a1, by simpa [survives, hle] using a3 hm2, (hk d').symm⟩
    · have : d' ∈ NR := by rw [← e2]; exact ht2.mem_iff.1 hd'
      exact Or.inr (h.newRay_mem ncols newK d' this)
  · intro d hd hsv
    have hsp : d.sp = 0 := by simpa [survives, hle] using hsv
    obtain ⟨m, hm1, hm2, hm3⟩ := h.index d hd
    obtain ⟨_, _, _, a4, a5⟩ := h.at m d hm1 hm3
    have hml : m < leb := by
      by_cases hml : m < leb
      · exact hml
      · by_cases hms : m < sup
        · have := a4 (by omega) hms; omega
        · have := a5 (by omega); omega
    rw [hk, List.mem_append]
    left
    rw [mem_take_drop_iff_getElem?]
    exact ⟨m, hm1, hml, by rw [e3 m hm2, hm3]⟩

theorem rayBody_rows (ncols : Nat) (srcK : LRow) (newK : Nat) (st : CState) (R : List DRow) (leb sup : Nat)
    (h : PartOK st R leb sup) : RayPost srcK newK st (rayBody ncols srcK newK st R leb sup) := by
  by_cases hs : sup = st.rows.length
  · exact rayBody_noNeg ncols srcK newK st _ _ _ h hs
  · have hs' : sup < st.rows.length := Nat.lt_of_le_of_ne h.h3 hs
    by_cases hsn : sup = st.nle
    · exact rayBody_allNeg ncols srcK newK st _ _ _ h hs' hsn
    · cases hle : srcK.le
      · exact rayBody_general_ineq ncols srcK newK st _ _ _ h hs' hsn hle
      · exact rayBody_general_eq ncols srcK newK st _ _ _ h hs' hsn hle

theorem rayCase_rows (ncols : Nat) (srcK : LRow) (newK : Nat) (st : CState) (hnle : st.nle ≤ st.rows.length)
    (hz : ∀ d ∈ st.rows.take st.nle, d.sp = 0) :
    let st' := rayCase ncols srcK newK st
    let setb := !srcK.le && st.rows.any (fun d => decide (d.sp < 0))
    st'.nle = st.nle ∧ st'.k = st.k ∧
    (st'.redundant = if !srcK.le && st.rows.all (fun d => decide (0 ≤ d.sp)) then st.redundant ++ [st.k] else st.redundant) ∧
    ∃ tail, st'.rows = st.rows.take st.nle ++ tail ∧
      (∀ d' ∈ tail, (∃ d ∈ st.rows.drop st.nle, survives srcK d ∧ d' = keepImage setb newK d) ∨
                    (∃ ri ∈ st.rows.drop st.nle, ∃ rj ∈ st.rows.drop st.nle, 0 < ri.sp ∧ rj.sp < 0 ∧ d' = newRay ri rj (bor ri.sat rj.sat))) ∧
      (∀ d ∈ st.rows.drop st.nle, survives srcK d → keepImage setb newK d ∈ tail) := by
  intro st' setb
  show RayPost srcK newK st (rayCase ncols srcK newK st)
  rw [rayCase_eq]
  obtain ⟨p1, p2, p3, p4, p5, p6, p7⟩ := rayCase_partition st hnle
  have h : PartOK st _ _ _ := ⟨p1, p2, p3, p4, p5, p6, p7, hz⟩
  exact rayBody_rows ncols srcK newK st _ _ _ h

end PPLV.Conv
