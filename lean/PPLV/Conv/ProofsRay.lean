import PPLV.Conv.ProofsList
/-!
# C01 stage 3 — what `rayCase` does to the list of records
-/
namespace PPLV.Conv

def keepImage (setb : Bool) (newK : Nat) (d : DRow) : DRow := if setb && decide (0 < d.sp) then { d with sat := setBit d.sat newK } else d
def survives (srcK : LRow) (d : DRow) : Prop := if srcK.le then d.sp = 0 else 0 ≤ d.sp

/-- the body of `rayCase` after the partition. -/
def rayBody (ncols : Nat) (srcK : LRow) (newK : Nat) (st : CState) (rows : List DRow) (leb sup : Nat) : CState :=
  let nle := st.nle
  let destNumRows := st.rows.length
  if sup == destNumRows then
    if !srcK.le then { st with rows := rows, redundant := st.redundant ++ [st.k] }
    else { st with rows := rows.take leb }
  else if sup == nle then
    { st with rows := rows.take sup }
  else
    let bound := destNumRows
    let rows := rows ++ newRays ncols nle newK leb sup bound rows
    let (j0, rows) :=
      if !srcK.le then
        (sup, rows.mapIdx fun l d => if leb ≤ l ∧ l < sup then { d with sat := setBit d.sat newK } else d)
      else (leb, rows)
    let cnt := min (bound - j0) (rows.length - bound)
    let rows' := swapLoop cnt rows rows.length j0
    let i := rows.length - cnt
    let j := j0 + cnt
    let newNumRows := if j == bound then i else j
    { st with rows := rows'.take newNumRows }

theorem rayCase_eq (ncols : Nat) (srcK : LRow) (newK : Nat) (st : CState) :
    rayCase ncols srcK newK st =
      rayBody ncols srcK newK st
        (partitionLoop (st.rows.length - skipSaturators (st.rows.drop st.nle) st.nle) st.rows
          (skipSaturators (st.rows.drop st.nle) st.nle) (skipSaturators (st.rows.drop st.nle) st.nle) st.rows.length).1
        (partitionLoop (st.rows.length - skipSaturators (st.rows.drop st.nle) st.nle) st.rows
          (skipSaturators (st.rows.drop st.nle) st.nle) (skipSaturators (st.rows.drop st.nle) st.nle) st.rows.length).2.1
        (partitionLoop (st.rows.length - skipSaturators (st.rows.drop st.nle) st.nle) st.rows
          (skipSaturators (st.rows.drop st.nle) st.nle) (skipSaturators (st.rows.drop st.nle) st.nle) st.rows.length).2.2 := rfl

/-- what the partition of `rayCase` delivers. -/
theorem rayCase_partition (st : CState) (hnle : st.nle ≤ st.rows.length) :
    let leb0 := skipSaturators (st.rows.drop st.nle) st.nle
    let p := partitionLoop (st.rows.length - leb0) st.rows leb0 leb0 st.rows.length
    p.1.length = st.rows.length ∧ p.1.take st.nle = st.rows.take st.nle ∧
    (p.1.drop st.nle).Perm (st.rows.drop st.nle) ∧ st.nle ≤ p.2.1 ∧ p.2.1 ≤ p.2.2 ∧
    p.2.2 ≤ st.rows.length ∧ Regions p.1 st.nle p.2.1 p.2.2 p.2.2 := by
  intro leb0 p
  obtain ⟨hs1, hs2, hs3⟩ := skipSaturators_spec (st.rows.drop st.nle) st.nle
  rw [List.length_drop] at hs2
  have hl : leb0 ≤ st.rows.length := by show skipSaturators _ _ ≤ _; omega
  refine partitionLoop_spec st.nle (st.rows.length - leb0) st.rows leb0 leb0 st.rows.length rfl hs1
    (Nat.le_refl _) hl (Nat.le_refl _) ⟨?_, ?_, ?_⟩
  · intro m hm1 hm2
    have := hs3 (m - st.nle) (by show _ < leb0 - _; omega)
    rw [List.getD_eq_getElem?_getD, List.getElem?_drop] at this
    rw [List.getD_eq_getElem?_getD]
    rwa [show st.nle + (m - st.nle) = m by omega] at this
  · intro m hm1 hm2; omega
  · intro m hm1 hm2; omega

theorem adjacent_some (ncols nle newK bound : Nat) (rows : List DRow) (i j : Nat) (s : BRow)
    (h : adjacent ncols nle newK bound rows i j = some s) :
    s = bor (rows.getD i default).sat (rows.getD j default).sat := by
  unfold adjacent at h
  simp only at h
  split at h
  · cases h
  · split at h
    · exact (Option.some.inj h).symm
    · split at h
      · cases h
      · exact (Option.some.inj h).symm

theorem mem_newRays (ncols nle newK leb sup bound : Nat) (rows : List DRow) (x : DRow)
    (h : x ∈ newRays ncols nle newK leb sup bound rows) :
    ∃ i j, leb ≤ i ∧ i < sup ∧ sup ≤ j ∧ j < bound ∧
      x = newRay (rows.getD i default) (rows.getD j default)
            (bor (rows.getD i default).sat (rows.getD j default).sat) := by
  unfold newRays at h
  rw [List.mem_flatMap] at h
  obtain ⟨i, hi, h⟩ := h
  rw [List.mem_filterMap] at h
  obtain ⟨j, hj, h⟩ := h
  rw [List.mem_range'_1] at hi hj
  refine ⟨i, j, hi.1, by omega, hj.1, by omega, ?_⟩
  split at h
  · cases h
  · rename_i s hs
    rw [adjacent_some _ _ _ _ _ _ _ _ hs] at h
    exact (Option.some.inj h).symm

theorem mapIdx_take_eq (f : Nat → DRow → DRow) (xs : List DRow) (b : Nat)
    (hf : ∀ l, l < b → ∀ d, f l d = d) : (xs.mapIdx f).take b = xs.take b := by
  apply List.ext_getElem?
  intro m
  simp only [List.getElem?_take, List.getElem?_mapIdx]
  split
  · rename_i hm
    cases xs[m]? with
    | none => rfl
    | some d => simp [hf m hm d]
  · rfl

theorem mapIdx_drop_eq (f : Nat → DRow → DRow) (xs : List DRow) (b : Nat)
    (hf : ∀ l, b ≤ l → ∀ d, f l d = d) : (xs.mapIdx f).drop b = xs.drop b := by
  apply List.ext_getElem?
  intro m
  simp only [List.getElem?_drop, List.getElem?_mapIdx]
  cases xs[b + m]? with
  | none => rfl
  | some d => simp [hf (b + m) (by omega) d]

/-- the final `swapLoop` + `take` of `rayCase`. -/
theorem swap_take_shape (rows3 : List DRow) (nle j0 bound : Nat) (h1 : nle ≤ j0) (h2 : j0 ≤ bound)
    (h3 : bound ≤ rows3.length) :
    ∃ t, (swapLoop (min (bound - j0) (rows3.length - bound)) rows3 rows3.length j0).take
        (if (j0 + min (bound - j0) (rows3.length - bound) == bound) = true
          then rows3.length - min (bound - j0) (rows3.length - bound)
          else j0 + min (bound - j0) (rows3.length - bound)) =
        rows3.take nle ++ ((rows3.take j0).drop nle ++ t) ∧ t.Perm (rows3.drop bound) := by
  obtain ⟨t, ht1, ht2⟩ := swapLoop_spec bound (min (bound - j0) (rows3.length - bound)) rows3 rows3.length j0
    h2 h3 (Nat.le_refl _) rfl
  refine ⟨t, ?_, by simpa using ht2⟩
  simp only [beq_iff_eq]
  rw [ht1, ← List.append_assoc]
  congr 1
  conv_lhs => rw [← List.take_append_drop nle (rows3.take j0)]
  rw [List.take_take, Nat.min_eq_left h1]

end PPLV.Conv
