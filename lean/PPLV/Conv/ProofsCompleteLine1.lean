import PPLV.Conv.ProofsCompleteInv
import PPLV.Conv.ProofsSpan
import PPLV.Conv.ProofsSound2
/-!
# C01 stage 4 — the line case of `conversion`, model-level facts for completeness

Where every old record ends up (`lineRows3_reverse2`, also for the lines after `inz`), the combination
equation in the embedded (`emb`) form, and the three descriptions of the result rows that the five fields
of `CExtra` need: the image of every old record (`lineCase_image`), the pivot (`lineCase_pivot`), and where
every result row comes from (`lineCase_row_cases`).
-/
namespace PPLV.Conv
open PPLV.Conv.Abs

/-- where every old record ends up after the combination step; the combined-row equation for every
record after `inz` (lines included). -/
theorem lineRows3_reverse2 (st : CState) (inz : Nat) (hinz : inz < st.nle) (hn : st.nle ≤ st.rows.length)
    (m0 : Nat) (d0 : DRow) (hm0 : m0 ≠ inz) (hd0 : st.rows[m0]? = some d0) :
    let p := linePivot (st.rows.getD inz default)
    ∃ m d', (lineRows3 st inz)[m]? = some d' ∧ m ≠ st.nle - 1 ∧
      (d0.sp = 0 → d'.row = d0.row) ∧
      (d0.sp ≠ 0 → inz < m0 → d'.row = combRow p.row p.sp d0.row d0.sp) := by
  intro p
  obtain ⟨b, hb, hbrow, hbsp⟩ := lineRowsB_reverse st inz hinz hn m0 d0 hm0 hd0
  obtain ⟨dn, _, hdnD, hdnrow, hdnsp⟩ := lineRowsB_pivot st inz hinz hn
  have hget : (lineRows3 st inz)[if m0 = st.nle - 1 then inz else m0]? =
      some (if ((((inz ≤ (if m0 = st.nle - 1 then inz else m0)) ∧ (if m0 = st.nle - 1 then inz else m0) < st.nle - 1) ∨
        st.nle - 1 + 1 ≤ (if m0 = st.nle - 1 then inz else m0)) ∧ b.sp ≠ 0)
        then combineWithNle ((lineRowsB st inz).getD (st.nle - 1) default) b else b) := by
    rw [lineRows3_eqB, List.getElem?_mapIdx, hb]; rfl
  refine ⟨if m0 = st.nle - 1 then inz else m0, _, hget, ?_, ?_, ?_⟩
  · split <;> omega
  · intro hz
    have : ¬ ((((inz ≤ (if m0 = st.nle - 1 then inz else m0)) ∧ (if m0 = st.nle - 1 then inz else m0) < st.nle - 1) ∨
        st.nle - 1 + 1 ≤ (if m0 = st.nle - 1 then inz else m0)) ∧ b.sp ≠ 0) := by
      intro hc; exact hc.2 (by rw [hbsp]; exact hz)
    rw [if_neg this]
    exact hbrow
  · intro hnz hlt
    have hk : ∀ k, k = (if m0 = st.nle - 1 then inz else m0) →
        ((inz ≤ k ∧ k < st.nle - 1) ∨ st.nle - 1 + 1 ≤ k) := by
      intro k hk
      split at hk <;> omega
    have : ((((inz ≤ (if m0 = st.nle - 1 then inz else m0)) ∧ (if m0 = st.nle - 1 then inz else m0) < st.nle - 1) ∨
        st.nle - 1 + 1 ≤ (if m0 = st.nle - 1 then inz else m0)) ∧ b.sp ≠ 0) :=
      ⟨hk _ rfl, by rw [hbsp]; exact hnz⟩
    rw [if_pos this, hdnD, combineWithNle_row, hdnrow, hdnsp, hbrow, hbsp]

/-- the combination equation of `combineWithNle`, embedded: `d' = s • d + t • p`, `s ≠ 0`, `s > 0` for a ray. -/
theorem combRow_emb (p d0 : DRow) (hppos : 0 < p.sp) :
    (combRow p.row p.sp d0.row d0.sp).le = d0.row.le ∧
    ∃ s t : ℚ, s ≠ 0 ∧ (d0.row.le = false → 0 < s) ∧
      emb (combRow p.row p.sp d0.row d0.sp).v = s • emb d0.row.v + t • emb p.row.v := by
  obtain ⟨g, c, nI, nO, hg, hgpos, hc, h1, h2, _, _, hle, hs⟩ :=
    sp_combineWithNle { row := p.row, sp := p.sp, sat := [] } { row := d0.row, sp := d0.sp, sat := [] }
      (by simpa using ne_of_gt hppos)
  simp only at h1 h2 hgpos
  have hle : (combRow p.row p.sp d0.row d0.sp).le = d0.row.le := hle
  have hs : ∀ s : Vec, nO * scalarProduct s d0.row.v - nI * scalarProduct s p.row.v
      = g * scalarProduct s (combRow p.row p.sp d0.row d0.sp).v := hs
  have hnO : 0 < nO := by
    by_contra hneg
    have : nO ≤ 0 := by omega
    have : c * nO ≤ 0 := Int.mul_nonpos_of_nonneg_of_nonpos (le_of_lt hc) this
    omega
  have e := emb_sub2 hs
  have hgq : (g : ℚ) ≠ 0 := by exact_mod_cast hg
  refine ⟨hle, (nO : ℚ) / g, -(nI : ℚ) / g, ?_, ?_, ?_⟩
  · exact div_ne_zero (by exact_mod_cast ne_of_gt hnO) hgq
  · intro h
    exact div_pos (by exact_mod_cast hnO) (by exact_mod_cast hgpos h)
  · have e0 : emb (combRow p.row p.sp d0.row d0.sp).v
        = (1 / (g : ℚ)) • ((g : ℚ) • emb (combRow p.row p.sp d0.row d0.sp).v) := by
      rw [smul_smul, one_div, inv_mul_cancel₀ hgq, one_smul]
    rw [e0, ← e, smul_sub, smul_smul, smul_smul, sub_eq_add_neg, ← neg_smul]
    have q1 : 1 / (g : ℚ) * nO = nO / g := by ring
    have q2 : -(1 / (g : ℚ) * nI) = -(nI : ℚ) / g := by ring
    rw [q1, q2]

theorem linePivot_emb (r : DRow) : ∃ e : ℚ, e ≠ 0 ∧ emb (linePivot r).row.v = e • emb r.row.v := by
  unfold linePivot
  by_cases h : r.sp < 0
  · rw [if_pos h]
    refine ⟨-1, by norm_num, ?_⟩
    show emb (r.row.v.map (- ·)) = _
    rw [emb_neg, neg_one_smul]
  · rw [if_neg h]
    refine ⟨1, one_ne_zero, ?_⟩
    show emb r.row.v = _
    rw [one_smul]

/-- every record of `lineRows3` not at the pivot index is a record of the result. -/
theorem lineCase_final (srcK : LRow) (newK : Nat) (st : CState) (inz : Nat) (hn : 0 < st.nle)
    (hn' : st.nle ≤ st.rows.length) :
    ∀ m x, m ≠ st.nle - 1 → (lineRows3 st inz)[m]? = some x → x ∈ (lineCase srcK newK st inz).rows := by
  intro m x hm hx
  have hlen := length_lineRows3 st inz
  have hi : st.nle - 1 < (lineRows3 st inz).length := by rw [hlen]; omega
  rw [lineCase_eq]
  by_cases hk : srcK.le = true
  · simp only [hk, Bool.not_true, Bool.false_eq_true, if_false]
    exact mem_swap_dropLast_of_ne _ _ m x hi hm hx
  · have hk' : srcK.le = false := by simpa using hk
    simp only [hk', Bool.not_false, if_true]
    have hne' : ¬ st.nle - 1 = m := fun h => hm h.symm
    refine List.mem_iff_getElem?.mpr ⟨m, ?_⟩
    rw [List.getElem?_modify, hx]
    simp [hne']

/-- every record of the result has the row of a record of `lineRows3` (not the pivot's, for an equality). -/
theorem lineCase_rows_from (srcK : LRow) (newK : Nat) (st : CState) (inz : Nat) (hn : 0 < st.nle)
    (hn' : st.nle ≤ st.rows.length) :
    ∀ d ∈ (lineCase srcK newK st inz).rows, ∃ m dd, (lineRows3 st inz)[m]? = some dd ∧ d.row = dd.row ∧
      (srcK.le = true → m ≠ st.nle - 1) := by
  intro d hd
  have hlen := length_lineRows3 st inz
  have hi : st.nle - 1 < (lineRows3 st inz).length := by rw [hlen]; omega
  rw [lineCase_eq] at hd
  by_cases hk : srcK.le = true
  · simp only [hk, Bool.not_true, Bool.false_eq_true, if_false] at hd
    obtain ⟨m, hm⟩ := List.mem_iff_getElem?.mp hd
    obtain ⟨m0, hm0, hx, _⟩ := getElem?_swap_dropLast _ _ m hi d hm
    exact ⟨m0, d, hx, rfl, fun _ => hm0⟩
  · have hk' : srcK.le = false := by simpa using hk
    simp only [hk', Bool.not_false, if_true] at hd
    obtain ⟨m, hm⟩ := List.mem_iff_getElem?.mp hd
    rw [List.getElem?_modify] at hm
    match hq : (lineRows3 st inz)[m]? with
    | none => rw [hq] at hm; simp at hm
    | some d0 =>
      rw [hq] at hm
      simp only [Option.map_eq_map, Option.map_some, Option.some.injEq] at hm
      refine ⟨m, d0, hq, ?_, fun h => absurd h hk⟩
      rw [← hm]; split <;> rfl

/-- **the image of an old record**: every old record other than the line `r` at `inz` has an image `d'` in
the result, of the same kind, saturating `srcK`, with `emb d' = s • emb d + t • emb r`, `s ≠ 0`
(`s > 0` for a ray). -/
theorem lineCase_image (srcK : LRow) (kept : List LRow) (st : CState) (inz : Nat) (H : StepHyp srcK st kept)
    (hinz : inz < st.nle) (hbefore : ∀ m d, m < inz → st.rows[m]? = some d → d.sp = 0)
    (r : DRow) (hr : st.rows[inz]? = some r) (hrnz : r.sp ≠ 0)
    (m0 : Nat) (d0 : DRow) (hm0 : m0 ≠ inz) (hd0 : st.rows[m0]? = some d0) :
    ∃ d' ∈ (lineCase srcK kept.length st inz).rows, d'.row.le = d0.row.le ∧
      scalarProduct srcK.v d'.row.v = 0 ∧
      ∃ s t : ℚ, s ≠ 0 ∧ (d0.row.le = false → 0 < s) ∧ emb d'.row.v = s • emb d0.row.v + t • emb r.row.v := by
  have hrD : st.rows.getD inz default = r := by rw [List.getD_eq_getElem?_getD, hr]; rfl
  have hrmem := memC hr
  have hrle : r.row.le = true := by
    have := H.hl inz r hr
    simpa [hinz] using this
  obtain ⟨pl, ppos, psp, pP⟩ := linePivot_facts srcK kept r (H.hsp r hrmem) hrnz hrle (H.hP r hrmem)
  obtain ⟨m, d', hd', hmne, hzero, hcomb⟩ := lineRows3_reverse2 st inz hinz H.hn m0 d0 hm0 hd0
  simp only [hrD] at hcomb
  have hmem := lineCase_final srcK kept.length st inz (by omega) H.hn m d' hmne hd'
  have hd0mem := memC hd0
  refine ⟨d', hmem, ?_⟩
  by_cases hz : d0.sp = 0
  · have hrow := hzero hz
    refine ⟨by rw [hrow], ?_, 1, 0, one_ne_zero, fun _ => one_pos, ?_⟩
    · rw [hrow, ← H.hsp d0 hd0mem]; exact hz
    · rw [hrow, one_smul, zero_smul, add_zero]
  · have hlt : inz < m0 := by
      by_contra hge
      exact hz (hbefore m0 d0 (by omega) hd0)
    have hrow := hcomb hz hlt
    obtain ⟨hle, s, t, hs, hspos, hemb⟩ := combRow_emb (linePivot r) d0 ppos
    obtain ⟨e, _, he⟩ := linePivot_emb r
    refine ⟨by rw [hrow, hle], ?_, s, t * e, hs, hspos, ?_⟩
    · rw [hrow]; exact combRow_srcK srcK (linePivot r) d0 ppos psp (H.hsp d0 hd0mem)
    · rw [hrow, hemb, he, smul_smul]

/-- **the pivot**: for an inequality, the line `r` (or its opposite) is a ray of the result, strictly
inside the new half-space. -/
theorem lineCase_pivot (srcK : LRow) (kept : List LRow) (st : CState) (inz : Nat) (H : StepHyp srcK st kept)
    (hinz : inz < st.nle) (r : DRow) (hr : st.rows[inz]? = some r) (hrnz : r.sp ≠ 0) (hk : srcK.le = false) :
    ∃ pr ∈ (lineCase srcK kept.length st inz).rows, pr.row.le = false ∧
      (∃ e : ℚ, emb pr.row.v = e • emb r.row.v) ∧ 0 < scalarProduct srcK.v pr.row.v := by
  have hrD : st.rows.getD inz default = r := by rw [List.getD_eq_getElem?_getD, hr]; rfl
  have hrmem := memC hr
  have hrle : r.row.le = true := by
    have := H.hl inz r hr
    simpa [hinz] using this
  obtain ⟨pl, ppos, psp, pP⟩ := linePivot_facts srcK kept r (H.hsp r hrmem) hrnz hrle (H.hP r hrmem)
  have hn := H.hn
  have hlen := length_lineRows3 st inz
  have hi : st.nle - 1 < (lineRows3 st inz).length := by rw [hlen]; omega
  obtain ⟨pr, hpr⟩ : ∃ pr, (lineRows3 st inz)[st.nle - 1]? = some pr := by
    rw [List.getElem?_eq_getElem hi]; exact ⟨_, rfl⟩
  have hprrow : pr.row = (linePivot r).row := by
    have := lineRows3_index st inz hinz hn (st.nle - 1) pr hpr
    simp only [hrD] at this
    rcases this with ⟨_, h1, _⟩ | ⟨h1, _⟩
    · exact h1
    · exact absurd rfl h1
  refine ⟨{ pr with sat := setBit pr.sat kept.length }, ?_, ?_, ?_, ?_⟩
  · rw [lineCase_eq]
    simp only [hk, Bool.not_false, if_true]
    refine List.mem_iff_getElem?.mpr ⟨st.nle - 1, ?_⟩
    rw [List.getElem?_modify, hpr]; simp
  · show pr.row.le = false
    rw [hprrow]; exact pl
  · obtain ⟨e, _, he⟩ := linePivot_emb r
    exact ⟨e, by show emb pr.row.v = _; rw [hprrow]; exact he⟩
  · show 0 < scalarProduct srcK.v pr.row.v
    rw [hprrow, ← psp]; exact ppos

/-- **where every result row comes from**: the pivot, an old row, or an old row combined with the pivot. -/
theorem lineCase_row_cases (srcK : LRow) (newK : Nat) (st : CState) (inz : Nat)
    (hinz : inz < st.nle) (hn : st.nle ≤ st.rows.length) (r : DRow) (hr : st.rows[inz]? = some r) :
    ∀ d ∈ (lineCase srcK newK st inz).rows, d.row = (linePivot r).row ∨
      ∃ d0 ∈ st.rows, d.row = d0.row ∨ d.row = combRow (linePivot r).row (linePivot r).sp d0.row d0.sp := by
  intro d hd
  have hrD : st.rows.getD inz default = r := by rw [List.getD_eq_getElem?_getD, hr]; rfl
  obtain ⟨m, dd, hdd, hrow, _⟩ := lineCase_rows_from srcK newK st inz (by omega) hn d hd
  have hidx := lineRows3_index st inz hinz hn m dd hdd
  simp only [hrD] at hidx
  rcases hidx with ⟨_, h1, _⟩ | ⟨_, m0, d0, _, hd0, _, hcases⟩
  · left; rw [hrow, h1]
  · right
    refine ⟨d0, memC hd0, ?_⟩
    rcases hcases with ⟨_, h1, _⟩ | ⟨_, _, h1, _⟩ | ⟨_, _, h1, _⟩
    · left; rw [hrow, h1]
    · right; rw [hrow, h1]
    · left; rw [hrow, h1]

end PPLV.Conv
