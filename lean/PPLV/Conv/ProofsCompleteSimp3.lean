import PPLV.Conv.ProofsCompleteSimp1
import PPLV.Conv.ProofsCompleteSimp2
import PPLV.Conv.ProofsCompleteMin
/-!
# C01 stage 4 — `simplify` drops only redundant rows: from the model rows to the abstract setting

* `ddpair_of_rows` — a constraint system and a generator system that are sound and complete for each other
  on the rows of length `≤ ncols` form an abstract `DDPair` inside `ambient ncols`;
* `exists_interior_rows` — the sum of the rays;
* exact saturation rows, read abstractly: a non-empty row has a ray that does not saturate it
  (`ray_of_nonempty`); `sat[y] ⊆ sat[d]` means every ray saturating `d` saturates `y` (`sat_dom`);
  the generators whose bit is clear are `numSaturators` many (`satList`).
-/
namespace PPLV.Conv
open PPLV.Conv.Abs

theorem satisfies_holds_abs (s g : LRow) (h : satisfies s g) : (conOf s).holds (emb g.v) := by
  obtain ⟨h1, h2⟩ := satisfies_abs s g h
  rw [ACon.holds_iff]
  exact ⟨fun e => h2 (Or.inl (by rwa [conOf_eq] at e)), fun _ => h1⟩

/-- sound + complete on the rows of length `≤ ncols` is an abstract double description pair. -/
theorem ddpair_of_rows (ncols : Nat) (lrows gens : List LRow)
    (hglen : ∀ g ∈ gens, g.v.length ≤ ncols) (hsound : Sound lrows gens)
    (hcomp : ∀ x : Vec, x.length ≤ ncols → holdsAll lrows x → Generated gens x) :
    DDPair (ambient ncols) (lrows.map conOf) (linesOf gens) (raysOf gens) := by
  refine ⟨?_, ?_, ?_, ?_, ?_⟩
  · rintro l ⟨g, hg, _, rfl⟩; exact emb_mem_ambient ncols g.v (hglen g hg)
  · rintro l ⟨g, hg, _, rfl⟩; exact emb_mem_ambient ncols g.v (hglen g hg)
  · rintro l ⟨g, hg, hle, rfl⟩ a ha
    obtain ⟨s, hs, rfl⟩ := List.mem_map.1 ha
    exact (satisfies_abs s g (hsound g hg s hs)).2 (Or.inr hle)
  · rintro r ⟨g, hg, _, rfl⟩ a ha
    obtain ⟨s, hs, rfl⟩ := List.mem_map.1 ha
    exact satisfies_holds_abs s g (hsound g hg s hs)
  · intro y hy hP
    obtain ⟨x, N, hx, hN, e⟩ := ambient_scaled ncols y hy
    have hNq : (0 : ℚ) < N := by exact_mod_cast hN
    have hP' : InP (lrows.map conOf) (emb x) := by
      rw [← e]; intro a ha; exact ACon.holds_smul _ hNq.le (hP a ha)
    have hC := cone_of_generated gens x (hcomp x hx ((holdsAll_iff_abs lrows x).2 hP'))
    have e2 : y = (N : ℚ)⁻¹ • emb x := by rw [← e, smul_smul, inv_mul_cancel₀ hNq.ne', one_smul]
    rw [e2]; exact Cone.smul _ (inv_nonneg.2 hNq.le) hC

/-- the rays of a generator system, as a list. -/
def rayList (gens : List LRow) : List FV := (gens.filter (fun g => !g.le)).map (fun g => emb g.v)

theorem mem_rayList (gens : List LRow) (v : FV) : v ∈ rayList gens ↔ v ∈ raysOf gens := by
  unfold rayList raysOf
  constructor
  · intro h
    obtain ⟨g, hg, rfl⟩ := List.mem_map.1 h
    obtain ⟨hg1, hle⟩ := List.mem_filter.1 hg
    exact ⟨g, hg1, by simpa using hle, rfl⟩
  · rintro ⟨g, hg, hle, rfl⟩
    exact List.mem_map.2 ⟨g, List.mem_filter.2 ⟨hg, by simp [hle]⟩, rfl⟩

/-- the sum of the rays is positive on every row that some ray does not saturate. -/
theorem exists_interior_rows (lrows gens : List LRow) (hsound : Sound lrows gens) :
    ∃ p, Cone (linesOf gens) (raysOf gens) p ∧
      ∀ a ∈ lrows.map conOf, (∃ r ∈ raysOf gens, a.f r ≠ 0) → 0 < a.f p := by
  obtain ⟨p, hp, _, hpos⟩ := exists_interior (lrows.map conOf) (linesOf gens) (rayList gens) (by
    intro r hr a ha
    obtain ⟨g, hg, _, rfl⟩ := (mem_rayList gens r).1 hr
    obtain ⟨s, hs, rfl⟩ := List.mem_map.1 ha
    exact satisfies_holds_abs s g (hsound g hg s hs))
  refine ⟨p, Cone.mono (fun _ h => h) (fun v hv => (mem_rayList gens v).1 hv) hp, ?_⟩
  rintro a ha ⟨r, hr, hne⟩
  exact hpos a ha ⟨r, (mem_rayList gens r).2 hr, hne⟩

/-! ## exact saturation rows, abstractly -/

theorem conOf_emb_zero_iff (s : LRow) (x : Vec) : (conOf s).f (emb x) = 0 ↔ scalarProduct s.v x = 0 := by
  rw [conOf_f_emb]; exact_mod_cast Iff.rfl

/-- a row with a non-empty exact saturation row is not saturated by some RAY (lines saturate everything). -/
theorem ray_of_nonempty {gens : List LRow} {r : SRow} (h : RowOK gens r) (hne : bitsEmpty r.sat = false) :
    ∃ v ∈ raysOf gens, (conOf r.row).f v ≠ 0 := by
  obtain ⟨j, hb⟩ := (bitsEmpty_false_iff _).1 hne
  have hj := h.1.lt_of_bit j hb
  have hsp : scalarProduct r.row.v gens[j].v ≠ 0 := by
    intro h0
    rw [(h.1.bit_iff j hj).2 h0] at hb; cases hb
  have hle : gens[j].le = false := by
    cases e : gens[j].le
    · rfl
    · exfalso
      have := h.2 gens[j] (List.getElem_mem hj)
      unfold satisfies at this
      rw [e, Bool.or_true, if_pos rfl] at this
      exact hsp this
  refine ⟨emb gens[j].v, ⟨gens[j], List.getElem_mem hj, hle, rfl⟩, ?_⟩
  rw [Ne, conOf_emb_zero_iff]; exact hsp

/-- `sat[y] ⊆ sat[d]`: every generator saturating `d` saturates `y`. -/
theorem sat_dom {gens : List LRow} {y d : SRow} (hy : ExactBits gens y) (hd : ExactBits gens d)
    (hsub : subsetOrEqual y.sat d.sat = true) :
    ∀ g ∈ gens, (conOf d.row).f (emb g.v) = 0 → (conOf y.row).f (emb g.v) = 0 := by
  intro g hg h0
  obtain ⟨j, hj, rfl⟩ := List.mem_iff_getElem.1 hg
  rw [conOf_emb_zero_iff] at h0 ⊢
  have hbd := (hd.bit_iff j hj).2 h0
  apply (hy.bit_iff j hj).1
  cases hby : bit y.sat j
  · rfl
  · rw [(subsetOrEqual_iff _ _).1 hsub j hby] at hbd; cases hbd

/-- the generators whose bit in `sat[d]` is clear. -/
def satList (gens : List LRow) (d : SRow) : List FV :=
  ((List.range gens.length).filter (fun j => !bit d.sat j)).map (fun j => emb (gens.getD j default).v)

theorem length_satList {gens : List LRow} {d : SRow} (h : ExactBits gens d) :
    (satList gens d).length = numSaturators gens.length d := by
  unfold satList numSaturators
  rw [List.length_map, ← List.countP_eq_length_filter]
  exact countP_not_bit d.sat gens.length h.lt_of_bit

theorem mem_satList {gens : List LRow} {d : SRow} (h : ExactBits gens d) (g : LRow) (hg : g ∈ gens)
    (h0 : (conOf d.row).f (emb g.v) = 0) : emb g.v ∈ satList gens d := by
  obtain ⟨j, hj, rfl⟩ := List.mem_iff_getElem.1 hg
  rw [conOf_emb_zero_iff] at h0
  have hb := (h.bit_iff j hj).2 h0
  unfold satList
  refine List.mem_map.2 ⟨j, List.mem_filter.2 ⟨List.mem_range.2 hj, by simp [hb]⟩, ?_⟩
  rw [getD_eq_getElem_lrow gens j hj]

end PPLV.Conv
