import PPLV.Conv.ProofsCompleteSimp9
/-!
# C01 stage 4 — the echelon form left by `gauss`

`Linear_System::gauss` (`Linear_System_templates.hh:568-627`) processes the columns `ncols-1, …, 0`.
After the columns `≥ c` have been processed, with `rank` pivots found, there are pivot columns
`piv 0 > piv 1 > … > piv (rank-1)` in `[c, ncols)` such that (`Ech`)

* `zb` — every row `m ∈ [rank, nle)` is zero on the columns `[c, ncols)` (`ZeroBelow`, `ProofsCompleteSimp9`);
* `nz`, `za` — row `p < rank` is non-zero at `piv p` and zero on the columns `(piv p, ncols)`;
* `zp` — every row `m ∈ (p, nle)` is zero at `piv p`.

`gauss_echelon`: the output of `gauss` satisfies `Ech … 0`; `gauss_rank_le`: the rank is `≤ nle`.
Coefficients are read with `getD c 0`: no hypothesis on the lengths of the rows.
-/
namespace PPLV.Conv

/-- the echelon invariant of `gauss` when the columns `[c, ncols)` have been processed. -/
structure Ech (nle ncols c : Nat) (rows : List SRow) (rank : Nat) (piv : Nat → Nat) : Prop where
  rk : rank ≤ nle
  rng : ∀ p, p < rank → c ≤ piv p ∧ piv p < ncols
  dec : ∀ p q, p < q → q < rank → piv q < piv p
  zb : ZeroBelow nle (fun j => c ≤ j ∧ j < ncols) (rows, rank)
  nz : ∀ p, p < rank → (rows.getD p default).row.v.getD (piv p) 0 ≠ 0
  za : ∀ p, p < rank → ∀ j, piv p < j → j < ncols → (rows.getD p default).row.v.getD j 0 = 0
  zp : ∀ p m, p < rank → p < m → m < nle → (rows.getD m default).row.v.getD (piv p) 0 = 0

theorem mapIdx_combF_col_zero (rows : List SRow) (P : Nat → SRow → Prop) [∀ k r, Decidable (P k r)]
    (y : LRow) (j m c : Nat) (hm : m < rows.length)
    (h1 : (rows.getD m default).row.v.getD c 0 = 0) (h2 : y.v.getD c 0 = 0) :
    ((rows.mapIdx (combF P y j)).getD m default).row.v.getD c 0 = 0 := by
  rw [getD_mapIdx rows _ m hm]
  unfold combF
  split
  · exact rowLinearCombine_col_zero _ _ j c h1 h2
  · exact h1

theorem mapIdx_combF_of_not (rows : List SRow) (P : Nat → SRow → Prop) [∀ k r, Decidable (P k r)]
    (y : LRow) (j m : Nat) (hm : m < rows.length) (h : ¬ P m (rows.getD m default)) :
    (rows.mapIdx (combF P y j)).getD m default = rows.getD m default := by
  rw [getD_mapIdx rows _ m hm, combF_of_not _ _ _ _ _ h]

/-- the column `j` has a pivot at row `i`: the new pivot column is `j`. -/
theorem gaussColumn_some_ech (nle ncols j : Nat) (rows : List SRow) (rank : Nat) (piv : Nat → Nat) (i : Nat)
    (hI : GInv nle rows) (hj : j < ncols) (hE : Ech nle ncols (j + 1) rows rank piv)
    (hri : rank ≤ i) (hin : i < nle) (hp : (rows.getD i default).row.v.getD j 0 ≠ 0)
    (P : Nat → SRow → Prop) [∀ k r, Decidable (P k r)] (hP : ∀ k r, P k r → i + 1 ≤ k)
    (out : List SRow)
    (hout : out = (gaussSwap rows i rank).mapIdx
      (combF P ((gaussSwap rows i rank).getD rank default).row j))
    (hZ : ZeroBelow nle (fun c => j ≤ c ∧ c < ncols) (out, rank + 1)) :
    Ech nle ncols j out (rank + 1) (fun p => if p = rank then j else piv p) := by
  subst hout
  have hil : i < rows.length := by have := hI.1; omega
  have hnl : nle ≤ rows.length := hI.1
  have hl1 : (gaussSwap rows i rank).length = rows.length := length_gaussSwap rows i rank
  have hr1 : ∀ m, ((gaussSwap rows i rank).getD m default).row =
      if m = rank then (rows.getD i default).row
      else if m = i then (rows.getD rank default).row else (rows.getD m default).row :=
    fun m => gaussSwap_row rows i rank m hri hil
  have hkeep : ∀ m, m ≤ i →
      ((gaussSwap rows i rank).mapIdx (combF P ((gaussSwap rows i rank).getD rank default).row j)).getD m default
        = (gaussSwap rows i rank).getD m default := by
    intro m hm
    exact mapIdx_combF_of_not _ P _ j m (by omega) (fun h => by have := hP _ _ h; omega)
  have hU : ∀ m, m < rank →
      (((gaussSwap rows i rank).mapIdx (combF P ((gaussSwap rows i rank).getD rank default).row j)).getD m
        default).row = (rows.getD m default).row := by
    intro m hm
    rw [hkeep m (by omega), hr1 m, if_neg (by omega), if_neg (by omega)]
  have hR : (((gaussSwap rows i rank).mapIdx (combF P ((gaussSwap rows i rank).getD rank default).row j)).getD
      rank default).row = (rows.getD i default).row := by
    rw [hkeep rank hri, hr1 rank, if_pos rfl]
  have hpz : ∀ c, (∀ m, rank ≤ m → m < nle → (rows.getD m default).row.v.getD c 0 = 0) →
      ∀ m, rank ≤ m → m < nle →
      (((gaussSwap rows i rank).mapIdx (combF P ((gaussSwap rows i rank).getD rank default).row j)).getD m
        default).row.v.getD c 0 = 0 := by
    intro c hc m h1 h2
    apply mapIdx_combF_col_zero _ P _ j m c (by omega)
    · rw [hr1 m]
      split
      · exact hc i hri hin
      · split
        · exact hc rank (Nat.le_refl _) (by omega)
        · exact hc m h1 h2
    · rw [hr1 rank, if_pos rfl]; exact hc i hri hin
  refine ⟨by omega, fun p hp1 => ?_, fun p q hpq hq => ?_, hZ, fun p hp1 => ?_, fun p hp1 c hc1 hc2 => ?_,
    fun p m hp1 hpm hm => ?_⟩
  · show j ≤ (if p = rank then j else piv p) ∧ (if p = rank then j else piv p) < ncols
    split
    · exact ⟨Nat.le_refl _, hj⟩
    · have := hE.rng p (by omega); exact ⟨by omega, this.2⟩
  · show (if q = rank then j else piv q) < (if p = rank then j else piv p)
    rw [if_neg (by omega : ¬ p = rank)]
    split
    · exact (hE.rng p (by omega)).1
    · exact hE.dec p q hpq (by omega)
  · show (SRow.row (List.getD _ p default)).v.getD (if p = rank then j else piv p) 0 ≠ 0
    by_cases e : p = rank
    · rw [if_pos e, e, hR]; exact hp
    · rw [if_neg e, hU p (by omega)]; exact hE.nz p (by omega)
  · have hc1' : (if p = rank then j else piv p) < c := hc1
    by_cases e : p = rank
    · rw [if_pos e] at hc1'
      rw [e, hR]
      exact hE.zb i hri hin c ⟨by omega, hc2⟩
    · rw [if_neg e] at hc1'
      rw [hU p (by omega)]
      exact hE.za p (by omega) c hc1' hc2
  · show (SRow.row (List.getD _ m default)).v.getD (if p = rank then j else piv p) 0 = 0
    by_cases e : p = rank
    · rw [if_pos e]
      exact hZ m (by show rank + 1 ≤ m; omega) hm j ⟨Nat.le_refl _, hj⟩
    · rw [if_neg e]
      have hp' : p < rank := by omega
      by_cases hmr : m < rank
      · rw [hU m hmr]; exact hE.zp p m hp' hpm hm
      · exact hpz (piv p) (fun m' _ h2 => hE.zp p m' hp' (by omega) h2) m (by omega) hm

/-- one column of `gauss` keeps the echelon invariant. -/
theorem gaussColumn_ech (nle ncols j : Nat) (rows : List SRow) (rank : Nat) (piv : Nat → Nat)
    (hI : GInv nle rows) (hj : j < ncols) (hE : Ech nle ncols (j + 1) rows rank piv) :
    ∃ piv', Ech nle ncols j (gaussColumn nle j (rows, rank)).1 (gaussColumn nle j (rows, rank)).2 piv' := by
  have hZ : ZeroBelow nle (fun c => j ≤ c ∧ c < ncols) (gaussColumn nle j (rows, rank)) := by
    have h := gaussColumn_zeroBelow nle j (fun c => j + 1 ≤ c ∧ c < ncols) rows rank hI hE.zb
    intro m h1 h2 c hc
    apply h m h1 h2 c
    by_cases e : c = j
    · exact Or.inr e
    · exact Or.inl ⟨by omega, hc.2⟩
  cases hf : (List.range' rank (nle - rank)).find? (fun i => (rows.getD i default).row.v.getD j 0 != 0) with
  | none =>
    rw [gaussColumn_none nle j rows rank hf] at hZ ⊢
    exact ⟨piv, hE.rk, fun p hp => ⟨by have := (hE.rng p hp).1; omega, (hE.rng p hp).2⟩, hE.dec, hZ, hE.nz,
      hE.za, hE.zp⟩
  | some i =>
    rw [gaussColumn_some nle j rows rank i hf] at hZ ⊢
    rw [List.find?_range'_eq_some] at hf
    obtain ⟨hp, hmem, _⟩ := hf
    rw [List.mem_range'_1] at hmem
    have hp' : (rows.getD i default).row.v.getD j 0 ≠ 0 := by simpa using hp
    exact ⟨_, gaussColumn_some_ech nle ncols j rows rank piv i hI hj hE hmem.1 (by omega) hp'
      _ (fun _ _ h => h.1) _ rfl hZ⟩

theorem gauss_fold_ech (nle ncols : Nat) : ∀ (c : Nat) (rows : List SRow) (rank : Nat) (piv : Nat → Nat),
    c ≤ ncols → GInv nle rows → Ech nle ncols c rows rank piv →
    ∃ piv', Ech nle ncols 0 ((List.range c).reverse.foldl (fun st j => gaussColumn nle j st) (rows, rank)).1
      ((List.range c).reverse.foldl (fun st j => gaussColumn nle j st) (rows, rank)).2 piv'
  | 0, _, _, piv, _, _, hE => ⟨piv, hE⟩
  | c + 1, rows, rank, piv, hc, hI, hE => by
    rw [List.range_succ, List.reverse_append, List.reverse_singleton, List.singleton_append, List.foldl_cons]
    obtain ⟨piv1, h1⟩ := gaussColumn_ech nle ncols c rows rank piv hI (by omega) hE
    have hI1 := (gaussColumn_keeps nle c rows rank hI).2.1
    exact gauss_fold_ech nle ncols c _ _ piv1 (by omega) hI1 h1

/-- **the output of `gauss` is in echelon form**: pivot columns `piv 0 > … > piv (rank-1)` below `ncols`,
row `p < rank` non-zero at `piv p` and zero to the right of it (below `ncols`), the rows `(p, nle)` zero at
`piv p`, the rows `[rank, nle)` zero on the first `ncols` columns. -/
theorem gauss_echelon (ncols nle : Nat) (rows : List SRow) (hI : GInv nle rows) :
    ∃ piv, Ech nle ncols 0 (gauss ncols nle rows).1 (gauss ncols nle rows).2 piv := by
  unfold gauss
  refine gauss_fold_ech nle ncols ncols rows 0 (fun _ => 0) (Nat.le_refl _) hI
    ⟨Nat.zero_le _, fun p hp => by omega, fun p q _ hq => by omega, fun m _ _ c hc => by omega,
      fun p hp => by omega, fun p hp => by omega, fun p m hp => by omega⟩

theorem gaussColumn_rank_le (nle j : Nat) (st : List SRow × Nat) (h : st.2 ≤ nle) :
    (gaussColumn nle j st).2 ≤ nle := by
  obtain ⟨rows, rank⟩ := st
  cases hf : (List.range' rank (nle - rank)).find? (fun i => (rows.getD i default).row.v.getD j 0 != 0) with
  | none => rw [gaussColumn_none nle j rows rank hf]; exact h
  | some i =>
    rw [gaussColumn_some nle j rows rank i hf]
    have hmem := List.mem_of_find?_eq_some hf
    rw [List.mem_range'_1] at hmem
    show rank + 1 ≤ nle
    omega

theorem gauss_fold_rank_le (nle : Nat) : ∀ (cols : List Nat) (st : List SRow × Nat), st.2 ≤ nle →
    (cols.foldl (fun st j => gaussColumn nle j st) st).2 ≤ nle
  | [], _, h => h
  | j :: cols, st, h => by
    rw [List.foldl_cons]
    exact gauss_fold_rank_le nle cols _ (gaussColumn_rank_le nle j st h)

/-- the rank returned by `gauss` is at most the number of equalities. -/
theorem gauss_rank_le (ncols nle : Nat) (rows : List SRow) : (gauss ncols nle rows).2 ≤ nle :=
  gauss_fold_rank_le nle _ _ (Nat.zero_le _)

end PPLV.Conv
