import PPLV.Conv.ProofsCompleteLine4
import PPLV.Conv.ProofsCompleteAbs3
/-!
# C01 stage 4 — the line case of `conversion` maintains the completeness invariant `CExtra`
-/
namespace PPLV.Conv
open PPLV.Conv.Abs

theorem lineStepComplete : LineStepComplete :=
  fun U A L R L' R' c l₀ hcomplete hc hline hray hpiv =>
    line_step_complete U A L R L' R' c l₀ hcomplete hc hline hray hpiv

/-- field `complete` of `CExtra` after the line case. -/
theorem lineCase_extra_complete (ncols : Nat) (srcK : LRow) (kept : List LRow)
    (st : CState) (inz : Nat) (H : StepHyp srcK st kept) (hinz : inz < st.nle)
    (hbefore : ∀ m d, m < inz → st.rows[m]? = some d → d.sp = 0)
    (hnz : ∃ r, st.rows[inz]? = some r ∧ r.sp ≠ 0) (X : CExtra ncols kept st) :
    ∀ y ∈ ambient ncols, InP ((kept ++ [srcK]).map conOf) y →
      Cone (linesOf (lineCase srcK kept.length st inz).gens) (raysOf (lineCase srcK kept.length st inz).gens) y :=
  lineCase_extra_complete_of lineStepComplete ncols srcK kept st inz H hinz hbefore hnz X

/-- **the line case maintains the stage-4 invariant.** -/
theorem lineCase_extra (ncols : Nat) (srcK : LRow) (kept : List LRow) (st : CState) (inz : Nat)
    (H : StepHyp srcK st kept)
    (hinz : inz < st.nle) (hbefore : ∀ m d, m < inz → st.rows[m]? = some d → d.sp = 0)
    (hnz : ∃ r, st.rows[inz]? = some r ∧ r.sp ≠ 0) (hsat : RowsSatCorrect kept st.rows)
    (X : CExtra ncols kept st) : CExtra ncols (kept ++ [srcK]) (lineCase srcK kept.length st inz) :=
  lineCase_extra_of lineStepComplete ncols srcK kept st inz H hinz hbefore hnz hsat X

end PPLV.Conv
