import PPLV.Conv.ProofsCompleteSimp7
import PPLV.Conv.ProofsCompleteSimp9
/-!
# C01 stage 4 — `simplify` drops only redundant rows: the phases put together

On records that are `RowOK` against a complete generator system:

* `simpT_redundant` — every vector of length `≤ ncols` satisfying the list handed to `back_substitute`
  (after `eqDetectLoop`, `gauss`, the removal of the redundant equalities, the saturation rule, the
  independence rule) satisfies the input, GIVEN `hrank`: the returned number of equalities is `< ncols`
  (so `num_columns - num_equalities - 1` does not wrap);
* `simplify_redundant_core` — the same for the result of `simplify`, GIVEN moreover `hpiv`:
  `back_substitute` meets no zero pivot row (`BackSubPivots`, the code's own assertion).
-/
namespace PPLV.Conv
open PPLV.Conv.Abs

/-- after `gauss`. -/
def simpG (ncols : Nat) (sys : List SRow) : List SRow × Nat := gauss ncols (simpE sys).2 (simpE sys).1
/-- after the removal of the redundant equalities. -/
def simpP (ncols : Nat) (sys : List SRow) : List SRow × Nat :=
  dropPhase (simpE sys).2 sys.length (simpG ncols sys).1 (simpG ncols sys).2
/-- after the saturation rule. -/
def simpS (ncols numColsSat : Nat) (sys : List SRow) : List SRow :=
  satRuleLoop (simpP ncols sys).1.length numColsSat (usub (usub ncols (simpP ncols sys).2) 1)
    (simpP ncols sys).1 (simpP ncols sys).2
/-- after the independence rule (the list handed to `back_substitute`). -/
def simpT (ncols numColsSat : Nat) (sys : List SRow) : List SRow :=
  indepLoop (simpS ncols numColsSat sys).length (simpP ncols sys).2 (simpS ncols numColsSat sys)
    (simpP ncols sys).2

theorem simplify_eq' (ncols numColsSat : Nat) (sys : List SRow) :
    simplify ncols numColsSat sys =
      (backSubstitute (simpP ncols sys).2 (simpT ncols numColsSat sys), (simpP ncols sys).2) := rfl

theorem simpT_redundant (ncols numColsSat : Nat) (sys : List SRow) (gens : List LRow)
    (hncs : numColsSat = gens.length) (hOK : ∀ r ∈ sys, RowOK gens r)
    (hcomp : ∀ x : Vec, x.length ≤ ncols → holdsAll (sys.map (·.row)) x → Generated gens x)
    (hglen : ∀ g ∈ gens, g.v.length ≤ ncols) (hsz : ncols < 2 ^ 64)
    (hrank : (simplify ncols numColsSat sys).2 + 1 ≤ ncols) :
    GInv (simpP ncols sys).2 (simpT ncols numColsSat sys) ∧
    ∀ x : Vec, x.length ≤ ncols → holdsAll ((simpT ncols numColsSat sys).map (·.row)) x →
      holdsAll (sys.map (·.row)) x := by
  subst hncs
  have eInv := simpE_phaseInv ncols gens sys hOK hcomp
  have el := (simpE_facts gens sys hOK).1
  have gInv := gauss_phaseInv ncols gens (simpE sys).2 (simpE sys).1 eInv
  have gl : (simpG ncols sys).1.length = sys.length :=
    (gauss_length ncols _ _ eInv.ginv.2 eInv.ginv.1).trans el
  obtain ⟨pInv, pRed⟩ := dropPhase_phaseInv ncols gens (simpE sys).2 (simpG ncols sys).2
    (simpG ncols sys).1 gInv (gauss_zero_rows_sp ncols (simpE sys).2 (simpE sys).1 eInv.ginv)
  rw [gl] at pInv pRed
  change PhaseInv ncols gens (simpP ncols sys).2 (simpP ncols sys).1 at pInv
  change ∀ x : Vec, x.length ≤ ncols → holdsAll ((simpP ncols sys).1.map (·.row)) x → _ at pRed
  have hrank' : (simpP ncols sys).2 + 1 ≤ ncols := hrank
  obtain ⟨sInv, sRed⟩ := satRuleLoop_inv ncols gens (simpP ncols sys).2 hglen hrank' hsz
    (simpP ncols sys).1.length (simpP ncols sys).1 (simpP ncols sys).2 (Nat.le_refl _) pInv
  change PhaseInv ncols gens (simpP ncols sys).2 (simpS ncols gens.length sys) at sInv
  change ∀ x : Vec, x.length ≤ ncols → holdsAll ((simpS ncols gens.length sys).map (·.row)) x → _ at sRed
  have tRed := indepLoop_redundant ncols gens (simpP ncols sys).2 (simpS ncols gens.length sys)
    (simpS ncols gens.length sys).length hglen sInv (Nat.le_refl _)
  have tT := indepLoop_take (simpS ncols gens.length sys).length (simpP ncols sys).2
    (simpS ncols gens.length sys) (Nat.le_refl _)
  change ∀ x : Vec, x.length ≤ ncols → holdsAll ((simpT ncols gens.length sys).map (·.row)) x → _ at tRed
  change (simpT ncols gens.length sys).take _ = _ at tT
  refine ⟨GInv_of_take _ _ _ tT sInv.ginv, fun x hx h1 => ?_⟩
  have h2 := pRed x hx (sRed x hx (tRed x hx h1))
  have h3 := (gauss_same_set ncols _ _ eInv.ginv.2 eInv.ginv.1 x).1 h2
  exact eqDetectLoop_complete _ sys _ _ x h3

theorem simplify_redundant_core (ncols numColsSat : Nat) (sys : List SRow) (gens : List LRow)
    (hncs : numColsSat = gens.length) (hOK : ∀ r ∈ sys, RowOK gens r)
    (hcomp : ∀ x : Vec, x.length ≤ ncols → holdsAll (sys.map (·.row)) x → Generated gens x)
    (hglen : ∀ g ∈ gens, g.v.length ≤ ncols) (hsz : ncols < 2 ^ 64)
    (hrank : (simplify ncols numColsSat sys).2 + 1 ≤ ncols)
    (hpiv : BackSubPivots (simpP ncols sys).2 (List.range (simpP ncols sys).2).reverse
      (simpT ncols numColsSat sys)) :
    ∀ x : Vec, x.length ≤ ncols → holdsAll ((simplify ncols numColsSat sys).1.map (·.row)) x →
      holdsAll (sys.map (·.row)) x := by
  obtain ⟨tI, tRed⟩ := simpT_redundant ncols numColsSat sys gens hncs hOK hcomp hglen hsz hrank
  intro x hx hh
  rw [simplify_eq'] at hh
  exact tRed x hx ((backSubstitute_same_set _ _ tI.2 tI.1 hpiv x).1 hh)

end PPLV.Conv
