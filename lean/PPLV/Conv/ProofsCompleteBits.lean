import PPLV.Conv.ProofsSimp2
import PPLV.Conv.ProofsBits
import Mathlib.Tactic.Linarith
/-!
# C01 stage 4 — counting bits: what the quick adjacency tests of `conversion` compute
-/
namespace PPLV.Conv

theorem bitsEmpty_iff (x : BRow) : bitsEmpty x = true ↔ ∀ j, bit x j = false := by
  unfold bitsEmpty
  induction x with
  | nil => simp [bit_nil]
  | cons b xs ih =>
    simp only [List.all_cons, Bool.and_eq_true, ih]
    constructor
    · rintro ⟨h0, h1⟩ j
      cases j with
      | zero => rw [bit_cons_zero]; simpa using h0
      | succ j => rw [bit_cons_succ]; exact h1 j
    · intro h
      refine ⟨?_, fun j => ?_⟩
      · have := h 0; rw [bit_cons_zero] at this; simp [this]
      · have := h (j + 1); rw [bit_cons_succ] at this; exact this

theorem bitsEmpty_false_iff (x : BRow) : bitsEmpty x = false ↔ ∃ j, bit x j = true := by
  constructor
  · intro h
    by_contra hc
    have : bitsEmpty x = true := (bitsEmpty_iff x).2 fun j => by
      cases hb : bit x j
      · rfl
      · exact absurd ⟨j, hb⟩ hc
    rw [h] at this; cases this
  · rintro ⟨j, hj⟩
    cases hb : bitsEmpty x
    · rfl
    · have := (bitsEmpty_iff x).1 hb j
      rw [hj] at this; cases this

theorem bit_ge_length (x : BRow) (j : Nat) (h : x.length ≤ j) : bit x j = false := by
  unfold bit
  rw [List.getD_eq_getElem?_getD, List.getElem?_eq_none h]; rfl

/-- `count_ones()` counts the set bits below the length. -/
theorem countOnes_eq_countP_length (x : BRow) :
    countOnes x = (List.range x.length).countP (fun j => bit x j) := by
  induction x with
  | nil => simp [countOnes]
  | cons b xs ih =>
    rw [List.length_cons, List.range_succ_eq_map, List.countP_cons, List.countP_map]
    have e : ((fun j => bit (b :: xs) j) ∘ Nat.succ) = fun j => bit xs j := by
      funext j; simp [bit_cons_succ]
    rw [e, ← ih, bit_cons_zero]
    unfold countOnes
    rw [List.count_cons]
    cases b <;> simp

theorem countP_range_extend (p : Nat → Bool) (n m : Nat) (hnm : n ≤ m) (h : ∀ j, n ≤ j → p j = false) :
    (List.range m).countP p = (List.range n).countP p := by
  obtain ⟨k, rfl⟩ := Nat.exists_eq_add_of_le hnm
  rw [List.range_add, List.countP_append]
  have : (List.map (fun x => n + x) (List.range k)).countP p = 0 := by
    rw [List.countP_eq_zero]
    intro a ha
    obtain ⟨i, _, rfl⟩ := List.mem_map.mp ha
    simp [h (n + i) (by omega)]
  omega

/-- `count_ones()` counts the set bits below any bound beyond which no bit is set. -/
theorem countOnes_eq_countP (x : BRow) (n : Nat) (h : ∀ j, bit x j = true → j < n) :
    countOnes x = (List.range n).countP (fun j => bit x j) := by
  have hn : ∀ j, n ≤ j → bit x j = false := by
    intro j hj
    cases hb : bit x j
    · rfl
    · have := h j hb; omega
  rw [countOnes_eq_countP_length]
  rw [← countP_range_extend (fun j => bit x j) x.length (max x.length n) (Nat.le_max_left _ _)
        (fun j hj => bit_ge_length x j hj),
      ← countP_range_extend (fun j => bit x j) n (max x.length n) (Nat.le_max_right _ _) hn]

theorem countP_or_split (p q : Nat → Bool) (l : List Nat) :
    l.countP (fun j => p j || q j) = l.countP p + l.countP (fun j => !p j && q j) := by
  induction l with
  | nil => simp
  | cons a as ih =>
    simp only [List.countP_cons, ih]
    cases p a <;> cases q a <;> simp <;> omega

theorem countP_one_unique (r : Nat → Bool) (l : List Nat) (hl : l.Nodup) (h : l.countP r = 1) :
    ∃ e ∈ l, r e = true ∧ ∀ j ∈ l, r j = true → j = e := by
  induction l with
  | nil => simp at h
  | cons a as ih =>
    rw [List.countP_cons] at h
    have hnd := List.nodup_cons.mp hl
    by_cases ha : r a = true
    · simp only [ha, if_true] at h
      have h0 : as.countP r = 0 := by omega
      rw [List.countP_eq_zero] at h0
      refine ⟨a, List.mem_cons_self, ha, ?_⟩
      intro j hj hr
      rcases List.mem_cons.mp hj with rfl | hj
      · rfl
      · exact absurd hr (h0 j hj)
    · simp only [ha, Bool.false_eq_true, if_false, Nat.add_zero] at h
      obtain ⟨e, he, hre, hu⟩ := ih hnd.2 h
      refine ⟨e, List.mem_cons_of_mem _ he, hre, ?_⟩
      intro j hj hr
      rcases List.mem_cons.mp hj with rfl | hj
      · exact absurd hr ha
      · exact hu j hj hr

/-- the union has exactly one bit more than `a`: `b` has exactly one bit outside `a`. -/
theorem bor_count_succ (a b : BRow) (n : Nat) (ha : ∀ j, bit a j = true → j < n) (hb : ∀ j, bit b j = true → j < n)
    (h : countOnes (bor a b) = countOnes a + 1) :
    ∃ e, bit b e = true ∧ bit a e = false ∧ ∀ j, bit b j = true → bit a j = true ∨ j = e := by
  have hab : ∀ j, bit (bor a b) j = true → j < n := by
    intro j hj
    rw [bit_bor] at hj
    rcases Bool.or_eq_true _ _ |>.mp hj with h1 | h1
    · exact ha j h1
    · exact hb j h1
  rw [countOnes_eq_countP _ n hab, countOnes_eq_countP _ n ha] at h
  have e1 : (fun j => bit (bor a b) j) = fun j => bit a j || bit b j := by
    funext j; exact bit_bor a b j
  rw [e1, countP_or_split] at h
  have h1 : (List.range n).countP (fun j => !bit a j && bit b j) = 1 := by
    have h' : ∀ x y : Nat, x + y = x + 1 → y = 1 := by omega
    exact h' _ _ h
  obtain ⟨e, _, hre, hu⟩ := countP_one_unique _ _ List.nodup_range h1
  have hre' : bit a e = false ∧ bit b e = true := by simpa using hre
  refine ⟨e, hre'.2, hre'.1, ?_⟩
  intro j hj
  cases hja : bit a j
  · right
    exact hu j (List.mem_range.mpr (hb j hj)) (by simp [hja, hj])
  · left; rfl

theorem bor_count_succ' (a b : BRow) (n : Nat) (ha : ∀ j, bit a j = true → j < n) (hb : ∀ j, bit b j = true → j < n)
    (h : countOnes (bor a b) = countOnes b + 1) :
    ∃ e, bit a e = true ∧ bit b e = false ∧ ∀ j, bit a j = true → bit b j = true ∨ j = e := by
  have hab : ∀ j, bit (bor a b) j = true → j < n := by
    intro j hj
    rw [bit_bor] at hj
    rcases Bool.or_eq_true _ _ |>.mp hj with h1 | h1
    · exact ha j h1
    · exact hb j h1
  rw [countOnes_eq_countP _ n hab, countOnes_eq_countP _ n hb] at h
  have e1 : (fun j => bit (bor a b) j) = fun j => bit b j || bit a j := by
    funext j; rw [bit_bor, Bool.or_comm]
  rw [e1, countP_or_split] at h
  have h1 : (List.range n).countP (fun j => !bit b j && bit a j) = 1 := by
    have h' : ∀ x y : Nat, x + y = x + 1 → y = 1 := by omega
    exact h' _ _ h
  obtain ⟨e, _, hre, hu⟩ := countP_one_unique _ _ List.nodup_range h1
  have hre' : bit b e = false ∧ bit a e = true := by simpa using hre
  refine ⟨e, hre'.2, hre'.1, ?_⟩
  intro j hj
  cases hjb : bit b j
  · right
    exact hu j (List.mem_range.mpr (ha j hj)) (by simp [hjb, hj])
  · left; rfl

/-- the number of columns below `n` where the row has no bit: `n - count_ones()`. -/
theorem countP_not_bit (x : BRow) (n : Nat) (h : ∀ j, bit x j = true → j < n) :
    (List.range n).countP (fun j => !bit x j) = n - countOnes x := by
  rw [countOnes_eq_countP x n h]
  have := List.length_eq_countP_add_countP (fun j => bit x j) (l := List.range n)
  rw [List.length_range] at this
  have e : (fun j => !bit x j) = fun j => decide ¬ (bit x j = true) := by
    funext j; cases bit x j <;> simp
  rw [e]
  simp only [Bool.not_eq_true] at this ⊢
  omega

/-- `a - b` on `dimension_type` when nothing wraps. -/
theorem usub_eq (a b : Nat) (ha : a < 2 ^ 64) (hb : b ≤ a) : usub a b = a - b := by
  unfold usub
  have e : (2 : Nat) ^ 64 = 18446744073709551616 := by norm_num
  rw [e] at ha ⊢
  omega

end PPLV.Conv
